import Cfdm.Model.H5Index
import Cfdm.Lemmas.LazySim
/- Helper lemmas for the h5netcdf path of `netcdf_indexer` (`_variable_subspace`). -/
namespace Cfdm.H5Index
open Cfdm.PySlice Cfdm.Arr Cfdm.Indexing Cfdm.Lazy

/-! ### strictly increasing lists, `np.unique` -/

theorem si_cons_iff (a : Nat) (l : List Nat) :
    strictlyIncreasing (a :: l) = true ↔ (∀ z ∈ l, a < z) ∧ strictlyIncreasing l = true := by
  induction l generalizing a with
  | nil => simp [strictlyIncreasing]
  | cons b rest ih =>
    simp only [strictlyIncreasing, Bool.and_eq_true, decide_eq_true_eq, List.mem_cons, forall_eq_or_imp]
    constructor
    · rintro ⟨hab, hs⟩
      have := (ih b).mp hs
      exact ⟨⟨hab, fun z hz => Nat.lt_trans hab (this.1 z hz)⟩, hs⟩
    · rintro ⟨⟨hab, _⟩, hs⟩
      exact ⟨hab, hs⟩

theorem si_iff_pairwise (l : List Nat) : strictlyIncreasing l = true ↔ l.Pairwise (· < ·) := by
  induction l with
  | nil => simp [strictlyIncreasing]
  | cons a rest ih => rw [si_cons_iff, List.pairwise_cons, ih]

theorem mem_insertU (x y : Nat) (l : List Nat) : y ∈ insertU x l ↔ y = x ∨ y ∈ l := by
  induction l with
  | nil => simp [insertU]
  | cons z zs ih =>
    unfold insertU
    split
    · simp
    · split
      · rename_i h1 h2; subst h2; simp
      · simp only [List.mem_cons, ih]
        constructor
        · rintro (h | h | h)
          · exact Or.inr (Or.inl h)
          · exact Or.inl h
          · exact Or.inr (Or.inr h)
        · rintro (h | h | h)
          · exact Or.inr (Or.inl h)
          · exact Or.inl h
          · exact Or.inr (Or.inr h)

theorem insertU_sorted (x : Nat) (l : List Nat) (h : strictlyIncreasing l = true) :
    strictlyIncreasing (insertU x l) = true := by
  induction l with
  | nil => simp [insertU, strictlyIncreasing]
  | cons y ys ih =>
    have hy := (si_cons_iff y ys).mp h
    unfold insertU
    split
    · rename_i hxy
      rw [si_cons_iff]
      refine ⟨?_, h⟩
      intro z hz
      rcases List.mem_cons.mp hz with rfl | hz
      · exact hxy
      · exact Nat.lt_trans hxy (hy.1 z hz)
    · split
      · exact h
      · rename_i h1 h2
        rw [si_cons_iff]
        refine ⟨?_, ih hy.2⟩
        intro z hz
        rcases (mem_insertU x z ys).mp hz with rfl | hz
        · omega
        · exact hy.1 z hz

theorem unique_sorted (l : List Nat) : strictlyIncreasing (unique l) = true := by
  induction l with
  | nil => simp [unique, strictlyIncreasing]
  | cons x xs ih => exact insertU_sorted x _ ih

theorem mem_unique (x : Nat) (l : List Nat) : x ∈ unique l ↔ x ∈ l := by
  induction l with
  | nil => simp [unique]
  | cons y ys ih =>
    show x ∈ insertU y (unique ys) ↔ _
    rw [mem_insertU, ih, List.mem_cons]

theorem insertU_lt_all (x : Nat) (l : List Nat) (h : ∀ z ∈ l, x < z) : insertU x l = x :: l := by
  cases l with
  | nil => rfl
  | cons y ys => simp [insertU, h y (List.mem_cons_self)]

theorem insertU_gt_all (x : Nat) (l : List Nat) (h : ∀ z ∈ l, z < x) : insertU x l = l ++ [x] := by
  induction l with
  | nil => rfl
  | cons y ys ih =>
    have hy := h y (List.mem_cons_self)
    have h1 : ¬ x < y := by omega
    have h2 : ¬ x = y := by omega
    simp only [insertU, h1, h2, if_false, List.cons_append]
    rw [ih (fun z hz => h z (List.mem_cons_of_mem _ hz))]

/-- `np.unique` leaves a strictly increasing list alone. -/
theorem unique_of_increasing (l : List Nat) (h : strictlyIncreasing l = true) : unique l = l := by
  induction l with
  | nil => rfl
  | cons x xs ih =>
    have hx := (si_cons_iff x xs).mp h
    show insertU x (unique xs) = _
    rw [ih hx.2, insertU_lt_all x xs hx.1]

/-- `np.unique` of a strictly decreasing list is its reversal. -/
theorem unique_of_decreasing (l : List Nat) (h : l.Pairwise (· > ·)) : unique l = l.reverse := by
  induction l with
  | nil => rfl
  | cons x xs ih =>
    have hx := List.pairwise_cons.mp h
    show insertU x (unique xs) = _
    rw [ih hx.2, insertU_gt_all x _ (by intro z hz; exact hx.1 z (List.mem_reverse.mp hz)), List.reverse_cons]

/-- Indexing `np.unique(i)` with the inverse gives `i` back. -/
theorem inverse_spec (q : List Nat) :
    (inverse q).map (fun j => (unique q).getD j 0) = q := by
  unfold inverse
  rw [List.map_map]
  conv => rhs; rw [← List.map_id q]
  apply List.map_congr_left
  intro x hx
  have hm : x ∈ unique q := (mem_unique x q).mpr hx
  have hlt : List.idxOf x (unique q) < (unique q).length := List.idxOf_lt_length_iff.mpr hm
  simp only [Function.comp, id, List.getD_eq_getElem?_getD, List.getElem?_eq_getElem hlt, Option.getD_some]
  exact List.getElem_idxOf hlt

theorem range_map_getD (p : List Nat) : (List.range p.length).map (fun j => p.getD j 0) = p := by
  apply List.ext_getElem
  · simp
  · intro i h1 h2
    simp only [List.length_map, List.length_range] at h1
    simp [List.getD_eq_getElem?_getD, List.getElem?_eq_getElem h1]

theorem range_reverse_map_getD (p : List Nat) :
    (List.range p.length).reverse.map (fun j => p.getD j 0) = p.reverse := by
  rw [List.map_reverse, range_map_getD]


/-! ### a negative-step slice read in ascending order -/

/-- The ascending slice anchored on the last selected element selects the same positions in the
opposite order: `range(s + (m)c, s + 1, -c) = reversed(range(s, e, c))` when the latter has `m + 1`
elements. -/
theorem rangeList_reversed (s e c : Int) (hc : c < 0) (m : Nat) (hL : rangeLen s e c = m + 1) :
    rangeList (s + (m : Int) * c) (s + 1) (-c) = (rangeList s e c).reverse := by
  have hlen : rangeLen (s + (m : Int) * c) (s + 1) (-c) = m + 1 := by
    unfold rangeLen
    have h1 : (0 : Int) < -c := by omega
    have hm : (m : Int) * c ≤ 0 := Int.mul_nonpos_of_nonneg_of_nonpos (by omega) (by omega)
    have h2 : s + (m : Int) * c < s + 1 := by omega
    simp only [h1, h2, if_true]
    have h3 : s + 1 - (s + (m : Int) * c) - 1 = (m : Int) * (-c) := by ring
    rw [h3, Int.mul_ediv_cancel _ (by omega : (-c) ≠ 0)]
    omega
  apply List.ext_getElem
  · simp [rangeList, hlen, hL]
  · intro i h1 h2
    simp only [rangeList, List.length_map, List.length_range, hlen] at h1
    simp only [rangeList, List.getElem_map, List.getElem_range, List.getElem_reverse, List.length_map,
      List.length_range, hL]
    have hcast : ((m + 1 - 1 - i : Nat) : Int) = (m : Int) - (i : Int) := by omega
    rw [hcast]
    ring

theorem adjust_inside_pos (x y k : Int) (n : Nat) (hk : 0 < k) (hx : 0 ≤ x ∧ x ≤ n) (hy : 0 ≤ y ∧ y ≤ n) :
    adjust (some x) (some y) k n = (x, y) := by
  have hnk : ¬ k < 0 := by omega
  have h1 : ¬ x < 0 := by omega
  have h2 : ¬ x > (n : Int) := by omega
  have h3 : ¬ y < 0 := by omega
  have h4 : ¬ y > (n : Int) := by omega
  simp [adjust, adjBound, hnk, h1, h2, h3, h4]

/-- `_variable_subspace` on a negative-step slice: the slice handed to h5py selects the reversal
of the positions of the original slice — for every size, start, stop and step. -/
theorem vsAxis_neg_slice (n : Nat) (a b : Option Int) (c : Int) (hc : c < 0) :
    ∃ x y k, (vsAxis n (.slice a b (some c))).1 = .slice x y k ∧ (∀ v, k = some v → 0 < v) ∧
      (vsAxis n (.slice a b (some c))).2 = .rev ∧
      slicePositions x y k n = (slicePositions a b (some c) n).reverse := by
  simp only [vsAxis, hc, if_true]
  have hmem := slicePositions_mem a b (some c) n (by simp; omega)
  generalize hr : slicePositions a b (some c) n = r at hmem
  have hr' := hr
  unfold slicePositions at hr'
  simp only [Option.getD_some] at hr'
  generalize hse : adjust a b c ↑n = se at hr'
  obtain ⟨s, e⟩ := se
  simp only at hr'
  cases hL : rangeLen s e c with
  | zero =>
    have hnil : r = [] := by rw [← hr']; simp [rangeList, hL]
    subst hnil
    refine ⟨some 0, some 0, none, by simp, by simp, by simp, ?_⟩
    simp [slicePositions, adjust, adjBound, rangeList, rangeLen]
  | succ m =>
    have hhead : r.head? = some s := by
      rw [← hr', List.head?_eq_getElem?]
      simp [rangeList, hL]
    have hlast : r.getLast? = some (s + (m : Int) * c) := by
      rw [← hr', List.getLast?_eq_getElem?]
      simp [rangeList, hL]
    rw [hhead, hlast]
    refine ⟨_, _, _, rfl, by intro v hv; simp at hv; omega, rfl, ?_⟩
    have hs := hmem s (List.mem_of_mem_head? hhead)
    have hl := hmem _ (List.mem_of_mem_getLast? hlast)
    simp only [slicePositions, Option.getD_some]
    rw [adjust_inside_pos _ _ _ n (by omega) (by omega) (by omega)]
    simp only
    rw [rangeList_reversed s e c hc m hL, hr']


/-! ### positions of slices are strictly monotone -/

theorem rangeList_pairwise_pos (s e c : Int) (hc : 0 < c) : (rangeList s e c).Pairwise (· < ·) := by
  rw [List.pairwise_iff_getElem]
  intro i j hi hj hij
  simp only [rangeList, List.getElem_map, List.getElem_range]
  have : (i : Int) * c < (j : Int) * c := Int.mul_lt_mul_of_pos_right (by omega) hc
  omega

theorem rangeList_pairwise_neg (s e c : Int) (hc : c < 0) : (rangeList s e c).Pairwise (· > ·) := by
  rw [List.pairwise_iff_getElem]
  intro i j hi hj hij
  simp only [rangeList, List.getElem_map, List.getElem_range]
  have : (i : Int) * (-c) < (j : Int) * (-c) := Int.mul_lt_mul_of_pos_right (by omega) (by omega)
  have h1 : (i : Int) * (-c) = -((i : Int) * c) := by ring
  have h2 : (j : Int) * (-c) = -((j : Int) * c) := by ring
  omega

theorem toNat_pairwise_lt (l : List Int) (h0 : ∀ p ∈ l, 0 ≤ p) (h : l.Pairwise (· < ·)) :
    (l.map Int.toNat).Pairwise (· < ·) := by
  rw [List.pairwise_map]
  apply List.Pairwise.imp_of_mem _ h
  intro a b ha hb hab
  have := h0 a ha; have := h0 b hb
  omega

theorem toNat_pairwise_gt (l : List Int) (h0 : ∀ p ∈ l, 0 ≤ p) (h : l.Pairwise (· > ·)) :
    (l.map Int.toNat).Pairwise (· > ·) := by
  rw [List.pairwise_map]
  apply List.Pairwise.imp_of_mem _ h
  intro a b ha hb hab
  have := h0 a ha; have := h0 b hb
  omega

/-- Positions of a slice with non-negative step, as naturals: strictly increasing. -/
theorem natPositions_slice_increasing (n : Nat) (a b c : Option Int) (hc : c ≠ some 0)
    (hpos : ∀ v, c = some v → 0 < v) :
    strictlyIncreasing (natPositions n (.slice a b c)) = true := by
  rw [si_iff_pairwise]
  have hmem := slicePositions_mem a b c n hc
  simp only [natPositions, Sel.positions]
  apply toNat_pairwise_lt _ (fun p hp => (hmem p hp).1)
  unfold slicePositions
  simp only
  apply rangeList_pairwise_pos
  cases c with
  | none => simp
  | some v => simpa using hpos v rfl

theorem natPositions_slice_decreasing (n : Nat) (a b : Option Int) (c : Int) (hc : c < 0) :
    (natPositions n (.slice a b (some c))).Pairwise (· > ·) := by
  have hmem := slicePositions_mem a b (some c) n (by simp; omega)
  simp only [natPositions, Sel.positions]
  apply toNat_pairwise_gt _ (fun p hp => (hmem p hp).1)
  unfold slicePositions
  simp only [Option.getD_some]
  exact rangeList_pairwise_neg _ _ _ hc

/-! ### `_variable_subspace`, one axis -/

theorem natPositions_ofNat (n : Nat) (q : List Nat) : natPositions n (.list (q.map Int.ofNat)) = q := by
  simp only [natPositions, Sel.positions, List.map_map]
  conv => rhs; rw [← List.map_id q]
  apply List.map_congr_left
  intro x _
  have h : ¬ ((x : Int) < 0) := by omega
  simp [Function.comp, norm, h]

theorem natPositions_list_lt (n : Nat) (l : List Int) (hwf : (Sel.list l).wf n = true) :
    ∀ x ∈ natPositions n (.list l), x < n := by
  intro x hx
  simp only [natPositions, Sel.positions, List.mem_map] at hx
  obtain ⟨p, ⟨i, hi, rfl⟩, rfl⟩ := hx
  simp only [Sel.wf, List.all_eq_true] at hwf
  have := norm_bounds n i (hwf i hi)
  omega

theorem h5Accepts_ofNat (n : Nat) (u : List Nat) (hlt : ∀ x ∈ u, x < n) (hs : strictlyIncreasing u = true) :
    h5Accepts n (.list (u.map Int.ofNat)) = true := by
  simp only [h5Accepts, Bool.and_eq_true, List.all_eq_true, List.mem_map, decide_eq_true_eq]
  constructor
  · rintro i ⟨x, hx, rfl⟩
    have := hlt x hx
    exact ⟨by simp, by simp; omega⟩
  · have : (u.map Int.ofNat).map Int.toNat = u := by
      rw [List.map_map]
      conv => rhs; rw [← List.map_id u]
      apply List.map_congr_left
      intro x _; simp [Function.comp]
    rw [this]; exact hs

theorem wf_ofNat (n : Nat) (u : List Nat) (hlt : ∀ x ∈ u, x < n) : (Sel.list (u.map Int.ofNat)).wf n = true := by
  simp only [Sel.wf, List.all_eq_true, List.mem_map]
  rintro i ⟨x, hx, rfl⟩
  have := hlt x hx
  simp [inRange]; omega

/-- **One axis of `_variable_subspace`**, for every size and every well-formed selector (any start,
stop, step; any list): (1) h5py accepts what it is handed; (2) a list stays a list, a slice a slice;
(3) the `reorder` entry applied to what h5py returns yields exactly the positions of the original
selector, in the original order; (4) when no reorder is recorded the positions are unchanged;
(5) h5py is asked for exactly the distinct requested positions in storage order. -/
theorem vsAxis_spec (n : Nat) (s : Sel) (hwf : s.wf n = true) :
    h5Accepts n (vsAxis n s).1 = true ∧ (vsAxis n s).1.wf n = true ∧ isList (vsAxis n s).1 = isList s ∧
    (reorderPs (natPositions n (vsAxis n s).1).length (vsAxis n s).2).map
        (fun j => (natPositions n (vsAxis n s).1).getD j 0) = natPositions n s ∧
    ((vsAxis n s).2 = .keep → natPositions n (vsAxis n s).1 = natPositions n s) ∧
    natPositions n (vsAxis n s).1 = unique (natPositions n s) := by
  cases s with
  | slice a b c =>
    cases c with
    | none =>
      have hinc := natPositions_slice_increasing n a b none (by simp) (by simp)
      refine ⟨rfl, rfl, rfl, ?_, fun _ => rfl, ?_⟩
      · simp only [vsAxis, reorderPs]; exact range_map_getD _
      · simp only [vsAxis]; exact (unique_of_increasing _ hinc).symm
    | some c =>
      have hc0 : c ≠ 0 := by
        intro h; subst h; simp [Sel.wf] at hwf
      by_cases hneg : c < 0
      · obtain ⟨x, y, k, h1, hk, h2, h3⟩ := vsAxis_neg_slice n a b c hneg
        have hdec := natPositions_slice_decreasing n a b c hneg
        have hnp : natPositions n (.slice x y k) = (natPositions n (.slice a b (some c))).reverse := by
          simp only [natPositions, Sel.positions, h3, List.map_reverse]
        rw [h1, h2]
        refine ⟨?_, ?_, ?_, ?_, ?_, ?_⟩
        · cases k with
          | none => rfl
          | some v => simp [h5Accepts, hk v rfl]
        · cases k with
          | none => rfl
          | some v => have := hk v rfl; simp [Sel.wf]; omega
        · rfl
        · simp only [reorderPs]
          rw [range_reverse_map_getD, hnp, List.reverse_reverse]
        · intro h; cases h
        · rw [hnp, unique_of_decreasing _ hdec]
      · have hpos : 0 < c := by omega
        have hinc := natPositions_slice_increasing n a b (some c) (by simp [hc0])
          (by intro v hv; simp at hv; omega)
        have hv : vsAxis n (.slice a b (some c)) = (.slice a b (some c), .keep) := by
          simp [vsAxis, hneg]
        rw [hv]
        refine ⟨by simp [h5Accepts, hpos], hwf, rfl, ?_, fun _ => rfl, ?_⟩
        · simp only [reorderPs]; exact range_map_getD _
        · exact (unique_of_increasing _ hinc).symm
  | list l =>
    have hlt := natPositions_list_lt n l hwf
    generalize hq : natPositions n (.list l) = q at hlt
    by_cases hcond : (decide (q.length > 1) && !strictlyIncreasing q) = true
    · have hv : vsAxis n (.list l) = (.list ((unique q).map Int.ofNat), .inv (inverse q)) := by
        simp only [vsAxis, hq]; rw [if_pos hcond]
      have hult : ∀ x ∈ unique q, x < n := fun x hx => hlt x ((mem_unique x q).mp hx)
      rw [hv]
      refine ⟨h5Accepts_ofNat n _ hult (unique_sorted q), wf_ofNat n _ hult, rfl, ?_, ?_, ?_⟩
      · simp only [natPositions_ofNat, reorderPs]
        exact inverse_spec q
      · intro h; cases h
      · simp only [natPositions_ofNat]
    · have hv : vsAxis n (.list l) = (.list (q.map Int.ofNat), .keep) := by
        simp only [vsAxis, hq]; rw [if_neg hcond]
      have hsi : strictlyIncreasing q = true := by
        simp only [Bool.and_eq_true, decide_eq_true_eq, Bool.not_eq_true', not_and, Bool.not_eq_false] at hcond
        by_cases hl : q.length > 1
        · exact hcond hl
        · match q, hl with
          | [], _ => rfl
          | [_], _ => rfl
          | _ :: _ :: _, hl => simp at hl
      rw [hv]
      refine ⟨h5Accepts_ofNat n _ hlt hsi, wf_ofNat n _ hlt, rfl, ?_, ?_, ?_⟩
      · simp only [natPositions_ofNat, reorderPs]; exact range_map_getD _
      · intro _; simp only [natPositions_ofNat]
      · simp only [natPositions_ofNat]; exact (unique_of_increasing q hsi).symm


/-- Every entry of the `reorder` index is a valid position of what h5py returned. -/
theorem vsAxis_reorder_lt (n : Nat) (s : Sel) :
    ∀ j ∈ reorderPs (natPositions n (vsAxis n s).1).length (vsAxis n s).2,
      j < (natPositions n (vsAxis n s).1).length := by
  intro j hj
  cases hr : (vsAxis n s).2 with
  | keep => rw [hr] at hj; simpa [reorderPs] using hj
  | rev => rw [hr] at hj; simpa [reorderPs] using hj
  | inv l =>
    rw [hr] at hj
    -- only the list branch records an inverse
    cases s with
    | slice a b c =>
      exfalso
      cases c with
      | none => simp [vsAxis] at hr
      | some c =>
        simp only [vsAxis] at hr
        split at hr
        · split at hr <;> cases hr
        · cases hr
    | list l0 =>
      simp only [vsAxis] at hr hj ⊢
      split at hr
      · rename_i hc
        simp only [Reorder.inv.injEq] at hr
        subst hr
        rw [if_pos hc]
        simp only [natPositions_ofNat, reorderPs, inverse, List.mem_map] at hj ⊢
        obtain ⟨x, hx, rfl⟩ := hj
        exact List.idxOf_lt_length_iff.mpr ((mem_unique x _).mpr hx)
      · cases hr

/-! ### `_variable_subspace`, N dimensions -/

theorem selsWf_getElem {shape : List Nat} {sels : List Sel} (h : selsWf shape sels = true) (k : Nat)
    (h1 : k < sels.length) (h2 : k < shape.length) : (sels[k]).wf shape[k] = true := by
  simp only [selsWf, Bool.and_eq_true, beq_iff_eq, List.all_eq_true] at h
  have := h.2 ((sels[k]).wf shape[k]) (by
    simp only [List.mem_iff_getElem, List.length_zipWith]
    exact ⟨k, by omega, by simp⟩)
  simpa using this

theorem positionsNat_getElem (shape : List Nat) (sels : List Sel) (k : Nat) (h1 : k < sels.length)
    (h2 : k < shape.length) (h3 : k < (positionsNat shape sels).length) :
    (positionsNat shape sels)[k] = natPositions shape[k] sels[k] := by
  simp [positionsNat, natPositions]

theorem isListAt_vsIndex (shape : List Nat) (sels : List Sel) (hl : sels.length = shape.length) (k : Nat) :
    isListAt ((vsIndex shape sels).map (·.1)) k = isListAt sels k := by
  simp only [isListAt, vsIndex, List.getElem?_map, List.getElem?_zipWith]
  by_cases hk : k < sels.length
  · have hk2 : k < shape.length := by omega
    simp only [List.getElem?_eq_getElem hk, List.getElem?_eq_getElem hk2, Option.map_some]
    cases hs : sels[k] with
    | slice a b c =>
      cases c with
      | none => simp [vsAxis, isList]
      | some c =>
        simp only [vsAxis]
        split
        · split <;> rfl
        · rfl
    | list l => simp only [vsAxis]; split <;> rfl
  · simp [List.getElem?_eq_none (Nat.le_of_not_lt hk)]

theorem listAxes_vsIndex (shape : List Nat) (sels : List Sel) (hl : sels.length = shape.length) :
    listAxes ((vsIndex shape sels).map (·.1)) = listAxes sels := by
  simp only [listAxes]
  have hlen : ((vsIndex shape sels).map (·.1)).length = sels.length := by simp [vsIndex, hl]
  rw [hlen]
  apply List.filter_congr
  intro k _
  exact isListAt_vsIndex shape sels hl k

/-- **`_variable_subspace` returns the orthogonal selection**: for every array, every rank and every
well-formed index with at most one list axis (what `_index` hands it), h5py — as strict as the real
one — accepts the translated index, and the result after the `reorder` step is `takeAll A ps`. -/
theorem variableSubspace_spec {α} (A : Arr α) (sels : List Sel) (hwf : selsWf A.shape sels = true)
    (h1 : (listAxes sels).length ≤ 1) :
    ∃ B, variableSubspace A sels = .ok B ∧ EqvIn B (takeAll A (positionsNat A.shape sels)) := by
  have hl := selsWf_length hwf
  generalize htr : vsIndex A.shape sels = tr
  have htrl : tr.length = A.shape.length := by rw [← htr]; simp [vsIndex, hl]
  have htrk : ∀ k (hk : k < tr.length) (hk1 : k < sels.length) (hk2 : k < A.shape.length),
      tr[k] = vsAxis A.shape[k] sels[k] := by
    intro k hk hk1 hk2; subst htr; simp [vsIndex]
  generalize hps' : positionsNat A.shape (tr.map (·.1)) = ps'
  have hps'l : ps'.length = A.shape.length := by
    rw [← hps']; exact positionsNat_length _ _ (by simp [htrl])
  have hps'k : ∀ k (hk : k < ps'.length) (hk1 : k < sels.length) (hk2 : k < A.shape.length),
      ps'[k] = natPositions A.shape[k] (vsAxis A.shape[k] sels[k]).1 := by
    intro k hk hk1 hk2
    subst hps'
    rw [positionsNat_getElem _ _ k (by simp; omega) hk2 hk]
    simp only [List.getElem_map]
    rw [htrk k (by omega) hk1 hk2]
  -- h5py accepts
  have hget : h5pyGet A (tr.map (·.1)) = .ok (takeAll A ps') := by
    unfold h5pyGet
    have hla : listAxes (tr.map (·.1)) = listAxes sels := by rw [← htr]; exact listAxes_vsIndex _ _ hl
    have hacc : (List.zipWith (fun s n => h5Accepts n s) (tr.map (·.1)) A.shape).all id = true := by
      rw [List.all_eq_true]
      intro x hx
      rw [List.mem_iff_getElem] at hx
      obtain ⟨k, hk, rfl⟩ := hx
      simp only [List.length_zipWith, List.length_map] at hk
      have hk1 : k < sels.length := by omega
      have hk2 : k < A.shape.length := by omega
      simp only [List.getElem_zipWith, List.getElem_map, id]
      rw [htrk k (by omega) hk1 hk2]
      exact (vsAxis_spec _ _ (selsWf_getElem hwf k hk1 hk2)).1
    rw [hla, hacc, hps']
    simp [h1]
  have hBshape : (takeAll A ps').shape = ps'.map List.length := takeAll_shape A ps' hps'l
  unfold variableSubspace
  simp only [htr, hget]
  by_cases hre : (tr.any (fun t => t.2 != Reorder.keep)) = true
  · rw [if_pos hre]
    refine ⟨_, rfl, ?_⟩
    generalize hros : List.zipWith (fun (t : Sel × Reorder) m => reorderPs m t.2) tr (takeAll A ps').shape = ros
    have hrosl : ros.length = A.shape.length := by
      rw [← hros, hBshape]; simp [htrl, hps'l]
    have hrosk : ∀ k (hk : k < ros.length) (hk1 : k < sels.length) (hk2 : k < A.shape.length),
        ros[k] = reorderPs (natPositions A.shape[k] (vsAxis A.shape[k] sels[k]).1).length
          (vsAxis A.shape[k] sels[k]).2 := by
      intro k hk hk1 hk2
      subst hros
      simp only [List.getElem_zipWith, hBshape, List.getElem_map]
      rw [htrk k (by omega) hk1 hk2, hps'k k (by omega) hk1 hk2]
    have hok : PosOK (ps'.map List.length) ros := by
      refine ⟨by simp [hrosl, hps'l], ?_⟩
      intro k hk1 hk2 x hx
      simp only [List.length_map] at hk2
      have hks : k < sels.length := by omega
      have hka : k < A.shape.length := by omega
      rw [hrosk k hk1 hks hka] at hx
      simp only [List.getElem_map]
      rw [hps'k k hk2 hks hka]
      exact vsAxis_reorder_lt _ _ x hx
    have hcomp := takeAll_compose A ps' ros hps'l hok
    have heq : List.zipWith (fun (l m : List Nat) => m.map (fun j => l.getD j 0)) ps' ros =
        positionsNat A.shape sels := by
      apply List.ext_getElem
      · simp [hps'l, hrosl, positionsNat, hl]
      · intro k hk1 hk2
        simp only [List.length_zipWith] at hk1
        have hks : k < sels.length := by omega
        have hka : k < A.shape.length := by omega
        simp only [List.getElem_zipWith]
        rw [hps'k k (by omega) hks hka, hrosk k (by omega) hks hka, positionsNat_getElem _ _ k hks hka hk2]
        exact (vsAxis_spec _ _ (selsWf_getElem hwf k hks hka)).2.2.2.1
    rw [heq] at hcomp
    exact hcomp
  · rw [if_neg hre]
    refine ⟨_, rfl, ?_⟩
    have hkeep : ∀ t ∈ tr, t.2 = Reorder.keep := by
      intro t ht
      simp only [List.any_eq_true, not_exists, not_and, bne_iff_ne, ne_eq, Decidable.not_not] at hre
      exact hre t ht
    have heq : ps' = positionsNat A.shape sels := by
      apply List.ext_getElem
      · simp [hps'l, positionsNat, hl]
      · intro k hk1 hk2
        have hks : k < sels.length := by omega
        have hka : k < A.shape.length := by omega
        rw [hps'k k hk1 hks hka, positionsNat_getElem _ _ k hks hka hk2]
        apply (vsAxis_spec _ _ (selsWf_getElem hwf k hks hka)).2.2.2.2.1
        rw [← htrk k (by omega) hks hka]
        exact hkeep _ (List.getElem_mem _)
    rw [heq]
    exact EqvIn.refl _


/-! ### `_index` around `_variable_subspace` -/

theorem takeAxis_congr {α} {A B : Arr α} (h : EqvIn A B) (k : Nat) (l : List Nat)
    (hl : ∀ (hk : k < A.shape.length), ∀ x ∈ l, x < A.shape[k]) :
    EqvIn (takeAxis A k l) (takeAxis B k l) := by
  constructor
  · simp only [takeAxis, h.1]
  · intro idx hidx
    simp only [takeAxis] at hidx ⊢
    apply h.2
    obtain ⟨hlen, hlt⟩ := hidx
    simp only [List.length_set] at hlen hlt
    refine ⟨by simp [hlen], ?_⟩
    intro j hj1 hj2
    have hji : j < idx.length := by simpa using hj1
    by_cases hjk : j = k
    · subst hjk
      have h0 := hlt j hji hj2
      simp only [List.getElem_set_self] at h0 ⊢
      have e1 : idx.getD j 0 = idx[j] := by
        rw [List.getD_eq_getElem?_getD, List.getElem?_eq_getElem hji, Option.getD_some]
      rw [e1, List.getD_eq_getElem?_getD, List.getElem?_eq_getElem h0, Option.getD_some]
      exact hl hj2 _ (List.getElem_mem h0)
    · have h0 := hlt j hji hj2
      rw [List.getElem_set_ne (Ne.symm hjk)] at h0 ⊢
      exact h0

theorem foldTake_congr {α} (ps : List (List Nat)) :
    ∀ (order : List Nat) (A B : Arr α), EqvIn A B → order.Nodup →
      (∀ k ∈ order, ∀ (hk : k < A.shape.length), ∀ x ∈ ps.getD k [], x < A.shape[k]) →
      EqvIn (order.foldl (fun B k => takeAxis B k (ps.getD k [])) A)
        (order.foldl (fun B k => takeAxis B k (ps.getD k [])) B) := by
  intro order
  induction order with
  | nil => intro A B h _ _; exact h
  | cons k rest ih =>
    intro A B h hnd hlt
    have hnd' := List.nodup_cons.mp hnd
    simp only [List.foldl_cons]
    apply ih _ _ (takeAxis_congr h k _ (hlt k List.mem_cons_self)) hnd'.2
    intro j hj hjl x hx
    have hjk : j ≠ k := fun e => hnd'.1 (e ▸ hj)
    simp only [takeAxis, List.length_set] at hjl ⊢
    rw [List.getElem_set_ne (Ne.symm hjk)]
    exact hlt j (List.mem_cons_of_mem _ hj) hjl x hx

theorem laterAxes_mem {shape : List Nat} {sels : List Sel} {ps : List (List Nat)} {n : Nat}
    (hn : firstListAxis shape ps sels = some n) (k : Nat) :
    k ∈ laterAxes shape sels ps ↔ (k ∈ listAxes sels ∧ k ≠ n) := by
  have hfl : ((listAxes sels).filter (· != n)).length ≤ sels.length := by
    have h1 : ((listAxes sels).filter (· != n)).length ≤ (listAxes sels).length := List.length_filter_le _ _
    have h2 := listAxes_length_le sels
    omega
  simp only [laterAxes, hn]
  rw [restOrder_mem _ _ _ _ hfl]
  simp [List.mem_filter]

theorem laterAxes_nodup {shape : List Nat} {sels : List Sel} {ps : List (List Nat)} {n : Nat}
    (hn : firstListAxis shape ps sels = some n) : (laterAxes shape sels ps).Nodup := by
  have hfl : ((listAxes sels).filter (· != n)).length ≤ sels.length := by
    have h1 : ((listAxes sels).filter (· != n)).length ≤ (listAxes sels).length := List.length_filter_le _ _
    have h2 := listAxes_length_le sels
    omega
  simp only [laterAxes, hn]
  exact restOrder_nodup _ _ _ _ hfl (List.Nodup.filter _ (listAxes_nodup sels))

theorem firstListAxis_some {shape : List Nat} {ps : List (List Nat)} {sels : List Sel}
    (h : listAxes sels ≠ []) : ∃ n, firstListAxis shape ps sels = some n := by
  simp only [firstListAxis, List.isEmpty_iff, h, if_false]
  have hne : ((listAxes sels).map (fun i =>
      (List.zipWith (fun (sp : Sel × List Nat) n => if isList sp.1 then n else sp.2.length) (sels.zip ps) shape).foldl (· * ·) 1 *
        ((ps.getD i []).length /
          (List.zipWith (fun (sp : Sel × List Nat) n => if isList sp.1 then n else sp.2.length) (sels.zip ps) shape).getD i 1))) ≠ [] := by
    simpa using h
  have hk := argmin_lt _ hne
  simp only [List.length_map] at hk
  exact ⟨_, List.getElem?_eq_getElem hk⟩

theorem natPositions_full (m : Nat) : natPositions m (.slice none none none) = List.range m := by
  simp only [natPositions, Sel.positions, slicePositions, Option.getD_none, adjust, adjBound]
  have h1 : ¬ ((1 : Int) < 0) := by omega
  simp only [h1, if_false, rangeList, rangeLen]
  by_cases hm : (0 : Int) < m
  · have : (((m : Int) - 0 - 1) / 1 + 1).toNat = m := by simp
    simp only [show (0 : Int) < 1 by omega, hm, if_true, this, List.map_map]
    conv => rhs; rw [← List.map_id (List.range m)]
    apply List.map_congr_left
    intro i _; simp [Function.comp]
  · have : m = 0 := by omega
    subst this; simp

theorem index1_length (sels : List Sel) (n : Nat) : (index1 sels n).length = sels.length := by
  simp [index1]

theorem index1_getElem (sels : List Sel) (n k : Nat) (hk : k < sels.length) (hk' : k < (index1 sels n).length) :
    (index1 sels n)[k] = if k = n || !(isListAt sels k) then sels[k] else .slice none none none := by
  simp only [index1, List.getElem_map, List.getElem_range]
  split
  · simp [List.getD_eq_getElem?_getD, List.getElem?_eq_getElem hk]
  · rfl

theorem index1_wf {shape : List Nat} {sels : List Sel} (h : selsWf shape sels = true) (n : Nat) :
    selsWf shape (index1 sels n) = true := by
  have hl := selsWf_length h
  simp only [selsWf, Bool.and_eq_true, beq_iff_eq, List.all_eq_true]
  refine ⟨by rw [index1_length, hl], ?_⟩
  intro x hx
  rw [List.mem_iff_getElem] at hx
  obtain ⟨k, hk, rfl⟩ := hx
  simp only [List.length_zipWith, index1_length] at hk
  simp only [List.getElem_zipWith, id]
  rw [index1_getElem sels n k (by omega)]
  split
  · exact selsWf_getElem h k (by omega) (by omega)
  · rfl

theorem index1_isListAt (sels : List Sel) (n k : Nat) (h : isListAt (index1 sels n) k = true) : k = n := by
  simp only [isListAt] at h
  by_cases hk : k < sels.length
  · rw [List.getElem?_eq_getElem (by rw [index1_length]; exact hk), index1_getElem sels n k hk] at h
    by_cases hc : (decide (k = n) || !isListAt sels k) = true
    · rw [if_pos hc] at h
      simp only [Bool.or_eq_true, decide_eq_true_eq, Bool.not_eq_true'] at hc
      rcases hc with hc | hc
      · exact hc
      · simp [isListAt, List.getElem?_eq_getElem hk, h] at hc
    · rw [if_neg hc] at h
      simp [isList] at h
  · rw [List.getElem?_eq_none (by rw [index1_length]; omega)] at h
    cases h

theorem index1_one_list (sels : List Sel) (n : Nat) : (listAxes (index1 sels n)).length ≤ 1 := by
  have hnd := listAxes_nodup (index1 sels n)
  have hall : ∀ k ∈ listAxes (index1 sels n), k = n := fun k hk =>
    index1_isListAt sels n k ((mem_listAxes _ k).mp hk).2
  match hL : listAxes (index1 sels n) with
  | [] => simp
  | [_] => simp
  | a :: b :: rest =>
    exfalso
    rw [hL] at hnd hall
    have ha := hall a (by simp)
    have hb := hall b (by simp)
    have := (List.nodup_cons.mp hnd).1
    simp [ha, hb] at this

/-- The first access (`index1` through h5py) is the `takeSome … firstMask` of the abstract model. -/
theorem takeAll_index1_eqv {α} (A : Arr α) (sels : List Sel) (hl : sels.length = A.shape.length) (n : Nat) :
    EqvIn (takeAll A (positionsNat A.shape (index1 sels n)))
      (takeSome A (firstMask sels (positionsNat A.shape sels) n)) := by
  have hp1l : (positionsNat A.shape (index1 sels n)).length = A.shape.length :=
    positionsNat_length _ _ (by rw [index1_length, hl])
  have hpl : (positionsNat A.shape sels).length = A.shape.length := positionsNat_length _ _ hl
  have hp1k : ∀ k (hk : k < A.shape.length) (hk' : k < (positionsNat A.shape (index1 sels n)).length),
      (positionsNat A.shape (index1 sels n))[k] =
        if k = n || !(isListAt sels k) then (positionsNat A.shape sels).getD k [] else List.range A.shape[k] := by
    intro k hk hk'
    rw [positionsNat_getElem _ _ k (by rw [index1_length]; omega) hk hk', index1_getElem sels n k (by omega)]
    split
    · rw [List.getD_eq_getElem?_getD, List.getElem?_eq_getElem (by omega), Option.getD_some,
        positionsNat_getElem _ _ k (by omega) hk (by omega)]
    · exact natPositions_full _
  constructor
  · simp only [takeAll, takeSome]
    apply List.ext_getElem
    · simp [firstMask, hp1l, hpl]
    · intro k h1 h2
      simp only [List.length_zipWith, List.length_map] at h1
      have hk : k < A.shape.length := by omega
      simp only [List.getElem_zipWith, List.getElem_map, firstMask, List.getElem_range]
      rw [hp1k k hk (by omega)]
      split <;> simp [ext]
  · intro idx hidx
    rw [takeAll_shape A _ hp1l] at hidx
    simp only [takeAll, takeSome]
    congr 1
    apply List.ext_getElem
    · simp [firstMask, hp1l, hpl]
    · intro k h1 h2
      simp only [List.length_zipWith, List.length_map] at h1
      have hk : k < A.shape.length := by omega
      have hki : k < idx.length := by omega
      have hlt := hidx.2 k hki (by simpa using (by omega : k < (positionsNat A.shape (index1 sels n)).length))
      simp only [List.getElem_map] at hlt
      simp only [List.getElem_zipWith, List.getElem_map, firstMask, List.getElem_range]
      rw [hp1k k hk (by omega)] at hlt ⊢
      split
      · rfl
      · rename_i hc
        rw [if_neg hc] at hlt
        simp only [List.length_range] at hlt
        simp [pick, List.getD_eq_getElem?_getD, List.getElem?_range hlt]

/-- **`netcdf_indexer._index` on an h5py variable**, with `_variable_subspace` as coded and an h5py
that refuses negative steps, unordered or repeated lists and more than one list: for every array,
rank and well-formed index the access succeeds and returns the orthogonal selection. -/
theorem indexH5_spec {α} (A : Arr α) (sels : List Sel) (hwf : selsWf A.shape sels = true) :
    ∃ B, indexH5 A sels = .ok B ∧ EqvIn B (indexBackend h5 A sels) ∧
      EqvIn B (takeAll A (positionsNat A.shape sels)) := by
  have hl := selsWf_length hwf
  have hspec := indexBackend_eqv h5 A sels hl
  unfold indexH5 indexWith
  simp only
  by_cases h1 : (listAxes sels).length ≤ 1
  · rw [if_pos h1]
    obtain ⟨B, hB, hE⟩ := variableSubspace_spec A sels hwf h1
    exact ⟨B, hB, hE.trans hspec.symm, hE⟩
  · rw [if_neg h1]
    have hne : listAxes sels ≠ [] := by
      intro h; rw [h] at h1; simp at h1
    obtain ⟨n, hn⟩ := firstListAxis_some (shape := A.shape) (ps := positionsNat A.shape sels) hne
    rw [hn]
    simp only
    obtain ⟨B0, hB0, hE0⟩ := variableSubspace_spec A (index1 sels n) (index1_wf hwf n) (index1_one_list sels n)
    rw [hB0]
    simp only
    refine ⟨_, rfl, ?_⟩
    have hE1 := hE0.trans (takeAll_index1_eqv A sels hl n)
    have hib : indexBackend h5 A sels =
        (laterAxes A.shape sels (positionsNat A.shape sels)).foldl
          (fun B k => takeAxis B k ((positionsNat A.shape sels).getD k []))
          (takeSome A (firstMask sels (positionsNat A.shape sels) n)) := by
      unfold indexBackend
      have hnat : (h5.native || decide ((listAxes sels).length ≤ 1)) = false := by simp [h5, h1]
      simp only [hnat, hn]
      simp
    have hpok := positionsNat_ok A.shape sels hwf
    have hfold := foldTake_congr (positionsNat A.shape sels) (laterAxes A.shape sels (positionsNat A.shape sels))
      B0 (takeSome A (firstMask sels (positionsNat A.shape sels) n)) hE1 (laterAxes_nodup hn) (by
        intro k hk hkl x hx
        rw [hE1.1] at hkl
        have hkm := (laterAxes_mem hn k).mp hk
        have hks : k < sels.length := ((mem_listAxes sels k).mp hkm.1).1
        have hka : k < A.shape.length := by omega
        have hkp : k < (positionsNat A.shape sels).length := by rw [hpok.1]; exact hka
        have hsh : B0.shape[k]'(by rw [hE1.1]; exact hkl) = A.shape[k] := by
          have : B0.shape = (takeSome A (firstMask sels (positionsNat A.shape sels) n)).shape := hE1.1
          simp only [this, takeSome, List.getElem_zipWith, firstMask, List.getElem_map, List.getElem_range]
          have hil := ((mem_listAxes sels k).mp hkm.1).2
          simp [hkm.2, hil, ext]
        rw [hsh]
        rw [List.getD_eq_getElem?_getD, List.getElem?_eq_getElem hkp, Option.getD_some] at hx
        exact hpok.2 k hkp hka x hx)
    rw [← hib] at hfold
    exact ⟨hfold, hfold.trans hspec⟩


/-- What `_variable_subspace` asks of h5py, axis by axis: the distinct requested positions in
increasing order. -/
theorem vsIndex_reads (shape : List Nat) (sels : List Sel) (hwf : selsWf shape sels = true) :
    positionsNat shape ((vsIndex shape sels).map (·.1)) = (positionsNat shape sels).map unique := by
  have hl := selsWf_length hwf
  apply List.ext_getElem
  · simp [positionsNat, vsIndex, hl]
  · intro k h1 h2
    have hka : k < shape.length := by
      simp only [positionsNat, List.length_zipWith, List.length_map, vsIndex] at h1; omega
    have hks : k < sels.length := by omega
    rw [positionsNat_getElem _ _ k (by simp [vsIndex]; omega) hka h1]
    simp only [List.getElem_map, vsIndex, List.getElem_zipWith]
    rw [positionsNat_getElem _ _ k hks hka (by simp [positionsNat]; omega)]
    exact (vsAxis_spec _ _ (selsWf_getElem hwf k hks hka)).2.2.2.2.2

end Cfdm.H5Index
