import Cfdm.Lemmas.ConstructsDerive
/-
C02 — `transpose` / `insert_dimension` with `constructs=True` AND `inplace=True`: a failure inside the loop
over the metadata constructs leaves the constructs before the failing one changed, and — when the failing
statement is the final `set_data_axes(..., key=key)` — the failing one reshaped on its old axes.
In a state that satisfies the invariant that final statement cannot fail for a construct with plain data
(`transDamage_core`, `insDamage_core`); a domain topology / cell connectivity construct is left as it is by
`insert_dimension` (fixes/C02-insert-dimension-skips-topology-constructs.patch; before, its step always failed
after it was reshaped: `NoTopoData` describes the fields on which the code before the patch was safe).
-/
namespace Cfdm.Constructs

/-! ### the in-place loop -/

theorem foldIP_inv {α} (P : St → Prop) (f : St → α → Option St) (dmg : St → α → St)
    (hstep : ∀ s a s', P s → f s a = some s' → P s')
    (hdmg : ∀ s a, P s → f s a = none → P (dmg s a)) :
    ∀ (l : List α) (s : St), P s → P (foldIP f dmg s l) := by
  intro l
  induction l with
  | nil => intro s hs; exact hs
  | cons a r ih =>
    intro s hs
    unfold foldIP
    cases hf : f s a with
    | none => exact hdmg s a hs hf
    | some s' => exact ih s' (hstep s a s' hs hf)

/-! ### the new axes of a transposed construct are a rearrangement of the old ones -/

theorem mem_foldl_insertMissing (cax : List Key) (a : Key) :
    ∀ (l : List (Key × Nat)) (acc : List Key), (∀ q ∈ l, q.1 ∈ cax) →
      a ∈ l.foldl (fun acc p => if acc.contains p.1 then acc else acc.insertIdx p.2 p.1) acc → a ∈ acc ∨ a ∈ cax := by
  intro l
  induction l with
  | nil => intro acc _ h; exact Or.inl h
  | cons q r ih =>
    intro acc hq h
    simp only [List.foldl_cons] at h
    have := ih _ (fun x hx => hq x (List.mem_cons_of_mem _ hx)) h
    rcases this with h1 | h1
    · split at h1
      · exact Or.inl h1
      · by_cases hle : q.2 ≤ acc.length
        · rw [List.mem_insertIdx hle] at h1
          rcases h1 with rfl | h1
          · exact Or.inr (hq q List.mem_cons_self)
          · exact Or.inl h1
        · rw [List.insertIdx_of_length_lt (by omega)] at h1
          exact Or.inl h1
    · exact Or.inr h1

theorem mem_insertMissing {cax acc : List Key} {a : Key} (h : a ∈ insertMissing cax acc) : a ∈ acc ∨ a ∈ cax := by
  unfold insertMissing at h
  refine mem_foldl_insertMissing cax a _ acc (fun q hq => ?_) h
  have : q.1 ∈ (cax.zipIdx).map Prod.fst := List.mem_map_of_mem hq
  simpa using this

theorem pick_idxOf (cax : List Key) : ∀ (N : List Key), (∀ a ∈ N, a ∈ cax) →
    pick cax (N.map (fun a => cax.idxOf a)) = some N := by
  intro N
  induction N with
  | nil => intro _; rfl
  | cons a r ih =>
    intro h
    have ha : a ∈ cax := h a List.mem_cons_self
    have hlt : cax.idxOf a < cax.length := List.idxOf_lt_length_of_mem ha
    simp only [List.map_cons, pick]
    rw [ih (fun x hx => h x (List.mem_cons_of_mem _ hx))]
    have : cax[cax.idxOf a]? = some a := by
      rw [List.getElem?_eq_getElem hlt]; simp
    rw [this]

/-- the axes recorded for a construct with plain data fit its data -/
theorem fits_of_core {s : St} (h : Core s) {p : CType × Key} {c : Con} {d : List Nat} {cax : List Key}
    (hc : s.cons.get p = some c) (hmod : modelled p.1 = true) (hd : c.data = some d) (hx : s.caxes.get p.2 = some cax) :
    Fits s cax d := by
  have hreg := h.tos _ c hc
  have hco : conOf s p.2 = some (p.1, c) := by
    unfold conOf; rw [hreg]; simp [hc]
  have := h.cax p.2 cax hx
  rw [hco] at this
  simp only at this
  have hs : c.shape p.1 = some d := by rw [modelled_shape hmod, hd]
  have h2 := this.2
  rw [hs] at h2
  exact h2.1

/-- in a consistent state the `set_data_axes` that ends a step of the loop of `transpose` accepts -/
theorem transOne_check {s : St} (h : Core s) {p : CType × Key} {c c' : Con} {d : List Nat} {cax nda : List Key}
    (hc : s.cons.get p = some c) (hmod : modelled p.1 = true) (hd : c.data = some d) (hx : s.caxes.get p.2 = some cax)
    (ht : transCon c ((insertMissing cax (nda.filter (fun a => cax.contains a))).map (fun a => cax.idxOf a)) = some c') :
    axesCheck s p.1 c' (insertMissing cax (nda.filter (fun a => cax.contains a))) = true := by
  have hfit := fits_of_core h hc hmod hd hx
  have hsub : ∀ a ∈ insertMissing cax (nda.filter (fun a => cax.contains a)), a ∈ cax := by
    intro a ha
    rcases mem_insertMissing ha with h1 | h1
    · have := (List.mem_filter.mp h1).2
      simpa using this
    · exact h1
  have hp := pick_idxOf cax _ hsub
  obtain ⟨shp', hs1, hs2⟩ := fits_pick hfit _ hp
  -- the transposed data have the picked shape
  have hdata : c'.data = some shp' := by
    unfold transCon at ht
    rw [hd] at ht
    simp only [hs1] at ht
    split at ht
    · rename_i d' b' r' h1 _ _
      simp only [Option.some.injEq] at ht h1
      subst ht h1
      rfl
    · cases ht
  unfold axesCheck
  rw [fits_sizesOf hs2]
  simp only
  rw [modelled_shape hmod, hdata]
  simp

theorem transDamage_core {s : St} (h : Core s) (p : CType × Key) (hn : transOne s p = none) : transDamage s p = s := by
  unfold transDamage
  cases hc : s.cons.get p with
  | none => rfl
  | some c =>
    cases hx : s.caxes.get p.2 with
    | none => rfl
    | some cax =>
      cases hda : s.dataAxes with
      | none => rfl
      | some nda =>
        simp only
        cases hd : c.data with
        | none => rfl
        | some d =>
          simp only
          split
          · rename_i hg
            simp only [Bool.and_eq_true, decide_eq_true_eq, beq_iff_eq] at hg
            obtain ⟨⟨⟨⟨harr, hlen⟩, hmod⟩, hnd⟩, hl⟩ := hg
            cases ht : transCon c ((insertMissing cax (nda.filter (fun a => cax.contains a))).map (fun a => cax.idxOf a)) with
            | none => rfl
            | some c' =>
              exfalso
              have hchk := transOne_check h hc hmod hd hx ht
              have htc : ¬ (p.1 == CType.top || p.1 == CType.con) = true := by
                unfold modelled at hmod
                simp only [Bool.and_eq_true, bne_iff_ne, ne_eq] at hmod
                simp [hmod.1.2, hmod.2]
              unfold transOne at hn
              simp only [hc, harr, Bool.not_true, Bool.false_eq_true, ↓reduceIte, hd, hx, hda, hmod, htc, ht, hchk,
                hnd, hl, beq_self_eq_true, bne_self_eq_false, Bool.or_self, show ¬ d.length < 2 by omega] at hn
              simp at hn
          · rfl

/-! ### `insert_dimension` -/

theorem array_cases' {t : CType} (h : t.isArray = true) : modelled t = true ∨ t = .top ∨ t = .con := by
  cases t <;> simp [CType.isArray, modelled] at *

/-- no domain topology / cell connectivity construct has data (for such a construct the step of the loop of
`insert_dimension(constructs=True)` always fails after it reshaped the construct) -/
def NoTopoData (s : St) : Prop :=
  ∀ q c, s.cons.get q = some c → (q.1 = CType.top ∨ q.1 = CType.con) → c.data = none

instance (s : St) : Decidable (NoTopoData s) := by unfold NoTopoData; infer_instance

/-- in a consistent state the `set_data_axes` that ends a step of the loop of `insert_dimension` accepts for a
construct with plain data -/
theorem insOne_check {s : St} (h : Core s) {axis : Key} (ha : axSize s axis = some (some 1)) {p : CType × Key} {c : Con}
    {d : List Nat} {cax : List Key} (hc : s.cons.get p = some c) (hmod : modelled p.1 = true) (hd : c.data = some d)
    (hx : s.caxes.get p.2 = some cax) {pos : Nat} (hpos : pos ≤ d.length) :
    axesCheck s p.1 (insCon c pos) (cax.insertIdx (min pos cax.length) axis) = true := by
  have hfit := fits_of_core h hc hmod hd hx
  have hl := fits_length hfit
  have hmin : min pos cax.length = pos := by omega
  rw [hmin]
  have hfit' := fits_insertIdx hfit ha pos
  unfold axesCheck
  rw [fits_sizesOf hfit']
  simp only
  rw [modelled_shape hmod]
  simp [insCon, hd]

theorem insDamage_core {s : St} (h : Core s) {axis : Key} (ha : axSize s axis = some (some 1))
    (position : Nat) (da0 : List Key) (p : CType × Key) (hn : insOne true axis position da0 s p = none) :
    insDamage true axis position da0 s p = s := by
  unfold insDamage
  cases hc : s.cons.get p with
  | none => rfl
  | some c =>
    cases hx : s.caxes.get p.2 with
    | none => rfl
    | some cax =>
      simp only
      cases hd : c.data with
      | none => rfl
      | some d =>
        simp only
        split
        · rename_i hg
          exfalso
          simp only [Bool.and_eq_true, Bool.not_eq_true', decide_eq_true_eq, Bool.true_and] at hg
          obtain ⟨⟨⟨harr, hcon⟩, hdim⟩, hpos⟩ := hg
          have hmod : modelled p.1 = true := by
            rcases array_cases' harr with h1 | h1 | h1
            · exact h1
            · simp [skippedByInsert, h1] at hdim
            · simp [skippedByInsert, h1] at hdim
          have hchk := insOne_check h ha hc hmod hd hx hpos
          unfold insOne at hn
          simp only [hc, harr, Bool.not_true, Bool.false_eq_true, ↓reduceIte, hd, hx, hcon, Bool.true_and, hdim, hmod,
            show ¬ conPosition position da0 cax > d.length by omega, hchk] at hn
          simp at hn
        · rfl

/-! ### what the loops leave alone -/

/-- a successful step of the loop of `insert_dimension` changes at most one construct with plain data -/
theorem insOne_cons {s s' : St} {axis : Key} {position : Nat} {da0 : List Key} {p : CType × Key}
    (hr : insOne true axis position da0 s p = some s') :
    ∀ q, modelled q.1 = false → s'.cons.get q = s.cons.get q := by
  intro q hq
  unfold insOne at hr
  repeat' split at hr
  all_goals first
    | (simp only [Option.some.injEq] at hr; subst hr; rfl)
    | (cases hr; done)
    | skip
  rename_i hmod _ _
  simp only [Option.some.injEq] at hr
  subst hr
  show (s.cons.set p _).get q = _
  rw [Dict.get_set, if_neg]
  intro e
  subst e
  simp [hq] at hmod

theorem axSize_of_cons {s s' : St} (h : ∀ q, modelled q.1 = false → s'.cons.get q = s.cons.get q) (a : Key) :
    axSize s' a = axSize s a := by
  unfold axSize; rw [h (.axis, a) rfl]

theorem noTopo_of_cons {s s' : St} (h : ∀ q, (q.1 = CType.top ∨ q.1 = CType.con) → s'.cons.get q = s.cons.get q)
    (hn : NoTopoData s) : NoTopoData s' := by
  intro q c hc hq
  rw [h q hq] at hc
  exact hn q c hc hq

theorem topo_notModelled {q : CType × Key} (hq : q.1 = CType.top ∨ q.1 = CType.con) : modelled q.1 = false := by
  rcases hq with e | e <;> rw [e] <;> rfl

theorem setDataAxes_cons (pt : Bool) (s : St) (A : List Key) (sh : Option (List Nat)) :
    (setDataAxes pt s A sh).1.cons = s.cons := by
  unfold setDataAxes
  repeat' split
  all_goals rfl

theorem insertField_cons (s : St) (a : Key) (position : Nat) : (insertField true s a position).1.cons = s.cons := by
  unfold insertField
  repeat' split
  all_goals first
    | rfl
    | (rename_i heq; have h2 := congrArg (fun x => x.1.cons) heq; simp only [setDataAxes_cons] at h2; exact h2.symm)

theorem insertAxisKey_cons {s s1 : St} {axis : Option Key} {a : Key} (hr : insertAxisKey true s axis = some (s1, a)) :
    ∀ q, modelled q.1 = false → q.1 ≠ CType.axis → s1.cons.get q = s.cons.get q := by
  intro q _ hq
  unfold insertAxisKey at hr
  cases axis with
  | none =>
    simp only at hr
    cases hsc : setConstruct true s false .axis { size := some 1 } none none with
    | mk s' o =>
      rw [hsc] at hr
      cases o with
      | rejected => simp at hr
      | ok ko =>
        cases ko with
        | none => simp at hr
        | some k =>
          simp only [Option.some.injEq, Prod.mk.injEq] at hr
          obtain ⟨rfl, rfl⟩ := hr
          unfold setConstruct at hsc
          simp only [ignored, Bool.false_and, Bool.false_eq_true, ↓reduceIte, resolveKey] at hsc
          unfold storeAt at hsc
          simp only [CType.isArray, Bool.false_eq_true, ↓reduceIte, Option.isSome_none, Prod.mk.injEq, Out.ok.injEq,
            Option.some.injEq] at hsc
          obtain ⟨rfl, rfl⟩ := hsc
          rw [putCon_cons, if_neg]
          intro e
          exact hq (by rw [e])
  | some a0 =>
    simp only at hr
    cases hg : s.cons.get (.axis, a0) with
    | none => simp [hg] at hr
    | some c =>
      simp only [hg] at hr
      split at hr
      · simp only [Option.some.injEq, Prod.mk.injEq] at hr
        obtain ⟨rfl, rfl⟩ := hr
        rfl
      · cases hr

/-! ### the two deriving calls with a loop over the constructs -/

theorem transposeField_core {s : St} (h : Core s) (perm : Option (List Nat)) (constructs inplace : Bool) :
    Core (transposeField true s perm constructs inplace).1 := by
  unfold transposeField
  split
  · exact h
  cases hd : s.data with
  | none => exact h
  | some shp =>
    simp only
    cases transposeIdx shp perm with
    | none => exact h
    | some iaxes =>
      simp only
      have hrl := relabel_core h hd inplace iaxes
      cases hr : relabel true s inplace shp iaxes with
      | mk s2 b =>
        rw [hr] at hrl
        cases b with
        | false => exact hrl
        | true =>
          simp only
          split
          · exact hrl
          cases hf : foldOpt transOne s2 (s2.cons.live.map (·.1)) with
          | none =>
            simp only
            split
            · -- in place: the constructs before the failing one are transposed, the failing one is untouched
              exact foldIP_inv Core transOne transDamage (fun b a b' hb hba => transOne_core hb a hba)
                (fun b a hb hba => by rw [transDamage_core hb a hba]; exact hb) _ s2 hrl
            · exact h
          | some s3 =>
            exact foldOpt_inv Core transOne (fun b a b' hb hba => transOne_core hb a hba) _ s2 s3 hrl hf

/-- the in-place loop of `transpose(constructs=True)` keeps the invariant whatever the order (and
multiplicity) in which the constructs are visited -/
theorem transposeLoop_anyOrder {s : St} (h : Core s) (order : List (CType × Key)) :
    Core (foldIP transOne transDamage s order) :=
  foldIP_inv Core transOne transDamage (fun b a b' hb hba => transOne_core hb a hba)
    (fun b a hb hba => by rw [transDamage_core hb a hba]; exact hb) order s h

/-- the invariant of the in-place loop of `insert_dimension` -/
structure InsInv (a : Key) (st : St) : Prop where
  core : Core st
  one : axSize st a = some (some 1)

theorem insOne_insInv {a : Key} {position : Nat} {da0 : List Key} {st st' : St} {p : CType × Key}
    (h : InsInv a st) (hr : insOne true a position da0 st p = some st') : InsInv a st' :=
  ⟨insOne_core h.core a position da0 p hr, by rw [axSize_of_cons (insOne_cons hr)]; exact h.one⟩

/-- the in-place loop of `insert_dimension(constructs=True)` keeps the invariant whatever the order in which
the constructs are visited (domain topology / cell connectivity constructs are left as they are) -/
theorem insertLoop_anyOrder {s : St} {a : Key} (h : InsInv a s) (position : Nat) (da0 : List Key)
    (order : List (CType × Key)) :
    InsInv a (foldIP (insOne true a position da0) (insDamage true a position da0) s order) :=
  foldIP_inv (InsInv a) _ _ (fun _ _ _ hb hba => insOne_insInv hb hba)
    (fun b q hb hbq => by rw [insDamage_core hb.core hb.one position da0 q hbq]; exact hb) order s h

theorem insertDimension_core {s : St} (h : Core s) (axis : Option Key) (position : Nat) (constructs inplace : Bool) :
    Core (insertDimension true s axis position constructs inplace).1 := by
  unfold insertDimension
  split
  · exact h
  cases hk : insertAxisKey true s axis with
  | none => exact h
  | some sa =>
    obtain ⟨s1, a⟩ := sa
    obtain ⟨h1, ha⟩ := insertAxisKey_spec h hk
    simp only
    have hfld := insertField_core h1 ha position
    cases hr : insertField true s1 a position with
    | mk s3 b =>
      rw [hr] at hfld
      cases b with
      | false =>
        simp only
        split
        · exact hfld
        · exact h
      | true =>
        simp only
        split
        · exact hfld
        rename_i hcs
        cases hf : foldOpt (insOne true a (if s1.dataAxes.isNone then 0 else position) (s1.dataAxes.getD [])) s3
            (s3.cons.live.map (·.1)) with
        | none =>
          simp only
          split
          · rename_i hip
            have hcons3 : s3.cons = s1.cons := by
              have := insertField_cons s1 a position; rw [hr] at this; exact this
            have hP : InsInv a s3 :=
              ⟨hfld, by unfold axSize; rw [hcons3]; exact ha⟩
            exact (insertLoop_anyOrder hP _ _ _).core
          · exact h
        | some s4 =>
          exact foldOpt_inv Core _ (fun b q b' hb hbq => insOne_core hb _ _ _ q hbq) _ s3 s4 hfld hf

end Cfdm.Constructs
