import Cfdm.Lemmas.Files
/-
C10 — the file-system half: frame lemmas for `writeProc`, what passing the guards means,
stability of reads.  Core Lean only.
-/
namespace Cfdm.Files

theorem FS.set_ne (fs : FS) (n m : Name) (e : Option Entry) (h : m ≠ n) : (fs.set n e) m = fs m := by
  simp [FS.set, h]

theorem FS.set_eq (fs : FS) (n : Name) (e : Option Entry) : (fs.set n e) n = e := by
  simp [FS.set]

/-! ## Frame: only the target and the external file can change -/

theorem FS.append_ne (fs : FS) (t m : Name) (x : Nat) (hm : m ≠ t) : (fs.append t x) m = fs m := by
  unfold FS.append
  cases h : fs t with
  | none => rfl
  | some e =>
    cases e with
    | file c => exact FS.set_ne _ _ _ _ hm
    | link l => rfl

theorem emit_frame (fs0 : FS) (fault : Fault) (skip : Bool) (t : Name) (tok : Nat → Nat) (m : Name) (hm : m ≠ t) :
    ∀ (l : List FieldM) (fs : FS) (i : Nat), (emit fs0 fault skip t tok fs i l).1 m = fs m := by
  intro l
  induction l with
  | nil => intro fs i; simp [emit]
  | cons f rest ih =>
    intro fs i
    simp only [emit]
    split
    · rfl
    · rw [ih]
      exact FS.append_ne _ _ _ _ hm

theorem openW_frame (v : Ver) (fs fs1 : FS) (xs : List FieldM) (t m : Name) (hm : m ≠ t)
    (h : openW v fs xs t = some fs1) : fs1 m = fs m := by
  unfold openW at h
  split at h
  · simp at h
  · simp only [Option.some.injEq] at h
    subst h
    rw [FS.set_ne _ _ _ _ hm]
    split
    · exact FS.set_ne _ _ _ _ hm
    · rfl

theorem writeExternalTo_frame (v : Ver) (fs0 fs : FS) (rq : Req) (e m : Name) (hme : m ≠ e) :
    (writeExternalTo v fs0 fs rq e).1 m = fs m := by
  unfold writeExternalTo
  dsimp only
  split
  · rfl
  · split
    · rfl
    · split
      · rfl
      · rename_i fs1 h1
        dsimp only
        rw [emit_frame _ _ _ _ _ m hme, openW_frame _ _ _ _ _ _ hme h1]

theorem writeExternal_frame (v : Ver) (fs0 fs : FS) (rq : Req) (m : Name)
    (hm : ∀ e, rq.external = some e → m ≠ e) : (writeExternal v fs0 fs rq).1 m = fs m := by
  unfold writeExternal
  split
  · rfl
  · rename_i e he
    exact writeExternalTo_frame v fs0 fs rq e m (hm e he)

/-- The names a write may change. -/
def touchable (fs : FS) (rq : Req) : List Name :=
  (match rq.mode with
   | .w => [rq.target]
   | .a => [fs.real rq.target]) ++ rq.external.toList

theorem writeA_frame (v : Ver) (fs : FS) (rq : Req) (m : Name) (hmt : m ≠ fs.real rq.target)
    (hext : ∀ e, rq.external = some e → m ≠ e) : (writeA v fs rq).1 m = fs m := by
  unfold writeA
  split
  · rfl
  · split
    · rfl
    · split
      · rfl
      · split
        · rfl
        · dsimp only
          split
          · exact emit_frame _ _ _ _ _ m hmt _ _ _
          · rw [writeExternal_frame _ _ _ _ _ hext]
            exact emit_frame _ _ _ _ _ m hmt _ _ _

theorem writeWOpened_frame (v : Ver) (fs fs1 : FS) (rq : Req) (m : Name) (hmt : m ≠ rq.target)
    (hext : ∀ e, rq.external = some e → m ≠ e) : (writeWOpened v fs fs1 rq).1 m = fs1 m := by
  unfold writeWOpened
  split
  · rfl
  · dsimp only
    split
    · exact emit_frame _ _ _ _ _ m hmt _ _ _
    · rw [writeExternal_frame _ _ _ _ _ hext]
      exact emit_frame _ _ _ _ _ m hmt _ _ _

theorem writeW_frame (v : Ver) (fs : FS) (rq : Req) (m : Name) (hmt : m ≠ rq.target)
    (hext : ∀ e, rq.external = some e → m ≠ e) : (writeW v fs rq).1 m = fs m := by
  unfold writeW
  split
  · rfl
  · split
    · rfl
    · split
      · rfl
      · rename_i fs1 h1
        rw [writeWOpened_frame v fs fs1 rq m hmt hext]
        exact openW_frame _ _ _ _ _ m hmt h1

theorem writeProc_frame (v : Ver) (fs : FS) (rq : Req) (m : Name) (hm : m ∉ touchable fs rq) :
    (writeProc v fs rq).1 m = fs m := by
  have hext : ∀ e, rq.external = some e → m ≠ e := by
    intro e he hme
    apply hm
    simp [touchable, he, hme]
  unfold writeProc
  split
  · rfl
  · split
    · rename_i hmode
      apply writeA_frame v fs rq m _ hext
      intro h; apply hm; simp [touchable, hmode, h]
    · rename_i hmode
      apply writeW_frame v fs rq m _ hext
      intro h; apply hm; simp [touchable, hmode, h]

/-! ## Reads through names whose resolution avoids the touched names are stable -/

theorem FS.real_real (fs : FS) (hwf : fs.WF) (x : Name) : fs.real (fs.real x) = fs.real x := by
  unfold FS.real
  cases hx : fs x with
  | none => simp [hx]
  | some e =>
    cases e with
    | file c => simp [hx]
    | link t =>
      obtain ⟨c, hc⟩ := hwf x t hx
      simp [hc]

theorem read_stable (fs fs' : FS) (S : List Name) (n : Name) (hwf : fs.WF)
    (hframe : ∀ m, m ∉ S → fs' m = fs m) (hn : ∀ s ∈ S, fs.real n ≠ fs.real s) :
    fs'.read n = fs.read n := by
  have hnS : n ∉ S := fun h => hn n h rfl
  have hmS : fs.real n ∉ S := by
    intro h
    exact hn _ h (fs.real_real hwf n).symm
  have e1 : fs' n = fs n := hframe n hnS
  have e2 : fs'.real n = fs.real n := by simp [FS.real, e1]
  have e3 : fs' (fs.real n) = fs (fs.real n) := hframe _ hmS
  simp [FS.read, e2, e3]

/-! ## What it means that the patched guards let a request through -/

/-- No original file name of any field resolves to the target or to the external file. -/
def Passed (fs : FS) (rq : Req) : Prop :=
  ∀ f ∈ rq.fields, ∀ o ∈ f.origNew,
    fs.real o ≠ fs.real rq.target ∧ ∀ e, rq.external = some e → fs.real o ≠ fs.real e

theorem guardHits_new_false (fs : FS) (fields : List FieldM) (n : Name)
    (h : guardHits .new fs fields n = false) : ∀ f ∈ fields, ∀ o ∈ f.origNew, fs.real o ≠ fs.real n := by
  intro f hf o ho
  simp only [guardHits, FieldM.orig, List.any_eq_false, List.any_eq_true, not_exists, not_and] at h
  have := h f hf o ho
  simpa using this

theorem guardHits_new_true (fs : FS) (fields : List FieldM) (n : Name) (f : FieldM) (hf : f ∈ fields)
    (o : Name) (ho : o ∈ f.origNew) (hr : fs.real o = fs.real n) : guardHits .new fs fields n = true := by
  simp only [guardHits, FieldM.orig, List.any_eq_true]
  exact ⟨f, hf, o, ho, by simp [hr]⟩

theorem extGuard_new_false (fs : FS) (fields : List FieldM) (ext : Option Name)
    (h : ¬ extGuard .new fs fields ext = true) :
    ∀ e, ext = some e → guardHits .new fs fields e = false := by
  intro e he
  subst he
  simpa [extGuard] using h

theorem tgtGuard_new_false (fs : FS) (fields : List FieldM) (t : Name)
    (h : ¬ tgtGuard .new fs fields t = true) : fields = [] ∨ guardHits .new fs fields t = false := by
  cases fields with
  | nil => exact Or.inl rfl
  | cons a l => right; simpa [tgtGuard] using h

theorem openW_new_some (fs fs1 : FS) (fields : List FieldM) (t : Name)
    (h : openW .new fs fields t = some fs1) : fields = [] ∨ guardHits .new fs fields t = false := by
  unfold openW at h
  split at h
  · simp at h
  · rename_i hc
    exact tgtGuard_new_false fs fields t hc

theorem passed_of (fs : FS) (rq : Req)
    (ht : rq.fields = [] ∨ guardHits .new fs rq.fields rq.target = false)
    (he : ∀ e, rq.external = some e → guardHits .new fs rq.fields e = false) : Passed fs rq := by
  intro f hf o ho
  refine ⟨?_, ?_⟩
  · rcases ht with h | h
    · simp [h] at hf
    · exact guardHits_new_false fs _ _ h f hf o ho
  · intro e hee
    exact guardHits_new_false fs _ _ (he e hee) f hf o ho

/-- The patched `write` either leaves the file system alone or all its guards were passed. -/
theorem writeProc_new_cases (fs : FS) (rq : Req) : (writeProc .new fs rq).1 = fs ∨ Passed fs rq := by
  unfold writeProc
  split
  · exact Or.inl rfl
  · split
    · unfold writeA
      split
      · exact Or.inl rfl
      · split
        · exact Or.inl rfl
        · split
          · exact Or.inl rfl
          · rename_i hext
            split
            · exact Or.inl rfl
            · rename_i hg
              right
              exact passed_of fs rq (tgtGuard_new_false fs _ _ (by simpa [appGuard] using hg))
                (extGuard_new_false fs _ _ hext)
    · unfold writeW
      split
      · exact Or.inl rfl
      · split
        · exact Or.inl rfl
        · rename_i hext
          split
          · exact Or.inl rfl
          · rename_i fs1 h1
            right
            exact passed_of fs rq (openW_new_some fs fs1 _ _ h1) (extGuard_new_false fs _ _ hext)

/-! ## Outcomes -/

def Outcome.isRefusal : Outcome → Bool
  | .osError | .valueError => true
  | _ => false

theorem writeExternal_not_refusal (v : Ver) (fs0 fs : FS) (rq : Req) :
    (writeExternal v fs0 fs rq).2.isRefusal = false := by
  unfold writeExternal
  split
  · rfl
  · unfold writeExternalTo
    dsimp only
    split
    · rfl
    · split
      · rfl
      · split
        · rfl
        · dsimp only
          split <;> rfl

theorem writeA_refusal_pure (v : Ver) (fs : FS) (rq : Req)
    (h : (writeA v fs rq).2.isRefusal = true) : (writeA v fs rq).1 = fs := by
  unfold writeA at h ⊢
  by_cases h1 : fs.isfile rq.target = false
  · rw [if_pos h1]
  · by_cases h2 : extIs fs rq.external (fs.real rq.target) = true
    · rw [if_neg h1, if_pos h2]
    · by_cases h3 : extGuard v fs rq.fields rq.external = true
      · rw [if_neg h1, if_neg h2, if_pos h3]
      · by_cases h4 : appGuard v fs rq.fields rq.target = true
        · rw [if_neg h1, if_neg h2, if_neg h3, if_pos h4]
        · exfalso
          rw [if_neg h1, if_neg h2, if_neg h3, if_neg h4] at h
          dsimp only at h
          split at h
          · simp [Outcome.isRefusal] at h
          · rw [writeExternal_not_refusal] at h
            simp at h

theorem writeWOpened_not_refusal (v : Ver) (fs fs1 : FS) (rq : Req) :
    (writeWOpened v fs fs1 rq).2.isRefusal = false := by
  unfold writeWOpened
  split
  · rfl
  · dsimp only
    split
    · rfl
    · exact writeExternal_not_refusal _ _ _ _

theorem writeW_refusal_pure (v : Ver) (fs : FS) (rq : Req)
    (h : (writeW v fs rq).2.isRefusal = true) : (writeW v fs rq).1 = fs := by
  unfold writeW at h ⊢
  by_cases h1 : (fs.isfile rq.target && !rq.overwrite) = true
  · rw [if_pos h1]
  · by_cases h2 : extGuard v fs rq.fields rq.external = true
    · rw [if_neg h1, if_pos h2]
    · rw [if_neg h1, if_neg h2] at h ⊢
      cases h3 : openW v fs rq.fields rq.target with
      | none => rfl
      | some fs1 =>
        exfalso
        rw [h3] at h
        dsimp only at h
        rw [writeWOpened_not_refusal] at h
        simp at h

theorem writeProc_refusal_pure (v : Ver) (fs : FS) (rq : Req)
    (h : (writeProc v fs rq).2.isRefusal = true) : (writeProc v fs rq).1 = fs := by
  unfold writeProc at h ⊢
  by_cases hp : rq.fault = Fault.pre
  · rw [if_pos hp]
  · rw [if_neg hp] at h ⊢
    cases hm : rq.mode with
    | a => rw [hm] at h; exact writeA_refusal_pure v fs rq h
    | w => rw [hm] at h; exact writeW_refusal_pure v fs rq h

end Cfdm.Files
