import Cfdm.Model.Settings
/-
Helper lemmas for C20 (core Lean only).
-/
namespace Cfdm.Settings

theorem ofName_upper_name (l : Level) : Level.ofName? (upper l.name) = some l := by
  cases l <;> decide

theorem ofValue_value (l : Level) : Level.ofValue? l.value = some l := by
  cases l <;> decide

theorem critical_ne_zero : critical ≠ 0 := by decide

/-! ### `access`, `exitConst` -/

theorem access_restore_log (l : Level) (s : State) :
    access (opOf .log (.lvl l)) s = .ok (.lvl s.level, { resetEmergence l s with level := l }) := by
  simp [opOf, access, LvlArg.parse, ofName_upper_name]

theorem exitConst_log (l : Level) (s : State) :
    exitConst .log (.lvl l) s = { resetEmergence l s with level := l } := by
  simp [exitConst, access_restore_log]

theorem exitConst_atol (i : Nat) (s : State) : exitConst .atol (.tol i) s = { s with atol := i } := by
  simp [exitConst, opOf, access]

theorem exitConst_rtol (i : Nat) (s : State) : exitConst .rtol (.tol i) s = { s with rtol := i } := by
  simp [exitConst, opOf, access]

/-- The value a setter returns is the one stored before the call. -/
theorem access_old (op : SetOp) (s s' : State) (old : Val) (h : access op s = .ok (old, s')) :
    old = getVal op.key s := by
  cases op with
  | atol a =>
    rcases a with _ | a | _ <;> simp [access] at h <;> simp [getVal, SetOp.key, ← h.1]
  | rtol a =>
    rcases a with _ | a | _ <;> simp [access] at h <;> simp [getVal, SetOp.key, ← h.1]
  | log a =>
    cases a with
    | none => simp [access] at h; simp [getVal, SetOp.key, ← h.1]
    | some a =>
      simp only [access] at h
      cases hp : a.parse <;> rw [hp] at h <;> simp at h
      simp [getVal, SetOp.key, ← h.1]

/-- Handing the old value back restores that setting. -/
theorem getVal_exitConst (k : Key) (s0 s : State) :
    getVal k (exitConst k (getVal k s0) s) = getVal k s0 := by
  cases k
  · simp [getVal, exitConst_atol]
  · simp [getVal, exitConst_rtol]
  · simp [getVal, exitConst_log]

theorem resetEmergence_level (l : Level) (s : State) : (resetEmergence l s).level = s.level := by
  unfold resetEmergence; split <;> rfl

theorem resetEmergence_atol (l : Level) (s : State) : (resetEmergence l s).atol = s.atol := by
  unfold resetEmergence; split <;> rfl

theorem resetEmergence_rtol (l : Level) (s : State) : (resetEmergence l s).rtol = s.rtol := by
  unfold resetEmergence; split <;> rfl

/-! ### Canonical logging state -/

/-- What an observer sees of the logging state that `log_level(l)` establishes. -/
def canon (l : Level) : Level × Nat × Option Nat :=
  if l = .DISABLE then (l, critical, none) else (l, 0, some l.no)

theorem consistent_iff (s : State) : Consistent s ↔ obsLog s = canon s.level := by
  unfold Consistent obsLog canon
  by_cases h : s.level = .DISABLE
  · simp only [h, forall_const, ne_eq, not_true_eq_false, false_implies, and_true, if_true,
      Prod.mk.injEq, true_and]
    constructor
    · intro hd
      simp [hd, critical_ne_zero]
    · intro hh
      exact hh.1
  · simp only [h, false_implies, ne_eq, not_false_eq_true, forall_const, true_and, if_false,
      Prod.mk.injEq]
    constructor
    · rintro ⟨hd, hr⟩; simp [hd, hr]
    · intro hh
      have hd := hh.1
      simp [hd] at hh
      exact ⟨hd, hh⟩

theorem obsLog_reset (l : Level) (s : State) :
    obsLog { resetEmergence l s with level := l } = canon l := by
  unfold resetEmergence obsLog canon
  by_cases h : l = .DISABLE <;> simp [h, critical_ne_zero]

theorem consistent_of_obsLog {s s' : State} (h : obsLog s' = obsLog s) (hc : Consistent s) :
    Consistent s' := by
  rw [consistent_iff] at *
  have hl : s'.level = s.level := by
    have := congrArg Prod.fst h
    simpa [obsLog] using this
  rw [h, hc, hl]

theorem obsLog_of_logState {s s' : State} (h : logState s' = logState s) : obsLog s' = obsLog s := by
  simp only [logState, Prod.mk.injEq] at h
  simp [obsLog, h.1, h.2.1, h.2.2]

/-! ### `configuration` -/

theorem state_eta_atol (s : State) : { s with atol := s.atol } = s := by cases s; rfl
theorem state_eta_rtol (s : State) : { s with rtol := s.rtol } = s := by cases s; rfl

/-- Whatever the arguments, a `configuration(...)` call that raises leaves every setting
(and the logging state) as it found it. -/
theorem cfgCall_error (c : CfgArgs) (s : State) (e : Exc) (old : Cfg) (s' : State)
    (h : cfgCall c s = (some e, old, s')) : s' = s := by
  rcases c with ⟨a, r, l⟩
  simp only [cfgCall, Prod.mk.injEq] at h
  obtain ⟨h1, -, h2⟩ := h
  subst h2
  rcases a with _ | a | _ <;> rcases r with _ | r | _ <;> cases l with
  | none => simp_all [CfgArgs.ops, cfgLoop, access, rollback, SetOp.key, getVal, exitConst_atol, exitConst_rtol]
  | some l =>
    cases hp : l.parse <;>
      simp_all [CfgArgs.ops, cfgLoop, access, rollback, SetOp.key, getVal, exitConst_atol, exitConst_rtol]

/-- Without a `log_level` argument `configuration(...)` never touches the logging state. -/
theorem cfgCall_nolog (c : CfgArgs) (s : State) (hl : c.l = none) :
    logState (cfgCall c s).2.2 = logState s := by
  rcases c with ⟨a, r, l⟩
  simp only at hl
  subst hl
  rcases a with _ | a | _ <;> rcases r with _ | r | _ <;>
    simp [cfgCall, CfgArgs.ops, cfgLoop, access, rollback, SetOp.key, getVal, exitConst_atol, exitConst_rtol,
      logState]

theorem exitCfg_eq (old : Cfg) (s : State) :
    exitCfg old s =
      { resetEmergence old.level { s with atol := old.atol, rtol := old.rtol } with level := old.level } := by
  simp [exitCfg, cfgCall, CfgArgs.ops, cfgLoop, access, LvlArg.parse, ofName_upper_name, SetOp.key]

end Cfdm.Settings
