import Cfdm.Model.ConstructsSeq
import Cfdm.Lemmas.ConstructsStep
/-
C02 — the sequenced method bodies (`Model/ConstructsSeq.lean`):
  * `guardsFirst_atomic`: a program whose guards all precede its first write is atomic;
  * every sequenced body has that shape (`…_gf`), `_del_construct` excepted;
  * every sequenced body computes the one-step function of `Model/Constructs.lean` (`exec_…`).
-/
set_option linter.unusedSimpArgs false

namespace Cfdm.Constructs

theorem exec_ret (o : Option Key) (s : St) : (Prog.ret o).exec s = (s, .ok o) := rfl
theorem exec_guard (g : St → Bool) (k : Prog) (s : St) :
    (Prog.guard g k).exec s = if g s then k.exec s else (s, .rejected) := rfl
theorem exec_write (w : St → St) (k : Prog) (s : St) : (Prog.write w k).exec s = k.exec (w s) := rfl
theorem exec_read {α : Type} (r : St → α) (k : α → Prog) (s : St) : (Prog.read r k).exec s = (k (r s)).exec s := rfl
theorem exec_fail (s : St) : Prog.fail.exec s = (s, .rejected) := rfl

/-! ### shape of a program -/

/-- no guard at all: the program cannot be rejected -/
inductive Prog.Total : Prog → Prop
  | ret (o : Option Key) : Total (.ret o)
  | write (w : St → St) (k : Prog) : Total k → Total (.write w k)
  | read {α : Type} (r : St → α) (k : α → Prog) : (∀ a, Total (k a)) → Total (.read r k)

/-- every guard comes before the first write -/
inductive Prog.GuardsFirst : Prog → Prop
  | ret (o : Option Key) : GuardsFirst (.ret o)
  | guard (g : St → Bool) (k : Prog) : GuardsFirst k → GuardsFirst (.guard g k)
  | read {α : Type} (r : St → α) (k : α → Prog) : (∀ a, GuardsFirst (k a)) → GuardsFirst (.read r k)
  | write (w : St → St) (k : Prog) : Prog.Total k → GuardsFirst (.write w k)

theorem Prog.Total.isOk {p : Prog} (h : p.Total) : ∀ s, (p.exec s).2.isOk = true := by
  induction h with
  | ret o => intro s; rfl
  | write w k _ ih => intro s; exact ih (w s)
  | read r k _ ih => intro s; exact ih (r s) s

theorem Prog.Total.gf {p : Prog} (h : p.Total) : p.GuardsFirst := by
  induction h with
  | ret o => exact .ret o
  | write w k hk _ => exact .write w k hk
  | read r k _ ih => exact .read r k ih

/-- **guards before writes ⇒ a rejected run leaves the state literally unchanged** -/
theorem guardsFirst_atomic {p : Prog} (h : p.GuardsFirst) : ∀ s s', p.exec s = (s', .rejected) → s' = s := by
  induction h with
  | ret o => intro s s' e; simp [exec_ret, exec_guard, exec_write, exec_read, exec_fail] at e
  | guard g k _ ih =>
    intro s s' e
    unfold Prog.exec at e
    split at e
    · exact ih s s' e
    · simp only [Prod.mk.injEq, and_true] at e; exact e.symm
  | read r k _ ih => intro s s' e; exact ih (r s) s s' e
  | write w k hk =>
    intro s s' e
    have := hk.isOk (w s)
    unfold Prog.exec at e
    rw [e] at this
    simp [Out.isOk] at this

theorem guardEach_gf {α : Type} (g : α → St → Bool) (l : List α) {k : Prog} (h : k.GuardsFirst) :
    (guardEach g l k).GuardsFirst := by
  induction l with
  | nil => exact h
  | cons x r ih => exact .guard _ _ ih

theorem fail_gf : Prog.fail.GuardsFirst := .guard _ _ (.ret none)

theorem guardEach_exec {α : Type} (g : α → St → Bool) (l : List α) (k : Prog) (s : St) :
    (guardEach g l k).exec s = if l.all (fun x => g x s) then k.exec s else (s, .rejected) := by
  induction l with
  | nil => simp [guardEach]
  | cons x r ih =>
    show (Prog.guard (g x) (guardEach g r k)).exec s = _
    rw [exec_guard, ih, List.all_cons]
    by_cases hx : g x s = true
    · rw [if_pos hx]; simp only [hx, Bool.true_and]
    · rw [if_neg hx]; simp only [hx, Bool.false_and, Bool.false_eq_true, ↓reduceIte]

/-! ### the bodies have their guards first -/

theorem pShapeGuard_gf (A : List Key) (shp : Option (List Nat)) {k : Prog} (h : k.GuardsFirst) :
    (pShapeGuard A shp k).GuardsFirst := by
  cases shp with
  | none => exact h
  | some x => exact guardEach_gf _ _ (.guard _ _ h)

theorem pSetDataAxes_gf (A : List Key) (shape : Option (List Nat)) {k : Prog} (hk : k.Total) :
    (pSetDataAxes A shape k).GuardsFirst :=
  .read _ _ (fun shp => guardEach_gf _ _ (pShapeGuard_gf A shp (.write _ _ (.write _ _ hk))))

theorem pSetDA_gf (A : List Key) : (pSetDA A).GuardsFirst := pSetDataAxes_gf A none (.ret none)

theorem pSetData_gf (shp : List Nat) (axes : Option (List Key)) : (pSetData shp axes).GuardsFirst := by
  unfold pSetData
  have hs : (Prog.write (fun s => { s with data := some shp }) (.ret none)).Total := .write _ _ (.ret none)
  cases axes with
  | some A => exact pSetDataAxes_gf A _ hs
  | none =>
    refine .read _ _ (fun ex => ?_)
    cases ex with
    | some A => exact pSetDataAxes_gf A _ hs
    | none => exact hs.gf

theorem pConAxes_gf (t : CType) (c : Con) (key : Key) (A : List Key) {k : Prog} (hk : k.Total) :
    (pConAxes t c key A k).GuardsFirst :=
  guardEach_gf _ _ (.guard _ _ (.write _ _ hk))

theorem pSetConstruct_gf (view : Bool) (t : CType) (c : Con) (key : Option Key) (axes : Option (List Key)) :
    (pSetConstruct view t c key axes).GuardsFirst := by
  unfold pSetConstruct
  refine .guard _ _ (.read _ _ (fun rk => ?_))
  cases rk with
  | none => exact fail_gf
  | some k =>
    have hs : (Prog.write (fun s : St => { s with ctype := s.ctype.set k t })
        (.write (fun s => { s with cons := s.cons.set (t, k) c }) (.ret (some k)))).Total :=
      .write _ _ (.write _ _ (.ret _))
    simp only
    split
    · refine .read _ _ (fun ax => ?_)
      cases ax with
      | some A => exact pConAxes_gf t c k A hs
      | none => exact hs.gf
    · exact .guard _ _ hs.gf

theorem pSetConAxes_gf (view : Bool) (A : List Key) (key : Key) : (pSetConAxes view A key).GuardsFirst := by
  unfold pSetConAxes
  refine .read _ _ (fun ty => ?_)
  cases ty with
  | none => exact fail_gf
  | some t =>
    refine .read _ _ (fun oc => ?_)
    cases oc with
    | none => exact fail_gf
    | some c => exact pConAxes_gf t c key A (.ret none)

theorem pDelData_gf : pDelData.GuardsFirst := .guard _ _ (.write _ _ (.ret none))
theorem pDelDataAxes_gf : pDelDataAxes.GuardsFirst := .guard _ _ (.write _ _ (.write _ _ (.ret none)))
theorem pDelConAxes_gf (view : Bool) (key : Key) : (pDelConAxes view key).GuardsFirst :=
  .guard _ _ (.write _ _ (.ret none))

theorem pReplace_gf (key : Key) (c : Con) (axes : Option (List Key)) : (pReplace key c axes).GuardsFirst := by
  unfold pReplace
  refine .read _ _ (fun ty => ?_)
  cases ty with
  | none => exact fail_gf
  | some t =>
    cases axes with
    | none => exact .write _ _ (.ret none)
    | some A =>
      simp only
      split
      · exact .write _ _ (.write _ _ (.ret none))
      · exact .write _ _ (.ret none)

/-! ### the bodies compute the one-step functions -/

theorem isSizedAxis_isAxis {s : St} {a : Key} (h : isSizedAxis s a = true) : isAxis s a = true := by
  unfold isSizedAxis at h
  unfold isAxis
  cases hg : s.cons.get (.axis, a) with
  | none => simp [hg] at h
  | some c => rfl

theorem sizesOfD_isSome (s : St) (A : List Key) :
    (sizesOfD s.cons A).isSome = A.all (fun a => isSizedAxis s a) := by
  induction A with
  | nil => rfl
  | cons a l ih =>
    rw [List.all_cons, ← ih]
    conv => lhs; unfold sizesOfD
    unfold isSizedAxis
    cases hg : s.cons.get (.axis, a) with
    | none => simp
    | some c =>
      simp only
      cases hs : c.size with
      | none => simp
      | some n => cases sizesOfD s.cons l <;> simp

theorem sizesOf_some_all {s : St} {A : List Key} {x : List Nat} (h : sizesOf s A = some x) :
    A.all (fun a => isSizedAxis s a) = true ∧ A.all (fun a => isAxis s a) = true := by
  have h1 : A.all (fun a => isSizedAxis s a) = true := by
    rw [← sizesOfD_isSome]; unfold sizesOf at h; rw [h]; rfl
  refine ⟨h1, ?_⟩
  rw [List.all_eq_true] at h1 ⊢
  intro a ha
  exact isSizedAxis_isAxis (h1 a ha)

theorem exec_pShapeGuard (A : List Key) (shp : Option (List Nat)) (k : Prog) (s : St) :
    (pShapeGuard A shp k).exec s =
      match shp with
      | some x => if sizesOf s A = some x then k.exec s else (s, .rejected)
      | none => k.exec s := by
  cases shp with
  | none => rfl
  | some x =>
    show (guardEach _ A (Prog.guard _ k)).exec s = _
    rw [guardEach_exec, exec_guard]
    by_cases hs : sizesOf s A = some x
    · rw [if_pos (sizesOf_some_all hs).1]; simp [hs]
    · simp only [hs, decide_false, Bool.false_eq_true, ↓reduceIte, ite_self]

/-- `Field.set_data_axes` inside a longer body -/
theorem exec_pSetDataAxes (A : List Key) (shape : Option (List Nat)) (k : Prog) (s : St) :
    (pSetDataAxes A shape k).exec s =
      match setDataAxes true s A (shapeArg shape s) with
      | (s', .ok _) => k.exec s'
      | (_, .rejected) => (s, .rejected) := by
  unfold pSetDataAxes
  rw [exec_read, guardEach_exec, exec_pShapeGuard]
  unfold setDataAxes
  cases shapeArg shape s with
  | none =>
    simp only [Bool.true_and]
    by_cases ha : A.all (fun a => isAxis s a) = true
    · have ha' : A.all (isAxis s) = true := ha
      rw [if_pos ha]
      simp only [ha', Bool.not_true, Bool.false_eq_true, ↓reduceIte, exec_write]
    · have ha' : ¬ A.all (isAxis s) = true := ha
      rw [if_neg ha]
      simp only [ha', Bool.not_false, ↓reduceIte]
  | some x =>
    simp only
    by_cases hs : sizesOf s A = some x
    · rw [if_pos (sizesOf_some_all hs).2, if_pos hs, if_pos hs]
      simp only [exec_write]
    · rw [if_neg hs, if_neg hs]
      simp only [ite_self]

theorem exec_pSetDA (A : List Key) (s : St) : (pSetDA A).exec s = setDataAxes true s A s.data := by
  unfold pSetDA
  rw [exec_pSetDataAxes]
  show (match setDataAxes true s A s.data with
      | (s', .ok _) => (Prog.ret none).exec s'
      | (_, .rejected) => (s, .rejected)) = _
  cases h : setDataAxes true s A s.data with
  | mk s' o =>
    cases o with
    | ok kk =>
      simp only [exec_ret]
      -- the key returned by `setDataAxes` is always `none`
      unfold setDataAxes at h
      repeat' split at h
      all_goals simp_all
    | rejected =>
      simp only
      unfold setDataAxes at h
      repeat' split at h
      all_goals simp_all

theorem exec_pSetData (shp : List Nat) (axes : Option (List Key)) (s : St) :
    (pSetData shp axes).exec s = setData true s shp axes := by
  have key : ∀ A, (pSetDataAxes A (some shp) (.write (fun s => { s with data := some shp }) (.ret none))).exec s =
      match setDataAxes true s A (some shp) with
      | (s', .ok _) => ({ s' with data := some shp }, .ok none)
      | (_, .rejected) => (s, .rejected) := by
    intro A; rw [exec_pSetDataAxes]; rfl
  unfold pSetData setData dataAxesFor
  cases axes with
  | some A => exact key A
  | none =>
    simp only
    rw [exec_read]
    cases hA : s.dataAxes with
    | none => simp only [exec_write, exec_ret, hA]
    | some A => exact key A

theorem exec_pConAxes (t : CType) (c : Con) (key : Key) (A : List Key) (k : Prog) (s : St) :
    (pConAxes t c key A k).exec s =
      if axesCheck s t c A then k.exec { s with caxes := s.caxes.set key A } else (s, .rejected) := by
  unfold pConAxes axesCheck
  rw [guardEach_exec]
  have hsome := sizesOfD_isSome s A
  cases hs : sizesOf s A with
  | none =>
    have : A.all (fun a => isSizedAxis s a) = false := by
      rw [← hsome]; unfold sizesOf at hs; rw [hs]; rfl
    simp [this]
  | some sz =>
    have : A.all (fun a => isSizedAxis s a) = true := by
      rw [← hsome]; unfold sizesOf at hs; rw [hs]; rfl
    rw [if_pos this]
    simp only [exec_ret, exec_guard, exec_write, exec_read, exec_fail, hs]
    cases c.shape t with
    | none => simp
    | some shp =>
      simp only [Option.some.injEq]
      by_cases e : shp = sz
      · subst e; simp
      · have e' : ¬ sz = shp := fun h => e h.symm
        simp [e, e']

theorem exec_pSetConstruct (view : Bool) (t : CType) (c : Con) (key : Option Key) (axes : Option (List Key)) (s : St) :
    (pSetConstruct view t c key axes).exec s = setConstruct true s view t c key axes := by
  unfold pSetConstruct setConstruct
  simp only [exec_ret, exec_guard, exec_write, exec_read, exec_fail]
  cases hi : ignored view t with
  | true => simp
  | false =>
    simp only [Bool.not_false, ↓reduceIte, Bool.false_eq_true]
    cases hr : resolveKey true s t key with
    | none => simp [exec_ret, exec_guard, exec_write, exec_read, exec_fail]
    | some k =>
      simp only
      unfold storeAt
      cases ha : t.isArray with
      | true =>
        simp only [↓reduceIte, exec_ret, exec_guard, exec_write, exec_read, exec_fail]
        cases hx : axesFor true s k axes with
        | none => simp [exec_ret, exec_guard, exec_write, exec_read, exec_fail, putCon]
        | some A =>
          simp only
          rw [exec_pConAxes]
          split <;> simp [exec_ret, exec_guard, exec_write, exec_read, exec_fail, putCon]
      | false =>
        simp only [Bool.false_eq_true, ↓reduceIte, exec_ret, exec_guard, exec_write, exec_read, exec_fail]
        cases axes with
        | none => simp [exec_ret, exec_guard, exec_write, exec_read, exec_fail, putCon]
        | some A => simp

theorem exec_pSetConAxes (view : Bool) (A : List Key) (key : Key) (s : St) :
    (pSetConAxes view A key).exec s = setConAxes s view A key := by
  unfold pSetConAxes setConAxes
  simp only [exec_ret, exec_guard, exec_write, exec_read, exec_fail]
  cases typeOf s view key with
  | none => simp [exec_ret, exec_guard, exec_write, exec_read, exec_fail]
  | some t =>
    simp only [exec_ret, exec_guard, exec_write, exec_read, exec_fail]
    cases s.cons.get (t, key) with
    | none => simp [exec_ret, exec_guard, exec_write, exec_read, exec_fail]
    | some c =>
      simp only
      rw [exec_pConAxes]
      split <;> simp [exec_ret, exec_guard, exec_write, exec_read, exec_fail]

theorem typeOf_cleanRefs (s : St) (key : Key) (view : Bool) (k : Key) :
    typeOf (cleanRefs s key) view k = typeOf s view k := rfl

theorem exec_pPop (view : Bool) (key : Key) (s : St) :
    (pPop view key).exec s =
      match typeOf s view key with
      | none => (s, .rejected)
      | some t => (pop s t key, .ok none) := by
  unfold pPop
  simp only [exec_ret, exec_guard, exec_write, exec_read, exec_fail]
  cases typeOf s view key with
  | none => simp [exec_ret, exec_guard, exec_write, exec_read, exec_fail]
  | some t => simp [exec_ret, exec_guard, exec_write, exec_read, exec_fail, pop]

theorem exec_pDelConstruct (view : Bool) (key : Key) (s : St) :
    (pDelConstruct view key).exec s = delConstruct true s view key := by
  unfold pDelConstruct delConstruct
  simp only [exec_guard, exec_read]
  cases ht : typeOf s view key with
  | none => simp only [Option.isSome_none, Bool.false_eq_true, ↓reduceIte]
  | some t =>
    simp only [Option.isSome_some, ↓reduceIte, Bool.true_and, Bool.true_or]
    generalize (s.dataAxes.getD []).contains key = d
    cases hax : isAxis s key with
    | false =>
      simp only [Bool.and_false, Bool.false_and, Bool.not_false, Bool.false_eq_true, ↓reduceIte, exec_write]
      rw [exec_pPop, typeOf_cleanRefs, ht]
    | true =>
      simp only [↓reduceIte, exec_guard]
      rw [exec_pPop, ht]
      generalize spansAny s.caxes key = b1
      generalize (s.fda.getD []).contains key = b2
      generalize cmNames s key = b3
      cases view <;> cases d <;> cases b1 <;> cases b2 <;> cases b3 <;> rfl

theorem exec_pDelData (s : St) : pDelData.exec s = delData s := by
  unfold pDelData delData
  simp only [exec_ret, exec_guard, exec_write, exec_read, exec_fail]
  cases s.data <;> simp

theorem exec_pDelDataAxes (s : St) : pDelDataAxes.exec s = delDataAxes true s := by
  unfold pDelDataAxes delDataAxes
  simp only [exec_ret, exec_guard, exec_write, exec_read, exec_fail]
  cases s.dataAxes <;> simp

theorem exec_pDelConAxes (view : Bool) (key : Key) (s : St) : (pDelConAxes view key).exec s = delConAxes s view key := by
  unfold pDelConAxes delConAxes
  simp only [exec_ret, exec_guard, exec_write, exec_read, exec_fail]
  cases s.caxes.get key <;> cases typeOf s view key <;> simp

theorem exec_pReplace (key : Key) (c : Con) (axes : Option (List Key)) (s : St) :
    (pReplace key c axes).exec s = replaceCon s key c axes := by
  unfold pReplace replaceCon
  simp only [exec_ret, exec_guard, exec_write, exec_read, exec_fail]
  cases s.ctype.get key with
  | none => simp [exec_ret, exec_guard, exec_write, exec_read, exec_fail]
  | some t =>
    simp only
    cases axes with
    | none => simp [exec_ret, exec_guard, exec_write, exec_read, exec_fail]
    | some A =>
      simp only
      cases t.isArray <;> simp [exec_ret, exec_guard, exec_write, exec_read, exec_fail]

/-- every sequenced body computes the step of the model -/
theorem progOf_exec {op : Op} {p : Prog} (h : progOf op = some p) (s : St) : p.exec s = step s op := by
  unfold step stepP
  cases op <;> simp only [progOf, Option.some.injEq, reduceCtorEq] at h <;> subst h
  · exact exec_pSetConstruct ..
  · exact exec_pDelConstruct ..
  · exact exec_pSetData ..
  · exact exec_pDelData s
  · exact exec_pSetDA ..
  · exact exec_pSetConAxes ..
  · exact exec_pDelDataAxes s
  · exact exec_pDelConAxes ..
  · exact exec_pReplace ..

/-- every sequenced body except `del_construct` has its guards first -/
theorem progOf_gf {op : Op} {p : Prog} (h : progOf op = some p) (hd : ∀ view key, op ≠ .delc view key) :
    p.GuardsFirst := by
  cases op <;> simp only [progOf, Option.some.injEq, reduceCtorEq] at h <;> subst h
  · exact pSetConstruct_gf ..
  · exact absurd rfl (hd _ _)
  · exact pSetData_gf ..
  · exact pDelData_gf
  · exact pSetDA_gf ..
  · exact pSetConAxes_gf ..
  · exact pDelDataAxes_gf
  · exact pDelConAxes_gf ..
  · exact pReplace_gf ..

end Cfdm.Constructs

namespace Cfdm.Constructs

/-! ### a rejected call changes nothing (every call that is not an in-place deriving call) -/

/-- `squeeze`, `transpose`, `insert_dimension` with `inplace=True` work on the receiver itself and
are the only calls of the model that may leave a trace when they are rejected -/
def Op.inPlaceDeriving : Op → Bool
  | .squeeze _ ip => ip
  | .transpose _ _ ip => ip
  | .insdim _ _ _ ip => ip
  | _ => false

theorem relabel_notInPlace {s s' : St} {shp : List Nat} {idx : List Nat}
    (h : relabel true s false shp idx = (s', false)) : s' = s := by
  unfold relabel at h
  repeat' split at h
  all_goals simp_all

theorem copyField_rejected {s s' : St} (h : copyField true s = (s', .rejected)) : s' = s := by
  unfold copyField at h
  simp only at h
  repeat' split at h
  all_goals simp_all

theorem delConstruct_rejected {s s' : St} {view : Bool} {key : Key}
    (h : delConstruct true s view key = (s', .rejected)) : s' = s := by
  unfold delConstruct at h
  repeat' split at h
  all_goals simp_all

theorem subspace_rejected {s s' : St} {ix : List (Nat × Nat)} (h : subspace true s ix = (s', .rejected)) : s' = s := by
  unfold subspace at h
  repeat' split at h
  all_goals simp_all

theorem squeeze_rejected {s s' : St} {axes : Option (List Nat)}
    (h : squeezeField true s axes false = (s', .rejected)) : s' = s := by
  unfold squeezeField at h
  split at h
  · simp_all
  split at h
  · simp_all
  split at h
  · simp_all
  split at h
  · simp_all
  · rename_i hr
    simp only [Prod.mk.injEq, and_true] at h
    subst h
    exact relabel_notInPlace hr

theorem transpose_rejected {s s' : St} {perm : Option (List Nat)} {cs : Bool}
    (h : transposeField true s perm cs false = (s', .rejected)) : s' = s := by
  unfold transposeField at h
  split at h
  · simp_all
  split at h
  · simp_all
  split at h
  · simp_all
  split at h
  · rename_i hr
    simp only [Prod.mk.injEq, and_true] at h
    subst h
    exact relabel_notInPlace hr
  · repeat' split at h
    all_goals simp_all

theorem insdim_rejected {s s' : St} {axis : Option Key} {pos : Nat} {cs : Bool}
    (h : insertDimension true s axis pos cs false = (s', .rejected)) : s' = s := by
  unfold insertDimension at h
  repeat' split at h
  all_goals simp_all

theorem convert_rejected {s s' : St} {key : Key} {full : Bool}
    (h : convertField true s key full = (s', .rejected)) : s' = s := by
  unfold convertField at h
  repeat' split at h
  all_goals simp_all

theorem setDataNew_rejected {s s' : St} {shp : List Nat} {axes : Option (List Key)}
    (h : setDataNew true s shp axes = (s', .rejected)) : s' = s := by
  unfold setDataNew at h
  repeat' split at h
  all_goals simp_all

theorem mutate_rejected {s s' : St} {key : Key} {m : Mut} (h : mutate s key m = (s', .rejected)) : s' = s := by
  unfold mutate replaceCon at h
  repeat' split at h
  all_goals simp_all

/-- **every rejected call that is not an in-place deriving call leaves the state literally unchanged**:
for the sequenced bodies because their guards come first (`guardsFirst_atomic` through `progOf_exec`),
for `del_construct` because its late guard repeats an earlier one, for the remaining calls because they
work on a copy. -/
theorem step_rejected_unchanged (s s' : St) (op : Op) (hip : op.inPlaceDeriving = false)
    (h : step s op = (s', .rejected)) : s' = s := by
  cases hp : progOf op with
  | some p =>
    rw [← progOf_exec hp s] at h
    by_cases hd : ∃ view key, op = .delc view key
    · obtain ⟨view, key, rfl⟩ := hd
      rw [progOf_exec hp s] at h
      exact delConstruct_rejected h
    · exact guardsFirst_atomic (progOf_gf hp (fun v k e => hd ⟨v, k, e⟩)) s s' h
  | none =>
    unfold step stepP at h
    cases op <;> simp only [progOf, reduceCtorEq] at hp
    · exact copyField_rejected h
    · exact subspace_rejected h
    · rename_i axes ip
      simp only [Op.inPlaceDeriving] at hip; subst hip
      exact squeeze_rejected h
    · rename_i perm cs ip
      simp only [Op.inPlaceDeriving] at hip; subst hip
      exact transpose_rejected h
    · rename_i axis pos cs ip
      simp only [Op.inPlaceDeriving] at hip; subst hip
      exact insdim_rejected h
    · exact convert_rejected h
    · exact setDataNew_rejected h
    · exact mutate_rejected h
    · simp at h

end Cfdm.Constructs
