import Cfdm.Lemmas.Append
/-
C17 — a small program logic for the post-dry-run pass: `run` of a sequential composition, and
pre/post-condition triples that carry the invariant `PostInv` (everything already in the dataset is
preserved) through every outcome, success or failure half-way.
-/
namespace Cfdm.Append

/-- Running `p` then `k`: an error of `p` ends the run where it occurred. -/
theorem run_bind (fx : Fix) (m : Mode) {α β : Type} (p : Prog α) (k : α → Prog β) :
    ∀ (r : Reg) (fs : FileSt), run fx m (p.bind k) r fs =
      match run fx m p r fs with
      | (.ok a, r', fs') => run fx m (k a) r' fs'
      | (.error e, r', fs') => (.error e, r', fs') := by
  induction p with
  | pure a => intro r fs; rfl
  | fail e => intro r fs; rfl
  | mode f ih => intro r fs; simp only [Prog.bind, run]; exact ih _ r fs
  | get f ih => intro r fs; simp only [Prog.bind, run]; exact ih _ r fs
  | modAux g p ih => intro r fs; simp only [Prog.bind, run]; exact ih _ fs
  | alloc b f ih => intro r fs; simp only [Prog.bind, run]; exact ih _ _ fs
  | allocRole b s role f ih => intro r fs; simp only [Prog.bind, run]; exact ih _ _ fs
  | noteDim n s p ih => intro r fs; simp only [Prog.bind, run]; exact ih _ fs
  | addName n p ih => intro r fs; simp only [Prog.bind, run]; exact ih _ fs
  | createDim d p ih =>
    intro r fs; simp only [Prog.bind, run]
    split
    · exact ih r fs
    · split
      · rfl
      · exact ih r _
  | ensureDim d p ih =>
    intro r fs; simp only [Prog.bind, run]
    split
    · exact ih r fs
    · exact ih r _
  | createVar v e p ih =>
    intro r fs; simp only [Prog.bind, run]
    split
    · exact ih r fs
    · split
      · rfl
      · split
        · rfl
        · split
          · rfl
          · exact ih r _
  | setAttr n k' v p ih =>
    intro r fs; simp only [Prog.bind, run]
    split
    · exact ih r fs
    · exact ih r _
  | setGlobal k' v p ih =>
    intro r fs; simp only [Prog.bind, run]
    split
    · exact ih r _
    · exact ih r fs

/-- `{P} p {Q}` for the post-dry-run pass on `E`: from a state satisfying `P` and `PostInv E`, a normal end
satisfies `Q` and `PostInv E`; an error leaves `PostInv E`. -/
def Triple (fx : Fix) (E : Ds) {α : Type} (P : Reg → Prop) (p : Prog α) (Q : α → Reg → Prop) : Prop :=
  ∀ (r : Reg) (fs : FileSt), P r → PostInv E fs →
    match run fx .post p r fs with
    | (.ok a, r', fs') => Q a r' ∧ PostInv E fs'
    | (.error _, _, fs') => PostInv E fs'

theorem Triple.bind {fx : Fix} {E : Ds} {α β : Type} {P : Reg → Prop} {Q : α → Reg → Prop} {R : β → Reg → Prop}
    {p : Prog α} {k : α → Prog β} (hp : Triple fx E P p Q) (hk : ∀ a, Triple fx E (Q a) (k a) R) :
    Triple fx E P (p.bind k) R := by
  intro r fs hP hI
  rw [run_bind]
  have h := hp r fs hP hI
  revert h
  cases hrun : run fx .post p r fs with
  | mk res rest =>
    cases rest with
    | mk r' fs' =>
      cases res with
      | ok a => intro h; exact hk a r' fs' h.1 h.2
      | error e => intro h; exact h

theorem Triple.weaken {fx : Fix} {E : Ds} {α : Type} {P P' : Reg → Prop} {Q Q' : α → Reg → Prop} {p : Prog α}
    (h : Triple fx E P p Q) (hpre : ∀ r, P' r → P r) (hpost : ∀ a r, Q a r → Q' a r) : Triple fx E P' p Q' := by
  intro r fs hP hI
  have := h r fs (hpre r hP) hI
  revert this
  cases run fx .post p r fs with
  | mk res rest =>
    cases rest with
    | mk r' fs' =>
      cases res with
      | ok a => intro h; exact ⟨hpost a r' h.1, h.2⟩
      | error e => intro h; exact h

theorem Triple.pure {fx : Fix} {E : Ds} {α : Type} {P : Reg → Prop} (a : α) : Triple fx E P (Prog.pure a) (fun b r => b = a ∧ P r) := by
  intro r fs hP hI
  exact ⟨⟨rfl, hP⟩, hI⟩

theorem Triple.pure' {fx : Fix} {E : Ds} {α : Type} {Q : α → Reg → Prop} (a : α) : Triple fx E (Q a) (Prog.pure a) Q := by
  intro r fs hP hI
  exact ⟨hP, hI⟩

theorem Triple.fail {fx : Fix} {E : Ds} {α : Type} {P : Reg → Prop} {Q : α → Reg → Prop} (e : Err) : Triple fx E P (Prog.fail e) Q := by
  intro r fs _ hI
  exact hI

/-- Reading the registry: the continuation is run in the same state, knowing what was read. -/
theorem Triple.get {fx : Fix} {E : Ds} {α : Type} {P : Reg → Prop} {Q : α → Reg → Prop} {k : Reg → Prog α}
    (h : ∀ r0, Triple fx E (fun r => P r ∧ r = r0) (k r0) Q) : Triple fx E P (Prog.get k) Q := by
  intro r fs hP hI
  simp only [run]
  exact h r r fs ⟨hP, rfl⟩ hI

theorem Triple.mode {fx : Fix} {E : Ds} {α : Type} {P : Reg → Prop} {Q : α → Reg → Prop} {k : Mode → Prog α}
    (h : Triple fx E P (k .post) Q) : Triple fx E P (Prog.mode k) Q := by
  intro r fs hP hI
  simp only [run]
  exact h r fs hP hI

theorem Triple.modAux {fx : Fix} {E : Ds} {α : Type} {P P' : Reg → Prop} {Q : α → Reg → Prop} {g : Aux → Aux} {p : Prog α}
    (hg : ∀ r, P r → P' { r with aux := g r.aux }) (h : Triple fx E P' p Q) : Triple fx E P (Prog.modAux g p) Q := by
  intro r fs hP hI
  simp only [run]
  exact h _ fs (hg r hP) hI

theorem Triple.alloc {fx : Fix} {E : Ds} {α : Type} {P : Reg → Prop} {Q : α → Reg → Prop} {b : Name} {k : Name → Prog α}
    (h : ∀ r0, P r0 → Triple fx E (fun r => r = { r0 with nm := (netcdfName fx.blanks r0.nm b).2 })
      (k (netcdfName fx.blanks r0.nm b).1) Q) : Triple fx E P (Prog.alloc b k) Q := by
  intro r fs hP hI
  have hm : ∀ b : Bool, (Mode.post == Mode.dry && b) = false := by intro b; cases b <;> rfl
  simp only [run, hm, Bool.false_eq_true, ↓reduceIte]
  exact h r hP _ fs rfl hI

theorem Triple.allocRole {fx : Fix} {E : Ds} {α : Type} {P : Reg → Prop} {Q : α → Reg → Prop} {b : Name} {s : Nat} {role : String}
    {k : Name → Prog α}
    (h : ∀ r0, P r0 → Triple fx E (fun r => r = { r0 with nm := (netcdfNameRole fx.blanks r0.nm b s role).2.2 })
      (k (netcdfNameRole fx.blanks r0.nm b s role).1) Q) : Triple fx E P (Prog.allocRole b s role k) Q := by
  intro r fs hP hI
  have hm : ∀ b : Bool, (Mode.post == Mode.dry && b) = false := by intro b; cases b <;> rfl
  simp only [run, hm]
  exact h r hP _ fs rfl hI

theorem Triple.noteDim {fx : Fix} {E : Ds} {α : Type} {P P' : Reg → Prop} {Q : α → Reg → Prop} {n : Name} {s : Nat} {p : Prog α}
    (hg : ∀ r, P r → P' { r with nm := { r.nm with dimSize := r.nm.dimSize.filter (·.1 != n) ++ [(n, s)] } })
    (h : Triple fx E P' p Q) : Triple fx E P (Prog.noteDim n s p) Q := by
  intro r fs hP hI
  simp only [run]
  exact h _ fs (hg r hP) hI

/-- `setncattr` on a variable: only variables created by this pass are touched. -/
theorem Triple.setAttr {fx : Fix} {E : Ds} {α : Type} {P : Reg → Prop} {Q : α → Reg → Prop} {n : Name} {k v : String} {p : Prog α}
    (h : Triple fx E P p Q) : Triple fx E P (Prog.setAttr n k v p) Q := by
  intro r fs hP hI
  by_cases hc : n ∈ fs.created
  · have : (Mode.post == Mode.dry || !fs.created.contains n) = false := by simp [hc]
    simp only [run, this, Bool.false_eq_true, ↓reduceIte]
    exact h r _ hP (hI.setAttr n k v hc)
  · have : (Mode.post == Mode.dry || !fs.created.contains n) = true := by simp [hc]
    simp only [run, this, ↓reduceIte]
    exact h r fs hP hI

/-- A global attribute is not written by the (guarded) post-dry-run pass. -/
theorem Triple.setGlobal {fx : Fix} (hg : fx.globalsGuarded = true) {E : Ds} {α : Type} {P : Reg → Prop} {Q : α → Reg → Prop}
    {k v : String} {p : Prog α} (h : Triple fx E P p Q) : Triple fx E P (Prog.setGlobal k v p) Q := by
  intro r fs hP hI
  have : (Mode.post == Mode.real || Mode.post == Mode.post && !fx.globalsGuarded) = false := by simp [hg]
  simp only [run, this, Bool.false_eq_true, ↓reduceIte]
  exact h r fs hP hI

/-- `createDimension`: fails if the name is in use, else a new dimension — which is not one of `E`. -/
theorem Triple.createDim {fx : Fix} {E : Ds} {α : Type} {P : Reg → Prop} {Q : α → Reg → Prop} {d : Dim} {p : Prog α}
    (h : d.name ∉ E.dimNames → Triple fx E P p Q) : Triple fx E P (Prog.createDim d p) Q := by
  intro r fs hP hI
  have hm : (Mode.post == Mode.dry) = false := by decide
  by_cases hc : fs.ds.dimNames.contains d.name = true
  · simp only [run, hm, Bool.false_eq_true, ↓reduceIte, hc]
    exact hI
  · simp only [run, hm, Bool.false_eq_true, ↓reduceIte, hc]
    have hn : d.name ∉ fs.ds.dimNames := by simpa using hc
    exact h (fun hE => hn (mem_dimNames_of_ext hI.ext hE)) r _ hP (hI.createDim d hn)

theorem Triple.ensureDim {fx : Fix} {E : Ds} {α : Type} {P : Reg → Prop} {Q : α → Reg → Prop} {d : Dim} {p : Prog α}
    (h : Triple fx E P p Q) : Triple fx E P (Prog.ensureDim d p) Q := by
  intro r fs hP hI
  by_cases hc : fs.ds.dimNames.contains d.name = true
  · have : (Mode.post == Mode.dry || fs.ds.dimNames.contains d.name) = true := by rw [hc]; rfl
    simp only [run, this, ↓reduceIte]
    exact h r fs hP hI
  · have hc' : fs.ds.dimNames.contains d.name = false := by simpa using hc
    have : (Mode.post == Mode.dry || fs.ds.dimNames.contains d.name) = false := by rw [hc']; rfl
    simp only [run, this, Bool.false_eq_true, ↓reduceIte]
    have hn : d.name ∉ fs.ds.dimNames := by simpa using hc
    exact h r _ hP (hI.createDim d hn)

/-- `createVariable` and the data write: when the array has the current length along every old unlimited
dimension, every outcome preserves the dataset. -/
theorem Triple.createVar {fx : Fix} {E : Ds} {α : Type} {P : Reg → Prop} {Q : α → Reg → Prop} {v : Var} {ext : List Nat} {p : Prog α}
    (hs : ShapeOK E v.dims ext) (h : Triple fx E P p Q) : Triple fx E P (Prog.createVar v ext p) Q := by
  intro r fs hP hI
  have hm : (Mode.post == Mode.dry) = false := by decide
  by_cases hc : fs.ds.varNames.contains v.name = true
  · simp only [run, hm, Bool.false_eq_true, ↓reduceIte, hc]
    exact hI
  · simp only [run, hm, Bool.false_eq_true, ↓reduceIte, hc]
    cases hf : v.dims.find? (fun d => !fs.ds.dimNames.contains d) with
    | some d => exact hI
    | none =>
      cases hmis : misfit fs.ds.dims (v.dims.zip ext) with
      | some q => exact hI
      | none => exact h r _ hP (hI.createVarShape v ext (by simpa using hc) hs)

end Cfdm.Append
