import Cfdm.Model.SubsampleGeo
import Cfdm.Lemmas.SubsampleGen
/-
C16 helper lemmas, sixth part: methods that look at the tie point index (the two
latitude/longitude methods).
-/
namespace Cfdm.Subsample
open Cfdm.Spec.AppendixJ

theorem block1G_length (F : MethodG) (i : Nat) (first : Bool) (j a b : Nat) (hab : a + 2 ≤ b) :
    (block1G F (mkSub i first j a b)).length = b + 1 - lowVertex first a := by
  cases first <;> simp [block1G, trim, points1G, sPoints, mkSub, sGrid_length, lowVertex] <;> omega

theorem block1G_get (F : MethodG) (i : Nat) (first : Bool) (j a b : Nat) (hab : a + 2 ≤ b) (p : Nat)
    (h1 : lowVertex first a ≤ p) (h2 : p ≤ b) :
    (block1G F (mkSub i first j a b))[p - lowVertex first a]? =
      some (F j i (((p - a : Nat) : Rat) / ((b - a : Nat) : Rat))) := by
  cases first
  · simp only [lowVertex, Bool.false_eq_true, if_false] at h1 ⊢
    simp only [block1G, trim, points1G, sPoints, mkSub, Bool.false_eq_true, if_false, Bool.not_false,
      Bool.or_true, if_true, List.getElem?_drop, List.getElem?_map]
    rw [sGrid_get _ _ (by omega)]
    simp only [Option.map_some]
    congr 3
    all_goals (congr 1; omega)
  · simp only [lowVertex, if_true] at h1 ⊢
    simp only [block1G, trim, points1G, sPoints, mkSub, if_true, Bool.not_true, Bool.or_false,
      Bool.false_eq_true, if_false, List.getElem?_map]
    rw [sGrid_get _ _ (by omega)]
    simp only [Option.map_some]
    congr 3

/-- The element at a target index owned by the subarea between tie points `k`, `k + 1`. -/
theorem recon1G_owned (F : MethodG) (t : List Nat) (n : Nat)
    (hinc : t.Pairwise (· < ·)) (hn : ∀ x ∈ t, x < n)
    (k a b : Nat) (ha : t[k]? = some a) (hb : t[k + 1]? = some b) (hgap : a + 2 ≤ b)
    (p : Nat) (hap : lowVertex (areaStart t k) a ≤ p) (hpb : p ≤ b) :
    (recon1G F n t)[p]? = some (some (F (subareaIndex t k) k (sParam a b p))) := by
  have := (assembleG_get (block1G F) (block1G_length F) t 0 true 0 (List.replicate n none) hinc
    (by simpa using hn)).2 k a b ha hb hgap p hap hpb
  rw [recon1G, subs, this]
  simp only [Nat.zero_add]
  unfold areaStart at hap
  rw [block1G_get F k _ _ a b hgap p hap hpb]
  have hale : a ≤ p := by
    have : a ≤ lowVertex (startAt true t k) a := by simp only [lowVertex]; split <;> omega
    omega
  simp only [Option.map_some, sParam]
  rw [Nat.cast_sub hale, Nat.cast_sub (by omega : a ≤ b)]

/-- A tie point that does not open a continuous area closes the previous interpolation subarea. -/
theorem prev_gap (t : List Nat) (hinc : t.Pairwise (· < ·)) (k a : Nat) (ha : t[k]? = some a)
    (hst : areaStart t k = false) : ∃ k' a', k = k' + 1 ∧ t[k']? = some a' ∧ a' + 2 ≤ a := by
  cases k with
  | zero => simp [areaStart, startAt] at hst
  | succ k' =>
    have hk' : k' < t.length := by
      rcases Nat.lt_or_ge (k' + 1) t.length with h | h
      · omega
      · rw [List.getElem?_eq_none h] at ha; cases ha
    refine ⟨k', t[k'], rfl, List.getElem?_eq_getElem hk', ?_⟩
    have e1 : t.getD (k' + 1) 0 = a := by simp [List.getD, ha]
    have e2 : t.getD k' 0 = t[k'] := by simp [List.getD, List.getElem?_eq_getElem hk']
    simp only [areaStart, startAt, e1, e2, decide_eq_false_iff_not] at hst
    omega

/-- **Generic reconstitution for a method that reproduces its tie point values** `v`: every
target index between two tie points that are not an area boundary holds the method's value at
`s(a, b, p)`. -/
theorem recon1G_get (F : MethodG) (v : Nat → Rat) (h0 : ∀ j i, F j i 0 = v i)
    (h1 : ∀ j i, F j i 1 = v (i + 1)) (t : List Nat) (n : Nat)
    (hinc : t.Pairwise (· < ·)) (hn : ∀ x ∈ t, x < n)
    (k a b : Nat) (ha : t[k]? = some a) (hb : t[k + 1]? = some b) (hgap : a + 2 ≤ b)
    (p : Nat) (hap : a ≤ p) (hpb : p ≤ b) :
    (recon1G F n t)[p]? = some (some (F (subareaIndex t k) k (sParam a b p))) := by
  by_cases hown : lowVertex (areaStart t k) a ≤ p
  · exact recon1G_owned F t n hinc hn k a b ha hb hgap p hown hpb
  · -- p = a and the tie point is shared with the previous subarea
    have hst : areaStart t k = false := by
      cases h : areaStart t k
      · rfl
      · rw [h] at hown; simp only [lowVertex, if_true] at hown; omega
    have hpa : p = a := by
      rw [hst] at hown; simp only [lowVertex, Bool.false_eq_true, if_false] at hown; omega
    subst hpa
    obtain ⟨k', a', hk, ha', haa⟩ := prev_gap t hinc k p ha hst
    subst hk
    have hlv : lowVertex (areaStart t k') a' ≤ p := by simp only [lowVertex]; split <;> omega
    rw [recon1G_owned F t n hinc hn k' a' p ha' ha haa p hlv (Nat.le_refl _)]
    have e1 : sParam a' p p = 1 := by
      have hne : ((p : Rat) - (a' : Rat)) ≠ 0 := by
        have : (a' : Rat) < (p : Rat) := by exact_mod_cast (by omega : a' < p)
        linarith
      simp only [sParam]; field_simp
    have e0 : sParam p b p = 0 := by simp [sParam]
    rw [e1, e0, h1, h0]

/-! ### the method's end values -/

theorem quadratic_zero (ua ub w : Rat) : quadratic ua ub w 0 = ua := by simp [quadratic]
theorem quadratic_one (ua ub w : Rat) : quadratic ua ub w 1 = ub := by simp [quadratic]

theorem fqv_zero (va vb wv : V3) : fqv va vb wv 0 = va := by
  simp [fqv, quadratic_zero]
theorem fqv_one (va vb wv : V3) : fqv va vb wv 1 = vb := by
  simp [fqv, quadratic_one]

theorem qllPoint_zero (G : Geo) (latitude cart : Bool) (a b : LL) (ce ca : Option Rat)
    (ha : G.v2ll latitude (G.ll2v a.1 a.2) = pick latitude a) :
    qllPoint G latitude cart a b ce ca 0 = pick latitude a := by
  cases cart <;> simp [qllPoint, fqv_zero, quadratic_zero, ha]

theorem qllPoint_one (G : Geo) (latitude cart : Bool) (a b : LL) (ce ca : Option Rat)
    (hb : G.v2ll latitude (G.ll2v b.1 b.2) = pick latitude b) :
    qllPoint G latitude cart a b ce ca 1 = pick latitude b := by
  cases cart <;> simp [qllPoint, fqv_one, quadratic_one, hb]

theorem bqllPoint_corners (G : Geo) (latitude cart : Bool) (a b c d : LL)
    (ce1 ca1 ce2 ca2 : Option Rat × Option Rat) (ce3 ca3 : Option Rat)
    (ha : G.v2ll latitude (G.ll2v a.1 a.2) = pick latitude a)
    (hb : G.v2ll latitude (G.ll2v b.1 b.2) = pick latitude b)
    (hc : G.v2ll latitude (G.ll2v c.1 c.2) = pick latitude c)
    (hd : G.v2ll latitude (G.ll2v d.1 d.2) = pick latitude d) :
    bqllPoint G latitude cart a b c d ce1 ca1 ce2 ca2 ce3 ca3 0 0 = pick latitude a ∧
    bqllPoint G latitude cart a b c d ce1 ca1 ce2 ca2 ce3 ca3 0 1 = pick latitude b ∧
    bqllPoint G latitude cart a b c d ce1 ca1 ce2 ca2 ce3 ca3 1 0 = pick latitude c ∧
    bqllPoint G latitude cart a b c d ce1 ca1 ce2 ca2 ce3 ca3 1 1 = pick latitude d := by
  cases cart <;>
    simp [bqllPoint, fqv_zero, fqv_one, quadratic_zero, quadratic_one, ha, hb, hc, hd]

end Cfdm.Subsample

namespace Cfdm.Subsample
open Cfdm.Spec.AppendixJ

/-! ### two subsampled dimensions -/

/-- The 1-d method along the second dimension at a fixed `s2`. -/
def rowM (F : Method2G) (s0 : Sub) (x2 : Rat) : MethodG := fun j i s => F s0.loc j s0.tp i x2 s

theorem block2G_eq (F : Method2G) (s0 s1 : Sub) :
    block2G F s0 s1 = (tgrid s0).map (fun x2 => block1G (rowM F s0 x2) s1) := by
  simp only [block2G, trim2, points2G, tgrid, trim_map, List.map_map]
  rfl

theorem recon2G_owned (F : Method2G) (t0 t1 : List Nat) (n0 n1 : Nat)
    (hinc0 : t0.Pairwise (· < ·)) (hinc1 : t1.Pairwise (· < ·))
    (hn0 : ∀ x ∈ t0, x < n0) (hn1 : ∀ x ∈ t1, x < n1)
    (k0 a0 b0 : Nat) (ha0 : t0[k0]? = some a0) (hb0 : t0[k0 + 1]? = some b0) (hg0 : a0 + 2 ≤ b0)
    (k1 a1 b1 : Nat) (ha1 : t1[k1]? = some a1) (hb1 : t1[k1 + 1]? = some b1) (hg1 : a1 + 2 ≤ b1)
    (p0 : Nat) (h0 : lowVertex (areaStart t0 k0) a0 ≤ p0) (h0' : p0 ≤ b0)
    (p1 : Nat) (h1 : lowVertex (areaStart t1 k1) a1 ≤ p1) (h1' : p1 ≤ b1) :
    ((recon2G F n0 n1 t0 t1)[p0]?.bind (·[p1]?)) =
      some (some (F (subareaIndex t0 k0) (subareaIndex t1 k1) k0 k1 (sParam a0 b0 p0) (sParam a1 b1 p1))) := by
  have hrow := (assemble2G_get (block2G F)
    (fun s0 q s1 => block1G (rowM F s0 ((tgrid s0).getD q 0)) s1) (subs t1)
    (by
      intro i f j a b hab s1 _
      rw [block2G_eq, List.length_map, tgrid_length i f j a b hab]
      rfl)
    (by
      intro i f j a b hab s1 _ q hq
      have hql : q < (tgrid (mkSub i f j a b)).length := by
        rw [tgrid_length i f j a b hab]; exact hq
      rw [block2G_eq, List.getElem?_map, List.getElem?_eq_getElem hql]
      simp [List.getD_eq_getElem?_getD, List.getElem?_eq_getElem hql])
    (List.replicate n1 none) t0 0 true 0 (List.replicate n0 (List.replicate n1 none)) hinc0
    (by simpa using hn0)
    (by
      intro p a _ _ hp
      simp only [List.length_replicate] at hp
      simp [hp])).2 k0 a0 b0 ha0 hb0 hg0 p0 h0 h0'
  have hrow' : (recon2G F n0 n1 t0 t1)[p0]? = _ := hrow
  rw [hrow', Option.bind_some]
  have hcol := (assembleG_get
    (block1G (rowM F (mkSub (0 + k0) (startAt true t0 k0) (0 + subareaIndex t0 k0) a0 b0)
      ((tgrid (mkSub (0 + k0) (startAt true t0 k0) (0 + subareaIndex t0 k0) a0 b0)).getD
        (p0 - lowVertex (startAt true t0 k0) a0) 0)))
    (block1G_length _)
    t1 0 true 0 (List.replicate n1 none) hinc1 (by simpa using hn1)).2 k1 a1 b1 ha1 hb1 hg1 p1 h1 h1'
  rw [subs, hcol]
  unfold areaStart at h0 h1
  rw [block1G_get _ _ _ _ a1 b1 hg1 p1 h1 h1']
  have hx2 := tgrid_get (0 + k0) (startAt true t0 k0) (0 + subareaIndex t0 k0) a0 b0 hg0 p0 h0 h0'
  rw [mkSub_uStart] at hx2
  rw [List.getD_eq_getElem?_getD, hx2]
  simp only [Option.getD_some, Option.map_some, rowM, mkSub, Nat.zero_add, sParam]
  have hale0 : a0 ≤ p0 := by
    have : a0 ≤ lowVertex (startAt true t0 k0) a0 := by simp only [lowVertex]; split <;> omega
    omega
  have hale1 : a1 ≤ p1 := by
    have : a1 ≤ lowVertex (startAt true t1 k1) a1 := by simp only [lowVertex]; split <;> omega
    omega
  rw [Nat.cast_sub hale0, Nat.cast_sub (by omega : a0 ≤ b0), Nat.cast_sub hale1,
    Nat.cast_sub (by omega : a1 ≤ b1)]

end Cfdm.Subsample
