import Cfdm.Model.SettingsFine
import Cfdm.Lemmas.Settings
/-
Refinement lemmas: the step-by-step definitions of `Model/SettingsFine.lean` equal the compact
ones of `Model/Settings.lean`.  Core Lean only.
-/
namespace Cfdm.Settings
open Cfdm.Generated

theorem enumByValue?_eq (i : Int) : enumByValue? i = (Level.ofValue? i).map Level.name := by
  simp only [enumByValue?, Level.ofValue?, LogLevels.validLogLevels, Level.all, List.find?, Level.value]
  by_cases h0 : i = 0
  · subst h0; rfl
  by_cases h1 : i = 1
  · subst h1; rfl
  by_cases h2 : i = 2
  · subst h2; rfl
  by_cases h3 : i = 3
  · subst h3; rfl
  by_cases h4 : i = -1
  · subst h4; rfl
  have e0 : ((0 : Int) == i) = false := by simp; omega
  have e1 : ((1 : Int) == i) = false := by simp; omega
  have e2 : ((2 : Int) == i) = false := by simp; omega
  have e3 : ((3 : Int) == i) = false := by simp; omega
  have e4 : ((-1 : Int) == i) = false := by simp; omega
  simp [e0, e1, e2, e3, e4]

theorem enumByName?_eq (nm : String) : enumByName? nm = (Level.ofName? nm).map Level.value := by
  simp only [enumByName?, Level.ofName?, LogLevels.validLogLevels, Level.all, List.find?, Level.name]
  by_cases h0 : nm = "DISABLE"
  · subst h0; rfl
  by_cases h1 : nm = "WARNING"
  · subst h1; rfl
  by_cases h2 : nm = "INFO"
  · subst h2; rfl
  by_cases h3 : nm = "DETAIL"
  · subst h3; rfl
  by_cases h4 : nm = "DEBUG"
  · subst h4; rfl
  have e0 : ("DISABLE" == nm) = false := by simp; exact fun h => h0 h.symm
  have e1 : ("WARNING" == nm) = false := by simp; exact fun h => h1 h.symm
  have e2 : ("INFO" == nm) = false := by simp; exact fun h => h2 h.symm
  have e3 : ("DETAIL" == nm) = false := by simp; exact fun h => h3 h.symm
  have e4 : ("DEBUG" == nm) = false := by simp; exact fun h => h4 h.symm
  simp [e0, e1, e2, e3, e4]

theorem enumByValue?_value (l : Level) : enumByValue? l.value = some l.name := by
  rw [enumByValue?_eq, ofValue_value]; rfl

theorem ofName_name (l : Level) : Level.ofName? l.name = some l := by
  cases l <;> rfl

theorem enumByName?_name (l : Level) : enumByName? l.name = some l.value := by
  cases l <;> rfl

theorem loggingAttr_name (l : Level) (h : l ≠ .DISABLE) : loggingAttr l.name = some l.no := by
  cases l <;> first | exact absurd rfl h | rfl

theorem disableLogging_none (s : State) : disableLogging none s = ({ s with disable := critical }, none) := rfl

theorem disableLogging_notset (s : State) :
    disableLogging (some "NOTSET") s = ({ s with disable := 0 }, none) := by
  simp [disableLogging, loggingAttr, loggingDisable, LogLevels.notset]

theorem liftAndSetLevel_name (l : Level) (h : l ≠ .DISABLE) (s : State) :
    liftAndSetLevel l.name s = ({ s with disable := 0, root := l.no }, none) := by
  simp [liftAndSetLevel, disableLogging_notset, loggingAttr_name l h]

theorem name_ne_disable (l : Level) (h : l ≠ .DISABLE) : l.name ≠ "DISABLE" := by
  cases l <;> first | exact absurd rfl h | decide

/-- `_reset_log_emergence_level` on a level name is the compact `resetEmergence`. -/
theorem resetLogEmergenceLevel_str (l : Level) (s : State) :
    resetLogEmergenceLevel (.str l.name) s = (resetEmergence l s, none) := by
  by_cases h : l = .DISABLE
  · subst h; rfl
  · simp [resetLogEmergenceLevel, name_ne_disable l h, liftAndSetLevel_name l h, resetEmergence, h]

/-- … on what `log_level()` returns (a `Constant`: `.value` is unwrapped) … -/
theorem resetLogEmergenceLevel_const (l : Level) (s : State) :
    resetLogEmergenceLevel (.const l.name) s = (resetEmergence l s, none) := by
  have := resetLogEmergenceLevel_str l s
  simpa [resetLogEmergenceLevel] using this

/-- … and on a valid integer (converted to the name first). -/
theorem resetLogEmergenceLevel_int (l : Level) (s : State) :
    resetLogEmergenceLevel (.int l.value) s = (resetEmergence l s, none) := by
  have := resetLogEmergenceLevel_str l s
  simp only [resetLogEmergenceLevel, isValidLogLevelInt, enumByValue?_value] at this ⊢
  exact this

theorem isValidLogLevelInt_eq (i : Int) :
    isValidLogLevelInt i = (match Level.ofValue? i with | some _ => .ok true | none => .error .ValueError) := by
  simp only [isValidLogLevelInt, enumByValue?_eq]
  cases Level.ofValue? i <;> rfl

/-- `log_level._parse`: on a valid argument the name of the level, with the logging state
re-derived; on an invalid one `ValueError` and nothing changed. -/
theorem logLevelParse_eq (a : LvlArg) (s : State) :
    logLevelParse a s = (match a.parse with
      | some l => (some l.name, (resetEmergence l s, none))
      | none => (none, (s, some .ValueError))) := by
  cases a with
  | str x =>
    simp only [logLevelParse, LvlArg.parse, enumByName?_eq]
    cases h : Level.ofName? (upper x) with
    | none => rfl
    | some l =>
      have hn : upper x = l.name := by
        simp only [Level.ofName?, Level.all] at h
        have := List.find?_some h
        have h2 : l.name = upper x := by simpa using this
        exact h2.symm
      simp [hn, resetLogEmergenceLevel_str]
  | int i =>
    simp only [logLevelParse, LvlArg.parse, isValidLogLevelInt_eq, enumByValue?_eq]
    cases h : Level.ofValue? i with
    | none => rfl
    | some l => simp [enumByName?_name, resetLogEmergenceLevel_str]

/-- `ConstantAccess.__new__` of `log_level`, step by step, is the compact `access`. -/
theorem constantAccessLog_eq (a : Option LvlArg) (s : State) :
    constantAccessLog a s = access (.log a) s := by
  cases a with
  | none => rfl
  | some a =>
    simp only [constantAccessLog, access, logLevelParse_eq]
    cases h : a.parse with
    | none => rfl
    | some l => simp [ofName_name]

/-! ### The wrapper, statement by statement = the compact decorators -/

theorem ofValue?_some {i : Int} {l : Level} (h : Level.ofValue? i = some l) : i = l.value := by
  simp only [Level.ofValue?, Level.all] at h
  have := List.find?_some h
  have h2 : l.value = i := by simpa using this
  exact h2.symm

theorem globalIsDisable_iff (s : State) : globalIsDisable s = decide (s.level = .DISABLE) := by
  simp only [globalIsDisable]
  generalize s.level = l
  cases l <;> rfl

theorem value_zero_iff (l : Level) : (l.value == 0) = decide (l = .DISABLE) := by
  cases l <;> rfl

theorem value_ne_zero_iff (l : Level) : (l.value != 0) = decide (l ≠ .DISABLE) := by
  cases l <;> rfl

theorem name_ne_iff (a b : Level) : (a.name != b.name) = decide (a ≠ b) := by
  cases a <;> cases b <;> rfl

theorem decoOldFine_enter (v : Verbose) (s : State) : decoOldFine.enter v s = decoOld.enter v s := by
  simp only [decoOldFine, decoOld]
  cases hv : v.toInt with
  | error e => rfl
  | ok oi =>
    cases oi with
    | none => rfl
    | some i =>
      simp only [isValidLogLevelInt_eq]
      cases hl : Level.ofValue? i with
      | none => rfl
      | some l =>
        have hi := ofValue?_some hl
        subst hi
        simp only [resetLogEmergenceLevel_int, globalIsDisable_iff, value_ne_zero_iff, disableLogging_notset,
          frameOf, Bool.and_eq_true, decide_eq_true_eq]

theorem decoOldFine_exit (fr : Frame) (s : State) : decoOldFine.exit fr s = decoOld.exit fr s := by
  rcases fr with ⟨vb, r, d, lv⟩
  simp only [decoOldFine, decoOld]
  by_cases hc : s.calls - 1 = 0
  · simp only [hc, if_true]
    cases vb with
    | none => simp [globalIsDisable_iff, disableLogging_none]
    | some l =>
      cases l <;>
        simp [globalIsDisable_iff, disableLogging_none, disableLogging_notset, resetLogEmergenceLevel_const,
          Level.value]
  · simp [hc]

/-- The statement-by-statement decorator of 1.11.2.0 is the compact `decoOld`. -/
theorem decoOldFine_eq : decoOldFine = decoOld := by
  have h1 : decoOldFine.enter = decoOld.enter := by funext v s; exact decoOldFine_enter v s
  have h2 : decoOldFine.exit = decoOld.exit := by funext fr s; exact decoOldFine_exit fr s
  cases hA : decoOldFine; cases hB : decoOld
  simp only [hA, hB] at h1 h2
  subst h1; subst h2; rfl

theorem decoMidFine_enter (v : Verbose) (s : State) : decoMidFine.enter v s = decoMid.enter v s := by
  simp only [decoMidFine, decoMid, Verbose.resolve]
  cases hv : v.toInt with
  | error e => rfl
  | ok oi =>
    cases oi with
    | none => rfl
    | some i =>
      simp only [isValidLogLevelInt_eq]
      cases hl : Level.ofValue? i with
      | none => rfl
      | some l =>
        have hi := ofValue?_some hl
        subst hi
        simp only [resetLogEmergenceLevel_int, globalIsDisable_iff, value_ne_zero_iff, disableLogging_notset,
          frameOf, Bool.and_eq_true, decide_eq_true_eq]

theorem decoMidFine_exit (fr : Frame) (s : State) : decoMidFine.exit fr s = decoMid.exit fr s := by
  rcases fr with ⟨vb, r, d, lv⟩
  simp only [decoMidFine, decoMid]
  by_cases hc : s.calls - 1 = 0
  · simp only [hc, if_true]
    cases vb with
    | none => simp [globalIsDisable_iff, disableLogging_none]
    | some l =>
      cases l <;>
        simp [globalIsDisable_iff, disableLogging_none, disableLogging_notset, resetLogEmergenceLevel_const,
          Level.value]
  · simp only [hc, if_false]
    cases vb with
    | none => rfl
    | some l =>
      simp only [name_ne_iff, resetLogEmergenceLevel_const, loggingDisable, decide_eq_true_eq]

/-- The statement-by-statement decorator after the patch is the compact `decoMid`. -/
theorem decoMidFine_eq : decoMidFine = decoMid := by
  have h1 : decoMidFine.enter = decoMid.enter := by funext v s; exact decoMidFine_enter v s
  have h2 : decoMidFine.exit = decoMid.exit := by funext fr s; exact decoMidFine_exit fr s
  cases hA : decoMidFine; cases hB : decoMid
  simp only [hA, hB] at h1 h2
  subst h1; subst h2; rfl

end Cfdm.Settings
