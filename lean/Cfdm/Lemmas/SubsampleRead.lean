import Cfdm.Model.SubsampleRead
import Mathlib.Data.List.Basic
import Mathlib.Data.List.Nodup
/-
C16 helper lemmas, fifth part: the reader's bookkeeping.
-/
namespace Cfdm.Subsample

/-! ### `_parse_x` -/

/-- The attribute text of a list of groups, as tokens. -/
def renderGroups (gs : List (String × List String)) : List Tok :=
  gs.flatMap (fun g => Tok.key g.1 :: g.2.map Tok.word)

theorem parseGroupsGo_words (vals : List String) (rest : List Tok) (k : String) (v0 : List String)
    (acc : List (String × List String)) :
    parseGroupsGo (vals.map Tok.word ++ rest) (some (k, v0)) acc =
      parseGroupsGo rest (some (k, v0 ++ vals)) acc := by
  induction vals generalizing v0 with
  | nil => simp
  | cons v vals ih =>
    simp only [List.map_cons, List.cons_append, parseGroupsGo]
    rw [ih]
    simp

/-- What closing the group being read adds to the closed groups. -/
def closeCur (cur : Option (String × List String)) (acc : List (String × List String)) :
    List (String × List String) :=
  match cur with
  | none => acc
  | some g => acc ++ [g]

theorem parseGroupsGo_render (gs : List (String × List String)) (hv : ∀ g ∈ gs, g.2 ≠ []) :
    ∀ (cur : Option (String × List String)) (acc : List (String × List String)),
      (∀ g, cur = some g → g.2 ≠ []) →
      parseGroupsGo (renderGroups gs) cur acc = some (closeCur cur acc ++ gs) := by
  induction gs with
  | nil =>
    intro cur acc hc
    cases cur with
    | none => simp [renderGroups, parseGroupsGo, closeCur]
    | some g =>
      obtain ⟨k, v⟩ := g
      have : v ≠ [] := hc (k, v) rfl
      simp [renderGroups, parseGroupsGo, closeCur, this]
  | cons g gs ih =>
    intro cur acc hc
    obtain ⟨k, vals⟩ := g
    have hvals : vals ≠ [] := hv (k, vals) (by simp)
    have ih' := ih (fun g hg => hv g (by simp [hg]))
    have hr : renderGroups ((k, vals) :: gs) = Tok.key k :: (vals.map Tok.word ++ renderGroups gs) := by
      simp [renderGroups]
    rw [hr]
    cases cur with
    | none =>
      simp only [parseGroupsGo]
      rw [parseGroupsGo_words, ih' _ _ (by intro g hg; cases hg; simpa using hvals)]
      simp [closeCur]
    | some g0 =>
      obtain ⟨k0, v0⟩ := g0
      have hv0 : v0 ≠ [] := hc (k0, v0) rfl
      simp only [parseGroupsGo, List.isEmpty_iff, hv0, if_false]
      rw [parseGroupsGo_words, ih' _ _ (by intro g hg; cases hg; simpa using hvals)]
      simp [closeCur]

/-! ### `coordinate_interpolation` -/

def renderCI (gs : List (String × List String)) : List CTok :=
  gs.flatMap (fun g => g.2.map CTok.coord ++ [CTok.interp g.1])

theorem coordInterpGo_coords (cs : List String) (rest : List CTok) (c0 : List String)
    (acc : List (String × List String)) :
    coordInterpGo (cs.map CTok.coord ++ rest) c0 acc = coordInterpGo rest (c0 ++ cs) acc := by
  induction cs generalizing c0 with
  | nil => simp
  | cons c cs ih =>
    simp only [List.map_cons, List.cons_append, coordInterpGo]
    rw [ih]
    simp

theorem ciSet_new (d : List (String × List String)) (k : String) (v : List String)
    (h : ∀ x ∈ d, x.1 ≠ k) : ciSet d k v = d ++ [(k, v)] := by
  unfold ciSet
  have : d.any (fun x => x.1 == k) = false := by
    rw [List.any_eq_false]
    intro x hx
    simpa using h x hx
  simp [this]

theorem coordInterpGo_render (gs : List (String × List String)) :
    ∀ (acc : List (String × List String)),
      (gs.map (·.1)).Nodup → (∀ g ∈ gs, ∀ x ∈ acc, x.1 ≠ g.1) →
      coordInterpGo (renderCI gs) [] acc = acc ++ gs := by
  induction gs with
  | nil => intro acc _ _; simp [renderCI, coordInterpGo]
  | cons g gs ih =>
    intro acc hnd hdis
    obtain ⟨iv, coords⟩ := g
    have hr : renderCI ((iv, coords) :: gs) = coords.map CTok.coord ++ (CTok.interp iv :: renderCI gs) := by
      simp [renderCI]
    rw [hr, coordInterpGo_coords]
    simp only [List.nil_append, coordInterpGo]
    rw [ciSet_new acc iv coords (fun x hx => hdis (iv, coords) (by simp) x hx)]
    have hnd0 : (iv :: gs.map (·.1)).Nodup := hnd
    have hnd' : (gs.map (·.1)).Nodup := (List.nodup_cons.mp hnd0).2
    have hiv : ∀ g ∈ gs, g.1 ≠ iv := by
      intro g hg h
      have := (List.nodup_cons.mp hnd0).1
      exact this (by rw [← h]; exact List.mem_map_of_mem hg)
    rw [ih (acc ++ [(iv, coords)]) hnd' (by
      intro g hg x hx
      simp only [List.mem_append, List.mem_singleton] at hx
      rcases hx with hx | rfl
      · exact hdis g (by simp [hg]) x hx
      · exact fun h => hiv g hg h.symm)]
    simp

/-! ### positions of the parameter dimensions -/

theorem paramPosition_lt (rec : List SubDim) (dimensions : List String) (dim : String) (i : Nat)
    (hrec : ∀ s ∈ rec, s.subsampled ∈ dimensions)
    (h : paramPosition rec dimensions dim = some i) : i < dimensions.length := by
  unfold paramPosition at h
  split at h
  · rename_i hc
    have : dim ∈ dimensions := by simpa using hc
    simp only [Option.some.injEq] at h
    rw [← h]
    exact List.idxOf_lt_length_of_mem this
  · split at h
    · rename_i s hs
      have hsm : s ∈ rec := List.mem_of_find?_eq_some hs
      simp only [Option.some.injEq] at h
      rw [← h]
      exact List.idxOf_lt_length_of_mem (hrec s hsm)
    · cases h

end Cfdm.Subsample
