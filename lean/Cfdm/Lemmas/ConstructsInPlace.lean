import Cfdm.Lemmas.ConstructsSeq
/-
C02 — the in-place deriving calls (`squeeze`, `transpose`, `insert_dimension` with `inplace=True`) write the
new data BEFORE they re-set the data axes (`super().squeeze(...)`, then `f.set_data_axes(...)`): their guards
do not all come first.  In a state that satisfies the invariant the late `set_data_axes` cannot fail, so a
rejected call of this kind still leaves the state unchanged — except `insert_dimension(None, …)`, whose first
statement creates the new domain axis.
-/
namespace Cfdm.Constructs

/-- in a consistent state the `set_data_axes` at the end of `squeeze` / `transpose` is never the statement
that fails -/
theorem relabel_rejected_core {s s' : St} (h : Core s) {shp : List Nat} (hd : s.data = some shp) (inplace : Bool)
    (idx : List Nat) (hr : relabel true s inplace shp idx = (s', false)) : s' = s := by
  unfold relabel at hr
  have hf := h.fax
  cases hA : s.dataAxes with
  | none => simp [hA] at hr
  | some A =>
    simp only [hA] at hr
    cases hp : pick A idx with
    | none => simp only [hp, Prod.mk.injEq, and_true] at hr; exact hr.symm
    | some A' =>
      simp only [hp] at hr
      have h1 := hf.1
      simp only [hA, hd] at h1
      obtain ⟨shp', hs1, hs2⟩ := fits_pick h1.2 idx hp
      have hn : newShapeOf shp idx = shp' := by unfold newShapeOf; rw [hs1]; rfl
      rw [hn] at hr
      have e : sizesOfD s.cons A' = some shp' := fits_sizesOf hs2
      simp [setDataAxes, sizesOf, e] at hr

theorem squeeze_inplace_rejected {s s' : St} (h : Core s) {axes : Option (List Nat)}
    (hr : squeezeField true s axes true = (s', .rejected)) : s' = s := by
  unfold squeezeField at hr
  split at hr
  · simp_all
  cases hd : s.data with
  | none => simp_all
  | some shp =>
    simp only [hd] at hr
    split at hr
    · simp_all
    split at hr
    · simp_all
    · rename_i hrl
      simp only [Prod.mk.injEq, and_true] at hr
      subst hr
      exact relabel_rejected_core h hd true _ hrl

theorem transpose_inplace_rejected {s s' : St} (h : Core s) {perm : Option (List Nat)}
    (hr : transposeField true s perm false true = (s', .rejected)) : s' = s := by
  unfold transposeField at hr
  split at hr
  · simp_all
  cases hd : s.data with
  | none => simp_all
  | some shp =>
    simp only [hd] at hr
    split at hr
    · simp_all
    split at hr
    · rename_i hrl
      simp only [Prod.mk.injEq, and_true] at hr
      subst hr
      exact relabel_rejected_core h hd true _ hrl
    · simp at hr

theorem insertField_rejected_core {s s' : St} (h : Core s) {a : Key} (ha : axSize s a = some (some 1)) (position : Nat)
    (hr : insertField true s a position = (s', false)) : s' = s := by
  unfold insertField at hr
  have hf := h.fax
  have haex : isAxis s a = true := by
    unfold axSize at ha
    unfold isAxis
    cases hg : s.cons.get (.axis, a) with
    | none => simp [hg] at ha
    | some _ => rfl
  cases hA : s.dataAxes with
  | none =>
    cases hd : s.data with
    | none => simp [hA, hd] at hr
    | some shp =>
      simp only [hA, hd] at hr
      split at hr <;> simp_all
  | some A =>
    have h1 := hf.1
    simp only [hA] at h1
    cases hd : s.data with
    | none =>
      simp only [hA, hd] at hr
      split at hr
      · simp_all
      · -- `set_data_axes` on a field without data: every axis exists
        have hall : (A.insertIdx (min position A.length) a).all (isAxis s) = true := by
          rw [List.all_eq_true]
          intro x hx
          rw [List.mem_insertIdx (by omega)] at hx
          rcases hx with rfl | hx
          · exact haex
          · have := h1.1 x hx
            unfold isAxis; exact this
        simp [setDataAxes, hall] at hr
    | some shp =>
      simp only [hd] at h1
      simp only [hA, hd] at hr
      split at hr
      · simp_all
      split at hr
      · rename_i hpos
        have hl := fits_length h1.2
        have hmin : min position A.length = position := by omega
        rw [hmin] at hr
        have hfit := fits_insertIdx h1.2 ha position
        have e : sizesOfD s.cons (A.insertIdx position a) = some (shp.insertIdx position 1) := fits_sizesOf hfit
        simp [setDataAxes, sizesOf, e] at hr
      · simp_all

theorem insdim_inplace_rejected {s s' : St} (h : Core s) {a : Key} {position : Nat}
    (hr : insertDimension true s (some a) position false true = (s', .rejected)) : s' = s := by
  unfold insertDimension at hr
  split at hr
  · simp_all
  cases hk : insertAxisKey true s (some a) with
  | none => simp_all
  | some sa =>
    obtain ⟨s1, a1⟩ := sa
    obtain ⟨_, ha⟩ := insertAxisKey_spec h hk
    -- an existing axis: nothing was created
    have e1 : s1 = s ∧ a1 = a := by
      unfold insertAxisKey at hk
      simp only at hk
      cases hg : s.cons.get (.axis, a) with
      | none => simp [hg] at hk
      | some c =>
        simp only [hg] at hk
        split at hk
        · simp only [Option.some.injEq, Prod.mk.injEq] at hk; exact ⟨hk.1.symm, hk.2.symm⟩
        · cases hk
    obtain ⟨rfl, rfl⟩ := e1
    simp only [hk] at hr
    cases hfl : insertField true s1 a1 position with
    | mk st b =>
      simp only [hfl] at hr
      cases b with
      | false =>
        simp only [↓reduceIte, Prod.mk.injEq, and_true] at hr
        subst hr
        exact insertField_rejected_core h ha position hfl
      | true => simp at hr

/-- the in-place deriving calls whose first statement does not create anything -/
def Op.inPlaceNoCreate : Op → Bool
  | .squeeze _ true => true
  | .transpose _ false true => true
  | .insdim (some _) _ false true => true
  | _ => false

theorem inplace_rejected_unchanged {s s' : St} (h : Core s) (op : Op) (hop : op.inPlaceNoCreate = true)
    (hr : step s op = (s', .rejected)) : s' = s := by
  unfold step stepP at hr
  cases op with
  | squeeze axes ip =>
    cases ip with
    | true => exact squeeze_inplace_rejected h hr
    | false => simp [Op.inPlaceNoCreate] at hop
  | transpose perm cs ip =>
    cases cs <;> cases ip <;> simp [Op.inPlaceNoCreate] at hop
    exact transpose_inplace_rejected h hr
  | insdim axis pos cs ip =>
    cases axis with
    | none => simp [Op.inPlaceNoCreate] at hop
    | some a =>
      cases cs <;> cases ip <;> simp [Op.inPlaceNoCreate] at hop
      exact insdim_inplace_rejected h hr
  | _ => simp [Op.inPlaceNoCreate] at hop

end Cfdm.Constructs
