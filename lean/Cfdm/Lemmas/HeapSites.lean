import Cfdm.Lemmas.Heap
import Cfdm.Model.HeapSites
/-
C04 — soundness of the decidable site check: `Site.ok s = true` implies that the write path of
the site is live (`AllLive`) under cfdm's copy table, for every instantiation of the dynamic
keys and whatever `copy(data=False)` / `copy(array=False)` leaves out.
-/
namespace Cfdm.Heap

theorem Mode.live_ne_share {m : Mode} (h : m.live = true) : m ≠ .share := by
  cases m <;> simp [Mode.live] at h ⊢

theorem Step.liveIn_top {tbl : Tbl} {s : Step} (h : s.liveIn tbl) : s.topLiveIn tbl :=
  fun k hk => Mode.live_ne_share (h k hk)

theorem allLive_cons {tbl : Tbl} {s : Step} {p : List Step}
    (hl : s.liveIn tbl) (hp : AllLive tbl p) : AllLive tbl (s :: p) := by
  cases p with
  | nil => exact Step.liveIn_top hl
  | cons s' p' => exact ⟨hl, hp⟩

/-- the mode of an instance attribute does not depend on the class name nor on the left-out components -/
theorem objMode_eq (dk : List String) (f : Fam) (cls key : String) :
    cfdmMode dk (.obj f cls) key = objMode f key := by
  cases f <;> simp [objMode, cfdmMode]

/-- leaving components out only turns entries into `drop` -/
theorem compMode_dk (dk : List String) (f : Fam) (key : String) :
    cfdmMode dk (.comps f) key = .drop ∨ cfdmMode dk (.comps f) key = compMode f key := by
  by_cases h : key ∈ dk
  · left; simp [cfdmMode, h]
  · right; simp [compMode, cfdmMode, h]

theorem fattr_liveIn (dk : List String) (f : Fam) (h : (objMode f "_components").live = true) :
    Step.liveIn (cfdmTbl dk) (.fattr f) := by
  intro k hk
  cases k with
  | obj g cls =>
    have hf : f = g := by simpa [Step.ok] using hk
    subst hf
    simp only [cfdmTbl, Step.key, objMode_eq]
    exact h
  | _ => simp [Step.ok] at hk

theorem fattr_topLiveIn (dk : List String) (f : Fam) (h : objMode f "_components" ≠ .share) :
    Step.topLiveIn (cfdmTbl dk) (.fattr f) := by
  intro k hk
  cases k with
  | obj g cls =>
    have hf : f = g := by simpa [Step.ok] using hk
    subst hf
    simp only [cfdmTbl, Step.key, objMode_eq]
    exact h
  | _ => simp [Step.ok] at hk

theorem oattr_liveIn (dk : List String) (f : Fam) (a : String) (h : (objMode f a).live = true) :
    Step.liveIn (cfdmTbl dk) (.oattr f a) := by
  intro k hk
  cases k with
  | obj g cls =>
    have hf : f = g := by simpa [Step.ok] using hk
    subst hf
    simp only [cfdmTbl, Step.key, objMode_eq]
    exact h
  | _ => simp [Step.ok] at hk

theorem oattr_topLiveIn (dk : List String) (f : Fam) (a : String) (h : objMode f a ≠ .share) :
    Step.topLiveIn (cfdmTbl dk) (.oattr f a) := by
  intro k hk
  cases k with
  | obj g cls =>
    have hf : f = g := by simpa [Step.ok] using hk
    subst hf
    simp only [cfdmTbl, Step.key, objMode_eq]
    exact h
  | _ => simp [Step.ok] at hk

theorem fcomp_liveIn (dk : List String) (f : Fam) (c : String) (h : (compMode f c).live = true) :
    Step.liveIn (cfdmTbl dk) (.fcomp f c) := by
  intro k hk
  cases k with
  | comps g =>
    have hf : f = g := by simpa [Step.ok] using hk
    subst hf
    simp only [cfdmTbl, Step.key]
    rcases compMode_dk dk f c with e | e
    · rw [e]; rfl
    · rw [e]; exact h
  | _ => simp [Step.ok] at hk

theorem fcomp_topLiveIn (dk : List String) (f : Fam) (c : String) (h : compMode f c ≠ .share) :
    Step.topLiveIn (cfdmTbl dk) (.fcomp f c) := by
  intro k hk
  cases k with
  | comps g =>
    have hf : f = g := by simpa [Step.ok] using hk
    subst hf
    simp only [cfdmTbl, Step.key]
    rcases compMode_dk dk f c with e | e
    · rw [e]; intro h'; cases h'
    · rw [e]; exact h
  | _ => simp [Step.ok] at hk

/-- no component of a plain container is handed over as it is, whatever its name -/
theorem compMode_container_ne_share (c : String) : compMode .container c ≠ .share := by
  simp only [compMode, cfdmMode]
  by_cases h1 : c = "custom" ∨ c = "inherited_properties"
  · simp [h1]
  · by_cases h2 : c ∈ deepComps <;> simp [h1, h2]

theorem item_liveIn (dk : List String) (key : String) : Step.liveIn (cfdmTbl dk) (.item key) := by
  intro k hk
  cases k <;> simp_all [Step.ok, cfdmTbl, cfdmMode, Mode.live]

theorem allLive_items (dk : List String) (ρ : Nat → String) :
    ∀ (keys : List (Option String)) (i : Nat), AllLive (cfdmTbl dk) (itemSteps ρ i keys)
  | [], _ => trivial
  | _ :: r, i => allLive_cons (item_liveIn dk _) (allLive_items dk ρ r (i + 1))

/-- every step that passes `Step.liveB` is live under cfdm's table, whatever is left out -/
theorem Step.liveB_sound (dk : List String) (s : Step) (h : s.liveB = true) : s.liveIn (cfdmTbl dk) := by
  cases s with
  | fattr f => exact fattr_liveIn dk f h
  | fcomp f c => exact fcomp_liveIn dk f c h
  | oattr f a => exact oattr_liveIn dk f a h
  | item k => exact item_liveIn dk k
  | _ => simp [Step.liveB] at h

/-- a live prefix (the way down to a nested object) followed by a live path is a live path -/
theorem allLive_append (tbl : Tbl) : ∀ (p q : List Step), (∀ s ∈ p, s.liveIn tbl) → AllLive tbl q → AllLive tbl (p ++ q)
  | [], _, _, hq => hq
  | s :: p, q, hp, hq =>
    allLive_cons (hp s List.mem_cons_self) (allLive_append tbl p q (fun s' hs' => hp s' (List.mem_cons_of_mem _ hs')) hq)

/-- **soundness of the site check** -/
theorem Site.ok_sound (s : Site) (h : s.ok = true) (dk : List String) (ρ : Nat → String) :
    AllLive (cfdmTbl dk) (s.path ρ) := by
  obtain ⟨fam, root, keys, rem, key⟩ := s
  cases root with
  | obj => simp [Site.path, AllLive]
  | comps =>
    simp only [Site.ok, bne_iff_ne, ne_eq] at h
    simp only [Site.path, AllLive]
    exact fattr_topLiveIn dk fam h
  | comp c =>
    simp only [Site.ok, Bool.and_eq_true] at h
    obtain ⟨h1, h2⟩ := h
    simp only [Site.path]
    refine allLive_cons (fattr_liveIn dk fam h1) ?_
    cases keys with
    | nil =>
      simp only [List.isEmpty_nil, ite_true] at h2
      simp only [itemSteps, AllLive]
      cases c with
      | some k =>
        simp only [compTopB, bne_iff_ne, ne_eq] at h2
        exact fcomp_topLiveIn dk fam k h2
      | none =>
        simp only [compTopB, beq_iff_eq] at h2
        subst h2
        exact fcomp_topLiveIn dk .container _ (compMode_container_ne_share _)
    | cons k r =>
      simp only [List.isEmpty_cons, Bool.false_eq_true, ite_false] at h2
      cases c with
      | some c' =>
        simp only [compLiveB] at h2
        exact allLive_cons (fcomp_liveIn dk fam c' h2) (allLive_items dk ρ (k :: r) 1)
      | none => simp [compLiveB] at h2
  | attr a =>
    simp only [Site.path]
    cases keys with
    | nil =>
      simp only [Site.ok, List.isEmpty_nil, ite_true, bne_iff_ne, ne_eq] at h
      simp only [itemSteps, AllLive]
      exact oattr_topLiveIn dk fam a h
    | cons k r =>
      simp only [Site.ok, List.isEmpty_cons, Bool.false_eq_true, ite_false] at h
      exact allLive_cons (oattr_liveIn dk fam a h) (allLive_items dk ρ (k :: r) 1)

end Cfdm.Heap
