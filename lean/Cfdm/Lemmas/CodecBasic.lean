import Cfdm.Spec.Codec
import Mathlib.Data.List.Nodup
import Mathlib.Data.List.Perm.Basic
/-
Helper lemmas for C01: sorting is a permutation, look-ups in lists with distinct names.
-/
namespace Cfdm.Codec

theorem insertKey_perm (a : Key) (l : List Key) : (insertKey a l).Perm (a :: l) := by
  induction l with
  | nil => exact List.Perm.refl _
  | cons b bs ih =>
    unfold insertKey
    split
    · exact List.Perm.refl _
    · exact (List.Perm.cons b ih).trans (List.Perm.swap a b bs)

theorem sortKeys_perm (l : List Key) : (sortKeys l).Perm l := by
  induction l with
  | nil => exact List.Perm.refl _
  | cons a as ih =>
    unfold sortKeys
    exact (insertKey_perm a _).trans (List.Perm.cons a ih)

theorem mem_sortKeys {a : Key} {l : List Key} : a ∈ sortKeys l ↔ a ∈ l := (sortKeys_perm l).mem_iff

theorem sortKeys_singleton (a : Key) : sortKeys [a] = [a] := rfl

theorem insertEntry_perm (a : Entry) (l : List Entry) : (insertEntry a l).Perm (a :: l) := by
  induction l with
  | nil => exact List.Perm.refl _
  | cons b bs ih =>
    unfold insertEntry
    split
    · exact List.Perm.refl _
    · exact (List.Perm.cons b ih).trans (List.Perm.swap a b bs)

theorem sortEntries_perm (l : List Entry) : (sortEntries l).Perm l := by
  induction l with
  | nil => exact List.Perm.refl _
  | cons a as ih =>
    unfold sortEntries
    exact (insertEntry_perm a _).trans (List.Perm.cons a ih)

theorem mem_sortEntries {a : Entry} {l : List Entry} : a ∈ sortEntries l ↔ a ∈ l := (sortEntries_perm l).mem_iff

/-- Looking a name up in a list in which it occurs once. -/
theorem find?_of_unique {α} (l : List α) (name : α → String) (v : α) (hv : v ∈ l)
    (hu : ∀ w ∈ l, name w = name v → w = v) : l.find? (fun w => name w == name v) = some v := by
  induction l with
  | nil => cases hv
  | cons x xs ih =>
    rw [List.find?_cons]
    by_cases hx : name x = name v
    · have : x = v := hu x (List.mem_cons_self) hx
      subst this
      simp
    · have hne : (name x == name v) = false := by simpa using hx
      rw [hne]
      rcases List.mem_cons.mp hv with h | h
      · exact absurd (h ▸ rfl) hx
      · exact ih h (fun w hw => hu w (List.mem_cons_of_mem _ hw))

theorem find?_none_of_forall {α} (l : List α) (p : α → Bool) (h : ∀ w ∈ l, p w = false) : l.find? p = none := by
  rw [List.find?_eq_none]
  intro x hx
  simp [h x hx]

theorem mem_ofType {f : MField} {t : CType} {e : Entry} : e ∈ f.ofType t ↔ e ∈ f.cons ∧ e.con.ctype = t := by
  simp [MField.ofType, List.mem_filter]

theorem mem_spanning {f : MField} {a : Key} {e : Entry} : e ∈ f.spanning a ↔ e ∈ f.cons ∧ a ∈ e.axes := by
  simp [MField.spanning, List.mem_filter]

theorem dimCoordOf_some {f : MField} {a : Key} {e : Entry} (h : f.dimCoordOf a = some e) :
    e ∈ f.cons ∧ e.con.ctype = .dim ∧ e.axes = [a] := by
  unfold MField.dimCoordOf at h
  have h1 := List.mem_of_find?_eq_some h
  have h2 := List.find?_some h
  simp only [Bool.and_eq_true, beq_iff_eq] at h2
  exact ⟨h1, h2.1, h2.2⟩

theorem lookup_of_mem_nodup {β} (l : List (Key × β)) (hn : (l.map (·.1)).Nodup) {kb : Key × β} (h : kb ∈ l) :
    l.lookup kb.1 = some kb.2 := by
  induction l with
  | nil => cases h
  | cons x xs ih =>
    rw [List.map_cons, List.nodup_cons] at hn
    rcases List.mem_cons.mp h with h | h
    · subst h; simp [List.lookup]
    · have hne : kb.1 ≠ x.1 := by
        intro heq
        apply hn.1
        rw [← heq]
        exact List.mem_map_of_mem h
      rw [List.lookup_cons]
      have : (kb.1 == x.1) = false := by simpa using hne
      rw [this]
      exact ih hn.2 h

theorem axis?_of_mem {f : MField} (hn : f.axisKeys.Nodup) {ka : Key × MAxis} (h : ka ∈ f.axes) :
    f.axis? ka.1 = some ka.2 := lookup_of_mem_nodup f.axes hn h

end Cfdm.Codec
