import Cfdm.Model.DataStr
/- Helper lemmas for the display path of data (C19). Core Lean only. -/
namespace Cfdm.DataStr

/-- the conversions never raise an exception that `Data.__str__` does not catch -/
def Conv.Caught (cv : Conv) : Prop := (∀ t, cv.one t ≠ .uncaught) ∧ (∀ a b, cv.two a b ≠ .uncaught)

theorem conv0_some (cv : Conv) (h : cv.Caught) (e : Elem) : ∃ s, conv0 cv e = some s := by
  cases e with
  | masked => exact ⟨_, rfl⟩
  | val t =>
    have := h.1 t
    simp only [conv0]
    cases hc : cv.one t <;> simp_all

theorem conv2_some (cv : Conv) (h : cv.Caught) (a b : Elem) : ∃ p, conv2 cv a b = some p := by
  have := h.2 (zeroIfMasked a) (zeroIfMasked b)
  simp only [conv2]
  cases hc : cv.two (zeroIfMasked a) (zeroIfMasked b) <;> simp_all

theorem dataStr_some (cv : Conv) (h : cv.Caught) (d : DData) : ∃ s, dataStr cv d = some s := by
  obtain ⟨shape, elems, units, calendar⟩ := d
  cases elems with
  | nil => exact ⟨_, rfl⟩
  | cons first rest =>
    simp only [dataStr, List.head?_cons, List.length_cons]
    by_cases h1 : rest.length + 1 = 1
    · simp only [h1, if_true]
      have hf : ∃ f, (if DData.isRefTime ⟨shape, first :: rest, units, calendar⟩ = true then conv0 cv first
          else some (fmt first)) = some f := by
        split
        · exact conv0_some cv h first
        · exact ⟨_, rfl⟩
      obtain ⟨f, hf⟩ := hf
      simp [hf]
    · simp only [h1, if_false]
      have hl : ∃ last, (first :: rest).getLast? = some last := by
        cases hgl : (first :: rest).getLast? with
        | none => simp at hgl
        | some l => exact ⟨l, rfl⟩
      obtain ⟨last, hl⟩ := hl
      simp only [hl]
      have hpair : ∃ p, (if DData.isRefTime ⟨shape, first :: rest, units, calendar⟩ = true then conv2 cv first last
          else some (fmt first, fmt last)) = some p := by
        split
        · exact conv2_some cv h first last
        · exact ⟨_, rfl⟩
      obtain ⟨⟨f, l⟩, hp⟩ := hpair
      simp only [hp]
      by_cases h3 : rest.length + 1 > 3
      · simp [h3]
      · simp only [h3, if_false]
        split
        · -- exactly three along the last axis: the second element exists
          have hmid : ∃ mid, (first :: rest)[1]? = some mid := by
            cases rest with
            | nil => simp at h1
            | cons m r => exact ⟨m, rfl⟩
          obtain ⟨mid, hm⟩ := hmid
          simp only [hm]
          have hmm : ∃ m, (if DData.isRefTime ⟨shape, first :: rest, units, calendar⟩ = true then conv0 cv mid
              else some (fmt mid)) = some m := by
            split
            · exact conv0_some cv h mid
            · exact ⟨_, rfl⟩
          obtain ⟨m, hmm⟩ := hmm
          simp [hmm]
        · split <;> simp

/-! ### the layout -/

theorem prod_getLast (shape : List Nat) (n : Nat) (h : shape.getLast? = some n) : ∃ k, prod shape = k * n := by
  induction shape with
  | nil => simp at h
  | cons a l ih =>
    cases l with
    | nil =>
      simp only [List.getLast?_singleton, Option.some.injEq] at h
      exact ⟨1, by simp [prod, h]⟩
    | cons b l =>
      rw [List.getLast?_cons_cons] at h
      obtain ⟨k, hk⟩ := ih h
      exact ⟨a * k, by simp only [prod] at hk ⊢; rw [hk, Nat.mul_assoc]⟩

theorem ellipsis_split : ", ..., " = ", " ++ "..., " := by decide

/-- Layout of `Data.__str__` for data that are not reference times: for every shape and every
non-empty list of elements of that size (masked or not), the text is the specification's. -/
theorem dataStr_plain (cv : Conv) (d : DData) (hne : d.elems ≠ []) (hwf : d.elems.length = prod d.shape)
    (hr : d.isRefTime = false) :
    dataStr cv d = some (specStr d (fun i => fmt (d.elems.getD i .masked))) := by
  obtain ⟨shape, elems, units, calendar⟩ := d
  simp only at hne hwf
  cases elems with
  | nil => exact absurd rfl hne
  | cons e0 rest =>
    simp only [dataStr, List.head?_cons, List.length_cons, hr, Bool.false_eq_true, if_false]
    cases rest with
    | nil =>
      simp [specStr, specItems, String.append_assoc]
    | cons e1 rest =>
      cases rest with
      | nil =>
        -- two elements: the last axis cannot have size 3
        have h3 : shape.getLast? ≠ some 3 := by
          intro h
          obtain ⟨k, hk⟩ := prod_getLast shape 3 h
          simp only [List.length_cons, List.length_nil] at hwf
          omega
        simp [specStr, specItems, h3, String.append_assoc, List.range_succ]
      | cons e2 rest =>
        cases rest with
        | nil =>
          by_cases h3 : shape.getLast? = some 3
          · simp [specStr, specItems, h3, String.append_assoc, List.range_succ]
          · simp [specStr, specItems, h3, String.append_assoc]
            rw [ellipsis_split, String.append_assoc]
        | cons e3 rest =>
          have hgt : rest.length + 1 + 1 + 1 + 1 > 3 := by omega
          have hle : ¬ (rest.length + 1 + 1 + 1 + 1 ≤ 2) := by omega
          have hne3 : ¬ (rest.length + 1 + 1 + 1 + 1 = 3) := by omega
          have hne1 : ¬ (rest.length + 1 + 1 + 1 + 1 = 1) := by omega
          have hlast : (e0 :: e1 :: e2 :: e3 :: rest).getLast? = some ((e3 :: rest).getLast (by simp)) := by
            simp [List.getLast?_eq_some_getLast]
          have hget : (e0 :: e1 :: e2 :: e3 :: rest).getD (rest.length + 1 + 1 + 1 + 1 - 1) Elem.masked =
              (e3 :: rest).getLast (by simp) := by
            have : rest.length + 1 + 1 + 1 + 1 - 1 = (rest.length) + 3 := by omega
            rw [this]
            simp only [List.getD_cons_succ]
            rw [List.getLast_eq_getElem]
            simp [List.getD_eq_getElem?_getD]
          simp only [hne1, if_false, hlast, hgt, if_true, specStr, specItems, List.length_cons, hle, hne3,
            decide_false, Bool.false_and, Bool.or_self, Bool.false_eq_true, hget]
          simp [String.append_assoc]
          rw [ellipsis_split, String.append_assoc]

/-! ### `__str__` of the constructs, `dump` -/

theorem pdbStr_some (identity : String) (dims : Option (List Nat)) (u c bu bc : Option Units) :
    ∃ s, pdbStr identity dims u c bu bc = some s := by
  rcases u with _ | ⟨_, s1⟩ | _ <;> rcases c with _ | ⟨_, s2⟩ | _ <;> rcases bu with _ | ⟨_, s3⟩ | _ <;>
    rcases bc with _ | ⟨_, s4⟩ | _ <;> (try cases s1) <;> (try cases s3) <;> simp [pdbStr, pdbStrWith]

theorem pdStr_some (identity : String) (dims : Option (List Nat)) (u c : Option Units) :
    ∃ s, pdStr identity dims u c = some s := by
  rcases u with _ | ⟨_, s1⟩ | _ <;> rcases c with _ | ⟨_, s2⟩ | _ <;> (try cases s1) <;> simp [pdStr, pdStrWith]

def Units.isStr : Units → Bool
  | .str _ _ => true
  | .other _ => false

def optIsStr : Option Units → Bool
  | none => true
  | some u => u.isStr

theorem pdbStrOld_some (identity : String) (dims : Option (List Nat)) (u c bu bc : Option Units)
    (hu : optIsStr u = true) (hc : optIsStr c = true) (hbu : optIsStr bu = true) (hbc : optIsStr bc = true) :
    ∃ s, pdbStrOld identity dims u c bu bc = some s := by
  rcases u with _ | ⟨_, s1⟩ | _ <;> rcases c with _ | ⟨_, s2⟩ | _ <;> rcases bu with _ | ⟨_, s3⟩ | _ <;>
    rcases bc with _ | ⟨_, s4⟩ | _ <;> (try cases s1) <;> (try cases s3) <;>
    simp_all [pdbStrOld, pdbStrWith, optIsStr, Units.isStr]

theorem dumpDims_length (names : Option (List String)) (shape : List Nat) :
    (dumpDims names shape).length = shape.length := by
  cases names with
  | none => simp [dumpDims]
  | some x =>
    simp only [dumpDims]
    split
    · rename_i h
      simp only [List.length_take] at h
      simp only [List.length_append, List.length_take, List.length_map, List.length_drop]
      omega
    · rename_i h
      simp only [List.length_take] at h ⊢
      omega

end Cfdm.DataStr
