import Cfdm.Model.Heap
/-
Helper lemmas for C04 (heap model): by mutual structural induction on cell trees.
-/
namespace Cfdm.Heap

/-! ### basic membership facts -/
theorem top_sub_addrs (t : T) : ∀ a ∈ t.top, a ∈ t.addrs := by
  cases t <;> simp [T.top, T.addrs]

theorem under_sub_addrs (t : T) : ∀ a ∈ t.under, a ∈ t.addrs := by
  cases t <;> simp [T.under, T.addrs]
  intro a h; exact Or.inr h

mutual
theorem liveT_sub (tbl : Tbl) : ∀ (t : T), ∀ a ∈ liveT tbl t, a ∈ t.addrs
  | .imm _ => by simp [liveT]
  | .leaf _ _ _ => by simp [liveT, T.addrs]
  | .node b k ks => by
    intro a h
    simp only [liveT, List.mem_cons] at h
    simp only [T.addrs, List.mem_cons]
    rcases h with h | h
    · exact Or.inl h
    · exact Or.inr (liveK_sub tbl k ks a h)
theorem liveK_sub (tbl : Tbl) (k : Kind) : ∀ (ks : Kids), ∀ a ∈ liveK tbl k ks, a ∈ ks.addrs
  | .nil => by simp [liveK]
  | .cons key t r => by
    intro a h
    simp only [liveK, List.mem_append] at h
    simp only [Kids.addrs, List.mem_append]
    rcases h with h | h
    · left
      cases hm : tbl.mode k key <;> simp only [hm] at h
      · simp at h
      · exact top_sub_addrs t a h
      · exact h
      · exact liveT_sub tbl t a h
      · exact h
    · exact Or.inr (liveK_sub tbl k r a h)
end

mutual
theorem keptT_sub (tbl : Tbl) : ∀ (t : T), ∀ a ∈ keptT tbl t, a ∈ t.addrs
  | .imm _ => by simp [keptT]
  | .leaf _ _ _ => by simp [keptT]
  | .node b k ks => by
    intro a h
    simp only [keptT] at h
    simp only [T.addrs, List.mem_cons]
    exact Or.inr (keptK_sub tbl k ks a h)
theorem keptK_sub (tbl : Tbl) (k : Kind) : ∀ (ks : Kids), ∀ a ∈ keptK tbl k ks, a ∈ ks.addrs
  | .nil => by simp [keptK]
  | .cons key t r => by
    intro a h
    simp only [keptK, List.mem_append] at h
    simp only [Kids.addrs, List.mem_append]
    rcases h with h | h
    · left
      cases hm : tbl.mode k key <;> simp only [hm] at h
      · exact h
      · exact under_sub_addrs t a h
      · simp at h
      · exact keptT_sub tbl t a h
      · simp at h
    · exact Or.inr (keptK_sub tbl k r a h)
end

/-! ### deep and shallow copies allocate fresh addresses -/
mutual
theorem deepT_spec : ∀ (t : T) (n : Nat),
    n ≤ (deepT t n).2 ∧ ∀ a ∈ (deepT t n).1.addrs, n ≤ a ∧ a < (deepT t n).2
  | .imm _, n => by simp [deepT, T.addrs]
  | .leaf _ _ _, n => by simp [deepT, T.addrs]
  | .node _ k ks, n => by
    obtain ⟨h1, h2⟩ := deepK_spec ks (n + 1)
    simp only [deepT, T.addrs, List.mem_cons]
    refine ⟨by omega, ?_⟩
    intro a ha
    rcases ha with rfl | ha
    · omega
    · have := h2 a ha; omega
theorem deepK_spec : ∀ (ks : Kids) (n : Nat),
    n ≤ (deepK ks n).2 ∧ ∀ a ∈ (deepK ks n).1.addrs, n ≤ a ∧ a < (deepK ks n).2
  | .nil, n => by simp [deepK, Kids.addrs]
  | .cons key t r, n => by
    obtain ⟨h1, h1'⟩ := deepT_spec t n
    obtain ⟨h2, h2'⟩ := deepK_spec r (deepT t n).2
    simp only [deepK, Kids.addrs, List.mem_append]
    refine ⟨by omega, ?_⟩
    intro a ha
    rcases ha with ha | ha
    · have := h1' a ha; omega
    · have := h2' a ha; omega
end

/-- the top cell of a shallow copy is fresh whenever the original is a container cell -/
theorem shallowT_addrs (t : T) (n : Nat) :
    n ≤ (shallowT t n).2 ∧
    ∀ a ∈ (shallowT t n).1.addrs, (n ≤ a ∧ a < (shallowT t n).2) ∨ a ∈ t.under := by
  cases t with
  | imm v => simp [shallowT, T.addrs]
  | leaf b o v => simp [shallowT, T.addrs]
  | node b k ks =>
    simp only [shallowT, T.addrs, T.under, List.mem_cons]
    refine ⟨by omega, ?_⟩
    intro a ha
    rcases ha with rfl | ha
    · left; omega
    · right; exact ha

theorem shallowT_top (t : T) (n : Nat) : ∀ a ∈ (shallowT t n).1.top, n ≤ a ∧ a < (shallowT t n).2 := by
  cases t <;> simp [shallowT, T.top]

/-! ### `copy()`: every address of the copy is fresh or sits at a kept position of the source;
every *live* position of the copy holds a fresh cell -/
mutual
theorem copyT_spec (tbl : Tbl) : ∀ (t : T) (n : Nat),
    n ≤ (copyT tbl t n).2 ∧
    (∀ a ∈ (copyT tbl t n).1.addrs, (n ≤ a ∧ a < (copyT tbl t n).2) ∨ a ∈ keptT tbl t) ∧
    (∀ a ∈ liveT tbl (copyT tbl t n).1, n ≤ a ∧ a < (copyT tbl t n).2)
  | .imm _, n => by simp [copyT, T.addrs, liveT]
  | .leaf _ _ _, n => by simp [copyT, T.addrs, liveT]
  | .node _ k ks, n => by
    obtain ⟨h1, h2, h3⟩ := copyK_spec tbl k ks (n + 1)
    simp only [copyT, T.addrs, liveT, keptT, List.mem_cons]
    refine ⟨by omega, ?_, ?_⟩
    · intro a ha
      rcases ha with rfl | ha
      · left; omega
      · rcases h2 a ha with h | h
        · left; omega
        · right; exact h
    · intro a ha
      rcases ha with rfl | ha
      · omega
      · have := h3 a ha; omega
theorem copyK_spec (tbl : Tbl) (k : Kind) : ∀ (ks : Kids) (n : Nat),
    n ≤ (copyK tbl k ks n).2 ∧
    (∀ a ∈ (copyK tbl k ks n).1.addrs, (n ≤ a ∧ a < (copyK tbl k ks n).2) ∨ a ∈ keptK tbl k ks) ∧
    (∀ a ∈ liveK tbl k (copyK tbl k ks n).1, n ≤ a ∧ a < (copyK tbl k ks n).2)
  | .nil, n => by simp [copyK, Kids.addrs, liveK]
  | .cons key t r, n => by
    cases hm : tbl.mode k key with
    | drop =>
      obtain ⟨h1, h2, h3⟩ := copyK_spec tbl k r n
      simp only [copyK, hm, keptK, List.nil_append]
      exact ⟨h1, h2, h3⟩
    | share =>
      obtain ⟨h1, h2, h3⟩ := copyK_spec tbl k r n
      simp only [copyK, hm, keptK, Kids.addrs, liveK, List.mem_append, List.nil_append]
      refine ⟨h1, ?_, h3⟩
      intro a ha
      rcases ha with ha | ha
      · right; left; exact ha
      · rcases h2 a ha with h | h
        · left; exact h
        · right; right; exact h
    | shallow =>
      obtain ⟨s1, s2⟩ := shallowT_addrs t n
      obtain ⟨h1, h2, h3⟩ := copyK_spec tbl k r (shallowT t n).2
      simp only [copyK, hm, keptK, Kids.addrs, liveK, List.mem_append]
      refine ⟨by omega, ?_, ?_⟩
      · intro a ha
        rcases ha with ha | ha
        · rcases s2 a ha with h | h
          · left; omega
          · right; left; exact h
        · rcases h2 a ha with h | h
          · left; omega
          · right; right; exact h
      · intro a ha
        rcases ha with ha | ha
        · have hfresh := shallowT_top t n a ha
          omega
        · have := h3 a ha; omega
    | deep =>
      obtain ⟨d1, d2⟩ := deepT_spec t n
      obtain ⟨h1, h2, h3⟩ := copyK_spec tbl k r (deepT t n).2
      simp only [copyK, hm, keptK, Kids.addrs, liveK, List.mem_append, List.nil_append]
      refine ⟨by omega, ?_, ?_⟩
      · intro a ha
        rcases ha with ha | ha
        · have := d2 a ha; left; omega
        · rcases h2 a ha with h | h
          · left; omega
          · right; exact h
      · intro a ha
        rcases ha with ha | ha
        · have := d2 a ha; omega
        · have := h3 a ha; omega
    | own =>
      obtain ⟨c1, c2, c3⟩ := copyT_spec tbl t n
      obtain ⟨h1, h2, h3⟩ := copyK_spec tbl k r (copyT tbl t n).2
      simp only [copyK, hm, keptK, Kids.addrs, liveK, List.mem_append]
      refine ⟨by omega, ?_, ?_⟩
      · intro a ha
        rcases ha with ha | ha
        · rcases c2 a ha with h | h
          · left; omega
          · right; left; exact h
        · rcases h2 a ha with h | h
          · left; omega
          · right; right; exact h
      · intro a ha
        rcases ha with ha | ha
        · have := c3 a ha; omega
        · have := h3 a ha; omega
end

/-! ### writes -/
mutual
theorem applyT_not_mem (a : Nat) (u : Upd) : ∀ (t : T), a ∉ t.addrs → applyT a u t = t
  | .imm _, _ => by simp [applyT]
  | .leaf b _ _, h => by
    simp only [T.addrs, List.mem_cons, List.not_mem_nil, or_false] at h
    have : ¬ b = a := fun e => h e.symm
    simp [applyT, this]
  | .node b k ks, h => by
    simp only [T.addrs, List.mem_cons, not_or] at h
    have hb : ¬ b = a := fun e => h.1 e.symm
    simp [applyT, hb, applyK_not_mem a u ks h.2]
theorem applyK_not_mem (a : Nat) (u : Upd) : ∀ (ks : Kids), a ∉ ks.addrs → applyK a u ks = ks
  | .nil, _ => by simp [applyK]
  | .cons key t r, h => by
    simp only [Kids.addrs, List.mem_append, not_or] at h
    simp [applyK, applyT_not_mem a u t h.1, applyK_not_mem a u r h.2]
end

/-- the addresses a write can add to a tree: those of the structure it stores -/
def Upd.newAddrs : Upd → List Nat
  | .setKey _ v => v.addrs
  | _ => []

theorem set_addrs (key : String) (v : T) : ∀ (ks : Kids), ∀ a ∈ (ks.set key v).addrs, a ∈ ks.addrs ∨ a ∈ v.addrs
  | .nil => by simp [Kids.set, Kids.addrs]
  | .cons k t r => by
    intro a ha
    by_cases hk : (k == key) = true
    · simp only [Kids.set, hk, ite_true, Kids.addrs, List.mem_append] at ha ⊢
      rcases ha with h | h
      · exact Or.inr h
      · exact Or.inl (Or.inr h)
    · simp only [Kids.set, hk, Kids.addrs, List.mem_append, Bool.false_eq_true, ite_false] at ha ⊢
      rcases ha with h | h
      · exact Or.inl (Or.inl h)
      · rcases set_addrs key v r a h with h | h
        · exact Or.inl (Or.inr h)
        · exact Or.inr h

theorem erase_addrs (key : String) : ∀ (ks : Kids), ∀ a ∈ (ks.erase key).addrs, a ∈ ks.addrs
  | .nil => by simp [Kids.erase, Kids.addrs]
  | .cons k t r => by
    intro a ha
    by_cases hk : (k == key) = true
    · simp only [Kids.erase, hk, ite_true] at ha
      simp only [Kids.addrs, List.mem_append]; exact Or.inr ha
    · simp only [Kids.erase, hk, Kids.addrs, List.mem_append, Bool.false_eq_true, ite_false] at ha ⊢
      rcases ha with h | h
      · exact Or.inl h
      · exact Or.inr (erase_addrs key r a h)

theorem updKids_addrs (u : Upd) (ks : Kids) : ∀ a ∈ (updKids u ks).addrs, a ∈ ks.addrs ∨ a ∈ u.newAddrs := by
  intro a ha
  cases u with
  | setKey key v => exact set_addrs key v ks a ha
  | delKey key => exact Or.inl (erase_addrs key ks a ha)
  | poke w => exact Or.inl ha

theorem set_live (tbl : Tbl) (k : Kind) (key : String) (v : T) :
    ∀ (ks : Kids), ∀ a ∈ liveK tbl k (ks.set key v), a ∈ liveK tbl k ks ∨ a ∈ v.addrs
  | .nil => by
    intro a ha
    simp only [Kids.set, liveK, List.append_nil] at ha
    right
    cases hm : tbl.mode k key <;> simp only [hm] at ha
    · simp at ha
    · exact top_sub_addrs v a ha
    · exact ha
    · exact liveT_sub tbl v a ha
    · exact ha
  | .cons k' t r => by
    intro a ha
    by_cases hk : (k' == key) = true
    · have hk' : k' = key := by simpa using hk
      subst hk'
      simp only [Kids.set, hk, ite_true, liveK, List.mem_append] at ha ⊢
      rcases ha with h | h
      · right
        cases hm : tbl.mode k k' <;> simp only [hm] at h
        · simp at h
        · exact top_sub_addrs v a h
        · exact h
        · exact liveT_sub tbl v a h
        · exact h
      · exact Or.inl (Or.inr h)
    · simp only [Kids.set, hk, liveK, List.mem_append, Bool.false_eq_true, ite_false] at ha ⊢
      rcases ha with h | h
      · exact Or.inl (Or.inl h)
      · rcases set_live tbl k key v r a h with h | h
        · exact Or.inl (Or.inr h)
        · exact Or.inr h

theorem erase_live (tbl : Tbl) (k : Kind) (key : String) :
    ∀ (ks : Kids), ∀ a ∈ liveK tbl k (ks.erase key), a ∈ liveK tbl k ks
  | .nil => by simp [Kids.erase, liveK]
  | .cons k' t r => by
    intro a ha
    by_cases hk : (k' == key) = true
    · simp only [Kids.erase, hk, ite_true] at ha
      simp only [liveK, List.mem_append]; exact Or.inr ha
    · simp only [Kids.erase, hk, liveK, List.mem_append, Bool.false_eq_true, ite_false] at ha ⊢
      rcases ha with h | h
      · exact Or.inl h
      · exact Or.inr (erase_live tbl k key r a h)

theorem updKids_live (tbl : Tbl) (k : Kind) (u : Upd) (ks : Kids) :
    ∀ a ∈ liveK tbl k (updKids u ks), a ∈ liveK tbl k ks ∨ a ∈ u.newAddrs := by
  intro a ha
  cases u with
  | setKey key v => exact set_live tbl k key v ks a ha
  | delKey key => exact Or.inl (erase_live tbl k key ks a ha)
  | poke w => exact Or.inl ha

mutual
theorem applyT_addrs (a : Nat) (u : Upd) : ∀ (t : T), ∀ b ∈ (applyT a u t).addrs, b ∈ t.addrs ∨ b ∈ u.newAddrs
  | .imm _ => by simp [applyT, T.addrs]
  | .leaf c o v => by
    intro b hb
    left
    by_cases hc : c = a
    · cases u <;> simpa [applyT, hc, T.addrs] using hb
    · simpa [applyT, hc, T.addrs] using hb
  | .node c k ks => by
    intro b hb
    by_cases hc : c = a
    · simp only [applyT, hc, ite_true, T.addrs, List.mem_cons] at hb ⊢
      rcases hb with h | h
      · exact Or.inl (Or.inl h)
      · rcases updKids_addrs u _ b h with h | h
        · rcases applyK_addrs a u ks b h with h | h
          · exact Or.inl (Or.inr h)
          · exact Or.inr h
        · exact Or.inr h
    · simp only [applyT, hc, ite_false, T.addrs, List.mem_cons] at hb ⊢
      rcases hb with h | h
      · exact Or.inl (Or.inl h)
      · rcases applyK_addrs a u ks b h with h | h
        · exact Or.inl (Or.inr h)
        · exact Or.inr h
theorem applyK_addrs (a : Nat) (u : Upd) : ∀ (ks : Kids), ∀ b ∈ (applyK a u ks).addrs, b ∈ ks.addrs ∨ b ∈ u.newAddrs
  | .nil => by simp [applyK, Kids.addrs]
  | .cons key t r => by
    intro b hb
    simp only [applyK, Kids.addrs, List.mem_append] at hb ⊢
    rcases hb with h | h
    · rcases applyT_addrs a u t b h with h | h
      · exact Or.inl (Or.inl h)
      · exact Or.inr h
    · rcases applyK_addrs a u r b h with h | h
      · exact Or.inl (Or.inr h)
      · exact Or.inr h
end

theorem applyT_top (a : Nat) (u : Upd) (t : T) : (applyT a u t).top = t.top := by
  cases t with
  | imm v => simp [applyT, T.top]
  | leaf c o v =>
    by_cases hc : c = a
    · cases u <;> simp [applyT, hc, T.top]
    · simp [applyT, hc, T.top]
  | node c k ks =>
    by_cases hc : c = a <;> simp [applyT, hc, T.top]

mutual
theorem applyT_live (tbl : Tbl) (a : Nat) (u : Upd) :
    ∀ (t : T), ∀ b ∈ liveT tbl (applyT a u t), b ∈ liveT tbl t ∨ b ∈ u.newAddrs
  | .imm _ => by simp [applyT, liveT]
  | .leaf c o v => by
    intro b hb
    left
    by_cases hc : c = a
    · cases u <;> simpa [applyT, hc, liveT] using hb
    · simpa [applyT, hc, liveT] using hb
  | .node c k ks => by
    intro b hb
    by_cases hc : c = a
    · simp only [applyT, hc, ite_true, liveT, List.mem_cons] at hb ⊢
      rcases hb with h | h
      · exact Or.inl (Or.inl h)
      · rcases updKids_live tbl k u _ b h with h | h
        · rcases applyK_live tbl k a u ks b h with h | h
          · exact Or.inl (Or.inr h)
          · exact Or.inr h
        · exact Or.inr h
    · simp only [applyT, hc, ite_false, liveT, List.mem_cons] at hb ⊢
      rcases hb with h | h
      · exact Or.inl (Or.inl h)
      · rcases applyK_live tbl k a u ks b h with h | h
        · exact Or.inl (Or.inr h)
        · exact Or.inr h
theorem applyK_live (tbl : Tbl) (k : Kind) (a : Nat) (u : Upd) :
    ∀ (ks : Kids), ∀ b ∈ liveK tbl k (applyK a u ks), b ∈ liveK tbl k ks ∨ b ∈ u.newAddrs
  | .nil => by simp [applyK, liveK]
  | .cons key t r => by
    intro b hb
    simp only [applyK, liveK, List.mem_append] at hb ⊢
    rcases hb with h | h
    · cases hm : tbl.mode k key <;> simp only [hm] at h ⊢
      · simp at h
      · rw [applyT_top] at h; exact Or.inl (Or.inl h)
      · rcases applyT_addrs a u t b h with h | h
        · exact Or.inl (Or.inl h)
        · exact Or.inr h
      · rcases applyT_live tbl a u t b h with h | h
        · exact Or.inl (Or.inl h)
        · exact Or.inr h
      · rcases applyT_addrs a u t b h with h | h
        · exact Or.inl (Or.inl h)
        · exact Or.inr h
    · rcases applyK_live tbl k a u r b h with h | h
      · exact Or.inl (Or.inr h)
      · exact Or.inr h
end

/-! ### typed paths: a path whose steps are all live ends on a live cell -/
theorem liveK_get (tbl : Tbl) (k : Kind) (key : String) (c : T) :
    ∀ (ks : Kids), ks.get? key = some c →
      (match tbl.mode k key with
       | .share => True
       | .shallow => ∀ a ∈ c.top, a ∈ liveK tbl k ks
       | .deep => ∀ a ∈ c.addrs, a ∈ liveK tbl k ks
       | .drop => ∀ a ∈ c.addrs, a ∈ liveK tbl k ks
       | .own => ∀ a ∈ liveT tbl c, a ∈ liveK tbl k ks)
  | .nil => by simp [Kids.get?]
  | .cons k' t r => by
    intro h
    by_cases hk : (k' == key) = true
    · have hk' : k' = key := by simpa using hk
      subst hk'
      simp only [Kids.get?, hk, ite_true, Option.some.injEq] at h
      subst h
      cases hm : tbl.mode k k' <;> simp only [liveK, hm, List.mem_append]
      · intro a ha; exact Or.inl ha
      · intro a ha; exact Or.inl ha
      · intro a ha; exact Or.inl ha
      · intro a ha; exact Or.inl ha
    · simp only [Kids.get?, hk, Bool.false_eq_true, ite_false] at h
      have ih := liveK_get tbl k key c r h
      cases hm : tbl.mode k key <;> simp only [hm] at ih ⊢
      all_goals (intro a ha; simp only [liveK, List.mem_append]; exact Or.inr (ih a ha))

theorem get_addrs (key : String) (c : T) : ∀ (ks : Kids), ks.get? key = some c → ∀ a ∈ c.addrs, a ∈ ks.addrs
  | .nil => by simp [Kids.get?]
  | .cons k' t r => by
    intro h a ha
    by_cases hk : (k' == key) = true
    · simp only [Kids.get?, hk, ite_true, Option.some.injEq] at h
      subst h
      simp only [Kids.addrs, List.mem_append]; exact Or.inl ha
    · simp only [Kids.get?, hk, Bool.false_eq_true, ite_false] at h
      simp only [Kids.addrs, List.mem_append]; exact Or.inr (get_addrs key c r h a ha)

theorem resolve_addrs : ∀ (p : List Step) (t c : T), resolve t p = some c → ∀ a ∈ c.addrs, a ∈ t.addrs
  | [], t, c => by
    intro h; simp only [resolve, Option.some.injEq] at h; subst h; exact fun a ha => ha
  | s :: p, .imm _, c => by simp [resolve]
  | s :: p, .leaf _ _ _, c => by simp [resolve]
  | s :: p, .node b k ks, c => by
    intro h a ha
    by_cases hs : s.ok k = true
    · simp only [resolve, hs, ite_true] at h
      cases hg : ks.get? s.key with
      | none => simp [hg] at h
      | some c' =>
        simp only [hg, Option.bind_some] at h
        have := resolve_addrs p c' c h a ha
        simp only [T.addrs, List.mem_cons]
        exact Or.inr (get_addrs s.key c' ks hg a this)
    · simp [resolve, hs] at h

/-- the last step of a write path may also cross a *shallow* entry: the cell it reaches is the
new top cell that `dict.copy()` made -/
def Step.topLiveIn (tbl : Tbl) (s : Step) : Prop := ∀ k, s.ok k = true → tbl.mode k s.key ≠ .share

/-- `AllLive tbl p`: every step of the path but the last is live under the table, and the last one
does not cross a shared entry -/
def AllLive (tbl : Tbl) : List Step → Prop
  | [] => True
  | [s] => s.topLiveIn tbl
  | s :: s' :: p => s.liveIn tbl ∧ AllLive tbl (s' :: p)

theorem resolve_live (tbl : Tbl) : ∀ (p : List Step) (t c : T), AllLive tbl p → resolve t p = some c →
    ∀ a ∈ c.top, a ∈ liveT tbl t
  | [], t, c => by
    intro _ h; simp only [resolve, Option.some.injEq] at h; subst h
    cases t <;> simp [T.top, liveT]
  | s :: p, .imm _, c => by simp [resolve]
  | s :: p, .leaf _ _ _, c => by simp [resolve]
  | [s], .node b k ks, c => by
    intro hl h a ha
    by_cases hs : s.ok k = true
    · simp only [resolve, hs, ite_true] at h
      cases hg : ks.get? s.key with
      | none => simp [hg] at h
      | some c' =>
        simp only [hg, Option.bind_some, resolve, Option.some.injEq] at h
        subst h
        have hns : tbl.mode k s.key ≠ .share := hl k hs
        have hg' := liveK_get tbl k s.key c' ks hg
        simp only [liveT, List.mem_cons]
        right
        cases hm : tbl.mode k s.key with
        | share => exact absurd hm hns
        | shallow => simp only [hm] at hg'; exact hg' a ha
        | deep => simp only [hm] at hg'; exact hg' a (top_sub_addrs c' a ha)
        | drop => simp only [hm] at hg'; exact hg' a (top_sub_addrs c' a ha)
        | own =>
          simp only [hm] at hg'
          refine hg' a ?_
          cases c' <;> simp_all [T.top, liveT]
    · simp [resolve, hs] at h
  | s :: s' :: p, .node b k ks, c => by
    intro hl h a ha
    by_cases hs : s.ok k = true
    · simp only [resolve, hs, ite_true] at h
      cases hg : ks.get? s.key with
      | none => simp [hg] at h
      | some c' =>
        simp only [hg, Option.bind_some] at h
        have hlive : (tbl.mode k s.key).live = true := hl.1 k hs
        have hp : AllLive tbl (s' :: p) := hl.2
        have hg' := liveK_get tbl k s.key c' ks hg
        simp only [liveT, List.mem_cons]
        right
        cases hm : tbl.mode k s.key with
        | share => simp [hm, Mode.live] at hlive
        | shallow => simp [hm, Mode.live] at hlive
        | deep =>
          simp only [hm] at hg'
          exact hg' a (resolve_addrs (s' :: p) c' c h a (top_sub_addrs c a ha))
        | drop =>
          simp only [hm] at hg'
          exact hg' a (resolve_addrs (s' :: p) c' c h a (top_sub_addrs c a ha))
        | own =>
          simp only [hm] at hg'
          exact hg' a (resolve_live tbl (s' :: p) c' c hp h a ha)
    · simp [resolve, hs] at h

theorem targetAddr_live (tbl : Tbl) (p : List Step) (t : T) (a : Nat) (hl : AllLive tbl p)
    (h : targetAddr t p = some a) : a ∈ liveT tbl t := by
  unfold targetAddr at h
  cases hr : resolve t p with
  | none => simp [hr] at h
  | some c =>
    cases c with
    | imm v => simp [hr] at h
    | leaf b o v =>
      simp only [hr, Option.some.injEq] at h; subst h
      exact resolve_live tbl p t _ hl hr b (by simp [T.top])
    | node b k ks =>
      simp only [hr, Option.some.injEq] at h; subst h
      exact resolve_live tbl p t _ hl hr b (by simp [T.top])

/-! ### separation and its preservation by a disciplined write -/
/-- the live (writable by the method table) cells of each object are not reachable from the other -/
def Sep (tbl : Tbl) (x y : T) : Prop :=
  (∀ a ∈ x.addrs, a ∉ liveT tbl y) ∧ (∀ a ∈ liveT tbl x, a ∉ y.addrs)

theorem Sep.symm {tbl : Tbl} {x y : T} (h : Sep tbl x y) : Sep tbl y x :=
  ⟨fun a ha hl => h.2 a hl ha, fun a ha hx => h.1 a hx ha⟩

def Below (t : T) (n : Nat) : Prop := ∀ a ∈ t.addrs, a < n

theorem freshUpd_spec (u : Upd) (n : Nat) :
    n ≤ (freshUpd u n).2 ∧ ∀ a ∈ (freshUpd u n).1.newAddrs, n ≤ a ∧ a < (freshUpd u n).2 := by
  cases u with
  | setKey key v =>
    obtain ⟨h1, h2⟩ := deepT_spec v n
    simp only [freshUpd, Upd.newAddrs]
    exact ⟨h1, h2⟩
  | delKey key => simp [freshUpd, Upd.newAddrs]
  | poke w => simp [freshUpd, Upd.newAddrs]

/-- one write through a live path of the receiver leaves the other object as it was, keeps the two
separate and keeps all addresses below the allocation counter -/
theorem stepWrite_frame (tbl : Tbl) (w : Write) (x y : T) (n : Nat)
    (hsep : Sep tbl x y) (hx : Below x n) (hy : Below y n) (hl : AllLive tbl w.path) :
    (stepWrite w (x, y, n)).1 = x ∧
    Sep tbl x (stepWrite w (x, y, n)).2.1 ∧
    Below x (stepWrite w (x, y, n)).2.2 ∧ Below (stepWrite w (x, y, n)).2.1 (stepWrite w (x, y, n)).2.2 ∧
    n ≤ (stepWrite w (x, y, n)).2.2 := by
  cases ht : targetAddr y w.path with
  | none => simp only [stepWrite, ht]; exact ⟨trivial, hsep, hx, hy, Nat.le_refl n⟩
  | some a =>
    simp only [stepWrite, ht]
    have hlive : a ∈ liveT tbl y := targetAddr_live tbl w.path y a hl ht
    have hax : a ∉ x.addrs := fun h => hsep.1 a h hlive
    obtain ⟨f1, f2⟩ := freshUpd_spec w.upd n
    refine ⟨applyT_not_mem a _ x hax, ⟨?_, ?_⟩, ?_, ?_, f1⟩
    · intro b hb hl'
      rcases applyT_live tbl a _ y b hl' with h | h
      · exact hsep.1 b hb h
      · have := f2 b h; have := hx b hb; omega
    · intro b hb hy'
      rcases applyT_addrs a _ y b hy' with h | h
      · exact hsep.2 b hb h
      · have := f2 b h; have := hx b (liveT_sub tbl x b hb); omega
    · intro b hb; have := hx b hb; omega
    · intro b hb
      rcases applyT_addrs a _ y b hb with h | h
      · have := hy b h; omega
      · have := f2 b h; omega

theorem runWrites_frame (tbl : Tbl) : ∀ (ws : List Write) (x y : T) (n : Nat),
    Sep tbl x y → Below x n → Below y n → (∀ w ∈ ws, AllLive tbl w.path) →
    (runWrites ws (x, y, n)).1 = x ∧ Sep tbl x (runWrites ws (x, y, n)).2.1
  | [], x, y, n => by intro h _ _ _; exact ⟨rfl, h⟩
  | w :: ws, x, y, n => by
    intro hsep hx hy hl
    obtain ⟨e1, s1, bx, by', _⟩ := stepWrite_frame tbl w x y n hsep hx hy (hl w List.mem_cons_self)
    have ih := runWrites_frame tbl ws x (stepWrite w (x, y, n)).2.1 (stepWrite w (x, y, n)).2.2 s1 bx by'
      (fun w' hw' => hl w' (List.mem_cons_of_mem _ hw'))
    have hs : stepWrite w (x, y, n) = (x, (stepWrite w (x, y, n)).2.1, (stepWrite w (x, y, n)).2.2) :=
      Prod.ext e1 rfl
    simp only [runWrites]
    rw [hs]
    exact ih

/-- what the receiver becomes does not depend on who is watching -/
theorem stepWrite_snd (w : Write) (x y : T) (n : Nat) :
    ((stepWrite w (x, y, n)).2.1, (stepWrite w (x, y, n)).2.2) = stepOn w (y, n) := by
  cases ht : targetAddr y w.path <;> simp [stepWrite, stepOn, ht]

theorem runWrites_snd : ∀ (ws : List Write) (x y : T) (n : Nat),
    ((runWrites ws (x, y, n)).2.1, (runWrites ws (x, y, n)).2.2) = runOn ws (y, n)
  | [], x, y, n => rfl
  | w :: ws, x, y, n => by
    simp only [runWrites, runOn]
    rw [← stepWrite_snd w x y n]
    exact runWrites_snd ws _ _ _

theorem runVia_eq_runWrites : ∀ (ws : List Write) (s : T × T × Nat),
    (∀ w ∈ ws, w.via = .placeholder) → runVia ws s = runWrites ws s
  | [], s => fun _ => rfl
  | w :: ws, s => by
    intro h
    have hw : w.via = .placeholder := h w List.mem_cons_self
    simp only [runVia, runWrites, stepVia, hw]
    exact runVia_eq_runWrites ws _ (fun w' hw' => h w' (List.mem_cons_of_mem _ hw'))

mutual
theorem obs_eq_of_eq : ∀ (t : T), obsT (obsT t) = obsT t
  | .imm _ => rfl
  | .leaf _ _ _ => rfl
  | .node _ k ks => by simp [obsT, obsK_idem ks]
theorem obsK_idem : ∀ (ks : Kids), obsK (obsK ks) = obsK ks
  | .nil => rfl
  | .cons key t r => by simp [obsK, obs_eq_of_eq t, obsK_idem r]
end

end Cfdm.Heap
