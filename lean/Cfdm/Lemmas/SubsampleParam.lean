import Cfdm.Model.SubsampleParam
import Mathlib.Data.List.Basic
import Mathlib.Data.List.Range
import Mathlib.Data.List.Nodup
import Batteries.Data.List.Perm
import Mathlib.Tactic.Ring
/-
C16 helper lemmas, fourth part: conforming interpolation parameters
(transpose + insert size 1 axes) is "index the stored array in its own dimension order".
-/
namespace Cfdm.Subsample
open Cfdm.Arr

/-- Erase the positions `M` from a list, highest first (what the `get` of the array after
the `insert_dimension` loop does to its multi-index). -/
def eraseMany {β} (M : List Nat) (l : List β) : List β := M.foldr (fun d acc => acc.eraseIdx d) l

theorem foldl_insertDim_get {α} (M : List Nat) (T : Arr α) (idx : List Nat) :
    (M.foldl insertDim T).get idx = T.get (eraseMany M idx) := by
  induction M generalizing T with
  | nil => rfl
  | cons d M ih =>
    simp only [List.foldl_cons, ih, eraseMany, List.foldr_cons]
    rfl

theorem eraseMany_length_ge {β} (M : List Nat) (l : List β) :
    l.length - M.length ≤ (eraseMany M l).length := by
  induction M with
  | nil => simp [eraseMany]
  | cons d M ih =>
    simp only [eraseMany, List.foldr_cons, List.length_cons] at ih ⊢
    have := List.length_eraseIdx_le (List.foldr (fun d acc => acc.eraseIdx d) l M) d
    have h2 : (List.foldr (fun d acc => acc.eraseIdx d) l M).length - 1 ≤
        ((List.foldr (fun d acc => acc.eraseIdx d) l M).eraseIdx d).length := by
      rw [List.length_eraseIdx]; split <;> omega
    omega

/-- A strictly increasing list of naturals in the open interval `(d, n)` has at most
`n - d - 1` elements. -/
theorem sorted_length_le (M : List Nat) (d n : Nat) (hs : M.Pairwise (· < ·))
    (hd : ∀ m ∈ M, d < m) (hn : ∀ m ∈ M, m < n) : M.length + d + 1 ≤ n ∨ M = [] := by
  induction M generalizing d with
  | nil => right; rfl
  | cons m M ih =>
    left
    have hm := hd m (by simp)
    have hmn := hn m (by simp)
    rcases ih m (List.Pairwise.of_cons hs)
      (fun x hx => List.rel_of_pairwise_cons hs hx) (fun x hx => hn x (by simp [hx])) with h | h
    · simp only [List.length_cons]; omega
    · subst h; simp only [List.length_cons, List.length_nil]; omega

theorem eraseMany_append {β} (M : List Nat) (l r : List β) (hs : M.Pairwise (· < ·))
    (hn : ∀ m ∈ M, m < l.length) : eraseMany M (l ++ r) = eraseMany M l ++ r := by
  induction M with
  | nil => rfl
  | cons d M ih =>
    have ih' := ih (List.Pairwise.of_cons hs) (fun x hx => hn x (by simp [hx]))
    simp only [eraseMany, List.foldr_cons] at ih' ⊢
    rw [ih']
    have hlen := eraseMany_length_ge M l
    have hd : d < (eraseMany M l).length := by
      have hdl := hn d (by simp)
      rcases sorted_length_le M d l.length (List.Pairwise.of_cons hs)
        (fun x hx => List.rel_of_pairwise_cons hs hx) (fun x hx => hn x (by simp [hx])) with h | h
      · omega
      · subst h; simpa [eraseMany] using hdl
    exact List.eraseIdx_append_of_lt_length hd r

theorem spanned_succ (D : Nat) (pdims : List Nat) :
    spanned (D + 1) pdims = if pdims.contains D then spanned D pdims ++ [D] else spanned D pdims := by
  simp only [spanned, List.range_succ, List.filter_append, List.filter_cons, List.filter_nil]
  split <;> simp

theorem missing_succ (D : Nat) (pdims : List Nat) :
    missing (D + 1) pdims = if pdims.contains D then missing D pdims else missing D pdims ++ [D] := by
  simp only [missing, List.range_succ, List.filter_append, List.filter_cons, List.filter_nil]
  split <;> simp_all

theorem missing_sorted (D : Nat) (pdims : List Nat) : (missing D pdims).Pairwise (· < ·) :=
  List.Pairwise.filter _ List.pairwise_lt_range

theorem missing_lt (D : Nat) (pdims : List Nat) : ∀ m ∈ missing D pdims, m < D := by
  intro m hm
  simp only [missing, List.mem_filter, List.mem_range] at hm
  exact hm.1

theorem spanned_lt (D : Nat) (pdims : List Nat) : ∀ m ∈ spanned D pdims, m < D := by
  intro m hm
  simp only [spanned, List.mem_filter, List.mem_range] at hm
  exact hm.1

theorem spanned_nodup (D : Nat) (pdims : List Nat) : (spanned D pdims).Nodup :=
  List.Nodup.filter _ List.nodup_range

theorem mem_spanned (D : Nat) (pdims : List Nat) (d : Nat) :
    d ∈ spanned D pdims ↔ d < D ∧ d ∈ pdims := by
  simp [spanned]

/-- Erasing the dimensions the parameter does not span leaves the indices along the spanned
dimensions, in order. -/
theorem eraseMany_missing (pdims : List Nat) : ∀ (D : Nat) (idx : List Nat), idx.length = D →
    eraseMany (missing D pdims) idx = (spanned D pdims).map (fun d => idx.getD d 0) := by
  intro D
  induction D with
  | zero =>
    intro idx h
    have : idx = [] := List.eq_nil_of_length_eq_zero h
    subst this
    simp [missing, spanned, eraseMany]
  | succ D ih =>
    intro idx h
    have hne : idx ≠ [] := by intro h0; subst h0; simp at h
    obtain ⟨idx', x, rfl⟩ : ∃ idx' x, idx = idx' ++ [x] :=
      ⟨idx.dropLast, idx.getLast hne, (List.dropLast_append_getLast hne).symm⟩
    have hlen : idx'.length = D := by simpa using h
    have hget : ∀ d ∈ spanned D pdims, (idx' ++ [x]).getD d 0 = idx'.getD d 0 := by
      intro d hd
      have := spanned_lt D pdims d hd
      simp only [List.getD_eq_getElem?_getD]
      rw [List.getElem?_append_left (by omega)]
    rw [spanned_succ, missing_succ]
    by_cases hk : pdims.contains D = true
    · simp only [hk, if_true]
      rw [eraseMany_append _ _ _ (missing_sorted D pdims) (by rw [hlen]; exact missing_lt D pdims),
        ih idx' hlen, List.map_append, List.map_cons, List.map_nil]
      congr 1
      · exact (List.map_congr_left hget).symm
      · simp [List.getD_eq_getElem?_getD, ← hlen]
    · simp only [hk, Bool.false_eq_true, if_false]
      have : eraseMany (missing D pdims ++ [D]) (idx' ++ [x]) = eraseMany (missing D pdims) idx' := by
        simp only [eraseMany, List.foldr_append, List.foldr_cons, List.foldr_nil]
        congr 1
        rw [← hlen]
        simp [List.eraseIdx_append_of_length_le]
      rw [this, ih idx' hlen]
      exact (List.map_congr_left hget).symm

theorem idxOf_map_injOn {β γ} [DecidableEq β] [DecidableEq γ] (f : β → γ) (S : List β) (d : β)
    (hinj : ∀ x ∈ S, f x = f d → x = d) : (S.map f).idxOf (f d) = S.idxOf d := by
  induction S with
  | nil => rfl
  | cons x S ih =>
    simp only [List.map_cons, List.idxOf_cons]
    by_cases hx : x = d
    · subst hx; simp
    · have hfx : f x ≠ f d := fun h => hx (hinj x (by simp) h)
      have e1 : (f x == f d) = false := by simpa using hfx
      have e2 : (x == d) = false := by simpa using hx
      rw [e1, e2, ih (fun y hy => hinj y (by simp [hy]))]

/-- The index map of `transpose(new_order)`, applied to the indices along the spanned
dimensions, lists the indices in the parameter's own dimension order. -/
theorem transpose_index (D : Nat) (pdims : List Nat) (hnd : pdims.Nodup) (hlt : ∀ d ∈ pdims, d < D)
    (idx : List Nat) :
    (List.range pdims.length).map (fun a =>
        ((spanned D pdims).map (fun d => idx.getD d 0)).getD ((newOrder D pdims).idxOf a) 0) =
      pdims.map (fun d => idx.getD d 0) := by
  apply List.ext_getElem
  · simp
  · intro a h1 h2
    simp only [List.length_map, List.length_range] at h1
    simp only [List.getElem_map, List.getElem_range]
    have hd_mem : pdims[a] ∈ pdims := List.getElem_mem h1
    have hdS : pdims[a] ∈ spanned D pdims := (mem_spanned D pdims _).mpr ⟨hlt _ hd_mem, hd_mem⟩
    have hfa : pdims.idxOf pdims[a] = a := List.Nodup.idxOf_getElem hnd a h1
    have hidx : (newOrder D pdims).idxOf a = (spanned D pdims).idxOf pdims[a] := by
      have := idxOf_map_injOn (fun d => pdims.idxOf d) (spanned D pdims) pdims[a] (by
        intro x hx hfx
        have hxp : x ∈ pdims := ((mem_spanned D pdims x).mp hx).2
        have : pdims[pdims.idxOf x]'(List.idxOf_lt_length_of_mem hxp) = x := List.getElem_idxOf _
        rw [← this]
        congr 1
        rw [hfx, hfa])
      simp only [hfa] at this
      exact this
    rw [hidx]
    have hq := List.idxOf_lt_length_of_mem hdS
    rw [List.getD_eq_getElem?_getD, List.getElem?_map, List.getElem?_eq_getElem hq]
    simp [List.getElem_idxOf]

theorem conformGo_get {α} (D : Nat) (pdims : List Nat) (P : Arr α) (hnd : pdims.Nodup)
    (hlt : ∀ d ∈ pdims, d < D) (hP : P.shape.length = pdims.length) (idx : List Nat)
    (hidx : idx.length = D) :
    (conformGo D pdims P).get idx = P.get (pdims.map (fun d => idx.getD d 0)) := by
  have key : (transposeA P (newOrder D pdims)).get (eraseMany (missing D pdims) idx) =
      P.get (pdims.map (fun d => idx.getD d 0)) := by
    rw [eraseMany_missing pdims D idx hidx]
    simp only [transposeA, hP]
    rw [transpose_index D pdims hnd hlt idx]
  unfold conformGo
  simp only
  split
  · rw [foldl_insertDim_get, key]
  · rename_i hge
    have hfull : missing D pdims = [] := by
      -- pdims has D distinct elements below D, so nothing is missing
      have hle : pdims.length ≤ D := by
        have := (List.subperm_of_subset hnd (fun x hx => List.mem_range.mpr (hlt x hx))).length_le
        simpa using this
      have hlen : pdims.length = D := by omega
      have hsub : ∀ d, d < D → d ∈ pdims := by
        intro d hd
        by_contra hne
        have hnd' : (d :: pdims).Nodup := List.nodup_cons.mpr ⟨hne, hnd⟩
        have hsubset : (d :: pdims) ⊆ List.range D := by
          intro x hx
          simp only [List.mem_cons] at hx
          rcases hx with rfl | hx
          · exact List.mem_range.mpr hd
          · exact List.mem_range.mpr (hlt x hx)
        have := (List.subperm_of_subset hnd' hsubset).length_le
        simp only [List.length_cons, List.length_range] at this
        omega
      simp only [missing, List.filter_eq_nil_iff, List.mem_range]
      intro d hd
      simp [hsub d hd]
    have := key
    rw [hfull] at this
    simpa [eraseMany] using this

end Cfdm.Subsample

namespace Cfdm.Subsample
open Cfdm.Arr

/-! ### the shape of the conformed parameter -/

def insOne (s : List Nat) (d : Nat) : List Nat := s.take d ++ 1 :: s.drop d
def insertMany (M : List Nat) (s : List Nat) : List Nat := M.foldl insOne s

theorem foldl_insertDim_shape {α} (M : List Nat) (T : Arr α) :
    (M.foldl insertDim T).shape = insertMany M T.shape := by
  induction M generalizing T with
  | nil => rfl
  | cons d M ih => simp only [List.foldl_cons, ih, insertMany]; rfl

theorem insOne_append (X : List Nat) (y d : Nat) (h : d ≤ X.length) :
    insOne (X ++ [y]) d = insOne X d ++ [y] := by
  simp [insOne, List.take_append_of_le_length h, List.drop_append_of_le_length h]

theorem insOne_length (X : List Nat) (d : Nat) : (insOne X d).length = X.length + 1 := by
  simp only [insOne, List.length_append, List.length_cons, List.length_take, List.length_drop]
  omega

theorem insertMany_append (M : List Nat) : ∀ (X : List Nat) (y : Nat),
    (∀ k (hk : k < M.length), M[k] ≤ X.length + k) →
    insertMany M (X ++ [y]) = insertMany M X ++ [y] := by
  induction M with
  | nil => intro X y _; rfl
  | cons d M ih =>
    intro X y h
    have hd : d ≤ X.length := by
      have := h 0 (by simp)
      simpa using this
    simp only [insertMany, List.foldl_cons]
    rw [insOne_append X y d hd]
    apply ih
    intro k hk
    have := h (k + 1) (by simp; omega)
    simp only [List.getElem_cons_succ] at this
    rw [insOne_length]
    omega

theorem spanned_missing_length (D : Nat) (pdims : List Nat) :
    (spanned D pdims).length + (missing D pdims).length = D := by
  induction D with
  | zero => simp [spanned, missing]
  | succ D ih =>
    rw [spanned_succ, missing_succ]
    split <;> simp <;> omega

theorem missing_getElem_le (pdims : List Nat) : ∀ (D : Nat) (k : Nat) (hk : k < (missing D pdims).length),
    (missing D pdims)[k] ≤ (spanned D pdims).length + k := by
  intro D
  induction D with
  | zero => intro k hk; simp [missing] at hk
  | succ D ih =>
    intro k hk
    have hsm := spanned_missing_length D pdims
    by_cases hc : pdims.contains D = true
    · have e1 : missing (D + 1) pdims = missing D pdims := by rw [missing_succ, if_pos hc]
      have e2 : (spanned (D + 1) pdims).length = (spanned D pdims).length + 1 := by
        rw [spanned_succ, if_pos hc]; simp
      have hk' : k < (missing D pdims).length := by rw [← e1]; exact hk
      have := ih k hk'
      simp only [e1, e2]
      omega
    · have e1 : missing (D + 1) pdims = missing D pdims ++ [D] := by rw [missing_succ, if_neg hc]
      have e2 : spanned (D + 1) pdims = spanned D pdims := by rw [spanned_succ, if_neg hc]
      simp only [e1, e2]
      by_cases hk' : k < (missing D pdims).length
      · rw [List.getElem_append_left hk']
        exact ih k hk'
      · have hk2 : k = (missing D pdims).length := by
          rw [e1] at hk; simp at hk; omega
        subst hk2
        simp
        omega

/-- The shape after inserting the dimensions the parameter does not span. -/
theorem insertMany_missing (pdims : List Nat) (h : Nat → Nat) : ∀ D : Nat,
    insertMany (missing D pdims) ((spanned D pdims).map h) =
      (List.range D).map (fun d => if pdims.contains d then h d else 1) := by
  intro D
  induction D with
  | zero => simp [missing, spanned, insertMany]
  | succ D ih =>
    rw [List.range_succ, List.map_append, List.map_cons, List.map_nil, ← ih]
    by_cases hc : pdims.contains D = true
    · have e1 : missing (D + 1) pdims = missing D pdims := by rw [missing_succ, if_pos hc]
      have e2 : spanned (D + 1) pdims = spanned D pdims ++ [D] := by rw [spanned_succ, if_pos hc]
      rw [e1, e2, List.map_append, List.map_cons, List.map_nil,
        insertMany_append _ _ _ (by
          intro k hk
          have := missing_getElem_le pdims D k hk
          simpa using this)]
      rw [if_pos hc]
    · have e1 : missing (D + 1) pdims = missing D pdims ++ [D] := by rw [missing_succ, if_neg hc]
      have e2 : spanned (D + 1) pdims = spanned D pdims := by rw [spanned_succ, if_neg hc]
      rw [e1, e2, if_neg hc]
      have hlen : (insertMany (missing D pdims) ((spanned D pdims).map h)).length = D := by
        have := congrArg List.length ih
        simpa using this
      have hfold : insertMany (missing D pdims ++ [D]) ((spanned D pdims).map h) =
          insOne (insertMany (missing D pdims) ((spanned D pdims).map h)) D := by
        simp [insertMany, List.foldl_append]
      rw [hfold]
      generalize insertMany (missing D pdims) ((spanned D pdims).map h) = Y at hlen
      subst hlen
      simp [insOne]

theorem conformGo_shape {α} (D : Nat) (pdims : List Nat) (P : Arr α) (hnd : pdims.Nodup)
    (hlt : ∀ d ∈ pdims, d < D) :
    (conformGo D pdims P).shape =
      (List.range D).map (fun d => if pdims.contains d then P.shape.getD (pdims.idxOf d) 0 else 1) := by
  have hT : (transposeA P (newOrder D pdims)).shape =
      (spanned D pdims).map (fun d => P.shape.getD (pdims.idxOf d) 0) := by
    simp [transposeA, newOrder, List.map_map, Function.comp]
  unfold conformGo
  simp only
  split
  · rw [foldl_insertDim_shape, hT, insertMany_missing]
  · rename_i hge
    have hle : pdims.length ≤ D := by
      have := (List.subperm_of_subset hnd (fun x hx => List.mem_range.mpr (hlt x hx))).length_le
      simpa using this
    have hfull : missing D pdims = [] := by
      have hlen : pdims.length = D := by omega
      have hsub : ∀ d, d < D → d ∈ pdims := by
        intro d hd
        by_contra hne
        have hnd' : (d :: pdims).Nodup := List.nodup_cons.mpr ⟨hne, hnd⟩
        have hsubset : (d :: pdims) ⊆ List.range D := by
          intro x hx
          simp only [List.mem_cons] at hx
          rcases hx with rfl | hx
          · exact List.mem_range.mpr hd
          · exact List.mem_range.mpr (hlt x hx)
        have := (List.subperm_of_subset hnd' hsubset).length_le
        simp only [List.length_cons, List.length_range] at this
        omega
      simp only [missing, List.filter_eq_nil_iff, List.mem_range]
      intro d hd
      simp [hsub d hd]
    have := insertMany_missing pdims (fun d => P.shape.getD (pdims.idxOf d) 0) D
    rw [hfull] at this
    rw [hT]
    simpa [insertMany] using this

theorem range_map_getD (idx : List Nat) : (List.range idx.length).map (fun d => idx.getD d 0) = idx := by
  apply List.ext_getElem
  · simp
  · intro a h1 h2
    simp only [List.length_map, List.length_range] at h1
    simp [List.getD_eq_getElem?_getD, List.getElem?_eq_getElem h1]

/-- **Conforming = indexing in the parameter's own dimension order.** -/
theorem conform_get {α} (D : Nat) (pdims : List Nat) (P : Arr α) (hnd : pdims.Nodup)
    (hlt : ∀ d ∈ pdims, d < D) (hP : P.shape.length = pdims.length) (idx : List Nat)
    (hidx : idx.length = D) :
    (conform D pdims P).get idx = P.get (pdims.map (fun d => idx.getD d 0)) := by
  unfold conform
  split
  · rename_i h
    have : pdims = List.range D := by simpa using h
    rw [this, ← hidx, range_map_getD]
  · exact conformGo_get D pdims P hnd hlt hP idx hidx

theorem idxOf_range_self (a D : Nat) (h : a < D) : (List.range D).idxOf a = a := by
  have := List.Nodup.idxOf_getElem (List.nodup_range (n := D)) a (by simpa using h)
  simpa using this

theorem conform_shape {α} (D : Nat) (pdims : List Nat) (P : Arr α) (hnd : pdims.Nodup)
    (hlt : ∀ d ∈ pdims, d < D) (hP : P.shape.length = pdims.length) :
    (conform D pdims P).shape =
      (List.range D).map (fun d => if pdims.contains d then P.shape.getD (pdims.idxOf d) 0 else 1) := by
  unfold conform
  split
  · rename_i h
    have hp : pdims = List.range D := by simpa using h
    have hD : P.shape.length = D := by rw [hP, hp]; simp
    subst hp
    apply List.ext_getElem
    · simp [hD]
    · intro a h1 h2
      have ha : a < D := by simpa [hD] using h1
      simp [List.getD_eq_getElem?_getD, List.getElem?_eq_getElem h1, ha, idxOf_range_self a D ha]
  · exact conformGo_shape D pdims P hnd hlt

end Cfdm.Subsample

namespace Cfdm.Subsample
open Cfdm.Arr

theorem mapM_option_some {β γ} (f : β → Option γ) (g : β → γ) (l : List β)
    (h : ∀ x ∈ l, f x = some (g x)) : l.mapM f = some (l.map g) := by
  induction l with
  | nil => rfl
  | cons x l ih =>
    rw [List.mapM_cons, h x (by simp), ih (fun y hy => h y (by simp [hy]))]
    rfl

/-- The index that `_select_parameter` uses along dimension `a` (it always exists when the
parameter spans the subsampled dimension `d1`, or with the broadcast patch). -/
def selIndex (cshape tpShape : List Nat) (d1 j : Nat) (e : List Nat) (a : Nat) : Nat :=
  if cshape.getD a 0 == tpShape.getD a 0 then (if a == d1 then 0 else e.getD a 0)
  else if a == d1 then (if cshape.getD a 0 == 1 then 0 else j) else 0

theorem paramIndex_some (bcast : Bool) (cshape tpShape : List Nat) (d1 j : Nat) (e : List Nat) (a : Nat)
    (hb : bcast = true ∨ j = 0 ∨ a ≠ d1 ∨ cshape.getD a 0 ≠ 1) :
    paramIndex bcast cshape tpShape (fun a => a == d1) (fun _ => 0) (fun _ => j) (fun _ => 0)
      (fun a => e.getD a 0) a = some (selIndex cshape tpShape d1 j e a) := by
  unfold paramIndex selIndex
  by_cases h1 : (cshape.getD a 0 == tpShape.getD a 0) = true
  · simp only [h1, if_true]
  · simp only [h1, Bool.false_eq_true, if_false]
    by_cases h2 : (a == d1) = true
    · simp only [h2, if_true]
      by_cases h3 : (cshape.getD a 0 == 1) = true
      · simp only [h3, if_true]
        rcases hb with hb | hb | hb | hb
        · simp [hb]
        · simp [hb]
        · exact absurd (by simpa using h2) hb
        · exact absurd (by simpa using h3) hb
      · have h3' : (cshape.getD a 0 == 1) = false := by simpa using h3
        simp only [h3', Bool.false_eq_true, if_false]
    · simp [h2]

/-- **The coefficient that enters the formula for subarea `j` of row `e` is the stored value at
the parameter's own index order.** -/
theorem paramRow_eq (bcast : Bool) (D : Nat) (pdims : List Nat) (P : Arr Rat) (tpShape : List Nat)
    (d1 nsub : Nat) (e : List Nat)
    (hnd : pdims.Nodup) (hlt : ∀ d ∈ pdims, d < D) (hP : P.shape.length = pdims.length)
    (hD : tpShape.length = D)
    (hshape : ∀ q (hq : q < pdims.length),
      P.shape.getD q 0 = if pdims[q] = d1 then nsub else tpShape.getD pdims[q] 0)
    (hns : nsub ≠ tpShape.getD d1 0)
    (hb : bcast = true ∨ d1 ∈ pdims ∨ nsub ≤ 1) :
    paramRow bcast D pdims P tpShape d1 nsub e =
      some ((List.range nsub).map (fun j =>
        P.get (pdims.map (fun d => if d = d1 then j else e.getD d 0)))) := by
  unfold paramRow
  simp only
  apply mapM_option_some
  intro j hj
  have hj' : j < nsub := List.mem_range.mp hj
  have hcs := conform_shape D pdims P hnd hlt hP
  -- the shape of the conformed parameter along a dimension
  have hcsa : ∀ a, a < D → (conform D pdims P).shape.getD a 0 =
      if pdims.contains a then P.shape.getD (pdims.idxOf a) 0 else 1 := by
    intro a ha
    rw [hcs, List.getD_eq_getElem?_getD, List.getElem?_map, List.getElem?_range ha]
    rfl
  have hsel : ∀ a ∈ List.range tpShape.length,
      paramIndex bcast (conform D pdims P).shape tpShape (fun a => a == d1) (fun _ => 0) (fun _ => j)
        (fun _ => 0) (fun a => e.getD a 0) a =
      some (selIndex (conform D pdims P).shape tpShape d1 j e a) := by
    intro a ha
    have ha' : a < D := by rw [← hD]; exact List.mem_range.mp ha
    apply paramIndex_some
    rcases hb with hb | hb | hb
    · exact Or.inl hb
    · by_cases had : a = d1
      · subst had
        by_cases hn1 : nsub = 1
        · right; left; omega
        · right; right; right
          have hc : pdims.contains a = true := by simpa using hb
          rw [hcsa a ha', if_pos hc]
          have hq := List.idxOf_lt_length_of_mem hb
          have := hshape (pdims.idxOf a) hq
          simp only [List.getElem_idxOf, if_true] at this
          rw [this]
          exact hn1
      · exact Or.inr (Or.inr (Or.inl had))
    · right; left; omega
  unfold paramValue
  rw [mapM_option_some _ _ _ hsel, Option.map_some]
  congr 1
  rw [conform_get D pdims P hnd hlt hP _ (by simp [hD])]
  congr 1
  apply List.map_congr_left
  intro d hd
  have hdD : d < D := hlt d hd
  have hc : pdims.contains d = true := by simpa using hd
  have hq := List.idxOf_lt_length_of_mem hd
  have hsh := hshape (pdims.idxOf d) hq
  simp only [List.getElem_idxOf] at hsh
  rw [List.getD_eq_getElem?_getD, List.getElem?_map, List.getElem?_range (by rw [hD]; exact hdD)]
  simp only [Option.map_some, Option.getD_some, selIndex]
  rw [hcsa d hdD, if_pos hc, hsh]
  by_cases hdd : d = d1
  · subst hdd
    have hne : (nsub == tpShape.getD d 0) = false := by simpa using hns
    simp only [if_true, hne, Bool.false_eq_true, if_false, beq_self_eq_true]
    by_cases hn1 : nsub = 1
    · simp [hn1]; omega
    · have : (nsub == 1) = false := by simpa using hn1
      simp [this]
  · have : (d == d1) = false := by simpa using hdd
    simp [hdd, this]

end Cfdm.Subsample
