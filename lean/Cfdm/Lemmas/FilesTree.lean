import Cfdm.Model.FilesTree
/-
C10 — lemmas on the component-tree model of the original-file-name aggregation.  Core Lean only.
-/
namespace Cfdm.FilesTree

/-! ## closed ⇒ every needed file is aggregated -/

mutual
theorem Tree.need_sub_orig (v : Ver) : ∀ t : Tree, t.closed v = true → ∀ x ∈ t.need, x ∈ t.orig v
  | .leaf _ fs, _, x, hx => by simpa [Tree.need, Tree.orig] using hx
  | .obj _ c own kids, hc, x, hx => by
    simp only [Tree.need] at hx
    simp only [Tree.orig, List.mem_append]
    right
    exact needKids_sub_origKids v c kids (by simpa [Tree.closed] using hc) x hx
theorem needKids_sub_origKids (v : Ver) (c : Cls) :
    ∀ kids : List Tree, closedKids v c kids = true → ∀ x ∈ needKids kids, x ∈ origKids v c kids
  | [], _, x, hx => by simp [needKids] at hx
  | t :: rest, hc, x, hx => by
    simp only [closedKids, Bool.and_eq_true] at hc
    simp only [needKids, List.mem_append] at hx
    simp only [origKids, List.mem_append]
    rcases hx with hx | hx
    · left
      cases hf : follows v c t.role with
      | full =>
        simp only [hf] at hc ⊢
        exact Tree.need_sub_orig v t hc.1 x hx
      | files =>
        simp only [hf] at hc ⊢
        have h := hc.1
        rw [List.all_eq_true] at h
        simpa using h x hx
      | no =>
        simp only [hf] at hc
        have h := hc.1
        rw [List.isEmpty_iff] at h
        rw [h] at hx
        simp at hx
    · right
      exact needKids_sub_origKids v c rest hc.2 x hx
end

/-! ## clearing the records / bringing to memory -/

mutual
theorem Tree.need_clearOwn : ∀ t : Tree, t.clearOwn.need = t.need
  | .leaf _ _ => rfl
  | .obj _ _ _ kids => by simp only [Tree.clearOwn, Tree.need]; exact needKids_clearOwn kids
theorem needKids_clearOwn : ∀ kids : List Tree, needKids (clearOwnKids kids) = needKids kids
  | [] => rfl
  | t :: rest => by simp only [clearOwnKids, needKids, Tree.need_clearOwn t, needKids_clearOwn rest]
end

theorem Tree.role_clearOwn (t : Tree) : t.clearOwn.role = t.role := by
  cases t <;> rfl

theorem Tree.cls_clearOwn (t : Tree) : t.clearOwn.cls? = t.cls? := by
  cases t <;> rfl

mutual
theorem Tree.wellTyped_clearOwn : ∀ t : Tree, t.clearOwn.wellTyped = t.wellTyped
  | .leaf _ _ => rfl
  | .obj _ c _ kids => by simp only [Tree.clearOwn, Tree.wellTyped]; exact wellTypedKids_clearOwn c kids
theorem wellTypedKids_clearOwn (c : Cls) : ∀ kids : List Tree,
    wellTypedKids c (clearOwnKids kids) = wellTypedKids c kids
  | [] => rfl
  | t :: rest => by
    simp only [clearOwnKids, wellTypedKids, Tree.role_clearOwn, Tree.cls_clearOwn,
      Tree.wellTyped_clearOwn t, wellTypedKids_clearOwn c rest]
end

mutual
theorem Tree.need_toMem : ∀ t : Tree, t.toMem.need = []
  | .leaf _ _ => rfl
  | .obj _ _ _ kids => by simp only [Tree.toMem, Tree.need]; exact needKids_toMem kids
theorem needKids_toMem : ∀ kids : List Tree, needKids (toMemKids kids) = []
  | [] => rfl
  | t :: rest => by simp only [toMemKids, needKids, Tree.need_toMem t, needKids_toMem rest, List.append_nil]
end

theorem Tree.role_toMem (t : Tree) : t.toMem.role = t.role := by
  cases t <;> rfl

theorem Tree.cls_toMem (t : Tree) : t.toMem.cls? = t.cls? := by
  cases t <;> rfl

mutual
theorem Tree.wellTyped_toMem : ∀ t : Tree, t.toMem.wellTyped = t.wellTyped
  | .leaf _ _ => rfl
  | .obj _ c _ kids => by simp only [Tree.toMem, Tree.wellTyped]; exact wellTypedKids_toMem c kids
theorem wellTypedKids_toMem (c : Cls) : ∀ kids : List Tree,
    wellTypedKids c (toMemKids kids) = wellTypedKids c kids
  | [] => rfl
  | t :: rest => by
    simp only [toMemKids, wellTypedKids, Tree.role_toMem, Tree.cls_toMem,
      Tree.wellTyped_toMem t, wellTypedKids_toMem c rest]
end

/-! ## well typed ⇒ closed, for the patched aggregation -/

/-- an object without data has no components -/
theorem wellTypedKids_props : ∀ kids : List Tree, wellTypedKids .props kids = true → kids = []
  | [], _ => rfl
  | t :: rest, h => by
    simp only [wellTypedKids, Bool.and_eq_true] at h
    have := h.1.1.1
    cases hr : t.role <;> simp [allowed] at this

/-- an uncompressed `Data` holds one thing: its array -/
theorem needKids_eq_fnamesKids_dataNone (v : Ver) : ∀ kids : List Tree, wellTypedKids (.data .none) kids = true →
    needKids kids = fnamesKids v (.data .none) kids
  | [], _ => rfl
  | t :: rest, h => by
    simp only [wellTypedKids, Bool.and_eq_true] at h
    obtain ⟨⟨⟨ha, hk⟩, _⟩, hrest⟩ := h
    have ih := needKids_eq_fnamesKids_dataNone v rest hrest
    cases t with
    | leaf r fs =>
      cases r <;> simp [allowed, Tree.role] at ha
      simp [needKids, fnamesKids, Tree.need, Tree.fnames, Tree.role, follows, ih]
    | obj r c own ks =>
      cases r <;> simp [allowed, Tree.role] at ha
      simp [kidFits, Tree.role, Tree.cls?] at hk

/-- the edge condition of `closed` holds for every component a class can hold -/
theorem edge_closed_new (c : Cls) (t : Tree) (ha : allowed c t.role = true) (hk : kidFits t.role t.cls? = true)
    (hw : t.wellTyped = true) (ih : t.wellTyped = true → t.closed .new = true) :
    (match follows .new c t.role with
     | .full => t.closed .new
     | .files => t.need.all (fun x => (t.fnames .new).contains x)
     | .no => t.need.isEmpty) = true := by
  cases hf : follows .new c t.role with
  | full => exact ih hw
  | files =>
    simp only
    rw [List.all_eq_true]
    intro x hx
    -- the components followed by `get_filenames()` are arrays, or an uncompressed Data
    cases t with
    | leaf r fs => simpa [Tree.need, Tree.fnames] using hx
    | obj r c' own ks =>
      have hc' : c' = .data .none := by
        cases c with
        | data ct =>
          cases ct <;> cases r <;> simp [follows, dataVisits, Tree.role, allowed] at hf ha <;>
            (cases c' with
             | data ct' => cases ct' <;> simp [kidFits, Tree.role, Tree.cls?] at hk ⊢
             | _ => simp [kidFits, Tree.role, Tree.cls?] at hk)
        | _ => cases r <;> simp [follows, Tree.role] at hf
      subst hc'
      simp only [Tree.wellTyped] at hw
      simp only [Tree.need] at hx
      simp only [Tree.fnames]
      rw [← needKids_eq_fnamesKids_dataNone .new ks hw]
      simpa using hx
  | no =>
    simp only
    rw [List.isEmpty_iff]
    -- allowed but not followed: node count / part node count, which hold no data
    cases t with
    | leaf r fs =>
      cases c with
      | data ct => cases ct <;> cases r <;> simp [follows, dataVisits, Tree.role, allowed] at hf ha
      | _ => cases r <;> simp [follows, Tree.role, allowed, kidFits, Tree.cls?] at hf ha hk
    | obj r c' own ks =>
      have hc' : c' = .props := by
        cases c with
        | data ct => cases ct <;> cases r <;> simp [follows, dataVisits, Tree.role, allowed] at hf ha
        | _ =>
          cases r <;> simp [follows, Tree.role, allowed] at hf ha <;>
            (cases c' <;> simp [kidFits, Tree.role, Tree.cls?] at hk ⊢)
      subst hc'
      simp only [Tree.wellTyped] at hw
      rw [wellTypedKids_props ks hw]
      rfl

mutual
theorem Tree.closed_new_of_wellTyped : ∀ t : Tree, t.wellTyped = true → t.closed .new = true
  | .leaf _ _, _ => rfl
  | .obj _ c _ kids, h => by
    simp only [Tree.closed]
    exact closedKids_new_of_wellTyped c kids (by simpa [Tree.wellTyped] using h)
theorem closedKids_new_of_wellTyped (c : Cls) : ∀ kids : List Tree, wellTypedKids c kids = true →
    closedKids .new c kids = true
  | [], _ => rfl
  | t :: rest, h => by
    simp only [wellTypedKids, Bool.and_eq_true] at h
    obtain ⟨⟨⟨ha, hk⟩, hw⟩, hrest⟩ := h
    simp only [closedKids, Bool.and_eq_true]
    exact ⟨edge_closed_new c t ha hk hw (Tree.closed_new_of_wellTyped t), closedKids_new_of_wellTyped c rest hrest⟩
end

/-! ## the code as it stands: closed when nothing is hidden -/

theorem follows_old_eq_new (c : Cls) (r : Role) (h1 : r ≠ .interpParam) (h2 : r ≠ .nodeCoords) :
    follows .old c r = follows .new c r := by
  cases c with
  | data ct => cases ct <;> cases r <;> simp_all [follows, dataVisits]
  | _ => cases r <;> simp_all [follows]

mutual
theorem Tree.fnames_old_eq_new : ∀ t : Tree, t.noHidden = true → t.fnames .old = t.fnames .new
  | .leaf _ _, _ => rfl
  | .obj _ c _ kids, h => by
    simp only [Tree.noHidden, Bool.and_eq_true] at h
    simp only [Tree.fnames]
    exact fnamesKids_old_eq_new c kids h.2
theorem fnamesKids_old_eq_new (c : Cls) : ∀ kids : List Tree, noHiddenKids kids = true →
    fnamesKids .old c kids = fnamesKids .new c kids
  | [], _ => rfl
  | t :: rest, h => by
    simp only [noHiddenKids, Bool.and_eq_true] at h
    have hr : t.role ≠ .interpParam ∧ t.role ≠ .nodeCoords := by
      cases t <;> simp [Tree.noHidden] at h <;> simp [Tree.role, h.1]
    simp only [fnamesKids, follows_old_eq_new c t.role hr.1 hr.2, Tree.fnames_old_eq_new t h.1,
      fnamesKids_old_eq_new c rest h.2]
end

mutual
theorem Tree.orig_old_eq_new : ∀ t : Tree, t.noHidden = true → t.orig .old = t.orig .new
  | .leaf _ _, _ => rfl
  | .obj _ c _ kids, h => by
    simp only [Tree.noHidden, Bool.and_eq_true] at h
    simp only [Tree.orig]
    rw [origKids_old_eq_new c kids h.2]
theorem origKids_old_eq_new (c : Cls) : ∀ kids : List Tree, noHiddenKids kids = true →
    origKids .old c kids = origKids .new c kids
  | [], _ => rfl
  | t :: rest, h => by
    simp only [noHiddenKids, Bool.and_eq_true] at h
    have hr : t.role ≠ .interpParam ∧ t.role ≠ .nodeCoords := by
      cases t <;> simp [Tree.noHidden] at h <;> simp [Tree.role, h.1]
    simp only [origKids, follows_old_eq_new c t.role hr.1 hr.2, Tree.orig_old_eq_new t h.1,
      Tree.fnames_old_eq_new t h.1, origKids_old_eq_new c rest h.2]
end

/-! ## component-level histories keep the tree well typed -/

/-- a transformation that keeps role, class and well-typedness of the object it is applied to -/
structure Keeps (g : Tree → Tree) : Prop where
  role : ∀ t, (g t).role = t.role
  cls : ∀ t, (g t).cls? = t.cls?
  wt : ∀ t, t.wellTyped = true → (g t).wellTyped = true

mutual
theorem Tree.role_at (g : Tree → Tree) (hg : Keeps g) : ∀ (p : List Nat) (t : Tree), (Tree.at g p t).role = t.role
  | [], t => by simp only [Tree.at]; exact hg.role t
  | _ :: _, .leaf _ _ => rfl
  | _ :: _, .obj _ _ _ _ => rfl
end

theorem Tree.cls_at (g : Tree → Tree) (hg : Keeps g) : ∀ (p : List Nat) (t : Tree), (Tree.at g p t).cls? = t.cls?
  | [], t => by simp only [Tree.at]; exact hg.cls t
  | _ :: _, .leaf _ _ => rfl
  | _ :: _, .obj _ _ _ _ => rfl

mutual
theorem Tree.wellTyped_at (g : Tree → Tree) (hg : Keeps g) :
    ∀ (p : List Nat) (t : Tree), t.wellTyped = true → (Tree.at g p t).wellTyped = true
  | [], t, h => by simp only [Tree.at]; exact hg.wt t h
  | _ :: _, .leaf _ _, _ => rfl
  | i :: p, .obj _ c _ kids, h => by
    simp only [Tree.at, Tree.wellTyped]
    exact wellTypedKids_atKids g hg c i p kids (by simpa [Tree.wellTyped] using h)
theorem wellTypedKids_atKids (g : Tree → Tree) (hg : Keeps g) (c : Cls) :
    ∀ (i : Nat) (p : List Nat) (kids : List Tree), wellTypedKids c kids = true →
      wellTypedKids c (atKids g i p kids) = true
  | _, _, [], _ => rfl
  | 0, p, t :: rest, h => by
    simp only [wellTypedKids, Bool.and_eq_true] at h
    simp only [atKids, wellTypedKids, Bool.and_eq_true, Tree.role_at g hg p t, Tree.cls_at g hg p t]
    exact ⟨⟨h.1.1, Tree.wellTyped_at g hg p t h.1.2⟩, h.2⟩
  | i + 1, p, t :: rest, h => by
    simp only [wellTypedKids, Bool.and_eq_true] at h
    simp only [atKids, wellTypedKids, Bool.and_eq_true]
    exact ⟨h.1, wellTypedKids_atKids g hg c i p rest h.2⟩
end

theorem wellTypedKids_dropRole (c : Cls) (r : Role) : ∀ kids : List Tree, wellTypedKids c kids = true →
    wellTypedKids c (dropRole r kids) = true
  | [], _ => rfl
  | t :: rest, h => by
    simp only [wellTypedKids, Bool.and_eq_true] at h
    simp only [dropRole]
    split
    · exact wellTypedKids_dropRole c r rest h.2
    · simp only [wellTypedKids, Bool.and_eq_true]
      exact ⟨h.1, wellTypedKids_dropRole c r rest h.2⟩

theorem wellTypedKids_append (c : Cls) (s : Tree) (ha : allowed c s.role = true) (hk : kidFits s.role s.cls? = true)
    (hs : s.wellTyped = true) : ∀ kids : List Tree, wellTypedKids c kids = true → wellTypedKids c (kids ++ [s]) = true
  | [], _ => by simp [wellTypedKids, ha, hk, hs]
  | t :: rest, h => by
    simp only [wellTypedKids, Bool.and_eq_true] at h
    simp only [List.cons_append, wellTypedKids, Bool.and_eq_true]
    exact ⟨h.1, wellTypedKids_append c s ha hk hs rest h.2⟩

theorem keeps_setKid (s : Tree) (hs : s.wellTyped = true) : Keeps (Tree.setKid s) where
  role := by
    intro t
    cases t with
    | leaf r fs => rfl
    | obj r c own kids => simp only [Tree.setKid]; split <;> rfl
  cls := by
    intro t
    cases t with
    | leaf r fs => rfl
    | obj r c own kids => simp only [Tree.setKid]; split <;> rfl
  wt := by
    intro t h
    cases t with
    | leaf r fs => rfl
    | obj r c own kids =>
      simp only [Tree.wellTyped] at h
      simp only [Tree.setKid]
      split
      · rename_i hc
        simp only [Bool.and_eq_true] at hc
        simp only [Tree.wellTyped]
        split
        · exact wellTypedKids_append c s hc.1 hc.2 hs kids h
        · exact wellTypedKids_append c s hc.1 hc.2 hs _ (wellTypedKids_dropRole c s.role kids h)
      · simpa [Tree.wellTyped] using h

theorem keeps_delKid (r' : Role) : Keeps (Tree.delKid r') where
  role := by intro t; cases t <;> rfl
  cls := by intro t; cases t <;> rfl
  wt := by
    intro t h
    cases t with
    | leaf r fs => rfl
    | obj r c own kids =>
      simp only [Tree.wellTyped] at h
      simp only [Tree.delKid, Tree.wellTyped]
      exact wellTypedKids_dropRole c r' kids h

theorem keeps_toMem : Keeps Tree.toMem where
  role := Tree.role_toMem
  cls := Tree.cls_toMem
  wt := by intro t h; rw [Tree.wellTyped_toMem]; exact h

theorem keeps_forget : Keeps Tree.forget where
  role := by intro t; cases t <;> rfl
  cls := by intro t; cases t <;> rfl
  wt := by
    intro t h
    cases t with
    | leaf r fs => rfl
    | obj r c own kids => simpa [Tree.forget, Tree.wellTyped] using h

theorem Tree.wellTyped_step (t : Tree) (op : TOp) (h : t.wellTyped = true) : (t.step op).wellTyped = true := by
  cases op with
  | setKid p s =>
    simp only [Tree.step]
    split
    · rename_i hs; exact Tree.wellTyped_at _ (keeps_setKid s hs) p t h
    · exact h
  | delKid p r => exact Tree.wellTyped_at _ (keeps_delKid r) p t h
  | toMem p => exact Tree.wellTyped_at _ keeps_toMem p t h
  | forget p => exact Tree.wellTyped_at _ keeps_forget p t h

theorem Tree.wellTyped_run : ∀ (ops : List TOp) (t : Tree), t.wellTyped = true → (t.run ops).wellTyped = true
  | [], _, h => h
  | op :: ops, t, h => Tree.wellTyped_run ops (t.step op) (Tree.wellTyped_step t op h)

end Cfdm.FilesTree
