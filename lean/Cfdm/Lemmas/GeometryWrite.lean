import Cfdm.Model.GeometryWrite
import Cfdm.Lemmas.Geometry
/- Helper lemmas for the multi-field writer theorems of C14. -/
namespace Cfdm.GeometryWrite
open Cfdm.Geometry

/-- Variable `v` of the state holds exactly this content on these dimensions. -/
def HasVar (st : St) (v : Nat) (c : Content) (ds : List Nat) : Prop := st.vars[v]? = some ⟨c, ds⟩

/-- The writer only ever appends: variables keep their identifier, content and
dimensions; recorded encodings and coordinate → node variable links stay. -/
structure Ext (st st' : St) : Prop where
  vars : st.vars <+: st'.vars
  enc : ∀ nv e, lookup st.enc nv = some e → lookup st'.enc nv = some e
  bounds : ∀ cv nv, lookup st.bounds cv = some nv → lookup st'.bounds cv = some nv

theorem Ext.refl (st : St) : Ext st st := ⟨List.prefix_refl _, fun _ _ h => h, fun _ _ h => h⟩

theorem Ext.trans {a b c : St} (h1 : Ext a b) (h2 : Ext b c) : Ext a c :=
  ⟨List.IsPrefix.trans h1.vars h2.vars, fun nv e h => h2.enc nv e (h1.enc nv e h),
   fun cv nv h => h2.bounds cv nv (h1.bounds cv nv h)⟩

theorem HasVar.mono {st st' : St} (h : Ext st st') {v c ds} (hv : HasVar st v c ds) : HasVar st' v c ds := by
  obtain ⟨t, ht⟩ := h.vars
  unfold HasVar at *
  rw [← ht]
  have hlt : v < st.vars.length := (List.getElem?_eq_some_iff.mp hv).1
  rw [List.getElem?_append_left hlt]
  exact hv

theorem HasVar.inj {st : St} {v c ds c' ds'} (h : HasVar st v c ds) (h' : HasVar st v c' ds') : c = c' ∧ ds = ds' := by
  unfold HasVar at *
  rw [h] at h'
  cases h'
  exact ⟨rfl, rfl⟩

theorem HasVar.lt {st : St} {v c ds} (h : HasVar st v c ds) : v < st.vars.length := by
  exact (List.getElem?_eq_some_iff.mp h).1

/-! ### `_already_in_file` -/

theorem findVar_some {vars : List Var} {c : Content} {ds : List Nat} {v : Nat}
    (h : findVar vars c ds = some v) : vars[v]? = some ⟨c, ds⟩ := by
  unfold findVar at h
  have hlt := (List.findIdx?_eq_some_iff_getElem.mp h).1
  have hp := (List.findIdx?_eq_some_iff_getElem.mp h).2.1
  simp only [Bool.and_eq_true, beq_iff_eq] at hp
  rw [List.getElem?_eq_getElem hlt]
  congr 1
  cases hv : vars[v] with
  | mk c' ds' =>
    rw [hv] at hp
    simp only at hp
    rw [hp.1, hp.2]

theorem addVar_spec (st : St) (c : Content) (ds : List Nat) :
    Ext st (addVar st c ds).1 ∧ HasVar (addVar st c ds).1 (addVar st c ds).2 c ds
    ∧ (addVar st c ds).2 = st.vars.length
    ∧ (addVar st c ds).1.vars = st.vars ++ [⟨c, ds⟩]
    ∧ (addVar st c ds).1.enc = st.enc ∧ (addVar st c ds).1.bounds = st.bounds := by
  refine ⟨⟨?_, fun _ _ h => h, fun _ _ h => h⟩, ?_, rfl, rfl, rfl, rfl⟩
  · exact List.prefix_append _ _
  · simp [HasVar, addVar]

theorem findOrAdd_spec (st : St) (c : Content) (ds : List Nat) :
    Ext st (findOrAdd st c ds).1 ∧ HasVar (findOrAdd st c ds).1 (findOrAdd st c ds).2 c ds
    ∧ ((findOrAdd st c ds).1.vars = st.vars ∨ (findOrAdd st c ds).1.vars = st.vars ++ [⟨c, ds⟩])
    ∧ (findOrAdd st c ds).1.enc = st.enc ∧ (findOrAdd st c ds).1.bounds = st.bounds := by
  unfold findOrAdd
  cases h : findVar st.vars c ds with
  | some v =>
    exact ⟨Ext.refl st, findVar_some h, Or.inl rfl, rfl, rfl⟩
  | none =>
    obtain ⟨h1, h2, _, h4, h5, h6⟩ := addVar_spec st c ds
    exact ⟨h1, h2, Or.inr h4, h5, h6⟩

theorem roleDim_spec (st : St) (r : Role) (n : Nat) :
    (roleDim st r n).1.vars = st.vars ∧ (roleDim st r n).1.enc = st.enc ∧ (roleDim st r n).1.bounds = st.bounds := by
  unfold roleDim
  cases st.dims.findIdx? (fun d => d.role == r && d.size == n) <;> exact ⟨rfl, rfl, rfl⟩

theorem ext_of_eq {st st' : St} (h1 : st'.vars = st.vars) (h2 : st'.enc = st.enc) (h3 : st'.bounds = st.bounds) :
    Ext st st' :=
  ⟨by rw [h1]; exact List.prefix_refl _, fun nv e h => by rw [h2]; exact h, fun cv nv h => by rw [h3]; exact h⟩

/-! ### the encoding of one coordinate -/

/-- The part of an encoding that depends on parts and rings: `pnc` / `ringv` are
the part_node_count / interior_ring variables named (if any). -/
def PartsOf (st : St) (cs : Cells Int) (ring : Option (List (List Int))) (pnc ringv : Option Nat) : Prop :=
  if maxLen cs == 1 && ring.isNone then pnc = none ∧ ringv = none
  else ∃ pv pd, pnc = some pv ∧ HasVar st pv (Content.count (partNodeCount cs)) [pd]
      ∧ match ring with
        | none => ringv = none
        | some rs => ∃ rv, ringv = some rv ∧ HasVar st rv (Content.ring rs.flatten) [pd]

/-- `e` names the CF encoding of the cells `cs` with rings `ring` on the geometry dimension `cd`. -/
def EncOf (st : St) (cd : Nat) (cs : Cells Int) (ring : Option (List (List Int))) (e : Enc) : Prop :=
  e.geomDim = cd ∧ HasVar st e.nodeCount (Content.count (nodeCount cs)) [cd]
  ∧ PartsOf st cs ring e.partNodeCount e.ring

theorem PartsOf.mono {st st' : St} (h : Ext st st') {cs ring pnc ringv} (he : PartsOf st cs ring pnc ringv) :
    PartsOf st' cs ring pnc ringv := by
  unfold PartsOf at *
  split
  · rename_i hc; rw [if_pos hc] at he; exact he
  · rename_i hc
    rw [if_neg hc] at he
    obtain ⟨pv, pd, h1, h3, h4⟩ := he
    refine ⟨pv, pd, h1, h3.mono h, ?_⟩
    cases ring with
    | none => exact h4
    | some rs =>
      obtain ⟨rv, hr1, hr2⟩ := h4
      exact ⟨rv, hr1, hr2.mono h⟩

theorem EncOf.mono {st st' : St} (h : Ext st st') {cd cs ring e} (he : EncOf st cd cs ring e) :
    EncOf st' cd cs ring e :=
  ⟨he.1, he.2.1.mono h, he.2.2.mono h⟩

/-- The state only grew by count / ring variables (no node or coordinate variable, no
encoding, no link). -/
structure GrewByCounts (st st' : St) : Prop where
  ext : Ext st st'
  enc : st'.enc = st.enc
  bounds : st'.bounds = st.bounds
  new : ∀ v c ds, HasVar st' v c ds → HasVar st v c ds ∨
      (st.vars.length ≤ v ∧ ((∃ l, c = Content.count l) ∨ (∃ l, c = Content.ring l)))

theorem GrewByCounts.refl (st : St) : GrewByCounts st st :=
  ⟨Ext.refl st, rfl, rfl, fun _ _ _ h => Or.inl h⟩

theorem GrewByCounts.trans {a b c : St} (h1 : GrewByCounts a b) (h2 : GrewByCounts b c) : GrewByCounts a c := by
  refine ⟨h1.ext.trans h2.ext, by rw [h2.enc, h1.enc], by rw [h2.bounds, h1.bounds], ?_⟩
  intro v cc ds hv
  rcases h2.new v cc ds hv with h | ⟨hle, hk⟩
  · exact h1.new v cc ds h
  · right
    have := h1.ext.vars.length_le
    exact ⟨by omega, hk⟩

theorem grew_of_eq {st st' : St} (h1 : st'.vars = st.vars) (h2 : st'.enc = st.enc) (h3 : st'.bounds = st.bounds) :
    GrewByCounts st st' :=
  ⟨ext_of_eq h1 h2 h3, h2, h3, fun v c ds h => Or.inl (by unfold HasVar at *; rw [← h1]; exact h)⟩

theorem hasVar_append_single {vars : List Var} {x : Var} {v : Nat} {c : Content} {ds : List Nat}
    (hv : (vars ++ [x])[v]? = some ⟨c, ds⟩) : vars[v]? = some ⟨c, ds⟩ ∨ (v = vars.length ∧ x = ⟨c, ds⟩) := by
  by_cases hlt : v < vars.length
  · left
    rw [List.getElem?_append_left hlt] at hv
    exact hv
  · right
    have hlt' := (List.getElem?_eq_some_iff.mp hv).1
    simp only [List.length_append, List.length_cons, List.length_nil] at hlt'
    have hveq : v = vars.length := by omega
    subst hveq
    simp at hv
    exact ⟨rfl, hv⟩

theorem grew_findOrAdd (st : St) (c : Content) (ds : List Nat)
    (hk : (∃ l, c = Content.count l) ∨ (∃ l, c = Content.ring l)) :
    GrewByCounts st (findOrAdd st c ds).1 := by
  obtain ⟨h1, _, h3, h4, h5⟩ := findOrAdd_spec st c ds
  refine ⟨h1, h4, h5, ?_⟩
  intro v c' ds' hv
  rcases h3 with h3 | h3
  · left; unfold HasVar at *; rw [← h3]; exact hv
  · unfold HasVar at hv
    rw [h3] at hv
    rcases hasVar_append_single hv with h | ⟨hveq, hx⟩
    · exact Or.inl h
    · right
      refine ⟨by omega, ?_⟩
      have : c = c' := by cases hx; rfl
      rw [← this]
      exact hk

theorem grew_roleDim (st : St) (r : Role) (n : Nat) : GrewByCounts st (roleDim st r n).1 := by
  obtain ⟨h1, h2, h3⟩ := roleDim_spec st r n
  exact grew_of_eq h1 h2 h3

theorem grew_partDimFor (st : St) (gpart : Option Nat) (n : Nat) : GrewByCounts st (partDimFor st gpart n).1 := by
  unfold partDimFor
  cases gpart with
  | some pd => exact GrewByCounts.refl _
  | none => exact grew_roleDim _ _ _

/-- `_write_node_count` + `_write_part_node_count` + `_write_interior_ring`: the
encoding returned names the CF encoding of the coordinate's own cells. -/
theorem writeCounts_spec (st : St) (cd : Nat) (gpart : Option Nat) (c : CoordIn) :
    GrewByCounts st (writeCounts st cd gpart c).1
    ∧ EncOf (writeCounts st cd gpart c).1 cd c.cells c.ring (writeCounts st cd gpart c).2.2 := by
  have g1 := grew_findOrAdd st (Content.count (nodeCount c.cells)) [cd] (Or.inl ⟨_, rfl⟩)
  have v1 := (findOrAdd_spec st (Content.count (nodeCount c.cells)) [cd]).2.1
  unfold writeCounts
  simp only []
  generalize findOrAdd st (Content.count (nodeCount c.cells)) [cd] = r1 at g1 v1 ⊢
  by_cases hc : (maxLen c.cells == 1 && c.ring.isNone) = true
  · rw [if_pos hc]
    refine ⟨g1, rfl, v1, ?_⟩
    unfold PartsOf
    rw [if_pos hc]
    exact ⟨rfl, rfl⟩
  · rw [if_neg hc]
    have g2 := grew_partDimFor r1.1 gpart (partNodeCount c.cells).length
    generalize partDimFor r1.1 gpart (partNodeCount c.cells).length = r2 at g2 ⊢
    have g3 := grew_findOrAdd r2.1 (Content.count (partNodeCount c.cells)) [r2.2] (Or.inl ⟨_, rfl⟩)
    have v3 := (findOrAdd_spec r2.1 (Content.count (partNodeCount c.cells)) [r2.2]).2.1
    generalize findOrAdd r2.1 (Content.count (partNodeCount c.cells)) [r2.2] = r3 at g3 v3 ⊢
    cases hr : c.ring with
    | none =>
      simp only []
      refine ⟨g1.trans (g2.trans g3), rfl, v1.mono (g2.trans g3).ext, ?_⟩
      unfold PartsOf
      rw [hr] at hc
      rw [if_neg hc]
      exact ⟨r3.2, r2.2, rfl, v3, rfl⟩
    | some rs =>
      simp only []
      have g4 := grew_findOrAdd r3.1 (Content.ring rs.flatten) [r2.2] (Or.inr ⟨_, rfl⟩)
      have v4 := (findOrAdd_spec r3.1 (Content.ring rs.flatten) [r2.2]).2.1
      generalize findOrAdd r3.1 (Content.ring rs.flatten) [r2.2] = r4 at g4 v4 ⊢
      refine ⟨g1.trans (g2.trans (g3.trans g4)), rfl, v1.mono (g2.trans (g3.trans g4)).ext, ?_⟩
      unfold PartsOf
      rw [hr] at hc
      rw [if_neg hc]
      exact ⟨r3.2, r2.2, rfl, v3.mono g4.ext, r4.2, rfl, v4⟩

/-! ### the invariant of the write state -/

/-- The node coordinate variable `nv` holds the nodes of the coordinate in file order. -/
def NodesOK (st : St) (nv : Nat) (c : CoordIn) : Prop :=
  ∃ nd, HasVar st nv (Content.nodes (nodesOf c.cells) c.props) [nd]

theorem NodesOK.mono {st st' : St} (h : Ext st st') {nv c} (hn : NodesOK st nv c) : NodesOK st' nv c := by
  obtain ⟨nd, hv⟩ := hn
  exact ⟨nd, hv.mono h⟩

structure Inv (st : St) : Prop where
  encLt : ∀ p ∈ st.enc, p.1 < st.vars.length
  boundsLt : ∀ p ∈ st.bounds, p.1 < st.vars.length
  /-- every coordinate variable in the dataset is linked to a node coordinate variable whose
  recorded encoding is that of the coordinate's own cells, on the coordinate's own dimension -/
  coordOK : ∀ cv g c d, HasVar st cv (Content.coord g c) [d] →
      ∃ nv e, lookup st.bounds cv = some nv ∧ lookup st.enc nv = some e ∧ NodesOK st nv c
        ∧ EncOf st d c.cells c.ring e

theorem inv_empty : Inv St.empty := by
  refine ⟨?_, ?_, ?_⟩
  · intro p hp; cases hp
  · intro p hp; cases hp
  · intro cv g c d h
    simp [HasVar, St.empty] at h

theorem inv_grew {st st' : St} (hi : Inv st) (g : GrewByCounts st st') : Inv st' := by
  have hlen := g.ext.vars.length_le
  refine ⟨?_, ?_, ?_⟩
  · intro p hp; rw [g.enc] at hp; have := hi.encLt p hp; omega
  · intro p hp; rw [g.bounds] at hp; have := hi.boundsLt p hp; omega
  · intro cv gt c d h
    rcases g.new cv _ _ h with h0 | ⟨_, hk⟩
    · obtain ⟨nv, e, h1, h2, h3, h4⟩ := hi.coordOK cv gt c d h0
      exact ⟨nv, e, g.ext.bounds _ _ h1, g.ext.enc _ _ h2, h3.mono g.ext, h4.mono g.ext⟩
    · rcases hk with ⟨l, hl⟩ | ⟨l, hl⟩ <;> cases hl

theorem lookup_append_left {β} (l x : List (Nat × β)) (k : Nat) (v : β) (h : lookup l k = some v) :
    lookup (l ++ x) k = some v := by
  unfold lookup at *
  rw [List.find?_append]
  cases hf : l.find? (fun p => p.1 == k) with
  | none => rw [hf] at h; cases h
  | some p => rw [hf] at h; simpa using h

theorem lookup_append_new {β} (l : List (Nat × β)) (k : Nat) (v : β) (h : ∀ p ∈ l, p.1 ≠ k) :
    lookup (l ++ [(k, v)]) k = some v := by
  unfold lookup
  rw [List.find?_append]
  have : l.find? (fun p => p.1 == k) = none := by
    rw [List.find?_eq_none]
    intro p hp
    simpa using h p hp
  rw [this]
  simp

/-- A new node coordinate variable with its encoding. -/
theorem newNodes_spec (st : St) (hi : Inv st) (vals : List Int) (props nd : Nat) (e : Enc) :
    Ext st (newNodes st (Content.nodes vals props) nd e).1
    ∧ Inv (newNodes st (Content.nodes vals props) nd e).1
    ∧ HasVar (newNodes st (Content.nodes vals props) nd e).1 (newNodes st (Content.nodes vals props) nd e).2
        (Content.nodes vals props) [nd]
    ∧ lookup (newNodes st (Content.nodes vals props) nd e).1.enc (newNodes st (Content.nodes vals props) nd e).2 = some e := by
  have hext : Ext st (newNodes st (Content.nodes vals props) nd e).1 := by
    refine ⟨?_, ?_, ?_⟩
    · simp only [newNodes, addVar]; exact List.prefix_append _ _
    · intro nv e' h; simp only [newNodes]; exact lookup_append_left _ _ _ _ h
    · intro cv nv h; simp only [newNodes, addVar]; exact h
  have hv : HasVar (newNodes st (Content.nodes vals props) nd e).1 (newNodes st (Content.nodes vals props) nd e).2
      (Content.nodes vals props) [nd] := by
    simp [HasVar, newNodes, addVar]
  refine ⟨hext, ?_, hv, ?_⟩
  · refine ⟨?_, ?_, ?_⟩
    · intro p hp
      simp only [newNodes, addVar, List.mem_append, List.mem_singleton, List.length_append, List.length_cons,
        List.length_nil] at hp ⊢
      rcases hp with hp | hp
      · have := hi.encLt p hp; omega
      · rw [hp]; simp
    · intro p hp
      simp only [newNodes, addVar, List.length_append, List.length_cons, List.length_nil] at hp ⊢
      have := hi.boundsLt p hp; omega
    · intro cv g c d h
      have h' : (st.vars ++ [⟨Content.nodes vals props, [nd]⟩])[cv]? = some ⟨Content.coord g c, [d]⟩ := by
        simpa [HasVar, newNodes, addVar] using h
      rcases hasVar_append_single h' with h0 | ⟨_, hx⟩
      · obtain ⟨nv, e', h1, h2, h3, h4⟩ := hi.coordOK cv g c d h0
        exact ⟨nv, e', hext.bounds _ _ h1, hext.enc _ _ h2, h3.mono hext, h4.mono hext⟩
      · cases hx
  · simp only [newNodes]
    apply lookup_append_new
    intro p hp
    have := hi.encLt p hp
    omega

/-- What the writer establishes for one coordinate: its node coordinate variable holds its
nodes and the encoding recorded for that variable is that of its own cells. -/
def CoordDone (st : St) (cd : Nat) (c : CoordIn) (nv : Nat) : Prop :=
  NodesOK st nv c ∧ ∃ e, lookup st.enc nv = some e ∧ EncOf st cd c.cells c.ring e

theorem CoordDone.mono {st st' : St} (h : Ext st st') {cd c nv} (hd : CoordDone st cd c nv) :
    CoordDone st' cd c nv := by
  obtain ⟨h1, e, h2, h3⟩ := hd
  exact ⟨h1.mono h, e, h.enc _ _ h2, h3.mono h⟩

/-- `_write_node_coordinates` (with the proposed repair). -/
theorem writeNodes_spec (st : St) (hi : Inv st) (cd : Nat) (gpart : Option Nat) (c : CoordIn) :
    Ext st (writeNodes true st cd gpart c).1 ∧ Inv (writeNodes true st cd gpart c).1
    ∧ CoordDone (writeNodes true st cd gpart c).1 cd c (writeNodes true st cd gpart c).2.2 := by
  have g0 := grew_roleDim st Role.node (nodesOf c.cells).length
  unfold writeNodes
  simp only [if_true]
  generalize roleDim st Role.node (nodesOf c.cells).length = r0 at g0 ⊢
  have hs := writeCounts_spec r0.1 cd gpart c
  generalize writeCounts r0.1 cd gpart c = r1 at hs ⊢
  obtain ⟨g1, he⟩ := hs
  have hi1 : Inv r1.1 := inv_grew (inv_grew hi g0) g1
  have hx1 : Ext st r1.1 := g0.ext.trans g1.ext
  have hnew := newNodes_spec r1.1 hi1 (nodesOf c.cells) c.props r0.2 r1.2.2
  cases hf : findVar r1.1.vars (Content.nodes (nodesOf c.cells) c.props) [r0.2] with
  | some nv =>
    simp only []
    by_cases heq : (lookup r1.1.enc nv == some r1.2.2) = true
    · rw [if_pos heq]
      simp only []
      have heq' : lookup r1.1.enc nv = some r1.2.2 := by simpa using heq
      exact ⟨hx1, hi1, ⟨r0.2, findVar_some hf⟩, r1.2.2, heq', he⟩
    · rw [if_neg heq]
      simp only []
      obtain ⟨hx, hiv, hv, hl⟩ := hnew
      exact ⟨hx1.trans hx, hiv, ⟨r0.2, hv⟩, r1.2.2, hl, he.mono hx⟩
  | none =>
    simp only []
    obtain ⟨hx, hiv, hv, hl⟩ := hnew
    exact ⟨hx1.trans hx, hiv, ⟨r0.2, hv⟩, r1.2.2, hl, he.mono hx⟩

theorem wholeCoord_some {gtype : Nat} {st : St} {cd : Nat} {c : CoordIn} {nv cv : Nat}
    (h : wholeCoord gtype st cd c = some (nv, cv)) :
    HasVar st cv (Content.coord gtype c) [cd] ∧ lookup st.bounds cv = some nv := by
  unfold wholeCoord at h
  split at h
  · cases hf : findVar st.vars (Content.coord gtype c) [cd] with
    | none => rw [hf] at h; cases h
    | some cv' =>
      rw [hf] at h
      simp only [] at h
      cases hl : lookup st.bounds cv' with
      | none => rw [hl] at h; cases h
      | some nv' =>
        rw [hl] at h
        simp only [Option.map_some, Option.some.injEq, Prod.mk.injEq] at h
        obtain ⟨h1, h2⟩ := h
        subst h1 h2
        exact ⟨findVar_some hf, hl⟩
  · cases h

/-- `_write_auxiliary_coordinate` for a geometry coordinate (with the proposed repair). -/
theorem writeCoord_spec (gtype : Nat) (st : St) (hi : Inv st) (cd : Nat) (gpart : Option Nat) (c : CoordIn) :
    Ext st (writeCoord true gtype st cd gpart c).1 ∧ Inv (writeCoord true gtype st cd gpart c).1
    ∧ CoordDone (writeCoord true gtype st cd gpart c).1 cd c (writeCoord true gtype st cd gpart c).2.2.1 := by
  unfold writeCoord
  cases hw : wholeCoord gtype st cd c with
  | some p =>
    obtain ⟨nv, cv⟩ := p
    simp only []
    obtain ⟨hv, hl⟩ := wholeCoord_some hw
    obtain ⟨nv', e, h1, h2, h3, h4⟩ := hi.coordOK cv gtype c cd hv
    rw [hl] at h1
    cases h1
    exact ⟨Ext.refl st, hi, h3, e, h2, h4⟩
  | none =>
    simp only []
    have hs := writeNodes_spec st hi cd gpart c
    generalize writeNodes true st cd gpart c = r at hs ⊢
    obtain ⟨hx, hir, hd⟩ := hs
    by_cases hrep : c.rep.isSome = true
    · rw [if_pos hrep]
      simp only []
      -- the state after adding the coordinate variable and its link
      have hext : Ext r.1 ({ (addVar r.1 (Content.coord gtype c) [cd]).1 with
          bounds := r.1.bounds ++ [((addVar r.1 (Content.coord gtype c) [cd]).2, r.2.2)] } : St) := by
        refine ⟨?_, ?_, ?_⟩
        · simp only [addVar]; exact List.prefix_append _ _
        · intro nv e h; simp only [addVar]; exact h
        · intro cv nv h; simp only []; exact lookup_append_left _ _ _ _ h
      refine ⟨hx.trans hext, ?_, hd.mono hext⟩
      refine ⟨?_, ?_, ?_⟩
      · intro p hp
        simp only [addVar, List.length_append, List.length_cons, List.length_nil] at hp ⊢
        have := hir.encLt p hp; omega
      · intro p hp
        simp only [addVar, List.mem_append, List.mem_singleton, List.length_append, List.length_cons,
          List.length_nil] at hp ⊢
        rcases hp with hp | hp
        · have := hir.boundsLt p hp; omega
        · rw [hp]; simp
      · intro cv g c' d h
        have h' : (r.1.vars ++ [⟨Content.coord gtype c, [cd]⟩])[cv]? = some ⟨Content.coord g c', [d]⟩ := by
          simpa [HasVar, addVar] using h
        rcases hasVar_append_single h' with h0 | ⟨hcv, hxx⟩
        · obtain ⟨nv, e', h1, h2, h3, h4⟩ := hir.coordOK cv g c' d h0
          exact ⟨nv, e', hext.bounds _ _ h1, hext.enc _ _ h2, h3.mono hext, h4.mono hext⟩
        · cases hxx
          obtain ⟨hn, e, hl, he⟩ := hd
          refine ⟨r.2.2, e, ?_, hext.enc _ _ hl, hn.mono hext, he.mono hext⟩
          simp only [addVar]
          rw [hcv]
          apply lookup_append_new
          intro p hp
          have := hir.boundsLt p hp
          omega
    · rw [if_neg hrep]
      simp only []
      exact ⟨hx, hir, hd⟩

/-- Pairing of the coordinates of a field with what the writer reports for them. -/
def AllDone (st : St) (cd : Nat) : List CoordIn → List (Nat × Nat × Option Nat) → Prop
  | [], [] => True
  | c :: cs, p :: ps => CoordDone st cd c p.2.1 ∧ AllDone st cd cs ps
  | _, _ => False

theorem AllDone.mono {st st' : St} (h : Ext st st') {cd : Nat} : ∀ {cs ps}, AllDone st cd cs ps → AllDone st' cd cs ps
  | [], [], _ => trivial
  | _ :: _, _ :: _, ⟨h1, h2⟩ => ⟨h1.mono h, AllDone.mono h h2⟩
  | [], _ :: _, hf => hf.elim
  | _ :: _, [], hf => hf.elim

theorem AllDone.of_coord {st : St} {cd : Nat} : ∀ {cs ps}, AllDone st cd cs ps →
    ∀ c ∈ cs, ∃ p ∈ ps, CoordDone st cd c p.2.1
  | [], [], _ => by intro c hc; cases hc
  | c0 :: cs, p0 :: ps, ⟨h1, h2⟩ => by
    intro c hc
    rcases List.mem_cons.mp hc with rfl | hc
    · exact ⟨p0, by simp, h1⟩
    · obtain ⟨p, hp, hd⟩ := AllDone.of_coord h2 c hc
      exact ⟨p, by simp [hp], hd⟩
  | [], _ :: _, hf => hf.elim
  | _ :: _, [], hf => hf.elim

theorem AllDone.of_per {st : St} {cd : Nat} : ∀ {cs ps}, AllDone st cd cs ps →
    ∀ p ∈ ps, ∃ c ∈ cs, CoordDone st cd c p.2.1
  | [], [], _ => by intro p hp; cases hp
  | c0 :: cs, p0 :: ps, ⟨h1, h2⟩ => by
    intro p hp
    rcases List.mem_cons.mp hp with rfl | hp
    · exact ⟨c0, by simp, h1⟩
    · obtain ⟨c, hc, hd⟩ := AllDone.of_per h2 p hp
      exact ⟨c, by simp [hc], hd⟩
  | [], _ :: _, hf => hf.elim
  | _ :: _, [], hf => hf.elim

/-- All coordinates of a field. -/
theorem writeCoords_spec (gtype cd : Nat) : ∀ (cs : List CoordIn) (st : St) (gpart : Option Nat), Inv st →
    Ext st (writeCoords true gtype cd st gpart cs).1 ∧ Inv (writeCoords true gtype cd st gpart cs).1
    ∧ AllDone (writeCoords true gtype cd st gpart cs).1 cd cs (writeCoords true gtype cd st gpart cs).2 := by
  intro cs
  induction cs with
  | nil =>
    intro st gpart hi
    exact ⟨Ext.refl st, hi, trivial⟩
  | cons c cs ih =>
    intro st gpart hi
    unfold writeCoords
    simp only []
    have hs := writeCoord_spec gtype st hi cd gpart c
    generalize writeCoord true gtype st cd gpart c = r at hs ⊢
    obtain ⟨hx, hir, hd⟩ := hs
    have hrest := ih r.1 r.2.1 hir
    generalize writeCoords true gtype cd r.1 r.2.1 cs = rest at hrest ⊢
    obtain ⟨hx2, hi2, hall⟩ := hrest
    exact ⟨hx.trans hx2, hi2, hd.mono hx2, hall⟩

/-! ### the container -/

theorem mem_dedup {β} [BEq β] [LawfulBEq β] (l : List β) (y : β) : y ∈ dedup l ↔ y ∈ l := by
  induction l with
  | nil => simp [dedup]
  | cons x xs ih =>
    simp only [dedup, List.mem_cons, List.mem_filter, ih]
    constructor
    · intro h
      rcases h with h | ⟨h, _⟩
      · exact Or.inl h
      · exact Or.inr h
    · intro h
      rcases h with h | h
      · exact Or.inl h
      · by_cases hyx : y = x
        · exact Or.inl hyx
        · exact Or.inr ⟨h, by simpa using hyx⟩

theorem mem_insertNat (x y : Nat) (l : List Nat) : y ∈ insertNat x l ↔ y = x ∨ y ∈ l := by
  induction l with
  | nil => simp [insertNat]
  | cons z zs ih =>
    simp only [insertNat]
    split
    · simp
    · simp only [List.mem_cons, ih]
      constructor
      · intro h; rcases h with h | h | h
        · exact Or.inr (Or.inl h)
        · exact Or.inl h
        · exact Or.inr (Or.inr h)
      · intro h; rcases h with h | h | h
        · exact Or.inr (Or.inl h)
        · exact Or.inl h
        · exact Or.inr (Or.inr h)

theorem mem_asSet (l : List Nat) (y : Nat) : y ∈ asSet l ↔ y ∈ l := by
  unfold asSet
  rw [← mem_dedup l y]
  generalize dedup l = d
  induction d with
  | nil => simp
  | cons x xs ih => simp only [List.foldr_cons, mem_insertNat, ih, List.mem_cons]

theorem dedup_singleton {β} [BEq β] [LawfulBEq β] {l : List β} {x : β} (h : dedup l = [x]) : ∀ y ∈ l, y = x := by
  intro y hy
  have := (mem_dedup l y).mpr hy
  rw [h] at this
  simpa using this

theorem dedup_head {β} [BEq β] [LawfulBEq β] {l : List β} (h : ¬ (dedup l).length > 1) :
    (∀ y ∈ l, (dedup l).head? = some y) ∧ (∀ y, (dedup l).head? = some y → y ∈ l) := by
  cases hd : dedup l with
  | nil =>
    refine ⟨?_, by intro y hy; cases hy⟩
    intro y hy
    have := (mem_dedup l y).mpr hy
    rw [hd] at this
    cases this
  | cons x xs =>
    rw [hd] at h
    have hxs : xs = [] := by
      cases xs with
      | nil => rfl
      | cons _ _ => simp at h
    subst hxs
    refine ⟨?_, ?_⟩
    · intro y hy
      have := dedup_singleton hd y hy
      simp [this]
    · intro y hy
      simp only [List.head?_cons, Option.some.injEq] at hy
      subst hy
      exact (mem_dedup l x).mp (by rw [hd]; simp)

/-- What `_create_geometry_container` guarantees when it does not raise. -/
theorem containerOf_some {st : St} {f : FieldIn} {per : List (Nat × Nat × Option Nat)} {cont : Container}
    (h : containerOf st f per = some cont) :
    cont.nodes = asSet (per.map (·.2.1))
    ∧ (∀ p ∈ per, ∀ e, lookup st.enc p.2.1 = some e →
        e.nodeCount = cont.nodeCount
        ∧ (∀ pv, e.partNodeCount = some pv → cont.partNodeCount = some pv)
        ∧ (∀ rv, e.ring = some rv → cont.ring = some rv))
    ∧ (∀ pv, cont.partNodeCount = some pv → ∃ p ∈ per, ∃ e, lookup st.enc p.2.1 = some e ∧ e.partNodeCount = some pv)
    ∧ (∀ rv, cont.ring = some rv → ∃ p ∈ per, ∃ e, lookup st.enc p.2.1 = some e ∧ e.ring = some rv) := by
  unfold containerOf at h
  simp only [] at h
  generalize hencs : per.filterMap (fun p => lookup st.enc p.2.1) = encs at h
  have hmem : ∀ p ∈ per, ∀ e, lookup st.enc p.2.1 = some e → e ∈ encs := by
    intro p hp e he
    rw [← hencs]
    exact List.mem_filterMap.mpr ⟨p, hp, he⟩
  have hmem' : ∀ e ∈ encs, ∃ p ∈ per, lookup st.enc p.2.1 = some e := by
    intro e he
    rw [← hencs] at he
    obtain ⟨p, hp, hpe⟩ := List.mem_filterMap.mp he
    exact ⟨p, hp, hpe⟩
  cases hnc : dedup (encs.map (·.nodeCount)) with
  | nil => rw [hnc] at h; cases h
  | cons nc rest =>
    cases rest with
    | cons _ _ => rw [hnc] at h; cases h
    | nil =>
      rw [hnc] at h
      simp only [] at h
      by_cases hlen : ((dedup (encs.filterMap (·.partNodeCount))).length > 1
          || (dedup (encs.filterMap (·.ring))).length > 1) = true
      · rw [if_pos hlen] at h; cases h
      · rw [if_neg hlen] at h
        simp only [Bool.or_eq_true, decide_eq_true_eq, not_or] at hlen
        obtain ⟨hp1, hr1⟩ := hlen
        obtain ⟨hpa, hpb⟩ := dedup_head hp1
        obtain ⟨hra, hrb⟩ := dedup_head hr1
        cases h
        refine ⟨rfl, ?_, ?_, ?_⟩
        · intro p hp e he
          have hin := hmem p hp e he
          refine ⟨?_, ?_, ?_⟩
          · exact dedup_singleton hnc e.nodeCount (List.mem_map.mpr ⟨e, hin, rfl⟩)
          · intro pv hpv
            exact hpa pv (List.mem_filterMap.mpr ⟨e, hin, hpv⟩)
          · intro rv hrv
            exact hra rv (List.mem_filterMap.mpr ⟨e, hin, hrv⟩)
        · intro pv hpv
          obtain ⟨e, he, hep⟩ := List.mem_filterMap.mp (hpb pv hpv)
          obtain ⟨p, hp, hpe⟩ := hmem' e he
          exact ⟨p, hp, e, hpe, hep⟩
        · intro rv hrv
          obtain ⟨e, he, hep⟩ := List.mem_filterMap.mp (hrb rv hrv)
          obtain ⟨p, hp, hpe⟩ := hmem' e he
          exact ⟨p, hp, e, hpe, hep⟩

theorem cellDim_spec (st : St) (f : FieldIn) (n : Nat) :
    (cellDim st f n).1.vars = st.vars ∧ (cellDim st f n).1.enc = st.enc ∧ (cellDim st f n).1.bounds = st.bounds := by
  unfold cellDim
  simp only []
  split
  · exact ⟨rfl, rfl, rfl⟩
  · split
    · split <;> exact ⟨rfl, rfl, rfl⟩
    · exact ⟨rfl, rfl, rfl⟩

theorem addContainer_spec (st : St) (cont : Container) :
    (addContainer st cont).1.vars = st.vars ∧ (addContainer st cont).1.enc = st.enc
    ∧ (addContainer st cont).1.bounds = st.bounds := by
  unfold addContainer
  split <;> exact ⟨rfl, rfl, rfl⟩

theorem inv_of_eq {st st' : St} (hi : Inv st) (h1 : st'.vars = st.vars) (h2 : st'.enc = st.enc)
    (h3 : st'.bounds = st.bounds) : Inv st' :=
  inv_grew hi (grew_of_eq h1 h2 h3)

/-- The geometry coordinates of a field are of one kind: all or none of them need a
part_node_count variable, all or none have interior rings. -/
def SameKind (f : FieldIn) : Prop :=
  ∀ c1 ∈ f.coords, ∀ c2 ∈ f.coords,
    (maxLen c1.cells == 1 && c1.ring.isNone) = (maxLen c2.cells == 1 && c2.ring.isNone)
    ∧ c1.ring.isSome = c2.ring.isSome

instance (f : FieldIn) : Decidable (SameKind f) := by
  unfold SameKind
  exact inferInstance

/-- The container of a field holds the CF encoding of the coordinate `c` (in state `st`). -/
def ContainerEncodes (st : St) (cell : Nat) (cont : Container) (c : CoordIn) : Prop :=
  (∃ nv ∈ cont.nodes, NodesOK st nv c)
  ∧ HasVar st cont.nodeCount (Content.count (nodeCount c.cells)) [cell]
  ∧ PartsOf st c.cells c.ring cont.partNodeCount cont.ring

theorem ContainerEncodes.mono {st st' : St} (h : Ext st st') {cell cont c} (hc : ContainerEncodes st cell cont c) :
    ContainerEncodes st' cell cont c := by
  obtain ⟨⟨nv, hnv, hn⟩, h2, h3⟩ := hc
  exact ⟨⟨nv, hnv, hn.mono h⟩, h2.mono h, h3.mono h⟩

/-- One field: whatever was written before, the container that the field's data variable
references holds the CF encoding of each of the field's own coordinates. -/
theorem writeField_spec (st : St) (hi : Inv st) (f : FieldIn) (hk : SameKind f) (st' : St) (o : FieldOut)
    (h : writeField true st f = some (st', o)) :
    Ext st st' ∧ Inv st' ∧ ∀ c ∈ f.coords, ContainerEncodes st' o.cell o.container c := by
  unfold writeField at h
  simp only [] at h
  have hc0 := cellDim_spec st f (cellsSize f)
  generalize cellDim st f (cellsSize f) = r0 at hc0 h
  have hi0 : Inv r0.1 := inv_of_eq hi hc0.1 hc0.2.1 hc0.2.2
  have hx0 : Ext st r0.1 := ext_of_eq hc0.1 hc0.2.1 hc0.2.2
  have hs := writeCoords_spec f.gtype r0.2 f.coords r0.1 none hi0
  generalize writeCoords true f.gtype r0.2 r0.1 none f.coords = r1 at hs h
  obtain ⟨hx1, hi1, hall⟩ := hs
  cases hco : containerOf r1.1 f r1.2 with
  | none => rw [hco] at h; cases h
  | some cont =>
    rw [hco] at h
    simp only [Option.some.injEq, Prod.mk.injEq] at h
    obtain ⟨hst, ho⟩ := h
    have ha := addContainer_spec r1.1 cont
    rw [hst] at ha
    have hx2 : Ext r1.1 st' := ext_of_eq ha.1 ha.2.1 ha.2.2
    refine ⟨hx0.trans (hx1.trans hx2), inv_of_eq hi1 ha.1 ha.2.1 ha.2.2, ?_⟩
    intro c hc
    rw [← ho]
    simp only []
    apply ContainerEncodes.mono hx2
    obtain ⟨hnodes, hper, hpnc, hring⟩ := containerOf_some hco
    obtain ⟨p, hp, hn, e, hl, hgd, hncv, hparts⟩ := hall.of_coord c hc
    obtain ⟨h1, h2, h3⟩ := hper p hp e hl
    refine ⟨⟨p.2.1, ?_, hn⟩, ?_, ?_⟩
    · rw [hnodes, mem_asSet]
      exact List.mem_map.mpr ⟨p, hp, rfl⟩
    · rw [← h1]; exact hncv
    · -- parts and rings
      unfold PartsOf at hparts ⊢
      by_cases hcond : (maxLen c.cells == 1 && c.ring.isNone) = true
      · rw [if_pos hcond] at hparts ⊢
        constructor
        · cases hcp : cont.partNodeCount with
          | none => rfl
          | some pv =>
            exfalso
            obtain ⟨p', hp', e', hl', he'⟩ := hpnc pv hcp
            obtain ⟨c', hc', _, e'', hl'', _, _, hparts'⟩ := hall.of_per p' hp'
            rw [hl'] at hl''
            cases hl''
            unfold PartsOf at hparts'
            rw [if_pos (by rw [← (hk c hc c' hc').1]; exact hcond)] at hparts'
            rw [hparts'.1] at he'
            cases he'
        · cases hcr : cont.ring with
          | none => rfl
          | some rv =>
            exfalso
            obtain ⟨p', hp', e', hl', he'⟩ := hring rv hcr
            obtain ⟨c', hc', _, e'', hl'', _, _, hparts'⟩ := hall.of_per p' hp'
            rw [hl'] at hl''
            cases hl''
            unfold PartsOf at hparts'
            rw [if_pos (by rw [← (hk c hc c' hc').1]; exact hcond)] at hparts'
            rw [hparts'.2] at he'
            cases he'
      · rw [if_neg hcond] at hparts ⊢
        obtain ⟨pv, pd, hpv, hpvar, hrest⟩ := hparts
        refine ⟨pv, pd, h2 pv hpv, hpvar, ?_⟩
        cases hr : c.ring with
        | none =>
          rw [hr] at hrest
          simp only [] at hrest ⊢
          cases hcr : cont.ring with
          | none => rfl
          | some rv =>
            exfalso
            obtain ⟨p', hp', e', hl', he'⟩ := hring rv hcr
            obtain ⟨c', hc', _, e'', hl'', _, _, hparts'⟩ := hall.of_per p' hp'
            rw [hl'] at hl''
            cases hl''
            unfold PartsOf at hparts'
            have hcond' : ¬ (maxLen c'.cells == 1 && c'.ring.isNone) = true := by
              rw [← (hk c hc c' hc').1]; exact hcond
            rw [if_neg hcond'] at hparts'
            obtain ⟨_, _, _, _, hrest'⟩ := hparts'
            have hsome : c'.ring.isSome = false := by
              rw [← (hk c hc c' hc').2, hr]; rfl
            cases hr' : c'.ring with
            | none =>
              rw [hr'] at hrest'
              simp only [] at hrest'
              rw [hrest'] at he'
              cases he'
            | some _ => rw [hr'] at hsome; cases hsome
        | some rs =>
          rw [hr] at hrest
          simp only [] at hrest ⊢
          obtain ⟨rv, hrv, hrvar⟩ := hrest
          exact ⟨rv, h3 rv hrv, hrvar⟩

/-- Pairing of the fields of a write with what the writer reports for them. -/
def AllFields (st : St) : List FieldIn → List FieldOut → Prop
  | [], [] => True
  | f :: fs, o :: os => (∀ c ∈ f.coords, ContainerEncodes st o.cell o.container c) ∧ AllFields st fs os
  | _, _ => False

theorem AllFields.mono {st st' : St} (h : Ext st st') : ∀ {fs os}, AllFields st fs os → AllFields st' fs os
  | [], [], _ => trivial
  | _ :: _, _ :: _, ⟨h1, h2⟩ => ⟨fun c hc => (h1 c hc).mono h, AllFields.mono h h2⟩
  | [], _ :: _, hf => hf.elim
  | _ :: _, [], hf => hf.elim

/-- The whole write, from any state that satisfies the invariant. -/
theorem writeAll_spec : ∀ (fs : List FieldIn) (st : St), Inv st → (∀ f ∈ fs, SameKind f) →
    ∀ (st' : St) (outs : List FieldOut), writeAll true st fs = some (st', outs) →
      Ext st st' ∧ Inv st' ∧ AllFields st' fs outs := by
  intro fs
  induction fs with
  | nil =>
    intro st hi _ st' outs h
    simp only [writeAll, Option.some.injEq, Prod.mk.injEq] at h
    obtain ⟨h1, h2⟩ := h
    subst h1 h2
    exact ⟨Ext.refl _, hi, trivial⟩
  | cons f fs ih =>
    intro st hi hk st' outs h
    unfold writeAll at h
    cases hf : writeField true st f with
    | none => rw [hf] at h; cases h
    | some r =>
      obtain ⟨st1, o⟩ := r
      rw [hf] at h
      simp only [] at h
      obtain ⟨hx1, hi1, hc1⟩ := writeField_spec st hi f (hk f (by simp)) st1 o hf
      cases hrest : writeAll true st1 fs with
      | none => rw [hrest] at h; cases h
      | some r2 =>
        obtain ⟨st2, os⟩ := r2
        rw [hrest] at h
        simp only [Option.some.injEq, Prod.mk.injEq] at h
        obtain ⟨h1, h2⟩ := h
        subst h1 h2
        obtain ⟨hx2, hi2, hall⟩ := ih st1 hi1 (fun f' hf' => hk f' (by simp [hf'])) st2 os hrest
        exact ⟨hx1.trans hx2, hi2, fun c hc => (hc1 c hc).mono hx2, hall⟩

end Cfdm.GeometryWrite
