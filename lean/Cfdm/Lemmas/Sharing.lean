import Cfdm.Model.Sharing
/-
C09 — helper lemmas: the registry invariant of the writer and its preservation by every
function of the model (`Cfdm.Sharing`).
-/
namespace Cfdm.Sharing

/-- a variable without the two attributes that a later field may (re)set -/
def Var.core (v : Var) : Var := { v with ft := [], bft := [] }

/-- the dataset holds a variable of this name with this content on these dimensions -/
def HasVar (vars : List Var) (n : Name) (val : CVal) (dims : List Name) : Prop :=
  ∃ v ∈ vars, v.name = n ∧ v.val = val ∧ v.dims = dims

/-- what a link is entitled to: a registered entry under that variable name whose value
`equal_components` the construct's (`ignore_type` only for domain ancillaries) -/
def LinkOk (seen : List Entry) (l : Link) : Prop :=
  ∃ e ∈ seen, e.ncvar = l.ncvar ∧ eqComp (l.val.kind == .dan) l.val e.val = true

/-- the registry invariant -/
structure Inv (s : St) : Prop where
  seen : ∀ e ∈ s.seen, HasVar s.vars e.ncvar e.val e.ncdims
  links : ∀ l ∈ s.links, LinkOk s.seen l
  uniq : s.dup = false → (s.vars.map (·.name)).Nodup

/-- `s'` extends `s`: nothing already written or registered is altered (but `formula_terms`) -/
structure Ext (s s' : St) : Prop where
  vars : s.vars.map Var.core <+: s'.vars.map Var.core
  seen : s.seen <+: s'.seen
  links : s.links <+: s'.links
  dims : s.dimSizes <+: s'.dimSizes
  dup : s.dup = true → s'.dup = true

/-- one step of the writer: extension + invariant preservation -/
structure Step (s s' : St) : Prop where
  ext : Ext s s'
  inv : Inv s → Inv s'

theorem Ext.refl (s : St) : Ext s s :=
  ⟨List.prefix_refl _, List.prefix_refl _, List.prefix_refl _, List.prefix_refl _, id⟩

theorem Ext.trans {a b c : St} (h1 : Ext a b) (h2 : Ext b c) : Ext a c :=
  ⟨h1.vars.trans h2.vars, h1.seen.trans h2.seen, h1.links.trans h2.links, h1.dims.trans h2.dims,
   fun h => h2.dup (h1.dup h)⟩

theorem Step.refl (s : St) : Step s s := ⟨Ext.refl s, id⟩

theorem Step.trans {a b c : St} (h1 : Step a b) (h2 : Step b c) : Step a c :=
  ⟨h1.ext.trans h2.ext, fun h => h2.inv (h1.inv h)⟩

/-- a change that touches none of the fields the invariant talks about, except that dimensions may be added -/
structure Same (s s' : St) : Prop where
  vars : s'.vars = s.vars
  seen : s'.seen = s.seen
  links : s'.links = s.links
  dup : s'.dup = s.dup
  nf : s'.nf = s.nf
  dims : s.dimSizes <+: s'.dimSizes

theorem Same.step {s s' : St} (h : Same s s') : Step s s' := by
  refine ⟨⟨by rw [h.vars]; exact List.prefix_refl _, by rw [h.seen]; exact List.prefix_refl _,
           by rw [h.links]; exact List.prefix_refl _, h.dims, by rw [h.dup]; exact id⟩, ?_⟩
  intro i
  refine ⟨?_, ?_, ?_⟩
  · rw [h.seen, h.vars]; exact i.seen
  · rw [h.links, h.seen]; exact i.links
  · rw [h.dup, h.vars]; exact i.uniq

theorem netcdfName_same (s : St) (b : Name) : Same s (netcdfName s b).1 := by
  unfold netcdfName netcdfNameOld netcdfNameNew
  split
  · exact ⟨rfl, rfl, rfl, rfl, rfl, List.prefix_refl _⟩
  · simp only []
    split
    · split <;> exact ⟨rfl, rfl, rfl, rfl, rfl, List.prefix_refl _⟩
    · exact ⟨rfl, rfl, rfl, rfl, rfl, List.prefix_refl _⟩

theorem createName_same (s : St) (p d : Option Name) (f : Name) : Same s (createName s p d f).1 :=
  netcdfName_same s _

theorem Same.trans {a b c : St} (h1 : Same a b) (h2 : Same b c) : Same a c :=
  ⟨h2.vars.trans h1.vars, h2.seen.trans h1.seen, h2.links.trans h1.links, h2.dup.trans h1.dup, h2.nf.trans h1.nf,
   h1.dims.trans h2.dims⟩

theorem Same.refl (s : St) : Same s s := ⟨rfl, rfl, rfl, rfl, rfl, List.prefix_refl _⟩

/-! ### `emitVar` -/

theorem hasVar_mono {vars vars' : List Var} (h : vars.map Var.core <+: vars'.map Var.core) {n val dims}
    (hv : HasVar vars n val dims) : HasVar vars' n val dims := by
  obtain ⟨v, hv, h1, h2, h3⟩ := hv
  have : v.core ∈ vars'.map Var.core := h.subset (List.mem_map_of_mem hv)
  obtain ⟨w, hw, hc⟩ := List.mem_map.1 this
  refine ⟨w, hw, ?_, ?_, ?_⟩
  · have := congrArg Var.name hc; simpa [Var.core, h1] using this
  · have := congrArg Var.val hc; simpa [Var.core, h2] using this
  · have := congrArg Var.dims hc; simpa [Var.core, h3] using this

theorem linkOk_mono {seen seen' : List Entry} (h : seen <+: seen') {l : Link} (hl : LinkOk seen l) : LinkOk seen' l := by
  obtain ⟨e, he, h1, h2⟩ := hl
  exact ⟨e, h.subset he, h1, h2⟩

theorem emitVar_step (s : St) (v : Var) : Step s (emitVar s v) := by
  refine ⟨⟨?_, ?_, List.prefix_refl _, List.prefix_refl _, ?_⟩, ?_⟩
  · simp [emitVar]
  · simp [emitVar]
  · intro h; simp [emitVar, h]
  · intro i
    refine ⟨?_, ?_, ?_⟩
    · intro e he
      simp only [emitVar, List.mem_append, List.mem_singleton] at he
      rcases he with he | he
      · exact hasVar_mono (by simp [emitVar]) (i.seen e he)
      · subst he
        exact ⟨v, by simp [emitVar], rfl, rfl, rfl⟩
    · intro l hl
      exact linkOk_mono (by simp [emitVar]) (i.links l hl)
    · intro hd
      simp only [emitVar, Bool.or_eq_false_iff] at hd
      have hu := i.uniq hd.1
      simp only [emitVar, List.map_append, List.map_cons, List.map_nil]
      rw [List.nodup_append]
      refine ⟨hu, by simp, ?_⟩
      intro a ha b hb
      simp only [List.mem_singleton] at hb
      subst hb
      intro hab
      subst hab
      obtain ⟨w, hw, hn⟩ := List.mem_map.1 ha
      have : s.vars.any (fun x => x.name == v.name) = true := by
        rw [List.any_eq_true]; exact ⟨w, hw, by simp [hn]⟩
      rw [this] at hd
      exact absurd hd.2 (by simp)

/-- the entry registered by `emitVar` -/
theorem emitVar_seen (s : St) (v : Var) : (⟨v.val, v.name, v.dims⟩ : Entry) ∈ (emitVar s v).seen := by
  simp [emitVar]

/-! ### `link` -/

theorem link_step (s : St) (key : Nat) (v : CVal) (n : Name)
    (h : LinkOk s.seen ⟨s.nf, key, v, n⟩) : Step s (link s key v n) := by
  refine ⟨⟨List.prefix_refl _, List.prefix_refl _, by simp [link], List.prefix_refl _, id⟩, ?_⟩
  intro i
  refine ⟨i.seen, ?_, i.uniq⟩
  intro l hl
  simp only [link, List.mem_append, List.mem_singleton] at hl
  rcases hl with hl | hl
  · exact i.links l hl
  · subst hl; exact h

theorem eqComp_refl (b : Bool) (v : CVal) : eqComp b v v = true := by simp [eqComp]

/-- `findSeen` only ever returns an entry that `equal_components` the query (and has the requested dimensions) -/
theorem findSeen_some {seen : List Entry} {v : CVal} {dims : Option (List Name)} {it : Bool} {e : Entry}
    (h : findSeen seen v dims it = some e) :
    e ∈ seen ∧ eqComp it v e.val = true ∧ (∀ d, dims = some d → e.ncdims = d) := by
  unfold findSeen at h
  have hm := List.mem_of_find?_eq_some h
  have hp := List.find?_some h
  simp only [Bool.and_eq_true] at hp
  refine ⟨hm, hp.2, ?_⟩
  intro d hd
  subst hd
  have := hp.1; simp at this; exact this.symm

theorem eqComp_weaken {it : Bool} {a b : CVal} (h : eqComp it a b = true) (hk : it = true → a.kind = .dan) :
    eqComp (a.kind == .dan) a b = true := by
  unfold eqComp at h ⊢
  simp only [Bool.and_eq_true, Bool.or_eq_true, decide_eq_true_eq] at h ⊢
  refine ⟨?_, h.2⟩
  rcases h.1 with h1 | h1
  · left; simpa using hk h1
  · right; exact h1

/-! ### composite writer functions -/

theorem same_update_boundsDims (s : St) (l : List Name) : Same s { s with boundsDims := l } :=
  ⟨rfl, rfl, rfl, rfl, rfl, List.prefix_refl _⟩

theorem same_update_boundsOf (s : St) (l : List (Name × Name)) : Same s { s with boundsOf := l } :=
  ⟨rfl, rfl, rfl, rfl, rfl, List.prefix_refl _⟩

theorem same_add_dim (s : St) (d : Name × Nat) : Same s { s with dimSizes := s.dimSizes ++ [d] } :=
  ⟨rfl, rfl, rfl, rfl, rfl, List.prefix_append _ _⟩

theorem boundsDim_same (s : St) (b : BSpec) : Same s (boundsDim s b).1 := by
  unfold boundsDim
  split
  · exact Same.refl s
  · exact (netcdfName_same s _).trans (same_update_boundsDims _ _)

theorem boundsNewDim_same (s : St) (d : Name) (nv : Nat) : Same s (boundsNewDim s d nv) := by
  unfold boundsNewDim
  split
  · exact same_add_dim _ _
  · exact Same.refl s

theorem boundsVar_step (s : St) (parent : Name) (dims : List Name) (bdim : Name) (b : BSpec) :
    Step s (boundsVar s parent dims bdim b).1 := by
  unfold boundsVar
  split
  · exact Step.refl s
  · exact ((boundsNewDim_same s bdim b.nv).trans (netcdfName_same _ _)).step.trans (emitVar_step _ _)

theorem writeBounds_step (s : St) (parent : Name) (pdims : List Name) (b : Option BSpec) :
    Step s (writeBounds s parent pdims b).1 := by
  unfold writeBounds
  cases b with
  | none => exact Step.refl s
  | some b =>
    exact (boundsDim_same s b).step.trans ((boundsVar_step _ _ _ _ _).trans (same_update_boundsOf _ _).step)

theorem createCoord_step (s : St) (base : Name) (dims : List Name) (v : CVal) (c : Cons) (wb : Bool) :
    Step s (createCoord s base dims v c wb).1 := by
  unfold createCoord
  exact (netcdfName_same s base).step.trans ((writeBounds_step _ _ _ _).trans (emitVar_step _ _))

/-- what `createCoord` registers: an entry for the value it was given under the returned name -/
theorem createCoord_seen (s : St) (base : Name) (dims : List Name) (v : CVal) (c : Cons) (wb : Bool) :
    (⟨v, (createCoord s base dims v c wb).2, dims⟩ : Entry) ∈ (createCoord s base dims v c wb).1.seen := by
  unfold createCoord
  exact emitVar_seen _ _

theorem dimCoordName_same (s : St) (p : Option Name) (c : Cons) : Same s (dimCoordName s p c).1 := by
  unfold dimCoordName
  split
  · split
    · split
      · exact Same.refl s
      · exact netcdfName_same _ _
    · exact netcdfName_same _ _
  · exact createName_same _ _ _ _

/-- a dimension is added and a name clash may be flagged -/
theorem step_add_dim_dup (s : St) (d : Name × Nat) (b : Bool) :
    Step s { s with dimSizes := s.dimSizes ++ [d], dup := s.dup || b } := by
  refine ⟨⟨List.prefix_refl _, List.prefix_refl _, List.prefix_refl _, List.prefix_append _ _, ?_⟩, ?_⟩
  · intro h; simp [h]
  · intro i
    refine ⟨i.seen, i.links, ?_⟩
    intro hd
    simp only [Bool.or_eq_false_iff] at hd
    exact i.uniq hd.1

theorem createDimCoord_step (s : St) (size : Nat) (p : Option Name) (c : Cons) :
    Step s (createDimCoord s size p c).1 := by
  unfold createDimCoord
  exact ((dimCoordName_same s p c).step.trans (step_add_dim_dup _ _ _)).trans
    ((writeBounds_step _ _ _ _).trans (emitVar_step _ _))

theorem createDimCoord_seen (s : St) (size : Nat) (p : Option Name) (c : Cons) :
    (⟨c.val, (createDimCoord s size p c).2, [(createDimCoord s size p c).2]⟩ : Entry)
      ∈ (createDimCoord s size p c).1.seen := by
  unfold createDimCoord
  exact emitVar_seen _ _

theorem dimCoordReuse_some {s : St} {c : Cons} {e : Entry} (h : dimCoordReuse s c = some e) :
    e ∈ s.seen ∧ eqComp false c.val e.val = true := by
  unfold dimCoordReuse at h
  split at h
  · rename_i e' he'
    have := findSeen_some he'
    split at h
    · cases h; exact ⟨this.1, this.2.1⟩
    · split at h
      · cases h; exact ⟨this.1, this.2.1⟩
      · cases h
  · cases h

theorem linkOk_of_entry {seen : List Entry} {e : Entry} (he : e ∈ seen) {f k : Nat} {v : CVal} {it : Bool}
    (h : eqComp it v e.val = true) (hk : it = true → v.kind = .dan) : LinkOk seen ⟨f, k, v, e.ncvar⟩ :=
  ⟨e, he, rfl, eqComp_weaken h hk⟩

theorem writeDimCoord_step (s : St) (fs : FSt) (axis size : Nat) (p : Option Name) (key : Nat) (c : Cons) :
    Step s (writeDimCoord s fs axis size p key c).1 := by
  unfold writeDimCoord
  split
  · rename_i e he
    have := dimCoordReuse_some he
    exact link_step _ _ _ _ (linkOk_of_entry this.1 this.2 (by simp))
  · refine (createDimCoord_step s size p c).trans (link_step _ _ _ _ ?_)
    exact ⟨_, createDimCoord_seen s size p c, rfl, eqComp_refl _ _⟩

theorem shareOrCreate_step (s : St) (key : Nat) (v : CVal) (dims : List Name) (it : Bool) (base : Name) (c : Cons)
    (wb : Bool) (hk : it = true → v.kind = .dan) : Step s (shareOrCreate s key v dims it base c wb).1 := by
  unfold shareOrCreate
  split
  · rename_i e he
    have := findSeen_some he
    exact link_step _ _ _ _ (linkOk_of_entry this.1 this.2.1 hk)
  · refine (createCoord_step s base dims v c wb).trans (link_step _ _ _ _ ?_)
    exact ⟨_, createCoord_seen s base dims v c wb, rfl, eqComp_refl _ _⟩

theorem writeScalar_step (s : St) (fs : FSt) (axis key : Nat) (c : Cons) : Step s (writeScalar s fs axis key c).1 := by
  unfold writeScalar
  exact shareOrCreate_step _ _ _ _ _ _ _ _ (by simp)

theorem writeAux_step (s : St) (fs : FSt) (key : Nat) (c : Cons) : Step s (writeAux s fs key c).1 := by
  unfold writeAux
  exact shareOrCreate_step _ _ _ _ _ _ _ _ (by simp)

theorem writeDan_step (s : St) (fs : FSt) (key : Nat) (c : Cons) (t : Option Name) (hc : c.kind = .dan) :
    Step s (writeDan s fs key c t).1 := by
  unfold writeDan
  exact shareOrCreate_step _ _ _ _ _ _ _ _ (by intro _; simp [Cons.val, hc])

theorem writePlain_step (s : St) (fs : FSt) (key : Nat) (c : Cons) (fb : Name) : Step s (writePlain s fs key c fb).1 := by
  unfold writePlain
  exact shareOrCreate_step _ _ _ _ _ _ _ _ (by simp)

theorem writeNoCoordAxis_same (p : Bool) (f : AField) (s : St) (fs : FSt) (axis : Nat) (ax : AAxis) :
    Same s (writeNoCoordAxis p f s fs axis ax).1 := by
  unfold writeNoCoordAxis
  dsimp only
  split
  · exact Same.refl s
  · split
    · exact Same.refl s
    · exact (netcdfName_same s _).trans ⟨rfl, rfl, rfl, rfl, rfl, List.prefix_append _ _⟩

theorem writeAxis_step (p : Bool) (f : AField) (s : St) (fs : FSt) (axis : Nat) (ax : AAxis) :
    Step s (writeAxis p f s fs axis ax).1 := by
  unfold writeAxis
  split
  · split
    · exact writeDimCoord_step _ _ _ _ _ _ _
    · split
      · exact writeDimCoord_step _ _ _ _ _ _ _
      · exact writeScalar_step _ _ _ _ _
  · dsimp only
    split
    · exact (writeNoCoordAxis_same _ _ _ _ _ _).step
    · exact Step.refl s

theorem writeAxes_step (p : Bool) (f : AField) (l : List (Nat × AAxis)) :
    ∀ (s : St) (fs : FSt), Step s (writeAxes p f s fs l).1 := by
  induction l with
  | nil => intro s fs; exact Step.refl s
  | cons a rest ih =>
    intro s fs
    obtain ⟨i, a⟩ := a
    unfold writeAxes
    exact (writeAxis_step p f s fs i a).trans (ih _ _)

theorem writeAuxStep_step (s : St) (fs : FSt) (k : Nat) (c : Cons) : Step s (writeAuxStep s fs k c).1 := by
  unfold writeAuxStep
  split
  · split
    · exact writeAux_step _ _ _ _
    · exact writeScalar_step _ _ _ _ _
  · exact Step.refl s

theorem writeAuxs_step (l : List (Nat × Cons)) : ∀ (s : St) (fs : FSt), Step s (writeAuxs s fs l).1 := by
  induction l with
  | nil => intro s fs; exact Step.refl s
  | cons a rest ih =>
    intro s fs
    obtain ⟨k, c⟩ := a
    unfold writeAuxs
    exact (writeAuxStep_step s fs k c).trans (ih _ _)

theorem writeDanStep_step (f : AField) (s : St) (fs : FSt) (k : Nat) (c : Cons) : Step s (writeDanStep f s fs k c).1 := by
  unfold writeDanStep
  split
  · rename_i h
    exact writeDan_step _ _ _ _ _ (by simpa using h)
  · exact Step.refl s

theorem writeDans_step (f : AField) (l : List (Nat × Cons)) : ∀ (s : St) (fs : FSt), Step s (writeDans f s fs l).1 := by
  induction l with
  | nil => intro s fs; exact Step.refl s
  | cons a rest ih =>
    intro s fs
    obtain ⟨k, c⟩ := a
    unfold writeDans
    exact (writeDanStep_step f s fs k c).trans (ih _ _)

theorem writePlains_step (kind : Kind) (fb : Name) (l : List (Nat × Cons)) :
    ∀ (s : St) (fs : FSt) (acc : List Name), Step s (writePlains kind fb s fs l acc).1 := by
  induction l with
  | nil => intro s fs acc; exact Step.refl s
  | cons a rest ih =>
    intro s fs acc
    obtain ⟨k, c⟩ := a
    unfold writePlains
    split
    · exact (writePlain_step s fs k c fb).trans (ih _ _ _)
    · exact ih _ _ _

/-! ### attributes set afterwards (`formula_terms`) -/

theorem setVar_ft_step (s : St) (n : Name) (ft bft : List (String × Name)) :
    Step s (setVar s n (fun v => { v with ft := ft, bft := bft })) := by
  have hcore : (setVar s n (fun v => { v with ft := ft, bft := bft })).vars.map Var.core = s.vars.map Var.core := by
    simp only [setVar, List.map_map]
    apply List.map_congr_left
    intro v _
    simp only [Function.comp]
    split <;> rfl
  have hname : (setVar s n (fun v => { v with ft := ft, bft := bft })).vars.map (·.name) = s.vars.map (·.name) := by
    simp only [setVar, List.map_map]
    apply List.map_congr_left
    intro v _
    simp only [Function.comp]
    split <;> rfl
  refine ⟨⟨by rw [hcore]; exact List.prefix_refl _, List.prefix_refl _, List.prefix_refl _, List.prefix_refl _, id⟩, ?_⟩
  intro i
  refine ⟨?_, i.links, ?_⟩
  · intro e he
    exact hasVar_mono (by rw [hcore]; exact List.prefix_refl _) (i.seen e he)
  · intro hd
    rw [hname]; exact i.uniq hd

theorem same_update_ftConflict (s : St) (b : Bool) : Same s { s with ftConflict := b } :=
  ⟨rfl, rfl, rfl, rfl, rfl, List.prefix_refl _⟩

theorem writeFormulaTerms_step (f : AField) (s : St) (fs : FSt) (r : VRef) : Step s (writeFormulaTerms f s fs r) := by
  unfold writeFormulaTerms
  split
  · exact Step.refl s
  · split
    · exact Step.refl s
    · simp only []
      split
      · exact Step.refl s
      · exact (setVar_ft_step s _ _ _).trans (same_update_ftConflict _ _).step

theorem writeFTs_step (f : AField) (fs : FSt) (l : List VRef) : ∀ s : St, Step s (writeFTs f fs s l) := by
  induction l with
  | nil => intro s; exact Step.refl s
  | cons r rest ih =>
    intro s
    unfold writeFTs
    exact (writeFormulaTerms_step f s fs r).trans (ih _)

theorem writeGMVar_step (s : St) (g : GM) : Step s (writeGMVar s g).1 := by
  unfold writeGMVar
  split
  · rename_i e he
    have := findSeen_some he
    exact link_step _ _ _ _ (linkOk_of_entry this.1 this.2.1 (by simp))
  · refine ((createName_same s _ _ _).step.trans (emitVar_step _ _)).trans (link_step _ _ _ _ ?_)
    exact ⟨_, emitVar_seen _ _, rfl, eqComp_refl _ _⟩

theorem writeGMs_step (fs : FSt) (multi : Bool) (l : List GM) :
    ∀ (s : St) (acc : List (Name × List Name)), Step s (writeGMs fs multi s l acc).1 := by
  induction l with
  | nil => intro s acc; exact Step.refl s
  | cons g rest ih =>
    intro s acc
    unfold writeGMs
    exact (writeGMVar_step s g).trans (ih _ _)

/-- the data variable is created but not registered -/
theorem emitData_step (s : St) (v : Var) : Step s (emitData s v) := by
  unfold emitData
  split
  · exact emitVar_step s v
  · refine ⟨⟨by simp, List.prefix_refl _, List.prefix_refl _, List.prefix_refl _, ?_⟩, ?_⟩
    · intro h; simp [h]
    · intro i
      refine ⟨?_, i.links, ?_⟩
      · intro e he
        exact hasVar_mono (by simp) (i.seen e he)
      · intro hd
        simp only [Bool.or_eq_false_iff] at hd
        have hu := i.uniq hd.1
        simp only [List.map_append, List.map_cons, List.map_nil]
        rw [List.nodup_append]
        refine ⟨hu, by simp, ?_⟩
        intro a ha b hb
        simp only [List.mem_singleton] at hb
        subst hb
        intro hab
        subst hab
        obtain ⟨w, hw, hn⟩ := List.mem_map.1 ha
        have : s.vars.any (fun x => x.name == v.name) = true := by
          rw [List.any_eq_true]; exact ⟨w, hw, by simp [hn]⟩
        rw [this] at hd
        exact absurd hd.2 (by simp)

theorem end_of_field_step (s : St) (sp : List (Name × Nat × List (CVal × Nat))) (n : Nat) :
    Step s { s with spans := sp, nf := n } :=
  ⟨⟨List.prefix_refl _, List.prefix_refl _, List.prefix_refl _, List.prefix_refl _, id⟩,
   fun i => ⟨i.seen, i.links, i.uniq⟩⟩

/-! `writeField` cut into stages (definitionally the same function) -/

def initFSt (f : AField) : FSt :=
  { dataAxes := if f.isDomain then List.range f.axes.length else f.dataAxes,
    localAxes := if f.isDomain then List.range f.axes.length else f.dataAxes }
def stage1 (p : Bool) (s : St) (f : AField) : St × FSt := writeAxes p f s (initFSt f) (enum f.axes)
def stage2 (p : Bool) (s : St) (f : AField) : St × FSt := writeAuxs (stage1 p s f).1 (stage1 p s f).2 (enum f.cons)
def stage3 (p : Bool) (s : St) (f : AField) : St × FSt := writeDans f (stage2 p s f).1 (stage2 p s f).2 (enum f.cons)
def stage4 (p : Bool) (s : St) (f : AField) : St × FSt × List Name :=
  writePlains .msr "cell_measure" (stage3 p s f).1 (stage3 p s f).2 (enum f.cons) []
def fieldGMs (f : AField) : List GM := f.vrefs.foldl createVerticalDatum f.gms
def stage5 (p : Bool) (s : St) (f : AField) : St := writeFTs f (stage4 p s f).2.1 (stage4 p s f).1 f.vrefs
def stage6 (p : Bool) (s : St) (f : AField) : St × List (Name × List Name) :=
  writeGMs (stage4 p s f).2.1 ((fieldGMs f).length > 1) (stage5 p s f) (fieldGMs f) []
def stage7 (p : Bool) (s : St) (f : AField) : St × FSt × List Name :=
  if f.isDomain then ((stage6 p s f).1, (stage4 p s f).2.1, [])
  else writePlains .fan "ancillary_data" (stage6 p s f).1 (stage4 p s f).2.1 (enum f.cons) []
def stage8 (p : Bool) (s : St) (f : AField) : St × Name :=
  createName (stage7 p s f).1 f.ncvar f.dflt (if f.isDomain then "domain" else "data")
def fieldVar (p : Bool) (s : St) (f : AField) : Var :=
  dataVar f (stage7 p s f).2.1 (stage8 p s f).2 (stage4 p s f).2.2 (stage7 p s f).2.2 (stage6 p s f).2 ((fieldGMs f).length > 1)
def stage9 (p : Bool) (s : St) (f : AField) : St := emitData (stage8 p s f).1 (fieldVar p s f)

theorem writeField_eq (p : Bool) (s : St) (f : AField) :
    writeField p s f = { stage9 p s f with spans := (stage9 p s f).spans ++ (stage7 p s f).2.1.newSpans,
                                           nf := (stage9 p s f).nf + 1 } := rfl

theorem stage1_step (p : Bool) (s : St) (f : AField) : Step s (stage1 p s f).1 := writeAxes_step p f _ s _
theorem stage2_step (p : Bool) (s : St) (f : AField) : Step s (stage2 p s f).1 :=
  (stage1_step p s f).trans (writeAuxs_step _ _ _)
theorem stage3_step (p : Bool) (s : St) (f : AField) : Step s (stage3 p s f).1 :=
  (stage2_step p s f).trans (writeDans_step f _ _ _)
theorem stage4_step (p : Bool) (s : St) (f : AField) : Step s (stage4 p s f).1 :=
  (stage3_step p s f).trans (writePlains_step _ _ _ _ _ _)
theorem stage5_step (p : Bool) (s : St) (f : AField) : Step s (stage5 p s f) :=
  (stage4_step p s f).trans (writeFTs_step f _ _ _)
theorem stage6_step (p : Bool) (s : St) (f : AField) : Step s (stage6 p s f).1 :=
  (stage5_step p s f).trans (writeGMs_step _ _ _ _ _)
theorem stage7_step (p : Bool) (s : St) (f : AField) : Step s (stage7 p s f).1 := by
  unfold stage7
  split
  · exact stage6_step p s f
  · exact (stage6_step p s f).trans (writePlains_step _ _ _ _ _ _)
theorem stage9_step (p : Bool) (s : St) (f : AField) : Step s (stage9 p s f) :=
  ((stage7_step p s f).trans (createName_same _ _ _ _).step).trans (emitData_step _ _)

theorem writeField_step (p : Bool) (s : St) (f : AField) : Step s (writeField p s f) := by
  rw [writeField_eq]
  exact (stage9_step p s f).trans (end_of_field_step _ _ _)

theorem writeAllFrom_step (p : Bool) (l : List AField) : ∀ s : St, Step s (writeAllFrom p s l) := by
  induction l with
  | nil => intro s; exact Step.refl s
  | cons f rest ih =>
    intro s
    unfold writeAllFrom
    exact (writeField_step p s f).trans (ih _)

theorem inv_init (a b : Bool) : Inv { oldNames := a, oldData := b } := by
  refine ⟨?_, ?_, ?_⟩
  · intro e he; simp at he
  · intro l hl; simp at hl
  · intro _; simp

theorem eq_of_nodup_map_name : ∀ {l : List Var}, (l.map (·.name)).Nodup → ∀ {a b : Var}, a ∈ l → b ∈ l →
    a.name = b.name → a = b := by
  intro l
  induction l with
  | nil => intro _ a b ha; cases ha
  | cons x rest ih =>
    intro hn a b ha hb hab
    simp only [List.map_cons, List.nodup_cons] at hn
    rcases List.mem_cons.1 ha with ha1 | ha1
    · rcases List.mem_cons.1 hb with hb1 | hb1
      · rw [ha1, hb1]
      · subst ha1
        exact absurd (show a.name ∈ List.map (fun x => x.name) rest from List.mem_map.2 ⟨b, hb1, hab.symm⟩) hn.1
    · rcases List.mem_cons.1 hb with hb1 | hb1
      · subst hb1
        exact absurd (show b.name ∈ List.map (fun x => x.name) rest from List.mem_map.2 ⟨a, ha1, hab⟩) hn.1
      · exact ih hn.2 ha1 hb1 hab

/-- two links to the same variable of a dataset with unique names have `equal_components` values -/
theorem links_same_var {s : St} (i : Inv s) (hd : s.dup = false) {l1 l2 : Link} (h1 : l1 ∈ s.links) (h2 : l2 ∈ s.links)
    (h : l1.ncvar = l2.ncvar) : l1.val.sig = l2.val.sig ∧ (l1.val.kind = l2.val.kind ∨ l1.val.kind = .dan ∨ l2.val.kind = .dan) := by
  obtain ⟨e1, he1, hn1, hq1⟩ := i.links l1 h1
  obtain ⟨e2, he2, hn2, hq2⟩ := i.links l2 h2
  obtain ⟨v1, hv1, hvn1, hvv1, _⟩ := i.seen e1 he1
  obtain ⟨v2, hv2, hvn2, hvv2, _⟩ := i.seen e2 he2
  have hname : v1.name = v2.name := by rw [hvn1, hvn2, hn1, hn2, h]
  have hu := i.uniq hd
  have hv : v1 = v2 := by
    -- names are unique, so the two variables are one
    exact eq_of_nodup_map_name hu hv1 hv2 hname
  subst hv
  have he : e1.val = e2.val := by rw [← hvv1, ← hvv2]
  unfold eqComp at hq1 hq2
  simp only [Bool.and_eq_true, Bool.or_eq_true, decide_eq_true_eq, beq_iff_eq] at hq1 hq2
  refine ⟨by rw [hq1.2, hq2.2, he], ?_⟩
  rcases hq1.1 with a | a
  · right; left; exact a
  · rcases hq2.1 with b | b
    · right; right; exact b
    · left; rw [a, b, he]

theorem writeAllFrom_append (p : Bool) (fs gs : List AField) : ∀ s, writeAllFrom p s (fs ++ gs) = writeAllFrom p (writeAllFrom p s fs) gs := by
  induction fs with
  | nil => intro s; rfl
  | cons f rest ih => intro s; simp only [List.cons_append, writeAllFrom]; exact ih _


/-- position of a variable by name in a dataset with unique names -/
theorem var?_of_mem {s : St} (hu : (s.vars.map (·.name)).Nodup) {v : Var} (hv : v ∈ s.vars) : s.var? v.name = some v := by
  unfold St.var?
  cases hf : s.vars.find? (fun x => x.name == v.name) with
  | none =>
    have := List.find?_eq_none.1 hf v hv
    simp at this
  | some w =>
    have hw := List.mem_of_find?_eq_some hf
    have hn := List.find?_some hf
    simp only [beq_iff_eq] at hn
    rw [eq_of_nodup_map_name hu hw hv hn]


end Cfdm.Sharing
