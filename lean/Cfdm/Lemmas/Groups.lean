/-
Tree lemmas for C11: the ascent of `search_by_proximity` is "first suffix of the reversed
path", the lateral searches against the occurrence relation `Occ`, `search_by_relative_path`
against Unix path arithmetic.
-/
import Cfdm.Lemmas.GroupsStr

namespace Cfdm.Groups

/-! ### ascent -/

/-- The group itself, then its parent, …, then the root: the first whose path satisfies `P`. -/
def firstUp (P : Path → Bool) : List Name → Option Path
  | [] => if P [] then some [] else none
  | g :: up => if P (g :: up).reverse then some (g :: up).reverse else firstUp P up

theorem firstUp_some (P : Path → Bool) (rp : List Name) (q : Path) :
    firstUp P rp = some q ↔
      (q.reverse <:+ rp ∧ P q = true ∧ ∀ s, s <:+ rp → P s.reverse = true → s.length ≤ q.length) := by
  induction rp with
  | nil =>
    unfold firstUp
    by_cases h : P [] = true
    · simp only [h, ↓reduceIte, Option.some.injEq]
      constructor
      · rintro rfl
        refine ⟨by simp, h, ?_⟩
        intro s hs _
        have : s = [] := by simpa using hs
        simp [this]
      · rintro ⟨h1, _, _⟩
        have : q.reverse = [] := by simpa using h1
        simpa using this.symm
    · simp only [h, Bool.false_eq_true, ↓reduceIte, reduceCtorEq, false_iff, not_and]
      intro h1 h2
      have : q.reverse = [] := by simpa using h1
      have : q = [] := by simpa using this
      rw [this] at h2
      simp_all
  | cons g up ih =>
    unfold firstUp
    by_cases h : P (g :: up).reverse = true
    · simp only [h, ↓reduceIte, Option.some.injEq]
      constructor
      · rintro rfl
        refine ⟨by simp, h, ?_⟩
        intro s hs _
        have := List.IsSuffix.length_le hs
        simpa using this
      · rintro ⟨h1, _, h3⟩
        have hl := h3 (g :: up) (List.suffix_refl _) h
        have hl' := List.IsSuffix.length_le h1
        have : q.reverse = g :: up := List.IsSuffix.eq_of_length h1 (by simp at hl hl' ⊢; omega)
        rw [← this]; simp
    · simp only [h, Bool.false_eq_true, ↓reduceIte]
      rw [ih]
      constructor
      · rintro ⟨h1, h2, h3⟩
        refine ⟨List.IsSuffix.trans h1 (List.suffix_cons g up), h2, ?_⟩
        intro s hs hp
        rcases List.suffix_cons_iff.mp hs with rfl | hs'
        · exact absurd hp h
        · exact h3 s hs' hp
      · rintro ⟨h1, h2, h3⟩
        refine ⟨?_, h2, fun s hs hp => h3 s (List.IsSuffix.trans hs (List.suffix_cons g up)) hp⟩
        rcases List.suffix_cons_iff.mp h1 with e | h1'
        · rw [← e] at h; simp at h; rw [h] at h2; exact absurd h2 (by simp)
        · exact h1'

theorem firstUp_none (P : Path → Bool) (rp : List Name) :
    firstUp P rp = none ↔ ∀ s, s <:+ rp → P s.reverse = false := by
  induction rp with
  | nil =>
    unfold firstUp
    by_cases h : P [] = true
    · simp only [h, ↓reduceIte, reduceCtorEq, false_iff]
      intro hall
      have := hall [] (by simp)
      simp [h] at this
    · simp only [h, Bool.false_eq_true, ↓reduceIte, true_iff]
      intro s hs
      have : s = [] := by simpa using hs
      simpa [this] using h
  | cons g up ih =>
    unfold firstUp
    by_cases h : P (g :: up).reverse = true
    · simp only [h, ↓reduceIte, reduceCtorEq, false_iff]
      intro hall
      have := hall (g :: up) (List.suffix_refl _)
      rw [h] at this; exact absurd this (by simp)
    · simp only [h, Bool.false_eq_true, ↓reduceIte]
      rw [ih]
      constructor
      · intro h3 s hs
        rcases List.suffix_cons_iff.mp hs with rfl | hs'
        · simpa using h
        · exact h3 s hs'
      · intro h3 s hs
        exact h3 s (List.IsSuffix.trans hs (List.suffix_cons g up))

/-- Without the coordinate rule the ascent is the plain nearest-ancestor search. -/
theorem ascendWith_plain (lat : Bool → Name → Path → Forest → Option Path) (root : Grp)
    (sd : Bool) (ref : Name) (rp : List Name) (apex : Bool) :
    ascendWith lat root sd false ref rp apex = firstUp (fun q => hasAt root q sd ref) rp := by
  induction rp generalizing apex with
  | nil => simp [ascendWith, firstUp]
  | cons g up ih =>
    unfold ascendWith firstUp
    generalize (g :: up).reverse = p
    by_cases h : hasAt root p sd ref = true
    · simp [h]
    · simp only [h, Bool.false_eq_true, ↓reduceIte, Bool.false_and]
      exact ih _

/-- With the coordinate rule the ascent stops at the first group that holds the element or
defines a dimension of that name, and searches laterally from there. -/
theorem ascendWith_coord (lat : Bool → Name → Path → Forest → Option Path) (root : Grp)
    (sd : Bool) (ref : Name) (rp : List Name) :
    ascendWith lat root sd true ref rp false =
      match firstUp (fun q => hasAt root q sd ref || hasAt root q true ref) rp with
      | none => none
      | some a => if hasAt root a sd ref then some a else lat sd ref a (kidsAt root a) := by
  induction rp with
  | nil =>
    unfold ascendWith firstUp
    by_cases h : hasAt root [] sd ref = true
    · simp [h]
    · by_cases h2 : hasAt root [] true ref = true
      · simp [h, h2]
      · simp [h, h2]
  | cons g up ih =>
    unfold ascendWith firstUp
    generalize (g :: up).reverse = p
    by_cases h : hasAt root p sd ref = true
    · simp [h]
    · by_cases h2 : hasAt root p true ref = true
      · simp [h, h2]
      · simp only [h, h2, Bool.false_eq_true, ↓reduceIte, Bool.or_self, Bool.and_false]
        exact ih

/-! ### lateral searches -/

/-- `Occ f rel m`: going down from the groups of `f` along the names `rel` one arrives at a
group with content `m`. -/
inductive Occ : Forest → Path → Node → Prop
  | here {n k r} : Occ (.cons n k r) [n.name] n
  | down {n k r p m} : Occ k p m → Occ (.cons n k r) (n.name :: p) m
  | next {n k r p m} : Occ r p m → Occ (.cons n k r) p m

theorem Occ.length_pos {f rel m} (h : Occ f rel m) : 1 ≤ rel.length := by
  induction h with
  | here => simp
  | down _ _ => simp
  | next _ ih => exact ih

theorem Occ.length_le_height {f rel m} (h : Occ f rel m) : rel.length ≤ f.height := by
  induction h with
  | @here n k r => simp [Forest.height]; omega
  | @down n k r p m _ ih => simp [Forest.height]; omega
  | @next n k r p m _ ih => simp [Forest.height]; omega

theorem atDepth_some (sd : Bool) (ref : Name) (f : Forest) :
    ∀ (d : Nat) (pre q : Path), atDepth sd ref d pre f = some q →
      ∃ rel m, rel.length = d + 1 ∧ q = pre ++ rel ∧ Occ f rel m ∧ m.has sd ref = true := by
  induction f with
  | nil => intro d pre q h; cases d <;> simp [atDepth] at h
  | cons n k r ihk ihr =>
    intro d pre q h
    cases d with
    | zero =>
      unfold atDepth at h
      by_cases hn : n.has sd ref = true
      · simp only [hn, ↓reduceIte, Option.some.injEq] at h
        exact ⟨[n.name], n, rfl, h.symm, Occ.here, hn⟩
      · simp only [hn, Bool.false_eq_true, ↓reduceIte] at h
        obtain ⟨rel, m, h1, h2, h3, h4⟩ := ihr 0 pre q h
        exact ⟨rel, m, h1, h2, Occ.next h3, h4⟩
    | succ d =>
      unfold atDepth at h
      cases hk : atDepth sd ref d (pre ++ [n.name]) k with
      | some q' =>
        simp only [hk, Option.some.injEq] at h
        obtain ⟨rel, m, h1, h2, h3, h4⟩ := ihk d (pre ++ [n.name]) q' hk
        refine ⟨n.name :: rel, m, by simp [h1], ?_, Occ.down h3, h4⟩
        rw [← h, h2]; simp
      | none =>
        simp only [hk] at h
        obtain ⟨rel, m, h1, h2, h3, h4⟩ := ihr (d + 1) pre q h
        exact ⟨rel, m, h1, h2, Occ.next h3, h4⟩

theorem atDepth_none (sd : Bool) (ref : Name) (f : Forest) :
    ∀ (d : Nat) (pre : Path), atDepth sd ref d pre f = none →
      ∀ rel m, rel.length = d + 1 → Occ f rel m → m.has sd ref = false := by
  induction f with
  | nil => intro d pre _ rel m _ ho; cases ho
  | cons n k r ihk ihr =>
    intro d pre h rel m hl ho
    cases d with
    | zero =>
      unfold atDepth at h
      by_cases hn : n.has sd ref = true
      · simp [hn] at h
      · simp only [hn, Bool.false_eq_true, ↓reduceIte] at h
        cases ho with
        | here => simpa using hn
        | down ho' =>
          have := ho'.length_pos
          simp only [List.length_cons] at hl; omega
        | next ho' => exact ihr 0 pre h rel m hl ho'
    | succ d =>
      unfold atDepth at h
      cases hk : atDepth sd ref d (pre ++ [n.name]) k with
      | some q' => simp [hk] at h
      | none =>
        simp only [hk] at h
        cases ho with
        | here => simp at hl
        | down ho' => exact ihk d (pre ++ [n.name]) hk _ m (by simpa using hl) ho'
        | next ho' => exact ihr (d + 1) pre h rel m hl ho'

theorem bfsFrom_some (sd : Bool) (ref : Name) (pre : Path) (f : Forest) :
    ∀ (k d : Nat) (q : Path), bfsFrom sd ref pre f k d = some q →
      ∃ d', d ≤ d' ∧ d' < d + k ∧ atDepth sd ref d' pre f = some q ∧
        ∀ d'', d ≤ d'' → d'' < d' → atDepth sd ref d'' pre f = none := by
  intro k
  induction k with
  | zero => intro d q h; simp [bfsFrom] at h
  | succ k ih =>
    intro d q h
    unfold bfsFrom at h
    cases ha : atDepth sd ref d pre f with
    | some q' =>
      simp only [ha, Option.some.injEq] at h
      exact ⟨d, Nat.le_refl _, by omega, by rw [ha, h], fun d'' h1 h2 => by omega⟩
    | none =>
      simp only [ha] at h
      obtain ⟨d', h1, h2, h3, h4⟩ := ih (d + 1) q h
      refine ⟨d', by omega, by omega, h3, ?_⟩
      intro d'' h5 h6
      by_cases e : d'' = d
      · rw [e]; exact ha
      · exact h4 d'' (by omega) h6

theorem bfsFrom_none (sd : Bool) (ref : Name) (pre : Path) (f : Forest) :
    ∀ (k d : Nat), bfsFrom sd ref pre f k d = none →
      ∀ d', d ≤ d' → d' < d + k → atDepth sd ref d' pre f = none := by
  intro k
  induction k with
  | zero => intro d _ d' h1 h2; omega
  | succ k ih =>
    intro d h d' h1 h2
    unfold bfsFrom at h
    cases ha : atDepth sd ref d pre f with
    | some q' => simp [ha] at h
    | none =>
      simp only [ha] at h
      by_cases e : d' = d
      · rw [e]; exact ha
      · exact ih (d + 1) h d' (by omega) (by omega)

/-- The patched lateral search finds an occurrence of minimal depth. -/
theorem bfs_some (sd : Bool) (ref : Name) (pre : Path) (f : Forest) (q : Path)
    (h : bfs sd ref pre f = some q) :
    ∃ rel m, q = pre ++ rel ∧ Occ f rel m ∧ m.has sd ref = true ∧
      ∀ rel' m', Occ f rel' m' → m'.has sd ref = true → rel.length ≤ rel'.length := by
  obtain ⟨d', _, _, h3, h4⟩ := bfsFrom_some sd ref pre f _ _ q h
  obtain ⟨rel, m, hl, hq, ho, hm⟩ := atDepth_some sd ref f d' pre q h3
  refine ⟨rel, m, hq, ho, hm, ?_⟩
  intro rel' m' ho' hm'
  have hp := ho'.length_pos
  by_cases hlt : rel'.length - 1 < d'
  · have hn := h4 (rel'.length - 1) (Nat.zero_le _) hlt
    have := atDepth_none sd ref f _ pre hn rel' m' (by omega) ho'
    rw [this] at hm'; exact absurd hm' (by simp)
  · omega

theorem bfs_none (sd : Bool) (ref : Name) (pre : Path) (f : Forest)
    (h : bfs sd ref pre f = none) : ∀ rel m, Occ f rel m → m.has sd ref = false := by
  intro rel m ho
  have hp := ho.length_pos
  have hh := ho.length_le_height
  have hn := bfsFrom_none sd ref pre f _ _ h (rel.length - 1) (Nat.zero_le _) (by omega)
  exact atDepth_none sd ref f _ pre hn rel m (by omega) ho

/-! ### relative paths -/

/-- `'../' * k`. -/
def upsStr : Nat → List Char
  | 0 => []
  | k + 1 => '.' :: '.' :: '/' :: upsStr k

/-- The string does not start with `../`. -/
def NoUp (s : List Char) : Prop := ∀ t, s ≠ '.' :: '.' :: '/' :: t

theorem stripUps_cons3 (c1 c2 c3 : Char) (rest : List Char) (rp : List Name) :
    stripUps (c1 :: c2 :: c3 :: rest) rp =
      if c1 = '.' ∧ c2 = '.' ∧ c3 = '/' then
        (match rp with
          | [] => none
          | _ :: up => stripUps rest up)
      else some (c1 :: c2 :: c3 :: rest, rp) := by
  cases rp with
  | nil => rw [stripUps.eq_1]
  | cons g up => rw [stripUps.eq_2]

theorem stripUps_noUp (s : List Char) (rp : List Name) (h : NoUp s) : stripUps s rp = some (s, rp) := by
  match s with
  | [] => simp [stripUps]
  | [_] => simp [stripUps]
  | [_, _] => simp [stripUps]
  | c1 :: c2 :: c3 :: rest =>
    rw [stripUps_cons3]
    have : ¬(c1 = '.' ∧ c2 = '.' ∧ c3 = '/') := by
      rintro ⟨rfl, rfl, rfl⟩
      exact h rest rfl
    rw [if_neg this]

theorem stripUps_ups (k : Nat) (s : List Char) (rp : List Name) (h : NoUp s) :
    stripUps (upsStr k ++ s) rp = if k ≤ rp.length then some (s, rp.drop k) else none := by
  induction k generalizing rp with
  | zero => simpa [upsStr] using stripUps_noUp s rp h
  | succ k ih =>
    show stripUps ('.' :: '.' :: '/' :: (upsStr k ++ s)) rp = _
    rw [stripUps_cons3]
    cases rp with
    | nil => simp
    | cons g up =>
      simp only [and_self, ↓reduceIte, List.length_cons, Nat.add_le_add_iff_right, List.drop_succ_cons]
      exact ih up
end Cfdm.Groups
