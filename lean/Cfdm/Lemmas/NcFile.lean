import Cfdm.Model.NcFile
/-
Helper lemmas for the abstract dataset: every guarded emission step preserves
`wfCore` (unique names, existing dimensions, resolvable and compatible references).
-/
namespace Cfdm.NcFile

/-! ### Boolean helpers -/

theorem distinct_iff {α} [DecidableEq α] : ∀ (l : List α), distinct l = true ↔ l.Nodup
  | [] => by simp [distinct]
  | x :: xs => by
    simp only [distinct, Bool.and_eq_true, Bool.not_eq_true', List.nodup_cons, distinct_iff xs]
    constructor
    · rintro ⟨h1, h2⟩; exact ⟨by simpa using h1, h2⟩
    · rintro ⟨h1, h2⟩; exact ⟨by simpa using h1, h2⟩

theorem subsetOf_iff {a b : List String} : subsetOf a b = true ↔ ∀ x ∈ a, x ∈ b := by
  simp [subsetOf, List.all_eq_true]

theorem var?_some_mem {F : File} {n : String} {w : Var} (h : F.var? n = some w) : w ∈ F.vars ∧ w.name = n := by
  unfold File.var? at h
  exact ⟨List.mem_of_find?_eq_some h, by simpa using List.find?_some h⟩

theorem find_of_mem_nodup {w : Var} : ∀ (l : List Var), (l.map (·.name)).Nodup → w ∈ l →
    l.find? (·.name == w.name) = some w
  | [], _, hw => by cases hw
  | x :: xs, hnd, hw => by
    simp only [List.map_cons, List.nodup_cons] at hnd
    simp only [List.find?_cons]
    rcases List.mem_cons.mp hw with rfl | hw
    · simp
    · have hne : x.name ≠ w.name := by
        intro he
        exact hnd.1 (he ▸ List.mem_map.mpr ⟨w, hw, rfl⟩)
      have : (x.name == w.name) = false := by simpa using hne
      simp only [this]
      exact find_of_mem_nodup xs hnd.2 hw

theorem var?_of_mem {F : File} (hnd : F.varNames.Nodup) {w : Var} (hw : w ∈ F.vars) : F.var? w.name = some w :=
  find_of_mem_nodup F.vars hnd hw

theorem var?_none_iff {F : File} {n : String} : F.var? n = none ↔ n ∉ F.varNames := by
  unfold File.var? File.varNames
  rw [List.find?_eq_none]
  simp only [beq_iff_eq, List.mem_map, not_exists, not_and]

/-! ### implied dimensions -/

theorem mem_implied {F : File} {ds : List String} {x : String} :
    x ∈ implied F ds ↔ ∃ w ∈ F.vars, ∃ r ∈ w.refs,
      (r.kind = .sampleDim ∧ r.target ∈ ds ∧ x ∈ w.dims)
      ∨ ((r.kind = .instanceDim ∨ r.kind = .compress) ∧ w.dims ≠ [] ∧ (∀ d ∈ w.dims, d ∈ ds) ∧ x = r.target) := by
  unfold implied
  simp only [List.mem_flatMap]
  constructor
  · rintro ⟨w, hw, r, hr, hx⟩
    refine ⟨w, hw, r, hr, ?_⟩
    cases hk : r.kind <;> simp [hk] at hx
    · exact Or.inr ⟨Or.inr rfl, hx.1.1, hx.1.2, hx.2⟩
    · exact Or.inl ⟨rfl, hx.1, hx.2⟩
    · exact Or.inr ⟨Or.inl rfl, hx.1.1, hx.1.2, hx.2⟩
  · rintro ⟨w, hw, r, hr, h⟩
    refine ⟨w, hw, r, hr, ?_⟩
    rcases h with ⟨hk, ht, hx⟩ | ⟨hk, hne, hall, rfl⟩
    · simp [hk, ht, hx]
    · rcases hk with hk | hk <;> simp [hk, hne] <;> exact hall

/-- `F'` extends `F`: nothing disappears, a variable keeps its name and dimensions and only gains
references, an external name that has no variable still has none. -/
structure Ext (F F' : File) : Prop where
  dims : ∀ d ∈ F.dimNames, d ∈ F'.dimNames
  vars : ∀ w ∈ F.vars, ∃ w' ∈ F'.vars, w'.name = w.name ∧ w'.dims = w.dims ∧ ∀ r ∈ w.refs, r ∈ w'.refs
  ext : ∀ e ∈ F.external, e ∈ F'.external
  absent : ∀ e ∈ F.external, e ∉ F.varNames → e ∉ F'.varNames

theorem implied_mono {F F' : File} (hE : Ext F F') {ds ds' : List String} (hds : ∀ d ∈ ds, d ∈ ds') :
    ∀ x ∈ implied F ds, x ∈ implied F' ds' := by
  intro x hx
  obtain ⟨w, hw, r, hr, h⟩ := mem_implied.mp hx
  obtain ⟨w', hw', _, hd, hrefs⟩ := hE.vars w hw
  refine mem_implied.mpr ⟨w', hw', r, hrefs r hr, ?_⟩
  rcases h with ⟨hk, ht, hxd⟩ | ⟨hk, hne, hall, hxt⟩
  · exact Or.inl ⟨hk, hds _ ht, hd ▸ hxd⟩
  · exact Or.inr ⟨hk, hd ▸ hne, fun d hdm => hds d (hall d (hd ▸ hdm)), hxt⟩

theorem effDims_mono {F F' : File} (hE : Ext F F') {w w' : Var} (hd : w'.dims = w.dims) :
    ∀ x ∈ effDims F w, x ∈ effDims F' w' := by
  intro x hx
  unfold effDims at hx ⊢
  simp only [List.mem_append] at hx ⊢
  have h1 : ∀ d ∈ w.dims ++ implied F w.dims, d ∈ w'.dims ++ implied F' w'.dims := by
    intro d hdm
    rcases List.mem_append.mp hdm with h | h
    · exact List.mem_append_left _ (hd ▸ h)
    · exact List.mem_append_right _ (implied_mono hE (fun y hy => hd ▸ hy) d h)
  rcases hx with (h | h) | h
  · exact Or.inl (Or.inl (hd ▸ h))
  · exact Or.inl (Or.inr (implied_mono hE (fun y hy => hd ▸ hy) x h))
  · exact Or.inr (implied_mono hE h1 x h)

/-- Looking a name up after an extension: same name, same dimensions. -/
theorem var?_ext {F F' : File} (hE : Ext F F') (hnd' : F'.varNames.Nodup) {n : String} {t : Var}
    (h : F.var? n = some t) : ∃ t', F'.var? n = some t' ∧ t'.dims = t.dims := by
  obtain ⟨ht, hn⟩ := var?_some_mem h
  obtain ⟨t', ht', hn', hd', _⟩ := hE.vars t ht
  refine ⟨t', ?_, hd'⟩
  have := var?_of_mem hnd' ht'
  rw [hn', hn] at this
  exact this

/-- A resolvable, compatible reference stays so when the dataset grows. -/
theorem refOK_mono {F F' : File} (hE : Ext F F') (hnd' : F'.varNames.Nodup)
    {w w' : Var} (hd : w'.dims = w.dims) (hrefs : ∀ r ∈ w.refs, r ∈ w'.refs) (r : Ref)
    (h : refOK F w r = true) : refOK F' w' r = true := by
  have heff := effDims_mono hE hd
  unfold refOK at h ⊢
  cases hk : r.kind <;> simp only [hk] at h ⊢
  all_goals first
    | -- kinds that need the target with dimensions ⊆ effDims
      (cases ht : F.var? r.target with
       | none => simp [ht] at h
       | some t =>
         obtain ⟨t', ht', hdt⟩ := var?_ext hE hnd' ht
         simp only [ht, ht'] at h ⊢
         rw [subsetOf_iff] at h ⊢
         intro x hx
         exact heff x (h x (hdt ▸ hx)))
    | -- bounds / climatology
      (cases ht : F.var? r.target with
       | none => simp [ht] at h
       | some t =>
         obtain ⟨t', ht', hdt⟩ := var?_ext hE hnd' ht
         simp only [ht, ht'] at h ⊢
         rw [hdt, hd]; exact h)
    | -- existence only
      (rw [Option.isSome_iff_exists] at h ⊢
       obtain ⟨t, ht⟩ := h
       obtain ⟨t', ht', _⟩ := var?_ext hE hnd' ht
       exact ⟨t', ht'⟩)
    | -- dimension kinds
      (have : r.target ∈ F.dimNames := by simpa using h
       simpa using hE.dims _ this)
    | skip
  · -- cellMeasures
    cases ht : F.var? r.target with
    | none =>
      simp only [ht] at h
      have hin : r.target ∈ F.external := by simpa using h
      have habs : r.target ∉ F'.varNames := hE.absent _ hin (var?_none_iff.mp ht)
      rw [var?_none_iff.mpr habs]
      simpa using hE.ext _ hin
    | some t =>
      obtain ⟨t', ht', hdt⟩ := var?_ext hE hnd' ht
      simp only [ht, ht'] at h ⊢
      rw [subsetOf_iff] at h ⊢
      intro x hx
      exact heff x (h x (hdt ▸ hx))
  · -- cellMethodAxis
    simp only [Bool.or_eq_true, Bool.and_eq_true] at h ⊢
    rcases h with (h | h) | ⟨h1, h2⟩
    · exact Or.inl (Or.inl (by simpa using heff _ (by simpa using h)))
    · exact Or.inl (Or.inr h)
    · refine Or.inr ⟨by simpa using hrefs _ (by simpa using h1), ?_⟩
      cases ht : F.var? r.target with
      | none => simp [ht] at h2
      | some t =>
        obtain ⟨t', ht', hdt⟩ := var?_ext hE hnd' ht
        simp only [ht] at h2
        simp only [ht', hdt]
        exact h2

/-! ### the core invariant, as propositions -/

theorem wfCore_iff {F : File} : wfCore F = true ↔
    F.dimNames.Nodup ∧ F.varNames.Nodup ∧ ∀ v ∈ F.vars, varOK F v = true := by
  simp [wfCore, distinct_iff, List.all_eq_true, and_assoc]

theorem varOK_iff {F : File} {v : Var} : varOK F v = true ↔
    (∀ d ∈ v.dims, d ∈ F.dimNames) ∧ (∀ r ∈ v.refs, refOK F v r = true) := by
  simp [varOK, List.all_eq_true]

/-- An old variable that keeps its references is still fine in the extended dataset. -/
theorem varOK_mono {F F' : File} (hE : Ext F F') (hnd' : F'.varNames.Nodup) {w : Var}
    (h : varOK F w = true) : varOK F' w = true := by
  rw [varOK_iff] at h ⊢
  exact ⟨fun d hd => hE.dims d (h.1 d hd), fun r hr => refOK_mono hE hnd' rfl (fun _ h => h) r (h.2 r hr)⟩

theorem Ext.refl (F : File) : Ext F F :=
  ⟨fun _ h => h, fun w hw => ⟨w, hw, rfl, rfl, fun _ h => h⟩, fun _ h => h, fun _ _ h => h⟩

/-! ### one step -/

theorem step_dim {F : File} {n : String} {k : Nat} (hwf : wfCore F = true) (hn : n ∉ F.dimNames) :
    wfCore { F with dims := F.dims ++ [(n, k)] } = true := by
  obtain ⟨h1, h2, h3⟩ := wfCore_iff.mp hwf
  have hE : Ext F { F with dims := F.dims ++ [(n, k)] } :=
    ⟨fun d hd => by simp only [File.dimNames, List.map_append, List.mem_append]; exact Or.inl hd,
     fun w hw => ⟨w, hw, rfl, rfl, fun _ h => h⟩, fun _ h => h, fun _ _ h => h⟩
  refine wfCore_iff.mpr ⟨?_, h2, fun v hv => varOK_mono hE h2 (h3 v hv)⟩
  simp only [File.dimNames, List.map_append, List.map_cons, List.map_nil]
  rw [List.nodup_append]
  refine ⟨h1, by simp, ?_⟩
  intro a ha b hb hab
  simp only [List.mem_singleton] at hb
  exact hn (hb ▸ hab ▸ ha)

theorem step_var {F : File} {v : Var} (hwf : wfCore F = true) (hn : v.name ∉ F.varNames)
    (he : v.name ∉ F.external) (hv : varOK (addVar F v) v = true) : wfCore (addVar F v) = true := by
  obtain ⟨h1, h2, h3⟩ := wfCore_iff.mp hwf
  have hnd' : (addVar F v).varNames.Nodup := by
    simp only [addVar, File.varNames, List.map_append, List.map_cons, List.map_nil]
    rw [List.nodup_append]
    refine ⟨h2, by simp, ?_⟩
    intro a ha b hb hab
    simp only [List.mem_singleton] at hb
    exact hn (hb ▸ hab ▸ ha)
  have hE : Ext F (addVar F v) := by
    refine ⟨fun _ h => h, fun w hw => ⟨w, ?_, rfl, rfl, fun _ h => h⟩, fun _ h => h, ?_⟩
    · simp only [addVar, List.mem_append]; exact Or.inl hw
    · intro e hein habs hmem
      simp only [addVar, File.varNames, List.map_append, List.map_cons, List.map_nil, List.mem_append,
        List.mem_singleton] at hmem
      rcases hmem with h | h
      · exact habs h
      · exact he (h ▸ hein)
  refine wfCore_iff.mpr ⟨h1, hnd', ?_⟩
  intro w hw
  simp only [addVar, List.mem_append, List.mem_singleton] at hw
  rcases hw with hw | rfl
  · exact varOK_mono hE hnd' (h3 w hw)
  · exact hv

theorem step_ext {F : File} {e : String} (hwf : wfCore F = true) (hn : e ∉ F.varNames) :
    wfCore { F with external := F.external ++ [e] } = true := by
  obtain ⟨h1, h2, h3⟩ := wfCore_iff.mp hwf
  have hE : Ext F { F with external := F.external ++ [e] } :=
    ⟨fun _ h => h, fun w hw => ⟨w, hw, rfl, rfl, fun _ h => h⟩,
     fun x h => by simp only [List.mem_append]; exact Or.inl h, fun _ _ h => h⟩
  exact wfCore_iff.mpr ⟨h1, h2, fun v hv => varOK_mono hE h2 (h3 v hv)⟩

theorem setRef_names (F : File) (n : String) (r : Ref) : (setRef F n r).varNames = F.varNames := by
  simp only [setRef, File.varNames, List.map_map]
  apply List.map_congr_left
  intro w _
  simp only [Function.comp, addRefTo]
  split <;> rfl

theorem step_addRef {F : File} {n : String} {r : Ref} {w : Var} (hwf : wfCore F = true)
    (hw : F.var? n = some w)
    (hok : refOK (setRef F n r) (addRefTo r n w) r = true) : wfCore (setRef F n r) = true := by
  obtain ⟨h1, h2, h3⟩ := wfCore_iff.mp hwf
  obtain ⟨hwm, hwn⟩ := var?_some_mem hw
  have hnd' : (setRef F n r).varNames.Nodup := by rw [setRef_names]; exact h2
  have hE : Ext F (setRef F n r) := by
    refine ⟨fun _ h => h, ?_, fun _ h => h, ?_⟩
    · intro x hx
      refine ⟨addRefTo r n x, List.mem_map.mpr ⟨x, hx, rfl⟩, ?_, ?_, ?_⟩
      · simp only [addRefTo]; split <;> rfl
      · simp only [addRefTo]; split <;> rfl
      · intro q hq
        simp only [addRefTo]
        split
        · exact List.mem_append_left _ hq
        · exact hq
    · intro e _ habs
      rw [setRef_names]; exact habs
  refine wfCore_iff.mpr ⟨h1, hnd', ?_⟩
  intro x' hx'
  obtain ⟨x, hx, rfl⟩ := List.mem_map.mp hx'
  have hxok := varOK_iff.mp (h3 x hx)
  by_cases hxn : x.name = n
  · -- the variable that gains the reference
    have hxw : x = w := by
      have := var?_of_mem h2 hx
      rw [hxn, hw] at this
      injection this with this
      exact this.symm
    subst hxw
    have hform : addRefTo r n x = { x with refs := x.refs ++ [r] } := by
      simp [addRefTo, hxn]
    rw [varOK_iff]
    refine ⟨?_, ?_⟩
    · intro d hd
      have : d ∈ x.dims := by rw [hform] at hd; exact hd
      exact hE.dims d (hxok.1 d this)
    · intro q hq
      rw [hform] at hq
      simp only [List.mem_append, List.mem_singleton] at hq
      rcases hq with hq | rfl
      · refine refOK_mono hE hnd' ?_ ?_ q (hxok.2 q hq)
        · rw [hform]
        · intro q' hq'; rw [hform]; exact List.mem_append_left _ hq'
      · exact hok
  · have hsame : addRefTo r n x = x := by
      have : (x.name == n) = false := by simpa using hxn
      simp [addRefTo, this]
    rw [hsame]
    exact varOK_mono hE hnd' (h3 x hx)

/-- Every guarded emission step preserves the core invariant. -/
theorem applyStep_wfCore {F F' : File} (s : Step) (hwf : wfCore F = true) (h : applyStep F s = some F') :
    wfCore F' = true := by
  cases s with
  | dim n k =>
    simp only [applyStep] at h
    split at h
    · cases h
    · rename_i hn
      injection h with h; subst h
      exact step_dim hwf (by simpa using hn)
  | var v =>
    simp only [applyStep] at h
    split at h
    · cases h
    · rename_i hn
      simp only [Bool.or_eq_true, not_or, Bool.not_eq_true] at hn
      split at h
      · rename_i hv
        injection h with h; subst h
        exact step_var hwf (by simpa using hn.1) (by simpa using hn.2) hv
      · cases h
  | addRef n r =>
    simp only [applyStep] at h
    split at h
    · cases h
    · rename_i w hw
      split at h
      · rename_i hc
        injection h with h; subst h
        exact step_addRef hwf hw hc
      · cases h
  | ext e =>
    simp only [applyStep] at h
    split at h
    · cases h
    · rename_i hn
      injection h with h; subst h
      exact step_ext hwf (by simpa using hn)

theorem applySteps_wfCore : ∀ (ss : List Step) {F F' : File}, wfCore F = true → applySteps F ss = some F' →
    wfCore F' = true
  | [], F, F', hwf, h => by simp only [applySteps] at h; injection h with h; exact h ▸ hwf
  | s :: ss, F, F', hwf, h => by
    simp only [applySteps] at h
    split at h
    · cases h
    · rename_i F₁ h₁
      exact applySteps_wfCore ss (applyStep_wfCore s hwf h₁) h

end Cfdm.NcFile
