import Cfdm.Model.FilesPath
/-
C10 — lemmas on the path model: chains of symbolic links, what each operating-system call can
change, stability of reads.  Core Lean only.
-/
namespace Cfdm.FilesPath

theorem setFn_eq {β : Type} (f : Nat → β) (a : Nat) (b : β) : setFn f a b a = b := by simp [setFn]
theorem setFn_ne {β : Type} (f : Nat → β) (a x : Nat) (b : β) (h : x ≠ a) : setFn f a b x = f x := by simp [setFn, h]

/-! ## chains of symbolic links -/

theorem OS.walk_succ' (os : OS) : ∀ (k : Nat) (e : Ent), os.walk (k + 1) e = os.step (os.walk k e)
  | 0, _ => rfl
  | k + 1, e => by
    show os.walk (k + 1) (os.step e) = os.step (os.walk k (os.step e))
    exact OS.walk_succ' os k (os.step e)

/-- every chain ends within `k` links -/
def Settled (os : OS) (k : Nat) : Prop := ∀ e, os.step (os.walk k e) = os.walk k e

theorem walk_step_of_settled (os : OS) (k : Nat) (h : Settled os k) (e : Ent) : os.walk k (os.step e) = os.walk k e := by
  have h1 : os.walk k (os.step e) = os.walk (k + 1) e := rfl
  rw [h1, OS.walk_succ', h e]

theorem walk_of_terminal (os : OS) (z : Ent) (hz : os.step z = z) : ∀ j, os.walk j z = z
  | 0 => rfl
  | j + 1 => by
    show os.walk j (os.step z) = z
    rw [hz]; exact walk_of_terminal os z hz j

/-- a chain that passes through `m` ends where the chain of `m` ends -/
theorem walk_visit (os : OS) (k : Nat) (h : Settled os k) : ∀ (j : Nat) (e m : Ent), os.walk j e = m → os.walk k e = os.walk k m
  | 0, e, m, hv => by simp only [OS.walk] at hv; rw [hv]
  | j + 1, e, m, hv => by
    have := walk_visit os k h j (os.step e) m hv
    rw [walk_step_of_settled os k h] at this
    exact this

theorem walk_walk_of_settled (os : OS) (k : Nat) (h : Settled os k) (e : Ent) : ∀ j, os.walk j (os.walk k e) = os.walk k e :=
  walk_of_terminal os _ (h e)

/-- the chain from `e` never comes to an entry of `M` -/
def Avoids (os : OS) (e : Ent) (M : List Ent) : Prop := ∀ j, os.walk j e ∉ M

theorem Avoids.step {os : OS} {e : Ent} {M : List Ent} (h : Avoids os e M) : Avoids os (os.step e) M :=
  fun j => h (j + 1)

/-- entries outside `M` are what they were: chains that avoid `M` are what they were -/
theorem walk_frame (os os' : OS) (M : List Ent) (hM : ∀ e, e ∉ M → os'.ent e = os.ent e) :
    ∀ (j : Nat) (e : Ent), Avoids os e M → os'.walk j e = os.walk j e
  | 0, _, _ => rfl
  | j + 1, e, ha => by
    have he : e ∉ M := ha 0
    have hs : os'.step e = os.step e := by simp only [OS.step, hM e he]
    show os'.walk j (os'.step e) = os.walk j (os.step e)
    rw [hs]
    exact walk_frame os os' M hM j (os.step e) ha.step

/-- one entry became a regular file (or vanished): a chain ends where it ended, or there -/
theorem walk_one_changed (os os' : OS) (m : Ent) (hM : ∀ e, e ≠ m → os'.ent e = os.ent e) (hm : os'.step m = m) :
    ∀ (j : Nat) (e : Ent), os'.walk j e = os.walk j e ∨ os'.walk j e = m
  | 0, _ => Or.inl rfl
  | j + 1, e => by
    by_cases he : e = m
    · right
      subst he
      exact walk_of_terminal os' e hm (j + 1)
    · have hs : os'.step e = os.step e := by simp only [OS.step, hM e he]
      show os'.walk j (os'.step e) = os.walk j (os.step e) ∨ os'.walk j (os'.step e) = m
      rw [hs]
      exact walk_one_changed os os' m hM hm j (os.step e)

/-! ## what a call can change -/

/-- `os'` differs from `os` at most in the entries `M` and in the contents of the inodes `I`
(and of inodes that did not exist) -/
structure Frame (os os' : OS) (M : List Ent) (I : List Ino) : Prop where
  ent : ∀ e, e ∉ M → os'.ent e = os.ent e
  store : ∀ i, i < os.next → i ∉ I → os'.store i = os.store i
  next : os.next ≤ os'.next

theorem Frame.refl (os : OS) : Frame os os [] [] := ⟨fun _ _ => rfl, fun _ _ _ => rfl, Nat.le_refl _⟩

theorem Frame.trans {os os1 os2 : OS} {M1 M2 : List Ent} {I1 I2 : List Ino}
    (h1 : Frame os os1 M1 I1) (h2 : Frame os1 os2 M2 I2) : Frame os os2 (M1 ++ M2) (I1 ++ I2) where
  ent := by
    intro e he
    simp only [List.mem_append, not_or] at he
    rw [h2.ent e he.2, h1.ent e he.1]
  store := by
    intro i hi hI
    simp only [List.mem_append, not_or] at hI
    rw [h2.store i (Nat.lt_of_lt_of_le hi h1.next) hI.2, h1.store i hi hI.1]
  next := Nat.le_trans h1.next h2.next

theorem Frame.mono {os os' : OS} {M M' : List Ent} {I I' : List Ino} (h : Frame os os' M I)
    (hM : ∀ e ∈ M, e ∈ M') (hI : ∀ i ∈ I, i ∈ I') : Frame os os' M' I' where
  ent := fun e he => h.ent e (fun hc => he (hM e hc))
  store := fun i hi hn => h.store i hi (fun hc => hn (hI i hc))
  next := h.next

/-- every inode in use has been handed out -/
def InoWF (os : OS) : Prop := ∀ e i, os.ent e = some (.file i) → i < os.next

theorem read_preserved (env : Env) (os os' : OS) (M : List Ent) (I : List Ino) (n : Raw)
    (hF : Frame os os' M I) (hwf : InoWF os) (ha : Avoids os (env.entOf n) M)
    (hi : ∀ i, inoOf env os n = some i → i ∉ I) : readName env os' n = readName env os n := by
  have hfin : final env os' n = final env os n := walk_frame os os' M hF.ent env.fuel (env.entOf n) ha
  have hz : final env os n ∉ M := ha env.fuel
  have hent : os'.ent (final env os n) = os.ent (final env os n) := hF.ent _ hz
  have hino : inoOf env os' n = inoOf env os n := by
    simp only [inoOf, hfin, OS.inoAt, hent]
  simp only [readName, hino]
  cases h : inoOf env os n with
  | none => rfl
  | some i =>
    simp only [Option.map_some, Option.some.injEq]
    have hlt : i < os.next := by
      simp only [inoOf, OS.inoAt] at h
      split at h
      · rename_i i' he
        simp only [Option.some.injEq] at h
        subst h
        exact hwf _ _ he
      · simp at h
    exact hF.store i hlt (hi i h)

theorem frame_remove (env : Env) (os : OS) (s : Raw) : Frame os (osRemove env os s) [env.entOf s] [] where
  ent := by
    intro e he
    simp only [List.mem_singleton] at he
    simp [osRemove, setFn, he]
  store := fun _ _ _ => rfl
  next := Nat.le_refl _

theorem frame_append (os : OS) (i : Ino) (x : Nat) : Frame os (osAppend os i x) [] [i] where
  ent := fun _ _ => rfl
  store := by
    intro j _ hj
    simp only [List.mem_singleton] at hj
    simp [osAppend, setFn, hj]
  next := Nat.le_refl _

theorem frame_emit (env : Env) (os0 : OS) (fault : Fault) (skip : Bool) (i : Ino) (tok : Nat → Nat) :
    ∀ (fs : List FieldA) (os : OS) (k : Nat), Frame os (emit env os0 fault skip i tok os k fs).1 [] [i]
  | [], os, _ => by
    simp only [emit]
    exact (Frame.refl os).mono (fun _ h => h) (fun _ h => by simp at h)
  | f :: rest, os, k => by
    simp only [emit]
    split
    · exact (Frame.refl os).mono (fun _ h => h) (fun _ h => by simp at h)
    · have h1 := frame_append os i (tok k)
      have h2 := frame_emit env os0 fault skip i tok rest (osAppend os i (tok k)) (k + 1)
      exact (h1.trans h2).mono (fun _ h => by simp at h) (fun _ h => by simpa using h)

/-- `Dataset(s, 'w')` on a name that does not resolve to a regular file: a new inode appears at
the entry the name resolves to -/
theorem create_fresh (env : Env) (os os' : OS) (s : Raw) (i : Ino)
    (hnf : inoOf env os s = none) (h : osCreate env os s = some (os', i)) :
    i = os.next ∧ os'.ent = setFn os.ent (final env os s) (some (.file os.next)) ∧
      os'.store = setFn os.store os.next [] ∧ os'.next = os.next + 1 ∧ os.ent (final env os s) = none := by
  simp only [osCreate] at h
  split at h
  · rename_i he
    simp only [Option.some.injEq, Prod.mk.injEq] at h
    obtain ⟨h1, h2⟩ := h
    subst h1
    exact ⟨h2.symm, rfl, rfl, rfl, he⟩
  · rename_i j he
    simp [inoOf, OS.inoAt, he] at hnf
  · simp at h
  · simp at h

theorem frame_create_fresh (env : Env) (os os' : OS) (s : Raw) (i : Ino)
    (hnf : inoOf env os s = none) (h : osCreate env os s = some (os', i)) :
    Frame os os' [final env os s] [] := by
  obtain ⟨_, he, hs, hn, _⟩ := create_fresh env os os' s i hnf h
  refine ⟨?_, ?_, ?_⟩
  · intro e hem
    simp only [List.mem_singleton] at hem
    rw [he]; exact setFn_ne _ _ _ _ hem
  · intro j hj _
    rw [hs]; exact setFn_ne _ _ _ _ (Nat.ne_of_lt hj)
  · rw [hn]; exact Nat.le_succ _

/-- after `os.remove(s)` the name resolves to its own (now absent) entry -/
theorem final_after_remove (env : Env) (os : OS) (s : Raw) : final env (osRemove env os s) s = env.entOf s := by
  apply walk_of_terminal
  simp [OS.step, osRemove, setFn]

theorem inoOf_after_remove (env : Env) (os : OS) (s : Raw) : inoOf env (osRemove env os s) s = none := by
  unfold inoOf
  rw [final_after_remove]
  simp [OS.inoAt, osRemove, setFn]

theorem inoOf_some {env : Env} {os : OS} {s : Raw} {i : Ino} (h : inoOf env os s = some i) :
    os.ent (final env os s) = some (.file i) := by
  simp only [inoOf, OS.inoAt] at h
  split at h
  · rename_i j he
    simp only [Option.some.injEq] at h
    subst h
    exact he
  · simp at h

theorem isfile_false_iff (env : Env) (os : OS) (s : Raw) : isfile env os s = false ↔ inoOf env os s = none := by
  simp [isfile]

end Cfdm.FilesPath
