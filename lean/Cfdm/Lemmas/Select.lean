import Cfdm.Model.Select
/- Helper lemmas for C18 (core Lean only). -/
namespace Cfdm.Select

/-! ### value loops -/

theorem firstMatch_eq_true {v : String} {qs : List Q} :
    firstMatch v qs = true ↔ ∃ q ∈ qs, q.matches v = true := by
  induction qs with
  | nil => simp [firstMatch]
  | cons q rest ih =>
    simp only [firstMatch, List.mem_cons]
    by_cases h : q.matches v = true
    · simp [h]
    · simp only [h, Bool.false_eq_true, if_false, ih]
      constructor
      · rintro ⟨q', hq', hm⟩; exact ⟨q', Or.inr hq', hm⟩
      · rintro ⟨q', hq' | hq', hm⟩
        · subst hq'; exact absurd hm h
        · exact ⟨q', hq', hm⟩

theorem firstHit_some {v : String} {qs : List Q} {q : Q} (h : firstHit v qs = some q) :
    q ∈ qs ∧ q.matches v = true := by
  induction qs with
  | nil => simp [firstHit] at h
  | cons a rest ih =>
    simp only [firstHit] at h
    by_cases hm : a.matches v = true
    · simp only [hm, if_true, Option.some.injEq] at h
      subst h; exact ⟨List.mem_cons_self, hm⟩
    · simp only [hm, Bool.false_eq_true, if_false] at h
      exact ⟨List.mem_cons_of_mem _ (ih h).1, (ih h).2⟩

theorem firstHit_exists {v : String} {qs : List Q} {q : Q} (hq : q ∈ qs) (hm : q.matches v = true) :
    ∃ q', firstHit v qs = some q' := by
  induction qs with
  | nil => cases hq
  | cons a rest ih =>
    simp only [firstHit]
    by_cases ha : a.matches v = true
    · exact ⟨a, by simp [ha]⟩
    · simp only [ha, Bool.false_eq_true, if_false]
      rcases List.mem_cons.mp hq with h | h
      · subst h; exact absurd hm ha
      · exact ih h

/-! ### keys -/

theorem eq_of_key_eq {cs : List Construct} (h : (cs.map (·.key)).Nodup) {a b : Construct}
    (ha : a ∈ cs) (hb : b ∈ cs) (hk : a.key = b.key) : a = b := by
  induction cs with
  | nil => cases ha
  | cons x xs ih =>
    simp only [List.map_cons, List.nodup_cons, List.mem_map, not_exists, not_and] at h
    rcases List.mem_cons.mp ha with ha1 | ha1 <;> rcases List.mem_cons.mp hb with hb1 | hb1
    · rw [ha1, hb1]
    · rw [ha1] at hk; exact absurd hk.symm (h.1 b hb1)
    · rw [hb1] at hk; exact absurd hk (h.1 a ha1)
    · exact ih h.2 ha1 hb1

theorem WF.of_sublist {l cs : List Construct} (hs : l.Sublist cs) (h : WF cs) : WF l where
  keysNodup := List.Nodup.sublist (hs.map _) h.keysNodup
  keysPlain := fun c hc => h.keysPlain c (hs.subset hc)
  bareFirst := fun c hc => h.bareFirst c (hs.subset hc)
  noForeignKey := fun c hc s hsid c' hc' hk => h.noForeignKey c (hs.subset hc) s hsid c' (hs.subset hc') hk

/-! ### the key pre-pass -/

/-- a value consumed by the pre-pass -/
def Consumed (keys : List String) (q : Q) : Prop :=
  ∃ s, q = .str s ∧ (s ∈ keys ∨ ∃ k, stripKeyPrefix s = some k ∧ k ∈ keys)

theorem prepass_matched {keys : List String} {qs : List Q} {k : String} :
    k ∈ (prepass keys qs).1 ↔
      ∃ q ∈ qs, ∃ s, q = .str s ∧ ((s = k ∧ k ∈ keys) ∨ (s ∉ keys ∧ stripKeyPrefix s = some k ∧ k ∈ keys)) := by
  induction qs with
  | nil => simp [prepass]
  | cons q rest ih =>
    cases q with
    | str s =>
      simp only [prepass, List.mem_cons, List.contains_iff_mem]
      by_cases hs : s ∈ keys
      · simp only [hs, if_true, List.mem_cons, ih]
        constructor
        · rintro (h | ⟨q', hq', hh⟩)
          · exact ⟨.str s, Or.inl rfl, s, rfl, Or.inl ⟨h.symm, h ▸ hs⟩⟩
          · exact ⟨q', Or.inr hq', hh⟩
        · rintro ⟨q', hq' | hq', s', hs', hh⟩
          · subst hq'
            cases hs'
            rcases hh with ⟨h1, _⟩ | ⟨h1, _⟩
            · exact Or.inl h1.symm
            · exact absurd hs h1
          · exact Or.inr ⟨q', hq', s', hs', hh⟩
      · simp only [hs, if_false]
        cases hst : stripKeyPrefix s with
        | none =>
          simp only [ih]
          constructor
          · rintro ⟨q', hq', hh⟩; exact ⟨q', Or.inr hq', hh⟩
          · rintro ⟨q', hq' | hq', s', hs', hh⟩
            · subst hq'
              cases hs'
              rcases hh with ⟨h1, h2⟩ | ⟨_, h2, _⟩
              · exact absurd (h1 ▸ h2) hs
              · rw [hst] at h2; cases h2
            · exact ⟨q', hq', s', hs', hh⟩
        | some k' =>
          by_cases hk' : k' ∈ keys
          · simp only [hk', if_true, List.mem_cons, ih]
            constructor
            · rintro (h | ⟨q', hq', hh⟩)
              · exact ⟨.str s, Or.inl rfl, s, rfl, Or.inr ⟨hs, h ▸ hst, h ▸ hk'⟩⟩
              · exact ⟨q', Or.inr hq', hh⟩
            · rintro ⟨q', hq' | hq', s', hs', hh⟩
              · subst hq'
                cases hs'
                rcases hh with ⟨h1, h2⟩ | ⟨_, h2, _⟩
                · exact absurd (h1 ▸ h2) hs
                · rw [hst] at h2; cases h2; exact Or.inl rfl
              · exact Or.inr ⟨q', hq', s', hs', hh⟩
          · simp only [hk', if_false, ih]
            constructor
            · rintro ⟨q', hq', hh⟩; exact ⟨q', Or.inr hq', hh⟩
            · rintro ⟨q', hq' | hq', s', hs', hh⟩
              · subst hq'
                cases hs'
                rcases hh with ⟨h1, h2⟩ | ⟨_, h2, h3⟩
                · exact absurd (h1 ▸ h2) hs
                · rw [hst] at h2; cases h2; exact absurd h3 hk'
              · exact ⟨q', hq', s', hs', hh⟩
    | pat a =>
      simp only [prepass, ih, List.mem_cons]
      constructor
      · rintro ⟨q', hq', hh⟩; exact ⟨q', Or.inr hq', hh⟩
      · rintro ⟨q', hq' | hq', s', hs', hh⟩
        · subst hq'; cases hs'
        · exact ⟨q', hq', s', hs', hh⟩
    | int i =>
      simp only [prepass, ih, List.mem_cons]
      constructor
      · rintro ⟨q', hq', hh⟩; exact ⟨q', Or.inr hq', hh⟩
      · rintro ⟨q', hq' | hq', s', hs', hh⟩
        · subst hq'; cases hs'
        · exact ⟨q', hq', s', hs', hh⟩
    | num dt sc vs =>
      simp only [prepass, ih, List.mem_cons]
      constructor
      · rintro ⟨q', hq', hh⟩; exact ⟨q', Or.inr hq', hh⟩
      · rintro ⟨q', hq' | hq', s', hs', hh⟩
        · subst hq'; cases hs'
        · exact ⟨q', hq', s', hs', hh⟩

/-- `identities2` is empty exactly when every value was consumed. -/
theorem prepass_rest_nil {keys : List String} {qs : List Q} :
    (prepass keys qs).2.2 = [] ↔ ∀ q ∈ qs, Consumed keys q := by
  induction qs with
  | nil => simp [prepass]
  | cons q rest ih =>
    cases q with
    | str s =>
      simp only [prepass, List.contains_iff_mem, List.mem_cons, forall_eq_or_imp]
      by_cases hs : s ∈ keys
      · simp only [hs, if_true, ih]
        exact ⟨fun h => ⟨⟨s, rfl, Or.inl hs⟩, h⟩, fun h => h.2⟩
      · simp only [hs, if_false]
        cases hst : stripKeyPrefix s with
        | none =>
          simp only [List.cons_ne_nil, false_iff, not_and]
          intro h
          obtain ⟨s', hs', hh⟩ := h
          cases hs'
          rcases hh with h | ⟨k, hk, _⟩
          · exact absurd h hs
          · rw [hst] at hk; cases hk
        | some k' =>
          by_cases hk' : k' ∈ keys
          · simp only [hk', if_true, ih]
            exact ⟨fun h => ⟨⟨s, rfl, Or.inr ⟨k', hst, hk'⟩⟩, h⟩, fun h => h.2⟩
          · simp only [hk', if_false, List.cons_ne_nil, false_iff, not_and]
            intro h
            obtain ⟨s', hs', hh⟩ := h
            cases hs'
            rcases hh with h | ⟨k, hk, hkk⟩
            · exact absurd h hs
            · rw [hst] at hk; cases hk; exact absurd hkk hk'
    | pat a =>
      simp only [prepass, List.cons_ne_nil, false_iff, List.mem_cons, forall_eq_or_imp, not_and]
      intro h; obtain ⟨s, hs, _⟩ := h; cases hs
    | int i =>
      simp only [prepass, List.cons_ne_nil, false_iff, List.mem_cons, forall_eq_or_imp, not_and]
      intro h; obtain ⟨s, hs, _⟩ := h; cases hs
    | num dt sc vs =>
      simp only [prepass, List.cons_ne_nil, false_iff, List.mem_cons, forall_eq_or_imp, not_and]
      intro h; obtain ⟨s, hs, _⟩ := h; cases hs

/-! ### the interleaved generators -/

theorem maxLen_ge {gens : List (String × List String)} {g : String × List String} (hg : g ∈ gens) :
    g.2.length ≤ maxLen gens := by
  induction gens with
  | nil => cases hg
  | cons x xs ih =>
    simp only [maxLen, List.foldr_cons]
    rcases List.mem_cons.mp hg with h | h
    · subst h; exact Nat.le_max_left _ _
    · exact Nat.le_trans (ih h) (Nat.le_max_right _ _)

theorem mem_interleave {qs : List Q} {gens : List (String × List String)} {k : String} {q : Q} :
    (k, q) ∈ interleave qs gens ↔
      ∃ g ∈ gens, g.1 = k ∧ ∃ (r : Nat) (v : String), g.2[r]? = some v ∧ firstHit v qs = some q := by
  simp only [interleave, List.mem_flatMap, List.mem_range, roundHits, List.mem_filterMap]
  constructor
  · rintro ⟨r, _, g, hg, h⟩
    cases hv : g.2[r]? with
    | none => simp [hv] at h
    | some v =>
      simp only [hv, Option.map_eq_some_iff] at h
      obtain ⟨q', hq', heq⟩ := h
      cases heq
      exact ⟨g, hg, rfl, r, v, hv, hq'⟩
  · rintro ⟨g, hg, hk, r, v, hv, hq⟩
    have hr : r < g.2.length := by
      have := List.getElem?_eq_some_iff.mp hv
      exact this.1
    refine ⟨r, Nat.lt_of_lt_of_le hr (maxLen_ge hg), g, hg, ?_⟩
    simp [hv, hq, hk]

theorem mem_interleave_keys {qs : List Q} {gens : List (String × List String)} {k : String} :
    k ∈ (interleave qs gens).map (·.1) ↔
      ∃ g ∈ gens, g.1 = k ∧ ∃ v ∈ g.2, ∃ q ∈ qs, q.matches v = true := by
  simp only [List.mem_map]
  constructor
  · rintro ⟨⟨k', q⟩, h, hk⟩
    simp only at hk
    subst hk
    obtain ⟨g, hg, hgk, r, v, hv, hq⟩ := mem_interleave.mp h
    exact ⟨g, hg, hgk, v, List.mem_of_getElem? hv, q, (firstHit_some hq).1, (firstHit_some hq).2⟩
  · rintro ⟨g, hg, hgk, v, hv, q, hq, hm⟩
    obtain ⟨q', hq'⟩ := firstHit_exists hq hm
    obtain ⟨r, hr⟩ := List.mem_iff_getElem?.mp hv
    exact ⟨(k, q'), mem_interleave.mpr ⟨g, hg, hgk, r, v, hr, hq'⟩, rfl⟩

/-! ### short iteration -/

theorem idsFor_subset {short : Bool} {c : Construct} {s : String} (h : s ∈ c.idsFor short) :
    s ∈ c.identities := by
  cases short with
  | false => simpa [Construct.idsFor] using h
  | true =>
    simp only [Construct.idsFor, if_true, List.mem_append] at h
    simp only [Construct.identities, List.mem_append]
    rcases h with (h | h) | h
    · exact Or.inl (Or.inl h)
    · exact Or.inl (Or.inr (List.mem_of_mem_take h))
    · exact Or.inr (List.mem_of_mem_take h)

theorem mem_take_or_drop {α} {l : List α} {a : α} (n : Nat) (h : a ∈ l) : a ∈ l.take n ∨ a ∈ l.drop n := by
  rw [← List.take_append_drop n l] at h
  exact List.mem_append.mp h

/-- The `short` generator still yields every identity that a bare string can equal. -/
theorem short_complete {c : Construct} {s : String}
    (hb : (∀ s ∈ c.idBody.drop 1, bareStr s = false) ∧ (∀ s ∈ c.idPost.drop 1, bareStr s = false))
    (hs : s ∈ c.identities) (hbare : bareStr s = true) : s ∈ c.idsFor true := by
  simp only [Construct.identities, List.mem_append] at hs
  simp only [Construct.idsFor, if_true, List.mem_append]
  rcases hs with (h | h) | h
  · exact Or.inl (Or.inl h)
  · rcases mem_take_or_drop 1 h with h1 | h1
    · exact Or.inl (Or.inr h1)
    · rw [hb.1 s h1] at hbare; cases hbare
  · rcases mem_take_or_drop 1 h with h1 | h1
    · exact Or.inr h1
    · rw [hb.2 s h1] at hbare; cases hbare

theorem bare_str {q : Q} (h : q.bare = true) : ∃ t, q = .str t ∧ bareStr t = true := by
  cases q with
  | str t => exact ⟨t, rfl, h⟩
  | pat a => simp [Q.bare] at h
  | int i => simp [Q.bare] at h
  | num dt sc vs => simp [Q.bare] at h

theorem str_matches {t s : String} : (Q.str t).matches s = true ↔ t = s := by
  simp [Q.matches]

/-- The loop with its `break` computes the conjunction over all the values. -/
theorem shortFlag_eq_all (qs : List Q) : shortFlag qs = qs.all Q.bare := by
  induction qs with
  | nil => rfl
  | cons q rest ih =>
    simp only [shortFlag, List.all_cons, ih]
    cases q.bare <;> simp

/-! ### `_filter_by_identity` -/

theorem keyMatch_iff {cs : List Construct} {qs : List Q} {c : Construct} (hwf : WF cs) (hc : c ∈ cs) :
    c.key ∈ (prepass (cs.map (·.key)) qs).1 ↔ ∃ q ∈ qs, KeyMatch c q := by
  have hck : c.key ∈ cs.map (·.key) := List.mem_map.mpr ⟨c, hc, rfl⟩
  rw [prepass_matched]
  constructor
  · rintro ⟨q, hq, s, hs, h⟩
    refine ⟨q, hq, ?_⟩
    rcases h with ⟨h1, _⟩ | ⟨_, h2, _⟩
    · exact Or.inl (by rw [hs, h1])
    · exact Or.inr ⟨s, hs, h2⟩
  · rintro ⟨q, hq, h⟩
    refine ⟨q, hq, ?_⟩
    rcases h with h | ⟨s, hs, h2⟩
    · exact ⟨c.key, h, Or.inl ⟨rfl, hck⟩⟩
    · refine ⟨s, hs, Or.inr ⟨?_, h2, hck⟩⟩
      intro hmem
      obtain ⟨c', hc', hk'⟩ := List.mem_map.mp hmem
      have := hwf.keysPlain c' hc'
      have hk' : c'.key = s := hk'
      rw [hk', h2] at this
      cases this

theorem mem_constructs {cs : List Construct} {m : List String} {c : Construct} :
    c ∈ (if m.isEmpty then cs else cs.filter fun c => !m.contains c.key) ↔ c ∈ cs ∧ c.key ∉ m := by
  cases m with
  | nil => simp
  | cons a l => simp [List.mem_filter]

theorem mem_matched {cs : List Construct} {qs : List Q} {c : Construct} (hwf : WF cs) (hc : c ∈ cs) :
    c.key ∈ (identityCore Construct.idsFor cs qs).matched ↔ MatchesIdentity c qs := by
  simp only [identityCore, shortFlag_eq_all]
  by_cases hE : (prepass (cs.map (·.key)) qs).2.2 = []
  · simp only [hE, List.isEmpty_nil, if_true]
    rw [keyMatch_iff hwf hc]
    constructor
    · exact fun h => Or.inl h
    · rintro (h | ⟨q, hq, s, hs, hm⟩)
      · exact h
      · obtain ⟨t, ht, hcons⟩ := prepass_rest_nil.mp hE q hq
        subst ht
        have hts : t = s := str_matches.mp hm
        subst hts
        rcases hcons with h | ⟨k, hk, hkk⟩
        · obtain ⟨c', hc', hk'⟩ := List.mem_map.mp h
          have hk' : c'.key = t := hk'
          have := hwf.noForeignKey c hc t hs c' hc' (Or.inl hk'.symm)
          exact ⟨.str t, hq, Or.inl (by rw [← this, hk'])⟩
        · obtain ⟨c', hc', hk'⟩ := List.mem_map.mp hkk
          have hk' : c'.key = k := hk'
          have := hwf.noForeignKey c hc t hs c' hc' (Or.inr (by rw [hk', hk]))
          exact ⟨.str t, hq, Or.inr ⟨t, rfl, by rw [hk, ← hk', this]⟩⟩
  · have hE' : (prepass (cs.map (·.key)) qs).2.2.isEmpty = false := by
      cases h : (prepass (cs.map (·.key)) qs).2.2 with
      | nil => exact absurd h hE
      | cons a l => rfl
    simp only [hE', Bool.false_eq_true, if_false, List.mem_append, mem_interleave_keys]
    rw [keyMatch_iff hwf hc]
    constructor
    · rintro (h | ⟨g, hg, hgk, v, hv, q, hq, hm⟩)
      · exact Or.inl h
      · obtain ⟨c'', hc'', hg'⟩ := List.mem_map.mp hg
        subst hg'
        have hc''cs : c'' ∈ cs := (mem_constructs.mp hc'').1
        have : c'' = c := eq_of_key_eq hwf.keysNodup hc''cs hc hgk
        subst this
        exact Or.inr ⟨q, hq, v, idsFor_subset hv, hm⟩
    · rintro (h | ⟨q, hq, s, hs, hm⟩)
      · exact Or.inl h
      · by_cases hkm : c.key ∈ (prepass (cs.map (·.key)) qs).1
        · exact Or.inl ((keyMatch_iff hwf hc).mp hkm)
        · refine Or.inr ⟨(c.key, c.idsFor (qs.all Q.bare)), List.mem_map.mpr ⟨c, mem_constructs.mpr ⟨hc, hkm⟩, rfl⟩, rfl, s, ?_, q, hq, hm⟩
          cases hsh : qs.all Q.bare with
          | false => simpa [Construct.idsFor] using hs
          | true =>
            obtain ⟨t, ht, hbt⟩ := bare_str (List.all_eq_true.mp hsh q hq)
            subst ht
            have hts : t = s := str_matches.mp hm
            subst hts
            exact short_complete (hwf.bareFirst c hc) hs hbt

theorem mem_filterByIdentity {cs : List Construct} {qs : List Q} {c : Construct} (hwf : WF cs) :
    c ∈ filterByIdentity cs qs ↔ c ∈ cs ∧ (qs = [] ∨ MatchesIdentity c qs) := by
  simp only [filterByIdentity, filterByIdentityWith]
  cases qs with
  | nil => simp
  | cons q rest =>
    simp only [List.isEmpty_cons, Bool.false_eq_true, if_false, List.mem_filter, List.contains_iff_mem,
      List.cons_ne_nil, false_or]
    constructor
    · rintro ⟨hc, hm⟩; exact ⟨hc, (mem_matched hwf hc).mp hm⟩
    · rintro ⟨hc, hm⟩; exact ⟨hc, (mem_matched hwf hc).mpr hm⟩

/-! ### type / data / naxes / size -/

theorem ctype_mem_all (t : CType) : t ∈ CType.all := by
  cases t <;> simp [CType.all]

theorem mem_byTypeDict {ts : List CType} {cs : List Construct} {c : Construct} :
    c ∈ byTypeDict ts cs ↔ c ∈ cs ∧ (ts = [] ∨ c.ctype ∈ ts) := by
  cases ts with
  | nil => simp [byTypeDict]
  | cons t l => simp [byTypeDict, List.mem_filter]

theorem mem_byTypeColl {ts : List CType} {cs : List Construct} {c : Construct} :
    c ∈ byTypeColl ts cs ↔ c ∈ cs ∧ (ts = [] ∨ c.ctype ∈ ts) := by
  cases ts with
  | nil => simp [byTypeColl]
  | cons t l =>
    simp only [byTypeColl, List.isEmpty_cons, Bool.false_eq_true, if_false, List.mem_filter,
      Bool.not_eq_true', List.cons_ne_nil, false_or]
    constructor
    · rintro ⟨hc, h⟩
      refine ⟨hc, ?_⟩
      have h' : ¬ c.ctype ∈ CType.all.filter fun t' => !(t :: l).contains t' := by
        intro hm; rw [List.contains_iff_mem.mpr hm] at h; cases h
      simp only [List.mem_filter, ctype_mem_all, true_and, Bool.not_eq_true', Bool.not_eq_false,
        List.contains_iff_mem] at h'
      exact h'
    · rintro ⟨hc, h⟩
      refine ⟨hc, ?_⟩
      cases hcon : (CType.all.filter fun t' => !(t :: l).contains t').contains c.ctype with
      | false => rfl
      | true =>
        have := List.contains_iff_mem.mp hcon
        simp only [List.mem_filter, Bool.not_eq_true'] at this
        rw [List.contains_iff_mem.mpr h] at this
        cases this.2

/-- The dictionary form and the `Constructs` form of the type filter have the same members. -/
theorem mem_byType {dict : Bool} {ts : List CType} {cs : List Construct} {c : Construct} :
    c ∈ byType dict ts cs ↔ c ∈ cs ∧ (ts = [] ∨ c.ctype ∈ ts) := by
  cases dict
  · exact mem_byTypeColl
  · exact mem_byTypeDict

theorem mem_byData {dict : Bool} {cs : List Construct} {c : Construct} :
    c ∈ byData dict cs ↔ c ∈ cs ∧ c.ctype ∈ arrayTypes := by
  simp only [byData, mem_byType]
  constructor
  · rintro ⟨hc, h | h⟩
    · simp [arrayTypes] at h
    · exact ⟨hc, h⟩
  · rintro ⟨hc, h⟩; exact ⟨hc, Or.inr h⟩

theorem mem_byNaxes {dict : Bool} {ns : List Nat} {cs : List Construct} {c : Construct} :
    c ∈ byNaxes dict ns cs ↔
      c ∈ cs ∧ (if ns = [] then c.ctype ∈ arrayTypes else ∃ x, c.axes = some x ∧ x.length ∈ ns) := by
  cases ns with
  | nil => simp [byNaxes, mem_byData]
  | cons n l =>
    simp only [byNaxes, List.isEmpty_cons, Bool.false_eq_true, if_false, List.mem_filter,
      List.cons_ne_nil]
    cases hax : c.axes with
    | none => simp
    | some x => simp

theorem mem_bySize {dict : Bool} {ns : List Nat} {cs : List Construct} {c : Construct} :
    c ∈ bySize dict ns cs ↔
      c ∈ cs ∧ c.ctype = .domain_axis ∧ (ns = [] ∨ ∃ n, c.size = some n ∧ n ∈ ns) := by
  cases ns with
  | nil => simp [bySize, mem_byType]
  | cons n l =>
    simp only [bySize, List.isEmpty_cons, Bool.false_eq_true, if_false, List.mem_filter,
      List.cons_ne_nil, false_or]
    by_cases ht : c.ctype = .domain_axis
    · cases hsz : c.size with
      | none => simp [ht]
      | some m => simp [ht]
    · simp [ht]

/-! ### measure / method / ncvar / ncdim / key -/

theorem valSat_some {s : String} {qs : List Q} (hq : qs ≠ []) :
    firstMatch s qs = true ↔ ValSat (some s) qs := by
  simp only [firstMatch_eq_true, ValSat, hq, false_or, Option.some.injEq]
  constructor
  · rintro ⟨q', hq', hm⟩; exact ⟨s, rfl, q', hq', hm⟩
  · rintro ⟨s', hs', q', hq', hm⟩; cases hs'; exact ⟨q', hq', hm⟩

theorem valSat_none {qs : List Q} (hq : qs ≠ []) : ¬ ValSat none qs := by
  simp [ValSat, hq]

theorem mem_byComponent {t : CType} {get : Construct → Option String} {qs : List Q}
    {cs : List Construct} {c : Construct} :
    c ∈ byComponent [t] get qs cs ↔ c ∈ cs ∧ c.ctype = t ∧ ValSat (get c) qs := by
  cases qs with
  | nil =>
    simp only [byComponent, List.isEmpty_nil, if_true, List.mem_filter, List.contains_iff_mem,
      List.mem_singleton, ValSat, true_or, and_true]
  | cons q rest =>
    simp only [byComponent, List.isEmpty_cons, Bool.false_eq_true, if_false, List.mem_filter]
    by_cases ht : c.ctype = t
    · have h1 : [t].contains c.ctype = true := List.contains_iff_mem.mpr (by simp [ht])
      rw [h1]
      cases hg : get c with
      | none =>
        have := valSat_none (qs := q :: rest) (by simp)
        simp [ht, this]
      | some v =>
        simp only [Bool.not_true, Bool.false_eq_true, if_false, ht, true_and]
        rw [valSat_some (by simp)]
    · have h1 : [t].contains c.ctype = false := by
        cases h : [t].contains c.ctype with
        | false => rfl
        | true => exact absurd (by simpa using List.contains_iff_mem.mp h) ht
      rw [h1]
      simp [ht]

theorem mem_byNc {has : Construct → Bool} {get : Construct → Option String} {qs : List Q}
    {cs : List Construct} {c : Construct} :
    c ∈ byNc has get qs cs ↔ c ∈ cs ∧ has c = true ∧ ValSat (get c) qs := by
  cases qs with
  | nil => simp [byNc, List.mem_filter, ValSat]
  | cons q rest =>
    simp only [byNc, List.isEmpty_cons, Bool.false_eq_true, if_false, List.mem_filter]
    cases hh : has c with
    | false => simp
    | true =>
      cases hg : get c with
      | none =>
        have := valSat_none (qs := q :: rest) (by simp)
        simp [this]
      | some v =>
        simp only [Bool.not_true, Bool.false_eq_true, if_false, true_and]
        rw [valSat_some (by simp)]

theorem mem_byKey {qs : List Q} {cs : List Construct} {c : Construct} :
    c ∈ byKey qs cs ↔ c ∈ cs ∧ (qs = [] ∨ ∃ q ∈ qs, q.matches c.key = true) := by
  cases qs with
  | nil => simp [byKey]
  | cons q rest =>
    simp only [byKey, List.isEmpty_cons, Bool.false_eq_true, if_false, List.mem_filter,
      Bool.or_eq_true, List.contains_iff_mem, firstMatch_eq_true, List.cons_ne_nil, false_or]
    constructor
    · rintro ⟨hc, h | h⟩
      · exact ⟨hc, .str c.key, h, str_matches.mpr rfl⟩
      · exact ⟨hc, h⟩
    · rintro ⟨hc, h⟩; exact ⟨hc, Or.inr h⟩

/-! ### properties -/

theorem matchesPV_iff {q : Q} {v : PV} : q.matchesPV v = true ↔ PVMatch q v := by
  cases v with
  | str s => cases q <;> simp [Q.matchesPV, PVMatch]
  | num dt sc vs =>
    cases q with
    | str s => simp [Q.matchesPV, PVMatch]
    | pat a => simp [Q.matchesPV, PVMatch]
    | int i =>
      simp only [Q.matchesPV, PVMatch, Bool.and_eq_true, beq_iff_eq, reduceCtorEq, false_or]
      constructor
      · rintro ⟨⟨h1, h2⟩, h3⟩; exact ⟨h1, h2, i, h3, rfl⟩
      · rintro ⟨h1, h2, j, h3, h4⟩; cases h4; exact ⟨⟨h1, h2⟩, h3⟩
    | num dt' sc' vs' =>
      simp only [Q.matchesPV, PVMatch, Bool.and_eq_true, beq_iff_eq, Q.num.injEq, reduceCtorEq, and_false,
        exists_const, or_false]
      constructor
      · rintro ⟨⟨h1, h2⟩, h3⟩; exact ⟨h1, h2, h3⟩
      · rintro ⟨h1, h2, h3⟩; exact ⟨⟨h1, h2⟩, h3⟩

def propOk (props : List (String × PV)) (p : String × Option Q) : Bool :=
  match props.lookup p.1 with
  | none => false
  | some v1 => match p.2 with
    | none => true
    | some q => q.matchesPV v1

theorem propOk_iff {c : Construct} {p : String × Option Q} : propOk c.props p = true ↔ PropSat c p := by
  simp only [propOk, PropSat]
  cases hl : c.props.lookup p.1 with
  | none => simp
  | some v1 =>
    cases hp : p.2 with
    | none => simp
    | some q => simp [matchesPV_iff]

theorem propLoop_and {props : List (String × PV)} {ps : List (String × Option Q)} {ok : Bool} :
    propLoop false props ps ok = if ps = [] then ok else ps.all (propOk props) := by
  induction ps generalizing ok with
  | nil => simp [propLoop]
  | cons p rest ih =>
    simp only [propLoop, Bool.false_eq_true, if_false, List.cons_ne_nil, List.all_cons]
    change (if (!propOk props p) = true then false else propLoop false props rest (propOk props p)) = _
    cases hp : propOk props p with
    | false => simp
    | true =>
      simp only [Bool.not_true, Bool.false_eq_true, if_false, Bool.true_and, ih]
      cases rest with
      | nil => simp
      | cons a l => simp

theorem propLoop_or {props : List (String × PV)} {ps : List (String × Option Q)} {ok : Bool} :
    propLoop true props ps ok = if ps = [] then ok else ps.any (propOk props) := by
  induction ps generalizing ok with
  | nil => simp [propLoop]
  | cons p rest ih =>
    simp only [propLoop, if_true, List.cons_ne_nil, if_false, List.any_cons]
    change (if propOk props p = true then true else propLoop true props rest (propOk props p)) = _
    cases hp : propOk props p with
    | true => simp
    | false =>
      simp only [Bool.false_eq_true, if_false, Bool.false_or, ih]
      cases rest with
      | nil => simp
      | cons a l => simp

theorem mem_byProperty {isOr : Bool} {ps : List (String × Option Q)} {cs : List Construct} {c : Construct} :
    c ∈ byProperty isOr ps cs ↔
      c ∈ cs ∧ c.hasProps = true ∧
        (ps = [] ∨ if isOr then ∃ p ∈ ps, PropSat c p else ∀ p ∈ ps, PropSat c p) := by
  cases ps with
  | nil => simp [byProperty, List.mem_filter]
  | cons p rest =>
    simp only [byProperty, List.isEmpty_cons, Bool.false_eq_true, if_false, List.mem_filter,
      List.cons_ne_nil, false_or]
    cases hh : c.hasProps with
    | false => simp
    | true =>
      simp only [Bool.not_true, Bool.false_eq_true, if_false, true_and]
      cases isOr with
      | false =>
        rw [propLoop_and]
        simp only [List.cons_ne_nil, if_false, List.all_eq_true, propOk_iff, Bool.false_eq_true]
      | true =>
        rw [propLoop_or]
        simp only [List.cons_ne_nil, if_false, List.any_eq_true, propOk_iff, if_true]

/-! ### axes -/

theorem axisLoop_and {x : List String} {l : List String} {ok : Bool} :
    axisLoop false x l ok = if l = [] then ok else l.all x.contains := by
  induction l generalizing ok with
  | nil => simp [axisLoop]
  | cons a rest ih =>
    simp only [axisLoop, Bool.false_eq_true, if_false, List.cons_ne_nil, List.all_cons]
    cases hp : x.contains a with
    | false => simp
    | true =>
      simp only [Bool.not_true, Bool.false_eq_true, if_false, Bool.true_and, ih]
      cases rest with
      | nil => simp
      | cons b l => simp

theorem axisLoop_or {x : List String} {l : List String} {ok : Bool} :
    axisLoop true x l ok = if l = [] then ok else l.any x.contains := by
  induction l generalizing ok with
  | nil => simp [axisLoop]
  | cons a rest ih =>
    simp only [axisLoop, if_true, List.cons_ne_nil, if_false, List.any_cons]
    cases hp : x.contains a with
    | true => simp
    | false =>
      simp only [Bool.false_eq_true, if_false, Bool.false_or, ih]
      cases rest with
      | nil => simp
      | cons b l => simp

theorem axisOk_iff {mode : AxisMode} {x A : List String} (hA : A ≠ []) :
    axisOk mode x A.eraseDups = true ↔ AxisRel mode x A := by
  have hne : A.eraseDups ≠ [] := by
    intro h
    cases A with
    | nil => exact hA rfl
    | cons a l =>
      have : a ∈ (a :: l).eraseDups := List.mem_eraseDups.mpr List.mem_cons_self
      rw [h] at this; cases this
  cases mode with
  | and =>
    simp only [axisOk, axisLoop_and, hne, if_false, List.all_eq_true, List.contains_iff_mem,
      List.mem_eraseDups, AxisRel]
  | or =>
    simp only [axisOk, axisLoop_or, hne, if_false, List.any_eq_true, List.contains_iff_mem,
      List.mem_eraseDups, AxisRel]
  | exact =>
    simp only [axisOk, Bool.and_eq_true, List.all_eq_true, List.contains_iff_mem,
      List.mem_eraseDups, AxisRel]
    exact ⟨fun h => ⟨h.2, h.1⟩, fun h => ⟨h.2, h.1⟩⟩
  | subset =>
    simp only [axisOk, List.all_eq_true, List.contains_iff_mem, List.mem_eraseDups, AxisRel]

theorem mem_byAxis {dict : Bool} {ctx : Ctx} {mode : AxisMode} {vs : List Q} {cs : List Construct}
    {c : Construct} :
    c ∈ byAxis dict ctx ctx.base mode vs cs ↔ c ∈ cs ∧ Sat ctx (.axis mode vs) c := by
  cases vs with
  | nil => simp [byAxis, Sat, mem_byData]
  | cons v rest =>
    simp only [byAxis, List.isEmpty_cons, Bool.false_eq_true, if_false, Sat, List.cons_ne_nil]
    cases hA : convertAxes ctx ctx.base true (v :: rest) with
    | nil => simp
    | cons a l =>
      simp only [List.isEmpty_cons, Bool.false_eq_true, if_false, List.mem_filter, ne_eq,
        List.cons_ne_nil, not_false_eq_true, true_and]
      cases hax : c.axes with
      | none => simp
      | some x =>
        simp only [Option.some.injEq, exists_eq_left']
        rw [axisOk_iff (by simp)]

/-! ### every filter: sub-collection, sound and complete -/

theorem byType_sublist {dict : Bool} {ts : List CType} {cs : List Construct} : (byType dict ts cs).Sublist cs := by
  cases dict
  · simp only [byType, Bool.false_eq_true, if_false, byTypeColl]; exact List.filter_sublist
  · simp only [byType, if_true, byTypeDict]
    split
    · exact List.Sublist.refl _
    · exact List.filter_sublist

theorem filterByIdentity_sublist {cs : List Construct} {qs : List Q} : (filterByIdentity cs qs).Sublist cs := by
  simp only [filterByIdentity, filterByIdentityWith]
  split
  · exact List.Sublist.refl _
  · exact List.filter_sublist

theorem runFilter_sublist {dict : Bool} {ctx : Ctx} {src : List Construct} {f : Filter} {cs : List Construct} :
    (runFilter dict ctx src f cs).Sublist cs := by
  cases f with
  | identity qs => exact filterByIdentity_sublist
  | type ts => exact byType_sublist
  | key qs =>
    simp only [runFilter, byKey]; split
    · exact List.Sublist.refl _
    · exact List.filter_sublist
  | property isOr ps =>
    simp only [runFilter, byProperty]; split <;> exact List.filter_sublist
  | axis mode vs =>
    simp only [runFilter, byAxis]; split
    · exact byType_sublist
    · split
      · exact List.nil_sublist _
      · exact List.filter_sublist
  | naxes ns =>
    simp only [runFilter, byNaxes]; split
    · exact byType_sublist
    · exact List.filter_sublist
  | size ns =>
    simp only [runFilter, bySize]; split
    · exact byType_sublist
    · exact List.filter_sublist
  | measure qs => simp only [runFilter, byComponent]; split <;> exact List.filter_sublist
  | method qs => simp only [runFilter, byComponent]; split <;> exact List.filter_sublist
  | ncvar qs => simp only [runFilter, byNc]; split <;> exact List.filter_sublist
  | ncdim qs => simp only [runFilter, byNc]; split <;> exact List.filter_sublist
  | data => exact byType_sublist
  | cell qs => simp only [runFilter, byComponent]; split <;> exact List.filter_sublist
  | connectivity qs => simp only [runFilter, byComponent]; split <;> exact List.filter_sublist

theorem mem_runFilter {dict : Bool} {ctx : Ctx} {f : Filter} {cs : List Construct} {c : Construct}
    (hwf : WF cs) : c ∈ runFilter dict ctx ctx.base f cs ↔ c ∈ cs ∧ Sat ctx f c := by
  cases f with
  | identity qs => exact mem_filterByIdentity hwf
  | type ts => exact mem_byType
  | key qs => exact mem_byKey
  | property isOr ps => exact mem_byProperty
  | axis mode vs => exact mem_byAxis
  | naxes ns => exact mem_byNaxes
  | size ns => exact mem_bySize
  | measure qs => exact mem_byComponent
  | method qs => exact mem_byComponent
  | ncvar qs => exact mem_byNc
  | ncdim qs => exact mem_byNc
  | data => exact mem_byData
  | cell qs => exact mem_byComponent
  | connectivity qs => exact mem_byComponent

/-! ### chains -/

def chainItems (dict : Bool) (ctx : Ctx) (fs : List Filter) (cs : List Construct) : List Construct :=
  fs.foldl (fun acc f => runFilter dict ctx ctx.base f acc) cs

theorem chainItems_sublist {dict : Bool} {ctx : Ctx} {fs : List Filter} {cs : List Construct} :
    (chainItems dict ctx fs cs).Sublist cs := by
  induction fs generalizing cs with
  | nil => exact List.Sublist.refl _
  | cons f rest ih =>
    simp only [chainItems, List.foldl_cons]
    exact List.Sublist.trans ih runFilter_sublist

theorem mem_chainItems {dict : Bool} {ctx : Ctx} {fs : List Filter} {cs : List Construct} {c : Construct}
    (hwf : WF cs) : c ∈ chainItems dict ctx fs cs ↔ c ∈ cs ∧ ∀ f ∈ fs, Sat ctx f c := by
  induction fs generalizing cs with
  | nil => simp [chainItems]
  | cons f rest ih =>
    simp only [chainItems, List.foldl_cons, List.mem_cons, forall_eq_or_imp]
    have := ih (cs := runFilter dict ctx ctx.base f cs) (hwf.of_sublist runFilter_sublist)
    simp only [chainItems] at this
    rw [this, mem_runFilter hwf]
    exact ⟨fun h => ⟨h.1.1, h.1.2, h.2⟩, fun h => ⟨⟨h.1, h.2.1⟩, h.2.2⟩⟩

theorem filterChain_items {ctx : Ctx} {fs : List Filter} {c : Coll} :
    (filterChain ctx fs c).items = chainItems false ctx fs c.items := by
  induction fs generalizing c with
  | nil => rfl
  | cons f rest ih =>
    simp only [filterChain, chainItems, List.foldl_cons]
    exact ih (c := applyFilter ctx f c)

/-! ### the `_prefiltered` chain -/

theorem unfilterN_succ (n : Nat) (l : Layer) (ch : List Layer) :
    unfilterN (n + 1) l ch = unfilterN 1 (unfilterN n l ch).1 (unfilterN n l ch).2 := by
  induction n generalizing l ch with
  | zero => rfl
  | succ n ih =>
    cases ch with
    | nil => simp [unfilterN]
    | cons l' ch' =>
      have h1 : unfilterN (n + 1 + 1) l (l' :: ch') = unfilterN (n + 1) l' ch' := rfl
      have h2 : unfilterN (n + 1) l (l' :: ch') = unfilterN n l' ch' := rfl
      rw [h1, h2]
      exact ih l' ch'

theorem unfilter_succ (c : Coll) (n : Nat) :
    unfilter c (some (n + 1)) = unfilter (unfilter c (some n)) (some 1) := by
  simp only [unfilter, Coll.top]
  rw [unfilterN_succ]

theorem unfilter_zero (c : Coll) : unfilter c (some 0) = c := rfl

theorem unfilter_applyFilter (ctx : Ctx) (f : Filter) (c : Coll) :
    unfilter (applyFilter ctx f c) (some 1) = c := rfl

/-- `unfilter(n)` after `n` more filters gives back the collection they were applied to. -/
theorem unfilter_filterChain (ctx : Ctx) (gs : List Filter) (c : Coll) :
    unfilter (filterChain ctx gs c) (some gs.length) = c := by
  induction gs generalizing c with
  | nil => rfl
  | cons g rest ih =>
    have h : filterChain ctx (g :: rest) c = filterChain ctx rest (applyFilter ctx g c) := rfl
    rw [h, List.length_cons, unfilter_succ, ih]
    rfl

def bottomL : Layer → List Layer → Layer
  | l, [] => l
  | _, l' :: ch => bottomL l' ch

theorem unfilterAll_eq (l : Layer) (ch : List Layer) : unfilterAll l ch = (bottomL l ch, []) := by
  induction ch generalizing l with
  | nil => rfl
  | cons l' ch' ih => simp only [unfilterAll, bottomL]; exact ih l'

theorem unfilterN_bottom (n : Nat) (l : Layer) (ch : List Layer) :
    bottomL (unfilterN n l ch).1 (unfilterN n l ch).2 = bottomL l ch := by
  induction n generalizing l ch with
  | zero => rfl
  | succ n ih =>
    cases ch with
    | nil => rfl
    | cons l' ch' => simp only [unfilterN, bottomL]; exact ih l' ch'

theorem unfilterN_layers (n : Nat) (l : Layer) (ch : List Layer) :
    ∀ x ∈ (unfilterN n l ch).1 :: (unfilterN n l ch).2, x ∈ l :: ch := by
  induction n generalizing l ch with
  | zero => intro x hx; exact hx
  | succ n ih =>
    cases ch with
    | nil => intro x hx; exact hx
    | cons l' ch' =>
      intro x hx
      exact List.mem_cons_of_mem _ (ih l' ch' x hx)

theorem bottomL_mem (l : Layer) (ch : List Layer) : bottomL l ch ∈ l :: ch := by
  induction ch generalizing l with
  | nil => simp [bottomL]
  | cons l' ch' ih => simp only [bottomL]; exact List.mem_cons_of_mem _ (ih l')

/-- What every collection derived from the constructs `base` of a field satisfies. -/
structure Inv (base : List Construct) (c : Coll) : Prop where
  bottom : (bottomL c.top c.chain).items = base
  within : ∀ l ∈ c.top :: c.chain, ∀ y ∈ l.items, y ∈ base

theorem Inv.ofBase (base : List Construct) : Inv base (Coll.ofBase base) where
  bottom := rfl
  within := by
    intro l hl y hy
    simp only [Coll.ofBase, Coll.top, List.mem_singleton] at hl
    subst hl; exact hy

theorem Inv.items_subset {base : List Construct} {c : Coll} (h : Inv base c) : ∀ y ∈ c.items, y ∈ base :=
  fun y hy => h.within c.top List.mem_cons_self y hy

theorem Inv.applyFilter {base : List Construct} {c : Coll} (h : Inv base c) (ctx : Ctx) (f : Filter) :
    Inv base (applyFilter ctx f c) where
  bottom := h.bottom
  within := by
    intro l hl y hy
    rcases List.mem_cons.mp hl with hl | hl
    · subst hl
      exact h.items_subset y ((runFilter_sublist (dict := false)).subset hy)
    · exact h.within l hl y hy

theorem Inv.filterChain {base : List Construct} {c : Coll} (h : Inv base c) (ctx : Ctx) (fs : List Filter) :
    Inv base (filterChain ctx fs c) := by
  induction fs generalizing c with
  | nil => exact h
  | cons f rest ih => exact ih (h.applyFilter ctx f)

theorem Inv.unfilter {base : List Construct} {c : Coll} (h : Inv base c) (d : Option Nat) :
    Inv base (unfilter c d) := by
  cases d with
  | none =>
    simp only [Select.unfilter, unfilterAll_eq]
    exact ⟨h.bottom, by
      intro l hl y hy
      simp only [Coll.top, List.mem_singleton] at hl
      subst hl
      exact h.within _ (bottomL_mem c.top c.chain) y hy⟩
  | some n =>
    simp only [Select.unfilter]
    exact ⟨by rw [← h.bottom]; exact congrArg Layer.items (unfilterN_bottom n c.top c.chain), by
      intro l hl y hy
      exact h.within l (unfilterN_layers n c.top c.chain l hl) y hy⟩

theorem minusKeys_sublist {xs ys : List Construct} : (minusKeys xs ys).Sublist xs := List.filter_sublist

theorem Inv.inverseFilter {base : List Construct} {c : Coll} (h : Inv base c) (d : Option Nat) :
    Inv base (inverseFilter c d) := by
  simp only [Select.inverseFilter]
  split
  · split
    · exact h.unfilter _
    · exact h.unfilter _
  · exact ⟨h.bottom, by
      intro l hl y hy
      rcases List.mem_cons.mp hl with hl | hl
      · subst hl
        exact (h.unfilter d).items_subset y (minusKeys_sublist.subset hy)
      · exact h.within l hl y hy⟩

theorem Inv.runOp {base : List Construct} {c : Coll} (h : Inv base c) (ctx : Ctx) (op : Op) :
    Inv base (runOp ctx op c) := by
  cases op with
  | filt fs => exact h.filterChain ctx fs
  | meth f => exact h.applyFilter ctx f
  | inv d => exact h.inverseFilter d
  | unf d => exact h.unfilter d

theorem Inv.runOps {base : List Construct} {c : Coll} (h : Inv base c) (ctx : Ctx) (ops : List Op) :
    Inv base (runOps ctx ops c) := by
  induction ops generalizing c with
  | nil => exact h
  | cons op rest ih => exact ih (h.runOp ctx op)

theorem unfilter_none_items {base : List Construct} {c : Coll} (h : Inv base c) :
    (unfilter c none).items = base := by
  simp only [Select.unfilter, unfilterAll_eq]
  exact h.bottom

theorem mem_inverseFilter {base : List Construct} {c : Coll} {d : Option Nat} {x : Construct}
    (hb : (base.map (·.key)).Nodup) (hinv : Inv base c)
    (hn : ¬ (depthTruthy d = true ∧ c.applied.getLast? = some true)) :
    x ∈ (inverseFilter c d).items ↔ x ∈ (unfilter c d).items ∧ x ∉ c.items := by
  have hcond : (depthTruthy d && c.applied.getLast? == some true) = false := by
    cases h1 : depthTruthy d with
    | false => rfl
    | true =>
      cases h2 : (c.applied.getLast? == some true) with
      | false => rfl
      | true => exact absurd ⟨h1, by simpa using h2⟩ hn
  simp only [Select.inverseFilter, hcond, Bool.false_eq_true, if_false, minusKeys, List.mem_filter,
    Bool.not_eq_true', and_congr_right_iff]
  intro hx
  have hxb : x ∈ base := (hinv.unfilter d).items_subset x hx
  constructor
  · intro h hxc
    have : (c.items.map (·.key)).contains x.key = true :=
      List.contains_iff_mem.mpr (List.mem_map.mpr ⟨x, hxc, rfl⟩)
    rw [this] at h; cases h
  · intro h
    cases hc : (c.items.map (·.key)).contains x.key with
    | false => rfl
    | true =>
      obtain ⟨y, hy, hk⟩ := List.mem_map.mp (List.contains_iff_mem.mp hc)
      have : y = x := eq_of_key_eq hb (hinv.items_subset y hy) hxb hk
      subst this
      exact absurd hy h

/-! ### lists with distinct keys -/

theorem nodup_of_map_nodup {l : List Construct} (h : (l.map (·.key)).Nodup) : l.Nodup := by
  induction l with
  | nil => exact List.nodup_nil
  | cons a rest ih =>
    simp only [List.map_cons, List.nodup_cons, List.mem_map, not_exists, not_and] at h
    exact List.nodup_cons.mpr ⟨fun hm => h.1 a hm rfl, ih h.2⟩

theorem eq_singleton_iff {l : List Construct} {c : Construct} (h : l.Nodup) :
    l = [c] ↔ c ∈ l ∧ ∀ c' ∈ l, c' = c := by
  constructor
  · intro hl; subst hl; simp
  · rintro ⟨hc, hall⟩
    cases l with
    | nil => cases hc
    | cons a rest =>
      have ha : a = c := hall a List.mem_cons_self
      subst ha
      cases rest with
      | nil => rfl
      | cons b rest' =>
        have hb : b = a := hall b (List.mem_cons_of_mem _ List.mem_cons_self)
        subst hb
        simp at h

end Cfdm.Select

namespace Cfdm.Select.Examples
open Cfdm.Select

/-! ### concrete constructs for the non-vacuity examples and the witnesses -/

def mkC (key : String) (t : CType) (pre body post : List String) (axes : Option (List String)) : Construct :=
  { key := key, ctype := t, idPre := pre, idBody := body, idPost := post,
    hasProps := true, props := [], axes := axes, cmAxes := none, size := none, measure := none, method := none,
    cell := none, connectivity := none, hasNcvar := true, ncvar := none, hasNcdim := false, ncdim := none }

def mkAxis (key : String) (ncdim : String) (size : Nat) : Construct :=
  { key := key, ctype := .domain_axis, idPre := [], idBody := ["ncdim%" ++ ncdim], idPost := [],
    hasProps := false, props := [], axes := none, cmAxes := none, size := some size, measure := none, method := none, cell := none, connectivity := none,
    hasNcvar := false, ncvar := none, hasNcdim := true, ncdim := some ncdim }

def lat : Construct :=
  { mkC "dimensioncoordinate0" .dimension_coordinate [] ["latitude", "units=degrees_north", "ncvar%lat"]
      ["ncvar%lat_bnds"] (some ["domainaxis0"]) with props := [("standard_name", .str "latitude"), ("units", .str "degrees_north"),
        ("valid_max", .num "int64" true [90])] }
def lon : Construct :=
  mkC "dimensioncoordinate1" .dimension_coordinate [] ["longitude", "ncvar%lon"] [] (some ["domainaxis1"])
/-- a cell measure with a measure *and* a standard name -/
def area : Construct :=
  { mkC "cellmeasure0" .cell_measure ["measure:area"] ["cell_area", "units=m2"] [] (some ["domainaxis0", "domainaxis1"])
      with measure := some "area" }
/-- a coordinate with a long name whose bounds have a standard name of their own -/
def aux : Construct :=
  mkC "auxiliarycoordinate0" .auxiliary_coordinate [] ["long_name=x"] ["foo", "standard_name=foo"] (some ["domainaxis1"])
def topo : Construct :=
  { mkC "domaintopology0" .domain_topology ["cell:face"] ["ncvar%mesh"] [] (some ["domainaxis0"]) with cell := some "face" }
def ax0 : Construct := mkAxis "domainaxis0" "lat" 5
def ax1 : Construct := mkAxis "domainaxis1" "lon" 8

def fld : List Construct := [lat, lon, area, aux, ax0, ax1]
def ctx : Ctx := ⟨fld, ["domainaxis0", "domainaxis1"]⟩

/-- `domainaxis0: mean` and `domainaxis1: maximum` -/
def cm0 : Construct :=
  { mkC "cellmethod0" .cell_method [] ["method:mean"] [] none with
      hasProps := false, hasNcvar := false, method := some "mean", cmAxes := some ["domainaxis0"] }
def cm1 : Construct :=
  { mkC "cellmethod1" .cell_method [] ["method:maximum"] [] none with
      hasProps := false, hasNcvar := false, method := some "maximum", cmAxes := some ["domainaxis1"] }
def fld2 : List Construct := fld ++ [cm0, cm1]
def ctx2 : Ctx := ⟨fld2, ["domainaxis0", "domainaxis1"]⟩

theorem fld_wf : WF fld := ⟨by decide, by decide, by decide, by decide⟩
theorem fld2_wf : WF fld2 := ⟨by decide, by decide, by decide, by decide⟩

end Cfdm.Select.Examples
