import Cfdm.Lemmas.Append
/-
C17 — the reader's footprint of an old variable is unchanged by an extension of the dataset; the
refusal predicate against the documentation.
-/
namespace Cfdm.Append

theorem findVar_mem {ds : Ds} {n : Name} {v : Var} (h : ds.findVar n = some v) : v ∈ ds.vars ∧ v.name = n := by
  unfold Ds.findVar at h
  exact ⟨List.mem_of_find?_eq_some h, by simpa using List.find?_some h⟩

theorem findVar_none {ds : Ds} {n : Name} (h : n ∉ ds.varNames) : ds.findVar n = none := by
  unfold Ds.findVar
  apply List.find?_eq_none.mpr
  intro x hx hc
  apply h
  have : x.name = n := by simpa using hc
  rw [← this]; exact List.mem_map_of_mem (f := (·.name)) hx

theorem findVar_isSome {ds : Ds} {n : Name} (h : n ∈ ds.varNames) : ∃ v, ds.findVar n = some v := by
  unfold Ds.varNames at h
  obtain ⟨x, hx, rfl⟩ := List.mem_map.mp h
  unfold Ds.findVar
  cases hf : ds.vars.find? (fun y => y.name == x.name) with
  | some v => exact ⟨v, rfl⟩
  | none =>
    have := List.find?_eq_none.mp hf x hx
    simp at this

/-- New variables use no name of an old variable (from `Extends`) nor of an old dimension. -/
def NewVarsAvoidDims (E E' : Ds) : Prop := ∀ v ∈ E'.vars, v ∉ E.vars → v.name ∉ E.dimNames

theorem findVar_ext {E E' : Ds} (h : Extends E E') (hs : NewVarsAvoidDims E E') {n : Name}
    (hn : n ∈ E.varNames ∨ n ∈ E.dimNames) : E'.findVar n = E.findVar n := by
  obtain ⟨nv, hv, hnv⟩ := h.vars
  unfold Ds.findVar
  rw [hv, List.find?_append]
  cases hf : E.vars.find? (fun x => x.name == n) with
  | some v => simp
  | none =>
    simp only [Option.none_or]
    apply List.find?_eq_none.mpr
    intro x hx hc
    have hxn : x.name = n := by simpa using hc
    have hnotold : n ∉ E.varNames := by
      intro hm
      obtain ⟨v, hv'⟩ := findVar_isSome hm
      unfold Ds.findVar at hv'
      rw [hf] at hv'; cases hv'
    rcases hn with a | a
    · exact hnotold a
    · have hxE' : x ∈ E'.vars := by rw [hv]; exact List.mem_append.mpr (Or.inr hx)
      have hxE : x ∉ E.vars := by
        intro hm
        exact hnv x hx (List.mem_map_of_mem (f := (·.name)) hm)
      exact hs x hxE' hxE (hxn ▸ a)

theorem filterMap_findVar_ext {E E' : Ds} (h : Extends E E') (hs : NewVarsAvoidDims E E') :
    ∀ (ns : List Name), (∀ n ∈ ns, n ∈ E.varNames ∨ n ∈ E.dimNames) → ns.filterMap E'.findVar = ns.filterMap E.findVar := by
  intro ns
  induction ns with
  | nil => intro _; rfl
  | cons a t ih =>
    intro hall
    have ha := findVar_ext h hs (hall a (by simp))
    have ht := ih (fun n hn => hall n (List.mem_cons_of_mem _ hn))
    simp only [List.filterMap_cons, ha, ht]

theorem reach_ext (refsOf : Var → List Name) {E E' : Ds} (h : Extends E E') (hs : NewVarsAvoidDims E E')
    (hc : Closed refsOf E) :
    ∀ (fuel : Nat) (ns : List Name), (∀ n ∈ ns, n ∈ E.varNames ∨ n ∈ E.dimNames) →
      reach refsOf E' fuel ns = reach refsOf E fuel ns := by
  intro fuel
  induction fuel with
  | zero => intro ns _; rfl
  | succ f ih =>
    intro ns hall
    unfold reach
    simp only
    rw [filterMap_findVar_ext h hs ns hall]
    congr 1
    apply ih
    intro n hn
    obtain ⟨v, hv, hn⟩ := List.mem_flatMap.mp hn
    obtain ⟨m, _, hm⟩ := List.mem_filterMap.mp hv
    have hvE := (findVar_mem hm).1
    rcases List.mem_append.mp hn with a | a
    · exact hc.refs v hvE n a
    · exact Or.inr (hc.dims v hvE n a)

theorem reach_subset (refsOf : Var → List Name) (ds : Ds) :
    ∀ (fuel : Nat) (ns : List Name), ∀ v ∈ reach refsOf ds fuel ns, v ∈ ds.vars := by
  intro fuel
  induction fuel with
  | zero => intro ns v hv; simp [reach] at hv
  | succ f ih =>
    intro ns v hv
    unfold reach at hv
    rcases List.mem_append.mp hv with a | a
    · obtain ⟨m, _, hm⟩ := List.mem_filterMap.mp a
      exact (findVar_mem hm).1
    · exact ih _ v a

theorem dimFind_ext {E E' : Ds} (h : Extends E E') {d : Name} (hd : d ∈ E.dimNames) :
    E'.dims.find? (·.name == d) = E.dims.find? (·.name == d) := by
  obtain ⟨nd, hdm, _⟩ := h.dims
  rw [hdm, List.find?_append]
  cases hf : E.dims.find? (fun x => x.name == d) with
  | some v => simp
  | none =>
    exfalso
    unfold Ds.dimNames at hd
    obtain ⟨x, hx, rfl⟩ := List.mem_map.mp hd
    have := List.find?_eq_none.mp hf x hx
    simp at this

theorem footprint_ext (refsOf : Var → List Name) {E E' : Ds} (h : Extends E E') (hs : NewVarsAvoidDims E E')
    (hc : Closed refsOf E) (fuel : Nat) (v : Var) (hv : v ∈ E.vars) :
    footprint refsOf E' fuel v = footprint refsOf E fuel v := by
  have hn : ∀ n ∈ [v.name], n ∈ E.varNames ∨ n ∈ E.dimNames := by
    intro n hn
    simp at hn; subst hn
    exact Or.inl (List.mem_map_of_mem (f := (·.name)) hv)
  unfold footprint
  simp only
  rw [reach_ext refsOf h hs hc fuel [v.name] hn, h.gattrs]
  congr 2
  apply List.map_congr_left
  intro d hd
  obtain ⟨w, hw, hdw⟩ := List.mem_flatMap.mp hd
  have hwE := reach_subset refsOf E fuel [v.name] w hw
  exact dimFind_ext h (hc.dims w hwE d hdw)

theorem isField_ext (refsOf : Var → List Name) {E E' : Ds} (h : Extends E E') (v : Var)
    (hf : IsField refsOf E v) (hnew : ∀ w ∈ E'.vars, w ∉ E.vars → v.name ∉ refsOf w) : IsField refsOf E' v := by
  intro w hw hr
  by_cases hold : w ∈ E.vars
  · obtain ⟨u, hu, hur⟩ := hf w hold hr
    obtain ⟨nv, hv, _⟩ := h.vars
    exact ⟨u, by rw [hv]; exact List.mem_append.mpr (Or.inl hu), hur⟩
  · exact absurd hr (hnew w hw hold)

/-- `IsField` only looks at the variables, which an append preserves whatever happens to the dimensions. -/
theorem isField_grown (refsOf : Var → List Name) {E E' : Ds} (h : ExtendsGrown E E') (v : Var)
    (hf : IsField refsOf E v) (hnew : ∀ w ∈ E'.vars, w ∉ E.vars → v.name ∉ refsOf w) : IsField refsOf E' v := by
  intro w hw hr
  by_cases hold : w ∈ E.vars
  · obtain ⟨u, hu, hur⟩ := hf w hold hr
    obtain ⟨nv, hv, _⟩ := h.vars
    exact ⟨u, by rw [hv]; exact List.mem_append.mpr (Or.inl hu), hur⟩
  · exact absurd hr (hnew w hw hold)

/-! ## The refusal predicate against the documentation -/

theorem refuse_new_iff (nc4 : Bool) (fileFT : Option String) (S : List FieldReq) :
    (refuse Fix.new nc4 fileFT S).isSome = true ↔ DocumentedUnsupported nc4 fileFT S := by
  unfold refuse DocumentedUnsupported
  by_cases hg : (nc4 && S.any (·.groups)) = true
  · simp only [hg, if_true, Option.isSome_some, true_iff]
    left
    simp only [Bool.and_eq_true, List.any_eq_true] at hg
    exact ⟨hg.1, hg.2⟩
  · simp only [hg, Bool.false_eq_true, if_false]
    have hg' : ¬(nc4 = true ∧ ∃ f ∈ S, f.groups = true) := by
      intro hc; apply hg
      simp only [Bool.and_eq_true, List.any_eq_true]; exact hc
    simp only [show Fix.new.featureType = true from rfl, if_true]
    cases hfts : S.filterMap (·.featureType) with
    | nil =>
      simp only [Option.isSome_none, Bool.false_eq_true, false_iff]
      rintro (hc | ⟨f, hf, t, ht, _⟩)
      · exact hg' hc
      · have : t ∈ S.filterMap (·.featureType) := List.mem_filterMap.mpr ⟨f, hf, ht⟩
        rw [hfts] at this; simp at this
    | cons t rest =>
      have ht_mem : t ∈ S.filterMap (·.featureType) := by rw [hfts]; simp
      obtain ⟨f0, hf0, hf0t⟩ := List.mem_filterMap.mp ht_mem
      simp only
      by_cases hany : (t :: rest).any (· != t) = true
      · simp only [hany, if_true, Option.isSome_some, true_iff]
        right
        obtain ⟨u, hu, hut⟩ := List.any_eq_true.mp hany
        have hu' : u ∈ S.filterMap (·.featureType) := by rw [hfts]; exact hu
        obtain ⟨g, hgm, hgu⟩ := List.mem_filterMap.mp hu'
        exact ⟨f0, hf0, t, hf0t, Or.inr ⟨g, hgm, u, hgu, by simpa using hut⟩⟩
      · simp only [hany, Bool.false_eq_true, if_false]
        have hall : ∀ u ∈ S.filterMap (·.featureType), u = t := by
          intro u hu
          rw [hfts] at hu
          by_cases hc : u = t
          · exact hc
          · exact absurd (List.any_eq_true.mpr ⟨u, hu, by simp [hc]⟩) hany
        cases fileFT with
        | none =>
          simp only [Option.isSome_some, true_iff]
          right
          exact ⟨f0, hf0, t, hf0t, Or.inl (by simp)⟩
        | some o =>
          by_cases ho : o = t
          · subst ho
            simp only [bne_self_eq_false, Bool.false_eq_true, if_false, Option.isSome_none, false_iff]
            rintro (hc | ⟨f, hf, t', ht', hor⟩)
            · exact hg' hc
            · have e1 : t' = o := hall t' (List.mem_filterMap.mpr ⟨f, hf, ht'⟩)
              subst e1
              rcases hor with a | ⟨g, hgm, u, hgu, hne⟩
              · exact a rfl
              · exact hne (hall u (List.mem_filterMap.mpr ⟨g, hgm, hgu⟩))
          · have : (o != t) = true := by simp [ho]
            simp only [this, if_true, Option.isSome_some, true_iff]
            right
            exact ⟨f0, hf0, t, hf0t, Or.inl (by simp [ho])⟩

end Cfdm.Append
