import Cfdm.Model.Ragged
/-
Helper lemmas for C06 (ragged and gathered arrays).
-/
namespace Cfdm.Ragged

/-! ### tables -/

theorem table_succ {β} (n m : Nat) (f : Nat → Nat → β) :
    table (n + 1) m f = (List.range m).map (f 0) :: table n m (fun i j => f (i + 1) j) := by
  simp [table, List.range_succ_eq_map, List.map_map, Function.comp_def]

theorem table_none {α} (n m : Nat) :
    table n m (fun _ _ => (none : M α)) = List.replicate n (List.replicate m none) := by
  simp [table, List.map_const']

/-! ### contiguous -/

theorem pairs_accumulate (s n : Nat) (ns : List Nat) :
    pairs (accumulate s (n :: ns)) = (s, s + n) :: pairs (accumulate (s + n) ns) := by
  cases ns <;> simp [accumulate, pairs]

theorem subarraysContiguousFrom_cons (s n : Nat) (ns : List Nat) :
    subarraysContiguousFrom s (n :: ns) = .slice s (s + n) :: subarraysContiguousFrom (s + n) ns := by
  simp [subarraysContiguousFrom, pairs_accumulate]

theorem subarraysContiguousFrom_nil (s : Nat) : subarraysContiguousFrom s [] = [] := by
  simp [subarraysContiguousFrom, accumulate, pairs]

/-- The row built from `c[s:s+n]`, padded to `ncols`. -/
theorem raggedRow_slice {α} (c : List (M α)) (s n ncols : Nat) (h : n ≤ ncols) :
    raggedRow ncols (selectData c (.slice s (s + n)))
      = (List.range ncols).map (fun j => if j < n then c.getD (s + j) none else none) := by
  apply List.ext_getElem?
  intro j
  simp only [raggedRow, selectData]
  grind

theorem assembleRows_nil {α} (nrows ncols : Nat) (c : List (M α)) :
    assembleRows nrows ncols [] c = List.replicate nrows (List.replicate ncols none) := by
  simp [assembleRows]

theorem assembleRows_zero {α} (ncols : Nat) (cis : List CIdx) (c : List (M α)) :
    assembleRows 0 ncols cis c = [] := by
  simp [assembleRows]

theorem assembleRows_cons {α} (nrows ncols : Nat) (ci : CIdx) (cis : List CIdx) (c : List (M α)) :
    assembleRows (nrows + 1) ncols (ci :: cis) c
      = raggedRow ncols (selectData c ci) :: assembleRows nrows ncols cis c := by
  simp [assembleRows]

theorem decodeContiguousFrom_spec {α} (c : List (M α)) (ncols : Nat) :
    ∀ (count : List Nat) (s nrows : Nat), (∀ n ∈ count, n ≤ ncols) →
      assembleRows nrows ncols (subarraysContiguousFrom s count) c
        = table nrows ncols (fun i j =>
            if j < count.getD i 0 then c.getD (s + (count.take i).sum + j) none else none) := by
  intro count
  induction count with
  | nil =>
    intro s nrows _
    simp [subarraysContiguousFrom_nil, assembleRows_nil, table_none]
  | cons n ns ih =>
    intro s nrows h
    cases nrows with
    | zero => simp [assembleRows_zero, table]
    | succ k =>
      rw [subarraysContiguousFrom_cons, assembleRows_cons, table_succ,
        raggedRow_slice c s n ncols (h n (by simp)), ih (s + n) k (fun m hm => h m (by simp [hm]))]
      congr 2
      funext i j
      simp [Nat.add_assoc]

/-! ### indexed -/

theorem whereFrom_getElem? (i : Nat) :
    ∀ (xs : List Nat) (p0 j : Nat),
      (whereFrom i p0 xs)[j]? =
        ((List.range xs.length).find? (fun p => xs[p]? = some i && (xs.take p).count i = j)).map (· + p0) := by
  intro xs
  induction xs with
  | nil => intro p0 j; simp [whereFrom]
  | cons x xs ih =>
    intro p0 j
    simp only [List.length_cons, List.range_succ_eq_map, List.find?_cons, List.find?_map, whereFrom]
    by_cases hx : x = i
    · subst hx
      cases j with
      | zero => simp
      | succ j' =>
        simp only [if_true, List.getElem?_cons_succ, ih (p0 + 1) j']
        simp [Function.comp_def, List.take_succ_cons, List.count_cons_self, Nat.add_comm, Nat.add_left_comm]
    · simp only [hx, if_false, ih (p0 + 1) j]
      simp [Function.comp_def, hx, List.count_cons_of_ne, Nat.add_comm, Nat.add_left_comm]

theorem whereEq_getElem? (index : List Nat) (i j : Nat) :
    (whereEq index i)[j]? = sampleOf index i j := by
  simp [whereEq, sampleOf, whereFrom_getElem?]

theorem whereFrom_length (i : Nat) : ∀ (xs : List Nat) (p0 : Nat), (whereFrom i p0 xs).length = xs.count i := by
  intro xs
  induction xs with
  | nil => simp [whereFrom]
  | cons x xs ih =>
    intro p0
    by_cases hx : x = i
    · subst hx; simp [whereFrom, ih]
    · simp [whereFrom, hx, ih, List.count_cons_of_ne]

theorem whereEq_length (index : List Nat) (i : Nat) : (whereEq index i).length = index.count i :=
  whereFrom_length i index 0

theorem assembleRows_full {α} (n m : Nat) (cis : List CIdx) (c : List (M α)) (h : cis.length = n) :
    assembleRows n m cis c = cis.map (fun ci => raggedRow m (selectData c ci)) := by
  simp [assembleRows, ← h]

/-- Row of an indexed ragged array. -/
theorem raggedRow_pos {α} (index : List Nat) (c : List (M α)) (i ncols : Nat)
    (h : index.count i ≤ ncols) :
    raggedRow ncols (selectData c (.pos (whereEq index i)))
      = (List.range ncols).map (specIndexed index c i) := by
  apply List.ext_getElem?
  intro j
  have hw := whereEq_getElem? index i j
  have hl := whereEq_length index i
  simp only [raggedRow, selectData, List.length_map]
  by_cases hj : j < (whereEq index i).length
  · have hs : sampleOf index i j = some (whereEq index i)[j] := by rw [← hw]; simp [hj]
    have : j < ncols := by omega
    simp [List.getElem?_append, hj, this, specIndexed, hs]
  · have hs : sampleOf index i j = none := by rw [← hw]; simp; omega
    by_cases hm : j < ncols
    · have : j - (whereEq index i).length < ncols - (whereEq index i).length := by omega
      simp [List.getElem?_append, hj, hm, this, specIndexed, hs]
    · have : ¬ j - (whereEq index i).length < ncols - (whereEq index i).length := by omega
      simp [List.getElem?_append, hj, hm, this]

/-! ### indexed contiguous -/

theorem cumsum_getElem? : ∀ (count : List Nat) (s j : Nat),
    (cumsum s count)[j]? = if j < count.length then some (s + (count.take (j + 1)).sum) else none := by
  intro count
  induction count with
  | nil => intro s j; simp [cumsum]
  | cons n ns ih =>
    intro s j
    cases j with
    | zero => simp [cumsum]
    | succ j => simp [cumsum, ih (s + n) j, Nat.add_assoc]

theorem sum_take_succ (count : List Nat) (p : Nat) (h : p < count.length) :
    (count.take (p + 1)).sum = (count.take p).sum + count[p] := by
  rw [List.take_add_one, List.sum_append]
  simp [List.getElem?_eq_getElem h]

theorem map_range_const {β} (n : Nat) (f : Nat → β) (x : β) (h : ∀ j, f j = x) :
    (List.range n).map f = List.replicate n x := by
  have : f = fun _ => x := funext h
  subst this
  simp [List.map_const']

theorem raggedRow_zero_slice {α} (c : List (M α)) (n : Nat) :
    raggedRow n (selectData c (.slice 0 0)) = List.replicate n none := by
  simp [raggedRow, selectData]

theorem raggedRow_empty {α} (n : Nat) : raggedRow n ([] : List (M α)) = List.replicate n none := by
  simp [raggedRow]

/-- Row of one profile. -/
theorem raggedRow_profile {α} (count : List Nat) (c : List (M α)) (p nelem : Nat)
    (h : ∀ n ∈ count, n ≤ nelem) :
    raggedRow nelem (selectData c (profileSlice (cumsum 0 count) p))
      = (List.range nelem).map (specContiguous count c p) := by
  by_cases hp : p < count.length
  · have hstart : (if p = 0 then 0 else (cumsum 0 count).getD (p - 1) 0) = (count.take p).sum := by
      cases p with
      | zero => simp
      | succ q =>
        have : q < count.length := by omega
        simp [List.getD_eq_getElem?_getD, cumsum_getElem?, this]
    have hstop : (cumsum 0 count).getD p 0 = (count.take p).sum + count[p] := by
      simp [List.getD_eq_getElem?_getD, cumsum_getElem?, hp, sum_take_succ]
    simp only [profileSlice, hstart, hstop]
    rw [raggedRow_slice c _ _ nelem (h _ (List.getElem_mem hp))]
    apply List.map_congr_left
    intro j _
    simp [specContiguous, hp]
  · have hstop : (cumsum 0 count).getD p 0 = 0 := by simp [List.getD_eq_getElem?_getD, cumsum_getElem?, hp]
    simp only [profileSlice, hstop, selectData, List.take_zero, List.drop_nil, raggedRow_empty]
    have : count.getD p 0 = 0 := by
      have : count.length ≤ p := by omega
      simp [List.getD_eq_getElem?_getD, this]
    exact (map_range_const _ _ _ (fun j => by simp only [specContiguous, this]; simp)).symm

theorem icBlock_rows {α} (count index : List Nat) (c : List (M α)) (maxProf nelem i : Nat)
    (h : ∀ n ∈ count, n ≤ nelem) (hp : index.count i ≤ maxProf) :
    (icBlock (cumsum 0 count) index maxProf i).map (fun ci => raggedRow nelem (selectData c ci))
      = (List.range maxProf).map (fun j =>
          (List.range nelem).map (specIndexedContiguous count index c i j)) := by
  apply List.ext_getElem?
  intro j
  have hw := whereEq_getElem? index i j
  have hl := whereEq_length index i
  simp only [icBlock, List.map_append, List.map_map, List.map_replicate, raggedRow_zero_slice]
  by_cases hj : j < (whereEq index i).length
  · have hs : sampleOf index i j = some (whereEq index i)[j] := by rw [← hw]; simp [hj]
    have : j < maxProf := by omega
    simp only [List.getElem?_append, List.length_map, hj, if_true, List.getElem?_map, List.getElem?_eq_getElem hj, Option.map_some, Function.comp_def, raggedRow_profile count c _ nelem h, List.getElem?_range, this]
    exact congrArg some (List.map_congr_left (fun k _ => by simp [specIndexedContiguous, hs]))
  · have hs : sampleOf index i j = none := by rw [← hw]; simp; omega
    by_cases hm : j < maxProf
    · have : j - (whereEq index i).length < maxProf - (whereEq index i).length := by omega
      simp only [List.getElem?_append, List.length_map, hj, if_false, List.getElem?_replicate, this, if_true, List.getElem?_map, List.getElem?_range, hm, Option.map_some]
      exact congrArg some (map_range_const _ _ _ (fun k => by simp [specIndexedContiguous, hs])).symm
    · have : ¬ j - (whereEq index i).length < maxProf - (whereEq index i).length := by omega
      simp [List.getElem?_append, hj, hm, this]

theorem icBlock_length (cps index : List Nat) (maxProf i : Nat) (hp : index.count i ≤ maxProf) :
    (icBlock cps index maxProf i).length = maxProf := by
  have hl := whereEq_length index i
  simp [icBlock]; omega

/-! ### gathering -/

theorem ravel_lt : ∀ (dims idx : List Nat), InRange dims idx → ravel dims idx < prod dims := by
  intro dims
  induction dims with
  | nil => intro idx h; cases idx <;> simp_all [InRange, ravel, prod]
  | cons n ns ih =>
    intro idx h
    cases idx with
    | nil => simp [InRange] at h
    | cons i is =>
      obtain ⟨hi, hr⟩ := h
      have := ih is hr
      simp only [ravel, prod]
      calc i * prod ns + ravel ns is < i * prod ns + prod ns := by omega
        _ = (i + 1) * prod ns := by rw [Nat.add_mul]; simp
        _ ≤ n * prod ns := Nat.mul_le_mul_right _ hi

theorem unravel_ravel : ∀ (dims idx : List Nat), InRange dims idx → unravel dims (ravel dims idx) = idx := by
  intro dims
  induction dims with
  | nil => intro idx h; cases idx <;> simp_all [InRange, unravel]
  | cons n ns ih =>
    intro idx h
    cases idx with
    | nil => simp [InRange] at h
    | cons i is =>
      obtain ⟨hi, hr⟩ := h
      have hlt := ravel_lt ns is hr
      have hpos : 0 < prod ns := by omega
      simp only [ravel, unravel]
      have h1 : (i * prod ns + ravel ns is) / prod ns = i := by
        rw [Nat.mul_comm, Nat.mul_add_div hpos, Nat.div_eq_of_lt hlt]; simp
      have h2 : (i * prod ns + ravel ns is) % prod ns = ravel ns is := by
        rw [Nat.mul_comm, Nat.mul_add_mod, Nat.mod_eq_of_lt hlt]
      rw [h1, h2, ih is hr]

theorem ravel_unravel : ∀ (dims : List Nat) (q : Nat), q < prod dims → ravel dims (unravel dims q) = q := by
  intro dims
  induction dims with
  | nil => intro q h; simp [prod] at h; simp [ravel, h]
  | cons n ns ih =>
    intro q h
    simp only [prod] at h
    have hpos : 0 < prod ns := by
      rcases Nat.eq_zero_or_pos (prod ns) with h0 | h0
      · rw [h0] at h; simp at h
      · exact h0
    simp only [unravel, ravel]
    rw [ih _ (Nat.mod_lt _ hpos)]
    exact Nat.div_add_mod' q (prod ns)

/-- `unravel_index` and the row-major flat index are inverse on valid indices. -/
theorem eq_unravel_iff (dims idx : List Nat) (q : Nat) (hq : q < prod dims) (hi : InRange dims idx) :
    idx = unravel dims q ↔ q = ravel dims idx := by
  constructor
  · intro h; rw [h, ravel_unravel dims q hq]
  · intro h; rw [h, unravel_ravel dims idx hi]

theorem gatherAssign_spec {α} (dims idx : List Nat) (hi : InRange dims idx) :
    ∀ (l : List Nat) (c : List (M α)) (u : List Nat → M α), (∀ q ∈ l, q < prod dims) →
      gatherAssign dims l c u idx = (lastHit (ravel dims idx) l c).getD (u idx) := by
  intro l
  induction l with
  | nil => intro c u _; simp [gatherAssign, lastHit]
  | cons q qs ih =>
    intro c u h
    cases c with
    | nil => simp [gatherAssign, lastHit]
    | cons x xs =>
      simp only [gatherAssign, lastHit]
      rw [ih xs _ (fun r hr => h r (by simp [hr]))]
      have hiff := eq_unravel_iff dims idx q (h q (by simp)) hi
      cases hl : lastHit (ravel dims idx) qs xs with
      | some y => simp
      | none =>
        simp only [Option.getD_none]
        by_cases hq : q = ravel dims idx
        · rw [if_pos (hiff.mpr hq), if_pos hq]; rfl
        · rw [if_neg (fun hh => hq (hiff.mp hh)), if_neg hq]; rfl

/-! ### `Field.compress` -/

theorem all_none_eq_replicate {α} : ∀ (l : List (M α)), (∀ x ∈ l, x.isNone = true) →
    l = List.replicate l.length none := by
  intro l
  induction l with
  | nil => simp
  | cons x xs ih =>
    intro h
    have hx : x = none := by simpa using h x (by simp)
    rw [hx, List.length_cons, List.replicate_succ, ← ih (fun y hy => h y (by simp [hy]))]

theorem mem_takeWhile_prop {β} (p : β → Bool) : ∀ (l : List β) (x : β), x ∈ l.takeWhile p → p x = true := by
  intro l
  induction l with
  | nil => intro x hx; simp at hx
  | cons y ys ih =>
    intro x hx
    by_cases hy : p y = true
    · simp only [List.takeWhile_cons, hy, if_true, List.mem_cons] at hx
      rcases hx with rfl | hx
      · exact hy
      · exact ih x hx
    · simp [hy] at hx

theorem take_eq_of_split {β} (row A B : List β) (h : row = A ++ B) : row.take A.length = A := by
  subst h; simp

theorem row_split {α} (row : List (M α)) :
    row = (row.reverse.dropWhile Option.isNone).reverse ++
      List.replicate (row.reverse.takeWhile Option.isNone).length none := by
  have h2 : row = (row.reverse.dropWhile Option.isNone).reverse ++ (row.reverse.takeWhile Option.isNone).reverse := by
    calc row = row.reverse.reverse := (List.reverse_reverse row).symm
      _ = (row.reverse.takeWhile Option.isNone ++ row.reverse.dropWhile Option.isNone).reverse := by
          rw [List.takeWhile_append_dropWhile]
      _ = _ := List.reverse_append
  have h3 : (row.reverse.takeWhile Option.isNone).reverse =
      List.replicate (row.reverse.takeWhile Option.isNone).length none := by
    have := all_none_eq_replicate (row.reverse.takeWhile Option.isNone).reverse
      (fun x hx => by
        have hx' : x ∈ row.reverse.takeWhile Option.isNone := by simpa using hx
        exact mem_takeWhile_prop _ _ _ hx')
    simpa using this
  rw [h3] at h2
  exact h2

theorem deriveCount_le {α} (row : List (M α)) : deriveCount row ≤ row.length := by
  have := congrArg List.length (row_split row)
  simp only [List.length_append, List.length_reverse, List.length_replicate] at this
  simp only [deriveCount]; omega

/-- Cutting a row after its last unmasked element and padding it again gives the row back. -/
theorem raggedRow_take_deriveCount {α} (row : List (M α)) :
    raggedRow row.length (row.take (deriveCount row)) = row := by
  have hs := row_split row
  have hl := congrArg List.length hs
  simp only [List.length_append, List.length_reverse, List.length_replicate] at hl
  have ht : row.take (deriveCount row) = (row.reverse.dropWhile Option.isNone).reverse := by
    have := take_eq_of_split row _ _ hs
    simpa [deriveCount] using this
  simp only [raggedRow, ht, List.length_reverse]
  have : row.length - (row.reverse.dropWhile Option.isNone).length
      = (row.reverse.takeWhile Option.isNone).length := by omega
  rw [this]
  exact hs.symm

theorem packFrom_acc {α} : ∀ (count : List Nat) (rows : List (List (M α))) (acc : List (M α)),
    packFrom acc count rows = acc ++ packFrom [] count rows := by
  intro count
  induction count with
  | nil => intro rows acc; simp [packFrom]
  | cons n ns ih =>
    intro rows acc
    cases rows with
    | nil => simp [packFrom]
    | cons d ds =>
      simp only [packFrom]
      rw [ih ds (if n = 0 then acc else acc ++ d.take n), ih ds (if n = 0 then [] else [] ++ d.take n)]
      by_cases hn : n = 0 <;> simp [hn]

theorem pack_cons {α} (n : Nat) (ns : List Nat) (d : List (M α)) (ds : List (List (M α))) :
    pack (n :: ns) (d :: ds) = d.take n ++ pack ns ds := by
  simp only [pack, packFrom]
  rw [packFrom_acc]
  by_cases hn : n = 0 <;> simp [hn]

theorem pack_nil {α} : pack [] ([] : List (List (M α))) = [] := by simp [pack, packFrom]

theorem contiguous_roundtrip_aux {α} (ncols : Nat) :
    ∀ (rows : List (List (M α))) (pre : List (M α)), (∀ r ∈ rows, r.length = ncols) →
      assembleRows rows.length ncols (subarraysContiguousFrom pre.length (rows.map deriveCount))
        (pre ++ pack (rows.map deriveCount) rows) = rows := by
  intro rows
  induction rows with
  | nil => intro pre _; simp [assembleRows_zero]
  | cons r rs ih =>
    intro pre h
    have hr := h r (by simp)
    have hle := deriveCount_le r
    simp only [List.map_cons, List.length_cons, subarraysContiguousFrom_cons, assembleRows_cons, pack_cons]
    have hsel : selectData (pre ++ (r.take (deriveCount r) ++ pack (rs.map deriveCount) rs))
        (.slice pre.length (pre.length + deriveCount r)) = r.take (deriveCount r) := by
      simp only [selectData]
      rw [← List.append_assoc, List.take_append_of_le_length (by simp; omega)]
      rw [List.take_of_length_le (by simp; omega), List.drop_left]
    rw [hsel]
    have := ih (pre ++ r.take (deriveCount r)) (fun x hx => h x (by simp [hx]))
    simp only [List.length_append, List.length_take, Nat.min_eq_left hle, List.append_assoc] at this
    rw [this, ← hr, raggedRow_take_deriveCount]

/-! ### the index variable built by `compress('indexed')` -/

theorem whereFrom_append (i : Nat) : ∀ (xs ys : List Nat) (p : Nat),
    whereFrom i p (xs ++ ys) = whereFrom i p xs ++ whereFrom i (p + xs.length) ys := by
  intro xs
  induction xs with
  | nil => intro ys p; simp [whereFrom]
  | cons x xs ih =>
    intro ys p
    by_cases hx : x = i <;> simp [whereFrom, hx, ih, Nat.add_assoc, Nat.add_comm 1]

theorem whereFrom_replicate_self (i : Nat) : ∀ (n p : Nat),
    whereFrom i p (List.replicate n i) = List.range' p n := by
  intro n
  induction n with
  | zero => intro p; simp [whereFrom]
  | succ n ih => intro p; simp [List.replicate_succ, whereFrom, ih, List.range'_succ]

theorem whereFrom_replicate_ne (i j : Nat) (h : j ≠ i) : ∀ (n p : Nat),
    whereFrom i p (List.replicate n j) = [] := by
  intro n
  induction n with
  | zero => intro p; simp [whereFrom]
  | succ n ih => intro p; simp [List.replicate_succ, whereFrom, ih, h]

theorem whereFrom_indexFromCounts_lt : ∀ (counts : List Nat) (s p i : Nat), i < s →
    whereFrom i p (indexFromCounts s counts) = [] := by
  intro counts
  induction counts with
  | nil => intro s p i _; simp [indexFromCounts, whereFrom]
  | cons n ns ih =>
    intro s p i h
    simp only [indexFromCounts, whereFrom_append]
    rw [whereFrom_replicate_ne _ _ (by omega), ih (s + 1) _ i (by omega)]
    simp

theorem whereFrom_indexFromCounts : ∀ (counts : List Nat) (s p k : Nat),
    whereFrom (s + k) p (indexFromCounts s counts)
      = List.range' (p + (counts.take k).sum) (counts.getD k 0) := by
  intro counts
  induction counts with
  | nil => intro s p k; simp [indexFromCounts, whereFrom]
  | cons n ns ih =>
    intro s p k
    simp only [indexFromCounts, whereFrom_append, List.length_replicate]
    cases k with
    | zero =>
      rw [Nat.add_zero, whereFrom_replicate_self, whereFrom_indexFromCounts_lt _ _ _ _ (by omega)]
      simp
    | succ k =>
      rw [whereFrom_replicate_ne _ _ (by omega)]
      have := ih (s + 1) (p + n) k
      rw [show s + 1 + k = s + (k + 1) by omega] at this
      simp [this, Nat.add_assoc]

theorem sampleOf_indexFromCounts (counts : List Nat) (i j : Nat) :
    sampleOf (indexFromCounts 0 counts) i j
      = if j < counts.getD i 0 then some ((counts.take i).sum + j) else none := by
  rw [← whereEq_getElem?, whereEq]
  have := whereFrom_indexFromCounts counts 0 0 i
  simp only [Nat.zero_add] at this
  rw [this]
  generalize counts.getD i 0 = n
  by_cases hj : j < n
  · simp [hj]
  · simp [hj]

/-- On the index variable that `compress('indexed')` builds, the indexed rule and
the contiguous rule on the counts select the same samples. -/
theorem specIndexed_indexFromCounts {α} (counts : List Nat) (c : List (M α)) (i j : Nat) :
    specIndexed (indexFromCounts 0 counts) c i j = specContiguous counts c i j := by
  simp only [specIndexed, specContiguous, sampleOf_indexFromCounts]
  generalize counts.getD i 0 = n
  by_cases hj : j < n <;> simp [hj]

theorem count_indexFromCounts (counts : List Nat) (i : Nat) :
    (indexFromCounts 0 counts).count i = counts.getD i 0 := by
  rw [← whereEq_length, whereEq]
  have := whereFrom_indexFromCounts counts 0 0 i
  simp only [Nat.zero_add] at this
  simp [this]

/-! ### `lastHit` on lists of distinct values -/

theorem inRange_unravel : ∀ (dims : List Nat) (q : Nat), q < prod dims → InRange dims (unravel dims q) := by
  intro dims
  induction dims with
  | nil => intro q _; simp [unravel, InRange]
  | cons n ns ih =>
    intro q h
    simp only [prod] at h
    have hpos : 0 < prod ns := by
      rcases Nat.eq_zero_or_pos (prod ns) with h0 | h0
      · rw [h0] at h; simp at h
      · exact h0
    simp only [unravel, InRange]
    refine ⟨?_, ih _ (Nat.mod_lt _ hpos)⟩
    exact (Nat.div_lt_iff_lt_mul hpos).mpr h

theorem lastHit_not_mem {α} (t : Nat) : ∀ (l : List Nat) (c : List (M α)), t ∉ l → lastHit t l c = none := by
  intro l
  induction l with
  | nil => intro c _; cases c <;> simp [lastHit]
  | cons q qs ih =>
    intro c h
    cases c with
    | nil => simp [lastHit]
    | cons x xs =>
      have h1 : ¬ q = t := fun e => h (by simp [e])
      have h2 : t ∉ qs := fun e => h (by simp [e])
      simp [lastHit, ih xs h2, h1]

theorem lastHit_nodup {α} : ∀ (l : List Nat) (c : List (M α)) (k : Nat), l.Nodup → k < l.length →
    l.length ≤ c.length → lastHit (l.getD k 0) l c = some (c.getD k none) := by
  intro l
  induction l with
  | nil => intro c k _ hk; simp at hk
  | cons q qs ih =>
    intro c k hnd hk hc
    cases c with
    | nil => simp at hc
    | cons x xs =>
      have hnd' := List.nodup_cons.mp hnd
      cases k with
      | zero =>
        simp only [List.getD_cons_zero, lastHit]
        rw [lastHit_not_mem q qs xs hnd'.1]
        simp
      | succ k =>
        have hk' : k < qs.length := by simpa using hk
        simp only [List.getD_cons_succ, lastHit]
        rw [ih xs k hnd'.2 hk' (by simpa using hc)]

/-! ### `compress('indexed_contiguous')` -/

/-- The packed samples of a list of rows. -/
def packR {α} (rows : List (List (M α))) : List (M α) := rows.flatMap (fun r => r.take (deriveCount r))

theorem pack_eq_packR {α} : ∀ (rows : List (List (M α))), pack (rows.map deriveCount) rows = packR rows := by
  intro rows
  induction rows with
  | nil => simp [pack_nil, packR]
  | cons r rs ih => simp [pack_cons, ih, packR]

theorem length_packR {α} : ∀ (rows : List (List (M α))), (packR rows).length = (rows.map deriveCount).sum := by
  intro rows
  induction rows with
  | nil => simp [packR]
  | cons r rs ih =>
    have := deriveCount_le r
    simp only [packR, List.flatMap_cons, List.length_append, List.length_take, List.map_cons, List.sum_cons] at ih ⊢
    rw [ih]; omega

theorem split_trailing {β} (p : β → Bool) (l : List β) :
    l = (l.reverse.dropWhile p).reverse ++ (l.reverse.takeWhile p).reverse := by
  calc l = l.reverse.reverse := (List.reverse_reverse l).symm
    _ = (l.reverse.takeWhile p ++ l.reverse.dropWhile p).reverse := by rw [List.takeWhile_append_dropWhile]
    _ = _ := List.reverse_append

theorem nProfiles_le (l : List Nat) : nProfiles l ≤ l.length := by
  have := congrArg List.length (split_trailing (· = 0) l)
  simp only [List.length_append, List.length_reverse] at this
  simp only [nProfiles]; omega

theorem drop_nProfiles (l : List Nat) : ∀ x ∈ l.drop (nProfiles l), x = 0 := by
  have hs := split_trailing (fun x => decide (x = 0)) l
  have hd : l.drop (nProfiles l) = (l.reverse.takeWhile (fun x => decide (x = 0))).reverse := by
    have : nProfiles l = (l.reverse.dropWhile (fun x => decide (x = 0))).reverse.length := by simp [nProfiles]
    rw [this]
    conv => lhs; arg 2; rw [hs]
    exact List.drop_left
  intro x hx
  rw [hd] at hx
  have := mem_takeWhile_prop _ _ _ (by simpa using hx)
  simpa using this

theorem all_masked_of_deriveCount_zero {α} (r : List (M α)) (h : deriveCount r = 0) :
    r = List.replicate r.length none := by
  have := raggedRow_take_deriveCount r
  rw [h] at this
  simpa [raggedRow] using this.symm

/-- the profiles of an instance up to the last non-empty one -/
def trimmed {α} (inst : List (List (M α))) : List (List (M α)) :=
  inst.take (nProfiles (inst.map deriveCount))

theorem inst_split {α} (inst : List (List (M α))) (nelem : Nat) (h : ∀ r ∈ inst, r.length = nelem) :
    inst = trimmed inst ++
      List.replicate (inst.length - nProfiles (inst.map deriveCount)) (List.replicate nelem none) := by
  have hle := nProfiles_le (inst.map deriveCount)
  simp only [List.length_map] at hle
  conv => lhs; rw [← List.take_append_drop (nProfiles (inst.map deriveCount)) inst]
  simp only [trimmed]
  congr 1
  rw [List.eq_replicate_iff]
  refine ⟨by simp, ?_⟩
  intro r hr
  have hmem : r ∈ inst := List.mem_of_mem_drop hr
  have hz : deriveCount r = 0 := by
    apply drop_nProfiles (inst.map deriveCount)
    rw [← List.map_drop]
    exact List.mem_map_of_mem hr
  have := all_masked_of_deriveCount_zero _ hz
  rw [h _ hmem] at this
  exact this

theorem packR_trimmed {α} (inst : List (List (M α))) : packR inst = packR (trimmed inst) := by
  conv => lhs; rw [← List.take_append_drop (nProfiles (inst.map deriveCount)) inst]
  simp only [packR, List.flatMap_append, trimmed]
  have : (inst.drop (nProfiles (inst.map deriveCount))).flatMap (fun r => r.take (deriveCount r)) = [] := by
    rw [List.flatMap_eq_nil_iff]
    intro r hr
    have hz : deriveCount r = 0 := by
      apply drop_nProfiles (inst.map deriveCount)
      rw [← List.map_drop]
      exact List.mem_map_of_mem hr
    simp [hz]
  simp [this]

theorem profileSlice_at (cpre : List Nat) (n : Nat) (rest : List Nat) :
    profileSlice (cumsum 0 (cpre ++ n :: rest)) cpre.length = .slice cpre.sum (cpre.sum + n) := by
  have hstop : (cumsum 0 (cpre ++ n :: rest)).getD cpre.length 0 = cpre.sum + n := by
    have ht : cpre.take (cpre.length + 1) = cpre := List.take_of_length_le (by omega)
    simp [List.getD_eq_getElem?_getD, cumsum_getElem?, List.take_append, ht]
  have hstart : (if cpre.length = 0 then 0 else (cumsum 0 (cpre ++ n :: rest)).getD (cpre.length - 1) 0)
      = cpre.sum := by
    cases hc : cpre with
    | nil => simp
    | cons a as =>
      have hlt : as.length < as.length + (rest.length + 1) + 1 := by omega
      simp [List.getD_eq_getElem?_getD, cumsum_getElem?, hlt]
  simp only [profileSlice, hstart, hstop]

theorem profiles_roundtrip {α} (nelem : Nat) :
    ∀ (rs : List (List (M α))) (cpre cpost : List Nat) (pre post : List (M α)),
      (∀ r ∈ rs, r.length = nelem) → pre.length = cpre.sum →
      (List.range' cpre.length rs.length).map (fun p =>
          raggedRow nelem (selectData (pre ++ (packR rs ++ post))
            (profileSlice (cumsum 0 (cpre ++ (rs.map deriveCount ++ cpost))) p))) = rs := by
  intro rs
  induction rs with
  | nil => intro cpre cpost pre post _ _; simp
  | cons r rs ih =>
    intro cpre cpost pre post h hpre
    have hr := h r (by simp)
    have hle := deriveCount_le r
    simp only [List.length_cons, List.range'_succ, List.map_cons, List.cons_append, profileSlice_at]
    have hsel : selectData (pre ++ (packR (r :: rs) ++ post))
        (.slice cpre.sum (cpre.sum + deriveCount r)) = r.take (deriveCount r) := by
      simp only [selectData, packR, List.flatMap_cons, ← hpre]
      rw [List.append_assoc, ← List.append_assoc pre, List.take_append_of_le_length (by simp; omega)]
      rw [List.take_of_length_le (by simp; omega), List.drop_left]
    rw [hsel]
    congr 1
    · rw [← hr]; exact raggedRow_take_deriveCount r
    · have := ih (cpre ++ [deriveCount r]) cpost (pre ++ r.take (deriveCount r)) post
        (fun x hx => h x (by simp [hx])) (by simp [hpre, Nat.min_eq_left hle])
      simp only [List.length_append, List.length_singleton, List.append_assoc, List.singleton_append] at this
      simpa [packR, List.append_assoc] using this

theorem whereFrom_not_mem (i : Nat) : ∀ (xs : List Nat) (p : Nat), i ∉ xs → whereFrom i p xs = [] := by
  intro xs
  induction xs with
  | nil => intro p _; simp [whereFrom]
  | cons x xs ih =>
    intro p h
    have h1 : ¬ x = i := fun e => h (by simp [e])
    have h2 : i ∉ xs := fun e => h (by simp [e])
    simp [whereFrom, h1, ih _ h2]

/-- count variable and profile numbers that `compress('indexed_contiguous')` builds -/
def countVar {α} (insts : List (List (List (M α)))) : List Nat :=
  insts.flatMap (fun inst => (trimmed inst).map deriveCount)

def nprofs {α} (insts : List (List (List (M α)))) : List Nat :=
  insts.map (fun inst => nProfiles (inst.map deriveCount))

theorem trimmed_length {α} (inst : List (List (M α))) :
    (trimmed inst).length = nProfiles (inst.map deriveCount) := by
  have := nProfiles_le (inst.map deriveCount)
  simp only [List.length_map] at this
  simp [trimmed, Nat.min_eq_left this]

theorem instances_roundtrip {α} (maxProf nelem : Nat) :
    ∀ (insts : List (List (List (M α)))) (s : Nat) (ipre cpre : List Nat) (pre : List (M α)),
      (∀ inst ∈ insts, inst.length = maxProf ∧ ∀ r ∈ inst, r.length = nelem) →
      (∀ x ∈ ipre, x < s) → ipre.length = cpre.length → pre.length = cpre.sum →
      (List.range' s insts.length).flatMap (fun i =>
        (icBlock (cumsum 0 (cpre ++ countVar insts)) (ipre ++ indexFromCounts s (nprofs insts)) maxProf i).map
          (fun ci => raggedRow nelem (selectData (pre ++ packR insts.flatten) ci))) = insts.flatten := by
  intro insts
  induction insts with
  | nil => intro s ipre cpre pre _ _ _ _; simp
  | cons inst rest ih =>
    intro s ipre cpre pre h hlt hlen hpre
    obtain ⟨hil, hir⟩ := h inst (by simp)
    have htl := trimmed_length inst
    have hnp : nProfiles (inst.map deriveCount) ≤ maxProf := by
      have := nProfiles_le (inst.map deriveCount); simp only [List.length_map] at this; omega
    simp only [List.length_cons, List.range'_succ, List.flatMap_cons, List.flatten_cons]
    -- the samples, counts and index of this instance
    have hpack : packR (inst ++ rest.flatten) = packR (trimmed inst) ++ packR rest.flatten := by
      rw [← packR_trimmed]; simp [packR]
    have hcv : countVar (inst :: rest) = (trimmed inst).map deriveCount ++ countVar rest := by
      simp [countVar]
    have hnps : indexFromCounts s (nprofs (inst :: rest))
        = List.replicate (nProfiles (inst.map deriveCount)) s ++ indexFromCounts (s + 1) (nprofs rest) := by
      simp [nprofs, indexFromCounts]
    rw [hpack, hcv, hnps]
    congr 1
    · -- the block of instance `s`
      have hw : whereEq (ipre ++ (List.replicate (nProfiles (inst.map deriveCount)) s
            ++ indexFromCounts (s + 1) (nprofs rest))) s
          = List.range' cpre.length (trimmed inst).length := by
        simp only [whereEq, whereFrom_append, List.length_replicate]
        rw [whereFrom_not_mem s ipre 0 (fun hm => Nat.lt_irrefl _ (hlt s hm)),
          whereFrom_replicate_self, whereFrom_indexFromCounts_lt _ _ _ _ (by omega)]
        simp [hlen, htl]
      simp only [icBlock, hw, List.map_append, List.map_map, List.map_replicate, raggedRow_zero_slice,
        List.length_range', Function.comp_def]
      rw [profiles_roundtrip nelem (trimmed inst) cpre (countVar rest) pre (packR rest.flatten)
        (fun r hr => hir r (List.mem_of_mem_take hr)) hpre]
      conv => rhs; rw [inst_split inst nelem hir]
      rw [htl, hil]
    · -- the later instances
      have := ih (s + 1) (ipre ++ List.replicate (nProfiles (inst.map deriveCount)) s)
        (cpre ++ (trimmed inst).map deriveCount) (pre ++ packR (trimmed inst))
        (fun x hx => h x (by simp [hx]))
        (by
          intro x hx
          rcases List.mem_append.mp hx with hx | hx
          · have := hlt x hx; omega
          · have := List.eq_of_mem_replicate hx; omega)
        (by simp [hlen, htl])
        (by simp [hpre, length_packR])
      simpa [List.append_assoc] using this

theorem compressIC_count {α} (a : List (List (List (M α)))) :
    (compressIndexedContiguous a).count = countVar a := by
  simp only [compressIndexedContiguous, countVar, trimmed]
  induction a with
  | nil => simp
  | cons inst rest ih =>
    simp only [List.map_cons, List.zip_cons_cons, List.flatMap_cons, List.map_take, ih]

theorem compressIC_index {α} (a : List (List (List (M α)))) :
    (compressIndexedContiguous a).index = indexFromCounts 0 (nprofs a) := by
  simp [compressIndexedContiguous, nprofs, List.map_map, Function.comp_def]

theorem compressIC_c {α} (a : List (List (List (M α)))) :
    (compressIndexedContiguous a).c = packR a.flatten := by
  simp only [compressIndexedContiguous]
  rw [← pack_eq_packR, List.map_flatten]

/-! ### element-wise maps (extra dimensions) -/

theorem selectData_map {α β} (f : α → β) (c : List (M α)) (ci : CIdx) :
    selectData (c.map (Option.map f)) ci = (selectData c ci).map (Option.map f) := by
  cases ci with
  | slice a b => simp [selectData, List.map_take, List.map_drop]
  | pos l =>
    simp only [selectData, List.map_map]
    apply List.map_congr_left
    intro k _
    simp only [Function.comp_def, List.getD_eq_getElem?_getD, List.getElem?_map]
    cases c[k]? <;> simp

theorem raggedRow_map {α β} (f : α → β) (n : Nat) (d : List (M α)) :
    raggedRow n (d.map (Option.map f)) = (raggedRow n d).map (Option.map f) := by
  simp [raggedRow]

theorem assembleRows_map {α β} (f : α → β) (nrows ncols : Nat) (cis : List CIdx) (c : List (M α)) :
    assembleRows nrows ncols cis (c.map (Option.map f))
      = (assembleRows nrows ncols cis c).map (List.map (Option.map f)) := by
  simp [assembleRows, selectData_map, raggedRow_map, Function.comp_def]

theorem gatherAssign_map {α β} (f : α → β) (dims : List Nat) :
    ∀ (l : List Nat) (c : List (M α)) (u : List Nat → M α) (idx : List Nat),
      gatherAssign dims l (c.map (Option.map f)) (fun i => Option.map f (u i)) idx
        = Option.map f (gatherAssign dims l c u idx) := by
  intro l
  induction l with
  | nil => intro c u idx; cases c <;> simp [gatherAssign]
  | cons q qs ih =>
    intro c u idx
    cases c with
    | nil => simp [gatherAssign]
    | cons x xs =>
      simp only [List.map_cons, gatherAssign]
      rw [← ih xs (fun i => if i = unravel dims q then x else u i) idx]
      congr 1
      funext i
      by_cases hi : i = unravel dims q <;> simp [hi]

end Cfdm.Ragged
