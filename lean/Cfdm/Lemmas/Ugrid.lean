import Cfdm.Model.Ugrid
/- Helper lemmas for C15 (kept apart from the property theorems). -/
namespace Cfdm.Ugrid

/-! ### `sorted(set(l))` -/

theorem mem_insertUniq (x y : Nat) (l : List Nat) : y ∈ insertUniq x l ↔ y = x ∨ y ∈ l := by
  induction l with
  | nil => simp [insertUniq]
  | cons a t ih =>
    unfold insertUniq
    split
    · simp
    · split
      · rename_i h; subst h; simp
      · simp only [List.mem_cons, ih]
        constructor
        · rintro (h | h | h) <;> simp [h]
        · rintro (h | h | h) <;> simp [h]

theorem mem_sortDedup (y : Nat) (l : List Nat) : y ∈ sortDedup l ↔ y ∈ l := by
  induction l with
  | nil => simp [sortDedup]
  | cons a t ih =>
    have : sortDedup (a :: t) = insertUniq a (sortDedup t) := rfl
    rw [this, mem_insertUniq, ih]; simp

theorem insertUniq_sorted (x : Nat) (l : List Nat) (h : l.Pairwise (· < ·)) :
    (insertUniq x l).Pairwise (· < ·) := by
  induction l with
  | nil => simp [insertUniq]
  | cons a t ih =>
    unfold insertUniq
    have ht := (List.pairwise_cons.mp h)
    split
    · rename_i hxa
      refine List.pairwise_cons.mpr ⟨?_, h⟩
      intro b hb
      rcases List.mem_cons.mp hb with rfl | hb
      · exact hxa
      · exact Nat.lt_trans hxa (ht.1 b hb)
    · split
      · exact h
      · rename_i h1 h2
        refine List.pairwise_cons.mpr ⟨?_, ih ht.2⟩
        intro b hb
        rcases (mem_insertUniq x b t).mp hb with rfl | hb
        · omega
        · exact ht.1 b hb

theorem sortDedup_sorted (l : List Nat) : (sortDedup l).Pairwise (· < ·) := by
  induction l with
  | nil => simp [sortDedup]
  | cons a t ih => exact insertUniq_sorted a _ ih

theorem sorted_nodup {l : List Nat} (h : l.Pairwise (· < ·)) : l.Nodup :=
  h.imp (fun hab => Nat.ne_of_lt hab)

/-- Two strictly increasing lists with the same members are equal. -/
theorem sorted_ext : ∀ {a b : List Nat}, a.Pairwise (· < ·) → b.Pairwise (· < ·) →
    (∀ x, x ∈ a ↔ x ∈ b) → a = b
  | [], [], _, _, _ => rfl
  | [], y :: _, _, _, h => by have := (h y).mpr (by simp); simp at this
  | x :: _, [], _, _, h => by have := (h x).mp (by simp); simp at this
  | x :: s, y :: t, ha, hb, h => by
    have ha' := List.pairwise_cons.mp ha
    have hb' := List.pairwise_cons.mp hb
    have hxy : x = y := by
      have h1 := (h x).mp (by simp)
      have h2 := (h y).mpr (by simp)
      rcases List.mem_cons.mp h1 with h1 | h1
      · exact h1
      · rcases List.mem_cons.mp h2 with h2 | h2
        · exact h2.symm
        · have := hb'.1 x h1; have := ha'.1 y h2; omega
    subst hxy
    congr 1
    apply sorted_ext ha'.2 hb'.2
    intro z
    constructor
    · intro hz
      have := (h z).mp (List.mem_cons_of_mem _ hz)
      rcases List.mem_cons.mp this with rfl | h3
      · have := ha'.1 z hz; omega
      · exact h3
    · intro hz
      have := (h z).mpr (List.mem_cons_of_mem _ hz)
      rcases List.mem_cons.mp this with rfl | h3
      · have := hb'.1 z hz; omega
      · exact h3

/-! ### masked rows -/

theorem mem_compressed {α} (r : List (Option α)) (v : α) : v ∈ compressed r ↔ some v ∈ r := by
  simp [compressed, List.mem_filterMap]

theorem compressed_map {α β} (f : α → β) (r : List (Option α)) :
    compressed (r.map (fun o => o.map f)) = (compressed r).map f := by
  induction r with
  | nil => rfl
  | cons a t ih =>
    cases a with
    | none => simpa [compressed] using ih
    | some v => simp only [compressed] at ih ⊢; simp [ih]

/-! ### cyclic neighbours in a face -/

theorem mem_cyclicPairs (f : List Nat) (a b : Nat) :
    (a, b) ∈ cyclicPairs f ↔
      ∃ i, i < f.length ∧ f[i]? = some a ∧ f[(i + 1) % f.length]? = some b := by
  cases f with
  | nil => simp [cyclicPairs]
  | cons a0 t =>
    simp only [cyclicPairs, List.mem_iff_getElem?, List.getElem?_zip_eq_some, List.length_cons]
    constructor
    · rintro ⟨i, h1, h2⟩
      have hi : i < t.length + 1 := by
        have := (List.getElem?_eq_some_iff.mp h1).1; simpa using this
      refine ⟨i, hi, h1, ?_⟩
      by_cases hlt : i < t.length
      · rw [Nat.mod_eq_of_lt (by omega)]
        rw [List.getElem?_append_left hlt] at h2
        simpa using h2
      · have : i = t.length := by omega
        subst this
        simp at h2
        simp [h2]
    · rintro ⟨i, hi, h1, h2⟩
      refine ⟨i, h1, ?_⟩
      by_cases hlt : i < t.length
      · rw [Nat.mod_eq_of_lt (by omega)] at h2
        rw [List.getElem?_append_left hlt]
        simpa using h2
      · have : i = t.length := by omega
        subst this
        simp at h2
        simp [h2]

theorem mem_faceNeighbours (node x : Nat) (f : List Nat) :
    x ∈ faceNeighbours node f ↔ AdjInFace f node x := by
  simp only [faceNeighbours, List.mem_flatMap, AdjInFace]
  constructor
  · rintro ⟨⟨a, b⟩, hp, hx⟩
    obtain ⟨i, hi, h1, h2⟩ := (mem_cyclicPairs f a b).mp hp
    simp only [List.mem_append] at hx
    rcases hx with hx | hx
    · by_cases hb : b = node
      · simp [hb] at hx; subst hx; subst hb
        exact ⟨i, hi, Or.inr ⟨h1, h2⟩⟩
      · simp [hb] at hx
    · by_cases ha : a = node
      · simp [ha] at hx; subst hx; subst ha
        exact ⟨i, hi, Or.inl ⟨h1, h2⟩⟩
      · simp [ha] at hx
  · rintro ⟨i, hi, h | h⟩
    · exact ⟨(node, x), (mem_cyclicPairs f node x).mpr ⟨i, hi, h.1, h.2⟩, by simp⟩
    · exact ⟨(x, node), (mem_cyclicPairs f x node).mpr ⟨i, hi, h.1, h.2⟩, by simp⟩

theorem AdjInFace.symm {f : List Nat} {n m : Nat} (h : AdjInFace f n m) : AdjInFace f m n := by
  obtain ⟨i, hi, h⟩ := h
  exact ⟨i, hi, h.symm⟩

theorem AdjInFace.mem_left {f : List Nat} {n m : Nat} (h : AdjInFace f n m) : n ∈ f := by
  obtain ⟨i, _, h | h⟩ := h
  · exact List.mem_of_getElem? h.1
  · exact List.mem_of_getElem? h.2

theorem AdjInFace.mem_right {f : List Nat} {n m : Nat} (h : AdjInFace f n m) : m ∈ f :=
  h.symm.mem_left

/-- Adding 1 to every node id of a face moves adjacency along. -/
theorem adjInFace_succ (f : List Nat) (n x : Nat) :
    AdjInFace (f.map (· + 1)) (n + 1) x ↔ ∃ m, x = m + 1 ∧ AdjInFace f n m := by
  have key : ∀ (i a : Nat), (f.map (· + 1))[i]? = some (a + 1) ↔ f[i]? = some a := by
    intro i a
    rw [List.getElem?_map]
    cases f[i]? <;> simp
  constructor
  · intro h
    have hx : x ∈ f.map (· + 1) := h.mem_right
    obtain ⟨m, _, rfl⟩ := List.mem_map.mp hx
    refine ⟨m, rfl, ?_⟩
    obtain ⟨i, hi, h⟩ := h
    simp only [List.length_map] at hi h
    refine ⟨i, hi, ?_⟩
    simpa only [key] using h
  · rintro ⟨m, rfl, i, hi, h⟩
    refine ⟨i, by simpa using hi, ?_⟩
    simp only [List.length_map]
    simpa only [key] using h

/-! ### `_connected_nodes` -/

theorem mem_rowsWith (node : Nat) (c : Mat) (r : Row) :
    r ∈ rowsWith node c ↔ r ∈ c ∧ some node ∈ r := by
  simp [rowsWith, List.mem_filter]

theorem mem_connectedFaces_tail (node x : Nat) (c : Mat) :
    x ∈ (connectedFaces node c).tail ↔ ∃ r ∈ c, AdjInFace (compressed r) node x := by
  simp only [connectedFaces, List.tail_cons, mem_sortDedup, List.mem_flatMap, mem_rowsWith,
    mem_faceNeighbours]
  constructor
  · rintro ⟨r, ⟨hr, _⟩, h⟩; exact ⟨r, hr, h⟩
  · rintro ⟨r, hr, h⟩
    exact ⟨r, ⟨hr, (mem_compressed r node).mp h.mem_left⟩, h⟩

theorem mem_connectedEdges_tail (node x : Nat) (c : Mat) :
    x ∈ (connectedEdges node c).tail ↔
      x ≠ node ∧ ∃ r ∈ c, node ∈ compressed r ∧ x ∈ compressed r := by
  simp only [connectedEdges, List.tail_cons]
  rw [(sorted_nodup (sortDedup_sorted _)).mem_erase_iff]
  simp only [mem_sortDedup, List.mem_flatMap, mem_rowsWith, mem_compressed]
  constructor
  · rintro ⟨hne, r, ⟨hr, hn⟩, hx⟩; exact ⟨hne, r, hr, hn, hx⟩
  · rintro ⟨hne, r, hr, hn, hx⟩; exact ⟨hne, r, ⟨hr, hn⟩, hx⟩

theorem connected_head (src : Src) (node : Nat) (c : Mat) :
    connected src node c = node :: (connected src node c).tail := by
  cases src <;> rfl

theorem connected_tail_sorted (src : Src) (node : Nat) (c : Mat) :
    (connected src node c).tail.Pairwise (· < ·) := by
  cases src
  · exact sortDedup_sorted _
  · simp only [connected, connectedEdges, List.tail_cons]
    exact (sortDedup_sorted _).sublist List.erase_sublist

/-- The neighbour relation on an already zero-based connectivity array. -/
def Nbr0 (src : Src) (c0 : Mat) (n m : Nat) : Prop :=
  match src with
  | .faces => ∃ r ∈ c0, AdjInFace (compressed r) n m
  | .edges => m ≠ n ∧ ∃ r ∈ c0, n ∈ compressed r ∧ m ∈ compressed r

theorem neighbour_iff_nbr0 (src : Src) (si : Nat) (conn : Mat) (n m : Nat) :
    Neighbour src si conn n m ↔ Nbr0 src (specCells si conn) n m := by
  cases src
  · simp only [Neighbour, Nbr0, FaceEdge, specCells, List.mem_map]
    constructor
    · rintro ⟨r, hr, h⟩; exact ⟨_, ⟨r, hr, rfl⟩, h⟩
    · rintro ⟨_, ⟨r, hr, rfl⟩, h⟩; exact ⟨r, hr, h⟩
  · simp only [Neighbour, Nbr0, EdgeEdge, specCells, List.mem_map]
    constructor
    · rintro ⟨hne, r, hr, h⟩; exact ⟨hne, _, ⟨r, hr, rfl⟩, h⟩
    · rintro ⟨hne, _, ⟨r, hr, rfl⟩, h⟩; exact ⟨hne, r, hr, h⟩

theorem Nbr0.symm {src : Src} {c0 : Mat} {n m : Nat} (h : Nbr0 src c0 n m) : Nbr0 src c0 m n := by
  cases src
  · obtain ⟨r, hr, h⟩ := h; exact ⟨r, hr, h.symm⟩
  · obtain ⟨hne, r, hr, h1, h2⟩ := h; exact ⟨fun e => hne e.symm, r, hr, h2, h1⟩

theorem Nbr0.mem {src : Src} {c0 : Mat} {n m : Nat} (h : Nbr0 src c0 n m) :
    ∃ r ∈ c0, some m ∈ r := by
  cases src
  · obtain ⟨r, hr, h⟩ := h; exact ⟨r, hr, (mem_compressed r m).mp h.mem_right⟩
  · obtain ⟨_, r, hr, _, h2⟩ := h; exact ⟨r, hr, (mem_compressed r m).mp h2⟩

theorem compressed_succ_row (r : Row) :
    compressed (r.map (fun o => o.map (· + 1))) = (compressed r).map (· + 1) :=
  compressed_map (· + 1) r

/-- One-based assembly against the zero-based relation. -/
theorem connected_tail_iff (src : Src) (c0 : Mat) (n x : Nat) :
    x ∈ (connected src (n + 1) (mapVals (· + 1) c0)).tail ↔ ∃ m, x = m + 1 ∧ Nbr0 src c0 n m := by
  cases src
  · simp only [connected, mem_connectedFaces_tail, mapVals, List.mem_map, Nbr0]
    constructor
    · rintro ⟨_, ⟨r, hr, rfl⟩, h⟩
      rw [compressed_succ_row, adjInFace_succ] at h
      obtain ⟨m, rfl, h⟩ := h
      exact ⟨m, rfl, r, hr, h⟩
    · rintro ⟨m, rfl, r, hr, h⟩
      refine ⟨_, ⟨r, hr, rfl⟩, ?_⟩
      rw [compressed_succ_row, adjInFace_succ]
      exact ⟨m, rfl, h⟩
  · simp only [connected, mem_connectedEdges_tail, mapVals, List.mem_map, Nbr0]
    constructor
    · rintro ⟨hne, _, ⟨r, hr, rfl⟩, hn, hx⟩
      rw [compressed_succ_row] at hn hx
      obtain ⟨n', hn', e⟩ := List.mem_map.mp hn
      obtain ⟨m, hm, rfl⟩ := List.mem_map.mp hx
      have : n' = n := by omega
      subst this
      exact ⟨m, rfl, fun e => hne (by omega), r, hr, hn', hm⟩
    · rintro ⟨m, rfl, hne, r, hr, hn, hm⟩
      refine ⟨by omega, _, ⟨r, hr, rfl⟩, ?_, ?_⟩ <;> rw [compressed_succ_row]
      · exact List.mem_map.mpr ⟨n, hn, rfl⟩
      · exact List.mem_map.mpr ⟨m, hm, rfl⟩

/-- `toOneBased` is "zero-based ids plus one" whenever the stored values respect
the start index. -/
theorem toOneBased_eq (si : Nat) (conn : Mat) (hsi : si ≤ 1)
    (hwf : ∀ r ∈ conn, ∀ v, some v ∈ r → si ≤ v) :
    toOneBased si conn = mapVals (· + 1) (specCells si conn) := by
  unfold toOneBased mapVals specCells specRow
  rw [List.map_map]
  by_cases h0 : si = 0
  · subst h0
    simp only [if_true]
    apply List.map_congr_left
    intro r _
    simp only [Function.comp, List.map_map]
    apply List.map_congr_left
    intro o _
    cases o <;> simp
  · have h1 : si = 1 := by omega
    subst h1
    simp only [if_neg h0]
    conv => lhs; rw [← List.map_id conn]
    apply List.map_congr_left
    intro r hr
    simp only [Function.comp, List.map_map, id]
    conv => lhs; rw [← List.map_id r]
    apply List.map_congr_left
    intro o ho
    cases o with
    | none => rfl
    | some v =>
      have := hwf r hr v ho
      simp only [id, Option.map_some, Function.comp]
      congr 1; omega

/-! ### the sparse → dense → masked assembly -/

theorem length_le_maxLen (rows : List (List Nat)) (r : List Nat) (h : r ∈ rows) :
    r.length ≤ maxLen rows := by
  induction rows with
  | nil => simp at h
  | cons a t ih =>
    simp only [maxLen, List.foldr_cons]
    rcases List.mem_cons.mp h with rfl | h
    · exact Nat.le_max_left _ _
    · exact Nat.le_trans (ih h) (Nat.le_max_right _ _)

theorem dense_row (rows : List (List Nat)) (hpos : ∀ r ∈ rows, ∀ v ∈ r, 0 < v)
    (k : Nat) (hk : k < rows.length) :
    (maskZerosPred (toDense rows))[k]? =
      some ((rows[k]).map (fun v => some (v - 1)) ++
        List.replicate (maxLen rows - rows[k].length) none) := by
  simp only [maskZerosPred, toDense, List.getElem?_map, List.getElem?_eq_getElem hk,
    Option.map_some, List.map_append, List.map_replicate, if_true]
  congr 2
  apply List.map_congr_left
  intro v hv
  have := hpos _ (List.getElem_mem hk) v hv
  simp; omega

theorem dense_length (rows : List (List Nat)) :
    (maskZerosPred (toDense rows)).length = rows.length := by
  simp [maskZerosPred, toDense]

theorem dense_rect (rows : List (List Nat)) (r : Row) (h : r ∈ maskZerosPred (toDense rows)) :
    r.length = maxLen rows := by
  simp only [maskZerosPred, toDense, List.map_map, List.mem_map] at h
  obtain ⟨r0, hr0, rfl⟩ := h
  have := length_le_maxLen rows r0 hr0
  simp; omega

theorem pointTopology_length (src : Src) (si nNodes : Nat) (conn : Mat) :
    (pointTopology src si (some nNodes) conn).length = nNodes := by
  simp [pointTopology, dense_length, pointRows]

theorem some_mem_row_tail (nb : List Nat) (pad m : Nat) :
    some m ∈ (nb.map some ++ List.replicate pad (none : Option Nat)) ↔ m ∈ nb := by
  simp [List.mem_append, List.mem_replicate]

/-! ### bounds: compress → gather → scatter -/

theorem scatterRow_map (f : Nat → Int) (r : Row) (rest : List Int) :
    scatterRow r ((compressed r).map f ++ rest) = (r.map (fun o => o.map f), rest) := by
  induction r with
  | nil => simp [scatterRow, compressed]
  | cons a t ih =>
    cases a with
    | none =>
      simp only [compressed, List.filterMap_cons, id] at ih ⊢
      simp only [scatterRow, ih, List.map_cons, Option.map_none]
    | some v =>
      simp only [compressed, List.filterMap_cons, id, List.map_cons, List.cons_append] at ih ⊢
      simp only [scatterRow, ih, Option.map_some]

theorem vals_cons {α} (r : List (Option α)) (m : List (List (Option α))) :
    vals (r :: m) = compressed r ++ vals m := by
  simp [vals]

theorem scatter_map (f : Nat → Int) (m : Mat) :
    scatter m ((vals m).map f) = m.map (fun r => r.map (fun o => o.map f)) := by
  induction m with
  | nil => simp [scatter]
  | cons r t ih =>
    simp only [scatter, vals_cons, List.map_append, scatterRow_map, List.map_cons, ih]

/-! ### transposition -/

theorem transpose_entry {α} (m : List (List (Option α))) (w : Nat)
    (hrect : ∀ r ∈ m, r.length = w) (i j : Nat) (hi : i < m.length) (hj : j < w) :
    ((transpose m).getD j []).getD i none = (m.getD i []).getD j none := by
  cases m with
  | nil => simp at hi
  | cons r0 t =>
    have hw : r0.length = w := hrect r0 (by simp)
    have hjr : j < r0.length := by omega
    obtain ⟨row, hrow⟩ : ∃ row, (r0 :: t)[i]? = some row := ⟨_, List.getElem?_eq_getElem hi⟩
    have hlen : row.length = w := hrect row (List.mem_of_getElem? hrow)
    have h1 : (transpose (r0 :: t))[j]? = some ((r0 :: t).map (fun row => (row[j]?).join)) := by
      simp only [transpose, List.getElem?_map, List.getElem?_range hjr, Option.map_some]
    simp only [List.getD_eq_getElem?_getD, h1, hrow, Option.getD_some, List.getElem?_map,
      Option.map_some]
    cases row[j]? <;> rfl

end Cfdm.Ugrid
