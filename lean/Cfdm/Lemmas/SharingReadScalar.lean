import Cfdm.Model.Sharing
/-
C09 — helper lemmas: what the reader's cell-method parser knows about scalar coordinate variables
(`ncscalar_to_axis`, model: `CoordAcc.scal`).
-/
namespace Cfdm.Sharing

theorem File.var?_name {F : File} {n : Name} {v : Var} (h : F.var? n = some v) : v.name = n := by
  unfold File.var? at h
  have := List.find?_some h
  simpa using this

/-- every entry `(n, i)` of `ncscalar_to_axis` denotes a size-1 axis `i` of the construct being created, made for
the scalar coordinate variable `n`, and the coordinate construct read from `n` spans exactly that axis -/
def ScalOk (a : CoordAcc) : Prop :=
  ∀ p ∈ a.scal, a.axes[p.2]? = some (1, none) ∧ ∃ c ∈ a.cons, c.ncvar = p.1 ∧ c.axes = [p.2]

theorem getElem?_append_of_some {α} {l : List α} {i : Nat} {x : α} (h : l[i]? = some x) (m : List α) : (l ++ m)[i]? = some x := by
  have hi : i < l.length := by
    rcases Nat.lt_or_ge i l.length with h' | h'
    · exact h'
    · rw [List.getElem?_eq_none h'] at h; cases h
  rw [List.getElem?_append_left hi]; exact h

theorem readCoords_scalOk (patched : Bool) (F : File) (ddims : List Name) (names : List Name) :
    ∀ a0 : CoordAcc, ScalOk a0 → ScalOk (readCoords patched F ddims names a0) := by
  unfold readCoords
  induction names with
  | nil => intro a0 h; exact h
  | cons n rest ih =>
    intro a0 h
    rw [List.foldl_cons]
    apply ih
    -- one step
    split
    · exact h
    · split
      · exact h
      · rename_i v hv
        split
        · exact h
        · have new : ∀ (c : RCons) (ac : List (Name × Bool)) (e : Bool), c.ncvar = n → c.axes = [a0.axes.length] →
              ScalOk { a0 with axes := a0.axes ++ [(1, none)], cons := a0.cons ++ [c], ac := ac,
                               scal := a0.scal ++ [(n, a0.axes.length)], err := e } := by
            intro c ac e hc1 hc2 p hp
            simp only [List.mem_append, List.mem_singleton] at hp
            rcases hp with hp | hp
            · obtain ⟨h1, c', hc', h2, h3⟩ := h p hp
              exact ⟨getElem?_append_of_some h1 _, c', List.mem_append_left _ hc', h2, h3⟩
            · subst hp
              refine ⟨by simp, c, by simp, hc1, hc2⟩
          split
          · split
            · exact new _ _ _ (File.var?_name hv) rfl
            · exact new _ _ _ (File.var?_name hv) rfl
          · intro p hp
            obtain ⟨h1, c', hc', h2, h3⟩ := h p hp
            exact ⟨h1, c', List.mem_append_left _ hc', h2, h3⟩

theorem readCoordsOf_scalOk (patched : Bool) (F : File) (x : Var) (ac : List (Name × Bool)) (err : Bool) :
    ScalOk (readCoordsOf patched F x ac err) := by
  unfold readCoordsOf
  apply readCoords_scalOk
  intro p hp
  simp at hp

theorem lookup_mem {β} {l : List (Name × β)} {a : Name} {n : β} (h : lookup l a = some n) : (a, n) ∈ l := by
  unfold lookup at h
  cases hf : l.find? (·.1 == a) with
  | none => simp [hf] at h
  | some q =>
    simp only [hf, Option.map_some, Option.some.injEq] at h
    have h1 := List.mem_of_find?_eq_some hf
    have h2 := List.find?_some hf
    simp only [beq_iff_eq] at h2
    obtain ⟨q1, q2⟩ := q
    simp only at h h2
    subst h; subst h2
    exact h1

end Cfdm.Sharing
