import Cfdm.Model.SharedProps
import Cfdm.Lemmas.Globals
/-
C09 — helper lemmas for the properties of fields sharing a dataset (`Cfdm.SharedProps`).
-/
namespace Cfdm.SharedProps
open Cfdm.Globals

/-! ### dictionaries as lists -/

theorem lookup_nil {β} (p : String) : lookup p ([] : List (String × β)) = none := rfl

theorem lookup_cons {β} (p : String) (x : String × β) (xs : List (String × β)) :
    lookup p (x :: xs) = if x.1 = p then some x.2 else lookup p xs := by
  unfold lookup
  simp only [List.find?_cons]
  by_cases h : x.1 = p
  · simp [h]
  · have : (x.1 == p) = false := by simpa using h
    simp [this, h]

theorem lookup_append {β} (p : String) (a b : List (String × β)) :
    lookup p (a ++ b) = match lookup p a with | some v => some v | none => lookup p b := by
  induction a with
  | nil => simp [lookup_nil]
  | cons x xs ih =>
    simp only [List.cons_append, lookup_cons]
    by_cases h : x.1 = p
    · simp [h]
    · simp only [h, if_false]; exact ih

theorem lookup_eq_none_iff {β} {p : String} {l : List (String × β)} : lookup p l = none ↔ p ∉ keys l := by
  rw [← lookup_isSome_iff]
  cases lookup p l <;> simp

/-- a filter that looks at the key only -/
theorem lookup_filter_key {β} (q : String → Bool) (p : String) (l : List (String × β)) :
    lookup p (l.filter (fun kv => q kv.1)) = if q p then lookup p l else none := by
  induction l with
  | nil => simp [lookup_nil]
  | cons x xs ih =>
    cases hq : q x.1 with
    | true =>
      have hf : (x :: xs).filter (fun kv => q kv.1) = x :: xs.filter (fun kv => q kv.1) := by
        simp [List.filter_cons, hq]
      rw [hf, lookup_cons, lookup_cons, ih]
      by_cases hx : x.1 = p
      · subst hx; simp [hq]
      · simp [hx]
    | false =>
      have hf : (x :: xs).filter (fun kv => q kv.1) = xs.filter (fun kv => q kv.1) := by
        simp [List.filter_cons, hq]
      rw [hf, ih, lookup_cons]
      by_cases hx : x.1 = p
      · subst hx; simp [hq]
      · simp [hx]

theorem lookup_append_skip {β} {p : String} (a m b : List (String × β)) (h : p ∉ keys m) :
    lookup p (a ++ m ++ b) = lookup p (a ++ b) := by
  rw [List.append_assoc, lookup_append, lookup_append, lookup_append, lookup_eq_none_iff.mpr h]

/-- two dictionaries (one entry per key) with the same entries answer every query alike -/
theorem lookup_congr_of_mem_iff {β} {l l' : List (String × β)} (hl : (keys l).Nodup) (hl' : (keys l').Nodup)
    (h : ∀ kv, kv ∈ l ↔ kv ∈ l') (p : String) : lookup p l = lookup p l' := by
  cases h1 : lookup p l with
  | some v =>
    have := (h (p, v)).mp (lookup_some_mem h1)
    rw [lookup_of_mem_nodup hl' this]
  | none =>
    cases h2 : lookup p l' with
    | none => rfl
    | some w =>
      have := (h (p, w)).mpr (lookup_some_mem h2)
      rw [lookup_of_mem_nodup hl this] at h1
      cases h1

/-- the reader's dictionary answers as `readLookup` -/
theorem lookup_readProps (G V : List (String × Val)) (p : String) : lookup p (readProps G V) = readLookup G V p := by
  unfold readProps readLookup
  rw [lookup_append]
  cases hv : lookup p V with
  | some v => rfl
  | none =>
    simp only
    have := lookup_filter_key (fun k => !(keys V).contains k) p G
    rw [this]
    have hk : p ∉ keys V := lookup_eq_none_iff.mp hv
    simp [hk]

/-! ### the placement, seen from one field -/

/-- the data variable of `f` keeps exactly the properties that are not global -/
theorem lookup_variableAttrs (o : Opts) (fs : List FieldG) (f : FieldG) (p : String) :
    lookup p (variableAttrs o fs f) = if p ∈ globalSet o fs then none else lookup p f.props := by
  unfold variableAttrs
  have := lookup_filter_key (fun k => !(globalSet o fs).contains k) p f.props
  rw [this]
  by_cases h : p ∈ globalSet o fs <;> simp [h]

/-- a global property is a property of every field, with that value -/
theorem globalSet_all (o : Opts) (fs : List FieldG) (p : String) (h : p ∈ globalSet o fs) :
    ∃ v, fs ≠ [] ∧ ∀ f ∈ fs, lookup p f.props = some v := by
  obtain ⟨_, ⟨v, hv⟩, _⟩ := mem_globalSet.mp h
  exact ⟨v, hv.1, hv.2⟩

theorem not_mem_keys_propertyGlobals {o : Opts} {fs : List FieldG} {p : String} (h : p ∉ globalSet o fs) :
    p ∉ keys (propertyGlobals o fs) := by
  intro hm
  obtain ⟨⟨k, v⟩, hkv, hk⟩ := List.mem_map.mp hm
  simp only at hk
  exact h (hk ▸ (mem_propertyGlobals.mp hkv).2.1)

theorem lookup_propertyGlobals {o : Opts} {fs : List FieldG} {p : String} {v : Val} (hp : p ≠ "Conventions")
    (hg : p ∈ globalSet o fs) (hall : AllEqual fs p v) : lookup p (propertyGlobals o fs) = some v :=
  lookup_of_mem_nodup (propertyGlobals_keys_nodup o fs) (mem_propertyGlobals.mpr ⟨hp, hg, hall⟩)

/-- what is found among the global attributes written -/
theorem lookup_writtenGlobals_global {o : Opts} {fs : List FieldG} {p : String} {v : Val} (hp : p ≠ "Conventions")
    (hg : p ∈ globalSet o fs) (hall : AllEqual fs p v) : lookup p (writtenGlobals o fs) = some v := by
  unfold writtenGlobals
  have hfd : p ∉ keys o.fileDesc := fun h => (mem_globalSet.mp hg).2.2 (Or.inr (Or.inl h))
  rw [List.append_assoc, lookup_append, lookup_eq_none_iff.mpr hfd]
  simp only
  rw [lookup_append, lookup_propertyGlobals hp hg hall]

theorem lookup_writtenGlobals_other {o : Opts} {fs : List FieldG} {p : String} (hg : p ∉ globalSet o fs) :
    lookup p (writtenGlobals o fs) = lookup p (o.fileDesc ++ (forceKept o fs).filter (·.1 != "Conventions")) := by
  unfold writtenGlobals
  exact lookup_append_skip _ _ _ (not_mem_keys_propertyGlobals hg)

/-! ### permutations of the field list -/

theorem ne_nil_of_perm {α} {l l' : List α} (h : l.Perm l') (hne : l ≠ []) : l' ≠ [] := by
  intro e
  apply hne
  have := h.length_eq
  rw [e] at this
  exact List.length_eq_zero_iff.mp this

theorem allEqual_perm {fs fs' : List FieldG} (h : fs.Perm fs') {p : String} {v : Val} :
    AllEqual fs p v ↔ AllEqual fs' p v := by
  unfold AllEqual
  constructor
  · rintro ⟨hne, ha⟩
    exact ⟨ne_nil_of_perm h hne, fun f hf => ha f (h.mem_iff.mpr hf)⟩
  · rintro ⟨hne, ha⟩
    exact ⟨ne_nil_of_perm h.symm hne, fun f hf => ha f (h.mem_iff.mp hf)⟩

theorem forced_perm {fs fs' : List FieldG} (h : fs.Perm fs') {p : String} {v : Val} :
    Forced fs p v ↔ Forced fs' p v := by
  unfold Forced
  constructor
  · rintro ⟨hne, ha⟩
    exact ⟨ne_nil_of_perm h hne, fun f hf => ha f (h.mem_iff.mpr hf)⟩
  · rintro ⟨hne, ha⟩
    exact ⟨ne_nil_of_perm h.symm hne, fun f hf => ha f (h.mem_iff.mp hf)⟩

theorem eligible_perm {o : Opts} {fs fs' : List FieldG} (h : fs.Perm fs') {p : String} :
    Eligible o fs p ↔ Eligible o fs' p := by
  unfold Eligible
  constructor
  · rintro (h1 | h1 | ⟨f, hf, hm⟩)
    · exact Or.inl h1
    · exact Or.inr (Or.inl h1)
    · exact Or.inr (Or.inr ⟨f, h.mem_iff.mp hf, hm⟩)
  · rintro (h1 | h1 | ⟨f, hf, hm⟩)
    · exact Or.inl h1
    · exact Or.inr (Or.inl h1)
    · exact Or.inr (Or.inr ⟨f, h.mem_iff.mpr hf, hm⟩)

theorem overridden_perm {o : Opts} {fs fs' : List FieldG} (h : fs.Perm fs') {p : String} :
    Overridden o fs p ↔ Overridden o fs' p := by
  unfold Overridden
  constructor
  · rintro (h1 | h1 | ⟨v, hv⟩)
    · exact Or.inl h1
    · exact Or.inr (Or.inl h1)
    · exact Or.inr (Or.inr ⟨v, (forced_perm h).mp hv⟩)
  · rintro (h1 | h1 | ⟨v, hv⟩)
    · exact Or.inl h1
    · exact Or.inr (Or.inl h1)
    · exact Or.inr (Or.inr ⟨v, (forced_perm h).mpr hv⟩)

/-- the set of global properties does not depend on the order of the fields -/
theorem mem_globalSet_perm {o : Opts} {fs fs' : List FieldG} (h : fs.Perm fs') {p : String} :
    p ∈ globalSet o fs ↔ p ∈ globalSet o fs' := by
  rw [mem_globalSet, mem_globalSet, eligible_perm h, overridden_perm h]
  constructor
  · rintro ⟨a, ⟨v, hv⟩, c⟩; exact ⟨a, ⟨v, (allEqual_perm h).mp hv⟩, c⟩
  · rintro ⟨a, ⟨v, hv⟩, c⟩; exact ⟨a, ⟨v, (allEqual_perm h).mpr hv⟩, c⟩

/-- nor do the forced values that are written -/
theorem lookup_forceKept_perm {o : Opts} {fs fs' : List FieldG} (h : fs.Perm fs') (p : String) :
    lookup p ((forceKept o fs).filter (·.1 != "Conventions")) = lookup p ((forceKept o fs').filter (·.1 != "Conventions")) := by
  apply lookup_congr_of_mem_iff (forceKept_filter_keys_nodup o fs _) (forceKept_filter_keys_nodup o fs' _)
  intro kv
  obtain ⟨k, v⟩ := kv
  simp only [List.mem_filter, mem_forceKept, forced_perm h]

end Cfdm.SharedProps
