import Cfdm.Model.Lazy
import Cfdm.Lemmas.Indexing
/- Helper lemmas for C12: extensional equality of arrays on in-range indices, congruence of the
array operations, and the `_index` algorithm against the orthogonal specification. -/
namespace Cfdm.Lazy
open Cfdm.PySlice Cfdm.Arr Cfdm.Indexing

/-- `idx` is a valid multi-index of an array of shape `shape`. -/
def InRange (shape idx : List Nat) : Prop :=
  idx.length = shape.length ∧ ∀ k (h1 : k < idx.length) (h2 : k < shape.length), idx[k] < shape[k]

/-- Same shape and same element at every valid multi-index (what an observer of the arrays can tell). -/
def EqvIn {α} (A B : Arr α) : Prop :=
  A.shape = B.shape ∧ ∀ idx, InRange A.shape idx → A.get idx = B.get idx

/-- Per-axis position lists that stay inside the array. -/
def PosOK (shape : List Nat) (ps : List (List Nat)) : Prop :=
  ps.length = shape.length ∧ ∀ k (h1 : k < ps.length) (h2 : k < shape.length), ∀ x ∈ ps[k], x < shape[k]

theorem EqvIn.refl {α} (A : Arr α) : EqvIn A A := ⟨rfl, fun _ _ => rfl⟩

theorem EqvIn.symm {α} {A B : Arr α} (h : EqvIn A B) : EqvIn B A :=
  ⟨h.1.symm, fun idx hi => (h.2 idx (h.1 ▸ hi)).symm⟩

theorem EqvIn.trans {α} {A B C : Arr α} (h1 : EqvIn A B) (h2 : EqvIn B C) : EqvIn A C :=
  ⟨h1.1.trans h2.1, fun idx hi => (h1.2 idx hi).trans (h2.2 idx (h1.1 ▸ hi))⟩

theorem InRange.nil : InRange [] [] := ⟨rfl, fun k h => by simp at h⟩

theorem InRange.cons {n i : Nat} {ns is : List Nat} (h0 : i < n) (h : InRange ns is) :
    InRange (n :: ns) (i :: is) := by
  refine ⟨by simp [h.1], ?_⟩
  intro k h1 h2
  cases k with
  | zero => simpa using h0
  | succ k =>
    simp only [List.getElem_cons_succ]
    exact h.2 k (by simpa using h1) (by simpa using h2)

theorem allIdx_inRange (shape : List Nat) : ∀ idx ∈ allIdx shape, InRange shape idx := by
  induction shape with
  | nil =>
    intro idx h
    simp only [allIdx, List.mem_singleton] at h
    subst h
    exact InRange.nil
  | cons n ns ih =>
    intro idx h
    simp only [allIdx, List.mem_flatMap, List.mem_range, List.mem_map] at h
    obtain ⟨i, hi, r, hr, rfl⟩ := h
    exact InRange.cons hi (ih r hr)

theorem toList_congr {α} {A B : Arr α} (h : EqvIn A B) : toList A = toList B := by
  unfold toList
  rw [← h.1]
  apply List.map_congr_left
  intro idx hidx
  exact h.2 idx (allIdx_inRange _ idx hidx)

/-- C03's `Eqv` (all indices of the right length) implies equality on the valid ones. -/
theorem eqvIn_of_eqv {α} {A B : Arr α} (r : Nat) (hr : r = A.shape.length) (h : Eqv r A B) : EqvIn A B :=
  ⟨h.1, fun idx hi => h.2 idx (by rw [hr]; exact hi.1)⟩

theorem takeAll_shape {α} (A : Arr α) (ps : List (List Nat)) (h : ps.length = A.shape.length) :
    (takeAll A ps).shape = ps.map List.length := by
  simp only [takeAll, takeSome]
  apply List.ext_getElem?
  intro i
  by_cases hi : i < ps.length
  · have : i < A.shape.length := by omega
    simp [hi, this, ext]
  · have : ¬ i < A.shape.length := by omega
    simp [hi, this]

/-- Valid index of the selection ↦ valid index of the source. -/
theorem pick_inRange (shape : List Nat) (ps : List (List Nat)) (hps : PosOK shape ps) (idx : List Nat)
    (hidx : InRange (ps.map List.length) idx) :
    InRange shape (List.zipWith pick (ps.map some) idx) := by
  obtain ⟨hl, hp⟩ := hps
  obtain ⟨hil, hi⟩ := hidx
  simp only [List.length_map] at hil
  refine ⟨by simp [hil, hl], ?_⟩
  intro k h1 h2
  simp only [List.length_zipWith, List.length_map] at h1
  have hk1 : k < ps.length := by omega
  have hk2 : k < idx.length := by omega
  have hlt := hi k hk2 (by simpa using hk1)
  simp only [List.getElem_map] at hlt
  simp only [List.getElem_zipWith, List.getElem_map, pick]
  rw [List.getD_eq_getElem?_getD, List.getElem?_eq_getElem hlt]
  exact hp k hk1 h2 _ (List.getElem_mem hlt)

theorem takeAll_congr {α} {A B : Arr α} (h : EqvIn A B) (ps : List (List Nat)) (hps : PosOK A.shape ps) :
    EqvIn (takeAll A ps) (takeAll B ps) := by
  constructor
  · simp only [takeAll, takeSome, h.1]
  · intro idx hidx
    rw [takeAll_shape A ps hps.1] at hidx
    simp only [takeAll, takeSome]
    exact h.2 _ (pick_inRange A.shape ps hps idx hidx)

/-! ### transpose / insert_dimension / assignment -/

theorem inRange_reverse {shape idx : List Nat} (h : InRange shape.reverse idx) : InRange shape idx.reverse := by
  obtain ⟨hl, hi⟩ := h
  simp only [List.length_reverse] at hl
  refine ⟨by simp [hl], ?_⟩
  intro k h1 h2
  simp only [List.length_reverse] at h1
  have := hi (idx.length - 1 - k) (by omega) (by simp; omega)
  simp only [List.getElem_reverse] at this ⊢
  have e : shape.length - 1 - (idx.length - 1 - k) = k := by omega
  simpa [e] using this

theorem transpose_congr {α} {A B : Arr α} (h : EqvIn A B) : EqvIn (transposeArr A) (transposeArr B) := by
  constructor
  · simp [transposeArr, h.1]
  · intro idx hidx
    simp only [transposeArr] at hidx ⊢
    exact h.2 _ (inRange_reverse hidx)

theorem inRange_tail {n : Nat} {shape idx : List Nat} (h : InRange (n :: shape) idx) : InRange shape idx.tail := by
  obtain ⟨hl, hi⟩ := h
  cases idx with
  | nil => simp at hl
  | cons i is =>
    simp only [List.length_cons, Nat.add_right_cancel_iff] at hl
    refine ⟨by simpa using hl, ?_⟩
    intro k h1 h2
    simp only [List.tail_cons] at h1 ⊢
    have := hi (k + 1) (by simp; omega) (by simp; omega)
    simpa using this

theorem insertDim_congr {α} {A B : Arr α} (h : EqvIn A B) : EqvIn (insertDimArr A) (insertDimArr B) := by
  constructor
  · simp [insertDimArr, h.1]
  · intro idx hidx
    simp only [insertDimArr] at hidx ⊢
    exact h.2 _ (inRange_tail hidx)

theorem expandIdx_inRange : ∀ (shape idx : List Nat), InRange (shape.filter (· != 1)) idx →
    InRange shape (expandIdx shape idx) := by
  intro shape
  induction shape with
  | nil => intro idx _; exact ⟨rfl, fun k h => by simp [expandIdx] at h⟩
  | cons n ns ih =>
    intro idx h
    by_cases hn : n = 1
    · subst hn
      have h' : InRange (ns.filter (· != 1)) idx := by simpa using h
      have := ih idx h'
      simp only [expandIdx, beq_self_eq_true, if_true]
      exact InRange.cons (by omega) this
    · have hf : (n :: ns).filter (· != 1) = n :: ns.filter (· != 1) := by simp [hn]
      rw [hf] at h
      cases idx with
      | nil => have := h.1; simp at this
      | cons i is =>
        have hi : i < n := by
          have := h.2 0 (by simp) (by simp)
          simpa using this
        have ht := inRange_tail h
        simp only [List.tail_cons] at ht
        have hn' : (n == 1) = false := by simpa using hn
        simp only [expandIdx, hn']
        exact InRange.cons hi (ih is ht)

theorem squeeze_congr {α} {A B : Arr α} (h : EqvIn A B) : EqvIn (squeezeArr A) (squeezeArr B) := by
  constructor
  · simp [squeezeArr, h.1]
  · intro idx hidx
    simp only [squeezeArr] at hidx ⊢
    rw [← h.1]
    exact h.2 _ (expandIdx_inRange _ _ hidx)

theorem foldl_mul_init (l : List Nat) (a : Nat) : l.foldl (· * ·) a = a * l.foldl (· * ·) 1 := by
  induction l generalizing a with
  | nil => simp
  | cons x xs ih => simp only [List.foldl_cons]; rw [ih (a * x), ih (1 * x)]; simp [Nat.mul_assoc]

theorem unravel_inRange : ∀ (shape : List Nat) (i : Nat), i < shape.foldl (· * ·) 1 → InRange shape (unravel shape i) := by
  intro shape
  induction shape with
  | nil => intro i _; exact InRange.nil
  | cons n ns ih =>
    intro i hi
    simp only [List.foldl_cons, Nat.one_mul] at hi
    rw [foldl_mul_init] at hi
    simp only [unravel]
    have hp : 0 < ns.foldl (· * ·) 1 := by
      rcases Nat.eq_zero_or_pos (ns.foldl (· * ·) 1) with h0 | h0
      · rw [h0] at hi; simp at hi
      · exact h0
    exact InRange.cons ((Nat.div_lt_iff_lt_mul hp).mpr hi) (ih _ (Nat.mod_lt _ hp))

theorem flatten_congr {α} {A B : Arr α} (h : EqvIn A B) : EqvIn (flattenArr A) (flattenArr B) := by
  constructor
  · simp [flattenArr, h.1]
  · intro idx hidx
    simp only [flattenArr] at hidx ⊢
    rw [← h.1]
    apply h.2
    apply unravel_inRange
    cases idx with
    | nil => have := hidx.1; simp at this
    | cons i is =>
      have := hidx.2 0 (by simp) (by simp)
      simpa using this

theorem assign_congr {α} {A B : Arr α} (h : EqvIn A B) (ps : List (List Nat)) (v : α) :
    EqvIn (assignArr A ps v) (assignArr B ps v) := by
  constructor
  · simp [assignArr, h.1]
  · intro idx hidx
    simp only [assignArr] at hidx ⊢
    split
    · rfl
    · exact h.2 _ hidx

/-! ### `netcdf_indexer._index` against the orthogonal specification -/

theorem argminAux_lt (xs : List Nat) (i best besti : Nat) (h : besti < i) :
    argminAux xs i best besti < i + xs.length := by
  induction xs generalizing i best besti with
  | nil => simpa [argminAux] using h
  | cons x xs ih =>
    simp only [argminAux, List.length_cons]
    split
    · have := ih (i + 1) x i (by omega); omega
    · have := ih (i + 1) best besti (by omega); omega

theorem argmin_lt (l : List Nat) (h : l ≠ []) : argmin l < l.length := by
  cases l with
  | nil => exact absurd rfl h
  | cons x xs =>
    simp only [argmin, List.length_cons]
    have := argminAux_lt xs 1 x 0 (by omega)
    omega

theorem mem_split_eraseIdx {l : List Nat} {k : Nat} (hk : k < l.length) (x : Nat) :
    x ∈ l ↔ x = l[k] ∨ x ∈ l.eraseIdx k := by
  rw [List.mem_eraseIdx_iff_getElem, List.mem_iff_getElem]
  constructor
  · rintro ⟨i, hi, rfl⟩
    by_cases hik : i = k
    · subst hik; exact Or.inl rfl
    · exact Or.inr ⟨i, hi, hik, rfl⟩
  · rintro (rfl | ⟨i, hi, _, rfl⟩)
    · exact ⟨k, hk, rfl⟩
    · exact ⟨i, hi, rfl⟩

theorem restOrder_mem (ps : List (List Nat)) :
    ∀ (fuel : Nat) (cur rem : List Nat), rem.length ≤ fuel → ∀ x, x ∈ restOrder ps fuel cur rem ↔ x ∈ rem := by
  intro fuel
  induction fuel with
  | zero =>
    intro cur rem h x
    have : rem = [] := List.eq_nil_of_length_eq_zero (by omega)
    subst this
    simp [restOrder]
  | succ fuel ih =>
    intro cur rem h x
    unfold restOrder
    by_cases hr : rem = []
    · subst hr; simp
    · simp only [List.isEmpty_iff, hr, if_false]
      have hne : (rem.map (fun i => (ps.getD i []).length * cur.foldl (· * ·) 1 / cur.getD i 1)) ≠ [] := by
        simpa using hr
      have hk := argmin_lt _ hne
      simp only [List.length_map] at hk
      rw [List.getElem?_eq_getElem hk]
      simp only [List.mem_cons]
      rw [ih _ _ (by rw [List.length_eraseIdx]; split <;> omega) x, mem_split_eraseIdx hk x]

theorem restOrder_nodup (ps : List (List Nat)) :
    ∀ (fuel : Nat) (cur rem : List Nat), rem.length ≤ fuel → rem.Nodup → (restOrder ps fuel cur rem).Nodup := by
  intro fuel
  induction fuel with
  | zero => intro cur rem _ _; simp [restOrder]
  | succ fuel ih =>
    intro cur rem h hnd
    unfold restOrder
    by_cases hr : rem = []
    · subst hr; simp
    · simp only [List.isEmpty_iff, hr, if_false]
      have hne : (rem.map (fun i => (ps.getD i []).length * cur.foldl (· * ·) 1 / cur.getD i 1)) ≠ [] := by
        simpa using hr
      have hk := argmin_lt _ hne
      simp only [List.length_map] at hk
      rw [List.getElem?_eq_getElem hk]
      have hlen : (rem.eraseIdx (argmin (rem.map (fun i => (ps.getD i []).length * cur.foldl (· * ·) 1 / cur.getD i 1)))).length ≤ fuel := by
        rw [List.length_eraseIdx]; split <;> omega
      refine List.nodup_cons.mpr ⟨?_, ih _ _ hlen (List.Nodup.sublist (List.eraseIdx_sublist _ _) hnd)⟩
      rw [restOrder_mem ps fuel _ _ hlen, List.mem_eraseIdx_iff_getElem]
      rintro ⟨i, hi, hik, heq⟩
      exact hik ((List.Nodup.getElem_inj_iff hnd).mp heq)

theorem mem_listAxes (sels : List Sel) (k : Nat) :
    k ∈ listAxes sels ↔ k < sels.length ∧ isListAt sels k = true := by
  simp [listAxes, List.mem_filter, List.mem_range]

theorem listAxes_nodup (sels : List Sel) : (listAxes sels).Nodup :=
  List.Nodup.filter _ List.nodup_range

theorem listAxes_length_le (sels : List Sel) : (listAxes sels).length ≤ sels.length := by
  have := List.length_filter_le (isListAt sels) (List.range sels.length)
  simpa [listAxes] using this

theorem firstListAxis_mem {shape : List Nat} {ps : List (List Nat)} {sels : List Sel} {n : Nat}
    (h : firstListAxis shape ps sels = some n) : n ∈ listAxes sels := by
  simp only [firstListAxis] at h
  split at h
  · cases h
  · exact List.mem_of_getElem? h

theorem positionsNat_length (shape : List Nat) (sels : List Sel) (h : sels.length = shape.length) :
    (positionsNat shape sels).length = shape.length := by
  simp [positionsNat, h]

/-- The `_index` algorithm (any backend) returns the orthogonal selection. -/
theorem indexBackend_eqv {α} (b : Backend) (A : Arr α) (sels : List Sel) (hlen : sels.length = A.shape.length) :
    EqvIn (indexBackend b A sels) (takeAll A (positionsNat A.shape sels)) := by
  unfold indexBackend
  simp only
  split
  · exact EqvIn.refl _
  · split
    · exact EqvIn.refl _
    · rename_i n hn
      generalize hps : positionsNat A.shape sels = ps at hn ⊢
      have hpl : ps.length = A.shape.length := by rw [← hps]; exact positionsNat_length _ _ hlen
      -- the axes handled by the first access
      let cond : Nat → Bool := fun k => decide (k = n) || !(isListAt sels k)
      let done0 := (List.range ps.length).filter cond
      have hdone : ∀ i, i ∈ done0 ↔ (i < ps.length ∧ cond i = true) := by
        intro i; simp [done0]
      have hmask : firstMask sels ps n = maskPs ps done0 := by
        apply List.ext_getElem?
        intro i
        simp only [firstMask, maskPs, List.getElem?_map]
        by_cases hi : i < ps.length
        · simp only [List.getElem?_range hi, Option.map_some]
          by_cases hc : cond i = true
          · have h1 : i ∈ done0 := (hdone i).mpr ⟨hi, hc⟩
            have h2 : (decide (i = n) || !isListAt sels i) = true := hc
            simp [h1, h2]
          · have h1 : i ∉ done0 := fun hm => hc ((hdone i).mp hm).2
            have h2 : ¬ (decide (i = n) || !isListAt sels i) = true := hc
            simp [h1, h2]
        · simp [List.getElem?_eq_none (by simpa using Nat.le_of_not_lt hi : (List.range ps.length).length ≤ i)]
      have hfl : ((listAxes sels).filter (· != n)).length ≤ sels.length := by
        have h1 : ((listAxes sels).filter (· != n)).length ≤ (listAxes sels).length := List.length_filter_le _ _
        have h2 := listAxes_length_le sels
        omega
      -- the list axes applied afterwards
      have horder_mem : ∀ k, k ∈ laterAxes A.shape sels ps ↔ (k ∈ listAxes sels ∧ k ≠ n) := by
        intro k
        simp only [laterAxes, hn]
        rw [restOrder_mem _ _ _ _ hfl]
        simp [List.mem_filter]
      have horder_nd : (laterAxes A.shape sels ps).Nodup := by
        simp only [laterAxes, hn]
        exact restOrder_nodup _ _ _ _ hfl (List.Nodup.filter _ (listAxes_nodup sels))
      have hdisj : ∀ k ∈ laterAxes A.shape sels ps, k ∉ done0 := by
        intro k hk hd
        obtain ⟨hkl, hkn⟩ := (horder_mem k).mp hk
        have hl := ((mem_listAxes sels k).mp hkl).2
        have : (decide (k = n) || !isListAt sels k) = true := ((hdone k).mp hd).2
        simp [hkn, hl] at this
      have hgen := seqTake_general A ps hpl (laterAxes A.shape sels ps) done0 (takeSome A (firstMask sels ps n))
        (by rw [hmask]; exact ⟨rfl, fun _ _ => rfl⟩) hdisj horder_nd
      have hcover : maskPs ps ((laterAxes A.shape sels ps).reverse ++ done0) = ps.map some := by
        apply List.ext_getElem?
        intro i
        by_cases hi : i < ps.length
        · have hin : i ∈ (laterAxes A.shape sels ps).reverse ++ done0 := by
            by_cases hc : cond i = true
            · exact List.mem_append_right _ ((hdone i).mpr ⟨hi, hc⟩)
            · apply List.mem_append_left
              rw [List.mem_reverse, horder_mem]
              have h2 : ¬ (decide (i = n) || !isListAt sels i) = true := hc
              simp only [Bool.or_eq_true, decide_eq_true_eq, not_or, Bool.not_eq_true, Bool.not_eq_false'] at h2
              exact ⟨(mem_listAxes sels i).mpr ⟨by omega, by simpa using h2.2⟩, h2.1⟩
          have hin' : i ∈ (laterAxes A.shape sels ps).reverse ++ done0 := hin
          simp only [maskPs, List.getElem?_map, List.getElem?_range hi, Option.map_some, hin', if_true,
            List.getElem?_eq_getElem hi, List.getD_eq_getElem?_getD, Option.getD_some]
        · simp [maskPs, hi]
      rw [hcover] at hgen
      have hsh : (List.foldl (fun B k => takeAxis B k (ps.getD k [])) (takeSome A (firstMask sels ps n))
          (laterAxes A.shape sels ps)).shape.length = A.shape.length := by
        rw [hgen.1]
        simp [takeSome, hpl]
      exact eqvIn_of_eqv _ hsh.symm hgen

theorem positionsNat_ok (shape : List Nat) (sels : List Sel) (h : selsWf shape sels = true) :
    PosOK shape (positionsNat shape sels) := by
  simp only [selsWf, Bool.and_eq_true, beq_iff_eq, List.all_eq_true] at h
  obtain ⟨hl, hw⟩ := h
  refine ⟨positionsNat_length _ _ hl, ?_⟩
  intro k h1 h2 x hx
  simp only [positionsNat, List.getElem_zipWith, List.mem_map] at hx
  obtain ⟨p, hp, rfl⟩ := hx
  have hks : k < sels.length := by omega
  have hwf : (sels[k]).wf shape[k] = true := by
    have := hw ((sels[k]).wf shape[k]) (by
      simp only [List.mem_iff_getElem, List.length_zipWith]
      exact ⟨k, by omega, by simp⟩)
    simpa using this
  have hb : 0 ≤ p ∧ p < shape[k] := by
    cases hs : sels[k] with
    | slice a b c =>
      rw [hs] at hwf hp
      simp only [Sel.wf, bne_iff_ne, ne_eq] at hwf
      exact slicePositions_mem a b c _ hwf p hp
    | list l =>
      rw [hs] at hwf hp
      simp only [Sel.wf, List.all_eq_true] at hwf
      simp only [Sel.positions, List.mem_map] at hp
      obtain ⟨i, hi, rfl⟩ := hp
      exact norm_bounds _ i (hwf i hi)
  omega

/-- Successive subspaces compose: `takeAll (takeAll A s) t = takeAll A (s ∘ t)` on every valid index. -/
theorem takeAll_compose {α} (A : Arr α) (s t : List (List Nat)) (hs : s.length = A.shape.length)
    (ht : PosOK (s.map List.length) t) :
    EqvIn (takeAll (takeAll A s) t)
      (takeAll A (List.zipWith (fun (l m : List Nat) => m.map (fun j => l.getD j 0)) s t)) := by
  have hts : t.length = s.length := by simpa using ht.1
  have hsh1 : (takeAll A s).shape = s.map List.length := takeAll_shape A s hs
  constructor
  · rw [takeAll_shape _ t (by rw [hsh1]; simpa using hts),
        takeAll_shape A _ (by simp [hts, hs])]
    apply List.ext_getElem?
    intro i
    simp only [List.getElem?_map, List.getElem?_zipWith]
    by_cases hi : i < t.length
    · have : i < s.length := by omega
      simp [hi, this]
    · have : ¬ i < s.length := by omega
      simp [hi, this]
  · intro idx hidx
    rw [takeAll_shape _ t (by rw [hsh1]; simpa using hts)] at hidx
    simp only [takeAll, takeSome]
    congr 1
    apply List.ext_getElem?
    intro k
    simp only [List.getElem?_zipWith, List.getElem?_map]
    by_cases hk : k < idx.length
    · have hkt : k < t.length := by have := hidx.1; simp at this; omega
      have hks : k < s.length := by omega
      have hlt := hidx.2 k hk (by simpa using hkt)
      simp only [List.getElem_map] at hlt
      simp only [List.getElem?_eq_getElem hk, List.getElem?_eq_getElem hkt, List.getElem?_eq_getElem hks,
        Option.map_some, pick]
      simp [List.getD_eq_getElem?_getD, List.getElem?_map, List.getElem?_eq_getElem hlt]
    · simp [List.getElem?_eq_none (Nat.le_of_not_lt hk)]


end Cfdm.Lazy
