import Cfdm.Model.CellMethods
/-
C01 — `_parse_cell_methods` undoes `CellMethod.__str__`: helper lemmas for
`Cfdm.Props.C01.C01_cell_methods_parse_write`.
-/
namespace Cfdm.CellMethods

/-- What `CellMethod.__str__` can write so that CF (and the token loop) reads it back: the method
is a plain word, an interval value is a literal `Data` accepts, units and the words of a comment
are not keywords of the grammar; as many intervals as axes, or at most one. -/
structure WFCM (lit : Word → Bool) (cm : CM) : Prop where
  method_ne : cm.method ≠ []
  method_colon : endsWith ':' cm.method = false
  method_paren : endsWith '(' cm.method = false
  method_portion : isPortion cm.method = false
  ints : ∀ i ∈ cm.intervals, lit i.1 = true ∧ ∀ u, i.2 = some u → stopNew u = false
  nints : cm.intervals.length ≤ 1 ∨ cm.intervals.length = cm.axes.length
  comment : ∀ c, cm.comment = some c → ∀ w ∈ c, endsWith ')' w = false ∧ endsWith ':' w = false

instance (lit : Word → Bool) (cm : CM) : Decidable (WFCM lit cm) :=
  decidable_of_iff
    (cm.method ≠ [] ∧ endsWith ':' cm.method = false ∧ endsWith '(' cm.method = false ∧ isPortion cm.method = false
      ∧ (∀ i ∈ cm.intervals, lit i.1 = true ∧ ∀ u, i.2 = some u → stopNew u = false)
      ∧ (cm.intervals.length ≤ 1 ∨ cm.intervals.length = cm.axes.length)
      ∧ (∀ c, cm.comment = some c → ∀ w ∈ c, endsWith ')' w = false ∧ endsWith ':' w = false))
    ⟨fun ⟨a, b, c, d, e, f, g⟩ => ⟨a, b, c, d, e, f, g⟩, fun ⟨a, b, c, d, e, f, g⟩ => ⟨a, b, c, d, e, f, g⟩⟩

/-- The list that follows a cell method in the attribute: nothing, or the next cell method (which
starts with an axis word or, without axes, with its method). -/
def StartOK (rest : List Word) : Prop :=
  ∀ w ∈ rest.head?, isPortion w = false ∧ endsWith '(' w = false

theorem mem_head_cons {α} (w : α) (ws : List α) : w ∈ (w :: ws).head? := rfl

theorem endsWith_snoc (c : Char) (a : Word) : endsWith c (a ++ [c]) = true := by
  unfold endsWith; simp

theorem endsWith_snoc_ne {c d : Char} (h : d ≠ c) (a : Word) : endsWith c (a ++ [d]) = false := by
  unfold endsWith; simp [h]

theorem isPortion_colon {w : Word} (h : isPortion w = true) : endsWith ':' w = false := by
  unfold isPortion at h
  simp only [Bool.or_eq_true, beq_iff_eq] at h
  rcases h with (h | h) | h <;> subst h <;> decide

theorem takeAxes_write (axes : List Word) (rest : List Word)
    (h : ∀ w ∈ rest.head?, endsWith ':' w = false) :
    takeAxes (axes.map (· ++ [':']) ++ rest) = (axes, rest) := by
  induction axes with
  | nil =>
    cases rest with
    | nil => rfl
    | cons w ws =>
      have := h w (mem_head_cons w ws)
      simp [takeAxes, this]
  | cons a as ih =>
    simp only [List.map_cons, List.cons_append, takeAxes, endsWith_snoc, if_true, ih, List.dropLast_concat]

theorem set_within (p : Portions) (v : Word) : p.set kwWithin v = { p with within := some v } := by
  simp [Portions.set]
theorem set_where (p : Portions) (v : Word) : p.set kwWhere v = { p with where_ := some v } := by
  unfold Portions.set
  have : (kwWhere == kwWithin) = false := by decide
  simp [this]
theorem set_over (p : Portions) (v : Word) : p.set kwOver v = { p with over := some v } := by
  unfold Portions.set
  have h1 : (kwOver == kwWithin) = false := by decide
  have h2 : (kwOver == kwWhere) = false := by decide
  simp [h1, h2]

theorem takePortions_stop (p : Portions) (rest : List Word) (h : ∀ w ∈ rest.head?, isPortion w = false) :
    takePortions p rest = some (p, rest) := by
  cases rest with
  | nil => rfl
  | cons w ws => unfold takePortions; simp [h w (mem_head_cons w ws)]

theorem takePortions_step (p : Portions) (kw v : Word) (rest : List Word) (h : isPortion kw = true) :
    takePortions p (kw :: v :: rest) = takePortions (p.set kw v) rest := by
  rw [takePortions]; simp [h]

theorem takePortions_write (cm : CM) (rest : List Word) (h : ∀ w ∈ rest.head?, isPortion w = false) :
    takePortions {} (writeQual kwWithin cm.within ++ writeQual kwWhere cm.where_ ++ writeQual kwOver cm.over ++ rest)
      = some (⟨cm.within, cm.where_, cm.over⟩, rest) := by
  have hw : isPortion kwWithin = true := by decide
  have hh : isPortion kwWhere = true := by decide
  have ho : isPortion kwOver = true := by decide
  cases h1 : cm.within <;> cases h2 : cm.where_ <;> cases h3 : cm.over <;>
    simp only [writeQual, List.nil_append, List.cons_append, takePortions_step _ _ _ _ hw, takePortions_step _ _ _ _ hh,
      takePortions_step _ _ _ _ ho, set_within, set_where, set_over, takePortions_stop _ _ h]

theorem takeComment_write (c : List Word) (rest : List Word)
    (hc : ∀ w ∈ c, endsWith ')' w = false ∧ endsWith ':' w = false) :
    takeComment (c ++ rpar :: rest) = (c, rpar :: rest) := by
  induction c with
  | nil =>
    have : endsWith ')' rpar = true := by decide
    simp [takeComment, this]
  | cons w ws ih =>
    have hw := hc w (by simp)
    have ih' := ih (fun x hx => hc x (by simp [hx]))
    simp [takeComment, hw.1, hw.2, ih']

theorem kwInterval_ne_rpar : (kwInterval == rpar) = false := by decide
theorem kwComment_ne_rpar : (kwComment == rpar) = false := by decide

/-- The loop over the intervals written by `__str__`: one iteration per interval. -/
theorem parenLoop_intervals (lit : Word → Bool) (ints : List (Word × Option Word))
    (hi : ∀ i ∈ ints, lit i.1 = true ∧ ∀ u, i.2 = some u → stopNew u = false)
    (tail : List Word) (ht : ∀ w ∈ tail.head?, stopNew w = true) (hne : tail ≠ [])
    (n : Nat) (p : Paren) :
    parenLoop stopNew lit (n + ints.length) p (ints.flatMap writeInterval ++ tail)
      = parenLoop stopNew lit n { p with intervals := p.intervals ++ ints } tail := by
  induction ints generalizing p with
  | nil => simp
  | cons i is ih =>
    obtain ⟨v, u⟩ := i
    have hv := hi (v, u) (by simp)
    have his : ∀ i ∈ is, lit i.1 = true ∧ ∀ u, i.2 = some u → stopNew u = false := fun i h => hi i (by simp [h])
    have hnext : ∀ w ∈ (is.flatMap writeInterval ++ tail).head?, stopNew w = true := by
      intro w hw
      cases is with
      | nil => exact ht w (by simpa using hw)
      | cons j js =>
        simp [writeInterval] at hw
        subst hw
        decide
    have hne' : is.flatMap writeInterval ++ tail ≠ [] := by
      intro h
      exact hne (List.append_eq_nil_iff.mp h).2
    have hterm : (kwInterval.dropLast == "interval".toList) = true := by decide
    have e : n + ((v, u) :: is).length = (n + is.length) + 1 := by simp; omega
    rw [e]
    cases u with
    | none =>
      simp only [List.flatMap_cons, writeInterval, List.cons_append, List.nil_append]
      match hrest : is.flatMap writeInterval ++ tail with
      | [] => exact absurd hrest hne'
      | w :: ws =>
        have hs : stopNew w = true := hnext w (by rw [hrest]; exact mem_head_cons w ws)
        simp only [parenLoop, kwInterval_ne_rpar, hterm, hv.1, hs, Bool.not_true, Bool.false_eq_true, if_false, if_true]
        rw [← hrest, ih his]
        simp
    | some u =>
      have hu : stopNew u = false := hv.2 u rfl
      simp only [List.flatMap_cons, writeInterval, List.cons_append, List.nil_append]
      simp only [parenLoop, kwInterval_ne_rpar, hterm, hv.1, hu, Bool.not_true, Bool.false_eq_true, if_false, if_true]
      rw [ih his]
      simp

/-- What follows `(` once `comment:` has been inserted where `__str__` left it out. -/
def bodyOf (ints : List (Word × Option Word)) (comment : Option (List Word)) (rest : List Word) : List Word :=
  ints.flatMap writeInterval ++ (commentWords comment ++ rpar :: rest)

theorem parenLoop_rpar (stop lit : Word → Bool) (n : Nat) (p : Paren) (rest : List Word) :
    parenLoop stop lit (n + 1) p (rpar :: rest) = .ok p (rpar :: rest) := by
  simp [parenLoop]

theorem parenLoop_body (lit : Word → Bool) (ints : List (Word × Option Word)) (comment : Option (List Word))
    (hi : ∀ i ∈ ints, lit i.1 = true ∧ ∀ u, i.2 = some u → stopNew u = false)
    (hc : ∀ c, comment = some c → ∀ w ∈ c, endsWith ')' w = false ∧ endsWith ':' w = false)
    (rest : List Word) (fuel : Nat) (hf : ints.length + 2 ≤ fuel) :
    parenLoop stopNew lit fuel {} (bodyOf ints comment rest) = .ok ⟨ints, comment⟩ (rpar :: rest) := by
  obtain ⟨n, rfl⟩ : ∃ n, fuel = (n + 2) + ints.length := ⟨fuel - ints.length - 2, by omega⟩
  unfold bodyOf
  have hr : stopNew rpar = true := by decide
  have hk : stopNew kwComment = true := by decide
  rw [parenLoop_intervals lit ints hi _ (by
        intro w hw
        cases comment with
        | none => simp [commentWords] at hw; subst hw; exact hr
        | some c => simp [commentWords] at hw; subst hw; exact hk) (by cases comment <;> simp [commentWords])]
  cases comment with
  | none => simp [parenLoop_rpar, commentWords]
  | some c =>
    unfold commentWords
    have h1 : (kwComment == rpar) = false := by decide
    have h2 : (kwComment.dropLast == "interval".toList) = false := by decide
    have h3 : (kwComment.dropLast == "comment".toList) = true := by decide
    simp only [List.cons_append]
    rw [show n + 2 = (n + 1) + 1 from rfl]
    unfold parenLoop
    simp only [h1, h2, h3, Bool.false_eq_true, if_false, if_true, takeComment_write c rest (hc c rfl), parenLoop_rpar]
    simp

theorem writeQual_eq_nil {kw : Word} {q : Option Word} (h : writeQual kw q = []) : q = none := by
  cases q with
  | none => rfl
  | some v => simp [writeQual] at h

theorem lit_length (ints : List (Word × Option Word)) : ints.length ≤ (ints.flatMap writeInterval).length := by
  induction ints with
  | nil => simp
  | cons i is ih =>
    simp only [List.flatMap_cons, List.length_append, List.length_cons]
    have : 1 ≤ (writeInterval i).length := by unfold writeInterval; simp
    omega

theorem not_kw {w : Word} (h : endsWith ':' w = false) : (w == kwInterval || w == kwComment) = false := by
  rw [Bool.or_eq_false_iff]
  constructor
  · apply Bool.eq_false_iff.mpr
    intro hx
    have := eq_of_beq hx
    subst this
    exact absurd h (by decide)
  · apply Bool.eq_false_iff.mpr
    intro hx
    have := eq_of_beq hx
    subst this
    exact absurd h (by decide)

theorem writeParen_eq_nil {cm : CM} (h : writeParen cm = []) : cm.intervals = [] ∧ cm.comment = none := by
  unfold writeParen at h
  obtain ⟨axes, method, within, where_, over, ints, comment⟩ := cm
  cases ints with
  | cons i is => simp at h
  | nil =>
    cases comment with
    | some c => simp at h
    | none => exact ⟨rfl, rfl⟩

/-- The parenthesised part written by `__str__` (or nothing), followed by `rest`. -/
theorem parseAfterPortions_write (lit : Word → Bool) (cm0 : CM) (naxes : Nat) (ints : List (Word × Option Word))
    (comment : Option (List Word))
    (hints : ∀ i ∈ ints, lit i.1 = true ∧ ∀ u, i.2 = some u → stopNew u = false)
    (hn : ints.length ≤ 1 ∨ ints.length = naxes)
    (hcom : ∀ c, comment = some c → ∀ w ∈ c, endsWith ')' w = false ∧ endsWith ':' w = false)
    (h0 : cm0.intervals = [] ∧ cm0.comment = none)
    (rest : List Word) (hr : StartOK rest) :
    parseAfterPortions stopNew lit cm0 naxes (writeParen { cm0 with intervals := ints, comment := comment } ++ rest)
      = some (some ({ cm0 with intervals := ints, comment := comment }, rest)) := by
  have hl : endsWith '(' lpar = true := by decide
  have hcheck : (decide (ints.length > 1) && ints.length != naxes) = false := by
    rcases hn with h | h
    · have : ¬ ints.length > 1 := by omega
      simp [this]
    · simp [h]
  unfold writeParen
  cases ints with
  | nil =>
    cases comment with
    | none =>
      simp only [List.isEmpty_nil, Bool.not_true, Bool.false_eq_true, if_false, List.nil_append]
      have e : ({ cm0 with intervals := [], comment := none } : CM) = cm0 := by
        obtain ⟨a, m, w1, w2, w3, i, c⟩ := cm0
        simp only at h0
        obtain ⟨rfl, rfl⟩ := h0
        rfl
      rw [e]
      cases rest with
      | nil => rfl
      | cons w r3 =>
        have := (hr w (mem_head_cons w r3)).2
        simp [parseAfterPortions, this]
    | some c =>
      simp only [List.isEmpty_nil, Bool.not_true, Bool.false_eq_true, if_false, List.append_assoc,
        List.cons_append, List.nil_append]
      unfold parseAfterPortions
      simp only [hl, if_true]
      match hcr : c ++ rpar :: rest with
      | [] => simp at hcr
      | w1 :: r4 =>
        simp only
        have hw1 : (w1 == kwInterval || w1 == kwComment) = false := by
          cases c with
          | nil =>
            simp at hcr
            rw [← hcr.1]; decide
          | cons c0 cs =>
            simp at hcr
            have := (hcom (c0 :: cs) rfl c0 (by simp)).2
            rw [hcr.1] at this
            exact not_kw this
        simp only [hw1, Bool.false_eq_true, if_false]
        have hb : kwComment :: w1 :: r4 = bodyOf [] (some c) rest := by
          unfold bodyOf commentWords
          simp [← hcr]
        rw [hb]
        rw [parenLoop_body lit [] (some c) (by simp) hcom rest _ (by unfold bodyOf commentWords; simp)]
        simp
  | cons i is =>
    simp only [List.isEmpty_cons, Bool.not_false, if_true, List.append_assoc,
      List.cons_append, List.nil_append]
    unfold parseAfterPortions
    simp only [hl, if_true]
    have hb : (i :: is).flatMap writeInterval ++ (commentWords comment ++ rpar :: rest)
        = bodyOf (i :: is) comment rest := rfl
    rw [hb]
    have hhead : bodyOf (i :: is) comment rest = kwInterval :: (bodyOf (i :: is) comment rest).tail := by
      unfold bodyOf writeInterval; simp
    rw [hhead]
    simp only
    have hk : (kwInterval == kwInterval || kwInterval == kwComment) = true := by decide
    simp only [hk, if_true]
    rw [← hhead]
    have hlen : (i :: is).length + 2 ≤ (bodyOf (i :: is) comment rest).length + 1 := by
      have := lit_length (i :: is)
      unfold bodyOf
      simp only [List.length_append, List.length_cons] at this ⊢
      omega
    rw [parenLoop_body lit (i :: is) comment hints hcom rest _ hlen]
    simp only [List.drop_succ_cons, List.drop_zero, hcheck]
    simp

theorem parseOne_eq {stop lit : Word → Bool} {ws a : List Word} {m : Word} {r1 : List Word}
    (h : takeAxes ws = (a, m :: r1)) : parseOne stop lit ws = parseAfterMethod stop lit a m r1 := by
  unfold parseOne; rw [h]

/-- One cell method written by `__str__`, followed by `rest`, is read back, and `rest` is left. -/
theorem parseOne_write (lit : Word → Bool) (cm : CM) (hwf : WFCM lit cm) (rest : List Word) (hr : StartOK rest) :
    parseOne stopNew lit (writeCM cm ++ rest) = some (some (cm, rest)) := by
  obtain ⟨axes, method, within, where_, over, ints, comment⟩ := cm
  obtain ⟨hne, hcol, hpar, hport, hints, hn, hcom⟩ := hwf
  simp only at hne hcol hpar hport hints hn hcom
  unfold writeCM
  simp only [List.append_assoc, List.singleton_append, List.cons_append, List.nil_append]
  rw [parseOne_eq (takeAxes_write axes _ (by intro w hw; cases hw; exact hcol))]
  -- the parenthesised part, or the next cell method, stops the qualifier loop
  have hstop : ∀ w ∈ (writeParen ⟨axes, method, within, where_, over, ints, comment⟩ ++ rest).head?, isPortion w = false := by
    intro w hw
    unfold writeParen at hw
    cases ints with
    | cons i is => simp at hw; subst hw; decide
    | nil =>
      cases comment with
      | some c => simp at hw; subst hw; decide
      | none => simp at hw; exact (hr w hw).1
  have hP := parseAfterPortions_write lit ⟨axes, method, within, where_, over, [], none⟩ axes.length ints comment
    hints hn hcom ⟨rfl, rfl⟩ rest hr
  simp only at hP
  have hwp : writeParen ⟨axes, method, within, where_, over, ints, comment⟩ = writeParen ⟨axes, method, none, none, none, ints, comment⟩ := rfl
  unfold parseAfterMethod
  split
  · -- nothing follows the method
    rename_i hnil
    have h1 := List.append_eq_nil_iff.mp hnil
    have h2 := List.append_eq_nil_iff.mp h1.2
    have h3 := List.append_eq_nil_iff.mp h2.2
    have h4 := List.append_eq_nil_iff.mp h3.2
    have e1 := writeQual_eq_nil h1.1
    have e2 := writeQual_eq_nil h2.1
    have e3 := writeQual_eq_nil h3.1
    have e4 := writeParen_eq_nil h4.1
    simp only at e4
    obtain ⟨e4, e5⟩ := e4
    subst e1 e2 e3 e4 e5
    simp [h4.2]
  · have := takePortions_write ⟨axes, method, within, where_, over, ints, comment⟩ _ hstop
    simp only [List.append_assoc] at this
    rw [this]
    simp only
    exact hP

theorem writeCM_head (lit : Word → Bool) (cm : CM) (hwf : WFCM lit cm) (rest : List Word) :
    ∃ w ws, writeCM cm ++ rest = w :: ws ∧ isPortion w = false ∧ endsWith '(' w = false := by
  unfold writeCM
  cases ha : cm.axes with
  | nil =>
    exact ⟨cm.method, writeQual kwWithin cm.within ++ writeQual kwWhere cm.where_ ++ writeQual kwOver cm.over
      ++ writeParen cm ++ rest, by simp, hwf.method_portion, hwf.method_paren⟩
  | cons a as =>
    refine ⟨a ++ [':'], as.map (· ++ [':']) ++ [cm.method] ++ writeQual kwWithin cm.within ++ writeQual kwWhere cm.where_
      ++ writeQual kwOver cm.over ++ writeParen cm ++ rest, by simp, ?_, endsWith_snoc_ne (by decide) a⟩
    cases hp : isPortion (a ++ [':']) with
    | false => rfl
    | true => have := isPortion_colon hp; rw [endsWith_snoc] at this; cases this

theorem startOK_writeCMs (lit : Word → Bool) (cms : List CM) (h : ∀ cm ∈ cms, WFCM lit cm) : StartOK (writeCMs cms) := by
  intro w hw
  cases cms with
  | nil => simp [writeCMs] at hw
  | cons cm tl =>
    obtain ⟨x, xs, hx, h1, h2⟩ := writeCM_head lit cm (h cm (by simp)) (writeCMs tl)
    have : writeCMs (cm :: tl) = x :: xs := by rw [← hx]; simp [writeCMs]
    rw [this] at hw
    cases hw
    exact ⟨h1, h2⟩

theorem parseLoop_write (lit : Word → Bool) (cms : List CM) (h : ∀ cm ∈ cms, WFCM lit cm) (fuel : Nat)
    (hf : (writeCMs cms).length < fuel) (acc : List CM) :
    parseLoop stopNew lit fuel (writeCMs cms) acc = some (acc ++ cms) := by
  induction cms generalizing fuel acc with
  | nil =>
    obtain ⟨f, rfl⟩ : ∃ f, fuel = f + 1 := ⟨fuel - 1, by omega⟩
    simp [writeCMs, parseLoop]
  | cons cm tl ih =>
    have htl : ∀ cm ∈ tl, WFCM lit cm := fun c hc => h c (by simp [hc])
    obtain ⟨x, xs, hx, _, _⟩ := writeCM_head lit cm (h cm (by simp)) (writeCMs tl)
    have hw : writeCMs (cm :: tl) = writeCM cm ++ writeCMs tl := by simp [writeCMs]
    obtain ⟨f, rfl⟩ : ∃ f, fuel = f + 1 := ⟨fuel - 1, by omega⟩
    have hone := parseOne_write lit cm (h cm (by simp)) (writeCMs tl) (startOK_writeCMs lit tl htl)
    have hlen : (writeCMs tl).length < f := by
      rw [hw, List.length_append] at hf
      have h1 : 1 ≤ (writeCM cm).length := by unfold writeCM; simp; omega
      omega
    rw [hw, hx]
    rw [hx] at hone
    unfold parseLoop
    rw [hone]
    simp only
    rw [ih htl f hlen]
    simp

/-- `parse ∘ write = id` on what `__str__` can write. -/
theorem parse_writeCMs (lit : Word → Bool) (cms : List CM) (h : ∀ cm ∈ cms, WFCM lit cm) :
    parse stopNew lit (writeCMs cms) = some cms := by
  unfold parse
  rw [parseLoop_write lit cms h _ (by omega)]
  simp

end Cfdm.CellMethods
