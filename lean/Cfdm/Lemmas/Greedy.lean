import Cfdm.Spec.Equality
import Mathlib.Data.List.Forall2
import Mathlib.Data.List.Perm.Basic
import Mathlib.Data.List.Sort
/-
Helper lemmas for C05: the greedy matching loop of `Constructs.equals`.
-/
namespace Cfdm.Equality
open Cfdm.Equality.Spec

/-! ### extractFirst -/

theorem extractFirst_none {β} (p : β → Bool) (l : List β) :
    extractFirst p l = none ↔ ∀ x ∈ l, p x = false := by
  induction l with
  | nil => simp [extractFirst]
  | cons b bs ih =>
    simp only [extractFirst]
    by_cases hb : p b = true
    · simp [hb]
    · have hb' : p b = false := by simpa using hb
      simp only [hb', Bool.false_eq_true, ↓reduceIte, List.mem_cons, forall_eq_or_imp, true_and]
      cases h : extractFirst p bs with
      | none => simpa [h] using ih
      | some x =>
        obtain ⟨x1, x2⟩ := x
        simp only [reduceCtorEq, false_iff]
        intro hall
        have := ih.mpr hall
        simp [h] at this

theorem extractFirst_some {β} (p : β → Bool) (l : List β) (b : β) (rest : List β)
    (h : extractFirst p l = some (b, rest)) :
    p b = true ∧ ∃ pre suf, l = pre ++ b :: suf ∧ rest = pre ++ suf ∧ ∀ x ∈ pre, p x = false := by
  induction l generalizing b rest with
  | nil => simp [extractFirst] at h
  | cons c cs ih =>
    simp only [extractFirst] at h
    by_cases hc : p c = true
    · simp only [hc, ↓reduceIte, Option.some.injEq, Prod.mk.injEq] at h
      obtain ⟨rfl, rfl⟩ := h
      exact ⟨hc, [], cs, rfl, rfl, by simp⟩
    · have hc' : p c = false := by simpa using hc
      simp only [hc', Bool.false_eq_true, ↓reduceIte] at h
      cases h2 : extractFirst p cs with
      | none => simp [h2] at h
      | some x =>
        obtain ⟨x1, x2⟩ := x
        simp only [h2, Option.some.injEq, Prod.mk.injEq] at h
        obtain ⟨rfl, rfl⟩ := h
        obtain ⟨hp, pre, suf, h1, h3, h4⟩ := ih x1 x2 h2
        refine ⟨hp, c :: pre, suf, by simp [h1], by simp [h3], ?_⟩
        intro x hx
        rcases List.mem_cons.mp hx with rfl | hx
        · exact hc'
        · exact h4 x hx

theorem extractFirst_perm {β} (p : β → Bool) (l : List β) (b : β) (rest : List β)
    (h : extractFirst p l = some (b, rest)) : l.Perm (b :: rest) := by
  obtain ⟨_, pre, suf, rfl, rfl, _⟩ := extractFirst_some p l b rest h
  exact List.perm_middle

theorem extractFirst_head {β} (p : β → Bool) (b : β) (bs : List β) (h : p b = true) :
    extractFirst p (b :: bs) = some (b, bs) := by
  simp [extractFirst, h]

/-! ### greedyPairs: soundness -/

theorem greedyPairs_sound {α β} (r : α → β → Bool) (l0 : List α) (l1 : List β) (ps : List (α × β))
    (h : greedyPairs r l0 l1 = some ps) :
    ps.map Prod.fst = l0 ∧ (∀ p ∈ ps, r p.1 p.2 = true) ∧ ∃ rest, l1.Perm (ps.map Prod.snd ++ rest) := by
  induction l0 generalizing l1 ps with
  | nil =>
    simp only [greedyPairs, Option.some.injEq] at h
    subst h
    exact ⟨rfl, by simp, l1, by simp⟩
  | cons a as ih =>
    simp only [greedyPairs] at h
    cases h1 : extractFirst (r a) l1 with
    | none => simp [h1] at h
    | some x =>
      obtain ⟨b, rest⟩ := x
      simp only [h1] at h
      cases h2 : greedyPairs r as rest with
      | none => simp [h2] at h
      | some qs =>
        simp only [h2, Option.some.injEq] at h
        subst h
        obtain ⟨i1, i2, rest', i3⟩ := ih rest qs h2
        have hb := (extractFirst_some (r a) l1 b rest h1).1
        refine ⟨by simp [i1], ?_, rest', ?_⟩
        · intro p hp
          rcases List.mem_cons.mp hp with rfl | hp
          · exact hb
          · exact i2 p hp
        · have := extractFirst_perm (r a) l1 b rest h1
          exact this.trans (by simpa using List.Perm.cons b i3)

/-- Positional pairing: when item `i` matches item `i`, greedy pairs them in place. -/
theorem greedyPairs_eq_zip {α β} (r : α → β → Bool) (l0 : List α) (l1 : List β)
    (h : List.Forall₂ (fun a b => r a b = true) l0 l1) : greedyPairs r l0 l1 = some (l0.zip l1) := by
  induction h with
  | nil => simp [greedyPairs]
  | cons hab _ ih =>
    simp only [greedyPairs, extractFirst_head _ _ _ hab, ih, List.zip_cons_cons]

theorem greedyPairs_refl {α} (r : α → α → Bool) (hr : ∀ a, r a a = true) (l : List α) :
    greedyPairs r l l = some (l.zip l) := by
  apply greedyPairs_eq_zip
  induction l with
  | nil => exact .nil
  | cons a as ih => exact .cons (hr a) ih

/-! ### completeness for difunctional relations -/

/-- Re-partnering: if `b` is used by a pairing and every item that accepts `b` also
accepts `b0`, then `b0` can take the place of `b`. -/
theorem swapPartner {α β} (R : α → β → Prop) (b b0 : β) (himp : ∀ a', R a' b → R a' b0)
    (as : List α) (l : List β) (hf : List.Forall₂ R as l) (hb : b ∈ l) :
    ∃ l', List.Forall₂ R as l' ∧ (b0 :: l).Perm (b :: l') := by
  induction hf with
  | nil => simp at hb
  | @cons a1 c as1 cs hac _ ih =>
    by_cases hbc : b = c
    · subst hbc
      exact ⟨b0 :: cs, .cons (himp a1 hac) ‹_›, List.Perm.swap _ _ _⟩
    · have hb' : b ∈ cs := by
        rcases List.mem_cons.mp hb with h | h
        · exact absurd h hbc
        · exact h
      obtain ⟨cs', hf', hp'⟩ := ih hb'
      refine ⟨c :: cs', .cons hac hf', ?_⟩
      calc (b0 :: c :: cs).Perm (c :: b0 :: cs) := List.Perm.swap _ _ _
        _ |>.Perm (c :: b :: cs') := List.Perm.cons _ hp'
        _ |>.Perm (b :: c :: cs') := List.Perm.swap _ _ _

/-- If `a :: as` can be paired with (a rearrangement of a part of) `b :: rest`, where `b` is a
partner of `a`, then `as` can be paired inside `rest`. -/
theorem exchange {α β} (r : α → β → Bool) (hr : Difunctional r) (a : α) (as : List α)
    (b : β) (rest : List β) (hab : r a b = true)
    (l1' extra : List β) (hperm : (l1' ++ extra).Perm (b :: rest))
    (hf : List.Forall₂ (fun a b => r a b = true) (a :: as) l1') :
    ∃ l2 extra2, (l2 ++ extra2).Perm rest ∧ List.Forall₂ (fun a b => r a b = true) as l2 := by
  cases hf with
  | @cons _ b0 _ l1'' hab0 hrest =>
    have hbmem : b ∈ (b0 :: l1'') ++ extra := hperm.mem_iff.mpr (by simp)
    by_cases hb0 : b = b0
    · subst hb0
      exact ⟨l1'', extra, (List.perm_cons b).mp (by simpa using hperm), hrest⟩
    · simp only [List.cons_append, List.mem_cons, hb0, List.mem_append, false_or] at hbmem
      rcases hbmem with hin | hin
      · -- b is the partner of some a' in `as`: give a' the partner b0 instead
        obtain ⟨l2, hf2, hp2⟩ := swapPartner (fun a b => r a b = true) b b0
          (fun a' ha' => hr a' a b b0 ha' hab hab0) as l1'' hrest hin
        refine ⟨l2, extra, ?_, hf2⟩
        have h3 : ((b0 :: l1'') ++ extra).Perm (b :: (l2 ++ extra)) := by
          simpa using List.Perm.append_right extra hp2
        exact (List.perm_cons b).mp (h3.symm.trans hperm)
      · -- b is not used by the pairing: drop it from the extras
        obtain ⟨e1, e2, rfl⟩ := List.append_of_mem hin
        refine ⟨l1'', b0 :: (e1 ++ e2), ?_, hrest⟩
        have h3 : ((b0 :: l1'') ++ (e1 ++ b :: e2)).Perm (b :: (l1'' ++ b0 :: (e1 ++ e2))) := by
          have : (b0 :: l1'' ++ (e1 ++ b :: e2)).Perm (b :: (b0 :: l1'' ++ (e1 ++ e2))) := by
            rw [← List.append_assoc, ← List.append_assoc]
            exact List.perm_middle
          refine this.trans (List.Perm.cons _ ?_)
          simpa using (List.perm_middle (a := b0) (l₁ := l1'') (l₂ := e1 ++ e2)).symm
        exact (List.perm_cons b).mp (h3.symm.trans hperm)

theorem greedyPairs_isSome_of_pairing {α β} (r : α → β → Bool) (hr : Difunctional r) (l0 : List α) (l1 : List β)
    (l1' extra : List β) (hperm : (l1' ++ extra).Perm l1)
    (hf : List.Forall₂ (fun a b => r a b = true) l0 l1') : (greedyPairs r l0 l1).isSome = true := by
  induction l0 generalizing l1 l1' extra with
  | nil => simp [greedyPairs]
  | cons a as ih =>
    simp only [greedyPairs]
    cases h1 : extractFirst (r a) l1 with
    | none =>
      exfalso
      have hnone := (extractFirst_none (r a) l1).mp h1
      cases hf with
      | @cons _ b0 _ l1'' hab0 _ =>
        have : b0 ∈ l1 := hperm.mem_iff.mp (by simp)
        rw [hnone b0 this] at hab0
        exact Bool.false_ne_true hab0
    | some x =>
      obtain ⟨b, rest⟩ := x
      have hb := (extractFirst_some (r a) l1 b rest h1).1
      have hp := extractFirst_perm (r a) l1 b rest h1
      obtain ⟨l2, extra2, hp2, hf2⟩ := exchange r hr a as b rest hb l1' extra (hperm.trans hp) hf
      have := ih rest l2 extra2 hp2 hf2
      cases h2 : greedyPairs r as rest with
      | none => simp [h2] at this
      | some qs => simp [h2]

theorem greedyPairs_isSome_iff {α β} (r : α → β → Bool) (hr : Difunctional r) (l0 : List α) (l1 : List β) :
    (greedyPairs r l0 l1).isSome = true ↔
      ∃ l1' rest : List β, (l1' ++ rest).Perm l1 ∧ List.Forall₂ (fun a b => r a b = true) l0 l1' := by
  constructor
  · intro h
    cases hps : greedyPairs r l0 l1 with
    | none => simp [hps] at h
    | some ps =>
      obtain ⟨h1, h2, rest, h3⟩ := greedyPairs_sound r l0 l1 ps hps
      refine ⟨ps.map Prod.snd, rest, h3.symm, ?_⟩
      rw [← h1]
      clear h1 h3 hps h
      induction ps with
      | nil => exact .nil
      | cons p ps ih =>
        exact .cons (h2 p (by simp)) (ih (fun q hq => h2 q (by simp [hq])))
  · rintro ⟨l1', rest, hp, hf⟩
    exact greedyPairs_isSome_of_pairing r hr l0 l1 l1' rest hp hf

/-- Soundness of the greedy answer (any relation). -/
theorem greedyMatch_sound {α β} (r : α → β → Bool) (l0 : List α) (l1 : List β)
    (h : greedyMatch r l0 l1 = true) :
    ∃ l1' : List β, l1'.Perm l1 ∧ List.Forall₂ (fun a b => r a b = true) l0 l1' := by
  simp only [greedyMatch, Bool.and_eq_true, beq_iff_eq] at h
  obtain ⟨hlen, hs⟩ := h
  cases hps : greedyPairs r l0 l1 with
  | none => simp [hps] at hs
  | some ps =>
    obtain ⟨h1, h2, rest, h3⟩ := greedyPairs_sound r l0 l1 ps hps
    have hl : rest = [] := by
      have := h3.length_eq
      simp only [List.length_append, List.length_map] at this
      have h4 : ps.length = l0.length := by rw [← h1]; simp
      apply List.eq_nil_of_length_eq_zero
      omega
    subst hl
    refine ⟨ps.map Prod.snd, by simpa using h3.symm, ?_⟩
    rw [← h1]
    clear h1 h3 hps hs hlen
    induction ps with
    | nil => exact .nil
    | cons p ps ih => exact .cons (h2 p (by simp)) (ih (fun q hq => h2 q (by simp [hq])))

/-- **Greedy matching is complete** for a difunctional relation: it answers `true`
exactly when some rearrangement of `l1` is related to `l0` item by item. -/
theorem greedyMatch_iff {α β} (r : α → β → Bool) (hr : Difunctional r) (l0 : List α) (l1 : List β) :
    greedyMatch r l0 l1 = true ↔
      ∃ l1' : List β, l1'.Perm l1 ∧ List.Forall₂ (fun a b => r a b = true) l0 l1' := by
  constructor
  · exact greedyMatch_sound r l0 l1
  · rintro ⟨l1', hp, hf⟩
    simp only [greedyMatch, Bool.and_eq_true, beq_iff_eq]
    refine ⟨by rw [hf.length_eq, hp.length_eq], ?_⟩
    exact greedyPairs_isSome_of_pairing r hr l0 l1 l1' [] (by simpa using hp) hf

theorem greedyMatch_iff_spec {α β} (r : α → β → Bool) (hr : Difunctional r) (l0 : List α) (l1 : List β) :
    greedyMatch r l0 l1 = true ↔ MatchUpToOrder r l0 l1 := by
  rw [greedyMatch_iff r hr]
  constructor
  · rintro ⟨l1', hp, hf⟩
    exact ⟨l1', hp, hf.length_eq, fun i h0 h1 => (List.forall₂_iff_get.mp hf).2 i h0 h1⟩
  · rintro ⟨l1', hp, hlen, h⟩
    exact ⟨l1', hp, List.forall₂_iff_get.mpr ⟨hlen, h⟩⟩

/-! ### order-blindness -/

theorem greedyMatch_perm {α β} (r : α → β → Bool) (hr : Difunctional r) {l0 l0' : List α} {l1 l1' : List β}
    (h0 : l0.Perm l0') (h1 : l1.Perm l1') : greedyMatch r l0 l1 = greedyMatch r l0' l1' := by
  have key : ∀ {l0 l0' : List α} {l1 l1' : List β}, l0.Perm l0' → l1.Perm l1' →
      greedyMatch r l0 l1 = true → greedyMatch r l0' l1' = true := by
    intro l0 l0' l1 l1' h0 h1 h
    rw [greedyMatch_iff r hr] at h ⊢
    obtain ⟨m, hm, hf⟩ := h
    obtain ⟨m', hm', hf'⟩ := List.perm_comp_forall₂ h0.symm hf
    exact ⟨m', hf'.trans (hm.trans h1), hm'⟩
  cases h : greedyMatch r l0 l1 with
  | true => exact (key h0 h1 h).symm
  | false =>
    cases h' : greedyMatch r l0' l1' with
    | false => rfl
    | true => rw [key h0.symm h1.symm h'] at h; exact absurd h (by simp)

/-! ### equivalence relations -/

section Equiv
variable {α : Type _} (r : α → α → Bool)
  (hrefl : ∀ a, r a a = true) (hsymm : ∀ a b, r a b = true → r b a = true)
  (htrans : ∀ a b c, r a b = true → r b c = true → r a c = true)
include hsymm htrans

theorem difunctional_of_equiv : Difunctional r := by
  intro a a' b b' h1 h2 h3
  exact htrans a b b' h1 (htrans b a' b' (hsymm a' b h2) h3)

include hrefl in
theorem greedyMatch_refl (l : List α) : greedyMatch r l l = true := by
  simp [greedyMatch, greedyPairs_refl r hrefl l]

theorem greedyMatch_symm_imp (l0 l1 : List α) (h : greedyMatch r l0 l1 = true) : greedyMatch r l1 l0 = true := by
  have hd := difunctional_of_equiv r hsymm htrans
  rw [greedyMatch_iff r hd] at h ⊢
  obtain ⟨m, hm, hf⟩ := h
  -- l0 pairs with m ~ l1; flip and transport along the permutation
  have hflip : List.Forall₂ (fun a b => r a b = true) m l0 := by
    have := hf.flip
    exact this.imp (fun a b h => hsymm b a h)
  obtain ⟨m', hm', hf'⟩ := List.perm_comp_forall₂ hm.symm hflip
  exact ⟨m', hf', hm'⟩

theorem greedyMatch_symm (l0 l1 : List α) : greedyMatch r l0 l1 = greedyMatch r l1 l0 := by
  cases h : greedyMatch r l0 l1 with
  | true => exact (greedyMatch_symm_imp r hsymm htrans l0 l1 h).symm
  | false =>
    cases h' : greedyMatch r l1 l0 with
    | false => rfl
    | true => rw [greedyMatch_symm_imp r hsymm htrans l1 l0 h'] at h; exact absurd h (by simp)

theorem greedyMatch_trans (l0 l1 l2 : List α) (h01 : greedyMatch r l0 l1 = true)
    (h12 : greedyMatch r l1 l2 = true) : greedyMatch r l0 l2 = true := by
  have hd := difunctional_of_equiv r hsymm htrans
  rw [greedyMatch_iff r hd] at h01 h12 ⊢
  obtain ⟨m1, hm1, hf1⟩ := h01
  obtain ⟨m2, hm2, hf2⟩ := h12
  -- m1 ~ l1 pairs with some m2' ~ m2
  obtain ⟨m2', hf2', hm2'⟩ := List.perm_comp_forall₂ hm1 hf2
  refine ⟨m2', hm2'.trans hm2, ?_⟩
  clear hm1 hm2 hf2 hm2' hd
  induction hf1 generalizing m2' with
  | nil => cases hf2'; exact .nil
  | cons hab _ ih =>
    cases hf2' with
    | cons hbc hrest => exact .cons (htrans _ _ _ hab hbc) (ih _ hrest)

/-- Items paired by an equivalence have the same number of class-mates on both sides. -/
theorem countP_eq_of_forall₂ (c : α) (l0 l1 : List α) (hf : List.Forall₂ (fun a b => r a b = true) l0 l1) :
    l0.countP (r c) = l1.countP (r c) := by
  induction hf with
  | nil => rfl
  | @cons a b as bs hab _ ih =>
    have : r c a = r c b := by
      cases h1 : r c a with
      | true => exact (htrans c a b h1 hab).symm
      | false =>
        cases h2 : r c b with
        | false => rfl
        | true => rw [htrans c b a h2 (hsymm a b hab)] at h1; exact absurd h1 (by simp)
    simp [List.countP_cons, this, ih]

/-- **Discrimination.**  Replacing one item by an item of another class can never be matched. -/
theorem greedyMatch_replace_false (l : List α) (i : Nat) (hi : i < l.length) (c' : α)
    (hne : r l[i] c' = false) : greedyMatch r l (l.set i c') = false := by
  cases h : greedyMatch r l (l.set i c') with
  | false => rfl
  | true =>
    exfalso
    have hd := difunctional_of_equiv r hsymm htrans
    rw [greedyMatch_iff r hd] at h
    obtain ⟨m, hm, hf⟩ := h
    have h1 := countP_eq_of_forall₂ r hsymm htrans l[i] l m hf
    have h2 : m.countP (r l[i]) = (l.set i c').countP (r l[i]) := hm.countP_eq _
    have hrefl : r l[i] l[i] = true := by
      -- from the pairing: l[i] is related to something, hence to itself
      obtain ⟨b, hb⟩ : ∃ b, r l[i] b = true := by
        have := (List.forall₂_iff_get.mp hf)
        exact ⟨m[i]'(by rw [← this.1]; exact hi), this.2 i hi _⟩
      exact htrans _ _ _ hb (hsymm _ _ hb)
    -- count over l.set i c' is one less
    have h3 : (l.set i c').countP (r l[i]) + 1 = l.countP (r l[i]) := by
      clear h1 h2 hf hm
      induction l generalizing i with
      | nil => simp at hi
      | cons a as ih =>
        cases i with
        | zero =>
          simp only [List.getElem_cons_zero] at hne hrefl ⊢
          simp [List.countP_cons, hne, hrefl]
        | succ j =>
          simp only [List.getElem_cons_succ, List.length_cons, Nat.add_lt_add_iff_right] at hne hrefl hi ⊢
          simp only [List.set_cons_succ, List.countP_cons]
          have := ih j hi hne hrefl
          omega
    omega

theorem greedyMatch_replace_false' (l : List α) (i : Nat) (hi : i < l.length) (c' : α)
    (hne : r l[i] c' = false) : greedyMatch r (l.set i c') l = false := by
  rw [greedyMatch_symm r hsymm htrans]
  exact greedyMatch_replace_false r hsymm htrans l i hi c' hne

end Equiv

/-- A missing or an extra item is never matched (the counts are compared first). -/
theorem greedyMatch_length {α β} (r : α → β → Bool) (l0 : List α) (l1 : List β)
    (h : l0.length ≠ l1.length) : greedyMatch r l0 l1 = false := by
  simp [greedyMatch, h]

/-! ### sorting -/

theorem insertSorted_eq (a : Nat) (l : List Nat) : insertSorted a l = l.orderedInsert (· ≤ ·) a := by
  induction l with
  | nil => rfl
  | cons b bs ih => simp only [insertSorted, List.orderedInsert, ih]

theorem sortNat_eq (l : List Nat) : sortNat l = l.insertionSort (· ≤ ·) := by
  induction l with
  | nil => rfl
  | cons a as ih => rw [List.insertionSort_cons, ← ih, ← insertSorted_eq]; rfl

theorem sortNat_perm (l : List Nat) : (sortNat l).Perm l := by
  rw [sortNat_eq]; exact List.perm_insertionSort _ l

/-- `sorted(sizes0) == sorted(sizes1)` says exactly: the same sizes, in any order. -/
theorem sortNat_eq_iff_perm (l0 l1 : List Nat) : sortNat l0 = sortNat l1 ↔ l0.Perm l1 := by
  constructor
  · intro h
    exact (sortNat_perm l0).symm.trans (h ▸ sortNat_perm l1)
  · intro h
    rw [sortNat_eq, sortNat_eq]
    apply List.Perm.eq_of_pairwise (le := (· ≤ ·))
    · intro a b _ _ h1 h2; exact Nat.le_antisymm h1 h2
    · exact List.pairwise_insertionSort _ l0
    · exact List.pairwise_insertionSort _ l1
    · exact (List.perm_insertionSort _ l0).trans (h.trans (List.perm_insertionSort _ l1).symm)

/-! ### all2 -/

theorem all2_iff_forall₂ {α β} (p : α → β → Bool) (l0 : List α) (l1 : List β) :
    all2 p l0 l1 = true ↔ List.Forall₂ (fun a b => p a b = true) l0 l1 := by
  induction l0 generalizing l1 with
  | nil => cases l1 <;> simp [all2]
  | cons a as ih =>
    cases l1 with
    | nil => simp [all2]
    | cons b bs => simp [all2, ih]

theorem all2_iff_get {α β} (p : α → β → Bool) (l0 : List α) (l1 : List β) :
    all2 p l0 l1 = true ↔ l0.length = l1.length ∧
      ∀ i (h0 : i < l0.length) (h1 : i < l1.length), p l0[i] l1[i] = true := by
  rw [all2_iff_forall₂, List.forall₂_iff_get]
  rfl

theorem all2_refl {α} (p : α → α → Bool) (l : List α) (h : ∀ a ∈ l, p a a = true) : all2 p l l = true := by
  induction l with
  | nil => rfl
  | cons a as ih => simp [all2, h a (by simp), ih (fun b hb => h b (by simp [hb]))]

theorem all2_symm {α} (p : α → α → Bool) (hp : ∀ a b, p a b = p b a) (l0 l1 : List α) :
    all2 p l0 l1 = all2 p l1 l0 := by
  induction l0 generalizing l1 with
  | nil => cases l1 <;> rfl
  | cons a as ih => cases l1 with
    | nil => rfl
    | cons b bs => simp [all2, hp a b, ih bs]

end Cfdm.Equality
