import Std.Data.String.ToNat
import Mathlib.Data.List.Perm.Subperm
import Mathlib.Data.List.Nodup
import Cfdm.Lemmas.Append
/-
C17 — `_netcdf_name` never hands out a name in use; the names of the dataset registered at the
start of the post-dry-run pass stay registered (registry commands only add).
-/
namespace Cfdm.Append

theorem suffixed_inj (base : Name) {j k : Nat} (h : suffixed base j = suffixed base k) : j = k := by
  unfold suffixed at h
  have h1 := (String.append_right_inj (base ++ "_")).mp h
  exact Nat.repr_injective h1

/-- If the search ends on a name in use, every candidate it looked at was in use. -/
theorem freeSuffix_mem (ex : List Name) (base : Name) :
    ∀ (fuel k : Nat), freeSuffix ex base fuel k ∈ ex → ∀ j, k ≤ j → j ≤ k + fuel → suffixed base j ∈ ex := by
  intro fuel
  induction fuel with
  | zero =>
    intro k h j h1 h2
    have : j = k := by omega
    subst this; simpa [freeSuffix] using h
  | succ f ih =>
    intro k h j h1 h2
    unfold freeSuffix at h
    by_cases hc : ex.contains (suffixed base k) = true
    · rw [if_pos hc] at h
      by_cases hj : j = k
      · subst hj; simpa using hc
      · exact ih (k + 1) h j (by omega) (by omega)
    · rw [if_neg hc] at h
      exact absurd (by simpa using h) hc

theorem freeSuffix_fresh (ex : List Name) (base : Name) : freeSuffix ex base (ex.length + 1) 1 ∉ ex := by
  intro h
  have hall := freeSuffix_mem ex base (ex.length + 1) 1 h
  let cands := (List.range (ex.length + 1)).map (fun i => suffixed base (i + 1))
  have hsub : cands ⊆ ex := by
    intro x hx
    obtain ⟨i, hi, rfl⟩ := List.mem_map.mp hx
    have := List.mem_range.mp hi
    exact hall (i + 1) (by omega) (by omega)
  have hnd : cands.Nodup := by
    refine List.Nodup.map_on ?_ List.nodup_range
    intro a _ b _ hab
    have := suffixed_inj base hab
    omega
  have hlen := (List.subperm_of_subset hnd hsub).length_le
  simp [cands] at hlen
  omega

theorem netcdfName_fresh (n : NameReg) (base : Name) : (netcdfName true n base).1 ∉ n.existing := by
  unfold netcdfName
  simp only [if_true]
  by_cases hc : n.existing.contains (blanks true base) = true
  · simp only [hc, if_true]
    exact freeSuffix_fresh _ _
  · simp only [hc]
    simpa using hc

theorem netcdfName_names (b : Bool) (n : NameReg) (base : Name) :
    (netcdfName b n base).2.names = n.names ++ [(netcdfName b n base).1] ∧
    (netcdfName b n base).2.allocated = n.allocated ++ [(netcdfName b n base).1] ∧
    (netcdfName b n base).2.dimSize = n.dimSize := by
  simp [netcdfName]

/-- What the patched post-dry-run pass maintains about names, relative to the dataset `E` it appends to. -/
structure NamesInv (E : Ds) (nm : NameReg) : Prop where
  cover : ∀ n ∈ E.names, n ∈ nm.existing
  fresh : ∀ n ∈ nm.allocated, n ∉ E.names
  sub : ∀ n ∈ nm.allocated, n ∈ nm.names
  nodup : nm.allocated.Nodup

theorem NamesInv.alloc {E : Ds} {nm : NameReg} (h : NamesInv E nm) (base : Name) : NamesInv E (netcdfName true nm base).2 := by
  obtain ⟨h1, h2, h3⟩ := netcdfName_names true nm base
  have hf := netcdfName_fresh nm base
  refine ⟨?_, ?_, ?_, ?_⟩
  · intro n hn
    have := h.cover n hn
    simp only [NameReg.existing, NameReg.dimKeys, h1, h3] at *
    rcases List.mem_append.mp this with a | a
    · exact List.mem_append.mpr (Or.inl (List.mem_append.mpr (Or.inl a)))
    · exact List.mem_append.mpr (Or.inr a)
  · intro n hn
    rw [h2] at hn
    rcases List.mem_append.mp hn with a | a
    · exact h.fresh n a
    · simp at a; subst a
      intro hc; exact hf (h.cover _ hc)
  · intro n hn
    rw [h2] at hn; rw [h1]
    rcases List.mem_append.mp hn with a | a
    · exact List.mem_append.mpr (Or.inl (h.sub n a))
    · exact List.mem_append.mpr (Or.inr a)
  · rw [h2]
    apply List.nodup_append.mpr
    refine ⟨h.nodup, by simp, ?_⟩
    intro a ha b hb
    simp at hb; subst hb
    intro hab; subst hab
    exact hf (List.mem_append.mpr (Or.inl (h.sub _ ha)))

theorem NamesInv.allocRole {E : Ds} {nm : NameReg} (h : NamesInv E nm) (base : Name) (s : Nat) (role : String) :
    NamesInv E (netcdfNameRole true nm base s role).2.2 := by
  unfold netcdfNameRole
  split
  · exact h
  · have := h.alloc base
    exact ⟨this.cover, this.fresh, this.sub, this.nodup⟩

theorem dimKeys_note (l : List (Name × Nat)) (n : Name) (s : Nat) (x : Name) (hx : x ∈ l.map (·.1)) :
    x ∈ (l.filter (·.1 != n) ++ [(n, s)]).map (·.1) := by
  obtain ⟨p, hp, rfl⟩ := List.mem_map.mp hx
  by_cases hc : p.1 = n
  · simp [hc]
  · simp only [List.map_append, List.mem_append]
    left
    exact List.mem_map.mpr ⟨p, List.mem_filter.mpr ⟨hp, by simp [hc]⟩, rfl⟩

theorem NamesInv.noteDim {E : Ds} {nm : NameReg} (h : NamesInv E nm) (n : Name) (s : Nat) :
    NamesInv E { nm with dimSize := nm.dimSize.filter (·.1 != n) ++ [(n, s)] } := by
  refine ⟨?_, h.fresh, h.sub, h.nodup⟩
  intro x hx
  have := h.cover x hx
  simp only [NameReg.existing, NameReg.dimKeys] at *
  rcases List.mem_append.mp this with a | a
  · exact List.mem_append.mpr (Or.inl a)
  · exact List.mem_append.mpr (Or.inr (dimKeys_note _ n s x a))

theorem NamesInv.addName {E : Ds} {nm : NameReg} (h : NamesInv E nm) (n : Name) :
    NamesInv E { nm with names := nm.names ++ [n] } := by
  refine ⟨?_, h.fresh, ?_, h.nodup⟩
  · intro x hx
    have := h.cover x hx
    simp only [NameReg.existing, NameReg.dimKeys] at *
    rcases List.mem_append.mp this with a | a
    · exact List.mem_append.mpr (Or.inl (List.mem_append.mpr (Or.inl a)))
    · exact List.mem_append.mpr (Or.inr a)
  · intro x hx
    exact List.mem_append.mpr (Or.inl (h.sub x hx))

theorem post_not_dry (b : Bool) : (Mode.post == Mode.dry && b) = false := by cases b <;> rfl

theorem netcdfNameRole_keep_false (bf : Bool) (n : NameReg) (base : Name) (s : Nat) (role : String) :
    netcdfNameRole bf n base s role false = netcdfNameRole bf n base s role := rfl

/-- Every program of the post-dry-run pass keeps the invariant (patched `_netcdf_name`). -/
theorem run_names_inv (fx : Fix) (hb : fx.blanks = true) (E : Ds) {α : Type} (p : Prog α) :
    ∀ (r : Reg) (fs : FileSt), NamesInv E r.nm → NamesInv E (run fx .post p r fs).2.1.nm := by
  induction p with
  | pure a => intro r fs h; exact h
  | fail e => intro r fs h; exact h
  | mode k ih => intro r fs h; simp only [run]; exact ih _ r fs h
  | get k ih => intro r fs h; simp only [run]; exact ih _ r fs h
  | modAux g p ih => intro r fs h; simp only [run]; exact ih _ fs h
  | alloc b k ih =>
    intro r fs h
    simp only [run, hb, post_not_dry, Bool.false_eq_true, ↓reduceIte]
    exact ih _ _ fs (h.alloc b)
  | allocRole b s role k ih =>
    intro r fs h
    simp only [run, hb, post_not_dry]
    exact ih _ _ fs (h.allocRole b s role)
  | noteDim n s p ih => intro r fs h; simp only [run]; exact ih _ fs (h.noteDim n s)
  | addName n p ih => intro r fs h; simp only [run]; exact ih _ fs (h.addName n)
  | createDim d p ih =>
    intro r fs h; simp only [run]
    split
    · exact ih r fs h
    · split
      · exact h
      · exact ih r _ h
  | ensureDim d p ih =>
    intro r fs h; simp only [run]
    split
    · exact ih r fs h
    · exact ih r _ h
  | createVar v e p ih =>
    intro r fs h; simp only [run]
    split
    · exact ih r fs h
    · split
      · exact h
      · split
        · exact h
        · split
          · exact h
          · exact ih r _ h
  | setAttr n k v p ih =>
    intro r fs h; simp only [run]
    split
    · exact ih r fs h
    · exact ih r _ h
  | setGlobal k v p ih =>
    intro r fs h; simp only [run]
    split
    · exact ih r _ h
    · exact ih r fs h

end Cfdm.Append
