import Cfdm.Lemmas.EqualitySpec
/-
Helper lemmas for C05: `Field.equals` / `Domain.equals` do not look at the netCDF variable names
(nor at the external-variable status) of the metadata constructs — a congruence argument through
`Constructs.equals`: grouping by axes, the per-type greedy matching, the axis and key maps.
-/
namespace Cfdm.Equality

/-- A construct without its netCDF-only attributes. -/
def stripNames (c : Construct) : Construct := { c with ncvar := none, external := false }

def Entry.strip (e : Entry) : Entry := { e with c := stripNames e.c }

def Field.strip (f : Field) : Field := { f with cons := f.cons.map Entry.strip }

theorem constructCore_strip (o : Opts) (a b : Construct) :
    constructCore o (stripNames a) (stripNames b) = constructCore o a b := rfl

/-! ### the matching loop commutes with maps that the relation does not see -/

theorem extractFirst_map {β γ} (φ : β → γ) (p : γ → Bool) (l : List β) :
    extractFirst p (l.map φ) = (extractFirst (fun b => p (φ b)) l).map (fun br => (φ br.1, br.2.map φ)) := by
  induction l with
  | nil => rfl
  | cons b bs ih =>
    simp only [List.map_cons, extractFirst]
    by_cases h : p (φ b) = true
    · simp [h]
    · have h' : p (φ b) = false := by simpa using h
      simp only [h', Bool.false_eq_true, ↓reduceIte, ih]
      cases extractFirst (fun b => p (φ b)) bs with
      | none => rfl
      | some xr => rfl

theorem greedyPairs_map {α β α' β'} (φ : α → α') (ψ : β → β') (r : α' → β' → Bool) (r' : α → β → Bool)
    (h : ∀ a b, r (φ a) (ψ b) = r' a b) (l0 : List α) (l1 : List β) :
    greedyPairs r (l0.map φ) (l1.map ψ) = (greedyPairs r' l0 l1).map (List.map (Prod.map φ ψ)) := by
  induction l0 generalizing l1 with
  | nil => rfl
  | cons a as ih =>
    simp only [List.map_cons, greedyPairs]
    rw [extractFirst_map ψ (r (φ a)) l1]
    have : (fun b => r (φ a) (ψ b)) = r' a := by funext b; exact h a b
    rw [this]
    cases extractFirst (r' a) l1 with
    | none => rfl
    | some br =>
      obtain ⟨b, rest⟩ := br
      simp only [Option.map_some, ih rest]
      cases greedyPairs r' as rest with
      | none => rfl
      | some ps => rfl

/-! ### groups -/

theorem strip_axes (e : Entry) : e.strip.axes = e.axes := rfl
theorem strip_key (e : Entry) : e.strip.key = e.key := rfl
theorem strip_cls (e : Entry) : e.strip.c.cls = e.c.cls := rfl

theorem map_axes_strip (cons : List Entry) : (cons.map Entry.strip).map (·.axes) = cons.map (·.axes) := by
  simp [List.map_map, Function.comp_def, strip_axes]

/-- The group with its entries stripped. -/
def stripGroup (g : List Nat × List Entry) : List Nat × List Entry := (g.1, g.2.map Entry.strip)

theorem groupsOf_strip (cons : List Entry) : groupsOf (cons.map Entry.strip) = (groupsOf cons).map stripGroup := by
  unfold groupsOf
  rw [map_axes_strip, List.map_map]
  apply List.map_congr_left
  intro ax _
  simp only [Function.comp_def, stripGroup, List.filter_map, Prod.mk.injEq, true_and]
  congr 1

theorem ofRole_strip (role : Nat) (g : List Entry) : ofRole role (g.map Entry.strip) = (ofRole role g).map Entry.strip := by
  unfold ofRole
  rw [List.filter_map]
  congr 1

theorem rolePairs_strip (o : Opts) (g0 g1 : List Entry) (role : Nat) :
    rolePairs (constructCore o) (g0.map Entry.strip) (g1.map Entry.strip) role
      = (rolePairs (constructCore o) g0 g1 role).map (List.map (Prod.map Entry.strip Entry.strip)) := by
  unfold rolePairs
  simp only [ofRole_strip, List.length_map]
  split
  · rfl
  · exact greedyPairs_map Entry.strip Entry.strip _ _ (fun a b => constructCore_strip o a.c b.c) _ _

theorem groupPairs_strip (o : Opts) (g0 g1 : List Entry) (rs : List Nat) :
    groupPairs (constructCore o) (g0.map Entry.strip) (g1.map Entry.strip) rs
      = (groupPairs (constructCore o) g0 g1 rs).map (List.map (Prod.map Entry.strip Entry.strip)) := by
  induction rs with
  | nil => rfl
  | cons role rest ih =>
    simp only [groupPairs, rolePairs_strip, ih]
    cases rolePairs (constructCore o) g0 g1 role with
    | none => rfl
    | some ps =>
      cases groupPairs (constructCore o) g0 g1 rest with
      | none => rfl
      | some qs => simp

theorem groupRel_strip (o : Opts) (a b : List Nat × List Entry) :
    groupRel (constructCore o) (stripGroup a) (stripGroup b) = groupRel (constructCore o) a b := by
  simp only [groupRel, stripGroup, groupPairs_strip, Option.isSome_map]

theorem axisPairs_strip (m : List ((List Nat × List Entry) × (List Nat × List Entry))) :
    axisPairs (m.map (Prod.map stripGroup stripGroup)) = axisPairs m := by
  unfold axisPairs
  induction m with
  | nil => rfl
  | cons p ps ih => simp only [List.map_cons, List.flatMap_cons, ih]; rfl

theorem keyMap_strip (o : Opts) (m : List ((List Nat × List Entry) × (List Nat × List Entry))) :
    keyMap (constructCore o) (m.map (Prod.map stripGroup stripGroup)) = keyMap (constructCore o) m := by
  unfold keyMap
  induction m with
  | nil => rfl
  | cons p ps ih =>
    simp only [List.map_cons, List.flatMap_cons, ih]
    congr 1
    simp only [Prod.map, stripGroup, groupPairs_strip]
    cases groupPairs (constructCore o) p.1.2 p.2.2 roles with
    | none => rfl
    | some qs =>
      simp only [Option.map_some, List.map_map]
      apply List.map_congr_left
      intro q _
      rfl

/-! ### `Constructs.equals` and `Field.equals` -/

theorem constructsEquals_strip (o : Opts) (x y : Field) :
    constructsEquals o x.strip y.strip = constructsEquals o x y := by
  unfold constructsEquals
  have hax : x.strip.axes = x.axes := rfl
  have hay : y.strip.axes = y.axes := rfl
  have hcx : x.strip.cons = x.cons.map Entry.strip := rfl
  have hcy : y.strip.cons = y.cons.map Entry.strip := rfl
  have hmx : x.strip.cms = x.cms := rfl
  have hmy : y.strip.cms = y.cms := rfl
  have hrx : x.strip.refs = x.refs := rfl
  have hry : y.strip.refs = y.refs := rfl
  simp only [hax, hay, hcx, hcy, hmx, hmy, hrx, hry, groupsOf_strip, List.length_map]
  have hg : greedyPairs (groupRel (constructCore o.inner)) ((groupsOf x.cons).map stripGroup) ((groupsOf y.cons).map stripGroup)
      = (greedyPairs (groupRel (constructCore o.inner)) (groupsOf x.cons) (groupsOf y.cons)).map
          (List.map (Prod.map stripGroup stripGroup)) :=
    greedyPairs_map stripGroup stripGroup _ _ (groupRel_strip o.inner) _ _
  rw [hg]
  split
  · rfl
  · split
    · rfl
    · cases greedyPairs (groupRel (constructCore o.inner)) (groupsOf x.cons) (groupsOf y.cons) with
      | none => rfl
      | some matched => simp only [Option.map_some, axisPairs_strip, keyMap_strip]

/-- **`Field.equals` / `Domain.equals` never look at netCDF variable names or the external status**
of the metadata constructs. -/
theorem fieldEquals_strip (o : Opts) (x y : Field) : fieldEquals o x.strip y.strip = fieldEquals o x y := by
  unfold fieldEquals
  have h1 : x.strip.cls = x.cls := rfl
  have h2 : y.strip.cls = y.cls := rfl
  have h3 : x.strip.props = x.props := rfl
  have h4 : y.strip.props = y.props := rfl
  have h5 : x.strip.data = x.data := rfl
  have h6 : y.strip.data = y.data := rfl
  simp only [h1, h2, h3, h4, h5, h6, constructsEquals_strip]

end Cfdm.Equality
