import Cfdm.Model.Geometry
/- Helper lemmas for C14 (kept apart from the property theorems). -/
namespace Cfdm.Geometry

/-- The true part→cell vector of a grouping: every element of the `i`-th group
is labelled `j + i`. -/
def labels {β} : Nat → List (List β) → List Nat
  | _, [] => []
  | j, c :: g => List.replicate c.length j ++ labels (j + 1) g

theorem labels_length {β} (g : List (List β)) : ∀ j, (labels j g).length = g.flatten.length := by
  induction g with
  | nil => intro j; rfl
  | cons c g ih => intro j; simp [labels, ih]

theorem labels_map {β γ} (f : List β → List γ) (hf : ∀ c, (f c).length = c.length) (g : List (List β)) :
    ∀ j, labels j (g.map f) = labels j g := by
  induction g with
  | nil => intro j; rfl
  | cons c g ih => intro j; simp [labels, ih, hf]

theorem labels_succ {β} (g : List (List β)) : ∀ j, labels (j + 1) g = (labels j g).map (· + 1) := by
  induction g with
  | nil => intro j; rfl
  | cons c g ih => intro j; simp [labels, ih]

theorem mem_labels_ge {β} (g : List (List β)) : ∀ j x, x ∈ labels j g → j ≤ x := by
  induction g with
  | nil => intro j x h; simp [labels] at h
  | cons c g ih =>
    intro j x h
    simp only [labels, List.mem_append, List.mem_replicate] at h
    rcases h with h | h
    · omega
    · have := ih (j + 1) x h; omega

theorem mem_labels {β} (g : List (List β)) (hne : ∀ c ∈ g, c ≠ []) :
    ∀ j x, x ∈ labels j g ↔ j ≤ x ∧ x < j + g.length := by
  induction g with
  | nil => intro j x; simp [labels]
  | cons c g ih =>
    intro j x
    have hc : c ≠ [] := hne c (by simp)
    have hlen : c.length ≠ 0 := by
      intro h; exact hc (List.length_eq_zero_iff.mp h)
    simp only [labels, List.mem_append, List.mem_replicate, List.length_cons]
    rw [ih (fun c hc => hne c (by simp [hc])) (j + 1) x]
    omega

/-! ### the assignment loop -/

theorem inner_cons (need inst k n p : Nat) (ps index : List Nat) :
    inner need inst k n (p :: ps) index
      = if need ≤ n + p then (index.set k inst, some k)
        else inner need inst (k + 1) (n + p) ps (index.set k inst) := by
  simp [inner]

theorem inner_cell (inst : Nat) (c : List Nat) (hc : c ≠ []) (hpos : ∀ x ∈ c, 0 < x) :
    ∀ (n : Nat) (pre xs rest : List Nat), xs.length = (c ++ rest).length →
      inner (n + c.sum) inst pre.length n (c ++ rest) (pre ++ xs)
        = (pre ++ List.replicate c.length inst ++ xs.drop c.length, some (pre.length + c.length - 1)) := by
  induction c with
  | nil => exact absurd rfl hc
  | cons q qs ih =>
    intro n pre xs rest hlen
    cases xs with
    | nil => simp at hlen
    | cons x xs' =>
      cases qs with
      | nil =>
        simp [inner]
      | cons q' qs' =>
        have hq' : 0 < q' := hpos q' (by simp)
        have hnot : ¬ (n + (q :: q' :: qs').sum ≤ n + q) := by
          simp only [List.sum_cons]; omega
        have ih' := ih (by simp) (fun x hx => hpos x (by simp [hx])) (n + q) (pre ++ [inst]) xs' rest
          (by simpa using hlen)
        rw [List.cons_append, inner_cons, if_neg hnot]
        have hset : (pre ++ x :: xs').set pre.length inst = (pre ++ [inst]) ++ xs' := by
          simp
        rw [hset]
        have hsum : n + (q :: q' :: qs').sum = n + q + (q' :: qs').sum := by
          simp only [List.sum_cons]; omega
        rw [hsum]
        have hl : (pre ++ [inst]).length = pre.length + 1 := by simp
        rw [← hl]
        rw [ih']
        simp [List.replicate_succ]
        omega

theorem step_cell (parts pre xs c rest : List Nat) (j : Nat) (hc : c ≠ []) (hpos : ∀ x ∈ c, 0 < x)
    (hparts : parts.drop pre.length = c ++ rest) (hlen : xs.length = (c ++ rest).length) :
    step true parts ⟨pre ++ xs, j, pre.length⟩ c.sum
      = ⟨pre ++ List.replicate c.length j ++ xs.drop c.length, j + 1, pre.length + c.length⟩ := by
  have h := inner_cell j c hc hpos 0 pre xs rest hlen
  simp only [Nat.zero_add] at h
  simp only [step, hparts, h]
  have : c.length ≠ 0 := fun h0 => hc (List.length_eq_zero_iff.mp h0)
  simp
  omega

theorem fold_cells (parts : List Nat) :
    ∀ (g : List (List Nat)) (pre xs : List Nat) (j : Nat), (∀ c ∈ g, c ≠ []) → (∀ c ∈ g, ∀ x ∈ c, 0 < x) →
      parts.drop pre.length = g.flatten → xs.length = g.flatten.length →
      ((g.map List.sum).foldl (step true parts) ⟨pre ++ xs, j, pre.length⟩).index = pre ++ labels j g := by
  intro g
  induction g with
  | nil =>
    intro pre xs j _ _ _ hlen
    have : xs = [] := List.length_eq_zero_iff.mp (by simpa using hlen)
    simp [labels, this]
  | cons c g ih =>
    intro pre xs j hne hpos hparts hlen
    simp only [List.flatten_cons] at hparts hlen
    simp only [List.map_cons, List.foldl_cons]
    rw [step_cell parts pre xs c g.flatten j (hne c (by simp)) (hpos c (by simp)) hparts hlen]
    have hl : (pre ++ List.replicate c.length j).length = pre.length + c.length := by simp
    rw [← hl]
    rw [ih (pre ++ List.replicate c.length j) (xs.drop c.length) (j + 1)
      (fun c hc => hne c (by simp [hc])) (fun c hc => hpos c (by simp [hc]))
      (by
        rw [hl, ← List.drop_drop, hparts]
        simp)
      (by simp [hlen])]
    simp [labels]

theorem partIndex_labels (g : List (List Nat)) (hne : ∀ c ∈ g, c ≠ []) (hpos : ∀ c ∈ g, ∀ x ∈ c, 0 < x) :
    partIndex true (g.map List.sum) g.flatten = labels 0 g := by
  have := fold_cells g.flatten g [] g.flatten 0 hne hpos (by simp) rfl
  simpa [partIndex] using this

/-! ### the closed-form assignment -/

theorem partStartsFrom_append (a b : List Nat) : ∀ o,
    partStartsFrom o (a ++ b) = partStartsFrom o a ++ partStartsFrom (o + a.sum) b := by
  induction a with
  | nil => intro o; simp [partStartsFrom]
  | cons x a ih => intro o; simp [partStartsFrom, ih, Nat.add_assoc]

theorem partStartsFrom_length (a : List Nat) : ∀ o, (partStartsFrom o a).length = a.length := by
  induction a with
  | nil => intro o; rfl
  | cons x a ih => intro o; simp [partStartsFrom, ih]

theorem mem_partStartsFrom (a : List Nat) (hpos : ∀ x ∈ a, 0 < x) :
    ∀ o s, s ∈ partStartsFrom o a → o ≤ s ∧ s < o + a.sum := by
  induction a with
  | nil => intro o s h; simp [partStartsFrom] at h
  | cons x a ih =>
    intro o s h
    have hx : 0 < x := hpos x (by simp)
    simp only [partStartsFrom, List.mem_cons] at h
    simp only [List.sum_cons]
    rcases h with h | h
    · omega
    · have := ih (fun y hy => hpos y (by simp [hy])) (o + x) s h
      omega

theorem mem_partStartsFrom_ge (a : List Nat) : ∀ o s, s ∈ partStartsFrom o a → o ≤ s := by
  induction a with
  | nil => intro o s h; simp [partStartsFrom] at h
  | cons x a ih =>
    intro o s h
    simp only [partStartsFrom, List.mem_cons] at h
    rcases h with h | h
    · omega
    · have := ih (o + x) s h
      omega

theorem mem_endsFrom_ge (a : List Nat) : ∀ o e, e ∈ endsFrom o a → o ≤ e := by
  induction a with
  | nil => intro o e h; simp [endsFrom] at h
  | cons x a ih =>
    intro o e h
    simp only [endsFrom, List.mem_cons] at h
    rcases h with h | h
    · omega
    · have := ih (o + x) e h
      omega

theorem countP_le_eq_zero (l : List Nat) (s : Nat) (h : ∀ e ∈ l, s < e) : l.countP (· ≤ s) = 0 := by
  rw [List.countP_eq_zero]
  intro e he
  have := h e he
  simp; omega

theorem specAssignFrom_labels (g : List (List Nat)) (hne : ∀ c ∈ g, c ≠ [])
    (hpos : ∀ c ∈ g, ∀ x ∈ c, 0 < x) : ∀ o,
    (partStartsFrom o g.flatten).map (fun s => (endsFrom o (g.map List.sum)).countP (· ≤ s)) = labels 0 g := by
  induction g with
  | nil => intro o; simp [partStartsFrom, labels]
  | cons c g ih =>
    intro o
    have hcpos := hpos c (by simp)
    simp only [List.flatten_cons, List.map_cons, endsFrom, partStartsFrom_append, List.map_append, labels]
    congr 1
    · rw [List.eq_replicate_iff]
      refine ⟨by simp [partStartsFrom_length], ?_⟩
      intro b hb
      simp only [List.mem_map] at hb
      obtain ⟨s, hs, rfl⟩ := hb
      have hs' := mem_partStartsFrom c hcpos o s hs
      apply countP_le_eq_zero
      intro e he
      simp only [List.mem_cons] at he
      rcases he with he | he
      · omega
      · have := mem_endsFrom_ge _ _ _ he; omega
    · rw [labels_succ, ← ih (fun c hc => hne c (by simp [hc])) (fun c hc => hpos c (by simp [hc])) (o + c.sum)]
      rw [List.map_map]
      apply List.map_congr_left
      intro s hs
      have := mem_partStartsFrom_ge _ _ _ hs
      simp [this]

theorem specAssign_labels (g : List (List Nat)) (hne : ∀ c ∈ g, c ≠ [])
    (hpos : ∀ c ∈ g, ∀ x ∈ c, 0 < x) :
    specAssign (g.map List.sum) g.flatten = labels 0 g :=
  specAssignFrom_labels g hne hpos 0

/-! ### cumulative-count alignment gives a grouping -/

theorem endsFrom_append (a b : List Nat) : ∀ o,
    endsFrom o (a ++ b) = endsFrom o a ++ endsFrom (o + a.sum) b := by
  induction a with
  | nil => intro o; simp [endsFrom]
  | cons x a ih => intro o; simp [endsFrom, ih, Nat.add_assoc]

theorem mem_endsFrom_le (a : List Nat) : ∀ o e, e ∈ endsFrom o a → e ≤ o + a.sum := by
  induction a with
  | nil => intro o e h; simp [endsFrom] at h
  | cons x a ih =>
    intro o e h
    simp only [endsFrom, List.mem_cons] at h
    simp only [List.sum_cons]
    rcases h with h | h
    · omega
    · have := ih (o + x) e h
      omega

theorem mem_endsFrom_gt (a : List Nat) (hpos : ∀ x ∈ a, 0 < x) : ∀ o e, e ∈ endsFrom o a → o < e := by
  induction a with
  | nil => intro o e h; simp [endsFrom] at h
  | cons x a ih =>
    intro o e h
    have hx := hpos x (by simp)
    simp only [endsFrom, List.mem_cons] at h
    rcases h with h | h
    · omega
    · have := ih (fun y hy => hpos y (by simp [hy])) (o + x) e h
      omega

theorem split_of_mem_ends (l : List Nat) : ∀ o e, e ∈ endsFrom o l →
    ∃ a b, l = a ++ b ∧ a ≠ [] ∧ e = o + a.sum := by
  induction l with
  | nil => intro o e h; simp [endsFrom] at h
  | cons x l ih =>
    intro o e h
    simp only [endsFrom, List.mem_cons] at h
    rcases h with h | h
    · exact ⟨[x], l, rfl, by simp, by simp [h]⟩
    · obtain ⟨a, b, hl, _, he⟩ := ih (o + x) e h
      exact ⟨x :: a, b, by simp [hl], by simp, by simp only [List.sum_cons]; omega⟩

theorem grouping_of_aligned : ∀ (nc pnc : List Nat) (o : Nat), (∀ x ∈ nc, 0 < x) → (∀ x ∈ pnc, 0 < x) →
    nc.sum = pnc.sum → (∀ e ∈ endsFrom o nc, e ∈ endsFrom o pnc) →
    ∃ g : List (List Nat), (∀ c ∈ g, c ≠ []) ∧ (∀ c ∈ g, ∀ x ∈ c, 0 < x) ∧ g.flatten = pnc ∧ g.map List.sum = nc := by
  intro nc
  induction nc with
  | nil =>
    intro pnc o _ hp hs _
    cases pnc with
    | nil => exact ⟨[], by simp, by simp, rfl, rfl⟩
    | cons x l =>
      have := hp x (by simp)
      simp only [List.sum_nil, List.sum_cons] at hs
      omega
  | cons n ns ih =>
    intro pnc o hn hp hs he
    have h0 : o + n ∈ endsFrom o pnc := he (o + n) (by simp [endsFrom])
    obtain ⟨a, b, hl, ha, hsum⟩ := split_of_mem_ends pnc o (o + n) h0
    have hsa : a.sum = n := by omega
    subst hl
    have hpa : ∀ x ∈ a, 0 < x := fun x hx => hp x (by simp [hx])
    have hpb : ∀ x ∈ b, 0 < x := fun x hx => hp x (by simp [hx])
    have hns : ∀ x ∈ ns, 0 < x := fun x hx => hn x (by simp [hx])
    obtain ⟨g, hg1, hg2, hg3, hg4⟩ := ih b (o + n) hns hpb
      (by simp only [List.sum_cons, List.sum_append] at hs; omega)
      (by
        intro e hein
        have h1 : e ∈ endsFrom o (a ++ b) := he e (by simp [endsFrom, hein])
        rw [endsFrom_append, List.mem_append] at h1
        rcases h1 with h1 | h1
        · have := mem_endsFrom_le a o e h1
          have := mem_endsFrom_gt ns hns (o + n) e hein
          omega
        · rw [hsa] at h1; exact h1)
    refine ⟨a :: g, ?_, ?_, ?_, ?_⟩
    · intro c hc
      simp only [List.mem_cons] at hc
      rcases hc with rfl | hc
      · exact ha
      · exact hg1 c hc
    · intro c hc
      simp only [List.mem_cons] at hc
      rcases hc with rfl | hc
      · exact hpa
      · exact hg2 c hc
    · simp [hg3]
    · simp [hg4, hsa]

theorem consistent_of_aligned (nc pnc : List Nat) (h : Aligned nc pnc) : Consistent nc pnc :=
  grouping_of_aligned nc pnc 0 h.1 h.2.1 h.2.2.1 h.2.2.2

/-! ### grouping by label -/

theorem pickLabel_lt {β γ} (g : List (List γ)) (xs : List β) (j t : Nat) (h : t < j) :
    pickLabel (labels j g) xs t = [] := by
  simp only [pickLabel, List.map_eq_nil_iff, List.filter_eq_nil_iff]
  intro ab hab
  have := (List.of_mem_zip (a := ab.1) (b := ab.2) (by simpa using hab)).1
  have := mem_labels_ge g j ab.1 this
  simp; omega

theorem zip_replicate_map_snd {β} (c : List β) (j : Nat) :
    ((List.replicate c.length j).zip c).map (·.2) = c := by
  induction c with
  | nil => rfl
  | cons x c ih => simpa [List.replicate_succ] using ih

theorem pickLabel_replicate_self {β} (c : List β) (j : Nat) :
    ((List.replicate c.length j).zip c |>.filter (fun t => t.1 == j)).map (·.2) = c := by
  have : ((List.replicate c.length j).zip c).filter (fun t => t.1 == j) = (List.replicate c.length j).zip c := by
    rw [List.filter_eq_self]
    intro ab hab
    have := (List.of_mem_zip (a := ab.1) (b := ab.2) (by simpa using hab)).1
    simp only [List.mem_replicate] at this
    simp [this.2]
  rw [this]
  exact zip_replicate_map_snd c j

theorem pickLabel_replicate_ne {β} (c : List β) (j t : Nat) (h : t ≠ j) :
    ((List.replicate c.length j).zip c |>.filter (fun p => p.1 == t)).map (·.2) = [] := by
  simp only [List.map_eq_nil_iff, List.filter_eq_nil_iff]
  intro ab hab
  have := (List.of_mem_zip (a := ab.1) (b := ab.2) (by simpa using hab)).1
  simp only [List.mem_replicate] at this
  simp; omega

theorem pickLabel_labels {β} (cs : List (List β)) : ∀ j i,
    pickLabel (labels j cs) cs.flatten (j + i) = cs.getD i [] := by
  induction cs with
  | nil => intro j i; simp [pickLabel, labels]
  | cons c cs ih =>
    intro j i
    have hz : (List.replicate c.length j ++ labels (j + 1) cs).zip (c ++ cs.flatten)
        = (List.replicate c.length j).zip c ++ (labels (j + 1) cs).zip cs.flatten :=
      List.zip_append (by simp)
    simp only [pickLabel, labels, List.flatten_cons, hz, List.filter_append, List.map_append]
    cases i with
    | zero =>
      have h2 := pickLabel_lt cs cs.flatten (j + 1) j (by omega)
      simp only [pickLabel] at h2
      simp only [Nat.add_zero]
      rw [pickLabel_replicate_self, h2]
      simp
    | succ i =>
      have h1 := pickLabel_replicate_ne c j (j + (i + 1)) (by omega)
      have h2 := ih (j + 1) i
      simp only [pickLabel] at h2
      rw [h1, show j + (i + 1) = j + 1 + i by omega, h2]
      simp

theorem foldl_max_ge (l : List Nat) : ∀ a x, (x = a ∨ x ∈ l) → x ≤ l.foldl max a := by
  induction l with
  | nil => intro a x h; simp at h; simp [h]
  | cons y l ih =>
    intro a x h
    simp only [List.foldl_cons]
    simp only [List.mem_cons] at h
    rcases h with h | h | h
    · have := ih (max a y) (max a y) (Or.inl rfl)
      have : a ≤ max a y := Nat.le_max_left a y
      omega
    · have := ih (max a y) (max a y) (Or.inl rfl)
      have : y ≤ max a y := Nat.le_max_right a y
      omega
    · exact ih (max a y) x (Or.inr h)

theorem filter_lt_range (n : Nat) : ∀ k, n ≤ k → (List.range k).filter (· < n) = List.range n := by
  intro k
  induction k with
  | zero => intro h; have : n = 0 := by omega
            subst this; rfl
  | succ k ih =>
    intro h
    rw [List.range_succ, List.filter_append]
    by_cases hk : n ≤ k
    · rw [ih hk]
      have : ¬ k < n := by omega
      simp [this]
    · have hn : n = k + 1 := by omega
      subst hn
      have : (List.range k).filter (· < k + 1) = List.range k := by
        rw [List.filter_eq_self]
        intro a ha
        have := List.mem_range.mp ha
        simp; omega
      rw [this, List.range_succ]
      simp

theorem uniq_eq_range (l : List Nat) (n : Nat) (h : ∀ x, x ∈ l ↔ x < n) : uniq l = List.range n := by
  have hn : n ≤ l.foldl max 0 + 1 := by
    cases n with
    | zero => omega
    | succ m =>
      have : m ∈ l := (h m).mpr (by omega)
      have := foldl_max_ge l 0 m (Or.inr this)
      omega
  unfold uniq
  rw [← filter_lt_range n _ hn]
  apply List.filter_congr
  intro x _
  have := h x
  by_cases hx : x < n
  · simp [hx, this.mpr hx]
  · have : x ∉ l := fun hm => hx (this.mp hm)
    simp [hx, this]

theorem range_map_getD {β} (l : List β) (d : β) : (List.range l.length).map (fun i => l.getD i d) = l := by
  apply List.ext_getElem
  · simp
  · intro i h1 h2
    simp at h1
    simp [h1]

theorem groupRows_labels {β} (cs : List (List β)) (hne : ∀ c ∈ cs, c ≠ []) :
    groupRows (labels 0 cs) cs.flatten = cs := by
  unfold groupRows
  rw [uniq_eq_range (labels 0 cs) cs.length (by intro x; rw [mem_labels cs hne 0 x]; omega)]
  have : pickLabel (labels 0 cs) cs.flatten = fun i => cs.getD i [] := by
    funext i
    have := pickLabel_labels cs 0 i
    simpa using this
  rw [this]
  exact range_map_getD cs []

theorem splitBy_flatten {β} (ps : List (List β)) : splitBy (ps.map List.length) ps.flatten = ps := by
  induction ps with
  | nil => rfl
  | cons p ps ih => simp [splitBy, ih]

theorem range_map_pickLabel {β} (cs : List (List β)) :
    (List.range cs.length).map (pickLabel (labels 0 cs) cs.flatten) = cs := by
  have : pickLabel (labels 0 cs) cs.flatten = fun i => cs.getD i [] := by
    funext i
    have := pickLabel_labels cs 0 i
    simpa using this
  rw [this]
  exact range_map_getD cs []

/-! ### padding and the writer -/

theorem foldl_max_le (l : List Nat) (k : Nat) : ∀ a, a ≤ k → (∀ x ∈ l, x ≤ k) → l.foldl max a ≤ k := by
  induction l with
  | nil => intro a ha _; simpa using ha
  | cons y l ih =>
    intro a ha h
    simp only [List.foldl_cons]
    apply ih
    · have := h y (by simp); exact Nat.max_le.mpr ⟨ha, this⟩
    · intro x hx; exact h x (by simp [hx])

theorem le_maxLen {β} (rows : List (List β)) (r : List β) (h : r ∈ rows) : r.length ≤ maxLen rows :=
  foldl_max_ge _ 0 _ (Or.inr (List.mem_map.mpr ⟨r, h, rfl⟩))

theorem maxLen_le {β} (rows : List (List β)) (k : Nat) (h : ∀ r ∈ rows, r.length ≤ k) : maxLen rows ≤ k := by
  apply foldl_max_le _ _ 0 (Nat.zero_le _)
  intro x hx
  obtain ⟨r, hr, rfl⟩ := List.mem_map.mp hx
  exact h r hr

theorem padTo_length {γ} (n : Nat) (fill : γ) (l : List γ) (h : l.length ≤ n) : (padTo n fill l).length = n := by
  simp [padTo]; omega

theorem filterMap_id_replicate_none {β} (k : Nat) : (List.replicate k (none : Option β)).filterMap id = [] := by
  induction k with
  | zero => rfl
  | succ k ih => simp [List.replicate_succ, ih]

theorem filterMap_id_map_some {β} (p : List β) : (p.map some).filterMap id = p := by
  induction p with
  | nil => rfl
  | cons x p ih => simp [ih]

theorem filterMap_id_padTo {β} (n : Nat) (p : List β) : (padTo n none (p.map some)).filterMap id = p := by
  simp [padTo, List.filterMap_append]

theorem countSome_padTo {β} (n : Nat) (p : List β) : countSome (padTo n none (p.map some)) = p.length := by
  have h1 : ((p.map some).filter Option.isSome) = p.map some := by
    rw [List.filter_eq_self]; intro a ha; obtain ⟨x, _, rfl⟩ := List.mem_map.mp ha; rfl
  have h2 : ∀ k, ((List.replicate k (none : Option β)).filter Option.isSome) = [] := by
    intro k; rw [List.filter_eq_nil_iff]; intro a ha; simp [(List.mem_replicate.mp ha).2]
  simp [countSome, padTo, List.filter_append, h1, h2]

theorem countSome_replicate_none {β} (k : Nat) : countSome (List.replicate k (none : Option β)) = 0 := by
  simp only [countSome, List.length_eq_zero_iff, List.filter_eq_nil_iff]
  intro a ha; simp [(List.mem_replicate.mp ha).2]

/-- One padded cell. -/
def padCell {α} (mp mn : Nat) (c : List (List α)) : List (List (Option α)) :=
  padTo mp (List.replicate mn none) (c.map (fun p => padTo mn none (p.map some)))

theorem padSpec_eq {α} (cs : Cells α) : padSpec cs = cs.map (padCell (maxLen cs) (maxLen cs.flatten)) := rfl

theorem padCell_nodes {α} (mp mn : Nat) (c : List (List α)) :
    (padCell mp mn c).flatten.filterMap id = c.flatten := by
  simp only [padCell, padTo, List.flatten_append, List.filterMap_append, List.filterMap_flatten, List.map_map]
  have h1 : (List.map (List.filterMap id ∘ fun p => p.map some ++ List.replicate (mn - (p.map some).length) none) c) = c := by
    have : (List.filterMap id ∘ fun (p : List α) => p.map some ++ List.replicate (mn - (p.map some).length) none) = id := by
      funext p
      simp [List.filterMap_append]
    rw [this]; simp
  have h2 : ∀ k, (List.map (List.filterMap id) (List.replicate k (List.replicate mn (none : Option α)))).flatten = [] := by
    intro k
    induction k with
    | zero => rfl
    | succ k ih => simp [List.replicate_succ]
  rw [h1, h2]; simp

theorem padCell_counts {α} (mp mn : Nat) (c : List (List α)) :
    (padCell mp mn c).map countSome = c.map List.length ++ List.replicate (mp - c.length) 0 := by
  simp only [padCell, padTo, List.map_append, List.map_map, List.length_map, List.map_replicate,
    countSome_replicate_none]
  congr 1
  apply List.map_congr_left
  intro p _
  have := countSome_padTo mn p
  simpa [padTo] using this

theorem sum_replicate_zero (k : Nat) : (List.replicate k 0).sum = 0 := by
  induction k with
  | zero => rfl
  | succ k ih => simp [List.replicate_succ, ih]

theorem wNodes_padSpec {α} (cs : Cells α) : wNodes (padSpec cs) = nodesOf cs := by
  rw [padSpec_eq]
  generalize maxLen cs = mp
  generalize maxLen cs.flatten = mn
  simp only [wNodes, nodesOf, List.filterMap_flatten]
  induction cs with
  | nil => rfl
  | cons c cs ih =>
    simp only [List.map_cons, List.flatten_cons, List.map_append, List.flatten_append]
    rw [ih]
    congr 1
    have := padCell_nodes mp mn c
    rwa [List.filterMap_flatten] at this

theorem wNodeCount_padSpec {α} (cs : Cells α) : wNodeCount (padSpec cs) = nodeCount cs := by
  rw [padSpec_eq]
  simp only [wNodeCount, nodeCount, List.map_map]
  apply List.map_congr_left
  intro c _
  simp [padCell_counts, List.sum_append]

theorem pnc_padSpec {α} (cs : Cells α) (h : WF cs) :
    ((padSpec cs).flatten.map countSome).filter (· != 0) = partNodeCount cs := by
  rw [padSpec_eq]
  generalize maxLen cs = mp
  generalize maxLen cs.flatten = mn
  simp only [partNodeCount]
  induction cs with
  | nil => rfl
  | cons c cs ih =>
    have hc := (h c (by simp)).2
    simp only [List.map_cons, List.flatten_cons, List.map_append, List.filter_append]
    rw [ih (fun c hc => h c (by simp [hc]))]
    congr 1
    rw [padCell_counts, List.filter_append]
    have h1 : (c.map List.length).filter (· != 0) = c.map List.length := by
      rw [List.filter_eq_self]
      intro a ha
      obtain ⟨p, hp, rfl⟩ := List.mem_map.mp ha
      have : p.length ≠ 0 := fun h0 => hc p hp (List.length_eq_zero_iff.mp h0)
      simp [this]
    have h2 : (List.replicate (mp - c.length) 0).filter (· != 0) = [] := by
      rw [List.filter_eq_nil_iff]; intro a ha; simp [(List.mem_replicate.mp ha).2]
    rw [h1, h2]; simp

theorem padSpec_dim1 {α} (cs : Cells α) : (shape3 (padSpec cs)).getD 1 0 = maxLen cs := by
  cases cs with
  | nil => rfl
  | cons c cs =>
    have : c.length ≤ maxLen (c :: cs) := le_maxLen _ c (by simp)
    simp only [shape3, padSpec_eq, List.map_cons, List.head?_cons, Option.map_some, Option.getD_some,
      List.getD_eq_getElem?_getD]
    simp only [padCell]
    rw [padTo_length _ _ _ (by simpa using this)]
    rfl

theorem length_eq_one_of_maxLen {α} (cs : Cells α) (h : WF cs) (h1 : maxLen cs = 1) : ∀ c ∈ cs, c.length = 1 := by
  intro c hc
  have := le_maxLen cs c hc
  have : c.length ≠ 0 := fun h0 => (h c hc).1 (List.length_eq_zero_iff.mp h0)
  omega

theorem eq_map_singleton {β} (cs : List (List β)) (h : ∀ c ∈ cs, c.length = 1) :
    cs = cs.flatten.map (fun p => [p]) := by
  induction cs with
  | nil => rfl
  | cons c cs ih =>
    have hc := h c (by simp)
    match c, hc with
    | [p], _ =>
      simp only [List.flatten_cons, List.singleton_append, List.map_cons]
      rw [← ih (fun c hc => h c (by simp [hc]))]

/-! ### cells ↔ count vectors -/

theorem labels_congr {β γ} : ∀ (a : List (List β)) (b : List (List γ)) (j : Nat),
    a.map List.length = b.map List.length → labels j a = labels j b := by
  intro a
  induction a with
  | nil => intro b j h; cases b with
    | nil => rfl
    | cons _ _ => simp at h
  | cons x a ih =>
    intro b j h
    cases b with
    | nil => simp at h
    | cons y b =>
      simp only [List.map_cons, List.cons.injEq] at h
      simp [labels, h.1, ih b (j + 1) h.2]

/-- The grouping of the count vectors of a geometry. -/
def countsOf {α} (cs : Cells α) : List (List Nat) := cs.map (fun c => c.map List.length)

theorem countsOf_flatten {α} (cs : Cells α) : (countsOf cs).flatten = partNodeCount cs := by
  simp [countsOf, partNodeCount, List.map_flatten]

theorem countsOf_sum {α} (cs : Cells α) : (countsOf cs).map List.sum = nodeCount cs := by
  simp [countsOf, nodeCount]

theorem countsOf_ne {α} (cs : Cells α) (h : WF cs) : ∀ c ∈ countsOf cs, c ≠ [] := by
  intro c hc
  obtain ⟨c', hc', rfl⟩ := List.mem_map.mp hc
  simpa using (h c' hc').1

theorem countsOf_pos {α} (cs : Cells α) (h : WF cs) : ∀ c ∈ countsOf cs, ∀ x ∈ c, 0 < x := by
  intro c hc x hx
  obtain ⟨c', hc', rfl⟩ := List.mem_map.mp hc
  obtain ⟨p, hp, rfl⟩ := List.mem_map.mp hx
  have : p ≠ [] := (h c' hc').2 p hp
  exact List.length_pos_iff.mpr this

theorem labels_countsOf {α} (cs : Cells α) (j : Nat) : labels j (countsOf cs) = labels j cs :=
  labels_map _ (by simp) cs j

theorem consistent_cells {α} (cs : Cells α) (h : WF cs) : Consistent (nodeCount cs) (partNodeCount cs) :=
  ⟨countsOf cs, countsOf_ne cs h, countsOf_pos cs h, countsOf_flatten cs, countsOf_sum cs⟩

theorem partIndex_cells {α} (cs : Cells α) (h : WF cs) :
    partIndex true (nodeCount cs) (partNodeCount cs) = labels 0 cs := by
  rw [← countsOf_flatten, ← countsOf_sum, partIndex_labels _ (countsOf_ne cs h) (countsOf_pos cs h),
    labels_countsOf]

theorem specAssign_cells {α} (cs : Cells α) (h : WF cs) :
    specAssign (nodeCount cs) (partNodeCount cs) = labels 0 cs := by
  rw [← countsOf_flatten, ← countsOf_sum, specAssign_labels _ (countsOf_ne cs h) (countsOf_pos cs h),
    labels_countsOf]

theorem splitBy_cells {α} (cs : Cells α) : splitBy (partNodeCount cs) (nodesOf cs) = cs.flatten :=
  splitBy_flatten cs.flatten

theorem range_map_getD' {β γ} (l : List β) (d : β) (f : β → γ) :
    (List.range l.length).map (fun i => f (l.getD i d)) = l.map f := by
  have := congrArg (List.map f) (range_map_getD l d)
  rw [List.map_map] at this
  exact this

theorem nodeCount_length {α} (cs : Cells α) : (nodeCount cs).length = cs.length := by simp [nodeCount]

theorem nodesOf_length {α} (cs : Cells α) : (nodesOf cs).length = (partNodeCount cs).sum := by
  simp only [nodesOf, partNodeCount]
  generalize cs.flatten = ps
  induction ps with
  | nil => rfl
  | cons p ps ih => simp [ih]

theorem nodeCount_sum {α} (cs : Cells α) : (nodeCount cs).sum = (partNodeCount cs).sum := by
  simp only [nodeCount, partNodeCount]
  induction cs with
  | nil => rfl
  | cons c cs ih => simp [List.sum_append, ih]

theorem wRing_padRows {β} (rs : List (List β)) : wRing (padRows rs) = rs.flatten := by
  simp only [wRing, padRows, List.filterMap_flatten, List.map_map]
  congr 1
  have : (List.filterMap id ∘ fun (r : List β) => padTo (maxLen rs) none (r.map some)) = id := by
    funext r; exact filterMap_id_padTo _ r
  rw [this]; simp

theorem maxLen_map_singleton {β} (ps : List β) : maxLen (ps.map (fun p => [p])) - 1 = 0 := by
  have := maxLen_le (ps.map (fun p => [p])) 1 (by
    intro r hr; obtain ⟨p, _, rfl⟩ := List.mem_map.mp hr; simp)
  omega

theorem splitBy_ones {β} (xs : List β) : splitBy (List.replicate xs.length 1) xs = xs.map (fun x => [x]) := by
  induction xs with
  | nil => rfl
  | cons x xs ih => simp [List.replicate_succ, splitBy, ih]

theorem flatten_map_singleton {β} (ps : List β) : (ps.map (fun p => [p])).flatten = ps := by
  induction ps with
  | nil => rfl
  | cons p ps ih => simp [ih]

theorem nodeCount_singletons {α} (ps : List (List α)) :
    nodeCount (ps.map (fun p => [p])) = ps.map List.length := by
  simp [nodeCount, List.map_map, Function.comp_def]

theorem nodesOf_singletons {α} (ps : List (List α)) : nodesOf (ps.map (fun p => [p])) = ps.flatten := by
  simp only [nodesOf, flatten_map_singleton]

theorem nodeCount_points {α} (xs : List α) :
    nodeCount (xs.map (fun x => [[x]])) = List.replicate xs.length 1 := by
  simp only [nodeCount, List.map_map]
  induction xs with
  | nil => rfl
  | cons x xs ih => simp [List.replicate_succ, ih]

theorem nodesOf_points {α} (xs : List α) : nodesOf (xs.map (fun x => [[x]])) = xs := by
  simp only [nodesOf]
  induction xs with
  | nil => rfl
  | cons x xs ih => simp [ih]

theorem pnc_eq_nc_of_single {α} (ps : List (List α)) :
    partNodeCount (ps.map (fun p => [p])) = nodeCount (ps.map (fun p => [p])) := by
  rw [nodeCount_singletons]
  simp only [partNodeCount, flatten_map_singleton]

end Cfdm.Geometry
