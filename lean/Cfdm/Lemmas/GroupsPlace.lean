/-
C11 — the group tree the writer builds (`buildTree`): what it holds where.
-/
import Cfdm.Lemmas.Groups

namespace Cfdm.Groups

/-- Does the group reached from `t` along `q` hold `n`? -/
def hasG (t : Grp) (q : Path) (sd : Bool) (n : Name) : Bool :=
  match sub t q with
  | some t' => t'.node.has sd n
  | none => false

/-- … from the child `g` of a forest. -/
def fhas (f : Forest) (g : Name) (q : Path) (sd : Bool) (n : Name) : Bool :=
  match f.find g with
  | none => false
  | some t => hasG t q sd n

theorem hasAt_eq_hasG (root : Grp) (q : Path) (sd : Bool) (n : Name) : hasAt root q sd n = hasG root q sd n := rfl

theorem hasG_nil (t : Grp) (sd : Bool) (n : Name) : hasG t [] sd n = t.node.has sd n := by
  simp [hasG, sub]

theorem hasG_cons (t : Grp) (g : Name) (q : Path) (sd : Bool) (n : Name) :
    hasG t (g :: q) sd n = fhas t.kids g q sd n := by
  unfold hasG fhas
  simp only [sub]
  cases t.kids.find g <;> simp [hasG]

/-- The group called `g` among the roots of `f`, an empty one if there is none. -/
def fget (f : Forest) (g : Name) : Grp := (f.find g).getD ⟨emptyNode g, .nil⟩

theorem emptyNode_has (g : Name) (sd : Bool) (n : Name) : (emptyNode g).has sd n = false := by
  cases sd <;> simp [emptyNode, Node.has]

theorem fhas_eq_fget (f : Forest) (g : Name) (q : Path) (sd : Bool) (n : Name) :
    fhas f g q sd n = hasG (fget f g) q sd n := by
  unfold fhas fget
  cases f.find g with
  | some t => simp
  | none =>
    simp only [Option.getD_none]
    cases q with
    | nil => simp [hasG_nil, emptyNode_has]
    | cons g' q' => simp [hasG_cons, fhas, Forest.find]

theorem find_modify_ne (g g' : Name) (fn : Option Grp → Grp) (hfn : ∀ o, (fn o).node.name = g)
    (f : Forest) (h : g' ≠ g) : (f.modify g fn).find g' = f.find g' := by
  have hg : ¬ g = g' := fun e => h e.symm
  induction f with
  | nil => simp [Forest.modify, Forest.find, hfn, hg]
  | cons m k r _ ihr =>
    by_cases e : m.name = g
    · have e2 : ¬ m.name = g' := by rw [e]; exact hg
      rw [Forest.modify, if_pos e, Forest.find, Forest.find, hfn, if_neg hg, if_neg e2]
    · rw [Forest.modify, if_neg e, Forest.find, Forest.find]
      by_cases e' : m.name = g'
      · rw [if_pos e', if_pos e']
      · rw [if_neg e', if_neg e', ihr]

theorem find_modify_eq (g : Name) (fn : Option Grp → Grp) (hfn : ∀ o, (fn o).node.name = g)
    (f : Forest) : (f.modify g fn).find g = some (fn (f.find g)) := by
  induction f with
  | nil => simp [Forest.modify, Forest.find, hfn]
  | cons m k r _ ihr =>
    by_cases e : m.name = g
    · rw [Forest.modify, if_pos e, Forest.find, hfn, if_pos rfl, Forest.find, if_pos e]
    · rw [Forest.modify, if_neg e, Forest.find, if_neg e, Forest.find, if_neg e, ihr]

theorem update_name (upd : Node → Node) (hname : ∀ m, (upd m).name = m.name) (p : Path) (t : Grp) :
    (t.update upd p).node.name = t.node.name := by
  cases p with
  | nil => simp [Grp.update, hname]
  | cons g p' => simp [Grp.update]

theorem find_name {f : Forest} {g : Name} {t : Grp} (h : f.find g = some t) : t.node.name = g := by
  induction f with
  | nil => simp [Forest.find] at h
  | cons m k r _ ihr =>
    unfold Forest.find at h
    by_cases e : m.name = g
    · simp only [e, ↓reduceIte, Option.some.injEq] at h
      rw [← h]; exact e
    · simp only [e, ↓reduceIte] at h
      exact ihr h

/-- What an update adds: `upd` only adds names, `extra sd n` says which. -/
theorem hasG_update (upd : Node → Node) (hname : ∀ m, (upd m).name = m.name) (extra : Bool → Name → Bool)
    (hupd : ∀ m sd n, (upd m).has sd n = (m.has sd n || extra sd n)) (sd : Bool) (n : Name) :
    ∀ (p : Path) (t : Grp) (q : Path),
      hasG (t.update upd p) q sd n = (hasG t q sd n || (decide (q = p) && extra sd n)) := by
  intro p
  induction p with
  | nil =>
    intro t q
    cases q with
    | nil => simp [Grp.update, hasG_nil, hupd]
    | cons g' q' => simp [Grp.update, hasG_cons]
  | cons g p' ih =>
    intro t q
    cases q with
    | nil => simp [Grp.update, hasG_nil]
    | cons g' q' =>
      simp only [Grp.update, hasG_cons]
      by_cases e : g' = g
      · subst e
        unfold fhas
        -- `find` after `modify`
        have key : (t.kids.modify g' (fun o => Grp.update upd (o.getD ⟨emptyNode g', .nil⟩) p')).find g' =
            some (Grp.update upd ((t.kids.find g').getD ⟨emptyNode g', .nil⟩) p') := by
          induction t.kids with
          | nil => simp [Forest.modify, Forest.find, update_name upd hname, emptyNode]
          | cons m k r _ ihr =>
            by_cases em : m.name = g'
            · rw [Forest.modify, if_pos em, Forest.find, update_name upd hname]
              simp [em, Forest.find]
            · rw [Forest.modify, if_neg em, Forest.find, if_neg em, Forest.find, if_neg em, ihr]
        rw [key]
        simp only
        rw [ih]
        cases hf : t.kids.find g' with
        | none =>
          simp only [Option.getD_none]
          have : hasG ⟨emptyNode g', .nil⟩ q' sd n = false := by
            cases q' with
            | nil => simp [hasG_nil, emptyNode_has]
            | cons g3 q3 => simp [hasG_cons, fhas, Forest.find]
          simp [this]
        | some t' => simp
      · have key : (t.kids.modify g (fun o => Grp.update upd (o.getD ⟨emptyNode g, .nil⟩) p')).find g' =
            t.kids.find g' := by
          have hg : ¬ g = g' := fun e' => e e'.symm
          induction t.kids with
          | nil => simp [Forest.modify, Forest.find, update_name upd hname, emptyNode, hg]
          | cons m k r _ ihr =>
            by_cases em : m.name = g
            · have e2 : ¬ m.name = g' := by rw [em]; exact hg
              rw [Forest.modify, if_pos em, Forest.find, update_name upd hname]
              simp [em, hg, Forest.find]
            · rw [Forest.modify, if_neg em, Forest.find, Forest.find]
              by_cases e' : m.name = g'
              · rw [if_pos e', if_pos e']
              · rw [if_neg e', if_neg e', ihr]
        unfold fhas
        rw [key]
        simp [e]

theorem hasAt_update (upd : Node → Node) (hname : ∀ m, (upd m).name = m.name) (extra : Bool → Name → Bool)
    (hupd : ∀ m sd n, (upd m).has sd n = (m.has sd n || extra sd n)) (t : Grp) (p q : Path) (sd : Bool) (n : Name) :
    hasAt (t.update upd p) q sd n = (hasAt t q sd n || (decide (q = p) && extra sd n)) := by
  rw [hasAt_eq_hasG, hasAt_eq_hasG]
  exact hasG_update upd hname extra hupd sd n p t q

theorem addDim_has (d : Name) (m : Node) (sd : Bool) (n : Name) :
    (addDim d m).has sd n = (m.has sd n || (sd && decide (n = d))) := by
  cases sd <;> simp [addDim, Node.has]

theorem addVar_has (v : Name) (s : Bool) (m : Node) (sd : Bool) (n : Name) :
    (addVar v s m).has sd n = (m.has sd n || (!sd && decide (n = v))) := by
  cases sd <;> simp [addVar, Node.has]

theorem hasAt_foldl_dims (ds : List PDim) (t : Grp) (q : Path) (sd : Bool) (n : Name) :
    hasAt (ds.foldl (fun t d => t.update (addDim d.base) d.grp) t) q sd n =
      (hasAt t q sd n || (sd && ds.any (fun d => decide (d.grp = q) && decide (n = d.base)))) := by
  induction ds generalizing t with
  | nil => simp
  | cons d ds ih =>
    simp only [List.foldl_cons, List.any_cons]
    rw [ih, hasAt_update (addDim d.base) (fun _ => rfl) (fun sd n => sd && decide (n = d.base)) (addDim_has d.base)]
    cases sd <;> simp [Bool.or_assoc, eq_comm]

theorem hasAt_foldl_vars (vs : List PVar) (t : Grp) (q : Path) (sd : Bool) (n : Name) :
    hasAt (vs.foldl (fun t v => t.update (addVar v.base v.dims.isEmpty) v.grp) t) q sd n =
      (hasAt t q sd n || (!sd && vs.any (fun v => decide (v.grp = q) && decide (n = v.base)))) := by
  induction vs generalizing t with
  | nil => simp
  | cons v vs ih =>
    simp only [List.foldl_cons, List.any_cons]
    rw [ih, hasAt_update (addVar v.base v.dims.isEmpty) (fun _ => rfl) (fun sd n => !sd && decide (n = v.base))
      (addVar_has v.base v.dims.isEmpty)]
    cases sd <;> simp [Bool.or_assoc, eq_comm]

theorem hasAt_emptyRoot (q : Path) (sd : Bool) (n : Name) : hasAt emptyRoot q sd n = false := by
  cases q with
  | nil => cases sd <;> simp [hasAt, sub, emptyRoot, Node.has]
  | cons g q' => simp [hasAt, sub, emptyRoot, Forest.find]

/-- The written file holds dimension `n` in group `q` iff the layout puts one there. -/
theorem hasAt_buildTree_dim (L : Layout) (q : Path) (n : Name) :
    hasAt (buildTree L) q true n = true ↔ ∃ d ∈ L.dims, d.grp = q ∧ d.base = n := by
  unfold buildTree
  rw [hasAt_foldl_vars, hasAt_foldl_dims, hasAt_emptyRoot]
  simp only [Bool.false_or, Bool.true_and, Bool.not_true, Bool.false_and, Bool.or_false, List.any_eq_true,
    Bool.and_eq_true, decide_eq_true_eq]
  constructor
  · rintro ⟨d, hd, h1, h2⟩; exact ⟨d, hd, h1, h2.symm⟩
  · rintro ⟨d, hd, h1, h2⟩; exact ⟨d, hd, h1, h2.symm⟩

/-- The written file holds variable `n` in group `q` iff the layout puts one there. -/
theorem hasAt_buildTree_var (L : Layout) (q : Path) (n : Name) :
    hasAt (buildTree L) q false n = true ↔ ∃ v ∈ L.vars, v.grp = q ∧ v.base = n := by
  unfold buildTree
  rw [hasAt_foldl_vars, hasAt_foldl_dims, hasAt_emptyRoot]
  simp only [Bool.false_or, Bool.false_and, Bool.not_false, Bool.true_and, List.any_eq_true,
    Bool.and_eq_true, decide_eq_true_eq]
  constructor
  · rintro ⟨v, hv, h1, h2⟩; exact ⟨v, hv, h1, h2.symm⟩
  · rintro ⟨v, hv, h1, h2⟩; exact ⟨v, hv, h1, h2.symm⟩

/-! ### helper lemmas of the property theorems -/

theorem hasAt_groupAt {root : Grp} {q : Path} {sd : Bool} {n : Name} (h : hasAt root q sd n = true) :
    groupAt root q = true := by
  unfold hasAt at h
  unfold groupAt
  cases hs : sub root q with
  | none => simp [hs] at h
  | some t => simp

theorem parseAbs_absName (p : Path) (n : Name) (hp : ∀ c ∈ p, NoSlash c) (hn : NoSlash n) :
    parseAbs (absName p n) = (p, n) := by
  unfold parseAbs
  rw [splitOn_absName p n hp hn]
  simp

theorem searchProx_plain_spec (root : Grp) (sd : Bool) (ref : Name) (p : Path) :
    (∀ q, searchProx root sd false ref p = some q ↔
      (q <+: p ∧ hasAt root q sd ref = true ∧
        ∀ q', q' <+: p → hasAt root q' sd ref = true → q'.length ≤ q.length)) ∧
    (searchProx root sd false ref p = none ↔ ∀ q, q <+: p → hasAt root q sd ref = false) := by
  unfold searchProx ascend
  rw [ascendWith_plain]
  constructor
  · intro q
    rw [firstUp_some]
    constructor
    · rintro ⟨h1, h2, h3⟩
      refine ⟨List.reverse_suffix.mp h1, h2, ?_⟩
      intro q' hq' hh
      have := h3 q'.reverse (List.reverse_suffix.mpr hq') (by simpa using hh)
      simpa using this
    · rintro ⟨h1, h2, h3⟩
      refine ⟨List.reverse_suffix.mpr h1, h2, ?_⟩
      intro s hs hh
      have : s.reverse <+: p := by
        have := List.reverse_suffix.mp (by simpa using hs : s.reverse.reverse <:+ p.reverse)
        exact this
      simpa using h3 s.reverse this hh
  · rw [firstUp_none]
    constructor
    · intro h q hq
      simpa using h q.reverse (List.reverse_suffix.mpr hq)
    · intro h s hs
      have : s.reverse <+: p :=
        List.reverse_suffix.mp (by simpa using hs : s.reverse.reverse <:+ p.reverse)
      exact h s.reverse this

/-- The stop condition of the coordinate rule: the group holds the element or defines a
dimension of that name (the local apex). -/
def stops (root : Grp) (sd : Bool) (ref : Name) (a : Path) : Bool :=
  hasAt root a sd ref || hasAt root a true ref

/-- `a` is the nearest enclosing group of `p` at which the coordinate search stops. -/
def IsStop (root : Grp) (sd : Bool) (ref : Name) (p a : Path) : Prop :=
  a <+: p ∧ stops root sd ref a = true ∧ ∀ a', a' <+: p → stops root sd ref a' = true → a'.length ≤ a.length

theorem searchProx_coord_spec (root : Grp) (sd : Bool) (ref : Name) (p : Path) :
    (∀ q, searchProx root sd true ref p = some q →
      ∃ a, IsStop root sd ref p a ∧
        ((hasAt root a sd ref = true ∧ q = a) ∨
         (hasAt root a sd ref = false ∧ ∃ rel m, q = a ++ rel ∧ Occ (kidsAt root a) rel m ∧ m.has sd ref = true ∧
            ∀ rel' m', Occ (kidsAt root a) rel' m' → m'.has sd ref = true → rel.length ≤ rel'.length))) ∧
    (searchProx root sd true ref p = none →
      (∀ a, a <+: p → stops root sd ref a = false) ∨
      (∃ a, IsStop root sd ref p a ∧ hasAt root a sd ref = false ∧
        ∀ rel m, Occ (kidsAt root a) rel m → m.has sd ref = false)) := by
  have conv : ∀ a, firstUp (fun q => hasAt root q sd ref || hasAt root q true ref) p.reverse = some a →
      IsStop root sd ref p a := by
    intro a ha
    rw [firstUp_some] at ha
    obtain ⟨h1, h2, h3⟩ := ha
    refine ⟨List.reverse_suffix.mp h1, h2, ?_⟩
    intro a' ha' hs
    have := h3 a'.reverse (List.reverse_suffix.mpr ha') (by simpa [stops] using hs)
    simpa using this
  unfold searchProx ascend
  rw [ascendWith_coord]
  constructor
  · intro q h
    cases hf : firstUp (fun q => hasAt root q sd ref || hasAt root q true ref) p.reverse with
    | none => simp [hf] at h
    | some a =>
      simp only [hf] at h
      refine ⟨a, conv a hf, ?_⟩
      by_cases hh : hasAt root a sd ref = true
      · simp only [hh, ↓reduceIte, Option.some.injEq] at h
        exact Or.inl ⟨hh, h.symm⟩
      · simp only [hh, Bool.false_eq_true, ↓reduceIte] at h
        obtain ⟨rel, m, h1, h2, h3, h4⟩ := bfs_some sd ref a _ q h
        exact Or.inr ⟨by simpa using hh, rel, m, h1, h2, h3, h4⟩
  · intro h
    cases hf : firstUp (fun q => hasAt root q sd ref || hasAt root q true ref) p.reverse with
    | none =>
      left
      rw [firstUp_none] at hf
      intro a ha
      simpa [stops] using hf a.reverse (List.reverse_suffix.mpr ha)
    | some a =>
      right
      simp only [hf] at h
      by_cases hh : hasAt root a sd ref = true
      · simp [hh] at h
      · simp only [hh, Bool.false_eq_true, ↓reduceIte] at h
        exact ⟨a, conv a hf, by simpa using hh, bfs_none sd ref a _ h⟩

theorem fullName_nil (n : Name) : fullName [] n = n := by simp [fullName, joinWith]

theorem flatNameOld_short (h : List Char → List Char) (p : Path) (n : Name)
    (s : (fullName p n).length < 256) : flatNameOld h p n = fullName p n := by
  cases p with
  | nil => simp [flatNameOld, fullName_nil]
  | cons c cs =>
    have : ¬ (fullName (c :: cs) n).length ≥ 256 := by omega
    simp [flatNameOld, this]

theorem flatName_short (h : List Char → List Char) (u : List (List Char)) (p : Path) (n : Name)
    (s : (fullName p n).length < 256) (hu : fullName p n ∉ u) : flatName h u p n = fullName p n := by
  cases p with
  | nil => simp [flatName, fullName_nil]
  | cons c cs =>
    have : ¬ (fullName (c :: cs) n).length ≥ 256 := by omega
    simp [flatName, this, hu]

theorem dimVisible_ncName (pv pd : Path) (bv bd : Name)
    (hv : ∀ c ∈ pv, NoSlash c) (hd : ∀ c ∈ pd, NoSlash c) (hbv : NoSlash bv) (hbd : NoSlash bd) :
    dimVisible (ncName pv bv) (ncName pd bd) = true ↔ pd <+: pv := by
  unfold dimVisible
  rw [groupsStr_ncName pv bv hv hbv, groupsStr_ncName pd bd hd hbd, List.isPrefixOf_iff_prefix]
  exact render_prefix_iff pd pv hd hv

theorem prefix_eq_of_length {α} {a b c : List α} (ha : a <+: c) (hb : b <+: c) (h : a.length = b.length) : a = b := by
  have := List.prefix_of_prefix_length_le ha hb (by omega)
  exact List.IsPrefix.eq_of_length this h

theorem noSlash_bare {b : Name} (hb : NoSlash b) : b.head? ≠ some '/' ∧ b.contains '/' = false := by
  constructor
  · intro h
    cases b with
    | nil => simp at h
    | cons x xs => simp at h; apply hb; simp [h]
  · simpa [NoSlash] using hb

theorem searchProx_root_plain (root : Grp) (sd : Bool) (ref : Name) (p : Path)
    (h0 : hasAt root [] sd ref = true)
    (hs : ∀ q, q <+: p → hasAt root q sd ref = true → q = []) :
    searchProx root sd false ref p = some [] := by
  apply ((searchProx_plain_spec root sd ref p).1 []).mpr
  refine ⟨List.nil_prefix, h0, ?_⟩
  intro q' hq' hh
  rw [hs q' hq' hh]; simp

theorem searchProx_root_coord (root : Grp) (sd : Bool) (ref : Name) (p : Path)
    (h0 : hasAt root [] sd ref = true)
    (hs : ∀ q, q <+: p → stops root sd ref q = true → q = []) :
    searchProx root sd true ref p = some [] := by
  have hlat := searchProx_coord_spec root sd ref p
  cases hr : searchProx root sd true ref p with
  | none =>
    rcases hlat.2 hr with hall | ⟨a, ha, hf, _⟩
    · have := hall [] List.nil_prefix
      simp [stops, h0] at this
    · have : a = [] := hs a ha.1 ha.2.1
      rw [this, h0] at hf; exact absurd hf (by simp)
  | some q =>
    obtain ⟨a, ha, hcase⟩ := hlat.1 q hr
    have ea : a = [] := hs a ha.1 ha.2.1
    rcases hcase with ⟨_, hq⟩ | ⟨hf, _⟩
    · rw [hq, ea]
    · rw [ea, h0] at hf; exact absurd hf (by simp)

/-! ### group attributes -/

theorem alookup_filter {β : Type} (l : List (Name × β)) (keep : Name → Bool) (a : Name) :
    alookup (l.filter (fun kv => keep kv.1)) a = if keep a then alookup l a else none := by
  induction l with
  | nil => simp [alookup]
  | cons kv rest ih =>
    obtain ⟨k, v⟩ := kv
    by_cases hk : keep k = true
    · simp only [List.filter_cons, hk, ↓reduceIte, alookup]
      by_cases e : k = a
      · subst e; simp [hk]
      · simp [e, ih]
    · simp only [List.filter_cons, hk, Bool.false_eq_true, ↓reduceIte, alookup]
      by_cases e : k = a
      · subst e; simp [hk, ih]
      · simp [e, ih]

theorem alookup_groupWritten (P : List (Name × Name)) (GA : List (Name × Option Name)) (a : Name) :
    alookup (groupWritten P GA) a =
      match alookup GA a, alookup P a with
      | some v, some pv => some (v.getD pv)
      | _, _ => none := by
  induction GA with
  | nil => simp [groupWritten, alookup]
  | cons kv rest ih =>
    obtain ⟨k, v⟩ := kv
    unfold groupWritten
    by_cases e : k = a
    · subst e
      cases hp : alookup P k with
      | none =>
        simp only [alookup, ↓reduceIte]
        rw [ih]; simp [hp]
      | some pv => simp [alookup]
    · cases hp : alookup P k with
      | none => simp only [alookup, e, ↓reduceIte]; exact ih
      | some pv => simp only [alookup, e, ↓reduceIte]; exact ih

/-! ### the reader's coordinate-variable search; group attributes with globals -/

theorem firstMax_none {l : List Path} : firstMax l = none ↔ l = [] := by
  cases l with
  | nil => simp [firstMax]
  | cons c cs =>
    simp only [firstMax]
    cases firstMax cs with
    | none => simp
    | some m => by_cases h : m.length > c.length <;> simp [h]

theorem firstMax_some {l : List Path} {m : Path} (h : firstMax l = some m) :
    m ∈ l ∧ ∀ c ∈ l, c.length ≤ m.length := by
  induction l generalizing m with
  | nil => simp [firstMax] at h
  | cons c cs ih =>
    simp only [firstMax] at h
    cases hm : firstMax cs with
    | none =>
      have : cs = [] := firstMax_none.mp hm
      simp only [hm, Option.some.injEq] at h
      subst h; subst this
      simp
    | some m' =>
      obtain ⟨h1, h2⟩ := ih hm
      simp only [hm] at h
      by_cases hc : m'.length > c.length
      · simp only [hc, ↓reduceIte, Option.some.injEq] at h
        subst h
        refine ⟨by simp [h1], ?_⟩
        intro x hx
        rcases List.mem_cons.mp hx with rfl | hx
        · omega
        · exact h2 x hx
      · simp only [hc, ↓reduceIte, Option.some.injEq] at h
        subst h
        refine ⟨by simp, ?_⟩
        intro x hx
        rcases List.mem_cons.mp hx with rfl | hx
        · omega
        · have := h2 x hx; omega

theorem firstMin_none {l : List Path} : firstMin l = none ↔ l = [] := by
  cases l with
  | nil => simp [firstMin]
  | cons c cs =>
    simp only [firstMin]
    cases firstMin cs with
    | none => simp
    | some m => by_cases h : m.length < c.length <;> simp [h]

theorem firstMin_some {l : List Path} {m : Path} (h : firstMin l = some m) :
    m ∈ l ∧ ∀ c ∈ l, m.length ≤ c.length := by
  induction l generalizing m with
  | nil => simp [firstMin] at h
  | cons c cs ih =>
    simp only [firstMin] at h
    cases hm : firstMin cs with
    | none =>
      have : cs = [] := firstMin_none.mp hm
      simp only [hm, Option.some.injEq] at h
      subst h; subst this
      simp
    | some m' =>
      obtain ⟨h1, h2⟩ := ih hm
      simp only [hm] at h
      by_cases hc : m'.length < c.length
      · simp only [hc, ↓reduceIte, Option.some.injEq] at h
        subst h
        refine ⟨by simp [h1], ?_⟩
        intro x hx
        rcases List.mem_cons.mp hx with rfl | hx
        · omega
        · exact h2 x hx
      · simp only [hc, ↓reduceIte, Option.some.injEq] at h
        subst h
        refine ⟨by simp, ?_⟩
        intro x hx
        rcases List.mem_cons.mp hx with rfl | hx
        · omega
        · have := h2 x hx; omega

/-- `c` is a candidate: a same-named variable spanning the dimension, in the dimension's group
or below it. -/
def IsCand (dg : Path) (cs : List Path) (c : Path) : Prop := c ∈ cs ∧ dg <+: c

/-- CF 2.7.1 for the coordinate variable of a dimension: the candidate nearest to the data
variable among its own group and its ancestors (proximal); if there is none there, the
candidate strictly nearest to the local apex (lateral, unambiguous). -/
def Designated (fg dg : Path) (cs : List Path) (q : Path) : Prop :=
  IsCand dg cs q ∧
  ((q <+: fg ∧ ∀ c, IsCand dg cs c → c <+: fg → c.length ≤ q.length) ∨
   ((∀ c, IsCand dg cs c → ¬ c <+: fg) ∧ ∀ c, IsCand dg cs c → c ≠ q → q.length < c.length))

theorem findCoordVar_spec (apexVar : Bool) (fg dg : Path) (cs : List Path)
    (hnd : cs.Nodup) (hapex : apexVar = true → dg ∈ cs) :
    (∀ q, findCoordVar apexVar fg dg cs = some q → Designated fg dg cs q) ∧
    (findCoordVar apexVar fg dg cs = none → ∀ q, ¬ Designated fg dg cs q) := by
  unfold findCoordVar
  by_cases hs : (apexVar && fg == dg) = true
  · simp only [hs, ↓reduceIte, Option.some.injEq, reduceCtorEq, false_imp_iff, and_true]
    simp only [Bool.and_eq_true, beq_iff_eq] at hs
    obtain ⟨ha, hfg⟩ := hs
    rintro q rfl
    refine ⟨⟨hapex ha, List.prefix_refl _⟩, Or.inl ⟨by rw [hfg]; exact List.prefix_refl _, ?_⟩⟩
    intro c _ hc
    rw [hfg] at hc
    exact List.IsPrefix.length_le hc
  · simp only [hs, Bool.false_eq_true, ↓reduceIte]
    -- membership in the three filtered lists
    have mem_cands : ∀ c, c ∈ cs.filter (fun c => dg.isPrefixOf c) ↔ IsCand dg cs c := by
      intro c; simp [IsCand, List.mem_filter]
    have mem_prox : ∀ c, c ∈ (cs.filter (fun c => dg.isPrefixOf c)).filter (fun c => c.isPrefixOf fg) ↔
        (IsCand dg cs c ∧ c <+: fg) := by
      intro c; rw [List.mem_filter, mem_cands]; simp
    have mem_lat : ∀ c, c ∈ (cs.filter (fun c => dg.isPrefixOf c)).filter (fun c => !c.isPrefixOf fg) ↔
        (IsCand dg cs c ∧ ¬ c <+: fg) := by
      intro c; rw [List.mem_filter, mem_cands]
      simp [← List.isPrefixOf_iff_prefix]
    have nd_lat : ((cs.filter (fun c => dg.isPrefixOf c)).filter (fun c => !c.isPrefixOf fg)).Nodup :=
      (hnd.filter _).filter _
    cases hp : firstMax ((cs.filter (fun c => dg.isPrefixOf c)).filter (fun c => c.isPrefixOf fg)) with
    | some q0 =>
      simp only [Option.some.injEq, reduceCtorEq, false_imp_iff, and_true]
      rintro q rfl
      obtain ⟨h1, h2⟩ := firstMax_some hp
      obtain ⟨hc, hpre⟩ := (mem_prox _).mp h1
      exact ⟨hc, Or.inl ⟨hpre, fun c hcc hcp => h2 c ((mem_prox c).mpr ⟨hcc, hcp⟩)⟩⟩
    | none =>
      have hnoprox : ∀ c, IsCand dg cs c → ¬ c <+: fg := by
        intro c hc hcp
        have := firstMax_none.mp hp
        have hm := (mem_prox c).mpr ⟨hc, hcp⟩
        rw [this] at hm; simp at hm
      simp only
      cases hl : firstMin ((cs.filter (fun c => dg.isPrefixOf c)).filter (fun c => !c.isPrefixOf fg)) with
      | none =>
        simp only [reduceCtorEq, false_imp_iff, implies_true, true_and, forall_const]
        intro q hq
        have := firstMin_none.mp hl
        have hm := (mem_lat q).mpr ⟨hq.1, hnoprox q hq.1⟩
        rw [this] at hm; simp at hm
      | some a =>
        obtain ⟨ha1, ha2⟩ := firstMin_some hl
        obtain ⟨hac, _⟩ := (mem_lat a).mp ha1
        simp only
        cases he : firstMin (((cs.filter (fun c => dg.isPrefixOf c)).filter (fun c => !c.isPrefixOf fg)).erase a) with
        | none =>
          simp only [Option.some.injEq, reduceCtorEq, false_imp_iff, and_true]
          rintro q rfl
          refine ⟨hac, Or.inr ⟨hnoprox, ?_⟩⟩
          intro c hc hne
          have hm := (mem_lat c).mpr ⟨hc, hnoprox c hc⟩
          have := (List.mem_erase_of_ne hne).mpr hm
          rw [firstMin_none.mp he] at this; simp at this
        | some b =>
          obtain ⟨hb1, hb2⟩ := firstMin_some he
          have hbne : b ≠ a := ((List.Nodup.mem_erase_iff nd_lat).mp hb1).1
          have hbl := List.mem_of_mem_erase hb1
          obtain ⟨hbc, _⟩ := (mem_lat b).mp hbl
          by_cases hlt : a.length < b.length
          · simp only [hlt, ↓reduceIte, Option.some.injEq, reduceCtorEq, false_imp_iff, and_true]
            rintro q rfl
            refine ⟨hac, Or.inr ⟨hnoprox, ?_⟩⟩
            intro c hc hne
            have hm := (mem_lat c).mpr ⟨hc, hnoprox c hc⟩
            have := hb2 c ((List.mem_erase_of_ne hne).mpr hm)
            omega
          · simp only [hlt, ↓reduceIte, reduceCtorEq, false_imp_iff, implies_true, true_and, forall_const]
            rintro q ⟨hqc, hq⟩
            rcases hq with ⟨hqp, _⟩ | ⟨_, hq⟩
            · exact hnoprox q hqc hqp
            · by_cases e : q = a
              · subst e
                have := hq b hbc hbne
                omega
              · have h1 := hq a hac (fun h => e h.symm)
                have h2 := ha2 q ((mem_lat q).mpr ⟨hqc, hnoprox q hqc⟩)
                omega

/-! group attributes with globals -/

theorem readProp3_writeProps (fieldGrp : Path) (G : List Name) (P : List (Name × Name))
    (GA : List (Name × Option Name)) (a : Name) :
    readProp3 (writeProps fieldGrp G P GA) a = alookup P a := by
  unfold readProp3 writeProps
  simp only
  rw [alookup_filter P (fun k => !omitted fieldGrp G GA k) a, alookup_filter P (fun k => G.contains k) a]
  unfold omitted
  by_cases hroot : fieldGrp.isEmpty = true
  · simp only [hroot, ↓reduceIte]
    by_cases hg : a ∈ G
    · cases hp : alookup P a <;> simp [hg, alookup]
    · cases hp : alookup P a <;> simp [hg, alookup]
  · simp only [hroot, Bool.false_eq_true, ↓reduceIte]
    rw [alookup_groupWritten]
    cases hga : alookup GA a with
    | none =>
      by_cases hg : a ∈ G
      · cases hp : alookup P a <;> simp [hg]
      · cases hp : alookup P a <;> simp [hg]
    | some v =>
      cases v with
      | none => cases hp : alookup P a <;> simp
      | some gv => cases hp : alookup P a <;> simp

end Cfdm.Groups
