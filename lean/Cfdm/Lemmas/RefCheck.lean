import Cfdm.Model.RefCheck
/-!
Helper lemmas for C13: which look-ups of the patched reader cannot fail.
-/
namespace Cfdm.RefCheck

/-- The computation did not raise. -/
def IsOk {α} (x : Except Err α) : Prop := ∃ a, x = .ok a

theorem isOk_ok {α} (a : α) : IsOk (.ok a : Except Err α) := ⟨a, rfl⟩
theorem isOk_pure {α} (a : α) : IsOk (pure a : Except Err α) := ⟨a, rfl⟩

theorem isOk_bind {α β} {x : Except Err α} {f : α → Except Err β}
    (hx : IsOk x) (hf : ∀ a, x = .ok a → IsOk (f a)) : IsOk (x >>= f) := by
  obtain ⟨a, ha⟩ := hx
  subst ha
  exact hf a rfl

theorem isOk_iff_errOf {α} (x : Except Err α) : IsOk x ↔ errOf x = none := by
  cases x with
  | error e => simp [IsOk, errOf]
  | ok a => simp [IsOk, errOf]

theorem foldlM_isOk {σ α} (f : σ → α → Except Err σ) (Q : α → Prop)
    (h : ∀ s a, Q a → IsOk (f s a)) : ∀ (l : List α) (s : σ), (∀ a ∈ l, Q a) → IsOk (l.foldlM f s)
  | [], s, _ => ⟨s, rfl⟩
  | a :: l, s, hl => by
    rw [List.foldlM_cons]
    apply isOk_bind (h s a (hl a (by simp)))
    intro s' _
    exact foldlM_isOk f Q h l s' (fun b hb => hl b (by simp [hb]))

theorem foldlM_isOk' {σ α} (f : σ → α → Except Err σ) (h : ∀ s a, IsOk (f s a)) (l : List α) (s : σ) :
    IsOk (l.foldlM f s) :=
  foldlM_isOk f (fun _ => True) (fun s a _ => h s a) l s (fun _ _ => trivial)

theorem hasVar_of_var {F : NcFile} {n : String} {v : NcVar} (h : F.var? n = some v) : F.hasVar n = true := by
  simp [NcFile.hasVar, h]

theorem var_of_hasVar {F : NcFile} {n : String} (h : F.hasVar n = true) : ∃ v, F.var? n = some v := by
  unfold NcFile.hasVar at h
  cases hv : F.var? n with
  | none => simp [hv] at h
  | some v => exact ⟨v, rfl⟩

theorem ncdims_of_var {F : NcFile} (P : Pre) {n : String} {v : NcVar} (h : F.var? n = some v) :
    ncdims F P n = .ok (applyComp P.comp (rawDims v)) := by
  simp [ncdims, ncdims?, h, getOr]

theorem ncdims_isOk {F : NcFile} (P : Pre) {n : String} (h : F.hasVar n = true) : IsOk (ncdims F P n) := by
  obtain ⟨v, hv⟩ := var_of_hasVar h
  exact ⟨_, ncdims_of_var P hv⟩

theorem dimsSubset_patched (v : NcVar) (dims parent : List String) :
    dimsSubset patched v dims parent = dims.all parent.contains := by
  simp [dimsSubset, patched]

/-! ### `_check_bounds`: the guard `bounds_ncvar not in g['internal_variables']` protects both look-ups -/

theorem checkBounds_isOk (F : NcFile) (P : Pre) (coord attr b : String) (hc : F.hasVar coord = true) :
    IsOk (checkBounds F P coord attr b) := by
  unfold checkBounds
  by_cases hb : F.hasVar b = true
  · obtain ⟨cv, hcv⟩ := var_of_hasVar hc
    obtain ⟨bv, hbv⟩ := var_of_hasVar hb
    simp only [hb, Bool.not_true, Bool.false_eq_true, ↓reduceIte, ncdims_of_var P hcv, ncdims_of_var P hbv]
    simp only [bind, Except.bind]
    split <;> exact ⟨_, rfl⟩
  · simp only [hb, Bool.not_false, ↓reduceIte]
    exact ⟨_, rfl⟩

theorem checkNodes_isOk (F : NcFile) (parent : String) (coord : Option String) (g : Geom) (b : String) :
    IsOk (checkNodes patched F parent coord g b) := by
  unfold checkNodes
  simp only [patched, Bool.not_true, Bool.and_false, Bool.false_and, Bool.false_eq_true, ↓reduceIte]
  split
  · exact ⟨_, rfl⟩
  · split <;> exact ⟨_, rfl⟩

end Cfdm.RefCheck

namespace Cfdm.RefCheck

theorem boundsPick_nodes (F : NcFile) (P : Pre) (parent : String) (ncvar given : Option String) (nodesOnly : Bool)
    (h : (boundsPick F P parent ncvar given nodesOnly).2 = "nodes") :
    nodesOnly = true ∨ (geomOf P parent).isSome = true := by
  unfold boundsPick at h
  cases given with
  | some g =>
    by_cases hno : nodesOnly = true
    · exact Or.inl hno
    · simp [hno] at h
  | none =>
    simp only at h
    split at h
    · simp at h
    · split at h
      · simp at h
      · split at h
        · rename_i hg; exact Or.inr hg
        · simp at h

theorem boundsPick_none_ncvar (F : NcFile) (P : Pre) (parent : String) (given : Option String) (nodesOnly : Bool)
    (h : (boundsPick F P parent none given nodesOnly).2 ≠ "nodes") :
    (boundsPick F P parent none given nodesOnly).1 = none ∨ (given.isSome = true ∧ nodesOnly = false) := by
  unfold boundsPick at h ⊢
  cases given with
  | some g =>
    by_cases hno : nodesOnly = true
    · simp [hno] at h
    · right; simp [hno]
  | none =>
    left
    simp only [List.lookup]
    split <;> rfl

/-- The bounds decision never raises when the construct's own variable exists (or it is a
node-only coordinate of a registered geometry). -/
theorem boundsOf_isOk (F : NcFile) (P : Pre) (parent : String) (ncvar given : Option String) (nodesOnly : Bool)
    (hn : ∀ n, ncvar = some n → F.hasVar n = true)
    (hnone : ncvar = none → nodesOnly = true)
    (hgeo : nodesOnly = true → (geomOf P parent).isSome = true) :
    IsOk (boundsOf patched F P parent ncvar given nodesOnly) := by
  unfold boundsOf
  simp only
  split
  · exact ⟨_, rfl⟩
  · rename_i b hb
    split
    · exact ⟨_, rfl⟩
    · split
      · rename_i hattr
        have hattr' : (boundsPick F P parent ncvar given nodesOnly).2 = "nodes" := by simpa using hattr
        have hg : (geomOf P parent).isSome = true := by
          rcases boundsPick_nodes F P parent ncvar given nodesOnly hattr' with h | h
          · exact hgeo h
          · exact h
        cases hgeom : geomOf P parent with
        | none => simp [hgeom] at hg
        | some g =>
          simp only
          obtain ⟨r, hr⟩ := checkNodes_isOk F parent ncvar g b
          rw [hr]
          exact ⟨_, rfl⟩
      · rename_i hattr
        have hattr' : (boundsPick F P parent ncvar given nodesOnly).2 ≠ "nodes" := by simpa using hattr
        cases ncvar with
        | none =>
          exfalso
          have hno := hnone rfl
          rcases boundsPick_none_ncvar F P parent given nodesOnly hattr' with h | h
          · rw [h] at hb; simp at hb
          · rw [hno] at h; simp at h
        | some n =>
          obtain ⟨r, hr⟩ := checkBounds_isOk F P n (boundsPick F P parent (some n) given nodesOnly).2 b (hn n rfl)
          simp only [Option.getD_some, hr]
          exact ⟨_, rfl⟩

end Cfdm.RefCheck

namespace Cfdm.RefCheck

theorem stageDims_isOk (F : NcFile) (P : Pre) (v : String) (D : List String) (s : FSt) :
    IsOk (stageDims patched F P v D s) := by
  unfold stageDims
  apply foldlM_isOk'
  intro s d
  simp only
  split
  · rename_i cv hcv
    split
    · split
      · exact ⟨_, rfl⟩
      · have hb := boundsOf_isOk F P v (some d) none false
          (fun n hn => by cases hn; exact hasVar_of_var hcv) (by simp) (by simp)
        apply isOk_bind hb
        intro a _
        exact ⟨_, rfl⟩
    · exact ⟨_, rfl⟩
  · exact ⟨_, rfl⟩

theorem auxToken_isOk (F : NcFile) (P : Pre) (v : String) (D : List String) (s : FSt) (tok : String) :
    IsOk (auxToken patched F P v D s tok) := by
  unfold auxToken
  split
  · exact ⟨_, rfl⟩
  · split
    · exact ⟨_, rfl⟩
    · rename_i cv hcv
      rw [ncdims_of_var P hcv]
      simp only [bind, Except.bind]
      split
      · exact ⟨_, rfl⟩
      · rename_i hsub
        have hall : (applyComp P.comp (rawDims cv)).all D.contains = true := by
          rw [dimsSubset_patched] at hsub; simpa using hsub
        simp only [hall, Bool.not_true, Bool.false_eq_true, ↓reduceIte]
        split
        · -- cached
          simp only [pure, Except.pure]
          split
          · split <;> exact ⟨_, rfl⟩
          · exact ⟨_, rfl⟩
        · -- created
          obtain ⟨r, hr⟩ := boundsOf_isOk F P v (some tok) none false
            (fun n hn => by cases hn; exact hasVar_of_var hcv) (by simp) (by simp)
          simp only [hr, pure, Except.pure]
          split
          · split <;> exact ⟨_, rfl⟩
          · exact ⟨_, rfl⟩

theorem stageAux_isOk (F : NcFile) (P : Pre) (v : String) (D : List String) (vv : NcVar) (s : FSt) :
    IsOk (stageAux patched F P v D vv s) := by
  unfold stageAux
  exact foldlM_isOk' _ (fun s a => auxToken_isOk F P v D s a) _ _

end Cfdm.RefCheck

namespace Cfdm.RefCheck

/-- What the (patched) geometry pre-scan guarantees for a parent variable: only completely
parsed containers are registered and the geometry dimension is one of the parent's. -/
def geomReadyB (P : Pre) (v : String) (D : List String) : Bool :=
  match geomOf P v with
  | none => true
  | some g => g.complete && D.contains g.geomDim

def GeomReady (P : Pre) (v : String) (D : List String) : Prop := geomReadyB P v D = true

theorem stageNodes_isOk (F : NcFile) (P : Pre) (v : String) (D : List String) (s : FSt)
    (hg : GeomReady P v D) : IsOk (stageNodes patched F P v D s) := by
  unfold stageNodes
  split
  · exact ⟨_, rfl⟩
  · rename_i g hgeo
    have hcd : g.complete = true ∧ D.contains g.geomDim = true := by
      unfold GeomReady geomReadyB at hg
      rw [hgeo] at hg
      simpa using hg
    obtain ⟨hc, hd⟩ := hcd
    simp only [hc, Bool.not_true, Bool.false_eq_true, ↓reduceIte]
    apply foldlM_isOk'
    intro s n
    split
    · exact ⟨_, rfl⟩
    · simp only [bind, Except.bind, hd, Bool.not_true, Bool.false_eq_true, ↓reduceIte]
      split
      · exact ⟨_, rfl⟩
      · obtain ⟨r, hr⟩ := boundsOf_isOk F P v none (some n) true (by simp) (by simp) (by simp [hgeo])
        simp only [hr]
        exact ⟨_, rfl⟩

theorem checked_grid_isOk (F : NcFile) (v : String) (xs : List (String × List String)) :
    ∃ keep ms, checked patched (fun xs => .ok (checkGridMapping F v xs)) xs = .ok (keep, ms) ∧
      ∀ x ∈ keep, F.hasVar x.1 = true := by
  unfold checked
  by_cases he : xs.isEmpty = true
  · simp only [patched, he, Bool.not_true, Bool.and_false, Bool.false_eq_true, ↓reduceIte, allOrNothing]
    refine ⟨_, _, rfl, ?_⟩
    have : xs = [] := by simpa using he
    subst this
    simp [checkGridMapping]
  · simp only [patched, he, Bool.not_false, Bool.and_self, ↓reduceIte]
    clear he
    induction xs with
    | nil => exact ⟨[], [], rfl, by simp⟩
    | cons x xs ih =>
      obtain ⟨keep, ms, hk, hall⟩ := ih
      simp only [perEntry, hk]
      refine ⟨_, _, rfl, ?_⟩
      intro y hy
      split at hy
      · rename_i hok
        rcases List.mem_cons.mp hy with h | h
        · subst h
          unfold checkGridMapping at hok
          by_cases hv : F.hasVar y.1 = true
          · exact hv
          · simp [hv] at hok
        · exact hall y h
      · exact hall y hy

theorem stageGridMapping_isOk (F : NcFile) (v : String) (vv : NcVar) (s : FSt) :
    IsOk (stageGridMapping patched F v vv s) := by
  unfold stageGridMapping
  split
  · exact ⟨_, rfl⟩
  · rename_i gm _
    obtain ⟨keep, ms, hk, hall⟩ := checked_grid_isOk F v (parseX gm)
    rw [hk]
    simp only
    apply foldlM_isOk _ (fun x => F.hasVar x.1 = true)
    · intro s x hx
      obtain ⟨xv, hxv⟩ := var_of_hasVar hx
      have hg : patched.gmReport = true := rfl
      unfold gmEntry
      simp only [hxv, getOr, bind, Except.bind, hg, ↓reduceIte]
      split <;> exact ⟨_, rfl⟩
    · exact hall

end Cfdm.RefCheck

namespace Cfdm.RefCheck

/-- Entry-by-entry checking keeps exactly entries whose own check passed. -/
theorem perEntry_ok {α} (chk : List α → Except Err (Bool × List Msg)) (Q : α → Prop)
    (h : ∀ x, ∃ r, chk [x] = .ok r ∧ (r.1 = true → Q x)) :
    ∀ xs, ∃ keep ms, perEntry chk xs = .ok (keep, ms) ∧ ∀ x ∈ keep, Q x
  | [] => ⟨[], [], rfl, by simp⟩
  | x :: xs => by
    obtain ⟨keep, ms, hk, hall⟩ := perEntry_ok chk Q h xs
    obtain ⟨r, hr, hq⟩ := h x
    simp only [perEntry, hr, hk]
    refine ⟨_, _, rfl, ?_⟩
    intro y hy
    split at hy
    · rename_i hok
      rcases List.mem_cons.mp hy with e | e
      · subst e; exact hq hok
      · exact hall y e
    · exact hall y hy

theorem checked_patched_ok {α} (chk : List α → Except Err (Bool × List Msg)) (Q : α → Prop)
    (h : ∀ x, ∃ r, chk [x] = .ok r ∧ (r.1 = true → Q x))
    (h0 : ∃ r, chk [] = .ok r ∧ r.1 = false) (xs : List α) :
    ∃ keep ms, checked patched chk xs = .ok (keep, ms) ∧ ∀ x ∈ keep, Q x := by
  unfold checked
  by_cases he : xs.isEmpty = true
  · have : xs = [] := by simpa using he
    subst this
    obtain ⟨r, hr, hf⟩ := h0
    simp only [patched, List.isEmpty_nil, Bool.not_true, Bool.and_false, Bool.false_eq_true, ↓reduceIte,
      allOrNothing, hr, hf]
    exact ⟨_, _, rfl, by simp⟩
  · simp only [patched, he, Bool.not_false, Bool.and_self, ↓reduceIte]
    exact perEntry_ok chk Q h xs

/-- A cell measure entry that passed its (patched) check. -/
def msrOk (F : NcFile) (P : Pre) (D : List String) (n : String) : Prop :=
  P.external.contains n = true ∨
    ∃ nv, F.var? n = some nv ∧ (applyComp P.comp (rawDims nv)).all D.contains = true

theorem checkCellMeasures_single (F : NcFile) (P : Pre) (v : String) (D : List String) (x : String × List String) :
    ∃ r, checkCellMeasures patched F P v D [x] = .ok r ∧
      (r.1 = true → ∃ n, x.2 = [n] ∧ msrOk F P D n) := by
  unfold checkCellMeasures
  simp only [List.isEmpty_cons, Bool.false_eq_true, ↓reduceIte, List.foldlM_cons, List.foldlM_nil, bind, Except.bind,
    pure, Except.pure]
  match hx : x.2 with
  | [] => exact ⟨_, rfl, by simp⟩
  | [n] =>
    simp only
    by_cases hext : P.external.contains n = true
    · simp only [hext, ↓reduceIte]
      exact ⟨_, rfl, fun _ => ⟨n, rfl, Or.inl hext⟩⟩
    · simp only [hext, Bool.false_eq_true, ↓reduceIte]
      cases hv : F.var? n with
      | none => exact ⟨_, rfl, by simp⟩
      | some nv =>
        simp only [ncdims_of_var P hv]
        by_cases hsub : dimsSubset patched nv (applyComp P.comp (rawDims nv)) D = true
        · simp only [hsub, ↓reduceIte]
          exact ⟨_, rfl, fun _ => ⟨n, rfl, Or.inr ⟨nv, hv, by rw [dimsSubset_patched] at hsub; exact hsub⟩⟩⟩
        · simp only [hsub, Bool.false_eq_true, ↓reduceIte]
          exact ⟨_, rfl, by simp⟩
  | _ :: _ :: _ => exact ⟨_, rfl, by simp⟩

theorem stageCellMeasures_isOk (F : NcFile) (P : Pre) (v : String) (D : List String) (vv : NcVar) (s : FSt) :
    IsOk (stageCellMeasures patched F P v D vv s) := by
  unfold stageCellMeasures
  split
  · exact ⟨_, rfl⟩
  · rename_i cmz _
    obtain ⟨keep, ms, hk, hall⟩ := checked_patched_ok (checkCellMeasures patched F P v D)
      (fun x => ∃ n, x.2 = [n] ∧ msrOk F P D n)
      (checkCellMeasures_single F P v D) ⟨(false, [msrMalformed v]), by simp [checkCellMeasures], rfl⟩ (parseX cmz)
    simp only [hk, bind, Except.bind]
    apply foldlM_isOk _ _ _ _ _ hall
    intro s x hx
    obtain ⟨n, hn, hor⟩ := hx
    simp only [hn, List.head?_cons, getOr]
    by_cases hext : P.external.contains n = true
    · simp only [hext, ↓reduceIte, pure, Except.pure, List.all_nil, Bool.not_true, Bool.false_eq_true]
      exact ⟨_, rfl⟩
    · simp only [hext, Bool.false_eq_true, ↓reduceIte]
      rcases hor with h | ⟨nv, hv, hall'⟩
      · exact absurd h hext
      · simp only [ncdims_of_var P hv, hall', Bool.not_true, Bool.false_eq_true, ↓reduceIte, pure, Except.pure]
        exact ⟨_, rfl⟩

end Cfdm.RefCheck

namespace Cfdm.RefCheck

theorem checkAncillary_single (F : NcFile) (P : Pre) (v : String) (D : List String) (n : String) :
    ∃ r, checkAncillary patched F P v D [n] = .ok r ∧
      (r.1 = true → ∃ nv, F.var? n = some nv ∧ (applyComp P.comp (rawDims nv)).all D.contains = true) := by
  unfold checkAncillary
  simp only [List.isEmpty_cons, Bool.false_eq_true, ↓reduceIte, checkAncillaryGo]
  cases hv : F.var? n with
  | none => exact ⟨_, rfl, by simp⟩
  | some nv =>
    simp only [ncdims_of_var P hv]
    by_cases hsub : dimsSubset patched nv (applyComp P.comp (rawDims nv)) D = true
    · simp only [hsub, ↓reduceIte]
      exact ⟨_, rfl, fun _ => ⟨nv, rfl, by rw [dimsSubset_patched] at hsub; exact hsub⟩⟩
    · simp only [hsub, Bool.false_eq_true, ↓reduceIte]
      exact ⟨_, rfl, by simp⟩

theorem stageAncillary_isOk (F : NcFile) (P : Pre) (v : String) (D : List String) (vv : NcVar) (s : FSt) :
    IsOk (stageAncillary patched F P v D vv s) := by
  unfold stageAncillary
  split
  · exact ⟨_, rfl⟩
  · rename_i av _
    obtain ⟨keep, ms, hk, hall⟩ := checked_patched_ok (checkAncillary patched F P v D)
      (fun n => ∃ nv, F.var? n = some nv ∧ (applyComp P.comp (rawDims nv)).all D.contains = true)
      (checkAncillary_single F P v D)
      ⟨(false, [ancMalformed v]), by simp [checkAncillary], rfl⟩ (splitWS av)
    simp only [hk, bind, Except.bind]
    apply foldlM_isOk _ _ _ _ _ hall
    intro s n hn
    obtain ⟨nv, hv, hall'⟩ := hn
    simp only [ncdims_of_var P hv, hall', Bool.not_true, Bool.false_eq_true, ↓reduceIte, pure, Except.pure]
    exact ⟨_, rfl⟩

/-- Every string is parsed without raising once truncated strings are reported. -/
theorem parseCellMethods_isOk (s : String) : IsOk (parseCellMethods patched s) := by
  unfold parseCellMethods
  split
  · exact ⟨_, rfl⟩
  · exact ⟨_, rfl⟩
  · simp only [patched, ↓reduceIte]; exact ⟨_, rfl⟩

theorem stageCellMethods_isOk (v : String) (vv : NcVar) (s : FSt) : IsOk (stageCellMethods patched v vv s) := by
  unfold stageCellMethods
  split
  · exact ⟨_, rfl⟩
  · rename_i cm _
    obtain ⟨r, hr⟩ := parseCellMethods_isOk cm
    simp only [hr, bind, Except.bind]
    exact ⟨_, rfl⟩

end Cfdm.RefCheck

namespace Cfdm.RefCheck

theorem foldl_inv {σ α} (f : σ → α → σ) (I : σ → Prop) (h : ∀ s a, I s → I (f s a)) :
    ∀ (l : List α) (s : σ), I s → I (l.foldl f s)
  | [], _, hs => hs
  | a :: l, s, hs => foldl_inv f I h l (f s a) (h s a hs)

theorem foldlM_inv {σ α} (f : σ → α → Except Err σ) (I : σ → Prop)
    (h : ∀ s a, I s → ∃ s', f s a = .ok s' ∧ I s') :
    ∀ (l : List α) (s : σ), I s → ∃ s', l.foldlM f s = .ok s' ∧ I s'
  | [], s, hs => ⟨s, rfl, hs⟩
  | a :: l, s, hs => by
    obtain ⟨s1, h1, i1⟩ := h s a hs
    obtain ⟨s2, h2, i2⟩ := foldlM_inv f I h l s1 i1
    refine ⟨s2, ?_, i2⟩
    rw [List.foldlM_cons, h1]
    exact h2

/-- Every mapped term names a variable of the file. -/
def TermsOk (F : NcFile) (ts : Terms) : Prop :=
  ∀ t ∈ ts, ∀ n, t.2 = some n → F.hasVar n = true

theorem TermsOk.lookup {F : NcFile} {ts : Terms} (h : TermsOk F ts) {k n : String}
    (hl : ts.lookup k = some (some n)) : F.hasVar n = true := by
  induction ts with
  | nil => simp [List.lookup] at hl
  | cons t ts ih =>
    obtain ⟨k', o⟩ := t
    simp only [List.lookup] at hl
    split at hl
    · cases hl
      exact h (k', some n) (by simp) n rfl
    · exact ih (fun t ht => h t (by simp [ht])) hl

theorem TermsOk.snoc {F : NcFile} {ts : Terms} (h : TermsOk F ts) (k : String) (o : Option String)
    (ho : ∀ n, o = some n → F.hasVar n = true) : TermsOk F (ts ++ [(k, o)]) := by
  intro t ht m hm
  rcases List.mem_append.mp ht with h' | h'
  · exact h t h' m hm
  · simp at h'; subst h'; exact ho m hm

theorem ftStep_inv (F : NcFile) (cname : String) (acc : Terms × List Msg) (x : String × List String)
    (h : TermsOk F acc.1) : TermsOk F (ftStep F cname acc x).1 := by
  unfold ftStep
  split
  · rename_i n _
    by_cases hv : F.hasVar n = true
    · simp only [hv, ↓reduceIte]
      exact h.snoc _ _ (fun m hm => by cases hm; exact hv)
    · simp only [hv, Bool.false_eq_true, ↓reduceIte]
      exact h.snoc _ _ (fun m hm => by cases hm)
  · exact h.snoc _ _ (fun m hm => by cases hm)

theorem ftBoundsStep_isOk (F : NcFile) (cname bn z : String) (cterms : Terms) (hc : TermsOk F cterms)
    (acc : Terms × List Msg) (x : String × List String) :
    IsOk (ftBoundsStep patched F cname bn z cterms acc x) := by
  unfold ftBoundsStep
  simp only
  split
  · split
    · exact ⟨_, rfl⟩
    · split
      · exact ⟨_, rfl⟩
      · simp only [patched, ↓reduceIte]; exact ⟨_, rfl⟩
      · rename_i par hl
        obtain ⟨pv, hpv⟩ := var_of_hasVar (hc.lookup hl)
        simp only [hpv, getOr]
        split
        · split <;> exact ⟨_, rfl⟩
        · split <;> exact ⟨_, rfl⟩
  · exact ⟨_, rfl⟩

theorem ftInferStep_isOk (F : NcFile) (P : Pre) (cname z : String) (acc : Terms × List Msg)
    (t : String × Option String) (ht : ∀ n, t.2 = some n → F.hasVar n = true) :
    IsOk (ftInferStep patched F P cname z acc t) := by
  unfold ftInferStep
  split
  · simp only [patched, ↓reduceIte]; exact ⟨_, rfl⟩
  · rename_i n hn
    obtain ⟨r, hr⟩ := ncdims_isOk P (ht n hn)
    simp only [hr]
    split <;> exact ⟨_, rfl⟩

/-- `_check_formula_terms` (patched) never raises, and every term it maps names a variable. -/
theorem checkFormulaTerms_ok (F : NcFile) (P : Pre) (coord : NcVar) (ft z : String) :
    ∃ r, checkFormulaTerms patched F P coord ft z = .ok r ∧ TermsOk F r.1 := by
  unfold checkFormulaTerms
  simp only
  split
  · exact ⟨_, rfl, by simp [TermsOk]⟩
  · have hinv : TermsOk F (List.foldl (ftStep F coord.name) ([], []) (parseX ft)).1 :=
      foldl_inv _ (fun a => TermsOk F a.1) (fun a x ha => ftStep_inv F coord.name a x ha) _ _ (by simp [TermsOk])
    split
    · exact ⟨_, rfl, hinv⟩
    · split
      · simp only [patched, ↓reduceIte]; exact ⟨_, rfl, hinv⟩
      · split
        · rename_i _ bn _ _ bv _ _ bft _
          obtain ⟨r2, hr2⟩ := foldlM_isOk' _ (ftBoundsStep_isOk F coord.name bn z _ hinv) (parseX bft)
            ([], if (parseX bft).isEmpty = true then
                (List.foldl (ftStep F coord.name) ([], []) (parseX ft)).2 ++
                  [mkMsgC coord.name bn coord.name "formula_terms" "Bounds formula_terms attribute is incorrectly formatted"]
              else (List.foldl (ftStep F coord.name) ([], []) (parseX ft)).2)
          simp only [hr2]
          exact ⟨_, rfl, hinv⟩
        · obtain ⟨r2, hr2⟩ := foldlM_isOk _ (fun t => ∀ n, t.2 = some n → F.hasVar n = true)
            (fun acc t ht => ftInferStep_isOk F P coord.name z acc t ht)
            (List.foldl (ftStep F coord.name) ([], []) (parseX ft)).1
            ([], (List.foldl (ftStep F coord.name) ([], []) (parseX ft)).2) (fun t ht => hinv t ht)
          simp only [hr2]
          exact ⟨_, rfl, hinv⟩

theorem ftTermStep_isOk (F : NcFile) (P : Pre) (v cn : String) (D : List String) (bterms : Terms)
    (acc : FSt × List (String × Option String) × Bool) (t : String × Option String)
    (ht : ∀ n, t.2 = some n → F.hasVar n = true) :
    IsOk (ftTermStep patched F P v cn D bterms acc t) := by
  unfold ftTermStep
  split
  · exact ⟨_, rfl⟩
  · rename_i n hn
    have hv := ht n hn
    obtain ⟨nd, hnd⟩ := ncdims_isOk P hv
    simp only [hnd]
    split
    · rename_i e he
      exfalso
      split at he
      · cases he
      · rename_i hda
        obtain ⟨bm, hbm⟩ := boundsOf_isOk F P v (some n) (ftGiven bterms t.1 n) false
          (fun m hm => by cases hm; exact hv) (by simp) (by simp)
        rw [hbm] at he
        cases he
    · split <;> exact ⟨_, rfl⟩

/-- What the coordinate stages guarantee: every attached coordinate is a variable of the file. -/
def CoordsOk (F : NcFile) (s : FSt) : Prop := ∀ c ∈ s.coords, F.hasVar c = true

/-- Variables with a `formula_terms` attribute have a (vertical) dimension. -/
def FtShape (F : NcFile) : Prop :=
  ∀ v ∈ F.vars, (v.attr? "formula_terms").isSome = true → v.dims ≠ []

theorem mem_of_var {F : NcFile} {n : String} {v : NcVar} (h : F.var? n = some v) : v ∈ F.vars :=
  List.mem_of_find?_eq_some h

theorem ftCoordStep_isOk (F : NcFile) (P : Pre) (v : String) (D : List String) (s : FSt) (cn : String)
    (hsh : FtShape F) (hcn : F.hasVar cn = true) : IsOk (ftCoordStep patched F P v D s cn) := by
  unfold ftCoordStep
  obtain ⟨cv, hcv⟩ := var_of_hasVar hcn
  simp only [hcv, getOr]
  split
  · exact ⟨_, rfl⟩
  · rename_i ft hft
    have hd : cv.dims ≠ [] := hsh cv (mem_of_var hcv) (by simp [hft])
    cases hdims : cv.dims with
    | nil => exact absurd hdims hd
    | cons z rest =>
      simp only [List.head?_cons]
      obtain ⟨chk, hchk, hterms⟩ := checkFormulaTerms_ok F P cv ft z
      simp only [hchk]
      split
      · rename_i e he
        exfalso
        obtain ⟨r, hr⟩ := foldlM_isOk _ (fun t => ∀ n, t.2 = some n → F.hasVar n = true)
          (fun acc t ht => ftTermStep_isOk F P v cn D chk.2.1 acc t ht) chk.1 _ (fun t ht => hterms t ht)
        rw [hr] at he
        cases he
      · split <;> exact ⟨_, rfl⟩

theorem stageFormulaTerms_isOk (F : NcFile) (P : Pre) (v : String) (D : List String) (s : FSt)
    (hsh : FtShape F) (hc : CoordsOk F s) : IsOk (stageFormulaTerms patched F P v D s) := by
  unfold stageFormulaTerms
  exact foldlM_isOk _ (fun c => F.hasVar c = true) (fun s c hc => ftCoordStep_isOk F P v D s c hsh hc) _ _ hc

end Cfdm.RefCheck

namespace Cfdm.RefCheck

theorem foldlM_preserves {σ α} (f : σ → α → Except Err σ) (I : σ → Prop)
    (h : ∀ s a s', f s a = .ok s' → I s → I s') :
    ∀ (l : List α) (s s' : σ), l.foldlM f s = .ok s' → I s → I s'
  | [], s, s', hs, hi => by
    simp only [List.foldlM_nil, pure, Except.pure] at hs
    cases hs; exact hi
  | a :: l, s, s', hs, hi => by
    rw [List.foldlM_cons] at hs
    cases h1 : f s a with
    | error e => simp [h1, bind, Except.bind] at hs
    | ok s1 =>
      simp only [h1, bind, Except.bind] at hs
      exact foldlM_preserves f I h l s1 s' hs (h s a s1 h1 hi)

@[simp] theorem FSt.add_coords (s : FSt) (es : List String) (ms : List Msg) : (s.add es ms).coords = s.coords := rfl
@[simp] theorem FSt.addCopied_coords (s : FSt) (ms : List Msg) : (s.addCopied ms).coords = s.coords := rfl
@[simp] theorem FSt.newDimKey_coords (s : FSt) (n : String) : (s.newDimKey n).coords = s.coords := rfl
@[simp] theorem FSt.newAuxKey_coords (s : FSt) (n : String) : (s.newAuxKey n).coords = s.coords := rfl

theorem CoordsOk.snoc {F : NcFile} {s : FSt} (h : CoordsOk F s) {c : String} (hc : F.hasVar c = true)
    {s' : FSt} (hs : s'.coords = s.coords ++ [c]) : CoordsOk F s' := by
  intro x hx
  rw [hs] at hx
  rcases List.mem_append.mp hx with h' | h'
  · exact h x h'
  · simp at h'; subst h'; exact hc

theorem CoordsOk.same {F : NcFile} {s : FSt} (h : CoordsOk F s) {s' : FSt} (hs : s'.coords = s.coords) :
    CoordsOk F s' := by
  intro x hx; rw [hs] at hx; exact h x hx

theorem stageDims_coords (F : NcFile) (P : Pre) (v : String) (D : List String) (s s' : FSt)
    (h : stageDims patched F P v D s = .ok s') (hc : CoordsOk F s) : CoordsOk F s' := by
  unfold stageDims at h
  refine foldlM_preserves _ (CoordsOk F) ?_ D s s' h hc
  intro s d s1 hs hi
  simp only at hs
  split at hs
  · rename_i cv hcv
    split at hs
    · split at hs
      · simp only [pure, Except.pure, Except.ok.injEq] at hs
        subst hs
        exact hi.snoc (hasVar_of_var hcv) rfl
      · cases hb : boundsOf patched F P v (some d) none false with
        | error e => simp [hb, bind, Except.bind] at hs
        | ok r =>
          simp only [hb, bind, Except.bind, pure, Except.pure, Except.ok.injEq] at hs
          subst hs
          exact hi.snoc (hasVar_of_var hcv) rfl
    · simp only [pure, Except.pure, Except.ok.injEq] at hs
      subst hs; exact hi
  · simp only [pure, Except.pure, Except.ok.injEq] at hs
    subst hs; exact hi

end Cfdm.RefCheck

namespace Cfdm.RefCheck

theorem auxToken_coords (F : NcFile) (P : Pre) (v : String) (D : List String) (s s' : FSt) (tok : String)
    (h : auxToken patched F P v D s tok = .ok s') (hc : CoordsOk F s) : CoordsOk F s' := by
  unfold auxToken at h
  split at h
  · cases h; exact hc
  · split at h
    · cases h; exact hc.same rfl
    · rename_i cv hcv
      have hv := hasVar_of_var hcv
      rw [ncdims_of_var P hcv] at h
      simp only [bind, Except.bind] at h
      split at h
      · simp only [pure, Except.pure, Except.ok.injEq] at h
        subst h; exact hc.same rfl
      · split at h
        · cases h
        split at h
        · -- cached
          simp only [pure, Except.pure] at h
          split at h
          · split at h
            · cases h; exact hc.snoc hv (by simp; split <;> rfl)
            · cases h; exact hc.snoc hv (by simp; split <;> rfl)
          · cases h; exact hc.snoc hv (by simp; split <;> rfl)
        · cases hb : boundsOf patched F P v (some tok) none false with
          | error e => simp [hb] at h
          | ok r =>
            simp only [hb, pure, Except.pure] at h
            split at h
            · split at h
              · cases h; exact hc.snoc hv (by simp)
              · cases h; exact hc.snoc hv (by simp)
            · cases h; exact hc.snoc hv (by simp)

theorem stageAux_coords (F : NcFile) (P : Pre) (v : String) (D : List String) (vv : NcVar) (s s' : FSt)
    (h : stageAux patched F P v D vv s = .ok s') (hc : CoordsOk F s) : CoordsOk F s' := by
  unfold stageAux at h
  exact foldlM_preserves _ (CoordsOk F) (fun s a s1 hs hi => auxToken_coords F P v D s s1 a hs hi) _ s s' h hc

theorem stageNodes_coords (F : NcFile) (P : Pre) (v : String) (D : List String) (s s' : FSt)
    (h : stageNodes patched F P v D s = .ok s') (hc : CoordsOk F s) : CoordsOk F s' := by
  unfold stageNodes at h
  split at h
  · cases h; exact hc
  · split at h
    · cases h
    · refine foldlM_preserves _ (CoordsOk F) ?_ _ s s' h hc
      intro s n s1 hs hi
      simp only at hs
      split at hs
      · simp only [pure, Except.pure, Except.ok.injEq] at hs
        subst hs; exact hi
      · simp only [bind, Except.bind, pure, Except.pure] at hs
        split at hs
        · split at hs
          · cases hs
          · cases hs; exact hi.same rfl
        · cases hb : boundsOf patched F P v none (some n) true with
          | error e => simp [hb] at hs
          | ok r =>
            simp only [hb] at hs
            split at hs
            · cases hs
            · cases hs; exact hi.same rfl

end Cfdm.RefCheck

namespace Cfdm.RefCheck

theorem runStages_isOk (F : NcFile) (P : Pre) (vv : NcVar) (D : List String) (s0 : FSt)
    (hsh : FtShape F) (hg : GeomReady P vv.name D) (hc0 : CoordsOk F s0) :
    IsOk (runStages patched F P vv D s0) := by
  unfold runStages
  obtain ⟨s1, h1⟩ := stageDims_isOk F P vv.name D s0
  have hc1 := stageDims_coords F P vv.name _ s0 s1 h1 hc0
  obtain ⟨s2, h2⟩ := stageAux_isOk F P vv.name D vv s1
  have hc2 := stageAux_coords F P vv.name _ vv s1 s2 h2 hc1
  obtain ⟨s3, h3⟩ := stageNodes_isOk F P vv.name D s2 hg
  have hc3 := stageNodes_coords F P vv.name _ s2 s3 h3 hc2
  obtain ⟨s4, h4⟩ := stageFormulaTerms_isOk F P vv.name D s3 hsh hc3
  obtain ⟨s5, h5⟩ := stageGridMapping_isOk F vv.name vv s4
  obtain ⟨s6, h6⟩ := stageCellMeasures_isOk F P vv.name D vv s5
  obtain ⟨s7, h7⟩ := stageCellMethods_isOk vv.name vv s6
  simp only [bind, Except.bind, h1, h2, h3, h4, h5, h6, h7]
  exact stageAncillary_isOk F P vv.name D vv s7

/-- Creating the field of a variable of the file never raises (patched reader), whatever the
values of its reference attributes and of those of every other variable. -/
theorem createField_isOk (F : NcFile) (P : Pre) (C : Caches) (vv : NcVar)
    (hv : F.var? vv.name = some vv) (hsh : FtShape F)
    (hg : GeomReady P vv.name (applyComp P.comp (rawDims vv))) :
    IsOk (createField patched F P C vv) := by
  unfold createField
  have hfix : patched.geomFix = true := rfl
  simp only [hfix, Bool.not_true, Bool.false_and, Bool.false_eq_true, ↓reduceIte]
  rw [ncdims_of_var P hv]
  simp only
  obtain ⟨s, hs⟩ := runStages_isOk F P vv _
    { C := { C with vcrs := [] },
      out := { elems := [], msgs := (P.msgs.filter (fun m => m.1 == some vv.name)).map (·.2) } }
    hsh hg (by intro c hc; simp at hc)
  have hv2 : patched.vcrsPerField = true := rfl
  simp only [hv2, ↓reduceIte]
  rw [hs]
  exact ⟨_, rfl⟩

end Cfdm.RefCheck

namespace Cfdm.RefCheck

/-- Variable names are unique (netCDF guarantees it): a variable is found under its own name. -/
def NamesUnique (F : NcFile) : Prop := ∀ vv ∈ F.vars, F.var? vv.name = some vv

/-- The geometry pre-scan left every variable with a usable geometry record (see `GeomReady`). -/
def GeomReadyAll (F : NcFile) (P : Pre) : Prop :=
  ∀ vv ∈ F.vars, GeomReady P vv.name (applyComp P.comp (rawDims vv))

theorem readBody_isOk (F : NcFile) (P : Pre) (hP : preScan patched F = .ok P)
    (hu : NamesUnique F) (hsh : FtShape F) (hg : GeomReadyAll F P) : IsOk (readBody patched F) := by
  unfold readBody
  simp only [hP]
  obtain ⟨r, hr⟩ := foldlM_isOk (fieldStep patched F P) (fun vv => vv ∈ F.vars)
    (by
      intro acc vv hvv
      unfold fieldStep
      split
      · exact ⟨_, rfl⟩
      split
      · exact ⟨_, rfl⟩
      · obtain ⟨r, hr⟩ := createField_isOk F P acc.2 vv (hu vv hvv) hsh (hg vv hvv)
        simp only [hr]
        exact ⟨_, rfl⟩)
    F.vars ([], { report := P.msgs.map (·.2) }) (fun _ h => h)
  simp only [hr]
  exact ⟨_, rfl⟩

/-! ### Entry-by-entry checking: exactly the broken entry is left out -/

theorem perEntry_eq_filter {α} (chk : List α → Except Err (Bool × List Msg)) (okP : α → Bool) (msgs : α → List Msg)
    (h : ∀ x, chk [x] = .ok (okP x, msgs x)) :
    ∀ xs, perEntry chk xs = .ok (xs.filter okP, xs.flatMap msgs)
  | [] => rfl
  | x :: xs => by
    simp only [perEntry, h x, perEntry_eq_filter chk okP msgs h xs, List.filter_cons, List.flatMap_cons]

theorem filter_set_bad {α} (p : α → Bool) (bad : α) (hb : p bad = false) :
    ∀ (xs : List α) (i : Nat), i < xs.length → (xs.set i bad).filter p = (xs.eraseIdx i).filter p
  | [], _, h => by simp at h
  | x :: xs, 0, _ => by simp [hb]
  | x :: xs, i + 1, h => by
    have := filter_set_bad p bad hb xs i (by simpa using h)
    simp only [List.set_cons_succ, List.eraseIdx_cons_succ, List.filter_cons, this]

theorem flatMap_set_ne_nil {α β} (f : α → List β) (bad : α) (hb : f bad ≠ []) :
    ∀ (xs : List α) (i : Nat), i < xs.length → (xs.set i bad).flatMap f ≠ []
  | [], _, h => by simp at h
  | x :: xs, 0, _ => by
    simp only [List.set_cons_zero, List.flatMap_cons]
    intro h
    exact hb (List.append_eq_nil_iff.mp h).1
  | x :: xs, i + 1, h => by
    simp only [List.set_cons_succ, List.flatMap_cons]
    intro h'
    exact flatMap_set_ne_nil f bad hb xs i (by simpa using h) (List.append_eq_nil_iff.mp h').2

theorem filter_all {α} (p : α → Bool) : ∀ (xs : List α), (∀ x ∈ xs, p x = true) → xs.filter p = xs
  | [], _ => rfl
  | x :: xs, h => by
    simp only [List.filter_cons, h x (by simp), ↓reduceIte]
    rw [filter_all p xs (fun y hy => h y (by simp [hy]))]

theorem mem_eraseIdx {α} (xs : List α) (i : Nat) (x : α) (h : x ∈ xs.eraseIdx i) : x ∈ xs :=
  List.mem_of_mem_eraseIdx h

/-- The per-entry verdict of `_check_ancillary_variables`. -/
def ancOk (F : NcFile) (P : Pre) (D : List String) (n : String) : Bool :=
  match F.var? n with
  | none => false
  | some nv => dimsSubset patched nv (applyComp P.comp (rawDims nv)) D

/-- The message of one entry: it names the entry's variable `n` under the attribute of the parent `v`,
and says whether the variable is missing or spans foreign dimensions. -/
def ancMsgs (F : NcFile) (P : Pre) (v : String) (D : List String) (n : String) : List Msg :=
  if ancOk F P D n then [] else [if F.hasVar n then ancForeign v n else ancMissing v n]

theorem checkAncillary_entry (F : NcFile) (P : Pre) (v : String) (D : List String) (n : String) :
    checkAncillary patched F P v D [n] = .ok (ancOk F P D n, ancMsgs F P v D n) := by
  unfold checkAncillary ancMsgs ancOk NcFile.hasVar
  simp only [List.isEmpty_cons, Bool.false_eq_true, ↓reduceIte, checkAncillaryGo]
  cases hv : F.var? n with
  | none => simp
  | some nv =>
    simp only [ncdims_of_var P hv]
    by_cases hsub : dimsSubset patched nv (applyComp P.comp (rawDims nv)) D = true
    · simp [hsub]
    · simp [hsub]

end Cfdm.RefCheck

namespace Cfdm.RefCheck

/-! ### Rejected tokens are not referenced; unreferenced variables keep their field -/

theorem auxToken_missing (F : NcFile) (P : Pre) (v : String) (D : List String) (s : FSt) (tok : String)
    (hD : D.contains tok = false) (hv : F.var? tok = none) :
    auxToken patched F P v D s tok = .ok (s.add [] [coordMissing v tok, coordMissing v tok]) := by
  unfold auxToken
  simp only [hD, Bool.false_eq_true, ↓reduceIte, hv]

theorem auxToken_foreign (F : NcFile) (P : Pre) (v : String) (D : List String) (s : FSt) (tok : String) (cv : NcVar)
    (hD : D.contains tok = false) (hv : F.var? tok = some cv)
    (hf : (applyComp P.comp (rawDims cv)).all D.contains = false) :
    auxToken patched F P v D s tok = .ok (s.add [] [coordForeign v tok]) := by
  unfold auxToken
  simp only [hD, Bool.false_eq_true, ↓reduceIte, hv, ncdims_of_var P hv, bind, Except.bind, dimsSubset_patched, hf,
    Bool.not_false, pure, Except.pure]

theorem mem_insertSortedS {x y : String} : ∀ {l : List String}, y ∈ insertSortedS x l → y = x ∨ y ∈ l
  | [], h => by simp [insertSortedS] at h; exact Or.inl h
  | z :: zs, h => by
    simp only [insertSortedS] at h
    split at h
    · rcases List.mem_cons.mp h with e | e
      · exact Or.inl e
      · exact Or.inr e
    · rcases List.mem_cons.mp h with e | e
      · exact Or.inr (by simp [e])
      · rcases mem_insertSortedS e with e' | e'
        · exact Or.inl e'
        · exact Or.inr (by simp [e'])

theorem mem_sortS {y : String} : ∀ {l : List String}, y ∈ sortS l → y ∈ l
  | [], h => by simp [sortS] at h
  | x :: xs, h => by
    have h' : y ∈ insertSortedS x (sortS xs) := h
    rcases mem_insertSortedS h' with e | e
    · simp [e]
    · exact List.mem_cons_of_mem _ (mem_sortS e)

theorem stillReferenced_sub (rs : List (String × FieldOut)) :
    ∀ x ∈ stillReferenced rs, (references rs).any (fun p => p.1 == x) = true := by
  unfold stillReferenced
  simp only
  intro x hx
  have hsub := foldl_inv (stillStep (references rs))
    (fun cur => ∀ x ∈ cur, x ∈ sortS ((rs.map (·.1)).filter (fun n => (references rs).any (fun p => p.1 == n))))
    (by
      intro cur n hcur x hx
      unfold stillStep at hx
      split at hx
      · exact hcur x (List.mem_filter.mp hx).1
      · exact hcur x hx) _ _ (fun x hx => hx) x hx
  exact (List.mem_filter.mp (mem_sortS hsub)).2

/-- A created field whose variable no attached construct references is returned. -/
theorem selectFields_unreferenced (rs : List (String × FieldOut)) (r : String × FieldOut) (hr : r ∈ rs)
    (hun : ∀ p ∈ references rs, p.1 ≠ r.1) : r ∈ selectFields rs := by
  unfold selectFields
  apply List.mem_filter.mpr
  refine ⟨hr, ?_⟩
  cases hc : (stillReferenced rs).contains r.1 with
  | false => rfl
  | true =>
    exfalso
    have hmem : r.1 ∈ stillReferenced rs := by simpa using hc
    have h2 := stillReferenced_sub rs r.1 hmem
    simp only [List.any_eq_true, beq_iff_eq] at h2
    obtain ⟨p, hp, hpe⟩ := h2
    exact hun p hp hpe

end Cfdm.RefCheck
