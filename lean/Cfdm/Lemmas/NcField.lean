import Cfdm.Model.NcField
import Cfdm.Lemmas.NcWrite
/-
The whole-field writer (`Model/NcField.lean`) never has an emission step refused, and what it
leaves behind: the invariants of a whole write (`GInv`), of one field (`PInv`), and their
preservation by every operation of `_write_field_or_domain`.
-/
namespace Cfdm.NcField
open Cfdm.NcNames Cfdm.NcFile Cfdm.NcWrite

/-! ### dictionaries -/

def keysOf (l : List (String × String)) : List String := l.map (·.1)

theorem lookup_isSome_of_mem {k : String} : ∀ {l : List (String × String)}, k ∈ keysOf l → ∃ v, lookup k l = some v
  | [], h => by cases h
  | x :: xs, h => by
    unfold lookup
    simp only [List.find?_cons]
    by_cases hx : x.1 = k
    · simp [hx]
    · have hne : (x.1 == k) = false := by simpa using hx
      simp only [hne]
      simp only [keysOf, List.map_cons, List.mem_cons] at h
      rcases h with h | h
      · exact absurd h.symm hx
      · exact lookup_isSome_of_mem (l := xs) h

theorem lookup_mem {k v : String} : ∀ {l : List (String × String)}, lookup k l = some v → (k, v) ∈ l
  | [], h => by simp [lookup] at h
  | x :: xs, h => by
    unfold lookup at h
    simp only [List.find?_cons] at h
    by_cases hx : x.1 = k
    · have : (x.1 == k) = true := by simpa using hx
      simp only [this, Option.map_some, Option.some.injEq] at h
      have : x = (k, v) := by cases x; simp_all
      rw [this]; exact List.mem_cons_self
    · have hne : (x.1 == k) = false := by simpa using hx
      simp only [hne] at h
      exact List.mem_cons_of_mem _ (lookup_mem (l := xs) h)

theorem lookup_none_of_not_mem {k : String} {l : List (String × String)} (h : k ∉ keysOf l) : lookup k l = none := by
  cases hl : lookup k l with
  | none => rfl
  | some v =>
    exfalso; apply h
    exact List.mem_map.mpr ⟨(k, v), lookup_mem hl, rfl⟩

theorem lookup_of_mem_nodup {k v : String} : ∀ {l : List (String × String)}, (keysOf l).Nodup → (k, v) ∈ l →
    lookup k l = some v
  | [], _, h => by cases h
  | x :: xs, hnd, h => by
    simp only [keysOf, List.map_cons, List.nodup_cons] at hnd
    unfold lookup
    simp only [List.find?_cons]
    rcases List.mem_cons.mp h with rfl | h
    · simp
    · have hne : x.1 ≠ k := by
        intro he
        exact hnd.1 (he ▸ List.mem_map.mpr ⟨(k, v), h, rfl⟩)
      have : (x.1 == k) = false := by simpa using hne
      simp only [this]
      exact lookup_of_mem_nodup (l := xs) hnd.2 h

theorem values_inj {l : List (String × String)} (h : (values l).Nodup) {a a' d : String}
    (h1 : (a, d) ∈ l) (h2 : (a', d) ∈ l) : a = a' := by
  induction l with
  | nil => cases h1
  | cons x xs ih =>
    simp only [values, List.map_cons, List.nodup_cons] at h
    rcases List.mem_cons.mp h1 with rfl | h1' <;> rcases List.mem_cons.mp h2 with h2' | h2'
    · exact (Prod.mk.inj h2').1.symm ▸ rfl
    · exact absurd (List.mem_map.mpr ⟨(a', d), h2', rfl⟩) h.1
    · subst h2'; exact absurd (List.mem_map.mpr ⟨(a, d), h1', rfl⟩) h.1
    · exact ih h.2 h1' h2'

/-! ### growth of the dataset -/

/-- Variables and dimensions are only ever added. -/
structure Grow (F F' : File) : Prop where
  vars : ∀ v ∈ F.vars, v ∈ F'.vars
  dims : ∀ d ∈ F.dimNames, d ∈ F'.dimNames

theorem Grow.refl (F : File) : Grow F F := ⟨fun _ h => h, fun _ h => h⟩
theorem Grow.trans {F F' F'' : File} (h1 : Grow F F') (h2 : Grow F' F'') : Grow F F'' :=
  ⟨fun v h => h2.vars v (h1.vars v h), fun d h => h2.dims d (h1.dims d h)⟩

theorem Grow.varNames {F F' : File} (h : Grow F F') : ∀ n ∈ F.varNames, n ∈ F'.varNames := by
  intro n hn
  obtain ⟨v, hv, rfl⟩ := List.mem_map.mp hn
  exact List.mem_map.mpr ⟨v, h.vars v hv, rfl⟩

/-! ### the invariant of a whole write -/

structure GInv (ws : WS) : Prop where
  inv : Inv ws.w
  seen : ∀ e ∈ ws.seen, ∃ tv ∈ ws.w.file.vars, tv.name = e.ncvar ∧ tv.dims = e.ncdims
  /-- a 1-d dimension coordinate in the file is a coordinate variable -/
  seenDim : ∀ e ∈ ws.seen, e.ctype = .dimCoord → e.squeezed = false → e.ncdims = [e.ncvar]
  spans : ∀ s ∈ ws.spans, s.ncdim ∈ ws.w.file.dimNames

theorem ginv_empty : GInv {} where
  inv := inv_empty
  seen := fun _ he => nomatch he
  seenDim := fun _ he => nomatch he
  spans := fun _ hs => nomatch hs

/-- The dimensions of a variable of a well-formed dataset exist. -/
theorem dims_of_var {F : File} (hwf : wfCore F = true) {tv : Var} (h : tv ∈ F.vars) : ∀ d ∈ tv.dims, d ∈ F.dimNames :=
  (varOK_iff.mp ((wfCore_iff.mp hwf).2.2 tv h)).1

/-! ### the invariant of one field -/

structure PInv (D : List String) (ws : WS) (fs : FS) : Prop where
  keysND : (keysOf fs.a2d).Nodup
  valsND : (values fs.a2d).Nodup
  a2dD : ∀ p ∈ fs.a2d, p.1 ∈ D ∧ p.2 ∈ ws.w.file.dimNames
  coords : ∀ t ∈ fs.coords, ∃ tv ∈ ws.w.file.vars, tv.name = t ∧ ∀ d ∈ tv.dims, d ∈ values fs.a2d
  a2s : ∀ p ∈ fs.a2s, p.1 ∉ D ∧ p.2 ∈ fs.coords ∧ ∃ tv ∈ ws.w.file.vars, tv.name = p.2 ∧ tv.dims = []
  k2v : ∀ p ∈ fs.k2v, p.2 ∈ ws.w.file.varNames
  newSpans : ∀ s ∈ fs.newSpans, s.ncdim ∈ ws.w.file.dimNames

theorem pinv_empty (D : List String) (ws : WS) : PInv D ws {} where
  keysND := by simp [keysOf]
  valsND := by simp [values]
  a2dD := fun _ hp => nomatch hp
  coords := fun _ hp => nomatch hp
  a2s := fun _ hp => nomatch hp
  k2v := fun _ hp => nomatch hp
  newSpans := fun _ hp => nomatch hp

/-- The field invariant survives any growth of the dataset that leaves the maps alone. -/
theorem PInv.grow {D : List String} {ws ws' : WS} {fs : FS} (h : PInv D ws fs) (hg : Grow ws.w.file ws'.w.file) :
    PInv D ws' fs :=
  ⟨h.keysND, h.valsND, fun p hp => ⟨(h.a2dD p hp).1, hg.dims _ (h.a2dD p hp).2⟩,
   fun t ht => by
     obtain ⟨tv, htv, hn, hd⟩ := h.coords t ht
     exact ⟨tv, hg.vars tv htv, hn, hd⟩,
   fun p hp => by
     obtain ⟨h1, h2, tv, htv, hn, hd⟩ := h.a2s p hp
     exact ⟨h1, h2, tv, hg.vars tv htv, hn, hd⟩,
   fun p hp => hg.varNames _ (h.k2v p hp),
   fun s hs => hg.dims _ (h.newSpans s hs)⟩

/-! ### creating a variable -/

theorem createVar_spec {ws : WS} (hI : Inv ws.w) (base : String) (dims : List String) (refs : List Ref) (isData : Bool)
    (hdims : ∀ d ∈ dims, d ∈ ws.w.file.dimNames)
    (hrefs : ∀ n, n ∉ ws.w.file.varNames →
      ∀ r ∈ refs, refOK (addVar ws.w.file ⟨n, dims, refs, isData⟩) ⟨n, dims, refs, isData⟩ r = true) :
    ∃ n w', createVar ws base dims refs isData = some (n, { ws with w := w' })
      ∧ Inv w' ∧ w'.file = addVar ws.w.file ⟨n, dims, refs, isData⟩ ∧ n ∉ ws.w.file.varNames
      ∧ w'.names.dims = ws.w.names.dims ∧ w'.names.roles = ws.w.names.roles := by
  obtain ⟨hC, hR⟩ := hI
  obtain ⟨n, hn, hnfresh⟩ := reqPlain_spec ws.w base
  have hC1 := core_add_name hC n
  have hnfile : n ∉ ws.w.file.varNames := fun h => hnfresh (List.mem_append_left _ (hC.vars n h))
  have hok : varOK (addVar ws.w.file ⟨n, dims, refs, isData⟩) ⟨n, dims, refs, isData⟩ = true := by
    rw [varOK_iff]
    exact ⟨hdims, hrefs n hnfile⟩
  obtain ⟨w4, hw4, hf4, hn4, hC4⟩ := emitVar_spec hC1 ⟨n, dims, refs, isData⟩ hnfile List.mem_cons_self hok
  refine ⟨n, w4, ?_, ⟨hC4, ?_⟩, hf4, hnfile, ?_, ?_⟩
  · simp only [createVar, hn, hw4]
  · unfold Roles; rw [hn4]; exact roles_add_name hR n
  · rw [hn4]
  · rw [hn4]

theorem grow_addVar (F : File) (v : Var) : Grow F (addVar F v) :=
  ⟨fun w hw => by simp only [addVar, List.mem_append]; exact Or.inl hw, fun _ h => h⟩

/-- A variable created with no references needs nothing but its dimensions. -/
theorem createVar_plain {ws : WS} (hG : GInv ws) (base : String) (dims : List String)
    (hdims : ∀ d ∈ dims, d ∈ ws.w.file.dimNames) :
    ∃ n w', createVar ws base dims [] false = some (n, { ws with w := w' })
      ∧ (∀ se : SeenE, se.ncvar = n → se.ncdims = dims → (se.ctype = .dimCoord → se.squeezed = false → se.ncdims = [se.ncvar]) →
            GInv { ws with w := w', seen := ws.seen ++ [se] })
      ∧ Grow ws.w.file w'.file ∧ (⟨n, dims, [], false⟩ : Var) ∈ w'.file.vars
      ∧ w'.names.dims = ws.w.names.dims ∧ w'.names.roles = ws.w.names.roles := by
  obtain ⟨n, w', hc, hI', hf, hnf, hd, hr⟩ := createVar_spec hG.inv base dims [] false hdims (by intro _ _ r hr; cases hr)
  have hg : Grow ws.w.file w'.file := hf ▸ grow_addVar _ _
  have hmem : (⟨n, dims, [], false⟩ : Var) ∈ w'.file.vars := by rw [hf]; simp [addVar]
  refine ⟨n, w', hc, ?_, hg, hmem, hd, hr⟩
  intro se h1 h2 h3
  refine ⟨hI', ?_, ?_, ?_⟩
  · intro e' he'
    rcases List.mem_append.mp he' with he' | he'
    · obtain ⟨tv, htv, ha, hb⟩ := hG.seen e' he'
      exact ⟨tv, hg.vars tv htv, ha, hb⟩
    · simp only [List.mem_singleton] at he'
      subst he'
      exact ⟨_, hmem, h1.symm, h2.symm⟩
  · intro e' he'
    rcases List.mem_append.mp he' with he' | he'
    · exact hG.seenDim e' he'
    · simp only [List.mem_singleton] at he'
      subst he'; exact h3
  · intro s hs; exact hg.dims _ (hG.spans s hs)

/-! ### small updates of the field invariant -/

theorem PInv.addAxis {D : List String} {ws : WS} {fs : FS} (h : PInv D ws fs) {a d : String}
    (ha : a ∉ keysOf fs.a2d) (hd : d ∉ values fs.a2d) (hD : a ∈ D) (hdim : d ∈ ws.w.file.dimNames) :
    PInv D ws { fs with a2d := (a, d) :: fs.a2d } where
  keysND := by simp only [keysOf, List.map_cons, List.nodup_cons]; exact ⟨ha, h.keysND⟩
  valsND := by simp only [values, List.map_cons, List.nodup_cons]; exact ⟨hd, h.valsND⟩
  a2dD := by
    intro p hp
    rcases List.mem_cons.mp hp with rfl | hp
    · exact ⟨hD, hdim⟩
    · exact h.a2dD p hp
  coords := by
    intro t ht
    obtain ⟨tv, htv, hn, hds⟩ := h.coords t ht
    exact ⟨tv, htv, hn, fun x hx => by simp only [values, List.map_cons]; exact List.mem_cons_of_mem _ (hds x hx)⟩
  a2s := h.a2s
  k2v := h.k2v
  newSpans := h.newSpans

theorem PInv.addCoord {D : List String} {ws : WS} {fs : FS} (h : PInv D ws fs) {t : String} {tv : Var}
    (htv : tv ∈ ws.w.file.vars) (hn : tv.name = t) (hd : ∀ d ∈ tv.dims, d ∈ values fs.a2d) :
    PInv D ws { fs with coords := fs.coords ++ [t] } where
  keysND := h.keysND
  valsND := h.valsND
  a2dD := h.a2dD
  coords := by
    intro x hx
    rcases List.mem_append.mp hx with hx | hx
    · exact h.coords x hx
    · simp only [List.mem_singleton] at hx
      subst hx
      exact ⟨tv, htv, hn, hd⟩
  a2s := by
    intro p hp
    obtain ⟨h1, h2, h3⟩ := h.a2s p hp
    exact ⟨h1, List.mem_append_left _ h2, h3⟩
  k2v := h.k2v
  newSpans := h.newSpans

theorem PInv.addK2v {D : List String} {ws : WS} {fs : FS} (h : PInv D ws fs) {k n : String}
    (hn : n ∈ ws.w.file.varNames) : PInv D ws { fs with k2v := (k, n) :: fs.k2v } where
  keysND := h.keysND
  valsND := h.valsND
  a2dD := h.a2dD
  coords := h.coords
  a2s := h.a2s
  k2v := by
    intro p hp
    rcases List.mem_cons.mp hp with rfl | hp
    · exact hn
    · exact h.k2v p hp
  newSpans := h.newSpans

/-- A scalar coordinate variable `t` for the axis `a` (not a data axis): `axis_to_ncscalar`, `coordinates`. -/
theorem PInv.addScalar {D : List String} {ws : WS} {fs : FS} (h : PInv D ws fs) {a k t : String} {tv : Var}
    (ha : a ∉ D) (htv : tv ∈ ws.w.file.vars) (hn : tv.name = t) (hd : tv.dims = []) :
    PInv D ws { fs with a2s := (a, t) :: fs.a2s, k2v := (k, t) :: fs.k2v, coords := fs.coords ++ [t] } := by
  have h1 := h.addCoord htv hn (by rw [hd]; intro d hd; cases hd)
  have h2 := h1.addK2v (k := k) (n := t) (List.mem_map.mpr ⟨tv, htv, hn⟩)
  exact {
    keysND := h2.keysND, valsND := h2.valsND, a2dD := h2.a2dD, coords := h2.coords, k2v := h2.k2v, newSpans := h2.newSpans
    a2s := by
      intro p hp
      rcases List.mem_cons.mp hp with rfl | hp
      · exact ⟨ha, List.mem_append_right _ (List.mem_singleton.mpr rfl), tv, htv, hn, hd⟩
      · exact h2.a2s p hp }

theorem GInv.grow {ws ws' : WS} (h : GInv ws) (hI : Inv ws'.w) (hg : Grow ws.w.file ws'.w.file)
    (hs : ws'.seen = ws.seen) (hsp : ws'.spans = ws.spans) : GInv ws' where
  inv := hI
  seen := by
    intro e he
    rw [hs] at he
    obtain ⟨tv, htv, h1, h2⟩ := h.seen e he
    exact ⟨tv, hg.vars tv htv, h1, h2⟩
  seenDim := by intro e he; rw [hs] at he; exact h.seenDim e he
  spans := by intro s hsm; rw [hsp] at hsm; exact hg.dims _ (h.spans s hsm)

/-! ### creating a dimension for an axis -/

theorem writeDimension_spec {D : List String} {ws : WS} {fs : FS} (hG : GInv ws) (hP : PInv D ws fs) (n : String) (a : Axis)
    (hn : n ∉ ws.w.names.dimNames) (hkey : a.key ∉ keysOf fs.a2d) (hD : a.key ∈ D) :
    ∃ ws', writeDimension ws fs n a = some (ws', { fs with a2d := (a.key, n) :: fs.a2d })
      ∧ GInv ws' ∧ PInv D ws' { fs with a2d := (a.key, n) :: fs.a2d } ∧ Grow ws.w.file ws'.w.file
      ∧ ws'.seen = ws.seen ∧ ws'.spans = ws.spans ∧ ws'.w.names.vars = ws.w.names.vars
      ∧ n ∈ ws'.w.file.dimNames ∧ ws'.w.file.vars = ws.w.file.vars ∧ ws'.unlimNcdims = ws.unlimNcdims := by
  obtain ⟨hC, hR⟩ := hG.inv
  obtain ⟨w2, hw2, hf2, hn2, hC2⟩ := emitDim_spec hC n a.size hn
  have hR2 : Roles w2 := by
    unfold Roles
    apply roles_after_dim (s := ws.w.names) n a.size (by rw [hn2]) (by rw [hn2]) hn
    intro r d hd
    exact Or.inr (hR r d hd)
  have hg : Grow ws.w.file w2.file := by
    rw [hf2]
    exact ⟨fun _ h => h, fun d hd => by simp only [File.dimNames, List.map_append, List.mem_append]; exact Or.inl hd⟩
  have hnfile : n ∈ w2.file.dimNames := by rw [hf2]; simp [File.dimNames]
  have hnold : n ∉ ws.w.file.dimNames := fun h => hn ((hC.dims n).mp h)
  refine ⟨{ ws with w := w2, unlimited := if a.unlimited then n :: ws.unlimited else ws.unlimited }, ?_, ?_, ?_, hg, rfl, rfl,
    by rw [hn2], hnfile, by rw [hf2], rfl⟩
  · simp only [writeDimension, hw2]
  · exact hG.grow ⟨hC2, hR2⟩ hg rfl rfl
  · have hP' : PInv D { ws with w := w2, unlimited := if a.unlimited then n :: ws.unlimited else ws.unlimited } fs :=
      hP.grow hg
    apply hP'.addAxis hkey ?_ hD hnfile
    intro hv
    obtain ⟨p, hp, hpn⟩ := List.mem_map.mp hv
    exact hnold (hpn ▸ (hP.a2dD p hp).2)

/-! ### what every operation of a field's write guarantees -/

structure Post (D : List String) (ws : WS) (fs : FS) (ws' : WS) (fs' : FS) : Prop where
  ginv : GInv ws'
  pinv : PInv D ws' fs'
  grow : Grow ws.w.file ws'.w.file
  a2dMono : ∀ p ∈ fs.a2d, p ∈ fs'.a2d
  a2sMono : ∀ k ∈ keysOf fs.a2s, k ∈ keysOf fs'.a2s
  k2vMono : ∀ k ∈ keysOf fs.k2v, k ∈ keysOf fs'.k2v

theorem Post.refl {D : List String} {ws : WS} {fs : FS} (hG : GInv ws) (hP : PInv D ws fs) : Post D ws fs ws fs :=
  ⟨hG, hP, Grow.refl _, fun _ h => h, fun _ h => h, fun _ h => h⟩

theorem Post.trans {D : List String} {ws ws' ws'' : WS} {fs fs' fs'' : FS}
    (h1 : Post D ws fs ws' fs') (h2 : Post D ws' fs' ws'' fs'') : Post D ws fs ws'' fs'' :=
  ⟨h2.ginv, h2.pinv, h1.grow.trans h2.grow, fun p hp => h2.a2dMono p (h1.a2dMono p hp),
   fun k hk => h2.a2sMono k (h1.a2sMono k hk), fun k hk => h2.k2vMono k (h1.k2vMono k hk)⟩

theorem alreadyInFile_some {seen : List SeenE} {t : CType} {c : Nat} {sq : Bool} {nd : Option (List String)} {e : SeenE}
    (h : alreadyInFile seen t c sq nd = some e) :
    e ∈ seen ∧ e.ctype = t ∧ e.squeezed = sq ∧ ∀ ds, nd = some ds → e.ncdims = ds := by
  unfold alreadyInFile at h
  have hm := List.mem_of_find?_eq_some h
  have hp := List.find?_some h
  simp only [Bool.and_eq_true, beq_iff_eq] at hp
  refine ⟨hm, hp.1.1.2, hp.2, ?_⟩
  intro ds hds
  subst hds
  simpa using hp.1.1.1

/-! ### a scalar coordinate variable -/

theorem writeScalarCoord_spec {D : List String} {ws : WS} {fs : FS} (hG : GInv ws) (hP : PInv D ws fs)
    (akey key : String) (t : CType) (content : Nat) (name : Option String) (ha : akey ∉ D) :
    ∃ ws' fs', writeScalarCoord ws fs akey key t content name = some (ws', fs') ∧ Post D ws fs ws' fs'
      ∧ fs'.a2d = fs.a2d ∧ akey ∈ keysOf fs'.a2s ∧ key ∈ keysOf fs'.k2v ∧ fs'.newSpans = fs.newSpans
      ∧ ws'.spans = ws.spans := by
  unfold writeScalarCoord
  cases hhit : alreadyInFile ws.seen t content true (some []) with
  | some e =>
    obtain ⟨hmem, _, _, hnd⟩ := alreadyInFile_some hhit
    obtain ⟨tv, htv, hn, hd⟩ := hG.seen e hmem
    have hd' : tv.dims = [] := by rw [hd]; exact hnd [] rfl
    refine ⟨ws, _, rfl, ⟨hG, hP.addScalar ha htv hn hd', Grow.refl _, fun _ h => h, ?_, ?_⟩, rfl, ?_, ?_, rfl, rfl⟩
    · intro k hk; simp only [keysOf, List.map_cons]; exact List.mem_cons_of_mem _ hk
    · intro k hk; simp only [keysOf, List.map_cons]; exact List.mem_cons_of_mem _ hk
    · simp [keysOf]
    · simp [keysOf]
  | none =>
    obtain ⟨n, w', hc, hGI, hg, hmem, _, _⟩ := createVar_plain hG (name.getD "scalar") [] (by intro d hd; cases hd)
    simp only [hc]
    have hG' := hGI ⟨t, content, true, n, []⟩ rfl rfl (by intro _ h; cases h)
    have hP' : PInv D { ws with w := w', seen := ws.seen ++ [⟨t, content, true, n, []⟩] } fs := hP.grow hg
    refine ⟨_, _, rfl, ⟨hG', hP'.addScalar ha hmem rfl rfl, hg, fun _ h => h, ?_, ?_⟩, rfl, ?_, ?_, rfl, rfl⟩
    · intro k hk; simp only [keysOf, List.map_cons]; exact List.mem_cons_of_mem _ hk
    · intro k hk; simp only [keysOf, List.map_cons]; exact List.mem_cons_of_mem _ hk
    · simp [keysOf]
    · simp [keysOf]

/-! ### the netCDF dimensions of a construct -/

/-- `ds` are the netCDF dimensions of `axes`, one by one. -/
inductive DimsOf (fs : FS) : List String → List String → Prop
  | nil : DimsOf fs [] []
  | cons {a d : String} {as ds : List String} : lookup a fs.a2d = some d → DimsOf fs as ds → DimsOf fs (a :: as) (d :: ds)

theorem ncdimsOf_forall {fs : FS} : ∀ {axes ds : List String}, ncdimsOf fs axes = some ds →
    DimsOf fs axes ds
  | [], ds, h => by simp only [ncdimsOf, Option.some.injEq] at h; subst h; exact .nil
  | a :: as, ds, h => by
    simp only [ncdimsOf] at h
    cases h1 : lookup a fs.a2d with
    | none => simp [h1] at h
    | some d =>
      cases h2 : ncdimsOf fs as with
      | none => simp [h1, h2] at h
      | some ds' =>
        simp only [h1, h2, Option.some.injEq] at h
        subst h
        exact .cons h1 (ncdimsOf_forall h2)

theorem ncdimsOf_some {fs : FS} : ∀ {axes : List String}, (∀ a ∈ axes, a ∈ keysOf fs.a2d) → ∃ ds, ncdimsOf fs axes = some ds
  | [], _ => ⟨[], rfl⟩
  | a :: as, h => by
    obtain ⟨d, hd⟩ := lookup_isSome_of_mem (h a List.mem_cons_self)
    obtain ⟨ds, hds⟩ := ncdimsOf_some (axes := as) (fun x hx => h x (List.mem_cons_of_mem _ hx))
    exact ⟨d :: ds, by simp only [ncdimsOf, hd, hds]⟩

theorem forall2_mem_right {fs : FS} {axes ds : List String}
    (h : DimsOf fs axes ds) : ∀ d ∈ ds, ∃ a ∈ axes, (a, d) ∈ fs.a2d := by
  induction h with
  | nil => intro d hd; cases hd
  | cons hx _ ih =>
    intro d hd
    rcases List.mem_cons.mp hd with rfl | hd
    · exact ⟨_, List.mem_cons_self, lookup_mem hx⟩
    · obtain ⟨a, ha, hp⟩ := ih d hd
      exact ⟨a, List.mem_cons_of_mem _ ha, hp⟩

theorem forall2_mem_left {fs : FS} {axes ds : List String}
    (h : DimsOf fs axes ds) : ∀ a ∈ axes, ∃ d ∈ ds, lookup a fs.a2d = some d := by
  induction h with
  | nil => intro a ha; cases ha
  | cons hx _ ih =>
    intro a ha
    rcases List.mem_cons.mp ha with rfl | ha
    · exact ⟨_, List.mem_cons_self, hx⟩
    · obtain ⟨d, hd, hp⟩ := ih a ha
      exact ⟨d, List.mem_cons_of_mem _ hd, hp⟩

/-- Distinct axes get distinct netCDF dimensions. -/
theorem forall2_nodup {fs : FS} (hv : (values fs.a2d).Nodup) {axes ds : List String}
    (h : DimsOf fs axes ds) (hnd : axes.Nodup) : ds.Nodup := by
  induction h with
  | nil => exact List.nodup_nil
  | @cons a d as ds' hx hrest ih =>
    rw [List.nodup_cons] at hnd ⊢
    refine ⟨?_, ih hnd.2⟩
    intro hmem
    obtain ⟨a', ha', hp⟩ := forall2_mem_right hrest d hmem
    have := values_inj hv (lookup_mem hx) hp
    exact hnd.1 (this ▸ ha')

/-! ### an auxiliary coordinate / cell measure / field ancillary variable -/

theorem writeCons_spec {D : List String} {ws : WS} {fs : FS} (hG : GInv ws) (hP : PInv D ws fs) (c : Cons)
    (hc : c.ctype ≠ .dimCoord) (haxes : ∀ a ∈ c.axes, a ∈ keysOf fs.a2d) :
    ∃ n ws' fs', writeCons ws fs c = some (n, ws', fs') ∧ Post D ws fs ws' fs'
      ∧ fs'.a2d = fs.a2d ∧ fs'.a2s = fs.a2s ∧ fs'.coords = fs.coords ∧ fs'.newSpans = fs.newSpans ∧ c.key ∈ keysOf fs'.k2v
      ∧ ws'.spans = ws.spans
      ∧ ∃ tv ∈ ws'.w.file.vars, tv.name = n ∧ ∀ d ∈ tv.dims, d ∈ values fs.a2d := by
  unfold writeCons
  obtain ⟨ds, hds⟩ := ncdimsOf_some haxes
  have hfa := ncdimsOf_forall hds
  have hdsv : ∀ d ∈ ds, d ∈ values fs.a2d := by
    intro d hd
    obtain ⟨a, _, hp⟩ := forall2_mem_right hfa d hd
    exact List.mem_map.mpr ⟨(a, d), hp, rfl⟩
  simp only [hds]
  cases hhit : alreadyInFile ws.seen c.ctype c.content false (some ds) with
  | some e =>
    obtain ⟨hmem, _, _, hnd⟩ := alreadyInFile_some hhit
    obtain ⟨tv, htv, hn, hd⟩ := hG.seen e hmem
    have hd' : tv.dims = ds := by rw [hd]; exact hnd ds rfl
    refine ⟨e.ncvar, ws, _, rfl, ⟨hG, hP.addK2v (List.mem_map.mpr ⟨tv, htv, hn⟩), Grow.refl _, fun _ h => h, fun _ h => h, ?_⟩,
      rfl, rfl, rfl, rfl, ?_, rfl, tv, htv, hn, by rw [hd']; exact hdsv⟩
    · intro k hk; simp only [keysOf, List.map_cons]; exact List.mem_cons_of_mem _ hk
    · simp [keysOf]
  | none =>
    have hdims : ∀ d ∈ ds, d ∈ ws.w.file.dimNames := by
      intro d hd
      obtain ⟨p, hp, hpd⟩ := List.mem_map.mp (hdsv d hd)
      exact hpd ▸ (hP.a2dD p hp).2
    obtain ⟨n, w', hcv, hGI, hg, hmem, _, _⟩ := createVar_plain hG (c.name.getD (defaultName c.ctype)) ds hdims
    simp only [hcv]
    have hG' := hGI ⟨c.ctype, c.content, false, n, ds⟩ rfl rfl (by intro h; exact absurd h hc)
    have hP' : PInv D { ws with w := w', seen := ws.seen ++ [⟨c.ctype, c.content, false, n, ds⟩] } fs := hP.grow hg
    refine ⟨n, _, _, rfl, ⟨hG', hP'.addK2v (List.mem_map.mpr ⟨_, hmem, rfl⟩), hg, fun _ h => h, fun _ h => h, ?_⟩,
      rfl, rfl, rfl, rfl, ?_, rfl, _, hmem, rfl, hdsv⟩
    · intro k hk; simp only [keysOf, List.map_cons]; exact List.mem_cons_of_mem _ hk
    · simp [keysOf]

/-! ### a dimension coordinate -/

/-- What an operation on the axis `a` (a final data axis, not yet mapped) leaves. -/
structure AxisPost (D : List String) (ws : WS) (fs : FS) (a : String) (ws' : WS) (fs' : FS) : Prop where
  post : Post D ws fs ws' fs'
  mapped : a ∈ keysOf fs'.a2d
  only : ∀ k ∈ keysOf fs'.a2d, k = a ∨ k ∈ keysOf fs.a2d
  a2s : fs'.a2s = fs.a2s
  spans : ws'.spans = ws.spans
  newSpansMono : ∀ s ∈ fs.newSpans, s ∈ fs'.newSpans

theorem keys_cons (a d : String) (l : List (String × String)) : keysOf ((a, d) :: l) = a :: keysOf l := rfl

theorem createDimCoord_spec {D : List String} {ws : WS} {fs : FS} (hG : GInv ws) (hP : PInv D ws fs) (o : Opts)
    (a : Axis) (dc : DimC) (hkey : a.key ∉ keysOf fs.a2d) (hD : a.key ∈ D) :
    ∃ ws' fs', createDimCoord true o ws fs a dc = some (ws', fs') ∧ AxisPost D ws fs a.key ws' fs'
      ∧ dc.key ∈ keysOf fs'.k2v := by
  unfold createDimCoord
  -- the name: always through `_netcdf_name`
  have hname : ∃ b, dimCoordName true ws a dc = (reqName ws.w b none none).map (fun r => (r.1, { ws with w := r.2.2 })) := by
    unfold dimCoordName
    cases dc.name with
    | some b => exact ⟨b, rfl⟩
    | none =>
      cases a.ncdim with
      | some d => exact ⟨d, by simp⟩
      | none => exact ⟨"coordinate", rfl⟩
  obtain ⟨b, hb⟩ := hname
  obtain ⟨n, hn, hnfresh⟩ := reqPlain_spec ws.w b
  rw [hb, hn]
  simp only [Option.map_some]
  obtain ⟨hC, hR⟩ := hG.inv
  -- the state after the request
  have hG1 : GInv { ws with w := { ws.w with names := { ws.w.names with vars := n :: ws.w.names.vars } } } :=
    hG.grow ⟨core_add_name hC n, roles_add_name hR n⟩ (Grow.refl _) rfl rfl
  have hP1 : PInv D { ws with w := { ws.w with names := { ws.w.names with vars := n :: ws.w.names.vars } } } fs := hP.grow (Grow.refl _)
  have hnd : n ∉ ws.w.names.dimNames := fun h => hnfresh (List.mem_append_right _ h)
  obtain ⟨ws2, hw2, hG2, hP2, hg2, hs2, hsp2, hv2, hnf2, hfv2, _⟩ := writeDimension_spec hG1 hP1 n a hnd hkey hD
  simp only [hw2]
  obtain ⟨hC2, hR2⟩ := hG2.inv
  have hnvar2 : n ∉ ws2.w.file.varNames := by
    simp only [File.varNames, hfv2]
    intro h
    exact hnfresh (List.mem_append_left _ (hC.vars n h))
  have hnin2 : n ∈ ws2.w.names.vars := by rw [hv2]; exact List.mem_cons_self
  have hok : varOK (addVar ws2.w.file ⟨n, [n], [], false⟩) ⟨n, [n], [], false⟩ = true := by
    rw [varOK_iff]
    refine ⟨?_, by intro r hr; cases hr⟩
    intro d hd
    simp only [List.mem_singleton] at hd
    exact hd ▸ hnf2
  obtain ⟨w4, hw4, hf4, hn4, hC4⟩ := emitVar_spec hC2 ⟨n, [n], [], false⟩ hnvar2 hnin2 hok
  simp only [hw4]
  have hg4 : Grow ws2.w.file w4.file := hf4 ▸ grow_addVar _ _
  have hmem : (⟨n, [n], [], false⟩ : Var) ∈ w4.file.vars := by rw [hf4]; simp [addVar]
  have hR4 : Roles w4 := by unfold Roles; rw [hn4]; exact hR2
  have hG4 : GInv { ws2 with w := w4, seen := ws2.seen ++ [⟨.dimCoord, dc.content, false, n, [n]⟩] } := by
    refine ⟨⟨hC4, hR4⟩, ?_, ?_, ?_⟩
    · intro e he
      rcases List.mem_append.mp he with he | he
      · obtain ⟨tv, htv, h1, h2⟩ := hG2.seen e he
        exact ⟨tv, hg4.vars tv htv, h1, h2⟩
      · simp only [List.mem_singleton] at he
        subst he
        exact ⟨_, hmem, rfl, rfl⟩
    · intro e he
      rcases List.mem_append.mp he with he | he
      · exact hG2.seenDim e he
      · simp only [List.mem_singleton] at he
        subst he
        intro _ _; rfl
    · intro s hs; exact hg4.dims _ (hG2.spans s hs)
  have hP4 : PInv D { ws2 with w := w4, seen := ws2.seen ++ [⟨.dimCoord, dc.content, false, n, [n]⟩] }
      { fs with a2d := (a.key, n) :: fs.a2d } := hP2.grow hg4
  have hP5 := hP4.addK2v (k := dc.key) (n := n) (List.mem_map.mpr ⟨_, hmem, rfl⟩)
  have hgrow : Grow ws.w.file w4.file := hg2.trans hg4
  have hfinal : PInv D { ws2 with w := w4, seen := ws2.seen ++ [⟨.dimCoord, dc.content, false, n, [n]⟩] }
      { fs with a2d := (a.key, n) :: fs.a2d, k2v := (dc.key, n) :: fs.k2v,
                coords := if o.coordinates then fs.coords ++ [n] else fs.coords } := by
    by_cases hco : o.coordinates = true
    · simp only [hco, if_true]
      exact hP5.addCoord hmem rfl (by intro d hd; simp only [List.mem_singleton] at hd; subst hd; simp [values])
    · simp only [hco, Bool.false_eq_true, if_false]
      exact hP5
  refine ⟨_, _, rfl, ⟨⟨hG4, hfinal, hgrow, ?_, fun _ h => h, ?_⟩, ?_, ?_, rfl, hsp2, fun _ h => h⟩, ?_⟩
  · intro p hp; exact List.mem_cons_of_mem _ hp
  · intro k hk; simp only [keysOf, List.map_cons]; exact List.mem_cons_of_mem _ hk
  · simp [keysOf]
  · intro k hk
    simp only [keysOf, List.map_cons, List.mem_cons] at hk
    exact hk
  · simp [keysOf]

theorem writeDimCoord_spec {D : List String} {ws : WS} {fs : FS} (hG : GInv ws) (hP : PInv D ws fs) (o : Opts)
    (a : Axis) (dc : DimC) (hkey : a.key ∉ keysOf fs.a2d) (hD : a.key ∈ D) :
    ∃ ws' fs', writeDimCoord true o ws fs a dc = some (ws', fs') ∧ AxisPost D ws fs a.key ws' fs'
      ∧ dc.key ∈ keysOf fs'.k2v := by
  unfold writeDimCoord
  cases hhit : alreadyInFile ws.seen .dimCoord dc.content false none with
  | none =>
    simp only [sharedDimCoord]
    exact createDimCoord_spec hG hP o a dc hkey hD
  | some e =>
    obtain ⟨hmem, hct, hsq, _⟩ := alreadyInFile_some hhit
    have hdims := hG.seenDim e hmem hct hsq
    obtain ⟨tv, htv, htn, htd⟩ := hG.seen e hmem
    simp only [sharedDimCoord, hdims, bne_self_eq_false, Bool.false_eq_true, if_false, Bool.true_and]
    by_cases hused : (values fs.a2d).contains e.ncvar = true
    · simp only [hused, if_true]
      exact createDimCoord_spec hG hP o a dc hkey hD
    · simp only [hused, Bool.false_eq_true, if_false]
      have hnv : e.ncvar ∉ values fs.a2d := by simpa using hused
      have hdim : e.ncvar ∈ ws.w.file.dimNames := by
        apply dims_of_var hG.inv.core.wf htv
        rw [htd, hdims]; exact List.mem_singleton.mpr rfl
      have hP1 := hP.addAxis hkey hnv hD hdim
      have hP2 := hP1.addK2v (k := dc.key) (n := e.ncvar) (List.mem_map.mpr ⟨tv, htv, htn⟩)
      have hfinal : PInv D ws ({ fs with a2d := (a.key, e.ncvar) :: fs.a2d, k2v := (dc.key, e.ncvar) :: fs.k2v,
                                         coords := if o.coordinates then fs.coords ++ [e.ncvar] else fs.coords } : FS) := by
        by_cases hco : o.coordinates = true
        · simp only [hco, if_true]
          exact hP2.addCoord htv htn (by rw [htd, hdims]; intro d hd; simp only [List.mem_singleton] at hd; subst hd; simp [values])
        · simp only [hco, Bool.false_eq_true, if_false]
          exact hP2
      refine ⟨_, _, rfl, ⟨⟨hG, hfinal, Grow.refl _, ?_, fun _ h => h, ?_⟩, ?_, ?_, rfl, rfl, fun _ h => h⟩, ?_⟩
      · intro p hp; exact List.mem_cons_of_mem _ hp
      · intro k hk; simp only [keysOf, List.map_cons]; exact List.mem_cons_of_mem _ hk
      · simp [keysOf]
      · intro k hk
        simp only [keysOf, List.map_cons, List.mem_cons] at hk
        exact hk
      · simp [keysOf]

/-! ### an axis without dimension coordinate -/

theorem findSpan_some {spans : List SpanE} {size : Nat} {used : List String} {info : List (CType × Nat × Nat)} {d : String}
    (h : findSpan spans size used info = some d) : (∃ s ∈ spans, s.ncdim = d) ∧ d ∉ used := by
  unfold findSpan at h
  rw [Option.map_eq_some_iff] at h
  obtain ⟨s, hf, hsd⟩ := h
  have hm := List.mem_of_find?_eq_some hf
  have hp := List.find?_some hf
  simp only [Bool.and_eq_true, Bool.not_eq_true', List.contains_eq_mem, decide_eq_false_iff_not] at hp
  exact ⟨⟨s, hm, hsd⟩, hsd ▸ hp.1.2⟩

theorem namedDimUsable_some {ws : WS} {fs : FS} {a : Axis} {d : String} (h : namedDimUsable ws fs a = some d) :
    d ∉ values fs.a2d ∧ ws.w.names.dimSize d = some a.size := by
  unfold namedDimUsable at h
  cases hn : a.ncdim with
  | none => simp [hn] at h
  | some d' =>
    simp only [hn] at h
    split at h
    · rename_i hc
      simp only [Option.some.injEq] at h
      subst h
      simp only [Bool.and_eq_true, beq_iff_eq, Bool.not_eq_true', List.contains_eq_mem, decide_eq_false_iff_not] at hc
      exact ⟨hc.1.1.2, hc.1.1.1.2⟩
    · cases h

theorem PInv.addSpan {D : List String} {ws : WS} {fs : FS} (h : PInv D ws fs) (s : SpanE)
    (hs : s.ncdim ∈ ws.w.file.dimNames) : PInv D ws { fs with newSpans := fs.newSpans ++ [s] } where
  keysND := h.keysND
  valsND := h.valsND
  a2dD := h.a2dD
  coords := h.coords
  a2s := h.a2s
  k2v := h.k2v
  newSpans := by
    intro x hx
    rcases List.mem_append.mp hx with hx | hx
    · exact h.newSpans x hx
    · simp only [List.mem_singleton] at hx; subst hx; exact hs

theorem reuseDim_some {ws : WS} (hG : GInv ws) {fs : FS} {f : AField} {a : Axis} {d : String}
    (h : reuseDim ws fs f a = some d) : d ∉ values fs.a2d ∧ d ∈ ws.w.file.dimNames := by
  unfold reuseDim at h
  split at h
  · rename_i d' h1
    simp only [Option.some.injEq] at h
    subst h
    have hfs : findSpan ws.spans a.size (values fs.a2d) (spanInfo f a.key) = some d' := by
      split at h1
      · cases h1
      · exact h1
    obtain ⟨⟨s, hs, hsd⟩, hnu⟩ := findSpan_some hfs
    exact ⟨hnu, hsd ▸ hG.spans s hs⟩
  · obtain ⟨hnu, hsz⟩ := namedDimUsable_some h
    exact ⟨hnu, (hG.inv.core.dims d).mpr (dimSize_isSome_mem _ _ (by rw [hsz]; rfl))⟩

theorem writePlainAxis_spec {D : List String} {ws : WS} {fs : FS} (hG : GInv ws) (hP : PInv D ws fs) (f : AField)
    (a : Axis) (hkey : a.key ∉ keysOf fs.a2d) (hD : a.key ∈ D) :
    ∃ ws' fs', writePlainAxis ws fs f a = some (ws', fs') ∧ AxisPost D ws fs a.key ws' fs' ∧ fs'.k2v = fs.k2v := by
  unfold writePlainAxis
  cases h1 : reuseDim ws fs f a with
  | some d =>
    simp only
    obtain ⟨hd, hdim⟩ := reuseDim_some hG h1
    refine ⟨_, _, rfl, ⟨⟨hG, hP.addAxis hkey hd hD hdim, Grow.refl _, ?_, fun _ h => h, fun _ h => h⟩, ?_, ?_, rfl, rfl,
      fun _ h => h⟩, rfl⟩
    · intro p hp; exact List.mem_cons_of_mem _ hp
    · simp [keysOf]
    · intro k hk
      simp only [keysOf, List.map_cons, List.mem_cons] at hk
      exact hk
  | none =>
    simp only
    obtain ⟨hC, hR⟩ := hG.inv
    obtain ⟨n, hn, hnfresh⟩ := reqPlain_spec ws.w (a.ncdim.getD "dim")
    simp only [hn]
    have hG1 : GInv { ws with w := { ws.w with names := { ws.w.names with vars := n :: ws.w.names.vars } } } :=
      hG.grow ⟨core_add_name hC n, roles_add_name hR n⟩ (Grow.refl _) rfl rfl
    have hP1 : PInv D { ws with w := { ws.w with names := { ws.w.names with vars := n :: ws.w.names.vars } } } fs :=
      hP.grow (Grow.refl _)
    have hnd : n ∉ ws.w.names.dimNames := fun h => hnfresh (List.mem_append_right _ h)
    obtain ⟨ws2, hw2, hG2, hP2, hg2, hs2, hsp2, _, hnf2, _, _⟩ := writeDimension_spec hG1 hP1 n a hnd hkey hD
    simp only [hw2]
    have hG3 : GInv { ws2 with unlimNcdims := if a.unlimited then n :: ws2.unlimNcdims else ws2.unlimNcdims } :=
      hG2.grow hG2.inv (Grow.refl _) rfl rfl
    have hP3 : PInv D { ws2 with unlimNcdims := if a.unlimited then n :: ws2.unlimNcdims else ws2.unlimNcdims }
        ({ fs with a2d := (a.key, n) :: fs.a2d } : FS) := hP2.grow (Grow.refl _)
    refine ⟨_, _, rfl, ⟨⟨hG3, hP3.addSpan ⟨n, a.size, spanInfo f a.key⟩ hnf2, hg2, ?_, fun _ h => h, fun _ h => h⟩,
      ?_, ?_, rfl, hsp2, ?_⟩, rfl⟩
    · intro p hp; exact List.mem_cons_of_mem _ hp
    · simp [keysOf]
    · intro k hk
      simp only [keysOf, List.map_cons, List.mem_cons] at hk
      exact hk
    · intro s hs; exact List.mem_append_left _ hs

/-! ### the loop over the domain axes -/

theorem mem_keys_of_mem {l : List (String × String)} {p : String × String} (h : p ∈ l) : p.1 ∈ keysOf l :=
  List.mem_map.mpr ⟨p, h, rfl⟩

theorem keys_mono {l l' : List (String × String)} (h : ∀ p ∈ l, p ∈ l') : ∀ k ∈ keysOf l, k ∈ keysOf l' := by
  intro k hk
  obtain ⟨p, hp, rfl⟩ := List.mem_map.mp hk
  exact mem_keys_of_mem (h p hp)

/-- What the turn for one axis leaves. -/
structure StepPost (o : Opts) (f : AField) (ws : WS) (fs : FS) (a : Axis) (ws' : WS) (fs' : FS) : Prop where
  post : Post (finalDataAxes o f) ws fs ws' fs'
  mapped : inFinal o f a.key = true → a.key ∈ keysOf fs'.a2d
  scalar : inFinal o f a.key = false → a.dimCoord.isSome → a.key ∈ keysOf fs'.a2s
  only : ∀ k ∈ keysOf fs'.a2d, k = a.key ∨ k ∈ keysOf fs.a2d
  spans : ws'.spans = ws.spans
  dck : ∀ dc, a.dimCoord = some dc → dc.key ∈ keysOf fs'.k2v

theorem stepAxis_spec (o : Opts) (f : AField) {ws : WS} {fs : FS} (hG : GInv ws) (hP : PInv (finalDataAxes o f) ws fs)
    (a : Axis) (hkey : a.key ∉ keysOf fs.a2d) :
    ∃ ws' fs', stepAxis true o f ws fs a = some (ws', fs') ∧ StepPost o f ws fs a ws' fs' := by
  unfold stepAxis
  cases hdc : a.dimCoord with
  | some dc =>
    simp only
    by_cases hin : inFinal o f a.key = true
    · simp only [hin, if_true]
      have hD : a.key ∈ finalDataAxes o f := by simpa [inFinal] using hin
      obtain ⟨ws', fs', h, hA, hk⟩ := writeDimCoord_spec hG hP o a dc hkey hD
      refine ⟨ws', fs', h, ⟨hA.post, fun _ => hA.mapped, fun h' => (by rw [hin] at h'; cases h'), hA.only, hA.spans, ?_⟩⟩
      intro dc' hdc'; rw [hdc] at hdc'; cases hdc'; exact hk
    · have hin' : inFinal o f a.key = false := by simpa using hin
      simp only [hin', Bool.false_eq_true, if_false]
      have hD : a.key ∉ finalDataAxes o f := by simpa [inFinal] using hin'
      obtain ⟨ws', fs', h, hpost, ha2d, hs, hk, _, hsp⟩ := writeScalarCoord_spec hG hP a.key dc.key .dimCoord dc.content dc.name hD
      refine ⟨ws', fs', h, ⟨hpost, fun h' => (by rw [hin'] at h'; cases h'), fun _ _ => hs, ?_, hsp, ?_⟩⟩
      · intro k hk'; rw [ha2d] at hk'; exact Or.inr hk'
      · intro dc' hdc'; rw [hdc] at hdc'; cases hdc'; exact hk
  | none =>
    simp only
    by_cases hin : inFinal o f a.key = true
    · simp only [hin, if_true]
      have hD : a.key ∈ finalDataAxes o f := by simpa [inFinal] using hin
      obtain ⟨ws', fs', h, hA, _⟩ := writePlainAxis_spec hG hP f a hkey hD
      refine ⟨ws', fs', h, ⟨hA.post, fun _ => hA.mapped, fun h' => (by rw [hin] at h'; cases h'), hA.only, hA.spans, ?_⟩⟩
      intro dc' hdc'; rw [hdc] at hdc'; cases hdc'
    · have hin' : inFinal o f a.key = false := by simpa using hin
      simp only [hin', Bool.false_eq_true, if_false]
      refine ⟨ws, fs, rfl, ⟨Post.refl hG hP, fun h' => (by rw [hin'] at h'; cases h'), fun _ h' => (by rw [hdc] at h'; simp at h'), fun k hk => Or.inr hk, rfl, ?_⟩⟩
      intro dc' hdc'; rw [hdc] at hdc'; cases hdc'

/-- What the whole loop leaves. -/
structure AxesPost (o : Opts) (f : AField) (ws : WS) (fs : FS) (as : List Axis) (ws' : WS) (fs' : FS) : Prop where
  post : Post (finalDataAxes o f) ws fs ws' fs'
  mapped : ∀ a ∈ as, inFinal o f a.key = true → a.key ∈ keysOf fs'.a2d
  scalar : ∀ a ∈ as, inFinal o f a.key = false → a.dimCoord.isSome → a.key ∈ keysOf fs'.a2s
  only : ∀ k ∈ keysOf fs'.a2d, k ∈ as.map (·.key) ∨ k ∈ keysOf fs.a2d
  spans : ws'.spans = ws.spans
  dck : ∀ a ∈ as, ∀ dc, a.dimCoord = some dc → dc.key ∈ keysOf fs'.k2v

theorem stepAxes_spec (o : Opts) (f : AField) : ∀ (as : List Axis) {ws : WS} {fs : FS}, GInv ws →
    PInv (finalDataAxes o f) ws fs → (as.map (·.key)).Nodup → (∀ a ∈ as, a.key ∉ keysOf fs.a2d) →
    ∃ ws' fs', stepAxes true o f ws fs as = some (ws', fs') ∧ AxesPost o f ws fs as ws' fs'
  | [], ws, fs, hG, hP, _, _ =>
    ⟨ws, fs, rfl, ⟨Post.refl hG hP, fun _ h => (nomatch h), fun _ h => (nomatch h), fun _ hk => Or.inr hk, rfl, fun _ h => (nomatch h)⟩⟩
  | a :: as, ws, fs, hG, hP, hnd, hfresh => by
    simp only [List.map_cons, List.nodup_cons] at hnd
    obtain ⟨ws1, fs1, h1, hS⟩ := stepAxis_spec o f hG hP a (hfresh a List.mem_cons_self)
    have hfresh1 : ∀ x ∈ as, x.key ∉ keysOf fs1.a2d := by
      intro x hx hmem
      rcases hS.only _ hmem with h | h
      · exact hnd.1 (h ▸ List.mem_map.mpr ⟨x, hx, rfl⟩)
      · exact hfresh x (List.mem_cons_of_mem _ hx) h
    obtain ⟨ws2, fs2, h2, hA⟩ := stepAxes_spec o f as hS.post.ginv hS.post.pinv hnd.2 hfresh1
    refine ⟨ws2, fs2, by simp only [stepAxes, h1, h2], ⟨hS.post.trans hA.post, ?_, ?_, ?_, by rw [hA.spans, hS.spans], ?_⟩⟩
    · intro x hx hin
      rcases List.mem_cons.mp hx with rfl | hx
      · exact keys_mono hA.post.a2dMono _ (hS.mapped hin)
      · exact hA.mapped x hx hin
    · intro x hx hin hdc
      rcases List.mem_cons.mp hx with rfl | hx
      · exact hA.post.a2sMono _ (hS.scalar hin hdc)
      · exact hA.scalar x hx hin hdc
    · intro k hk
      rcases hA.only k hk with h | h
      · exact Or.inl (List.mem_cons_of_mem _ h)
      · rcases hS.only k h with h | h
        · exact Or.inl (h ▸ List.mem_cons_self)
        · exact Or.inr h
    · intro x hx dc hdc
      rcases List.mem_cons.mp hx with rfl | hx
      · exact hA.post.k2vMono _ (hS.dck dc hdc)
      · exact hA.dck x hx dc hdc

/-! ### the loops over auxiliary coordinates, cell measures and field ancillaries -/

/-- The `cell_measures` / `ancillary_variables` references collected so far resolve, on dimensions of the field. -/
def RefsOK (ws : WS) (fs : FS) (refs : List Ref) : Prop :=
  ∀ r ∈ refs, (r.kind = .cellMeasures ∨ r.kind = .ancillary)
    ∧ ∃ tv ∈ ws.w.file.vars, tv.name = r.target ∧ ∀ d ∈ tv.dims, d ∈ values fs.a2d

theorem RefsOK.grow {ws ws' : WS} {fs fs' : FS} {refs : List Ref} (h : RefsOK ws fs refs)
    (hg : Grow ws.w.file ws'.w.file) (ha : fs'.a2d = fs.a2d) : RefsOK ws' fs' refs := by
  intro r hr
  obtain ⟨hk, tv, htv, hn, hd⟩ := h r hr
  exact ⟨hk, tv, hg.vars tv htv, hn, by rw [ha]; exact hd⟩

structure ConsPost (o : Opts) (f : AField) (ws : WS) (fs : FS) (cs : List Cons) (ws' : WS) (fs' : FS) (refs' : List Ref) : Prop where
  post : Post (finalDataAxes o f) ws fs ws' fs'
  refs : RefsOK ws' fs' refs'
  a2d : fs'.a2d = fs.a2d
  newSpans : fs'.newSpans = fs.newSpans
  spans : ws'.spans = ws.spans
  scalar : ∀ c ∈ cs, c.ctype = .aux → ∀ a, c.axes = [a] → inFinal o f a = false → a ∈ keysOf fs'.a2s
  k2v : ∀ c ∈ cs, c.key ∈ keysOf fs'.k2v

theorem stepCons_spec (o : Opts) (f : AField) : ∀ (cs : List Cons) {ws : WS} {fs : FS} {refs : List Ref}, GInv ws →
    PInv (finalDataAxes o f) ws fs → RefsOK ws fs refs →
    (∀ c ∈ cs, c.ctype ≠ .dimCoord ∧ ∀ a ∈ c.axes, (isAux1 c a = true ∧ inFinal o f a = false) ∨ a ∈ keysOf fs.a2d) →
    ∃ ws' fs' refs', stepCons o f ws fs refs cs = some (ws', fs', refs') ∧ ConsPost o f ws fs cs ws' fs' refs'
  | [], ws, fs, refs, hG, hP, hR, _ =>
    ⟨ws, fs, refs, rfl, ⟨Post.refl hG hP, hR, rfl, rfl, rfl, fun _ h => (nomatch h), fun _ h => (nomatch h)⟩⟩
  | c :: cs, ws, fs, refs, hG, hP, hR, hall => by
    obtain ⟨hnd, hax⟩ := hall c List.mem_cons_self
    have hrest : ∀ {fs' : FS}, fs'.a2d = fs.a2d → ∀ c' ∈ cs, c'.ctype ≠ .dimCoord ∧
        ∀ a ∈ c'.axes, (isAux1 c' a = true ∧ inFinal o f a = false) ∨ a ∈ keysOf fs'.a2d := by
      intro fs' h c' hc'
      rw [h]; exact hall c' (List.mem_cons_of_mem _ hc')
    -- one generic continuation lemma
    have cont : ∀ (ws1 : WS) (fs1 : FS) (refs1 : List Ref), Post (finalDataAxes o f) ws fs ws1 fs1 → RefsOK ws1 fs1 refs1 →
        fs1.a2d = fs.a2d → fs1.newSpans = fs.newSpans → ws1.spans = ws.spans →
        (c.ctype = .aux → ∀ a, c.axes = [a] → inFinal o f a = false → a ∈ keysOf fs1.a2s) → c.key ∈ keysOf fs1.k2v →
        ∃ ws' fs' refs', stepCons o f ws1 fs1 refs1 cs = some (ws', fs', refs') ∧ ConsPost o f ws fs (c :: cs) ws' fs' refs' := by
      intro ws1 fs1 refs1 hpost hR1 ha2d hns hsp hsc hk
      obtain ⟨ws', fs', refs', h, hC⟩ := stepCons_spec o f cs hpost.ginv hpost.pinv hR1 (hrest ha2d)
      refine ⟨ws', fs', refs', h, ⟨hpost.trans hC.post, hC.refs, by rw [hC.a2d, ha2d], by rw [hC.newSpans, hns],
        by rw [hC.spans, hsp], ?_, ?_⟩⟩
      · intro c' hc' hct a hax' hin
        rcases List.mem_cons.mp hc' with rfl | hc'
        · exact hC.post.a2sMono _ (hsc hct a hax' hin)
        · exact hC.scalar c' hc' hct a hax' hin
      · intro c' hc'
        rcases List.mem_cons.mp hc' with rfl | hc'
        · exact hC.post.k2vMono _ hk
        · exact hC.k2v c' hc'
    -- writing the construct as a variable listed in `coordinates`
    have asCoord : (∀ a ∈ c.axes, a ∈ keysOf fs.a2d) →
        (c.ctype = .aux → ∀ a, c.axes = [a] → inFinal o f a = false → False) →
        ∃ n ws1 fs1, writeCons ws fs c = some (n, ws1, fs1) ∧
          ∃ ws' fs' refs', stepCons o f ws1 { fs1 with coords := fs1.coords ++ [n] } refs cs = some (ws', fs', refs')
            ∧ ConsPost o f ws fs (c :: cs) ws' fs' refs' := by
      intro haxes hno
      obtain ⟨n, ws1, fs1, h1, hpost, ha2d, ha2s, hco, hns, hk, hsp, tv, htv, htn, htd⟩ := writeCons_spec hG hP c hnd haxes
      refine ⟨n, ws1, fs1, h1, ?_⟩
      have hP1 : PInv (finalDataAxes o f) ws1 { fs1 with coords := fs1.coords ++ [n] } :=
        hpost.pinv.addCoord htv htn (by rw [ha2d]; exact htd)
      apply cont ws1 { fs1 with coords := fs1.coords ++ [n] } refs
        ⟨hpost.ginv, hP1, hpost.grow, hpost.a2dMono, hpost.a2sMono, hpost.k2vMono⟩ (hR.grow hpost.grow ha2d) ha2d hns hsp
      · intro hct a hax' hin; exact (hno hct a hax' hin).elim
      · exact hk
    by_cases hct : c.ctype = .aux
    · have hb : (c.ctype == .aux) = true := by simpa using hct
      match hcax : c.axes with
      | [a] =>
        by_cases hin : inFinal o f a = true
        · have haxes : ∀ x ∈ c.axes, x ∈ keysOf fs.a2d := by
            intro x hx
            rcases hax x hx with ⟨_, h⟩ | h
            · rw [hcax] at hx; simp only [List.mem_singleton] at hx; subst hx; rw [hin] at h; cases h
            · exact h
          obtain ⟨n, ws1, fs1, h1, ws', fs', refs', h2, hC⟩ := asCoord haxes (by
            intro _ a' hax' hin'; rw [hcax] at hax'; cases hax'; rw [hin] at hin'; cases hin')
          exact ⟨ws', fs', refs', by simp only [stepCons, hb, if_true, hcax, hin, h1, h2], hC⟩
        · have hin' : inFinal o f a = false := by simpa using hin
          have hD : a ∉ finalDataAxes o f := by simpa [inFinal] using hin'
          obtain ⟨ws1, fs1, h1, hpost, ha2d, hs, hk, hns, hsp⟩ := writeScalarCoord_spec hG hP a c.key .aux c.content c.name hD
          obtain ⟨ws', fs', refs', h2, hC⟩ := cont ws1 fs1 refs hpost (hR.grow hpost.grow ha2d) ha2d hns hsp
            (by intro _ a' hax' _; rw [hcax] at hax'; cases hax'; exact hs) hk
          exact ⟨ws', fs', refs', by simp only [stepCons, hb, if_true, hcax, hin', Bool.false_eq_true, if_false, h1, h2], hC⟩
      | [] =>
        obtain ⟨n, ws1, fs1, h1, ws', fs', refs', h2, hC⟩ := asCoord (by rw [hcax]; intro x hx; cases hx)
          (by intro _ a' hax' _; rw [hcax] at hax'; cases hax')
        exact ⟨ws', fs', refs', by simp only [stepCons, hb, if_true, hcax, h1, h2], hC⟩
      | a :: b :: rest =>
        have haxes : ∀ x ∈ c.axes, x ∈ keysOf fs.a2d := by
          intro x hx
          rcases hax x hx with ⟨h, _⟩ | h
          · simp [isAux1, hcax] at h
          · exact h
        obtain ⟨n, ws1, fs1, h1, ws', fs', refs', h2, hC⟩ := asCoord haxes
          (by intro _ a' hax' _; rw [hcax] at hax'; cases hax')
        exact ⟨ws', fs', refs', by simp only [stepCons, hb, if_true, hcax, h1, h2], hC⟩
    · have hb : (c.ctype == .aux) = false := by simpa using hct
      have haxes : ∀ x ∈ c.axes, x ∈ keysOf fs.a2d := by
        intro x hx
        rcases hax x hx with ⟨h, _⟩ | h
        · simp [isAux1, hb] at h
        · exact h
      obtain ⟨n, ws1, fs1, h1, hpost, ha2d, ha2s, hco, hns, hk, hsp, tv, htv, htn, htd⟩ := writeCons_spec hG hP c hnd haxes
      have hR1 : RefsOK ws1 fs1 (refs ++ [refOf c n]) := by
        intro r hr
        rcases List.mem_append.mp hr with hr | hr
        · exact (hR.grow hpost.grow ha2d) r hr
        · simp only [List.mem_singleton] at hr
          subst hr
          refine ⟨?_, tv, htv, ?_, by rw [ha2d]; exact htd⟩
          · unfold refOf
            cases hc : c.ctype <;> simp_all
          · unfold refOf
            cases hc : c.ctype <;> simp [htn]
      obtain ⟨ws', fs', refs', h2, hC⟩ := cont ws1 fs1 (refs ++ [refOf c n]) hpost hR1 ha2d hns hsp
        (by intro h; exact absurd h hct) hk
      exact ⟨ws', fs', refs', by simp only [stepCons, hb, Bool.false_eq_true, if_false, h1, h2], hC⟩

/-! ### what the field decides by itself -/

structure FieldOKP (f : AField) : Prop where
  axesND : f.axisKeys.Nodup
  dataND : f.dataAxes.Nodup
  dataSub : ∀ a ∈ f.dataAxes, a ∈ f.axisKeys
  cons : ∀ c ∈ f.cons, c.ctype ≠ .dimCoord ∧ c.axes ≠ [] ∧ ∀ a ∈ c.axes, a ∈ f.axisKeys
  cms : ∀ m ∈ f.cellMethods, ∀ a ∈ m, a = "area" ∨ ∃ x ∈ f.axes, x.key = a ∧ covered f x = true

theorem fieldOK_iff {f : AField} : FieldOK f = true ↔ FieldOKP f := by
  unfold FieldOK nodup
  simp only [Bool.and_eq_true, distinct_iff, List.all_eq_true, List.contains_eq_mem, decide_eq_true_eq, bne_iff_ne, ne_eq,
    Bool.not_eq_true', List.isEmpty_eq_false_iff, Bool.or_eq_true, beq_iff_eq, List.any_eq_true]
  constructor
  · rintro ⟨⟨⟨⟨h1, h2⟩, h3⟩, h4⟩, h5⟩
    exact ⟨h1, h2, h3, fun c hc => ⟨(h4 c hc).1.1, (h4 c hc).1.2, (h4 c hc).2⟩, h5⟩
  · rintro ⟨h1, h2, h3, h4, h5⟩
    exact ⟨⟨⟨⟨h1, h2⟩, h3⟩, fun c hc => ⟨⟨(h4 c hc).1, (h4 c hc).2.1⟩, (h4 c hc).2.2⟩⟩, h5⟩

theorem mem_final {o : Opts} {f : AField} {a : String} :
    a ∈ finalDataAxes o f ↔ (∃ x ∈ f.axes, inserted o f x = true ∧ x.key = a) ∨ a ∈ f.dataAxes := by
  unfold finalDataAxes
  simp only [List.mem_append, List.mem_reverse, List.mem_map, List.mem_filter]
  constructor
  · rintro (⟨x, ⟨hx, hi⟩, rfl⟩ | h)
    · exact Or.inl ⟨x, hx, hi, rfl⟩
    · exact Or.inr h
  · rintro (⟨x, hx, hi, rfl⟩ | h)
    · exact Or.inl ⟨x, ⟨hx, hi⟩, rfl⟩
    · exact Or.inr h

theorem inFinal_iff {o : Opts} {f : AField} {a : String} : inFinal o f a = true ↔ a ∈ finalDataAxes o f := by
  simp [inFinal]

/-- Every final data axis is an axis of the field. -/
theorem final_axis {o : Opts} {f : AField} (hf : FieldOKP f) {a : String} (h : a ∈ finalDataAxes o f) :
    ∃ x ∈ f.axes, x.key = a := by
  rcases mem_final.mp h with ⟨x, hx, _, rfl⟩ | h
  · exact ⟨x, hx, rfl⟩
  · exact List.mem_map.mp (hf.dataSub a h)

theorem filter_map_nodup {α β} (g : α → β) (p : α → Bool) : ∀ (l : List α), (l.map g).Nodup → ((l.filter p).map g).Nodup
  | [], _ => by simp
  | x :: xs, h => by
    simp only [List.map_cons, List.nodup_cons] at h
    simp only [List.filter_cons]
    split
    · simp only [List.map_cons, List.nodup_cons]
      refine ⟨?_, filter_map_nodup g p xs h.2⟩
      intro hm
      obtain ⟨y, hy, hyx⟩ := List.mem_map.mp hm
      exact h.1 (List.mem_map.mpr ⟨y, (List.mem_filter.mp hy).1, hyx⟩)
    · exact filter_map_nodup g p xs h.2

theorem final_nodup {o : Opts} {f : AField} (hf : FieldOKP f) : (finalDataAxes o f).Nodup := by
  unfold finalDataAxes
  rw [List.nodup_append]
  refine ⟨(List.reverse_perm _).nodup_iff.mpr (filter_map_nodup _ _ _ hf.axesND), hf.dataND, ?_⟩
  intro a ha b hb hab
  subst hab
  simp only [List.mem_reverse, List.mem_map, List.mem_filter] at ha
  obtain ⟨x, ⟨_, hi⟩, rfl⟩ := ha
  unfold inserted at hi
  simp only [Bool.and_eq_true, Bool.not_eq_true', List.contains_eq_mem, decide_eq_false_iff_not] at hi
  exact hi.1 hb

/-- A construct that is not a 1-d auxiliary coordinate of the axis puts the axis among the final
data axes (the data span it, or it is inserted). -/
theorem spanned_inFinal {o : Opts} {f : AField} (hf : FieldOKP f) {c : Cons} (hc : c ∈ f.cons) {a : String}
    (ha : a ∈ c.axes) (hna : isAux1 c a = false) : a ∈ finalDataAxes o f := by
  obtain ⟨x, hx, rfl⟩ := List.mem_map.mp ((hf.cons c hc).2.2 a ha)
  by_cases hd : x.key ∈ f.dataAxes
  · exact mem_final.mpr (Or.inr hd)
  · refine mem_final.mpr (Or.inl ⟨x, hx, ?_, rfl⟩)
    have hsp : c ∈ spanning f x.key := by
      unfold spanning
      exact List.mem_filter.mpr ⟨hc, by simpa using ha⟩
    unfold inserted
    have h1 : (!f.dataAxes.contains x.key) = true := by simpa using hd
    rw [h1, Bool.true_and]
    cases x.dimCoord with
    | some _ =>
      simp only [Bool.or_eq_true, Bool.not_eq_true', List.isEmpty_eq_false_iff]
      exact Or.inr (List.ne_nil_of_mem hsp)
    | none =>
      simp only [List.any_eq_true, Bool.not_eq_true']
      exact ⟨c, hsp, hna⟩

/-- A covered axis ends among the final data axes, or has a dimension coordinate, or is spanned only by
1-d auxiliary coordinates of its own (at least one). -/
theorem covered_cases {o : Opts} {f : AField} {x : Axis} (hx : x ∈ f.axes) (hc : covered f x = true) :
    x.key ∈ finalDataAxes o f ∨ x.dimCoord.isSome ∨ ∃ c ∈ f.cons, c.ctype = .aux ∧ c.axes = [x.key] := by
  by_cases hfin : x.key ∈ finalDataAxes o f
  · exact Or.inl hfin
  by_cases hdc : x.dimCoord.isSome
  · exact Or.inr (Or.inl hdc)
  right; right
  unfold covered at hc
  simp only [Bool.or_eq_true, List.contains_eq_mem, decide_eq_true_eq, Bool.not_eq_true', List.isEmpty_eq_false_iff] at hc
  have hnd : x.key ∉ f.dataAxes := fun h => hfin (mem_final.mpr (Or.inr h))
  rcases hc with (h | h) | h
  · exact absurd h hnd
  · exact absurd h hdc
  · obtain ⟨c, hcm⟩ := List.exists_mem_of_ne_nil _ h
    have hcf : c ∈ f.cons := (List.mem_filter.mp hcm).1
    by_cases ha1 : isAux1 c x.key = true
    · simp only [isAux1, Bool.and_eq_true, beq_iff_eq] at ha1
      exact ⟨c, hcf, ha1.1, ha1.2⟩
    · exfalso
      have hna : isAux1 c x.key = false := by simpa using ha1
      have hdcn : x.dimCoord = none := by
        cases h' : x.dimCoord with
        | none => rfl
        | some _ => simp [h'] at hdc
      apply hfin
      refine mem_final.mpr (Or.inl ⟨x, hx, ?_, rfl⟩)
      unfold inserted
      have h1 : (!f.dataAxes.contains x.key) = true := by simpa using hnd
      rw [h1, Bool.true_and, hdcn]
      simp only [List.any_eq_true, Bool.not_eq_true']
      exact ⟨c, hcm, hna⟩

/-! ### the data variable -/

/-- A reference to a variable whose dimensions are among the referrer's resolves. -/
theorem refOK_sub {F : File} (hnd : F.varNames.Nodup) {v : Var} {r : Ref} {tv : Var}
    (hk : r.kind = .coordinates ∨ r.kind = .ancillary ∨ r.kind = .cellMeasures)
    (htv : tv ∈ F.vars) (hn : tv.name = r.target) (hd : ∀ d ∈ tv.dims, d ∈ v.dims) : refOK F v r = true := by
  have hl : F.var? r.target = some tv := hn ▸ var?_of_mem hnd htv
  have hs : subsetOf tv.dims (effDims F v) = true := by
    rw [subsetOf_iff]
    intro x hx
    unfold effDims
    exact List.mem_append_left _ (List.mem_append_left _ (hd x hx))
  unfold refOK
  rcases hk with hk | hk | hk <;> simp only [hk, hl, hs]

/-- An axis of `cell_methods` resolves when it is `area`, a dimension of the variable, or a scalar
coordinate variable that the variable lists in `coordinates`. -/
theorem refOK_cm {F : File} {v : Var} {t : String}
    (h : t = "area" ∨ t ∈ v.dims ∨ ((⟨.coordinates, t⟩ : Ref) ∈ v.refs ∧ ∃ tv, F.var? t = some tv ∧ tv.dims = [])) :
    refOK F v ⟨.cellMethodAxis, t⟩ = true := by
  unfold refOK
  simp only [Bool.or_eq_true, Bool.and_eq_true, List.contains_eq_mem, decide_eq_true_eq, beq_iff_eq]
  rcases h with h | h | ⟨h, tv, hl, hd⟩
  · exact Or.inl (Or.inr h)
  · left; left
    unfold effDims
    exact List.mem_append_left _ (List.mem_append_left _ h)
  · right
    refine ⟨h, ?_⟩
    rw [hl]; simp [hd]

/-- What one field's write leaves in the dataset. -/
structure FieldPost (o : Opts) (f : AField) (i : Info) (F : File) : Prop where
  /-- the data variable, on the dimensions of the final data axes, in order -/
  dataVar : ∃ v ∈ F.vars, v.name = i.ncvar ∧ v.dims = i.dims ∧ v.isData = true
  dimsOf : DimsOf i.fs (finalDataAxes o f) i.dims
  /-- CF 2.4: no dimension twice -/
  dimsND : i.dims.Nodup
  /-- every name in `coordinates` is a variable on dimensions of the data variable -/
  coords : ∀ t ∈ i.coords, ∃ tv ∈ F.vars, tv.name = t ∧ ∀ d ∈ tv.dims, d ∈ i.dims
  /-- every axis written in `cell_methods` is `area`, a dimension of the data variable, or a scalar
  coordinate variable listed in `coordinates` -/
  cms : ∀ m ∈ i.cmTokens, ∀ t ∈ m, t = "area" ∨ t ∈ i.dims ∨ (t ∈ i.coords ∧ ∃ tv ∈ F.vars, tv.name = t ∧ tv.dims = [])
  cmDef : i.cmTokens = f.cellMethods.map (·.map (cmToken i.fs))
  /-- the maps are complete, whichever path (create / already in the file) each construct took -/
  axisMapped : ∀ x ∈ f.axes, inFinal o f x.key = true → x.key ∈ keysOf i.fs.a2d
  dimCoordKeys : ∀ x ∈ f.axes, ∀ dc, x.dimCoord = some dc → dc.key ∈ keysOf i.fs.k2v
  consKeys : ∀ c ∈ f.cons, c.key ∈ keysOf i.fs.k2v
  keyVars : ∀ p ∈ i.fs.k2v, p.2 ∈ F.varNames

theorem FieldPost.grow {o : Opts} {f : AField} {i : Info} {F F' : File} (h : FieldPost o f i F) (hg : Grow F F') :
    FieldPost o f i F' where
  dataVar := by obtain ⟨v, hv, h1⟩ := h.dataVar; exact ⟨v, hg.vars v hv, h1⟩
  dimsOf := h.dimsOf
  dimsND := h.dimsND
  coords := by
    intro t ht
    obtain ⟨tv, htv, h1⟩ := h.coords t ht
    exact ⟨tv, hg.vars tv htv, h1⟩
  cms := by
    intro m hm t ht
    rcases h.cms m hm t ht with h1 | h1 | ⟨h1, tv, htv, h2⟩
    · exact Or.inl h1
    · exact Or.inr (Or.inl h1)
    · exact Or.inr (Or.inr ⟨h1, tv, hg.vars tv htv, h2⟩)
  cmDef := h.cmDef
  axisMapped := h.axisMapped
  dimCoordKeys := h.dimCoordKeys
  consKeys := h.consKeys
  keyVars := fun p hp => hg.varNames _ (h.keyVars p hp)

theorem writeField_spec (o : Opts) {ws : WS} (hG : GInv ws) (f : AField) (hf : FieldOKP f) :
    ∃ i ws', writeField true o ws f = some (i, ws') ∧ GInv ws' ∧ Grow ws.w.file ws'.w.file ∧ FieldPost o f i ws'.w.file := by
  unfold writeField
  -- the axes
  obtain ⟨ws1, fs1, h1, hA⟩ := stepAxes_spec o f f.axes hG (pinv_empty _ ws) hf.axesND (by intro a _ h; cases h)
  simp only [h1]
  have hmap1 : ∀ a ∈ finalDataAxes o f, a ∈ keysOf fs1.a2d := by
    intro a ha
    obtain ⟨x, hx, rfl⟩ := final_axis hf ha
    exact hA.mapped x hx (inFinal_iff.mpr ha)
  -- the other constructs
  have hcons : ∀ c ∈ f.cons, c.ctype ≠ .dimCoord ∧
      ∀ a ∈ c.axes, (isAux1 c a = true ∧ inFinal o f a = false) ∨ a ∈ keysOf fs1.a2d := by
    intro c hc
    refine ⟨(hf.cons c hc).1, ?_⟩
    intro a ha
    by_cases hin : inFinal o f a = true
    · exact Or.inr (hmap1 a (inFinal_iff.mp hin))
    · have hin' : inFinal o f a = false := by simpa using hin
      by_cases ha1 : isAux1 c a = true
      · exact Or.inl ⟨ha1, hin'⟩
      · exact absurd (inFinal_iff.mpr (spanned_inFinal hf hc ha (by simpa using ha1))) hin
  obtain ⟨ws2, fs2, refs, h2, hC⟩ := stepCons_spec o f f.cons (refs := []) hA.post.ginv hA.post.pinv
    (fun _ hr => nomatch hr) hcons
  simp only [h2]
  have hP := hC.post.pinv
  have hmap2 : ∀ a ∈ finalDataAxes o f, a ∈ keysOf fs2.a2d := by rw [hC.a2d]; exact hmap1
  -- the dimensions of the data variable
  obtain ⟨dims, hdims⟩ := ncdimsOf_some (fs := fs2) hmap2
  simp only [hdims]
  have hfa := ncdimsOf_forall hdims
  have hvd : ∀ d ∈ values fs2.a2d, d ∈ dims := by
    intro d hd
    obtain ⟨p, hp, rfl⟩ := List.mem_map.mp hd
    obtain ⟨d', hd', hl⟩ := forall2_mem_left hfa p.1 (hP.a2dD p hp).1
    have := lookup_of_mem_nodup hP.keysND (show (p.1, p.2) ∈ fs2.a2d from hp)
    rw [this] at hl
    cases hl
    exact hd'
  have hdimsfile : ∀ d ∈ dims, d ∈ ws2.w.file.dimNames := by
    intro d hd
    obtain ⟨a, _, hp⟩ := forall2_mem_right hfa d hd
    exact (hP.a2dD _ hp).2
  -- every covered axis is mapped one way or the other
  have hcov : ∀ x ∈ f.axes, covered f x = true → x.key ∈ keysOf fs2.a2d ∨ x.key ∈ keysOf fs2.a2s := by
    intro x hx hc
    rcases covered_cases (o := o) hx hc with h | h | ⟨c, hc', hct, hax⟩
    · exact Or.inl (hmap2 _ h)
    · by_cases hin : inFinal o f x.key = true
      · exact Or.inl (hmap2 _ (inFinal_iff.mp hin))
      · exact Or.inr (hC.post.a2sMono _ (hA.scalar x hx (by simpa using hin) h))
    · by_cases hin : inFinal o f x.key = true
      · exact Or.inl (hmap2 _ (inFinal_iff.mp hin))
      · exact Or.inr (hC.scalar c hc' hct x.key hax (by simpa using hin))
  -- the tokens of the cell methods
  have htok : ∀ m ∈ f.cellMethods, ∀ a ∈ m,
      cmToken fs2 a = "area" ∨ cmToken fs2 a ∈ dims
        ∨ (cmToken fs2 a ∈ fs2.coords ∧ ∃ tv ∈ ws2.w.file.vars, tv.name = cmToken fs2 a ∧ tv.dims = []) := by
    intro m hm a ha
    unfold cmToken
    cases hs : lookup a fs2.a2s with
    | some t =>
      obtain ⟨_, h2', h3⟩ := hP.a2s _ (lookup_mem hs)
      exact Or.inr (Or.inr ⟨h2', h3⟩)
    | none =>
      cases hd : lookup a fs2.a2d with
      | some d =>
        exact Or.inr (Or.inl (hvd d (List.mem_map.mpr ⟨(a, d), lookup_mem hd, rfl⟩)))
      | none =>
        simp only [Option.getD_none]
        rcases hf.cms m hm a ha with h | ⟨x, hx, rfl, hc⟩
        · exact Or.inl h
        · exfalso
          rcases hcov x hx hc with h | h
          · obtain ⟨v, hv⟩ := lookup_isSome_of_mem h; rw [hv] at hd; cases hd
          · obtain ⟨v, hv⟩ := lookup_isSome_of_mem h; rw [hv] at hs; cases hs
  -- the references of the data variable resolve, whatever fresh name it gets
  have hndF := (wfCore_iff.mp hC.post.ginv.inv.core.wf).2.1
  generalize hAR : refs ++ fs2.coords.map (fun n => (⟨.coordinates, n⟩ : Ref))
      ++ (f.cellMethods.map (·.map (cmToken fs2))).flatten.map (fun t => (⟨.cellMethodAxis, t⟩ : Ref)) = allRefs
  have hcoordR : ∀ t ∈ fs2.coords, (⟨.coordinates, t⟩ : Ref) ∈ allRefs := by
    intro t ht
    rw [← hAR]
    exact List.mem_append_left _ (List.mem_append_right _ (List.mem_map.mpr ⟨t, ht, rfl⟩))
  have hrefs : ∀ n, n ∉ ws2.w.file.varNames → ∀ r ∈ allRefs,
      refOK (addVar ws2.w.file ⟨n, dims, allRefs, true⟩) ⟨n, dims, allRefs, true⟩ r = true := by
    intro n hn r hr
    have hnd' : (addVar ws2.w.file ⟨n, dims, allRefs, true⟩).varNames.Nodup := by
      simp only [addVar, File.varNames, List.map_append, List.map_cons, List.map_nil]
      rw [List.nodup_append]
      refine ⟨hndF, by simp, ?_⟩
      intro a ha b hb hab
      simp only [List.mem_singleton] at hb
      exact hn (hb ▸ hab ▸ ha)
    have hold : ∀ tv ∈ ws2.w.file.vars, tv ∈ (addVar ws2.w.file ⟨n, dims, allRefs, true⟩).vars :=
      fun tv h => (grow_addVar _ _).vars tv h
    rw [← hAR] at hr
    rcases List.mem_append.mp hr with hr | hr
    · rcases List.mem_append.mp hr with hr | hr
      · obtain ⟨hk, tv, htv, htn, htd⟩ := hC.refs r hr
        exact refOK_sub hnd' (by rcases hk with hk | hk <;> simp [hk]) (hold tv htv) htn (fun d hd => hvd d (htd d hd))
      · obtain ⟨t, ht, rfl⟩ := List.mem_map.mp hr
        obtain ⟨tv, htv, htn, htd⟩ := hP.coords t ht
        exact refOK_sub hnd' (Or.inl rfl) (hold tv htv) htn (fun d hd => hvd d (htd d hd))
    · obtain ⟨t, ht, rfl⟩ := List.mem_map.mp hr
      obtain ⟨m', hm', htm⟩ := List.mem_flatten.mp ht
      obtain ⟨m, hm, rfl⟩ := List.mem_map.mp hm'
      obtain ⟨a, ha, rfl⟩ := List.mem_map.mp htm
      apply refOK_cm
      rcases htok m hm a ha with h | h | ⟨h, tv, htv, htn, htd⟩
      · exact Or.inl h
      · exact Or.inr (Or.inl h)
      · refine Or.inr (Or.inr ⟨hcoordR _ h, tv, ?_, htd⟩)
        exact htn ▸ var?_of_mem hnd' (hold tv htv)
  obtain ⟨n, w3, hcv, hI3, hf3, hnfresh, _, _⟩ := createVar_spec hC.post.ginv.inv (f.name.getD "data") dims allRefs true hdimsfile hrefs
  simp only [hcv]
  have hg3 : Grow ws2.w.file w3.file := hf3 ▸ grow_addVar _ _
  have hgrow : Grow ws.w.file w3.file := (hA.post.grow.trans hC.post.grow).trans hg3
  have hG3 : GInv { ws2 with w := w3, spans := ws2.spans ++ fs2.newSpans } := by
    refine ⟨hI3, ?_, hC.post.ginv.seenDim, ?_⟩
    · intro e he
      obtain ⟨tv, htv, ha, hb⟩ := hC.post.ginv.seen e he
      exact ⟨tv, hg3.vars tv htv, ha, hb⟩
    · intro s hs
      rcases List.mem_append.mp hs with hs | hs
      · exact hg3.dims _ (hC.post.ginv.spans s hs)
      · exact hg3.dims _ (hP.newSpans s hs)
  refine ⟨_, _, rfl, hG3, hgrow, ?_⟩
  have hdv : (⟨n, dims, allRefs, true⟩ : Var) ∈ w3.file.vars := by rw [hf3]; simp [addVar]
  refine ⟨⟨⟨n, dims, allRefs, true⟩, hdv, rfl, rfl, rfl⟩, hfa, forall2_nodup hP.valsND hfa (final_nodup hf), ?_, ?_, rfl, ?_, ?_, ?_, ?_⟩
  · intro t ht
    obtain ⟨tv, htv, htn, htd⟩ := hP.coords t ht
    exact ⟨tv, hg3.vars tv htv, htn, fun d hd => hvd d (htd d hd)⟩
  · intro m' hm' t ht
    obtain ⟨m, hm, rfl⟩ := List.mem_map.mp hm'
    obtain ⟨a, ha, rfl⟩ := List.mem_map.mp ht
    rcases htok m hm a ha with h | h | ⟨h, tv, htv, h2'⟩
    · exact Or.inl h
    · exact Or.inr (Or.inl h)
    · exact Or.inr (Or.inr ⟨h, tv, hg3.vars tv htv, h2'⟩)
  · intro x hx hin; exact hmap2 _ (inFinal_iff.mp hin)
  · intro x hx dc hdc; exact hC.post.k2vMono _ (hA.dck x hx dc hdc)
  · exact hC.k2v
  · intro p hp; exact hg3.varNames _ (hP.k2v p hp)

/-! ### a whole write -/

/-- Field by field, what the write left in the final dataset `F`. -/
inductive AllPost (o : Opts) (F : File) : List AField → List Info → Prop
  | nil : AllPost o F [] []
  | cons {f : AField} {i : Info} {fs : List AField} {is : List Info} :
      FieldPost o f i F → AllPost o F fs is → AllPost o F (f :: fs) (i :: is)

theorem AllPost.grow {o : Opts} {F F' : File} (hg : Grow F F') {fs : List AField} {is : List Info}
    (h : AllPost o F fs is) : AllPost o F' fs is := by
  induction h with
  | nil => exact .nil
  | cons h1 _ ih => exact .cons (h1.grow hg) ih

theorem writeFields_spec (o : Opts) : ∀ (fs : List AField) {ws : WS}, GInv ws → (∀ f ∈ fs, FieldOKP f) →
    ∃ is ws', writeFields true o ws fs = some (is, ws') ∧ GInv ws' ∧ Grow ws.w.file ws'.w.file ∧ AllPost o ws'.w.file fs is
  | [], ws, hG, _ => ⟨[], ws, rfl, hG, Grow.refl _, .nil⟩
  | f :: fs, ws, hG, hall => by
    obtain ⟨i, ws1, h1, hG1, hg1, hF1⟩ := writeField_spec o hG f (hall f List.mem_cons_self)
    obtain ⟨is, ws2, h2, hG2, hg2, hA2⟩ := writeFields_spec o fs hG1 (fun g hg => hall g (List.mem_cons_of_mem _ hg))
    exact ⟨i :: is, ws2, by simp only [writeFields, h1, h2], hG2, hg1.trans hg2, .cons (hF1.grow hg2) hA2⟩

theorem AllPost.length {o : Opts} {F : File} {fs : List AField} {is : List Info} (h : AllPost o F fs is) :
    is.length = fs.length := by
  induction h with
  | nil => rfl
  | cons _ _ ih => simp [ih]

end Cfdm.NcField
