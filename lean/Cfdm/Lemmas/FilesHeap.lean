import Cfdm.Model.Files
/-
C10 — the writer's working copy: mutating a deep copy cannot be seen through the original.
-/
namespace Cfdm.Files

theorem copyHeap_old (h : Heap) (next : Nat) (o : Obj) (shared : List Nat) (c : Nat) (hc : c < next) :
    copyHeap h next o shared c = h c := by
  unfold copyHeap
  have : ¬ next ≤ c := by omega
  simp [this]

theorem copyCells_fresh (next : Nat) (o : Obj) : ∀ c ∈ copyCells next o [], next ≤ c := by
  intro c hc
  simp only [copyCells, List.mem_map, List.mem_range] at hc
  obtain ⟨i, _, rfl⟩ := hc
  simp

theorem applyMut_old (h : Heap) (o' : Obj) (m : Mut) (next : Nat) (hfresh : ∀ c ∈ o', next ≤ c)
    (x : Nat) (hx : x < next) : applyMut h o' m x = h x := by
  unfold applyMut
  cases hc : o'[m.pos]? with
  | none => rfl
  | some c =>
    have := hfresh c (List.mem_of_getElem? hc)
    have hne : x ≠ c := by omega
    simp [hne]

theorem foldl_applyMut_old (o' : Obj) (next : Nat) (hfresh : ∀ c ∈ o', next ≤ c) (x : Nat) (hx : x < next) :
    ∀ (ms : List Mut) (h : Heap), (ms.foldl (fun hh m => applyMut hh o' m) h) x = h x := by
  intro ms
  induction ms with
  | nil => intro h; rfl
  | cons m ms ih =>
    intro h
    simp only [List.foldl_cons]
    rw [ih, applyMut_old h o' m next hfresh x hx]

theorem writerRun_old (h : Heap) (next : Nat) (o : Obj) (prog : List Mut) (k : Nat) (x : Nat) (hx : x < next) :
    writerRun h next o [] prog k x = h x := by
  unfold writerRun
  rw [foldl_applyMut_old _ next (copyCells_fresh next o) x hx, copyHeap_old h next o [] x hx]

/-- the copy starts out as a faithful copy -/
theorem view_copy (h : Heap) (next : Nat) (o : Obj) :
    view (copyHeap h next o []) (copyCells next o []) = view h o := by
  apply List.ext_getElem
  · simp [view, copyCells]
  · intro i h1 h2
    simp only [view, copyCells, List.getElem_map, List.getElem_range]
    have hi : i < o.length := by simpa [view, copyCells] using h1
    simp only [List.contains_nil, Bool.false_eq_true, if_false, copyHeap]
    have : next ≤ next + i ∧ next + i - next < o.length ∧ True := ⟨by omega, by omega, trivial⟩
    simp [this.1, Nat.add_sub_cancel_left, hi]

end Cfdm.Files
