import Cfdm.Model.GeometryOps
import Cfdm.Lemmas.Geometry
/- Helper lemmas for the operations theorems of C14. -/
namespace Cfdm.GeometryOps
open Cfdm.Geometry

theorem padCellW_eq {α} (mp mn : Nat) (c : List (List α)) : padCellW mp mn c = padCell mp mn c := rfl

/-! ### the writer on bounds padded to any trailing sizes -/

theorem wNodes_padW {α} (mp mn : Nat) (cs : Cells α) : wNodes (padW mp mn cs) = nodesOf cs := by
  simp only [wNodes, nodesOf, padW, List.filterMap_flatten]
  induction cs with
  | nil => rfl
  | cons c cs ih =>
    simp only [List.map_cons, List.flatten_cons, List.map_append, List.flatten_append]
    rw [ih]
    congr 1
    have := padCell_nodes mp mn c
    rwa [List.filterMap_flatten] at this

theorem wNodeCount_padW {α} (mp mn : Nat) (cs : Cells α) : wNodeCount (padW mp mn cs) = nodeCount cs := by
  simp only [wNodeCount, nodeCount, padW, List.map_map]
  apply List.map_congr_left
  intro c _
  simp [padCellW_eq, padCell_counts, List.sum_append]

theorem pnc_padW {α} (mp mn : Nat) (cs : Cells α) (h : WF cs) :
    ((padW mp mn cs).flatten.map countSome).filter (· != 0) = partNodeCount cs := by
  simp only [partNodeCount, padW]
  induction cs with
  | nil => rfl
  | cons c cs ih =>
    have hc := (h c (by simp)).2
    simp only [List.map_cons, List.flatten_cons, List.map_append, List.filter_append]
    rw [ih (fun c hc => h c (by simp [hc]))]
    congr 1
    rw [padCellW_eq, padCell_counts, List.filter_append]
    have h1 : (c.map List.length).filter (· != 0) = c.map List.length := by
      rw [List.filter_eq_self]
      intro a ha
      obtain ⟨p, hp, rfl⟩ := List.mem_map.mp ha
      have : p.length ≠ 0 := fun h0 => hc p hp (List.length_eq_zero_iff.mp h0)
      simp [this]
    have h2 : (List.replicate (mp - c.length) 0).filter (· != 0) = [] := by
      rw [List.filter_eq_nil_iff]; intro a ha; simp [(List.mem_replicate.mp ha).2]
    rw [h1, h2]; simp

theorem wRing_padRowsW {β} (mp : Nat) (rs : List (List β)) : wRing (padRowsW mp rs) = rs.flatten := by
  simp only [wRing, padRowsW, List.filterMap_flatten, List.map_map]
  congr 1
  have : (List.filterMap id ∘ fun (r : List β) => padTo mp none (r.map some)) = id := by
    funext r; exact filterMap_id_padTo _ r
  rw [this]; simp

theorem padW_dim1 {α} (mp mn : Nat) (cs : Cells α) (hne : cs ≠ []) (hmp : ∀ c ∈ cs, c.length ≤ mp) :
    (shape3 (padW mp mn cs)).getD 1 0 = mp := by
  cases cs with
  | nil => exact absurd rfl hne
  | cons c cs =>
    have : c.length ≤ mp := hmp c (by simp)
    simp only [shape3, padW, List.map_cons, List.head?_cons, Option.map_some, Option.getD_some,
      List.getD_eq_getElem?_getD]
    simp only [padCellW]
    rw [padTo_length _ _ _ (by simpa using this)]
    rfl

/-! ### subspace -/

theorem takeRows_map {β γ} (f : β → γ) (rows : List β) (d : β) (d' : γ) (sel : List Nat)
    (h : ∀ i ∈ sel, i < rows.length) : takeRows sel (rows.map f) d' = (takeRows sel rows d).map f := by
  simp only [takeRows, List.map_map]
  apply List.map_congr_left
  intro i hi
  have := h i hi
  simp [List.getD_eq_getElem?_getD, this]

theorem wf_takeRows {α} (cs : Cells α) (h : WF cs) (sel : List Nat) (hs : ∀ i ∈ sel, i < cs.length) :
    WF (takeRows sel cs []) := by
  intro c hc
  simp only [takeRows, List.mem_map] at hc
  obtain ⟨i, hi, rfl⟩ := hc
  have := hs i hi
  apply h
  simp [List.getD_eq_getElem?_getD, this]

theorem mem_takeRows {β} (rows : List β) (d : β) (sel : List Nat) (hs : ∀ i ∈ sel, i < rows.length) :
    ∀ x ∈ takeRows sel rows d, x ∈ rows := by
  intro x hx
  simp only [takeRows, List.mem_map] at hx
  obtain ⟨i, hi, rfl⟩ := hx
  have := hs i hi
  simp [List.getD_eq_getElem?_getD, this]

/-! ### shapes -/

theorem dropAxesFrom_none (axes t : List Nat) : ∀ i, (∀ a ∈ axes, a < i) → dropAxesFrom i axes t = t := by
  induction t with
  | nil => intro i _; rfl
  | cons x xs ih =>
    intro i h
    have hni : axes.contains i = false := by
      rw [Bool.eq_false_iff]
      intro hc
      have := h i (by simpa using hc)
      omega
    simp only [dropAxesFrom, hni]
    rw [ih (i + 1) (fun a ha => by have := h a ha; omega)]
    rfl

theorem dropAxesFrom_append (axes t : List Nat) : ∀ (c : List Nat) (i : Nat), (∀ a ∈ axes, a < i + c.length) →
    dropAxesFrom i axes (c ++ t) = dropAxesFrom i axes c ++ t := by
  intro c
  induction c with
  | nil =>
    intro i h
    simp only [List.nil_append, dropAxesFrom]
    exact dropAxesFrom_none axes t i (by simpa using h)
  | cons x xs ih =>
    intro i h
    have h' : ∀ a ∈ axes, a < i + 1 + xs.length := by
      intro a ha; have := h a ha; simp only [List.length_cons] at this; omega
    simp only [List.cons_append, dropAxesFrom]
    rw [ih (i + 1) h']
    split <;> rfl

theorem insAt_append (pos : Nat) (c t : List Nat) (h : pos ≤ c.length) : insAt pos (c ++ t) = insAt pos c ++ t := by
  simp only [insAt, List.take_append_of_le_length h, List.drop_append_of_le_length h, List.append_assoc]

theorem permute_append (axes c t : List Nat) (h : ∀ a ∈ axes, a < c.length) :
    permute (axes ++ List.range' c.length t.length) (c ++ t) = permute axes c ++ t := by
  simp only [permute, List.map_append]
  congr 1
  · apply List.map_congr_left
    intro a ha
    have := h a ha
    simp [List.getD_eq_getElem?_getD, List.getElem?_append_left this]
  · apply List.ext_getElem
    · simp
    · intro i h1 h2
      simp only [List.length_map, List.length_range'] at h1
      simp [List.getD_eq_getElem?_getD, List.getElem?_append_right, h1]

end Cfdm.GeometryOps
