import Cfdm.Model.UgridRead
import Cfdm.Lemmas.UgridNormalise
import Cfdm.Lemmas.UgridNormMeaning
/- Helper lemmas for the reader part of C15 (kept apart from the property theorems). -/
namespace Cfdm.UgridRead
open Cfdm.Ugrid

/-! ### transposition is an involution on rectangular arrays -/

theorem transpose_length {α} (a : List (List (Option α))) (w : Nat) (hne : a ≠ [])
    (hrect : ∀ r ∈ a, r.length = w) : (transpose a).length = w := by
  cases a with
  | nil => exact absurd rfl hne
  | cons r0 t => simp [transpose, hrect r0 (by simp)]

theorem transpose_row {α} (a : List (List (Option α))) (w : Nat) (hne : a ≠ [])
    (hrect : ∀ r ∈ a, r.length = w) (j : Nat) (hj : j < w) :
    (transpose a)[j]? = some (a.map (fun row => (row[j]?).join)) := by
  cases a with
  | nil => exact absurd rfl hne
  | cons r0 t =>
    have hw : r0.length = w := hrect r0 (by simp)
    simp only [transpose, List.getElem?_map, List.getElem?_range (by omega : j < r0.length),
      Option.map_some]

theorem transpose_transpose {α} (a : List (List (Option α))) (h : RectPos a) :
    transpose (transpose a) = a := by
  obtain ⟨w, hw, hne, hrect⟩ := h
  have hlenT := transpose_length a w hne hrect
  have hneT : transpose a ≠ [] := by
    intro e; rw [e] at hlenT; simp at hlenT; omega
  have hrectT : ∀ r ∈ transpose a, r.length = a.length := by
    intro r hr
    obtain ⟨j, hj⟩ := List.mem_iff_getElem?.mp hr
    have hjw : j < w := by
      have := (List.getElem?_eq_some_iff.mp hj).1; omega
    rw [transpose_row a w hne hrect j hjw] at hj
    cases hj; simp
  have hlenTT := transpose_length (transpose a) a.length hneT hrectT
  apply List.ext_getElem?
  intro i
  by_cases hi : i < a.length
  · rw [transpose_row (transpose a) a.length hneT hrectT i hi]
    have hai : a[i]? = some a[i] := List.getElem?_eq_getElem hi
    rw [hai]
    congr 1
    have hrow : a[i].length = w := hrect _ (List.getElem_mem hi)
    apply List.ext_getElem?
    intro j
    by_cases hj : j < w
    · have h1 : (transpose a)[j]? = some (a.map (fun row => (row[j]?).join)) :=
        transpose_row a w hne hrect j hj
      have hij : a[i][j]? = some a[i][j] := List.getElem?_eq_getElem (by omega)
      simp only [List.getElem?_map, h1, Option.map_some]
      simp only [hai, Option.map_some, Option.join_some, hij]
    · have h1 : (transpose a)[j]? = none := by
        apply List.getElem?_eq_none; omega
      have h2 : a[i][j]? = none := by apply List.getElem?_eq_none; omega
      simp only [List.getElem?_map, h1, Option.map_none, h2]
  · have h1 : (transpose (transpose a))[i]? = none := by
      apply List.getElem?_eq_none; omega
    have h2 : a[i]? = none := by apply List.getElem?_eq_none; omega
    rw [h1, h2]

theorem rectPos_mapVals {α β} (f : α → β) (a : List (List (Option α))) (h : RectPos a) :
    RectPos (mapVals f a) := by
  obtain ⟨w, hw, hne, hrect⟩ := h
  refine ⟨w, hw, ?_, ?_⟩
  · intro e; apply hne; simpa [mapVals] using e
  · intro r hr
    simp only [mapVals, List.mem_map] at hr
    obtain ⟨r0, hr0, rfl⟩ := hr
    simpa using hrect r0 hr0

/-! ### the cell dimension of one stored variable -/

theorem idxOf_pair_snd (c o : String) (hne : c ≠ o) : [o, c].idxOf c = 1 := by
  have h1 : (o == c) = false := by
    simp only [beq_eq_false_iff_ne, ne_eq]; exact fun e => hne e.symm
  simp [List.idxOf_cons, h1]

theorem idxOf_pair_fst (c o : String) : [c, o].idxOf c = 0 := by
  simp [List.idxOf_cons]

theorem idxOf_le_of_getElem? (l : List String) (d : String) (j : Nat) (h : l[j]? = some d) :
    l.idxOf d ≤ j := by
  induction l generalizing j with
  | nil => simp at h
  | cons a t ih =>
    rw [List.idxOf_cons]
    by_cases hb : (a == d) = true
    · simp [hb]
    · simp only [hb, cond_false, Bool.false_eq_true, if_false]
      cases j with
      | zero =>
        simp only [List.getElem?_cons_zero, Option.some.injEq] at h
        exact absurd (by simp [h]) hb
      | succ j' =>
        have := ih j' (by simpa using h)
        omega

theorem head?_of_firstCol (d : IMat) (hl : (firstCol d).length = d.length) (i : Nat) (r : IRow)
    (hr : d[i]? = some r) : r.head?.join = (firstCol d)[i]? := by
  induction d generalizing i with
  | nil => simp at hr
  | cons r0 t ih =>
    have hle : (firstCol t).length ≤ t.length := by
      simp only [firstCol]; exact List.length_filterMap_le _ _
    cases h0 : r0.head?.join with
    | none =>
      have : firstCol (r0 :: t) = firstCol t := by simp [firstCol_cons, h0]
      rw [this] at hl; simp at hl; omega
    | some v =>
      have hfc : firstCol (r0 :: t) = v :: firstCol t := by simp [firstCol_cons, h0]
      have hl' : (firstCol t).length = t.length := by rw [hfc] at hl; simpa using hl
      cases i with
      | zero =>
        simp only [List.getElem?_cons_zero, Option.some.injEq] at hr
        subst hr
        simp [hfc, h0]
      | succ i' =>
        rw [hfc]
        simp only [List.getElem?_cons_succ] at hr ⊢
        exact ih hl' i' hr

/-- The position computed from the attribute and the dimensions of THIS variable is the storage
order of this variable. -/
theorem cellDimension_storeVar (m : Mesh) (loc : Loc) (c o : String) (e : Enc) (a : Mat)
    (hne : c ≠ o) (hcd : e.cd ≤ 1) (hattr : dimAttr m loc = none ∨ dimAttr m loc = some c)
    (hneed : e.cd = 1 → dimAttr m loc = some c) :
    cellDimension m loc (storeVar c o e a) = some e.cd := by
  unfold cellDimension
  by_cases h1 : e.cd = 1
  · rw [hneed h1]
    simp only [storeVar, h1, if_true, idxOf_pair_snd c o hne]
    simp
  · have h0 : e.cd = 0 := by omega
    rcases hattr with h | h
    · rw [h, h0]
    · rw [h]
      simp only [storeVar, h0, idxOf_pair_fst]
      simp

/-- … hence the oriented array is the logical array plus the start index, whatever the order. -/
theorem oriented_storeVar (m : Mesh) (loc : Loc) (c o : String) (e : Enc) (a : Mat)
    (hne : c ≠ o) (hcd : e.cd ≤ 1) (hattr : dimAttr m loc = none ∨ dimAttr m loc = some c)
    (hneed : e.cd = 1 → dimAttr m loc = some c) (hrect : RectPos a) :
    oriented m loc (storeVar c o e a) = some (mapVals (· + e.si) a) := by
  unfold oriented
  rw [cellDimension_storeVar m loc c o e a hne hcd hattr hneed]
  simp only [Option.map_some, Option.some.injEq]
  by_cases h1 : e.cd = 1
  · simp only [selectData, storeVar, h1, if_true]
    exact transpose_transpose _ (rectPos_mapVals _ a hrect)
  · have h0 : e.cd = 0 := by omega
    simp [selectData, storeVar, h0]

/-! ### removing the start index -/

theorem mapVals_add_sub (si : Nat) (a : Mat) : mapVals (· - si) (mapVals (· + si) a) = a := by
  rw [mapVals_mapVals]
  exact mapVals_id' _ a (fun v _ => by simp)

theorem shiftCells_add (si : Nat) (a : Mat) : shiftCells si (mapVals (· + si) a) = a := by
  unfold shiftCells
  by_cases h : si = 0
  · subst h
    simp only [ne_eq, not_true_eq_false, if_false]
    exact mapVals_id' _ a (fun v _ => by simp)
  · simp only [ne_eq, h, not_false_eq_true, if_true]
    exact mapVals_add_sub si a

theorem toOneBased_add (si : Nat) (a : Mat) (hsi : si ≤ 1) :
    toOneBased si (mapVals (· + si) a) = toOneBased 0 a := by
  unfold toOneBased
  by_cases h : si = 0
  · subst h
    simp only [if_true]
    congr 1
    exact mapVals_id' _ a (fun v _ => by simp)
  · have h1 : si = 1 := by omega
    subst h1
    simp

theorem pointTopology_add (src : Src) (si n : Nat) (a : Mat) (hsi : si ≤ 1) :
    pointTopology src si (some n) (mapVals (· + si) a) = pointTopology src 0 (some n) a := by
  simp only [pointTopology, toOneBased_add si a hsi]

theorem specRow_add (si : Nat) (r : Row) : specRow si (r.map (fun o => o.map (· + si))) = r := by
  simp only [specRow, List.map_map]
  conv => rhs; rw [← List.map_id r]
  apply List.map_congr_left
  intro o _
  cases o <;> simp

theorem specCellConnectivity_add (si : Nat) (a : Mat) :
    specCellConnectivity si (mapVals (· + si) a) = specCellConnectivity 0 a := by
  simp only [specCellConnectivity, mapVals, List.length_map]
  apply List.map_congr_left
  intro i hi
  have hi' : i < a.length := List.mem_range.mp hi
  simp only [List.getD_eq_getElem?_getD, List.getElem?_map, List.getElem?_eq_getElem hi',
    Option.map_some, Option.getD_some]
  rw [specRow_add]
  simp [specRow]

theorem specBounds_add (si : Nat) (a : Mat) (coords : List Int) :
    specBounds si (mapVals (· + si) a) coords = specBounds 0 a coords := by
  simp only [specBounds, mapVals, List.map_map]
  apply List.map_congr_left
  intro r _
  simp only [Function.comp, List.map_map]
  apply List.map_congr_left
  intro o _
  cases o <;> simp

/-! ### `takeRows` -/

theorem takeRows_length {α} (pos : List Nat) (m : List α) (h : ∀ i ∈ pos, i < m.length) :
    (takeRows pos m).length = pos.length := by
  induction pos with
  | nil => rfl
  | cons i t ih =>
    have hi : i < m.length := h i (by simp)
    have ht : ∀ j ∈ t, j < m.length := fun j hj => h j (List.mem_cons_of_mem _ hj)
    simp only [takeRows, List.filterMap_cons, List.getElem?_eq_getElem hi, List.length_cons]
    exact congrArg (· + 1) (ih ht)

theorem takeRows_getElem? {α} (pos : List Nat) (m : List α) (h : ∀ i ∈ pos, i < m.length)
    (k : Nat) : (takeRows pos m)[k]? = (pos[k]?).bind (fun i => m[i]?) := by
  induction pos generalizing k with
  | nil => simp [takeRows]
  | cons i t ih =>
    have hi : i < m.length := h i (by simp)
    have ht : ∀ j ∈ t, j < m.length := fun j hj => h j (List.mem_cons_of_mem _ hj)
    have hstep : takeRows (i :: t) m = m[i] :: takeRows t m := by
      simp [takeRows, List.filterMap_cons, List.getElem?_eq_getElem hi]
    rw [hstep]
    cases k with
    | zero => simp [List.getElem?_eq_getElem hi]
    | succ k' => simpa using ih ht k'

theorem takeRows_takeRows {α} (p q : List Nat) (m : List α) (hq : ∀ i ∈ q, i < m.length) :
    takeRows p (takeRows q m) = takeRows (takeRows p q) m := by
  induction p with
  | nil => rfl
  | cons i t ih =>
    simp only [takeRows, List.filterMap_cons] at ih ⊢
    have hk := takeRows_getElem? q m hq i
    simp only [takeRows] at hk
    rw [hk]
    cases hqi : q[i]? with
    | none => simpa using ih
    | some j =>
      have hj : j < m.length := hq j (List.mem_of_getElem? hqi)
      simp only [Option.bind_some, List.getElem?_eq_getElem hj, List.filterMap_cons]
      exact congrArg (m[j] :: ·) ih

theorem firstCol_takeRows (m : IMat) (pos : List Nat) (hids : firstCol m = arange 0 m.length)
    (hpos : ∀ i ∈ pos, i < m.length) :
    firstCol (takeRows pos m) = pos.map (fun (i : Nat) => (i : Int)) := by
  have hl : (firstCol m).length = m.length := by rw [hids, length_arange]
  induction pos with
  | nil => rfl
  | cons i t ih =>
    have hi : i < m.length := hpos i (by simp)
    have ht : ∀ j ∈ t, j < m.length := fun j hj => hpos j (List.mem_cons_of_mem _ hj)
    have hstep : takeRows (i :: t) m = m[i] :: takeRows t m := by
      simp [takeRows, List.getElem?_eq_getElem hi]
    have hh := head?_of_firstCol m hl i m[i] (List.getElem?_eq_getElem hi)
    have hget : (arange 0 m.length)[i]? = some (i : Int) := by
      simp [arange, List.getElem?_map, List.getElem?_range hi]
    rw [hids, hget] at hh
    rw [hstep, firstCol_cons, hh, ih ht]
    rfl

theorem idxOf_map_inj (ids : List Int) (σ : Int → Int) (hσ : ∀ a b, σ a = σ b → a = b) (v : Int) :
    (ids.map σ).idxOf (σ v) = ids.idxOf v := by
  induction ids with
  | nil => rfl
  | cons a t ih =>
    simp only [List.map_cons, List.idxOf_cons]
    by_cases h : a = v
    · subst h; simp
    · have h1 : (a == v) = false := by simpa using h
      have h2 : (σ a == σ v) = false := by
        simp only [beq_eq_false_iff_ne, ne_eq]; exact fun e => h (hσ _ _ e)
      simp [h1, h2, ih]

end Cfdm.UgridRead
