import Cfdm.Model.Emit
/- Helper lemmas for the creation-commands round trip of the non-container classes (C19). Core Lean only. -/
namespace Cfdm.Emit

/-! ### hypotheses of the round trip, as decidable predicates -/

def Sc.finite : Sc → Bool
  | .nonfinite _ => false
  | _ => true

/-- `repr` of the value, after the emitter's `tolist()`, can be evaluated in a fresh namespace -/
def PVal.evaluable : PVal → Bool
  | .atom a => a.sc.finite
  | .list l => l.all (fun a => !a.np && a.sc.finite)
  | .arr l => l.all Sc.finite

/-- the unmasked values are finite -/
def unmaskedFinite : List Sc → List Bool → Bool
  | v :: vs, m :: ms => (m || v.finite) && unmaskedFinite vs ms
  | vs, [] => vs.all Sc.finite
  | [], _ => true

/-- units / calendar: `{units!r}` can be evaluated (`fix` = numpy scalars are converted first) -/
def unitsOK (fix : Bool) : Option Atom → Bool
  | none => true
  | some a => (fix || !a.np) && a.sc.finite

/-- the fill value is spelt evaluably: as the code is (`{fill_value}`, no `repr`) a number;
with the repair any finite scalar -/
def fillOK (fix : Bool) : Option Atom → Bool
  | none => true
  | some a => if fix then a.sc.finite else
    match a.sc with
    | .num _ => true
    | _ => false

/-- Hypotheses on a Data object under which its creation command is emitted and evaluates back:
the mask has the length of the values; no zero-sized dimension is followed by another one;
every unmasked value is finite; units, calendar and fill value are spelt evaluably; masked data
have a fill value (their own, or the default of their type) and it is finite. -/
def dataOK (fix : Bool) (d : MData) : Bool :=
  decide (d.mask.length = d.vals.length) && decide (litShape d.shape = d.shape) &&
  unmaskedFinite d.vals d.mask && unitsOK fix d.units && unitsOK fix d.calendar && fillOK fix d.fill &&
  (!d.masked || (match fillSc d with
                 | some f => f.finite
                 | none => false))

/-- the Data object that evaluating the emitted expression builds -/
def rebuiltData (d : MData) : MData :=
  { shape := litShape d.shape,
    vals := if d.masked then (match fillSc d with
                              | some f => fillUnder d.vals d.mask f
                              | none => d.vals) else d.vals,
    mask := if d.masked then d.mask else d.vals.map (fun _ => false),
    units := normAtom d.units, calendar := normAtom d.calendar, fill := normAtom d.fill, dtype := d.dtype }

/-! ### running statement lists -/

theorem run_append (pkg : List Char) (env : Env) (a b : List Stmt) :
    run pkg env (a ++ b) = (run pkg env a).bind (fun e => run pkg e b) := by
  induction a generalizing env with
  | nil => simp [run]
  | cons s ss ih =>
    simp only [List.cons_append, run]
    cases step pkg env s with
    | none => simp
    | some e => exact ih e

@[simp] theorem run_nil (pkg : List Char) (env : Env) : run pkg env [] = some env := rfl

theorem run_cons (pkg : List Char) (env : Env) (s : Stmt) (ss : List Stmt) :
    run pkg env (s :: ss) = (step pkg env s).bind (fun e => run pkg e ss) := by
  simp only [run]
  cases step pkg env s <;> rfl

theorem run_headerS (pkg : List Char) (env : Env) (h : Bool) : run pkg env (headerS h) = some env := by
  cases h <;> simp [headerS, run, step]

@[simp] theorem Env.set_same (e : Env) (n : String) (o : Obj) : (e.set n o) n = some o := by
  simp [Env.set]

theorem Env.set_set (e : Env) (n : String) (a b : Obj) : (e.set n a).set n b = e.set n b := by
  funext m
  by_cases h : m = n <;> simp [Env.set, h]

theorem Env.set_other (e : Env) (n m : String) (o : Obj) (h : m ≠ n) : (e.set n o) m = e m := by
  simp [Env.set, h]

/-! ### literals -/

theorem evalLits_repr (vals : List Sc) (h : vals.all Sc.finite = true) :
    evalLits (vals.map (fun s => reprLit (py s))) = some vals := by
  induction vals with
  | nil => rfl
  | cons v vs ih =>
    simp only [List.all_cons, Bool.and_eq_true] at h
    simp only [List.map_cons, evalLits, ih h.2]
    cases v <;> simp_all [reprLit, py, Lit.eval, Sc.finite]

theorem evalLits_reprAtoms (l : List Atom) (h : l.all (fun a => !a.np && a.sc.finite) = true) :
    evalLits (l.map reprLit) = some (l.map (·.sc)) := by
  induction l with
  | nil => rfl
  | cons a as ih =>
    simp only [List.all_cons, Bool.and_eq_true] at h
    simp only [List.map_cons, evalLits, ih h.2]
    obtain ⟨np, sc⟩ := a
    cases sc <;> simp_all [reprLit, Lit.eval, Sc.finite]

theorem spell_eval (v : PVal) (h : v.evaluable = true) : v.spell.eval = some v.norm := by
  cases v with
  | atom a =>
    obtain ⟨np, sc⟩ := a
    cases np <;> cases sc <;> simp_all [PVal.evaluable, PVal.spell, LitExpr.eval, reprLit, Atom.tolist, Lit.eval,
      PVal.norm, py, Sc.finite]
  | list l =>
    simp only [PVal.evaluable] at h
    simp [PVal.spell, LitExpr.eval, evalLits_reprAtoms l h, PVal.norm, List.map_map, Function.comp_def]
  | arr l =>
    simp only [PVal.evaluable] at h
    simp [PVal.spell, LitExpr.eval, evalLits_repr l h, PVal.norm]

theorem evalProps_spell (ps : List (String × PVal)) (h : ps.all (fun p => p.2.evaluable) = true) :
    evalProps (ps.map (fun p => (p.1, p.2.spell))) = some (normProps ps) := by
  induction ps with
  | nil => rfl
  | cons p ps ih =>
    simp only [List.all_cons, Bool.and_eq_true] at h
    simp [evalProps, spell_eval p.2 h.1, ih h.2, normProps]

/-! ### dictionaries -/

theorem dictSet_append {β} (k : String) (v : β) (l : List (String × β)) (h : k ∉ l.map (·.1)) :
    dictSet k v l = l ++ [(k, v)] := by
  induction l with
  | nil => rfl
  | cons p l ih =>
    simp only [List.map_cons, List.mem_cons, not_or] at h
    simp only [dictSet, List.cons_append]
    rw [if_neg (fun e => h.1 e.symm), ih h.2]

theorem dictUpdate_append {β} (d ps : List (String × β)) (h : ((d ++ ps).map (·.1)).Nodup) :
    dictUpdate d ps = d ++ ps := by
  induction ps generalizing d with
  | nil => simp [dictUpdate]
  | cons p ps ih =>
    have hp : p.1 ∉ d.map (·.1) := by
      simp only [List.map_append, List.map_cons, List.nodup_append, List.mem_cons] at h
      intro hm
      exact h.2.2 _ hm _ (Or.inl rfl) rfl
    have : dictUpdate d (p :: ps) = dictUpdate (dictSet p.1 p.2 d) ps := by simp [dictUpdate]
    rw [this, dictSet_append _ _ _ hp, ih]
    · simp
    · simpa using h

theorem dictUpdate_nil {β} (ps : List (String × β)) (h : (ps.map (·.1)).Nodup) : dictUpdate [] ps = ps := by
  simpa using dictUpdate_append [] ps (by simpa using h)

/-! ### Data -/

theorem blank_fillUnder (vals : List Sc) (mask : List Bool) (f : Sc) :
    blank (fillUnder vals mask f) mask = blank vals mask := by
  induction vals generalizing mask with
  | nil => cases mask <;> simp [fillUnder, blank]
  | cons v vs ih =>
    cases mask with
    | nil => simp [fillUnder, blank]
    | cons m ms => cases m <;> simp [fillUnder, blank, ih]

theorem fillUnder_finite (vals : List Sc) (mask : List Bool) (f : Sc)
    (h : unmaskedFinite vals mask = true) (hf : f.finite = true) :
    (fillUnder vals mask f).all Sc.finite = true := by
  induction vals generalizing mask with
  | nil => cases mask <;> simp [fillUnder]
  | cons v vs ih =>
    cases mask with
    | nil => simpa [fillUnder, unmaskedFinite] using h
    | cons m ms =>
      simp only [unmaskedFinite, Bool.and_eq_true, Bool.or_eq_true] at h
      have := ih ms h.2
      cases m
      · simp only [fillUnder, List.all_cons, Bool.and_eq_true, Bool.false_eq_true, ↓reduceIte]
        exact ⟨by simpa using h.1, this⟩
      · simp only [fillUnder, List.all_cons, Bool.and_eq_true, ↓reduceIte]
        exact ⟨hf, this⟩

theorem unmasked_all_finite (vals : List Sc) (mask : List Bool) (hl : mask.length = vals.length)
    (hm : mask.any id = false) (h : unmaskedFinite vals mask = true) :
    vals.all Sc.finite = true ∧ vals.map (fun _ => false) = mask := by
  induction vals generalizing mask with
  | nil => cases mask <;> simp_all
  | cons v vs ih =>
    cases mask with
    | nil => simp at hl
    | cons m ms =>
      simp only [List.any_cons, id, Bool.or_eq_false_iff] at hm
      simp only [unmaskedFinite, Bool.and_eq_true, Bool.or_eq_true] at h
      have := ih ms (by simpa using hl) hm.2 h.2
      simp_all

theorem evOpt_units (fix : Bool) (o : Option Atom) (h : unitsOK fix o = true) :
    evOpt (o.map (unitsLit fix)) = some (normAtom o) := by
  cases o with
  | none => rfl
  | some a =>
    obtain ⟨np, sc⟩ := a
    cases fix <;> cases np <;> cases sc <;>
      simp_all [unitsOK, evOpt, unitsLit, reprLit, Atom.tolist, Lit.eval, normAtom, py, Sc.finite]

theorem evOpt_fill (fix : Bool) (o : Option Atom) (h : fillOK fix o = true) :
    evOpt (o.map (fillLit fix)) = some (normAtom o) := by
  cases o with
  | none => rfl
  | some a =>
    obtain ⟨np, sc⟩ := a
    cases fix <;> cases np <;> cases sc <;>
      simp_all [fillOK, evOpt, fillLit, unitsLit, strLit, reprLit, Atom.tolist, Lit.eval, normAtom, py, Sc.finite]

theorem nsPrefix_idem (o : Option (List Char)) : nsPrefix (some (nsPrefix o)) = nsPrefix o := by
  cases o with
  | none => decide
  | some l =>
    cases l with
    | nil => rfl
    | cons c l =>
      by_cases h : (c :: l).getLast? = some '.'
      · simp [nsPrefix, h]
      · simp only [nsPrefix, h, if_false]
        have hlast : ((c :: l) ++ ['.']).getLast? = some '.' := List.getLast?_concat
        cases hl : (c :: l) ++ ['.'] with
        | nil => simp at hl
        | cons c' l' => rw [hl] at hlast; simp only [hlast, if_true]

/-- the prefix is empty or ends with a dot: `<prefix>Data` is a name of the package -/
theorem nsPrefix_shape (o : Option (List Char)) : nsPrefix o = [] ∨ (nsPrefix o).getLast? = some '.' := by
  cases o with
  | none => right; decide
  | some l =>
    cases l with
    | nil => left; rfl
    | cons c l =>
      right
      by_cases h : (c :: l).getLast? = some '.'
      · simp [nsPrefix, h]
      · simp only [nsPrefix, h, if_false]
        exact List.getLast?_concat

/-- `Data.creation_commands` succeeds, the expression evaluates to `rebuiltData d` in a namespace
holding the package under the prefix, and both constructor calls carry the prefix. -/
theorem emitData_eval (fix : Bool) (d : MData) (nm : Option String) (ns0 : Option (List Char))
    (hok : dataOK fix d = true) (hnm : d.masked = true → nm ≠ some "mask") :
    ∃ e, emitDataWith fix d nm ns0 = some e ∧ e.eval (nsPrefix ns0) = some (rebuiltData d) ∧
      e.ctorsUse (nsPrefix ns0) = true := by
  simp only [dataOK, Bool.and_eq_true, decide_eq_true_eq, Bool.or_eq_true, Bool.not_eq_true'] at hok
  obtain ⟨⟨⟨⟨⟨⟨hl, hs⟩, hv⟩, hu⟩, hc⟩, hf⟩, hm⟩ := hok
  by_cases hmask : d.masked = true
  · have hnm' := hnm hmask
    rcases hm with hm | hm
    · simp [hmask] at hm
    · cases hfs : fillSc d with
      | none => simp [hfs] at hm
      | some f =>
        simp only [hfs] at hm
        simp only [emitDataWith, hmask, hnm', hfs, ↓reduceIte]
        refine ⟨_, rfl, ?_, by simp [DataExpr.ctorsUse]⟩
        simp [DataExpr.eval, evalLits_repr _ (fillUnder_finite _ _ _ hv hm), evOpt_units _ _ hu,
          evOpt_units _ _ hc, evOpt_fill _ _ hf, rebuiltData, hmask, hfs]
  · have hmask' : d.masked = false := by simpa using hmask
    have := unmasked_all_finite d.vals d.mask hl (by simpa [MData.masked] using hmask') hv
    simp only [emitDataWith, hmask', Bool.false_eq_true, ↓reduceIte]
    refine ⟨_, rfl, ?_, by simp [DataExpr.ctorsUse]⟩
    simp [DataExpr.eval, evalLits_repr _ this.1, evOpt_units _ _ hu, evOpt_units _ _ hc, evOpt_fill _ _ hf,
      rebuiltData, hmask']

theorem rebuiltData_norm (fix : Bool) (d : MData) (hok : dataOK fix d = true) :
    (rebuiltData d).norm = d.norm := by
  simp only [dataOK, Bool.and_eq_true, decide_eq_true_eq, Bool.or_eq_true, Bool.not_eq_true'] at hok
  obtain ⟨⟨⟨⟨⟨⟨hl, hs⟩, hv⟩, hu⟩, hc⟩, hf⟩, hm⟩ := hok
  have na : ∀ o : Option Atom, normAtom (normAtom o) = normAtom o := by
    intro o; cases o <;> simp [normAtom, py]
  by_cases hmask : d.masked = true
  · cases hfs : fillSc d with
    | none => simp [MData.norm, rebuiltData, hmask, hfs, hs, na]
    | some f => simp [MData.norm, rebuiltData, hmask, hfs, hs, na, blank_fillUnder]
  · have hmask' : d.masked = false := by simpa using hmask
    have := unmasked_all_finite d.vals d.mask hl (by simpa [MData.masked] using hmask') hv
    simp [MData.norm, rebuiltData, hmask', hs, na, this.2]

/-! ### `Properties` / `PropertiesData` objects -/

def Obj.leafPart : Obj → Option Leaf
  | .leaf x => some x
  | .pobj x => some x.base
  | _ => none

def Obj.withLeaf (o : Obj) (l : Leaf) : Obj :=
  match o with
  | .leaf _ => .leaf l
  | .pobj x => .pobj { x with base := l }
  | o => o

/-- the object that `name = <ns>Cls()` binds -/
def newObj (cls : Cls) : Obj :=
  if cls.isLeaf then .leaf (Leaf.empty cls)
  else if cls.hasBounds then .pobj (PObj.empty cls)
  else match cls with
    | .DomainAxis => .axis ⟨none, none, false⟩
    | .CellMethod => .cm ⟨none, none, []⟩
    | _ => .ref ⟨none, [], [], [], []⟩

theorem step_new (pkg : List Char) (env : Env) (n : String) (cls : Cls) :
    step pkg env (.new n pkg cls) = some (env.set n (newObj cls)) := by
  simp only [step, ne_eq, not_true_eq_false, ↓reduceIte]
  rfl

theorem newObj_leafPart (cls : Cls) (h : cls.isLeaf = true ∨ cls.hasBounds = true) :
    (newObj cls).leafPart = some (Leaf.empty cls) := by
  cases cls <;> simp_all [newObj, Cls.isLeaf, Cls.hasBounds, Obj.leafPart, PObj.empty]

theorem withLeaf_withLeaf (o : Obj) (a b : Leaf) : (o.withLeaf a).withLeaf b = o.withLeaf b := by
  cases o <;> rfl

theorem withLeaf_leafPart (o : Obj) (l a : Leaf) (h : o.leafPart = some l) : (o.withLeaf a).leafPart = some a := by
  cases o <;> simp_all [Obj.leafPart, Obj.withLeaf]

theorem updLeaf_of (o : Obj) (l l' : Leaf) (f : Leaf → Option Leaf) (h : o.leafPart = some l) (hf : f l = some l') :
    o.updLeaf f = some (o.withLeaf l') := by
  cases o <;> simp_all [Obj.leafPart, Obj.updLeaf, Obj.withLeaf]

/-- a leaf-level statement on the object bound to `n` -/
theorem step_setProps (pkg : List Char) (env : Env) (n : String) (o : Obj) (l : Leaf) (ps : List (String × LitExpr))
    (vs : List (String × PVal)) (he : env n = some o) (hl : o.leafPart = some l) (hp : evalProps ps = some vs) :
    step pkg env (.setProps n ps) = some (env.set n (o.withLeaf { l with props := dictUpdate l.props vs })) := by
  cases o <;> simp_all [step, Obj.leafPart, Obj.updLeaf, Obj.withLeaf]

theorem step_ncVar (pkg : List Char) (env : Env) (n : String) (o : Obj) (l : Leaf) (v : String)
    (he : env n = some o) (hl : o.leafPart = some l) :
    step pkg env (.ncVar n v) = some (env.set n (o.withLeaf { l with ncvar := some v })) := by
  cases o <;> simp_all [step, Obj.leafPart, Obj.updLeaf, Obj.withLeaf]

theorem step_ncDim (pkg : List Char) (env : Env) (n : String) (o : Obj) (l : Leaf) (v : String)
    (he : env n = some o) (hl : o.leafPart = some l) (hd : l.cls.hasDim = true) :
    step pkg env (.ncDim n .dimension v) = some (env.set n (o.withLeaf { l with ncdim := some v })) := by
  cases o <;> simp_all [step, Obj.leafPart, Obj.updLeaf, Obj.withLeaf]

theorem step_ncSampleDim (pkg : List Char) (env : Env) (n : String) (o : Obj) (l : Leaf) (v : String)
    (he : env n = some o) (hl : o.leafPart = some l) (hd : l.cls.hasSampleDim = true) :
    step pkg env (.ncDim n .sampleDimension v) = some (env.set n (o.withLeaf { l with sampleDim := some v })) := by
  cases o <;> simp_all [step, Obj.leafPart, Obj.updLeaf, Obj.withLeaf]

theorem step_setData (pkg : List Char) (env : Env) (n dn : String) (o : Obj) (l : Leaf) (d : MData)
    (he : env n = some o) (hl : o.leafPart = some l) (hd : env dn = some (.data d)) (hc : l.cls.hasData = true) :
    step pkg env (.setData n dn) = some (env.set n (o.withLeaf { l with data := some d })) := by
  cases o <;> simp_all [step, Obj.leafPart, Obj.updLeaf, Obj.withLeaf]

theorem step_setAttrLeaf (pkg : List Char) (env : Env) (n : String) (l : Leaf) (k : AttrKind) (v : String)
    (he : env n = some (.leaf l)) (hk : l.cls.attrKind = some k) :
    step pkg env (.setAttr n k v) = some (env.set n (.leaf { l with attr := some v })) := by
  simp [step, he, hk]

/-- hypotheses on a `Properties`/`PropertiesData` object under which its commands are emitted
and execute: the property names are distinct (a dictionary), every property value is spelt
evaluably, and the data (as `get_data` shows them) satisfy `dataOK`. -/
def leafOK (fix : Bool) (x : Leaf) : Bool :=
  decide ((x.props.map (·.1)).Nodup) && x.props.all (fun p => p.2.evaluable) &&
  (match (if x.cls.hasData then x.getData else none) with
   | some d => dataOK fix d
   | none => true)

/-- the object is a possible state of its class -/
def leafWF (x : Leaf) : Bool :=
  (x.cls.hasDim || x.ncdim.isNone) && (x.cls.hasSampleDim || x.sampleDim.isNone) &&
  (x.cls.hasData || x.data.isNone) && (x.cls.attrKind.isSome || x.attr.isNone)

def rebuiltLeaf (x : Leaf) : Leaf :=
  { cls := x.cls, props := normProps x.props, ncvar := x.ncvar,
    ncdim := if x.cls.hasDim then x.ncdim else none,
    sampleDim := if x.cls.hasSampleDim then x.sampleDim else none,
    data := if x.cls.hasData then x.getData.map rebuiltData else none,
    attr := if x.cls.attrKind.isSome then x.attr else none,
    inherited := [] }

theorem normProps_keys (ps : List (String × PVal)) : (normProps ps).map (·.1) = ps.map (·.1) := by
  simp [normProps, List.map_map, Function.comp_def]

/-- the object after the statements of `Properties.creation_commands` -/
def propsLeaf (x : Leaf) : Leaf :=
  { Leaf.empty x.cls with props := normProps x.props, ncvar := x.ncvar,
                           ncdim := if x.cls.hasDim then x.ncdim else none,
                           sampleDim := if x.cls.hasSampleDim then x.sampleDim else none }

/-- `Properties.creation_commands`, run on any environment -/
theorem run_emitProps (x : Leaf) (name : String) (ns : Option (List Char)) (header : Bool) (env : Env)
    (hcls : x.cls.isLeaf = true ∨ x.cls.hasBounds = true)
    (hnd : (x.props.map (·.1)).Nodup) (hev : x.props.all (fun p => p.2.evaluable) = true) :
    run (nsPrefix ns) env (emitProps x name ns header) =
      some (env.set name ((newObj x.cls).withLeaf (propsLeaf x))) := by
  have hlp := newObj_leafPart x.cls hcls
  simp only [emitProps, run_append, run_headerS, Option.bind_some]
  -- new
  simp only [run_cons, run_nil, step_new, Option.bind_some]
  -- properties
  have h1 : ∃ l1 : Leaf, l1 = { Leaf.empty x.cls with props := normProps x.props } ∧
      run (nsPrefix ns) (env.set name (newObj x.cls))
        (if x.props.isEmpty then [] else [Stmt.setProps name (x.props.map (fun p => (p.1, p.2.spell)))]) =
        some (env.set name ((newObj x.cls).withLeaf l1)) := by
    refine ⟨_, rfl, ?_⟩
    cases hp : x.props with
    | nil =>
      have : (newObj x.cls).withLeaf { Leaf.empty x.cls with props := normProps [] } = newObj x.cls := by
        cases x.cls <;> simp [newObj, Cls.isLeaf, Cls.hasBounds, Obj.withLeaf, normProps, Leaf.empty, PObj.empty]
      simp [this]
    | cons p ps =>
      rw [← hp]
      have hne : x.props.isEmpty = false := by simp [hp]
      simp only [hne, Bool.false_eq_true, if_false, run_cons, run_nil]
      rw [step_setProps _ _ name _ _ _ _ (Env.set_same _ _ _) hlp (evalProps_spell _ hev)]
      simp only [Option.bind_some, Leaf.empty]
      rw [dictUpdate_nil _ (by rw [normProps_keys]; exact hnd)]
      rw [Env.set_set]
  obtain ⟨l1, hl1, r1⟩ := h1
  rw [r1, Option.bind_some]
  -- netCDF variable name
  have e1 : (env.set name ((newObj x.cls).withLeaf l1)) name = some ((newObj x.cls).withLeaf l1) := Env.set_same _ _ _
  have lp1 := withLeaf_leafPart _ _ l1 hlp
  have h2 : run (nsPrefix ns) (env.set name ((newObj x.cls).withLeaf l1)) (optS x.ncvar (Stmt.ncVar name)) =
      some (env.set name ((newObj x.cls).withLeaf { l1 with ncvar := x.ncvar })) := by
    cases hv : x.ncvar with
    | none =>
      have : ({ l1 with ncvar := none } : Leaf) = l1 := by subst hl1; rfl
      simp [optS, this]
    | some v =>
      simp only [optS, run_cons, run_nil]
      rw [step_ncVar _ _ name _ _ v e1 lp1]
      simp only [Option.bind_some, withLeaf_withLeaf]
      rw [Env.set_set]
  rw [h2, Option.bind_some]
  -- netCDF dimension name
  generalize hl2 : ({ l1 with ncvar := x.ncvar } : Leaf) = l2
  have hc2 : l2.cls = x.cls := by subst hl2; subst hl1; rfl
  have e2 : (env.set name ((newObj x.cls).withLeaf l2)) name = some ((newObj x.cls).withLeaf l2) := Env.set_same _ _ _
  have lp2 := withLeaf_leafPart _ _ l2 hlp
  have h3 : run (nsPrefix ns) (env.set name ((newObj x.cls).withLeaf l2))
      (if x.cls.hasDim then optS x.ncdim (Stmt.ncDim name .dimension) else []) =
      some (env.set name ((newObj x.cls).withLeaf { l2 with ncdim := if x.cls.hasDim then x.ncdim else none })) := by
    have hn : l2.ncdim = none := by subst hl2; subst hl1; rfl
    cases hd : x.cls.hasDim with
    | false =>
      have : ({ l2 with ncdim := none } : Leaf) = l2 := by rw [← hn]
      simp [this]
    | true =>
      cases hv : x.ncdim with
      | none =>
        have : ({ l2 with ncdim := none } : Leaf) = l2 := by rw [← hn]
        simp [optS, this]
      | some v =>
        simp only [optS, if_true, run_cons, run_nil]
        rw [step_ncDim _ _ name _ _ v e2 lp2 (by rw [hc2]; exact hd)]
        simp only [Option.bind_some, withLeaf_withLeaf]
        rw [Env.set_set]
  rw [h3, Option.bind_some]
  generalize hl3 : ({ l2 with ncdim := if x.cls.hasDim then x.ncdim else none } : Leaf) = l3
  have hc3 : l3.cls = x.cls := by subst hl3; exact hc2
  have e3 : (env.set name ((newObj x.cls).withLeaf l3)) name = some ((newObj x.cls).withLeaf l3) := Env.set_same _ _ _
  have lp3 := withLeaf_leafPart _ _ l3 hlp
  have hn3 : l3.sampleDim = none := by subst hl3; subst hl2; subst hl1; rfl
  have h4 : run (nsPrefix ns) (env.set name ((newObj x.cls).withLeaf l3))
      (if x.cls.hasSampleDim then optS x.sampleDim (Stmt.ncDim name .sampleDimension) else []) =
      some (env.set name ((newObj x.cls).withLeaf
        { l3 with sampleDim := if x.cls.hasSampleDim then x.sampleDim else none })) := by
    cases hd : x.cls.hasSampleDim with
    | false =>
      have : ({ l3 with sampleDim := none } : Leaf) = l3 := by rw [← hn3]
      simp [this]
    | true =>
      cases hv : x.sampleDim with
      | none =>
        have : ({ l3 with sampleDim := none } : Leaf) = l3 := by rw [← hn3]
        simp [optS, this]
      | some v =>
        simp only [optS, if_true, run_cons, run_nil]
        rw [step_ncSampleDim _ _ name _ _ v e3 lp3 (by rw [hc3]; exact hd)]
        simp only [Option.bind_some, withLeaf_withLeaf]
        rw [Env.set_set]
  rw [h4]
  subst hl3; subst hl2; subst hl1
  rfl

/-! ### reaching a binding -/

/-- running `ss` from `env` succeeds with `env'`, which binds `name` to `o'` and agrees with `env`
on every name other than `name` and `others` -/
structure Reach (pkg : List Char) (ss : List Stmt) (name : String) (others : List String) (env : Env) (o' : Obj)
    (env' : Env) : Prop where
  run : run pkg env ss = some env'
  at_name : env' name = some o'
  frame : ∀ m, m ≠ name → m ∉ others → env' m = env m

theorem Reach.append {pkg : List Char} {a b : List Stmt} {name : String} {others : List String} {env e1 e2 : Env}
    {o1 o2 : Obj} (h1 : Reach pkg a name others env o1 e1) (h2 : Reach pkg b name others e1 o2 e2) :
    Reach pkg (a ++ b) name others env o2 e2 :=
  ⟨by rw [run_append, h1.run]; exact h2.run, h2.at_name,
   fun m hm ho => by rw [h2.frame m hm ho, h1.frame m hm ho]⟩

theorem Reach.nil (pkg : List Char) (name : String) (others : List String) (env : Env) (o : Obj)
    (h : env name = some o) : Reach pkg [] name others env o env :=
  ⟨rfl, h, fun _ _ _ => rfl⟩

theorem Reach.of_set (pkg : List Char) (ss : List Stmt) (name : String) (others : List String) (env : Env) (o : Obj)
    (h : Cfdm.Emit.run pkg env ss = some (env.set name o)) : Reach pkg ss name others env o (env.set name o) :=
  ⟨h, Env.set_same _ _ _, fun _ hm _ => Env.set_other _ _ _ _ hm⟩

theorem emitProps_ctors (x : Leaf) (name : String) (ns : Option (List Char)) (header : Bool) :
    (emitProps x name ns header).all (fun s => s.ctorsUse (nsPrefix ns)) = true := by
  simp only [emitProps, List.all_append, Bool.and_eq_true]
  refine ⟨⟨⟨⟨⟨?_, ?_⟩, ?_⟩, ?_⟩, ?_⟩, ?_⟩
  · cases header <;> simp [headerS, Stmt.ctorsUse]
  · simp [Stmt.ctorsUse]
  · split <;> simp [Stmt.ctorsUse]
  · cases x.ncvar <;> simp [optS, Stmt.ctorsUse]
  · split
    · cases x.ncdim <;> simp [optS, Stmt.ctorsUse]
    · simp
  · split
    · cases x.sampleDim <;> simp [optS, Stmt.ctorsUse]
    · simp

theorem attr_ctors (p : List Char) (name : String) (cls : Cls) (attr : Option String) :
    (match cls.attrKind with
     | some k => optS attr (Stmt.setAttr name k)
     | none => []).all (fun s => s.ctorsUse p) = true := by
  cases cls.attrKind <;> cases attr <;> simp [optS, Stmt.ctorsUse]

theorem newObj_withLeaf_leaf (cls : Cls) (l : Leaf) (h : cls.isLeaf = true) : (newObj cls).withLeaf l = .leaf l := by
  simp [newObj, h, Obj.withLeaf]

theorem attrKind_isLeaf (cls : Cls) (k : AttrKind) (h : cls.attrKind = some k) : cls.isLeaf = true := by
  cases cls <;> simp_all [Cls.attrKind, Cls.isLeaf]

/-- the class-specific `set_measure` / `set_cell` / `set_connectivity` -/
theorem reach_attr (pkg : List Char) (name : String) (others : List String) (env : Env) (cls : Cls) (l : Leaf)
    (attr : Option String) (hc : l.cls = cls) (hn : l.attr = none)
    (he : env name = some ((newObj cls).withLeaf l)) :
    ∃ env', Reach pkg (match cls.attrKind with
                       | some k => optS attr (Stmt.setAttr name k)
                       | none => []) name others env
      ((newObj cls).withLeaf { l with attr := if cls.attrKind.isSome then attr else none }) env' := by
  have hself : ({ l with attr := none } : Leaf) = l := by rw [← hn]
  cases hk : cls.attrKind with
  | none => exact ⟨env, by simpa [hself] using Reach.nil pkg name others env _ he⟩
  | some k =>
    cases ha : attr with
    | none => exact ⟨env, by simpa [optS, hself] using Reach.nil pkg name others env _ he⟩
    | some v =>
      have hl := attrKind_isLeaf cls k hk
      rw [newObj_withLeaf_leaf cls l hl] at he
      refine ⟨env.set name (.leaf { l with attr := some v }), ?_⟩
      simp only [optS, Option.isSome_some, if_true, newObj_withLeaf_leaf cls _ hl]
      apply Reach.of_set
      simp only [run_cons, run_nil]
      rw [step_setAttrLeaf pkg env name l k v he (by rw [hc]; exact hk)]
      rfl

theorem getData_none_of (x : Leaf) (h : x.cls.hasData = false) (hw : leafWF x = true) : x.getData = none := by
  simp only [leafWF, Bool.and_eq_true, Bool.or_eq_true, h, Bool.false_eq_true, false_or] at hw
  have : x.data = none := by simpa using hw.1.2
  simp [Leaf.getData, this]

/-- `PropertiesData.creation_commands` on any environment: the commands are emitted, run, bind
`name` to the rebuilt object, touch no name other than `name` and `dn`, and every constructor
call carries the prefix. -/
theorem run_emitLeaf (fix : Bool) (x : Leaf) (name dn : String) (ns0 : Option (List Char)) (header : Bool) (env : Env)
    (hcls : x.cls.isLeaf = true ∨ x.cls.hasBounds = true) (hne : name ≠ dn) (hmk : dn ≠ "mask")
    (hok : leafOK fix x = true) :
    ∃ stmts env', emitLeafWith fix x name dn ns0 header = some stmts ∧
      Reach (nsPrefix ns0) stmts name [dn] env ((newObj x.cls).withLeaf (rebuiltLeaf x)) env' ∧
      stmts.all (fun s => s.ctorsUse (nsPrefix ns0)) = true := by
  simp only [leafOK, Bool.and_eq_true, decide_eq_true_eq] at hok
  obtain ⟨⟨hnd, hev⟩, hd⟩ := hok
  have hbase := run_emitProps x name (some (nsPrefix ns0)) header env hcls hnd hev
  rw [nsPrefix_idem] at hbase
  have cbase := emitProps_ctors x name (some (nsPrefix ns0)) header
  rw [nsPrefix_idem] at cbase
  have rbase := Reach.of_set _ _ name [dn] env _ hbase
  have hlp := newObj_leafPart x.cls hcls
  have hc0 : (propsLeaf x).cls = x.cls := rfl
  simp only [emitLeafWith, hne, decide_false, Bool.and_false, Bool.false_eq_true, if_false]
  cases hgd : (if x.cls.hasData then x.getData else none) with
  | none =>
    simp only [hgd] at hd ⊢
    obtain ⟨env', ra⟩ := reach_attr (nsPrefix ns0) name [dn] _ x.cls (propsLeaf x) x.attr hc0 rfl rbase.at_name
    refine ⟨_, env', rfl, ?_, ?_⟩
    · have := rbase.append ra
      have hreb : ({ propsLeaf x with attr := if x.cls.attrKind.isSome then x.attr else none } : Leaf) =
          rebuiltLeaf x := by
        simp only [rebuiltLeaf, propsLeaf, Leaf.empty]
        congr 1
        cases hh : x.cls.hasData with
        | false => simp
        | true => simp only [hh, if_true] at hgd; simp [hgd]
      rw [hreb] at this
      exact this
    · simp only [List.all_append, Bool.and_eq_true]
      exact ⟨cbase, attr_ctors _ _ _ _⟩
  | some d =>
    simp only [hgd] at hd ⊢
    have hhd : x.cls.hasData = true := by
      cases hh : x.cls.hasData with
      | true => rfl
      | false => simp [hh] at hgd
    have hgd' : x.getData = some d := by simpa [hhd] using hgd
    obtain ⟨e, he, hev', hce⟩ := emitData_eval fix d (some dn) ns0 hd (fun _ h => hmk (by simpa using h))
    simp only [he]
    -- data statements
    obtain ⟨l1, hl1⟩ : ∃ l1 : Leaf, l1 = { propsLeaf x with data := some (rebuiltData d) } := ⟨_, rfl⟩
    let env1 := env.set name ((newObj x.cls).withLeaf (propsLeaf x))
    let env2 := env1.set dn (.data (rebuiltData d))
    have e2n : env2 name = some ((newObj x.cls).withLeaf (propsLeaf x)) := by
      simp only [env2, env1]
      rw [Env.set_other _ _ _ _ hne]
      exact Env.set_same _ _ _
    have r2 : Reach (nsPrefix ns0) [Stmt.newData dn e, Stmt.setData name dn] name [dn] env1
        ((newObj x.cls).withLeaf l1) (env2.set name ((newObj x.cls).withLeaf l1)) := by
      refine ⟨?_, Env.set_same _ _ _, ?_⟩
      · have hs1 : step (nsPrefix ns0) env1 (Stmt.newData dn e) = some env2 := by
          simp only [step, hev', Option.map_some]
          rfl
        have hs2 := step_setData (nsPrefix ns0) env2 name dn _ (propsLeaf x) (rebuiltData d) e2n
          (withLeaf_leafPart _ _ (propsLeaf x) hlp) (Env.set_same _ _ _) (by rw [hc0]; exact hhd)
        rw [withLeaf_withLeaf] at hs2
        simp only [run_cons, run_nil, hs1, Option.bind_some, hs2, hl1]
      · intro m hm ho
        simp only [List.mem_cons, List.not_mem_nil, or_false] at ho
        rw [Env.set_other _ _ _ _ hm]
        simp only [env2]
        rw [Env.set_other _ _ _ _ ho]
    have hn1 : l1.attr = none := by subst hl1; rfl
    have hc1 : l1.cls = x.cls := by subst hl1; rfl
    obtain ⟨env', ra⟩ := reach_attr (nsPrefix ns0) name [dn] _ x.cls l1 x.attr hc1 hn1 r2.at_name
    refine ⟨_, env', rfl, ?_, ?_⟩
    · have := (rbase.append r2).append ra
      have hreb : ({ l1 with attr := if x.cls.attrKind.isSome then x.attr else none } : Leaf) = rebuiltLeaf x := by
        subst hl1
        simp [rebuiltLeaf, propsLeaf, Leaf.empty, hhd, hgd']
      rw [hreb] at this
      simp only [List.append_assoc, List.cons_append, List.nil_append] at this ⊢
      exact this
    · simp only [List.all_append, Bool.and_eq_true, List.all_cons, List.all_nil, Bool.and_true]
      exact ⟨⟨cbase, by simpa [Stmt.ctorsUse] using hce⟩, attr_ctors _ _ _ _⟩

/-! ### the rebuilt object is observably the original -/

theorem PVal.norm_norm (v : PVal) : v.norm.norm = v.norm := by
  cases v <;> simp [PVal.norm, py, List.map_map, Function.comp_def]

theorem normProps_normProps (ps : List (String × PVal)) : normProps (normProps ps) = normProps ps := by
  simp [normProps, List.map_map, Function.comp_def, PVal.norm_norm]

theorem lookup_normProps (ps : List (String × PVal)) (k : String) :
    lookupProp (normProps ps) k = (lookupProp ps k).map PVal.norm := by
  induction ps with
  | nil => rfl
  | cons p ps ih =>
    simp only [lookupProp, normProps, List.map_cons, List.lookup] at ih ⊢
    cases h : (k == p.1) <;> simp [ih]

theorem atomOf_norm (o : Option PVal) : atomOf (o.map PVal.norm) = normAtom (atomOf o) := by
  cases o with
  | none => rfl
  | some v => cases v <;> simp [atomOf, PVal.norm, normAtom]

theorem normAtom_normAtom (o : Option Atom) : normAtom (normAtom o) = normAtom o := by
  cases o <;> simp [normAtom, py]

/-- the rebuilt object as its parent shows it: with the parent's (rebuilt) properties inherited -/
def rebuiltLeafI (x : Leaf) : Leaf := { rebuiltLeaf x with inherited := normProps x.inherited }

theorem prop_rebuilt (x : Leaf) (k : String) :
    atomOf (Leaf.prop (rebuiltLeafI x) k) = normAtom (atomOf (x.prop k)) := by
  have h1 : (rebuiltLeafI x).props = normProps x.props := rfl
  have h2 : (rebuiltLeafI x).inherited = normProps x.inherited := rfl
  simp only [Leaf.prop, h1, h2, lookup_normProps]
  rw [← atomOf_norm]
  cases lookupProp x.props k <;> rfl

theorem fillProp_rebuilt (x : Leaf) : atomOf (rebuiltLeafI x).fillProp = normAtom (atomOf x.fillProp) := by
  have h1 : (rebuiltLeafI x).props = normProps x.props := rfl
  simp only [Leaf.fillProp, h1, lookup_normProps]
  rw [← atomOf_norm]
  cases lookupProp x.props "missing_value" <;> rfl

theorem rebuiltLeafI_obs (fix : Bool) (x : Leaf) (hw : leafWF x = true) (hok : leafOK fix x = true) :
    (rebuiltLeafI x).obs = x.obs := by
  simp only [leafWF, Bool.and_eq_true, Bool.or_eq_true] at hw
  obtain ⟨⟨⟨hdim, hsd⟩, hdata⟩, hattr⟩ := hw
  simp only [leafOK, Bool.and_eq_true] at hok
  obtain ⟨_, hd⟩ := hok
  have hdimE : (if x.cls.hasDim then x.ncdim else none) = x.ncdim := by
    rcases hdim with h | h
    · simp [h]
    · cases hh : x.ncdim <;> simp_all
  have hsdE : (if x.cls.hasSampleDim then x.sampleDim else none) = x.sampleDim := by
    rcases hsd with h | h
    · simp [h]
    · cases hh : x.sampleDim <;> simp_all
  have hattrE : (if x.cls.attrKind.isSome then x.attr else none) = x.attr := by
    rcases hattr with h | h
    · simp [h]
    · cases hh : x.attr <;> simp_all
  -- data
  have hdataE : (rebuiltLeafI x).getData.map MData.norm = x.getData.map MData.norm := by
    cases hh : x.cls.hasData with
    | false =>
      have : x.data = none := by
        rcases hdata with h | h
        · simp [hh] at h
        · simpa using h
      simp [Leaf.getData, rebuiltLeafI, rebuiltLeaf, hh, this]
    | true =>
      cases hx : x.data with
      | none => simp [Leaf.getData, rebuiltLeafI, rebuiltLeaf, hh, hx]
      | some d0 =>
        obtain ⟨e, he⟩ : ∃ e : MData, e =
            { d0 with
              units := atomOf (x.prop "units"), calendar := atomOf (x.prop "calendar"), fill := atomOf x.fillProp } :=
          ⟨_, rfl⟩
        have hg : x.getData = some e := by simp [Leaf.getData, hx, he]
        simp only [hh, if_true, hg] at hd
        have hn := rebuiltData_norm fix e hd
        have hrd : (rebuiltLeafI x).data = some (rebuiltData e) := by simp [rebuiltLeafI, rebuiltLeaf, hh, hg]
        rw [hg]
        simp only [Leaf.getData, hrd, Option.map_some, Option.some.injEq]
        rw [← hn]
        have hu : e.units = atomOf (x.prop "units") := by rw [he]
        have hc : e.calendar = atomOf (x.prop "calendar") := by rw [he]
        have hf : e.fill = atomOf x.fillProp := by rw [he]
        simp only [MData.norm, rebuiltData, prop_rebuilt x, fillProp_rebuilt, hu, hc, hf]
  simp only [Leaf.obs, hdataE]
  simp only [rebuiltLeafI, rebuiltLeaf, normProps_normProps, hdimE, hsdE, hattrE]

/-- a stand-alone object (nothing inherited from a parent) -/
theorem rebuiltLeaf_obs (fix : Bool) (x : Leaf) (hw : leafWF x = true) (hinh : x.inherited = [])
    (hok : leafOK fix x = true) : (rebuiltLeaf x).obs = x.obs := by
  have : rebuiltLeafI x = rebuiltLeaf x := by simp [rebuiltLeafI, rebuiltLeaf, hinh, normProps]
  rw [← this]
  exact rebuiltLeafI_obs fix x hw hok

/-! ### `PropertiesDataBounds` objects -/

def optLeafOK (fix : Bool) : Option Leaf → Bool
  | some b => leafOK fix b
  | none => true

/-- hypotheses under which the commands of a coordinate / domain ancillary are emitted and execute -/
def pobjOK (fix : Bool) (x : PObj) : Bool :=
  leafOK fix x.base && optLeafOK fix x.getBounds && optLeafOK fix x.ring &&
  boundsConform x.base.data (x.bounds.bind (·.data))

/-- the object is a possible state of its class -/
def pobjWF (x : PObj) : Bool :=
  x.base.cls.hasBounds && leafWF x.base && x.base.inherited.isEmpty &&
  (x.base.cls.isCoord || !x.climatology) && (decide (x.base.cls = .AuxiliaryCoordinate) || x.nodeVar.isNone) &&
  (match x.bounds with
   | some b => b.cls.isLeaf && leafWF b
   | none => true) &&
  (match x.ring with
   | some r => r.cls.isLeaf && leafWF r && r.inherited.isEmpty
   | none => true)

/-- the names do not clash (what `creation_commands` itself checks, plus `data_name != 'mask'`) -/
def kwOK (kw : KW) : Bool :=
  decide (kw.name ≠ kw.dataName) && decide (kw.name ≠ kw.boundsName) && decide (kw.name ≠ kw.ringName) &&
  decide (kw.dataName ≠ kw.boundsName) && decide (kw.dataName ≠ kw.ringName) && decide (kw.dataName ≠ "mask")

def rebuiltPObj (x : PObj) : PObj :=
  { base := rebuiltLeaf x.base, geometry := x.geometry, climatology := x.base.cls.isCoord && x.climatology,
    nodeVar := if x.base.cls = .AuxiliaryCoordinate then x.nodeVar else none,
    bounds := x.getBounds.map rebuiltLeaf, ring := x.ring.map rebuiltLeaf }

theorem newObj_withLeaf_pobj (cls : Cls) (l : Leaf) (h : cls.hasBounds = true) :
    (newObj cls).withLeaf l = .pobj { PObj.empty cls with base := l } := by
  cases cls <;> simp_all [newObj, Cls.isLeaf, Cls.hasBounds, Obj.withLeaf]

theorem boundsConform_shapes (p b p' b' : Option MData) (hp : p'.map (·.shape) = p.map (·.shape))
    (hb : b'.map (·.shape) = b.map (·.shape)) : boundsConform p' b' = boundsConform p b := by
  cases p <;> cases b <;> cases p' <;> cases b' <;> simp_all [boundsConform]

theorem rebuiltData_shape (fix : Bool) (d : MData) (h : dataOK fix d = true) : (rebuiltData d).shape = d.shape := by
  simp only [dataOK, Bool.and_eq_true, decide_eq_true_eq] at h
  simp [rebuiltData, h.1.1.1.1.1.2]

theorem rebuiltLeaf_data_shape (fix : Bool) (x : Leaf) (hw : leafWF x = true) (hok : leafOK fix x = true) :
    (rebuiltLeaf x).data.map (·.shape) = x.data.map (·.shape) := by
  simp only [leafOK, Bool.and_eq_true] at hok
  obtain ⟨_, hd⟩ := hok
  cases hh : x.cls.hasData with
  | false =>
    have := getData_none_of x hh hw
    have hx : x.data = none := by
      cases hx : x.data with
      | none => rfl
      | some d => simp [Leaf.getData, hx] at this
    simp [rebuiltLeaf, hh, hx]
  | true =>
    cases hx : x.data with
    | none => simp [rebuiltLeaf, hh, Leaf.getData, hx]
    | some d0 =>
      simp only [hh, if_true, Leaf.getData, hx, Option.map_some] at hd
      have := rebuiltData_shape fix _ hd
      simp [rebuiltLeaf, hh, Leaf.getData, hx, this]

/-- `PropertiesDataBounds.creation_commands` (+ `mixin.Coordinate`) on any environment -/
theorem run_emitPObj (fix : Bool) (x : PObj) (kw : KW) (env : Env)
    (hkw : kwOK kw = true) (hw : pobjWF x = true) (hok : pobjOK fix x = true) :
    ∃ stmts env', emitPObjWith fix x kw = some stmts ∧ run (nsPrefix kw.ns) env stmts = some env' ∧
      env' kw.name = some (.pobj (rebuiltPObj x)) ∧ stmts.all (fun s => s.ctorsUse (nsPrefix kw.ns)) = true := by
  simp only [kwOK, Bool.and_eq_true, decide_eq_true_eq] at hkw
  obtain ⟨⟨⟨⟨⟨h_nd, h_nb⟩, h_nr⟩, h_db⟩, h_dr⟩, h_dm⟩ := hkw
  simp only [pobjWF, Bool.and_eq_true, Bool.or_eq_true, decide_eq_true_eq] at hw
  obtain ⟨⟨⟨⟨⟨⟨w_cls, w_base⟩, w_inh⟩, w_clim⟩, w_node⟩, w_b⟩, w_r⟩ := hw
  simp only [pobjOK, Bool.and_eq_true] at hok
  obtain ⟨⟨⟨ok_base, ok_b⟩, ok_r⟩, ok_conf⟩ := hok
  -- the parent's own statements
  obtain ⟨s0, e0, hs0, r0, c0⟩ := run_emitLeaf fix x.base kw.name kw.dataName (some (nsPrefix kw.ns)) kw.header env
    (Or.inr w_cls) h_nd h_dm ok_base
  rw [nsPrefix_idem] at r0 c0
  rw [newObj_withLeaf_pobj _ _ w_cls] at r0
  have hguard : (kw.name = kw.dataName || kw.name = kw.boundsName || kw.name = kw.ringName) = false := by
    simp [h_nd, h_nb, h_nr]
  have hguard2 : (kw.dataName = kw.boundsName || kw.dataName = kw.ringName) = false := by
    simp [h_db, h_dr]
  simp only [emitPObjWith, hguard, hguard2, Bool.false_eq_true, if_false, hs0]
  -- geometry
  obtain ⟨P1, hP1⟩ : ∃ P : PObj, P = { PObj.empty x.base.cls with base := rebuiltLeaf x.base } := ⟨_, rfl⟩
  rw [← hP1] at r0
  have g1 : ∃ e1, run (nsPrefix kw.ns) e0 (optS x.geometry (Stmt.setAttr kw.name .geometry)) = some e1 ∧
      e1 kw.name = some (.pobj { P1 with geometry := x.geometry }) := by
    cases hg : x.geometry with
    | none => exact ⟨e0, by simp [optS], by rw [r0.at_name, hP1]; rfl⟩
    | some v =>
      exact ⟨e0.set kw.name (.pobj { P1 with geometry := some v }),
        by simp [optS, run_cons, step, r0.at_name], Env.set_same _ _ _⟩
  obtain ⟨e1, re1, a1⟩ := g1
  -- climatology
  obtain ⟨P2, hP2⟩ : ∃ P : PObj, P = { P1 with geometry := x.geometry } := ⟨_, rfl⟩
  rw [← hP2] at a1
  have hc2 : P2.base.cls = x.base.cls := by subst hP2; subst hP1; rfl
  have g2 : ∃ e2, run (nsPrefix kw.ns) e1
      (if x.base.cls.isCoord && x.climatology then [Stmt.setClimatology kw.name] else []) = some e2 ∧
      e2 kw.name = some (.pobj { P2 with climatology := x.base.cls.isCoord && x.climatology }) := by
    cases hcl : (x.base.cls.isCoord && x.climatology) with
    | false =>
      refine ⟨e1, by simp, ?_⟩
      rw [a1]; subst hP2; subst hP1; rfl
    | true =>
      simp only [Bool.and_eq_true] at hcl
      refine ⟨e1.set kw.name (.pobj { P2 with climatology := true }), ?_, Env.set_same _ _ _⟩
      simp [run_cons, step, a1, hc2, hcl.1]
  obtain ⟨e2, re2, a2⟩ := g2
  obtain ⟨P3, hP3⟩ : ∃ P : PObj, P = { P2 with climatology := x.base.cls.isCoord && x.climatology } := ⟨_, rfl⟩
  rw [← hP3] at a2
  have hb3 : P3.base = rebuiltLeaf x.base := by subst hP3; subst hP2; subst hP1; rfl
  -- bounds
  have g3 : ∃ bs e3, emitSub fix x.getBounds kw.name kw.boundsName kw.dataName kw.ns Stmt.setBounds = some bs ∧
      run (nsPrefix kw.ns) e2 bs = some e3 ∧
      e3 kw.name = some (.pobj { P3 with bounds := x.getBounds.map rebuiltLeaf }) ∧
      bs.all (fun s => s.ctorsUse (nsPrefix kw.ns)) = true := by
    cases hb : x.bounds with
    | none =>
      refine ⟨[], e2, by simp [PObj.getBounds, hb, emitSub], rfl, ?_, rfl⟩
      rw [a2]; subst hP3; subst hP2; subst hP1; simp [PObj.getBounds, hb, PObj.empty]
    | some b0 =>
      obtain ⟨b, hbI⟩ : ∃ b : Leaf, b = { b0 with inherited := x.base.props } := ⟨_, rfl⟩
      have hgb : x.getBounds = some b := by simp [PObj.getBounds, hb, hbI]
      simp only [hb, Bool.and_eq_true] at w_b
      simp only [hgb, optLeafOK] at ok_b
      have hbl : b.cls.isLeaf = true := by rw [hbI]; exact w_b.1
      obtain ⟨sb, eb, hsb, rb, cb⟩ := run_emitLeaf fix b kw.boundsName kw.dataName kw.ns false e2
        (Or.inl hbl) (Ne.symm h_db) h_dm ok_b
      rw [newObj_withLeaf_leaf _ _ hbl] at rb
      have hname : eb kw.name = some (.pobj P3) := by
        rw [rb.frame kw.name h_nb (by simpa using h_nd)]
        exact a2
      have hconf : boundsConform P3.base.data (rebuiltLeaf b).data = true := by
        rw [hb3, boundsConform_shapes x.base.data (x.bounds.bind (·.data)) _ _
          (rebuiltLeaf_data_shape fix x.base w_base ok_base) ?_]
        · exact ok_conf
        · have hwb : leafWF b = true := by rw [hbI]; exact w_b.2
          rw [rebuiltLeaf_data_shape fix b hwb ok_b, hb, hbI]
          rfl
      refine ⟨sb ++ [Stmt.setBounds kw.name kw.boundsName],
        eb.set kw.name (.pobj { P3 with bounds := some (rebuiltLeaf b) }), by simp [hgb, hsb, emitSub], ?_, ?_, ?_⟩
      · rw [run_append, rb.run]
        simp only [Option.bind_some, run_cons, run_nil, step, hname, rb.at_name, hconf, if_true]
      · simp [hgb]
      · simp only [List.all_append, Bool.and_eq_true, List.all_cons, List.all_nil, Bool.and_true]
        exact ⟨cb, rfl⟩
  obtain ⟨bs, e3, hbs, re3, a3, cb3⟩ := g3
  obtain ⟨P4, hP4⟩ : ∃ P : PObj, P = { P3 with bounds := x.getBounds.map rebuiltLeaf } := ⟨_, rfl⟩
  rw [← hP4] at a3
  -- interior ring
  have g4 : ∃ rs e4, emitSub fix x.ring kw.name kw.ringName kw.dataName kw.ns Stmt.setRing = some rs ∧
      run (nsPrefix kw.ns) e3 rs = some e4 ∧
      e4 kw.name = some (.pobj { P4 with ring := x.ring.map rebuiltLeaf }) ∧
      rs.all (fun s => s.ctorsUse (nsPrefix kw.ns)) = true := by
    cases hr : x.ring with
    | none =>
      refine ⟨[], e3, by simp [emitSub], rfl, ?_, rfl⟩
      rw [a3]; subst hP4; subst hP3; subst hP2; subst hP1; simp [PObj.empty]
    | some r =>
      simp only [hr, Bool.and_eq_true] at w_r
      simp only [hr, optLeafOK] at ok_r
      obtain ⟨sr, er, hsr, rr, cr⟩ := run_emitLeaf fix r kw.ringName kw.dataName kw.ns false e3
        (Or.inl w_r.1.1) (Ne.symm h_dr) h_dm ok_r
      rw [newObj_withLeaf_leaf _ _ w_r.1.1] at rr
      have hname : er kw.name = some (.pobj P4) := by
        rw [rr.frame kw.name h_nr (by simpa using h_nd)]
        exact a3
      refine ⟨sr ++ [Stmt.setRing kw.name kw.ringName],
        er.set kw.name (.pobj { P4 with ring := some (rebuiltLeaf r) }), by simp [hsr, emitSub], ?_, ?_, ?_⟩
      · rw [run_append, rr.run]
        simp only [Option.bind_some, run_cons, run_nil, step, hname, rr.at_name]
      · simp
      · simp only [List.all_append, Bool.and_eq_true, List.all_cons, List.all_nil, Bool.and_true]
        exact ⟨cr, rfl⟩
  obtain ⟨rs, e4, hrs, re4, a4, cr4⟩ := g4
  simp only [hbs, hrs]
  obtain ⟨P5, hP5⟩ : ∃ P : PObj, P = { P4 with ring := x.ring.map rebuiltLeaf } := ⟨_, rfl⟩
  rw [← hP5] at a4
  have hc5 : P5.base.cls = x.base.cls := by subst hP5; subst hP4; subst hP3; exact hc2
  -- node coordinate variable
  have g5 : ∃ e5, run (nsPrefix kw.ns) e4
      (if x.base.cls = .AuxiliaryCoordinate then optS x.nodeVar (Stmt.setAttr kw.name .nodeVar) else []) = some e5 ∧
      e5 kw.name = some (.pobj { P5 with nodeVar := if x.base.cls = .AuxiliaryCoordinate then x.nodeVar else none }) := by
    have hn5 : P5.nodeVar = none := by subst hP5; subst hP4; subst hP3; subst hP2; subst hP1; rfl
    have hself : ({ P5 with nodeVar := none } : PObj) = P5 := by rw [← hn5]
    by_cases hA : x.base.cls = .AuxiliaryCoordinate
    · cases hv : x.nodeVar with
      | none => exact ⟨e4, by simp [optS], by simp [a4, hself]⟩
      | some v =>
        refine ⟨e4.set kw.name (.pobj { P5 with nodeVar := some v }), ?_, by simp [hA]⟩
        simp [hA, optS, run_cons, step, a4, hc5]
    · exact ⟨e4, by simp [hA], by simp [hA, a4, hself]⟩
  obtain ⟨e5, re5, a5⟩ := g5
  refine ⟨_, e5, rfl, ?_, ?_, ?_⟩
  · simp only [run_append, r0.run, Option.bind_some, re1, re2, re3, re4, re5]
  · rw [a5]
    subst hP5; subst hP4; subst hP3; subst hP2; subst hP1
    simp [rebuiltPObj]
  · simp only [List.all_append, Bool.and_eq_true]
    refine ⟨⟨⟨⟨⟨c0, ?_⟩, ?_⟩, cb3⟩, cr4⟩, ?_⟩
    · cases x.geometry <;> simp [optS, Stmt.ctorsUse]
    · split <;> simp [Stmt.ctorsUse]
    · split
      · cases x.nodeVar <;> simp [optS, Stmt.ctorsUse]
      · simp

theorem rebuiltPObj_obs (fix : Bool) (x : PObj) (hw : pobjWF x = true) (hok : pobjOK fix x = true) :
    (rebuiltPObj x).obs = x.obs := by
  simp only [pobjWF, Bool.and_eq_true, Bool.or_eq_true, decide_eq_true_eq] at hw
  obtain ⟨⟨⟨⟨⟨⟨w_cls, w_base⟩, w_inh⟩, w_clim⟩, w_node⟩, w_b⟩, w_r⟩ := hw
  simp only [pobjOK, Bool.and_eq_true] at hok
  obtain ⟨⟨⟨ok_base, ok_b⟩, ok_r⟩, _⟩ := hok
  have h1 : (rebuiltLeaf x.base).obs = x.base.obs :=
    rebuiltLeaf_obs fix x.base w_base (by simpa using w_inh) ok_base
  have h2 : (x.base.cls.isCoord && x.climatology) = x.climatology := by
    rcases w_clim with h | h
    · simp [h]
    · have : x.climatology = false := by simpa using h
      simp [this]
  have h3 : (if x.base.cls = .AuxiliaryCoordinate then x.nodeVar else none) = x.nodeVar := by
    rcases w_node with h | h
    · simp [h]
    · cases hh : x.nodeVar <;> simp_all
  have h4 : (rebuiltPObj x).getBounds.map Leaf.obs = x.getBounds.map Leaf.obs := by
    cases hb : x.bounds with
    | none => simp [PObj.getBounds, rebuiltPObj, hb]
    | some b0 =>
      obtain ⟨b, hbI⟩ : ∃ b : Leaf, b = { b0 with inherited := x.base.props } := ⟨_, rfl⟩
      have hgb : x.getBounds = some b := by simp [PObj.getBounds, hb, hbI]
      simp only [hb, Bool.and_eq_true] at w_b
      simp only [hgb, optLeafOK] at ok_b
      have hwb : leafWF b = true := by rw [hbI]; exact w_b.2
      have := rebuiltLeafI_obs fix b hwb ok_b
      have hg' : (rebuiltPObj x).getBounds = some (rebuiltLeafI b) := by
        simp only [PObj.getBounds, rebuiltPObj, hb, Option.map_some, hbI]
        rfl
      rw [hg', hgb]
      simp [this]
  have h5 : (x.ring.map rebuiltLeaf).map Leaf.obs = x.ring.map Leaf.obs := by
    cases hr : x.ring with
    | none => rfl
    | some r =>
      simp only [hr, Bool.and_eq_true] at w_r
      simp only [hr, optLeafOK] at ok_r
      simp [rebuiltLeaf_obs fix r w_r.1.2 (by simpa using w_r.2) ok_r]
  simp only [PObj.obs, h4]
  simp only [rebuiltPObj, h1, h2, h3, h5]

/-! ### domain axis -/

theorem run_emitAxis (a : MAxis) (name : String) (ns : Option (List Char)) (header : Bool) (env : Env) :
    run (nsPrefix ns) env (emitAxis a name ns header) = some (env.set name (.axis a)) := by
  obtain ⟨size, ncdim, unl⟩ := a
  simp only [emitAxis, run_append, run_headerS, Option.bind_some, run_cons, run_nil, step_new]
  cases size <;> cases ncdim <;> cases unl <;>
    simp [optS, run, step, newObj, Cls.isLeaf, Cls.hasBounds, Env.set_set]

theorem emitAxis_ctors (a : MAxis) (name : String) (ns : Option (List Char)) (header : Bool) :
    (emitAxis a name ns header).all (fun s => s.ctorsUse (nsPrefix ns)) = true := by
  obtain ⟨size, ncdim, unl⟩ := a
  cases header <;> cases size <;> cases ncdim <;> cases unl <;> simp [emitAxis, headerS, optS, Stmt.ctorsUse]

/-! ### lists of Data (cell method intervals) -/

theorem emitDatas_eval (fix : Bool) (l : List MData) (ns0 : Option (List Char)) (h : l.all (dataOK fix) = true) :
    ∃ es, mapMOpt (fun d => emitDataWith fix d none ns0) l = some es ∧
      evalDatas (nsPrefix ns0) es = some (l.map rebuiltData) ∧ es.all (·.ctorsUse (nsPrefix ns0)) = true := by
  induction l with
  | nil => exact ⟨[], rfl, rfl, rfl⟩
  | cons d l ih =>
    simp only [List.all_cons, Bool.and_eq_true] at h
    obtain ⟨es, h1, h2, h3⟩ := ih h.2
    obtain ⟨e, g1, g2, g3⟩ := emitData_eval fix d none ns0 h.1 (fun _ => by simp)
    exact ⟨e :: es, by simp [mapMOpt, g1, h1], by simp [evalDatas, g2, h2], by simp [g3, h3]⟩

end Cfdm.Emit
