import Cfdm.Lemmas.PySlice
/- Helper lemmas for C03 (kept apart from the property theorems). -/
namespace Cfdm.Indexing
open Cfdm.PySlice Cfdm.Arr

theorem lastWrite_append (a b : List (Int × Nat)) (pos : Int) :
    lastWrite (a ++ b) pos = (lastWrite b pos).or (lastWrite a pos) := by
  unfold lastWrite
  rw [List.reverse_append, List.find?_append]
  cases h : List.find? (fun w => w.1 == pos) b.reverse <;> simp

theorem range_shift (len k : Nat) :
    (List.range (len + 1)).map (· + k) = k :: (List.range len).map (· + (k + 1)) := by
  rw [List.range_succ_eq_map]
  simp only [List.map_cons, List.map_map, Nat.zero_add]
  congr 1
  apply List.map_congr_left
  intro x _
  simp only [Function.comp, Nat.succ_eq_add_one]
  omega

theorem pairSlice_isSl (a b : Int) : ∃ x y z, pairSlice a b = .sl x y z := by
  unfold pairSlice
  by_cases h1 : 0 < b - a
  · exact ⟨_, _, _, by rw [if_pos h1]⟩
  · by_cases h2 : b = 0
    · exact ⟨_, _, _, by rw [if_neg h1, if_pos h2]⟩
    · exact ⟨_, _, _, by rw [if_neg h1, if_neg h2]⟩

def algoW (n m k : Nat) (l : List Int) : List (Int × Nat) :=
  ((pairPieces n l).zip (valueSlices k (pairPieces n l))).flatMap
    (fun pv => pieceWrites n m pv.1 pv.2)

def specW (n k : Nat) (l : List Int) : List (Int × Nat) :=
  (l.map (norm n)).zip ((List.range l.length).map (· + k))

/-- `ps` restricted to the axes already applied. -/
def maskPs (ps : List (List Nat)) (done : List Nat) : List (Option (List Nat)) :=
  (List.range ps.length).map (fun k => if k ∈ done then some (ps.getD k []) else none)

theorem zipWith_pick_set (qs : List (Option (List Nat))) (idx : List Nat) (k : Nat) (l : List Nat)
    (hk : qs[k]? = some none) (hlen : qs.length = idx.length) :
    List.zipWith pick qs (idx.set k (l.getD (idx.getD k 0) 0)) =
    List.zipWith pick (qs.set k (some l)) idx := by
  apply List.ext_getElem?
  intro i
  simp only [List.getElem?_zipWith, List.getElem?_set]
  by_cases hik : k = i
  · subst hik
    simp only [if_true]
    by_cases hlt : k < idx.length
    · have hq : k < qs.length := by omega
      have hk' : qs[k] = none := by
        have := List.getElem?_eq_getElem hq
        rw [this] at hk
        exact Option.some.inj hk
      simp [hlt, hq, hk', pick, List.getD_eq_getElem?_getD]
    · have hq : ¬ k < qs.length := by omega
      simp [hlt, hq]
  · simp [hik]

theorem takeAxis_takeSome {α} (A : Arr α) (qs : List (Option (List Nat))) (k : Nat) (l : List Nat)
    (hk : qs[k]? = some none) (hlen : qs.length = A.shape.length) :
    ∀ idx, idx.length = A.shape.length →
      (takeAxis (takeSome A qs) k l).get idx = (takeSome A (qs.set k (some l))).get idx := by
  intro idx hidx
  simp only [takeAxis, takeSome]
  rw [zipWith_pick_set qs idx k l hk (by omega)]

/-- Shapes: applying axis `k` to a partial take. -/
theorem takeAxis_takeSome_shape {α} (A : Arr α) (qs : List (Option (List Nat))) (k : Nat) (l : List Nat)
    (hlen : qs.length = A.shape.length) :
    (takeAxis (takeSome A qs) k l).shape = (takeSome A (qs.set k (some l))).shape := by
  simp only [takeAxis, takeSome]
  apply List.ext_getElem?
  intro i
  simp only [List.getElem?_set, List.getElem?_zipWith, List.length_zipWith]
  by_cases hik : k = i
  · subst hik
    by_cases hlt : k < A.shape.length
    · have hq : k < qs.length := by omega
      simp [hlt, hq, ext]
    · have hq : ¬ k < qs.length := by omega
      simp [hlt, hq]
  · simp [hik]

theorem maskPs_set (ps : List (List Nat)) (done : List Nat) (k : Nat) :
    (maskPs ps done).set k (some (ps.getD k [])) = maskPs ps (k :: done) := by
  apply List.ext_getElem?
  intro i
  simp only [maskPs, List.getElem?_set, List.getElem?_map, List.length_map, List.length_range]
  by_cases hik : k = i
  · subst hik
    by_cases hlt : k < ps.length
    · simp [hlt]
    · simp [hlt]
  · simp only [hik, if_false]
    by_cases hlt : i < ps.length
    · simp only [List.getElem?_range hlt, Option.map_some, List.mem_cons]
      have : ¬ i = k := fun h => hik h.symm
      simp [this]
    · simp [List.getElem?_eq_none (by simpa using Nat.le_of_not_lt hlt : (List.range ps.length).length ≤ i)]

theorem algoW_specW (n : Nat) (l : List Int) (h : l.all (inRange n) = true) :
    ∀ (m k : Nat), m = k + l.length → ∀ pos, lastWrite (algoW n m k l) pos = lastWrite (specW n k l) pos := by
  fun_induction pairPieces n l with
  | case1 => intro m k _ pos; rfl
  | case2 a =>
    intro m k hm pos
    simp only [List.all_cons, List.all_nil, Bool.and_true] at h
    have hb := norm_bounds n a h
    simp only [List.length_singleton] at hm
    have hmin : min (k + 2) m - k = 1 := by omega
    simp [algoW, specW, pairPieces, valueSlices, pieceWrites, single_positions n _ hb.1 hb.2, hmin]
  | case3 a b rest ih =>
    intro m k hm pos
    simp only [List.all_cons, Bool.and_eq_true] at h
    obtain ⟨ha, hb, hr⟩ := h
    have hab := norm_bounds n a ha
    have hbb := norm_bounds n b hb
    simp only [List.length_cons] at hm
    have hmin : min (k + 2) m - k = 2 := by omega
    have hmin1 : min (k + 2) m - (k + 1) = 1 := by omega
    have ih' := ih (by simpa using hr) m (k + 2) (by omega) pos
    have hs : specW n k (a :: b :: rest) = [(norm n a, k), (norm n b, k + 1)] ++ specW n (k + 2) rest := by
      simp only [specW, List.map_cons, List.length_cons]
      rw [range_shift, range_shift]
      rfl
    have ha' : algoW n m k (a :: b :: rest) =
        pieceWrites n m (if norm n a = norm n b then .one (norm n a) else pairSlice (norm n a) (norm n b))
          (match (if norm n a = norm n b then Piece.one (norm n a) else pairSlice (norm n a) (norm n b)) with
            | .one _ => (k + 1, k + 2) | .sl .. => (k, k + 2)) ++ algoW n m (k + 2) rest := by
      simp only [algoW, pairPieces, valueSlices, List.zip_cons_cons, List.flatMap_cons]
      rfl
    rw [hs, ha', lastWrite_append, lastWrite_append, ih']
    congr 1
    by_cases heq : norm n a = norm n b
    · simp only [heq, if_true, pieceWrites, Piece.positions, norm_idem n b hb, hmin1]
      simp [lastWrite]
      by_cases hp : norm n b = pos <;> simp [hp]
    · simp only [heq, if_false]
      obtain ⟨x, y, z, hx⟩ := pairSlice_isSl (norm n a) (norm n b)
      have hpos := pairSlice_positions n _ _ hab.1 hab.2 hbb.1 hbb.2 heq
      rw [hx] at hpos ⊢
      simp only [pieceWrites, hpos, hmin]
      simp [List.range_succ, Nat.add_comm]

theorem seqTake_general {α} (A : Arr α) (ps : List (List Nat)) (hps : ps.length = A.shape.length) :
    ∀ (order done : List Nat) (B : Arr α),
      Eqv A.shape.length B (takeSome A (maskPs ps done)) →
      (∀ k ∈ order, k ∉ done) → order.Nodup →
      Eqv A.shape.length (order.foldl (fun B k => takeAxis B k (ps.getD k [])) B)
        (takeSome A (maskPs ps (order.reverse ++ done))) := by
  intro order
  induction order with
  | nil => intro done B h _ _; simpa using h
  | cons k rest ih =>
    intro done B h hnot hnd
    simp only [List.foldl_cons, List.reverse_cons, List.append_assoc, List.singleton_append]
    have hnd' := List.nodup_cons.mp hnd
    apply ih (k :: done) (takeAxis B k (ps.getD k []))
    · have hlenq : (maskPs ps done).length = A.shape.length := by simp [maskPs, hps]
      have hknone : k < ps.length → (maskPs ps done)[k]? = some none := by
        intro hlt
        have : k ∉ done := hnot k (List.mem_cons_self)
        simp [maskPs, List.getElem?_range hlt, this]
      rw [← maskPs_set]
      constructor
      · rw [← takeAxis_takeSome_shape A _ k _ hlenq]
        simp only [takeAxis, h.1]
      · intro idx hidx
        by_cases hlt : k < ps.length
        · rw [← takeAxis_takeSome A _ k _ (hknone hlt) hlenq idx hidx]
          simp only [takeAxis]
          apply h.2
          simp [hidx]
        · -- axis out of range: both sides ignore it
          have hset : (maskPs ps done).set k (some (ps.getD k [])) = maskPs ps done := by
            apply List.set_eq_of_length_le
            simp [maskPs]; omega
          have hidxset : idx.set k ((ps.getD k []).getD (idx.getD k 0) 0) = idx := by
            apply List.set_eq_of_length_le
            omega
          rw [hset]
          simp only [takeAxis, hidxset]
          exact h.2 idx hidx
    · intro j hj
      simp only [List.mem_cons, not_or]
      exact ⟨fun hjk => hnd'.1 (hjk ▸ hj), hnot j (List.mem_cons_of_mem _ hj)⟩
    · exact hnd'.2

end Cfdm.Indexing
