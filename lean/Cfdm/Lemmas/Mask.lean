import Cfdm.Model.Mask
/-
Helper lemmas for C07: `netcdf_indexer._mask` with its array accumulators is an
elementwise map; subspacing (gather) commutes with elementwise maps.
-/
namespace Cfdm.Mask

/-- The elementwise content of `_mask`: what `totalmask` holds for one datum. -/
def elemMask (dt : DType) (a : Attrs) (u : Bool) (d : V) : Bool :=
  (safeMissing dt a).any (fun m => matchFill (view u dt.bits m) d)
  || matchFill (view u dt.bits (fillOf dt a)) d
  || (!dt.isString &&
      (((validBounds dt a).1.map (fun lo => V.lt d (view u dt.bits lo))).getD false
        || ((validBounds dt a).2.map (fun hi => V.gt d (view u dt.bits hi))).getD false))

/-- `totalmask` read as an array (`None` = nothing masked). -/
def den (tot : Option MaskArr) (n : Nat) : MaskArr := tot.getD (List.replicate n false)

/-- The accumulator invariant: right length, and pointwise equal to `f`. -/
def Inv (data : List V) (tot : Option MaskArr) (f : V → Bool) : Prop :=
  den tot data.length = data.map f

theorem zipWith_or_map (data : List V) (f g : V → Bool) :
    List.zipWith (· || ·) (data.map f) (data.map g) = data.map (fun d => f d || g d) := by
  induction data with
  | nil => rfl
  | cons x xs ih => simp [ih]

theorem replicate_false_eq_map (data : List V) :
    List.replicate data.length false = data.map (fun _ => false) := by
  induction data with
  | nil => rfl
  | cons x xs ih => simp [List.replicate_succ, ih]

theorem Inv_none (data : List V) : Inv data none (fun _ => false) := by
  simp [Inv, den, replicate_false_eq_map]

theorem Inv_accum {data : List V} {tot : Option MaskArr} {f : V → Bool} (g : V → Bool)
    (h : Inv data tot f) : Inv data (accum tot (data.map g)) (fun d => f d || g d) := by
  cases tot with
  | none =>
    simp only [Inv, den, Option.getD_none] at h
    simp only [Inv, den, accum, Option.getD_some]
    have : ∀ d ∈ data, f d = false := by
      intro d hd
      have := congrArg (fun l => l.all (fun b => b == false)) h
      simp at this
      exact this d hd
    apply List.map_congr_left
    intro d hd
    simp [this d hd]
  | some t =>
    simp only [Inv, den, Option.getD_some] at h
    simp only [Inv, den, accum, Option.getD_some, h, zipWith_or_map]

theorem Inv_accumIfAny {data : List V} {tot : Option MaskArr} {f : V → Bool} (g : V → Bool)
    (h : Inv data tot f) : Inv data (accumIfAny tot (data.map g)) (fun d => f d || g d) := by
  unfold accumIfAny
  split
  · exact Inv_accum g h
  · rename_i hn
    simp only [List.any_map, List.any_eq_true, Function.comp, id, not_exists, not_and,
      Bool.not_eq_true] at hn
    simp only [Inv] at h ⊢
    rw [h]
    apply List.map_congr_left
    intro d hd
    simp [hn d hd]

theorem Inv_congr {data : List V} {tot : Option MaskArr} {f g : V → Bool}
    (h : Inv data tot f) (hfg : ∀ d, f d = g d) : Inv data tot g := by
  have : f = g := funext hfg
  exact this ▸ h

theorem Inv_foldl (data : List V) (k : V → V) (ms : List V) :
    ∀ (tot : Option MaskArr) (f : V → Bool), Inv data tot f →
    Inv data (ms.foldl (fun tot m => accumIfAny tot (data.map (matchFill (k m)))) tot)
      (fun d => f d || ms.any (fun m => matchFill (k m) d)) := by
  induction ms with
  | nil => intro tot f h; exact Inv_congr h (by intro d; simp)
  | cons m ms ih =>
    intro tot f h
    simp only [List.foldl_cons]
    have := ih _ _ (Inv_accumIfAny (matchFill (k m)) h)
    exact Inv_congr this (by intro d; simp [Bool.or_assoc])

/-- `_mask` computes, for every element, `elemMask`. -/
theorem maskAlgo_elementwise (dt : DType) (a : Attrs) (u : Bool) (data : List V) :
    den (maskAlgo dt a u data) data.length = data.map (elemMask dt a u) := by
  have h1 : Inv data
      ((safeMissing dt a).foldl (fun tot m => accumIfAny tot (data.map (matchFill (view u dt.bits m)))) none)
      (fun d => (safeMissing dt a).any (fun m => matchFill (view u dt.bits m) d)) :=
    Inv_congr (Inv_foldl data (view u dt.bits) (safeMissing dt a) none _ (Inv_none data)) (by intro d; simp)
  have h2 := Inv_accumIfAny (matchFill (view u dt.bits (fillOf dt a))) h1
  unfold maskAlgo
  simp only
  cases hs : dt.isString with
  | true =>
    simp only [if_true]
    exact Inv_congr h2 (by intro d; simp [elemMask, hs])
  | false =>
    simp only [Bool.false_eq_true, if_false]
    cases hlo : (validBounds dt a).1 with
    | none =>
      cases hhi : (validBounds dt a).2 with
      | none =>
        simp only [Option.map_none]
        exact Inv_congr h2 (by intro d; simp [elemMask, hs, hlo, hhi])
      | some hi =>
        simp only [Option.map_none, Option.map_some]
        exact Inv_congr (Inv_accum (fun d => V.gt d (view u dt.bits hi)) h2)
          (by intro d; simp [elemMask, hs, hlo, hhi])
    | some lo =>
      cases hhi : (validBounds dt a).2 with
      | none =>
        simp only [Option.map_none, Option.map_some]
        exact Inv_congr (Inv_accum (fun d => V.lt d (view u dt.bits lo)) h2)
          (by intro d; simp [elemMask, hs, hlo, hhi])
      | some hi =>
        simp only [Option.map_some]
        exact Inv_congr (Inv_accum (fun d => V.gt d (view u dt.bits hi))
          (Inv_accum (fun d => V.lt d (view u dt.bits lo)) h2))
          (by intro d; simp [elemMask, hs, hlo, hhi, Bool.or_assoc])

/-! ## The read is an elementwise map -/

/-- What the read presents for one stored value. -/
def readElemWith (uv : DType → Attrs → Bool → Bool) (dt : DType) (a : Attrs) (maskOn unpackOn : Bool)
    (d : V) : Option V :=
  let u := uv dt a unpackOn
  let x := view u dt.bits d
  if maskOn && elemMask dt a u x then none else some (if unpackOn then unpackElem a x else x)

def readElem := readElemWith unsignedView

theorem applyMask_map (data : List V) (f : V → Bool) :
    applyMask data (some (data.map f)) = data.map (fun d => if f d then none else some d) := by
  simp only [applyMask]
  induction data with
  | nil => rfl
  | cons x xs ih => simp [ih]

theorem any_map_false {data : List V} {f : V → Bool} (h : (data.map f).any id = false) :
    ∀ d ∈ data, f d = false := by
  intro d hd
  simp only [List.any_map, List.any_eq_false, Function.comp, id, Bool.not_eq_true] at h
  exact h d hd

theorem all_false_of_replicate {data : List V} {f : V → Bool}
    (h : List.replicate data.length false = data.map f) : ∀ d ∈ data, f d = false := by
  intro d hd
  have := congrArg (fun l => l.all (fun b => b == false)) h
  simp at this
  exact this d hd

theorem maskStep_spec (dt : DType) (a : Attrs) (u maskOn : Bool) (data : List V) :
    (maskStep dt a u maskOn data).2
        = data.map (fun d => if maskOn && elemMask dt a u d then none else some d)
    ∧ ((maskStep dt a u maskOn data).1 = true ↔ ∃ d ∈ data, (maskOn && elemMask dt a u d) = true) := by
  cases maskOn with
  | false => simp [maskStep, anyMasked, applyMask]
  | true =>
    simp only [maskStep, if_true, Bool.true_and]
    have hE := maskAlgo_elementwise dt a u data
    cases hm : maskAlgo dt a u data with
    | none =>
      rw [hm] at hE
      simp only [den, Option.getD_none] at hE
      have hf := all_false_of_replicate hE
      simp only [anyMasked, Bool.false_eq_true, if_false, applyMask]
      refine ⟨?_, ?_⟩
      · apply List.map_congr_left
        intro d hd
        simp [hf d hd]
      · constructor
        · intro h; cases h
        · rintro ⟨d, hd, h⟩
          simp [hf d hd] at h
    | some t =>
      rw [hm] at hE
      simp only [den, Option.getD_some] at hE
      subst hE
      simp only [anyMasked]
      by_cases hany : (data.map (elemMask dt a u)).any id = true
      · simp only [hany, if_true]
        refine ⟨applyMask_map data _, ?_⟩
        simp only [List.any_map, List.any_eq_true, Function.comp, id] at hany
        simpa using hany
      · have hany : (data.map (elemMask dt a u)).any id = false := by simpa using hany
        have hf := any_map_false hany
        simp only [hany, Bool.false_eq_true, if_false, applyMask]
        refine ⟨?_, ?_⟩
        · apply List.map_congr_left
          intro d hd
          simp [hf d hd]
        · constructor
          · intro h; cases h
          · rintro ⟨d, hd, h⟩
            simp [hf d hd] at h

theorem readWith_elems (uv : DType → Attrs → Bool → Bool) (dt : DType) (a : Attrs)
    (maskOn unpackOn : Bool) (raw : List V) :
    (readWith uv dt a maskOn unpackOn raw).elems = raw.map (readElemWith uv dt a maskOn unpackOn) := by
  simp only [readWith, (maskStep_spec dt a _ maskOn _).1]
  cases unpackOn with
  | false => simp [readElemWith, List.map_map, Function.comp_def]
  | true =>
    simp only [if_true, List.map_map]
    apply List.map_congr_left
    intro d _
    simp only [Function.comp, readElemWith]
    split <;> simp

theorem readWith_kind (uv : DType → Attrs → Bool → Bool) (dt : DType) (a : Attrs)
    (maskOn unpackOn : Bool) (raw : List V) :
    (readWith uv dt a maskOn unpackOn raw).kind = .masked ↔
      ∃ d ∈ raw, readElemWith uv dt a maskOn unpackOn d = none := by
  have h := (maskStep_spec dt a (uv dt a unpackOn) maskOn (raw.map (view (uv dt a unpackOn) dt.bits))).2
  simp only [readWith]
  constructor
  · intro hk
    have h1 : (maskStep dt a (uv dt a unpackOn) maskOn (raw.map (view (uv dt a unpackOn) dt.bits))).1 = true := by
      cases hc : (maskStep dt a (uv dt a unpackOn) maskOn (raw.map (view (uv dt a unpackOn) dt.bits))).1 with
      | true => rfl
      | false => simp [hc] at hk
    obtain ⟨d, hd, hh⟩ := h.mp h1
    simp only [List.mem_map] at hd
    obtain ⟨r, hr, rfl⟩ := hd
    exact ⟨r, hr, by simp [readElemWith, hh]⟩
  · rintro ⟨r, hr, hh⟩
    have : (maskStep dt a (uv dt a unpackOn) maskOn (raw.map (view (uv dt a unpackOn) dt.bits))).1 = true := by
      apply h.mpr
      refine ⟨view (uv dt a unpackOn) dt.bits r, List.mem_map_of_mem hr, ?_⟩
      simp only [readElemWith] at hh
      cases hc : (maskOn && elemMask dt a (uv dt a unpackOn) (view (uv dt a unpackOn) dt.bits r)) with
      | true => rfl
      | false => simp [hc] at hh
    simp [this]

/-! ## Subspacing commutes with elementwise maps -/

theorem gather_map {α β} (f : α → β) (l : List α) (ix : List Nat) :
    gather (l.map f) ix = (gather l ix).map f := by
  induction ix with
  | nil => rfl
  | cons i is ih =>
    simp only [gather, List.filterMap_cons, List.getElem?_map] at ih ⊢
    cases l[i]? with
    | none => simpa using ih
    | some x => simpa using ih

theorem mem_gather {α} {l : List α} {ix : List Nat} {x : α} (h : x ∈ gather l ix) : x ∈ l := by
  simp only [gather, List.mem_filterMap] at h
  obtain ⟨i, _, hi⟩ := h
  exact List.mem_of_getElem? hi

/-! ## `_mask` per element is the reference rule -/

theorem two_pow_pos (n : Nat) : (0:Int) < (2:Int)^n := Int.pow_pos (by decide)

theorem viewU_num (b : Nat) (hb : 0 < b) (z : Int) (h1 : -(2:Int)^(b-1) ≤ z) (h2 : z ≤ (2:Int)^(b-1) - 1) :
    z % (2:Int)^b = if z < 0 then z + (2:Int)^b else z := by
  obtain ⟨k, rfl⟩ : ∃ k, b = k + 1 := ⟨b - 1, by omega⟩
  simp only [Nat.add_sub_cancel] at h1 h2
  have hp : (2:Int)^(k+1) = 2 * (2:Int)^k := by rw [Int.pow_succ]; omega
  have hpos := two_pow_pos k
  rw [hp]
  generalize (2:Int)^k = P at *
  split
  · rw [← Int.add_emod_right]
    exact Int.emod_eq_of_lt (by omega) (by omega)
  · exact Int.emod_eq_of_lt (by omega) (by omega)

/-- The code's `.view('u…')` is the specification's reinterpretation, on values of the type. -/
theorem view_eq_reinterp (dt : DType) (u : Bool) (hb : 0 < dt.bits) (hu : u = true → dt.kind = .int)
    (v : V) (hv : dt.fits v = true) : view u dt.bits v = reinterp u dt v := by
  cases u with
  | false => simp [view, reinterp]
  | true =>
    have hk := hu rfl
    cases v with
    | nan => simp [view, viewU, reinterp]
    | num z =>
      simp only [DType.fits, hk, Bool.and_eq_true, decide_eq_true_eq, DType.lo, DType.hi] at hv
      simp only [view, viewU, reinterp, if_true]
      rw [viewU_num dt.bits hb z hv.1 hv.2]

theorem sameValue_iff (m x : V) : sameValue m x ↔ matchFill m x = true := by
  cases m <;> cases x <;> simp [sameValue, matchFill, V.isNan, V.eq]

theorem usable_eq (dt : DType) (at_ : Attr) :
    usable dt at_ = (safecast dt at_).map (fun p => p.1 :: p.2) := by
  cases at_ with
  | none => rfl
  | some x =>
    cases x with
    | text => rfl
    | vals hd tl =>
      simp only [usable, safecast]
      by_cases h : (hd :: tl).all dt.fits = true
      · have h' : ∀ v ∈ hd :: tl, dt.fits v = true := by simpa using h
        rw [if_pos h, if_pos h']; rfl
      · have h' : ¬ ∀ v ∈ hd :: tl, dt.fits v = true := by simpa using h
        rw [if_neg h, if_neg h']; rfl

theorem safecast_fits {dt : DType} {at_ : Attr} {hd : V} {tl : List V}
    (h : safecast dt at_ = some (hd, tl)) : ∀ v ∈ hd :: tl, dt.fits v = true := by
  cases at_ with
  | none => simp [safecast] at h
  | some x =>
    cases x with
    | text => simp [safecast] at h
    | vals hd' tl' =>
      simp only [safecast] at h
      split at h
      · rename_i hall
        simp only [Option.some.injEq, Prod.mk.injEq] at h
        obtain ⟨rfl, rfl⟩ := h
        simpa using hall
      · cases h

theorem lt_iff (x lo : V) : V.lt x lo = true ↔ ∃ z w, lo = .num z ∧ x = .num w ∧ w < z := by
  cases x <;> cases lo <;> simp [V.lt]

theorem gt_iff (x hi : V) : V.gt x hi = true ↔ ∃ z w, hi = .num z ∧ x = .num w ∧ z < w := by
  cases x <;> cases hi <;> simp [V.gt, V.lt]

theorem validBounds_fst (dt : DType) (a : Attrs) : (validBounds dt a).1 = specLower dt a := by
  simp only [validBounds, specLower, usable_eq]
  cases h : safecast dt a.validRange with
  | none => simp; cases safecast dt a.validMin <;> simp
  | some p =>
    obtain ⟨lo, tl⟩ := p
    cases tl with
    | nil => simp; cases safecast dt a.validMin <;> simp
    | cons hi tl2 =>
      cases tl2 with
      | nil => simp
      | cons _ _ => simp; cases safecast dt a.validMin <;> simp

theorem validBounds_snd (dt : DType) (a : Attrs) : (validBounds dt a).2 = specUpper dt a := by
  simp only [validBounds, specUpper, usable_eq]
  cases h : safecast dt a.validRange with
  | none => simp; cases safecast dt a.validMax <;> simp
  | some p =>
    obtain ⟨lo, tl⟩ := p
    cases tl with
    | nil => simp; cases safecast dt a.validMax <;> simp
    | cons hi tl2 =>
      cases tl2 with
      | nil => simp
      | cons _ _ => simp; cases safecast dt a.validMax <;> simp


theorem unsignedView_eq_ref (dt : DType) (a : Attrs) (s : Bool) :
    unsignedView dt a s = refUnsigned dt a s := by
  simp [unsignedView, refUnsigned, unsignedAttr]

theorem unsignedView_int {dt : DType} {a : Attrs} {s : Bool} (h : unsignedView dt a s = true) :
    dt.kind = .int := by
  simp only [unsignedView, Bool.and_eq_true, beq_iff_eq] at h
  exact h.2

theorem mv_part (dt : DType) (a : Attrs) (u : Bool) (x : V) (hb : 0 < dt.bits)
    (hu : u = true → dt.kind = .int) :
    (safeMissing dt a).any (fun m => matchFill (view u dt.bits m) x) = true
    ↔ ∃ l, usable dt a.missingValue = some l ∧ ∃ m ∈ l, sameValue (reinterp u dt m) x := by
  rw [usable_eq]
  simp only [safeMissing]
  cases h : safecast dt a.missingValue with
  | none => simp
  | some p =>
    obtain ⟨hd, tl⟩ := p
    have hf := safecast_fits h
    simp only [Option.map_some, Option.some.injEq, exists_eq_left', List.any_eq_true]
    constructor
    · rintro ⟨m, hm, hh⟩
      exact ⟨m, hm, by rw [sameValue_iff, ← view_eq_reinterp dt u hb hu m (hf m hm)]; exact hh⟩
    · rintro ⟨m, hm, hh⟩
      exact ⟨m, hm, by rw [sameValue_iff, ← view_eq_reinterp dt u hb hu m (hf m hm)] at hh; exact hh⟩

theorem fv_part (dt : DType) (a : Attrs) (u : Bool) (x : V) (hb : 0 < dt.bits)
    (hu : u = true → dt.kind = .int)
    (hF5 : u = true → (safecast dt a.fillValue).isSome = true) :
    matchFill (view u dt.bits (fillOf dt a)) x = true
    ↔ (∃ l, usable dt a.fillValue = some l ∧ ∃ m, l.head? = some m ∧ sameValue (reinterp u dt m) x)
      ∨ (usable dt a.fillValue = none ∧ sameValue (defaultFill dt) x) := by
  rw [usable_eq]
  simp only [fillOf]
  cases h : safecast dt a.fillValue with
  | none =>
    have : u = false := by
      cases u with
      | false => rfl
      | true => simp [h] at hF5
    subst this
    simp [view, sameValue_iff]
  | some p =>
    obtain ⟨hd, tl⟩ := p
    have hf := safecast_fits h
    simp [sameValue_iff, ← view_eq_reinterp dt u hb hu hd (hf hd (by simp))]

theorem range_part (dt : DType) (a : Attrs) (u : Bool) (x : V) (hb : 0 < dt.bits)
    (hu : u = true → dt.kind = .int) :
    (!dt.isString &&
      (((validBounds dt a).1.map (fun lo => V.lt x (view u dt.bits lo))).getD false
        || ((validBounds dt a).2.map (fun hi => V.gt x (view u dt.bits hi))).getD false)) = true
    ↔ (dt.isString = false ∧ ∃ lo z w, specLower dt a = some lo ∧ reinterp u dt lo = .num z ∧ x = .num w ∧ w < z)
      ∨ (dt.isString = false ∧ ∃ hi z w, specUpper dt a = some hi ∧ reinterp u dt hi = .num z ∧ x = .num w ∧ z < w) := by
  have hlo : ∀ lo, (validBounds dt a).1 = some lo → dt.fits lo = true := by
    intro lo h
    simp only [validBounds] at h
    split at h
    · rename_i l h' hs
      simp only [Option.some.injEq] at h; subst h
      exact safecast_fits hs _ (by simp)
    · simp only [Option.map_eq_some_iff] at h
      obtain ⟨p, hp, rfl⟩ := h
      exact safecast_fits (hd := p.1) (tl := p.2) hp _ (by simp)
  have hhi : ∀ hi, (validBounds dt a).2 = some hi → dt.fits hi = true := by
    intro hi h
    simp only [validBounds] at h
    split at h
    · rename_i l h' hs
      simp only [Option.some.injEq] at h; subst h
      exact safecast_fits hs _ (by simp)
    · simp only [Option.map_eq_some_iff] at h
      obtain ⟨p, hp, rfl⟩ := h
      exact safecast_fits (hd := p.1) (tl := p.2) hp _ (by simp)
  rw [← validBounds_fst, ← validBounds_snd]
  cases hs : dt.isString with
  | true => simp
  | false =>
    simp only [Bool.not_false, Bool.true_and, Bool.or_eq_true, true_and]
    apply or_congr
    · cases h1 : (validBounds dt a).1 with
      | none => simp
      | some lo =>
        simp only [Option.map_some, Option.getD_some, Option.some.injEq]
        rw [view_eq_reinterp dt u hb hu lo (hlo lo h1), lt_iff]
        constructor
        · rintro ⟨z, w, h⟩; exact ⟨lo, z, w, rfl, h⟩
        · rintro ⟨_, z, w, rfl, h⟩; exact ⟨z, w, h⟩
    · cases h2 : (validBounds dt a).2 with
      | none => simp
      | some hi =>
        simp only [Option.map_some, Option.getD_some, Option.some.injEq]
        rw [view_eq_reinterp dt u hb hu hi (hhi hi h2), gt_iff]
        constructor
        · rintro ⟨z, w, h⟩; exact ⟨hi, z, w, rfl, h⟩
        · rintro ⟨_, z, w, rfl, h⟩; exact ⟨z, w, h⟩

/-- `_mask` (per element) is the reference rule, on the stated domain. -/
theorem elemMask_iff_maskedBy (dt : DType) (a : Attrs) (scaleOn : Bool) (d : V)
    (hb : 0 < dt.bits) (hd : dt.fits d = true) (hvlen : dt.isVlen = false)
    (hF5 : unsignedView dt a scaleOn = true → (safecast dt a.fillValue).isSome = true) :
    elemMask dt a (unsignedView dt a scaleOn) (view (unsignedView dt a scaleOn) dt.bits d) = true
      ↔ maskedBy dt a scaleOn d := by
  have hu : unsignedView dt a scaleOn = true → dt.kind = .int := unsignedView_int
  simp only [maskedBy, ← unsignedView_eq_ref, hvlen, true_and]
  rw [← view_eq_reinterp dt _ hb hu d hd]
  simp only [elemMask, Bool.or_eq_true]
  rw [mv_part dt a _ _ hb hu, fv_part dt a _ _ hb hu hF5, range_part dt a _ _ hb hu]
  simp only [or_assoc]

end Cfdm.Mask
