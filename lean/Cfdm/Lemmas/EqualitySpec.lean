import Cfdm.Lemmas.Greedy
/-
Helper lemmas for C05: the modelled comparisons decide exactly the declarative
relations of `Cfdm/Spec/Equality.lean`.
-/
namespace Cfdm.Equality
open Cfdm.Equality.Spec

/-! ### arrays -/

theorem elemClose_iff (close : Int → Int → Bool) (str : Bool) (a b : Option Int) :
    elemClose close str a b = true ↔ ElemEq close str a b := by
  cases a <;> cases b <;> cases str <;> simp [elemClose, ElemEq]

theorem arrEquals_iff (close : Int → Int → Bool) (idt : Bool) (x y : Arr) :
    arrEquals close idt x y = true ↔ ArrEq close idt x y := by
  simp only [arrEquals, ArrEq, Bool.and_eq_true, Bool.or_eq_true, beq_iff_eq, all2_iff_get, elemClose_iff]
  constructor
  · rintro ⟨⟨h1, h2⟩, h3, h4⟩
    exact ⟨h1, by tauto, h3, h4⟩
  · rintro ⟨h1, h2, h3, h4⟩
    exact ⟨⟨h1, by tauto⟩, h3, h4⟩

/-! ### dictionaries -/

theorem lookup_isSome_iff_any {V} (d : List (Nat × V)) (k : Nat) :
    d.any (fun kw => kw.1 == k) = (d.lookup k).isSome := by
  induction d with
  | nil => rfl
  | cons kv rest ih =>
    obtain ⟨k', v⟩ := kv
    simp only [List.any_cons, List.lookup]
    by_cases h : k = k'
    · subst h; simp
    · have : (k == k') = false := by simpa using h
      have h' : (k' == k) = false := by simpa using (fun e => h e.symm)
      simp [this, h', ih]

theorem lookup_of_mem {V} (d : List (Nat × V)) (hd : KeysNodup d) (k : Nat) (v : V) (h : (k, v) ∈ d) :
    d.lookup k = some v := by
  induction d with
  | nil => simp at h
  | cons kv rest ih =>
    obtain ⟨k', v'⟩ := kv
    simp only [KeysNodup, List.map_cons, List.nodup_cons, List.mem_map, not_exists, not_and] at hd
    rcases List.mem_cons.mp h with h1 | h2
    · cases h1; simp [List.lookup]
    · have hne : k ≠ k' := by
        intro e; subst e
        exact hd.1 (k, v) h2 rfl
      have : (k == k') = false := by simpa using hne
      simp only [List.lookup, this]
      exact ih hd.2 h2

theorem mem_of_lookup {V} (d : List (Nat × V)) (k : Nat) (v : V) (h : d.lookup k = some v) : (k, v) ∈ d := by
  induction d with
  | nil => simp at h
  | cons kv rest ih =>
    obtain ⟨k', v'⟩ := kv
    simp only [List.lookup] at h
    by_cases e : k = k'
    · subst e; simp at h; subst h; simp
    · have : (k == k') = false := by simpa using e
      simp only [this] at h
      exact List.mem_cons_of_mem _ (ih h)

theorem dictEq_iff {V W} (veq : V → W → Bool) (R : V → W → Prop) (hR : ∀ v w, veq v w = true ↔ R v w)
    (d0 : List (Nat × V)) (d1 : List (Nat × W)) (h0 : KeysNodup d0) :
    dictEq veq d0 d1 = true ↔ DictEq R d0 d1 := by
  simp only [dictEq, Bool.and_eq_true, List.all_eq_true, DictEq]
  constructor
  · rintro ⟨⟨hA, hB⟩, hC⟩ name
    cases e0 : d0.lookup name with
    | none =>
      cases e1 : d1.lookup name with
      | none => trivial
      | some w =>
        have := hB (name, w) (mem_of_lookup d1 name w e1)
        rw [lookup_isSome_iff_any] at this
        simp [e0] at this
    | some v =>
      have hm := mem_of_lookup d0 name v e0
      have := hC (name, v) hm
      cases e1 : d1.lookup name with
      | none => simp [e1] at this
      | some w => simp only [e1] at this; exact (hR v w).mp this
  · intro h
    refine ⟨⟨?_, ?_⟩, ?_⟩
    · rintro ⟨k, v⟩ hm
      rw [lookup_isSome_iff_any]
      have := h k
      rw [lookup_of_mem d0 h0 k v hm] at this
      cases e1 : d1.lookup k with
      | none => simp [e1, OptRel] at this
      | some w => rfl
    · rintro ⟨k, w⟩ hm
      rw [lookup_isSome_iff_any]
      -- d1.lookup k is some (maybe another value if keys repeat in d1), so d0 must have k
      have := h k
      cases e1 : d1.lookup k with
      | none =>
        have : (d1.lookup k).isSome = true := by
          rw [← lookup_isSome_iff_any]
          simp only [List.any_eq_true]
          exact ⟨(k, w), hm, by simp⟩
        simp [e1] at this
      | some w' =>
        cases e0 : d0.lookup k with
        | none => simp [e0, e1, OptRel] at this
        | some v => rfl
    · rintro ⟨k, v⟩ hm
      have := h k
      rw [lookup_of_mem d0 h0 k v hm] at this
      cases e1 : d1.lookup k with
      | none => simp [e1, OptRel] at this
      | some w => simp only [e1, OptRel] at this ⊢; exact (hR v w).mpr this

/-! ### properties -/

theorem lookup_dropProps (ign : List Nat) (p : Props) (name : Nat) :
    (dropProps ign p).lookup name = if name ∈ ign then none else p.lookup name := by
  induction p with
  | nil => simp [dropProps]
  | cons kv rest ih =>
    obtain ⟨k, v⟩ := kv
    simp only [dropProps, List.filter_cons] at ih ⊢
    by_cases hk : k ∈ ign
    · have : ign.contains k = true := by simpa using hk
      simp only [this, Bool.not_true, Bool.false_eq_true, ↓reduceIte, ih]
      by_cases hn : name ∈ ign
      · simp [hn]
      · have : name ≠ k := fun e => hn (e ▸ hk)
        have : (name == k) = false := by simpa using this
        simp [hn, List.lookup, this]
    · have : ign.contains k = false := by simpa using hk
      simp only [this, Bool.not_false, ↓reduceIte, List.lookup]
      by_cases e : name = k
      · subst e; simp [hk]
      · have : (name == k) = false := by simpa using e
        simp only [this, ih]

theorem keysNodup_dropProps (ign : List Nat) (p : Props) (h : KeysNodup p) : KeysNodup (dropProps ign p) := by
  unfold KeysNodup dropProps at *
  exact (List.Nodup.sublist ((List.filter_sublist).map _) h)

theorem propsEquals_iff (close : Int → Int → Bool) (ign : List Nat) (p0 p1 : Props) (h0 : KeysNodup p0) :
    propsEquals close ign p0 p1 = true ↔ PropsEq close ign p0 p1 := by
  unfold propsEquals
  rw [dictEq_iff (arrEquals close true) (ArrEq close true) (arrEquals_iff close true) _ _
    (keysNodup_dropProps ign p0 h0)]
  simp only [DictEq, PropsEq, lookup_dropProps]
  constructor
  · intro h name hn
    have := h name
    simpa [hn] using this
  · intro h name
    by_cases hn : name ∈ ign
    · simp [hn, OptRel]
    · simpa [hn] using h name hn

theorem mem_ignoredNames (ifv : Bool) (ip : IgnoreProps) (name : Nat) :
    name ∈ ignoredNames ifv ip ↔ ignoredSet ifv ip name := by
  unfold ignoredNames ignoredSet
  cases ifv <;> simp

/-! ### data -/

theorem dataEquals_iff (close : Int → Int → Bool) (idt ifv ic : Bool) (x y : Data) :
    dataEquals close idt ifv ic x y = true ↔ DataEq close idt ifv ic x y := by
  simp only [dataEquals, DataEq, Bool.and_eq_true, Bool.or_eq_true, beq_iff_eq, arrEquals_iff, decide_eq_true_eq]
  constructor
  · rintro ⟨⟨⟨⟨⟨⟨_, h2⟩, h3⟩, h4⟩, h5⟩, h6⟩, h7⟩
    exact ⟨h7, h3, h2, h4, h5, h6⟩
  · rintro ⟨h7, h3, h2, h4, h5, h6⟩
    exact ⟨⟨⟨⟨⟨⟨h7.1, h2⟩, h3⟩, h4⟩, h5⟩, h6⟩, h7⟩

theorem optDataEquals_iff (close : Int → Int → Bool) (idt ifv ic : Bool) (x y : Option Data) :
    optDataEquals close idt ifv ic x y = true ↔ OptRel (DataEq close idt ifv ic) x y := by
  cases x <;> cases y <;> simp [optDataEquals, OptRel, dataEquals_iff]

/-! ### constructs -/

theorem subEquals_iff (o : Opts) (x y : Sub) (hx : SubWF x) : subEquals o x y = true ↔ SubEq o x y := by
  simp only [subEquals, SubEq, Bool.and_eq_true, optDataEquals_iff, propsEquals_iff _ _ _ _ hx]
  have : ignoredNames o.ignoreFillValue .absent = (if o.ignoreFillValue then [nmFillValue, nmMissingValue] else []) := by
    cases o.ignoreFillValue <;> simp [ignoredNames, IgnoreProps.names]
  rw [this]

theorem optSubEquals_iff (o : Opts) (x y : Option Sub) (hx : ∀ b, x = some b → SubWF b) :
    optSubEquals o x y = true ↔ OptRel (SubEq o) x y := by
  cases x with
  | none => cases y <;> simp [optSubEquals, OptRel]
  | some a => cases y with
    | none => simp [optSubEquals, OptRel]
    | some b => simp only [optSubEquals, OptRel]; exact subEquals_iff o a b (hx a rfl)

/-- The modelled comparison of two constructs of one class decides the declarative relation. -/
theorem constructCore_iff (o : Opts) (x y : Construct) (hx : ConstructWF x) :
    constructCore o x y = true ↔ ConstructEq o x y := by
  simp only [constructCore, ConstructEq, Bool.and_eq_true, Bool.or_eq_true, Bool.not_eq_true', beq_iff_eq,
    optDataEquals_iff, propsEquals_iff _ _ _ _ hx.1, optSubEquals_iff o _ _ hx.2.1, optSubEquals_iff o _ _ hx.2.2,
    PropsEq, mem_ignoredNames]
  constructor
  · rintro ⟨⟨⟨h1, h2⟩, h3⟩, h4⟩
    refine ⟨h1, h2, ?_, ?_⟩
    · intro hb
      rcases h3 with h3 | h3
      · rw [hb] at h3; exact absurd h3 (by simp)
      · exact ⟨h3.1.1, h3.1.2, h3.2⟩
    · intro hm
      rcases h4 with h4 | h4
      · rw [hm] at h4; exact absurd h4 (by simp)
      · exact h4
  · rintro ⟨h1, h2, h3, h4⟩
    refine ⟨⟨⟨h1, h2⟩, ?_⟩, ?_⟩
    · cases hb : hasBoundsAPI x.cls with
      | false => exact Or.inl rfl
      | true => obtain ⟨a, b, c⟩ := h3 hb; exact Or.inr ⟨⟨a, b⟩, c⟩
    · cases hm : hasTypeTag x.cls with
      | false => exact Or.inl rfl
      | true => exact Or.inr (h4 hm)

/-! ### cell methods, coordinate references -/

theorem cellMethodCore_iff (close : Int → Int → Bool) (x y : CellMethod) (hx : CellMethodWF x) :
    cellMethodCore close x y = true ↔ CellMethodEq close x y := by
  simp only [cellMethodCore, CellMethodEq, Bool.and_eq_true, beq_iff_eq, all2_iff_get, dataEquals_iff]
  rw [dictEq_iff (fun a b => a == b) (fun a b => a = b) (by simp) _ _ hx]
  tauto

theorem paramEq_iff (close : Int → Int → Bool) (a b : Option Arr) : paramEq close a b = true ↔ ParamEq close a b := by
  cases a <;> cases b <;> simp [paramEq, ParamEq, OptRel, arrEquals_iff]

theorem coordRefCore_iff (close : Int → Int → Bool) (x y : CoordRef) (hx : CoordRefWF x) :
    coordRefCore close x y = true ↔ CoordRefEq close x y := by
  simp only [coordRefCore, CoordRefEq, Bool.and_eq_true, beq_iff_eq, paramsEquals]
  rw [dictEq_iff (paramEq close) (ParamEq close) (paramEq_iff close) _ _ hx.1,
    dictEq_iff (paramEq close) (ParamEq close) (paramEq_iff close) _ _ hx.2.2,
    dictEq_iff (fun (a b : Option Nat) => a.isSome == b.isSome) (fun a b => a.isSome = b.isSome) (by simp) _ _ hx.2.1]
  tauto

/-! ### the declarative relations are reflexive / symmetric / transitive -/

namespace Spec

def CloseRefl (close : Int → Int → Bool) : Prop := ∀ a, close a a = true
def CloseSymm (close : Int → Int → Bool) : Prop := ∀ a b, close a b = close b a
/-- No numerical tolerance in play. -/
def CloseExact (close : Int → Int → Bool) : Prop := ∀ a b, close a b = true ↔ a = b

theorem CloseExact.refl {close} (h : CloseExact close) : CloseRefl close := fun a => (h a a).mpr rfl
theorem CloseExact.symm {close} (h : CloseExact close) : CloseSymm close := by
  intro a b
  cases h1 : close a b with
  | true => exact ((h b a).mpr ((h a b).mp h1).symm).symm
  | false =>
    cases h2 : close b a with
    | false => rfl
    | true => rw [(h a b).mpr ((h b a).mp h2).symm] at h1; exact absurd h1 (by simp)

theorem OptRel.refl' {α} {R : α → α → Prop} (h : ∀ a, R a a) : ∀ o : Option α, OptRel R o o
  | none => trivial
  | some a => h a

theorem OptRel.symm' {α β} {R : α → β → Prop} {S : β → α → Prop} (h : ∀ a b, R a b → S b a) :
    ∀ (o : Option α) (p : Option β), OptRel R o p → OptRel S p o
  | none, none, _ => trivial
  | some a, some b, hab => h a b hab
  | none, some _, hab => hab.elim
  | some _, none, hab => hab.elim

theorem OptRel.trans' {α β γ} {R : α → β → Prop} {S : β → γ → Prop} {T : α → γ → Prop}
    (h : ∀ a b c, R a b → S b c → T a c) :
    ∀ (o : Option α) (p : Option β) (q : Option γ), OptRel R o p → OptRel S p q → OptRel T o q
  | none, none, none, _, _ => trivial
  | some a, some b, some c, h1, h2 => h a b c h1 h2
  | none, some _, _, h1, _ => h1.elim
  | some _, none, _, h1, _ => h1.elim
  | none, none, some _, _, h2 => h2.elim
  | some _, some _, none, _, h2 => h2.elim

theorem OptRel.imp' {α β} {R S : α → β → Prop} (h : ∀ a b, R a b → S a b) :
    ∀ (o : Option α) (p : Option β), OptRel R o p → OptRel S o p
  | none, none, _ => trivial
  | some a, some b, hab => h a b hab
  | none, some _, hab => hab.elim
  | some _, none, hab => hab.elim

theorem ElemEq.refl {close} (hc : CloseRefl close) (str : Bool) : ∀ a, ElemEq close str a a
  | none => trivial
  | some a => by cases str <;> simp [ElemEq, hc a]

theorem ElemEq.symm {close} (hc : CloseSymm close) (str : Bool) : ∀ a b, ElemEq close str a b → ElemEq close str b a
  | none, none, _ => trivial
  | some a, some b, h => by
    cases str
    · simpa [ElemEq, hc b a] using h
    · simp only [ElemEq, ↓reduceIte] at h ⊢; exact h.symm
  | none, some _, h => h.elim
  | some _, none, h => h.elim

theorem ElemEq.exact {close} (hc : CloseExact close) (str : Bool) (a b : Option Int) :
    ElemEq close str a b ↔ a = b := by
  cases a <;> cases b <;> cases str <;> simp [ElemEq, hc _ _]

theorem ArrEq.refl {close} (hc : CloseRefl close) (idt : Bool) (x : Arr) : ArrEq close idt x x :=
  ⟨rfl, Or.inr (Or.inl rfl), rfl, fun _ _ _ => ElemEq.refl hc _ _⟩

theorem ArrEq.symm {close} (hc : CloseSymm close) (idt : Bool) (x y : Arr) (h : ArrEq close idt x y) :
    ArrEq close idt y x := by
  obtain ⟨h1, h2, h3, h4⟩ := h
  refine ⟨h1.symm, by tauto, h3.symm, fun i h0 h1' => ?_⟩
  rw [Bool.or_comm]
  exact ElemEq.symm hc _ _ _ (h4 i h1' h0)

theorem ArrEq.vals_eq {close} (hc : CloseExact close) (idt : Bool) (x y : Arr) (h : ArrEq close idt x y) :
    x.vals = y.vals := by
  obtain ⟨_, _, h3, h4⟩ := h
  apply List.ext_getElem h3
  intro i h0 h1
  exact (ElemEq.exact hc _ _ _).mp (h4 i h0 h1)

/-- Transitivity needs exact comparison, and either no data-type test or equal data types. -/
theorem ArrEq.trans {close} (hc : CloseExact close) (idt : Bool) (x y z : Arr)
    (hdt : idt = true ∨ x.dtype = z.dtype)
    (h1 : ArrEq close idt x y) (h2 : ArrEq close idt y z) : ArrEq close idt x z := by
  have v1 := ArrEq.vals_eq hc idt x y h1
  have v2 := ArrEq.vals_eq hc idt y z h2
  refine ⟨h1.1.trans h2.1, by tauto, by rw [v1, v2], fun i h0 h1' => ?_⟩
  apply (ElemEq.exact hc _ _ _).mpr
  simp [v1, v2]

theorem DictEq.refl {V} {R : V → V → Prop} (h : ∀ a, R a a) (d : List (Nat × V)) : DictEq R d d :=
  fun _ => OptRel.refl' h _

theorem DictEq.symm {V W} {R : V → W → Prop} {S : W → V → Prop} (h : ∀ a b, R a b → S b a)
    (d0 : List (Nat × V)) (d1 : List (Nat × W)) (hd : DictEq R d0 d1) : DictEq S d1 d0 :=
  fun n => OptRel.symm' h _ _ (hd n)

theorem DictEq.trans {V} {R : V → V → Prop} (h : ∀ a b c, R a b → R b c → R a c)
    (d0 d1 d2 : List (Nat × V)) (h1 : DictEq R d0 d1) (h2 : DictEq R d1 d2) : DictEq R d0 d2 :=
  fun n => OptRel.trans' h _ _ _ (h1 n) (h2 n)

theorem PropsEq.refl {close} (hc : CloseRefl close) (ign : List Nat) (p : Props) : PropsEq close ign p p :=
  fun _ _ => OptRel.refl' (ArrEq.refl hc true) _

theorem PropsEq.symm {close} (hc : CloseSymm close) (ign : List Nat) (p q : Props) (h : PropsEq close ign p q) :
    PropsEq close ign q p :=
  fun n hn => OptRel.symm' (ArrEq.symm hc true) _ _ (h n hn)

theorem PropsEq.trans {close} (hc : CloseExact close) (ign : List Nat) (p q r : Props)
    (h1 : PropsEq close ign p q) (h2 : PropsEq close ign q r) : PropsEq close ign p r :=
  fun n hn => OptRel.trans' (fun a b c => ArrEq.trans hc true a b c (Or.inl rfl)) _ _ _ (h1 n hn) (h2 n hn)

theorem DataEq.refl {close} (hc : CloseRefl close) (idt ifv ic : Bool) (x : Data) : DataEq close idt ifv ic x x :=
  ⟨ArrEq.refl hc _ _, Or.inr rfl, Or.inr rfl, rfl, rfl, Or.inr ⟨rfl, Or.inr (ArrEq.refl hc _ _)⟩⟩

theorem DataEq.symm {close} (hc : CloseSymm close) (idt ifv ic : Bool) (x y : Data)
    (h : DataEq close idt ifv ic x y) : DataEq close idt ifv ic y x := by
  obtain ⟨h1, h2, h3, h4, h5, h6⟩ := h
  refine ⟨ArrEq.symm hc _ _ _ h1, by tauto, by tauto, h4.symm, h5.symm, ?_⟩
  rcases h6 with h6 | ⟨h6, h7⟩
  · exact Or.inl h6
  · refine Or.inr ⟨h6.symm, ?_⟩
    rcases h7 with h7 | h7
    · exact Or.inl (h6 ▸ h7)
    · exact Or.inr (ArrEq.symm hc _ _ _ h7)

/-- Transitivity of the data relation (exact comparison; the compressed form not compared). -/
theorem DataEq.trans {close} (hc : CloseExact close) (idt ifv : Bool) (x y z : Data)
    (h1 : DataEq close idt ifv true x y) (h2 : DataEq close idt ifv true y z) : DataEq close idt ifv true x z := by
  obtain ⟨a1, a2, a3, a4, a5, _⟩ := h1
  obtain ⟨b1, b2, b3, b4, b5, _⟩ := h2
  have hdt : idt = true ∨ x.arr.dtype = z.arr.dtype := by
    rcases a2 with h | h
    · exact Or.inl h
    · rcases b2 with h' | h'
      · exact Or.inl h'
      · exact Or.inr (h.trans h')
  refine ⟨ArrEq.trans hc idt _ _ _ hdt a1 b1, hdt, ?_, a4.trans b4, a5.trans b5, Or.inl rfl⟩
  rcases a3 with h | h
  · exact Or.inl h
  · rcases b3 with h' | h'
    · exact Or.inl h'
    · exact Or.inr (h.trans h')

theorem SubEq.refl {o : Opts} (hc : CloseRefl o.close) (x : Sub) : SubEq o x x :=
  ⟨PropsEq.refl hc _ _, OptRel.refl' (DataEq.refl hc _ _ _) _⟩

theorem SubEq.symm {o : Opts} (hc : CloseSymm o.close) (x y : Sub) (h : SubEq o x y) : SubEq o y x :=
  ⟨PropsEq.symm hc _ _ _ h.1, OptRel.symm' (DataEq.symm hc _ _ _) _ _ h.2⟩

theorem SubEq.trans {o : Opts} (hc : CloseExact o.close) (hic : o.ignoreCompression = true) (x y z : Sub)
    (h1 : SubEq o x y) (h2 : SubEq o y z) : SubEq o x z := by
  refine ⟨PropsEq.trans hc _ _ _ _ h1.1 h2.1, ?_⟩
  have a := h1.2
  have b := h2.2
  rw [hic] at a b ⊢
  exact OptRel.trans' (DataEq.trans hc _ _) _ _ _ a b

theorem ConstructEq.refl {o : Opts} (hc : CloseRefl o.close) (x : Construct) : ConstructEq o x x :=
  ⟨fun _ _ => OptRel.refl' (ArrEq.refl hc true) _, OptRel.refl' (DataEq.refl hc _ _ _) _,
   fun _ => ⟨rfl, OptRel.refl' (SubEq.refl hc) _, OptRel.refl' (SubEq.refl hc) _⟩, fun _ => rfl⟩

/-- Symmetry (two constructs of the same class, symmetric closeness). -/
theorem ConstructEq.symm {o : Opts} (hc : CloseSymm o.close) (x y : Construct) (hcls : x.cls = y.cls)
    (h : ConstructEq o x y) : ConstructEq o y x := by
  obtain ⟨h1, h2, h3, h4⟩ := h
  refine ⟨fun n hn => OptRel.symm' (ArrEq.symm hc true) _ _ (h1 n hn), OptRel.symm' (DataEq.symm hc _ _ _) _ _ h2, ?_, ?_⟩
  · intro hb
    obtain ⟨a, b, c⟩ := h3 (hcls ▸ hb)
    exact ⟨a.symm, OptRel.symm' (SubEq.symm hc) _ _ b, OptRel.symm' (SubEq.symm hc) _ _ c⟩
  · intro hm
    exact (h4 (hcls ▸ hm)).symm

theorem ConstructEq.trans {o : Opts} (hc : CloseExact o.close) (hic : o.ignoreCompression = true)
    (x y z : Construct) (hxy : x.cls = y.cls)
    (h1 : ConstructEq o x y) (h2 : ConstructEq o y z) : ConstructEq o x z := by
  obtain ⟨a1, a2, a3, a4⟩ := h1
  obtain ⟨b1, b2, b3, b4⟩ := h2
  refine ⟨fun n hn => OptRel.trans' (fun a b c => ArrEq.trans hc true a b c (Or.inl rfl)) _ _ _ (a1 n hn) (b1 n hn), ?_, ?_, ?_⟩
  · rw [hic] at a2 b2 ⊢
    exact OptRel.trans' (DataEq.trans hc _ _) _ _ _ a2 b2
  · intro hb
    obtain ⟨p1, p2, p3⟩ := a3 hb
    obtain ⟨q1, q2, q3⟩ := b3 (hxy ▸ hb)
    exact ⟨p1.trans q1, OptRel.trans' (SubEq.trans hc hic) _ _ _ p2 q2, OptRel.trans' (SubEq.trans hc hic) _ _ _ p3 q3⟩
  · intro hm
    exact (a4 hm).trans (b4 (hxy ▸ hm))

end Spec

/-! ### consequences at the level of the code -/
open Spec

theorem tolClose_refl (an ad rn rd k : Nat) : CloseRefl (tolClose an ad rn rd k) := by
  intro a; simp [tolClose]

/-- With `rtol = atol = 0` the tolerance test is equality. -/
theorem tolClose_exact (ad rd k : Nat) (had : 0 < ad) (hrd : 0 < rd) : CloseExact (tolClose 0 ad 0 rd k) := by
  intro a b
  simp only [tolClose, Nat.zero_mul, Nat.add_zero, Nat.le_zero_eq, Nat.mul_eq_zero, Int.natAbs_eq_zero,
    decide_eq_true_eq]
  omega

/-- With `rtol = 0` the tolerance test is symmetric. -/
theorem tolClose_symm (an ad rd k : Nat) : CloseSymm (tolClose an ad 0 rd k) := by
  intro a b
  simp only [tolClose, Nat.zero_mul, Nat.add_zero]
  have : (a - b).natAbs = (b - a).natAbs := by omega
  rw [this]

theorem arrEquals_refl {close} (hc : CloseRefl close) (idt : Bool) (x : Arr) : arrEquals close idt x x = true :=
  (arrEquals_iff close idt x x).mpr (ArrEq.refl hc idt x)

theorem propsEquals_refl {close} (hc : CloseRefl close) (ign : List Nat) (p : Props) (hp : KeysNodup p) :
    propsEquals close ign p p = true :=
  (propsEquals_iff close ign p p hp).mpr (PropsEq.refl hc ign p)

theorem dataEquals_refl {close} (hc : CloseRefl close) (idt ifv ic : Bool) (x : Data) :
    dataEquals close idt ifv ic x x = true :=
  (dataEquals_iff close idt ifv ic x x).mpr (DataEq.refl hc idt ifv ic x)

theorem optDataEquals_refl {close} (hc : CloseRefl close) (idt ifv ic : Bool) (x : Option Data) :
    optDataEquals close idt ifv ic x x = true := by
  cases x <;> simp [optDataEquals, dataEquals_refl hc]

theorem optSubEquals_refl {o : Opts} (hc : CloseRefl o.close) (x : Option Sub) (hx : ∀ b, x = some b → SubWF b) :
    optSubEquals o x x = true :=
  (optSubEquals_iff o x x hx).mpr (OptRel.refl' (SubEq.refl hc) x)

theorem constructCore_refl {o : Opts} (hc : CloseRefl o.close) (x : Construct) (hx : ConstructWF x) :
    constructCore o x x = true :=
  (constructCore_iff o x x hx).mpr (ConstructEq.refl hc x)

theorem constructCore_symm {o : Opts} (hc : CloseSymm o.close) (x y : Construct) (hx : ConstructWF x)
    (hy : ConstructWF y) (hcls : x.cls = y.cls) : constructCore o x y = constructCore o y x := by
  cases h : constructCore o x y with
  | true =>
    exact ((constructCore_iff o y x hy).mpr (ConstructEq.symm hc x y hcls ((constructCore_iff o x y hx).mp h))).symm
  | false =>
    cases h' : constructCore o y x with
    | false => rfl
    | true =>
      rw [(constructCore_iff o x y hx).mpr (ConstructEq.symm hc y x hcls.symm ((constructCore_iff o y x hy).mp h'))] at h
      exact absurd h (by simp)

theorem constructCore_trans {o : Opts} (hc : CloseExact o.close) (hic : o.ignoreCompression = true)
    (x y z : Construct) (hx : ConstructWF x) (hy : ConstructWF y) (hxy : x.cls = y.cls)
    (h1 : constructCore o x y = true) (h2 : constructCore o y z = true) : constructCore o x z = true :=
  (constructCore_iff o x z hx).mpr
    (ConstructEq.trans hc hic x y z hxy ((constructCore_iff o x y hx).mp h1) ((constructCore_iff o y z hy).mp h2))

/-! ### single-component variants of a construct -/

theorem constructEquals_eq_ok (o : Opts) (x y : Construct) (hx : ConstructWF x) (b : Bool)
    (h : ConstructEq o x y ↔ b = true) (hcls : x.cls = y.cls) : constructEquals o x y = .ok b := by
  have h1 : (x.cls == y.cls) = true := by simpa using hcls
  simp only [constructEquals, h1, ↓reduceIte, Except.ok.injEq]
  cases b with
  | true => exact (constructCore_iff o x y hx).mpr (h.mpr rfl)
  | false =>
    cases hv : constructCore o x y with
    | false => rfl
    | true => exact absurd (h.mp ((constructCore_iff o x y hx).mp hv)) (by simp)

/-- Only the data differ: the verdict is the verdict on the data. -/
theorem ConstructEq_data_only {o : Opts} (hc : CloseRefl o.close) (x : Construct) (dd : Option Data) :
    ConstructEq o x { x with data := dd } ↔
      OptRel (DataEq o.close o.ignoreDataType o.ignoreFillValue o.ignoreCompression) x.data dd := by
  constructor
  · intro h; exact h.2.1
  · intro h
    exact ⟨fun _ _ => OptRel.refl' (ArrEq.refl hc true) _, h,
      fun _ => ⟨rfl, OptRel.refl' (SubEq.refl hc) _, OptRel.refl' (SubEq.refl hc) _⟩, fun _ => rfl⟩

theorem DataEq_dtype_only {close} (hc : CloseRefl close) (idt ifv ic : Bool) (d : Data) (dt : Nat)
    (hdt : dt ≠ d.arr.dtype) (hstr : d.arr.isStr = false) :
    DataEq close idt ifv ic d { d with arr := { d.arr with dtype := dt } } ↔ idt = true := by
  constructor
  · intro h
    rcases h.2.1 with h | h
    · exact h
    · exact absurd h.symm hdt
  · intro h
    refine ⟨⟨rfl, Or.inl h, rfl, fun i h0 h1 => ElemEq.refl hc _ _⟩, Or.inl h, Or.inr rfl, rfl, rfl,
      Or.inr ⟨rfl, Or.inr (ArrEq.refl hc _ _)⟩⟩

theorem DataEq_fill_only {close} (hc : CloseRefl close) (idt ifv ic : Bool) (d : Data) (fv : Option Int)
    (hfv : fv ≠ d.fill) : DataEq close idt ifv ic d { d with fill := fv } ↔ ifv = true := by
  constructor
  · intro h
    rcases h.2.2.1 with h | h
    · exact h
    · exact absurd h.symm hfv
  · intro h
    exact ⟨ArrEq.refl hc _ _, Or.inr rfl, Or.inl h, rfl, rfl, Or.inr ⟨rfl, Or.inr (ArrEq.refl hc _ _)⟩⟩

theorem DataEq_compression_only {close} (hc : CloseRefl close) (idt ifv ic : Bool) (d : Data) (ct : Nat) (ca : Arr)
    (hct : ct ≠ d.ctype) : DataEq close idt ifv ic d { d with ctype := ct, carr := ca } ↔ ic = true := by
  constructor
  · intro h
    rcases h.2.2.2.2.2 with h | h
    · exact h
    · exact absurd h.1.symm hct
  · intro h
    exact ⟨ArrEq.refl hc _ _, Or.inr rfl, Or.inr rfl, rfl, rfl, Or.inl h⟩

theorem lookup_replace (p : Props) (name : Nat) (w : Arr) (n : Nat) :
    (p.map (fun kv => if kv.1 == name then (kv.1, w) else kv)).lookup n
      = if n = name then (p.lookup n).map (fun _ => w) else p.lookup n := by
  induction p with
  | nil => simp
  | cons kv rest ih =>
    obtain ⟨k, v⟩ := kv
    simp only [List.map_cons, List.lookup]
    by_cases hk : k = name
    · subst hk
      simp only [beq_self_eq_true, ↓reduceIte]
      by_cases hn : n = k
      · subst hn; simp [List.lookup]
      · have : (n == k) = false := by simpa using hn
        simp only [List.lookup, this, ih, hn, ↓reduceIte]
    · have hk' : (k == name) = false := by simpa using hk
      simp only [hk', Bool.false_eq_true, ↓reduceIte, List.lookup]
      by_cases hn : n = k
      · subst hn; simp [hk]
      · have : (n == k) = false := by simpa using hn
        simp only [this, ih]

/-- Only the value of property `name` differs: the verdict is whether `name` is ignored. -/
theorem ConstructEq_prop_only {o : Opts} (hc : CloseRefl o.close) (x : Construct) (name : Nat) (v w : Arr)
    (hv : x.props.lookup name = some v) (hne : ¬ ArrEq o.close true v w) :
    ConstructEq o x { x with props := x.props.map (fun kv => if kv.1 == name then (kv.1, w) else kv) } ↔
      ignoredSet o.ignoreFillValue o.ignoreProps name := by
  constructor
  · intro h
    by_contra hn
    have := h.1 name hn
    simp only [lookup_replace, ↓reduceIte, hv, Option.map_some, OptRel] at this
    exact hne this
  · intro h
    refine ⟨fun n hn => ?_, OptRel.refl' (DataEq.refl hc _ _ _) _,
      fun _ => ⟨rfl, OptRel.refl' (SubEq.refl hc) _, OptRel.refl' (SubEq.refl hc) _⟩, fun _ => rfl⟩
    have hnn : n ≠ name := fun e => hn (e ▸ h)
    simp only [lookup_replace, hnn, ↓reduceIte]
    exact OptRel.refl' (ArrEq.refl hc true) _

theorem convertTo_ok (cls : Nat) (y : Construct)
    (h : cls = clsDim → ∀ d, y.data = some d → d.arr.shape.length = 1) :
    convertTo cls y = .ok { y with
      cls := cls
      geometry := if hasBoundsAPI cls then y.geometry else none
      bounds := if hasBoundsAPI cls then y.bounds else none
      interiorRing := if hasBoundsAPI cls then y.interiorRing else none
      measure := none } := by
  unfold convertTo
  split
  · rename_i d hd
    by_cases hxd : cls = clsDim
    · simp [h hxd d hd]
    · have : (cls == clsDim) = false := by simpa using hxd
      simp [this]
  · simp

/-- Only the class differs, between classes that hold the same components
(dimension / auxiliary coordinate, domain ancillary): the verdict is `ignore_type`. -/
theorem constructEquals_class_only (o : Opts) (hc : CloseRefl o.close) (x : Construct) (hx : ConstructWF x)
    (cls : Nat) (hcls : cls ≠ x.cls) (hb2 : hasBoundsAPI x.cls = true)
    (hdim : x.cls = clsDim → ∀ d, x.data = some d → d.arr.shape.length = 1) :
    constructEquals o x { x with cls := cls } = .ok o.ignoreType := by
  have h1 : (x.cls == cls) = false := by simpa using fun e => hcls e.symm
  have hm : hasTypeTag x.cls = false := by
    simp only [hasBoundsAPI, clsDim, clsAux, clsDomAnc, Bool.or_eq_true, beq_iff_eq] at hb2
    simp only [hasTypeTag, clsMeasure, clsTopology, clsConnectivity, Bool.or_eq_false_iff, beq_eq_false_iff_ne, ne_eq]
    omega
  simp only [constructEquals, h1, Bool.false_eq_true, ↓reduceIte]
  cases o.ignoreType with
  | false => rfl
  | true =>
    rw [convertTo_ok x.cls { x with cls := cls } hdim]
    simp only [↓reduceIte, hb2, hm, Bool.false_eq_true, Except.ok.injEq]
    apply (constructCore_iff o x _ hx).mpr
    exact ⟨fun _ _ => OptRel.refl' (ArrEq.refl hc true) _, OptRel.refl' (DataEq.refl hc _ _ _) _,
      fun _ => ⟨rfl, OptRel.refl' (SubEq.refl hc) _, OptRel.refl' (SubEq.refl hc) _⟩,
      fun h => by simp [h] at hm⟩

end Cfdm.Equality
