import Cfdm.Model.GeometryWidth
import Cfdm.Lemmas.Geometry
/- Helper lemmas for the storage-width theorems of C14. -/
namespace Cfdm.GeometryWidth
open Cfdm.Geometry

/-- Over non-negative integers the integer loop is the natural-number loop. -/
theorem innerZ_ofNat (need inst : Nat) : ∀ (ps : List Nat) (k n : Nat) (index : List Nat),
    innerZ (need : Int) inst k (n : Int) (ps.map (fun (p : Nat) => (p : Int))) index = inner need inst k n ps index := by
  intro ps
  induction ps with
  | nil => intro k n index; rfl
  | cons p ps ih =>
    intro k n index
    simp only [List.map_cons, innerZ, inner]
    have hiff : ((need : Int) ≤ (n : Int) + (p : Int)) ↔ need ≤ n + p := by omega
    by_cases h : need ≤ n + p
    · rw [if_pos (hiff.mpr h), if_pos h]
    · rw [if_neg (fun h' => h (hiff.mp h')), if_neg h]
      have := ih (k + 1) (n + p) (index.set k inst)
      rw [← this]
      simp

theorem stepZ_ofNat (parts : List Nat) (st : St) (need : Nat) :
    stepZ (parts.map (fun (p : Nat) => (p : Int))) st (need : Int) = step true parts st need := by
  simp only [stepZ, step]
  rw [← List.map_drop]
  have := innerZ_ofNat need st.inst (parts.drop st.i) st.i 0 st.index
  simp only [Int.natCast_zero] at this
  rw [this]
  rfl

theorem foldZ_ofNat (parts : List Nat) : ∀ (nc : List Nat) (st : St),
    (nc.map (fun (p : Nat) => (p : Int))).foldl (stepZ (parts.map (fun (p : Nat) => (p : Int)))) st
      = nc.foldl (step true parts) st := by
  intro nc
  induction nc with
  | nil => intro st; rfl
  | cons n nc ih =>
    intro st
    simp only [List.map_cons, List.foldl_cons]
    rw [stepZ_ofNat, ih]

theorem partIndexZ_ofNat (nc parts : List Nat) :
    partIndexZ (nc.map (fun (p : Nat) => (p : Int))) (parts.map (fun (p : Nat) => (p : Int))) = partIndex true nc parts := by
  simp only [partIndexZ, partIndex]
  rw [foldZ_ofNat]
  have : (parts.map (fun (p : Nat) => (p : Int))).map Int.toNat = parts := by
    rw [List.map_map]
    have : (Int.toNat ∘ fun (p : Nat) => (p : Int)) = id := by funext p; simp
    rw [this]; simp
  rw [this]

/-! ### the total kept in the storage type, when it fits -/

/-- Adding two stored counts whose sum fits the storage type does not wrap. -/
theorem storedVal_add {w : Nat} (signed : Bool) (a b : BitVec w) (A B : Nat)
    (ha : storedVal signed a = (A : Int)) (hb : storedVal signed b = (B : Int))
    (hfit : A + B ≤ maxStored w signed) : storedVal signed (a + b) = ((A + B : Nat) : Int) := by
  have hpow : 0 < 2 ^ w := Nat.two_pow_pos _
  cases signed with
  | false =>
    simp only [storedVal, maxStored, Bool.false_eq_true, if_false] at *
    have ha' : a.toNat = A := by omega
    have hb' : b.toNat = B := by omega
    rw [BitVec.toNat_add, ha', hb', Nat.mod_eq_of_lt (by omega)]
  | true =>
    simp only [storedVal, maxStored, if_true] at *
    have hpow2 : 2 * 2 ^ (w - 1) = 2 ^ w ∨ w = 0 := by
      cases w with
      | zero => right; rfl
      | succ k => left; simp [Nat.pow_succ, Nat.mul_comm]
    rw [BitVec.toInt_eq_toNat_cond] at ha hb ⊢
    have hlt_a := a.isLt
    have hlt_b := b.isLt
    rcases hpow2 with h2 | h0
    · have hp1 : 0 < 2 ^ (w - 1) := Nat.two_pow_pos _
      have ha' : a.toNat = A := by
        split at ha <;> omega
      have hb' : b.toNat = B := by
        split at hb <;> omega
      rw [BitVec.toNat_add, ha', hb', Nat.mod_eq_of_lt (by omega)]
      rw [if_pos (by omega)]
    · subst h0
      simp at hfit
      have : a.toNat = 0 := by omega
      have : b.toNat = 0 := by omega
      simp [BitVec.toNat_add, *]


theorem storedVal_zero {w : Nat} (signed : Bool) : storedVal signed (0 : BitVec w) = ((0 : Nat) : Int) := by
  cases signed <;> simp [storedVal]

/-- While the running total fits, the loop that keeps it in the storage type walks through a
cell exactly like the loop over natural numbers (whatever follows the cell). -/
theorem innerW_eq_inner {w : Nat} (signed : Bool) (inst : Nat) (restW : List (BitVec w)) :
    ∀ (c : List Nat), c ≠ [] → (∀ x ∈ c, 0 < x) → ∀ (n : BitVec w) (N : Nat) (cW : List (BitVec w)) (k : Nat)
      (index : List Nat), storedVal signed n = (N : Int) →
      cW.map (storedVal signed) = c.map (fun (p : Nat) => (p : Int)) → N + c.sum ≤ maxStored w signed →
      innerW signed ((N + c.sum : Nat) : Int) inst k n (cW ++ restW) index
        = inner (N + c.sum) inst k N (c ++ List.replicate restW.length 0) index := by
  intro c
  induction c with
  | nil => intro h; exact absurd rfl h
  | cons q qs ih =>
    intro _ hpos n N cW k index hn hmap hfit
    cases cW with
    | nil => simp at hmap
    | cons qW cW' =>
      simp only [List.map_cons, List.cons.injEq] at hmap
      obtain ⟨hq, hrest⟩ := hmap
      have hfitq : N + q ≤ maxStored w signed := by
        simp only [List.sum_cons] at hfit; omega
      have hadd := storedVal_add signed n qW N q hn hq hfitq
      cases qs with
      | nil =>
        have hcW' : cW' = [] := by simpa using hrest
        subst hcW'
        simp only [List.sum_cons, List.sum_nil, Nat.add_zero, List.cons_append, List.nil_append, innerW, inner, hadd]
        simp
      | cons q' qs' =>
        have hq' : 0 < q' := hpos q' (by simp)
        have hnot : ¬ (((N + (q :: q' :: qs').sum : Nat) : Int) ≤ ((N + q : Nat) : Int)) := by
          simp only [List.sum_cons]; omega
        have hnot' : ¬ (N + (q :: q' :: qs').sum ≤ N + q) := by
          simp only [List.sum_cons]; omega
        have hsum : N + (q :: q' :: qs').sum = (N + q) + (q' :: qs').sum := by
          simp only [List.sum_cons]; omega
        simp only [List.cons_append, innerW, inner, hadd]
        rw [if_neg hnot, if_neg hnot']
        rw [hsum]
        exact ih (by simp) (fun x hx => hpos x (by simp [hx])) (n + qW) (N + q) cW' (k + 1) (index.set k inst)
          hadd hrest (by rw [← hsum]; exact hfit)

theorem stepW_cell {w : Nat} (signed : Bool) (partsW : List (BitVec w)) (pre xs c : List Nat) (j : Nat)
    (cW restW : List (BitVec w)) (hc : c ≠ []) (hpos : ∀ x ∈ c, 0 < x)
    (hparts : partsW.drop pre.length = cW ++ restW)
    (hmap : cW.map (storedVal signed) = c.map (fun (p : Nat) => (p : Int)))
    (hfit : c.sum ≤ maxStored w signed) (hlen : xs.length = (cW ++ restW).length) :
    stepW signed partsW ⟨pre ++ xs, j, pre.length⟩ ((c.sum : Nat) : Int)
      = ⟨pre ++ List.replicate c.length j ++ xs.drop c.length, j + 1, pre.length + c.length⟩ := by
  have hlenc : cW.length = c.length := by
    have := congrArg List.length hmap; simpa using this
  have h1 := innerW_eq_inner signed j restW c hc hpos 0 0 cW pre.length (pre ++ xs) (storedVal_zero signed) hmap
    (by simpa using hfit)
  have h2 := inner_cell j c hc hpos 0 pre xs (List.replicate restW.length 0)
    (by simp only [List.length_append, List.length_replicate] at hlen ⊢; omega)
  simp only [Nat.zero_add] at h1 h2
  simp only [stepW, hparts, h1, h2]
  have : c.length ≠ 0 := fun h0 => hc (List.length_eq_zero_iff.mp h0)
  simp
  omega

theorem foldW_cells {w : Nat} (signed : Bool) (partsW : List (BitVec w)) :
    ∀ (g : List (List Nat)) (pre xs : List Nat) (j : Nat), (∀ c ∈ g, c ≠ []) → (∀ c ∈ g, ∀ x ∈ c, 0 < x) →
      (∀ c ∈ g, c.sum ≤ maxStored w signed) →
      (partsW.drop pre.length).map (storedVal signed) = g.flatten.map (fun (p : Nat) => (p : Int)) →
      xs.length = g.flatten.length →
      (((g.map List.sum).map (fun (p : Nat) => (p : Int))).foldl (stepW signed partsW) ⟨pre ++ xs, j, pre.length⟩).index
        = pre ++ labels j g := by
  intro g
  induction g with
  | nil =>
    intro pre xs j _ _ _ _ hlen
    have : xs = [] := List.length_eq_zero_iff.mp (by simpa using hlen)
    simp [labels, this]
  | cons c g ih =>
    intro pre xs j hne hpos hfit hparts hlen
    simp only [List.flatten_cons, List.map_append] at hparts
    simp only [List.flatten_cons, List.length_append] at hlen
    simp only [List.map_cons, List.foldl_cons]
    have hdl : (partsW.drop pre.length).length = c.length + g.flatten.length := by
      have := congrArg List.length hparts
      simp only [List.length_map, List.length_append] at this
      exact this
    have hsplit : partsW.drop pre.length
        = (partsW.drop pre.length).take c.length ++ (partsW.drop pre.length).drop c.length :=
      (List.take_append_drop _ _).symm
    have hcW : ((partsW.drop pre.length).take c.length).map (storedVal signed)
        = c.map (fun (p : Nat) => (p : Int)) := by
      rw [List.map_take, hparts]
      simp
    have hrW : ((partsW.drop pre.length).drop c.length).map (storedVal signed)
        = g.flatten.map (fun (p : Nat) => (p : Int)) := by
      rw [List.map_drop, hparts]
      simp
    rw [stepW_cell signed partsW pre xs c j _ _ (hne c (by simp)) (hpos c (by simp)) hsplit hcW
      (hfit c (by simp)) (by rw [← hsplit, hdl]; exact hlen)]
    have hl : (pre ++ List.replicate c.length j).length = pre.length + c.length := by simp
    rw [← hl]
    rw [ih (pre ++ List.replicate c.length j) (xs.drop c.length) (j + 1)
      (fun c hc => hne c (by simp [hc])) (fun c hc => hpos c (by simp [hc])) (fun c hc => hfit c (by simp [hc]))
      (by rw [hl, ← List.drop_drop]; exact hrW)
      (by simp [hlen])]
    simp [labels]

/-- Keeping the running total in the storage type of `part_node_count` gives the CF
assignment as long as no cell has more nodes than that type can hold. -/
theorem partIndexW_of_fits {wn wp : Nat} (sn sp : Bool) (nc : List (BitVec wn)) (pnc : List (BitVec wp))
    (g : List (List Nat)) (hne : ∀ c ∈ g, c ≠ []) (hpos : ∀ c ∈ g, ∀ x ∈ c, 0 < x)
    (hn : nc.map (storedVal sn) = (g.map List.sum).map (fun (p : Nat) => (p : Int)))
    (hp : pnc.map (storedVal sp) = g.flatten.map (fun (p : Nat) => (p : Int)))
    (hfit : ∀ c ∈ g, c.sum ≤ maxStored wp sp) :
    partIndexW sn sp nc pnc = labels 0 g := by
  unfold partIndexW
  have hidx : pnc.map (fun v => (storedVal sp v).toNat) = g.flatten := by
    have := congrArg (List.map Int.toNat) hp
    simp only [List.map_map] at this
    have hid : (Int.toNat ∘ fun (p : Nat) => (p : Int)) = id := by funext p; simp
    rw [hid, List.map_id] at this
    exact this
  rw [hn, hidx]
  have := foldW_cells sp pnc g [] g.flatten 0 hne hpos hfit (by simpa using hp) rfl
  simpa using this

end Cfdm.GeometryWidth
