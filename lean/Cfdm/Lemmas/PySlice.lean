import Cfdm.Model.PySlice
import Cfdm.Model.Indexing
import Mathlib.Tactic.Linarith
import Mathlib.Tactic.Ring
import Mathlib.Tactic.Positivity

namespace Cfdm.PySlice

theorem rangeList_two (s e step : Int) (h : rangeLen s e step = 2) :
    rangeList s e step = [s, s + step] := by
  simp [rangeList, h, List.range_succ]

theorem rangeList_one (s e step : Int) (h : rangeLen s e step = 1) :
    rangeList s e step = [s] := by
  simp [rangeList, h, List.range_succ]

end Cfdm.PySlice

namespace Cfdm.Indexing
open Cfdm.PySlice

theorem pairSlice_positions (n : Nat) (a b : Int) (ha0 : 0 ≤ a) (han : a < n)
    (hb0 : 0 ≤ b) (hbn : b < n) (hab : a ≠ b) :
    (pairSlice a b).positions n = [a, b] := by
  unfold pairSlice
  by_cases hlt : 0 < b - a
  · simp only [hlt, if_true, Piece.positions, slicePositions, Option.getD, adjust]
    have h1 : ¬ (b - a < 0) := by omega
    simp only [h1, if_false, adjBound]
    have h2 : ¬ (a < 0) := by omega
    have h3 : ¬ (a > (n:Int)) := by omega
    have h4 : ¬ (b + 1 < 0) := by omega
    have h5 : ¬ (b + 1 > (n:Int)) := by omega
    simp only [h2, h3, h4, h5, if_false]
    have hl : rangeLen a (b + 1) (b - a) = 2 := by
      unfold rangeLen
      have : a < b + 1 := by omega
      simp only [hlt, this, if_true]
      have : (b + 1 - a - 1) = (b - a) := by ring
      rw [this, Int.ediv_self (by omega)]
      rfl
    rw [rangeList_two _ _ _ hl]
    simp
  · have hneg : b - a < 0 := by omega
    by_cases hb : b = 0
    · subst hb
      simp only [hlt, if_false, if_true, Piece.positions, slicePositions, Option.getD, adjust, hneg, adjBound]
      have h2 : ¬ (a < 0) := by omega
      have h3 : ¬ (a > (n:Int) - 1) := by omega
      simp only [h2, h3, if_false]
      have hl : rangeLen a (-1) (0 - a) = 2 := by
        unfold rangeLen
        have h6 : ¬ (0 < 0 - a) := by omega
        have h7 : (-1 : Int) < a := by omega
        simp only [h6, hneg, h7, if_true, if_false]
        have : (a - -1 - 1) = a := by ring
        rw [this]
        have : -(0 - a) = a := by ring
        rw [this, Int.ediv_self (by omega)]
        rfl
      rw [rangeList_two _ _ _ hl]
      simp
    · simp only [hlt, hb, if_false, Piece.positions, slicePositions, Option.getD, adjust, hneg, if_true, adjBound]
      have h2 : ¬ (a < 0) := by omega
      have h3 : ¬ (a > (n:Int) - 1) := by omega
      have h4 : ¬ (b - 1 < 0) := by omega
      have h5 : ¬ (b - 1 > (n:Int) - 1) := by omega
      simp only [h2, h3, h4, h5, if_false]
      have hl : rangeLen a (b - 1) (b - a) = 2 := by
        unfold rangeLen
        have h6 : ¬ (0 < b - a) := by omega
        have h7 : b - 1 < a := by omega
        simp only [h6, hneg, h7, if_true, if_false]
        have : (a - (b - 1) - 1) = a - b := by ring
        rw [this]
        have : -(b - a) = a - b := by ring
        rw [this, Int.ediv_self (by omega)]
        rfl
      rw [rangeList_two _ _ _ hl]
      simp

theorem single_positions (n : Nat) (a : Int) (ha0 : 0 ≤ a) (han : a < n) :
    (Piece.sl a (some (a + 1)) none).positions n = [a] := by
  simp only [Piece.positions, slicePositions, Option.getD, adjust, adjBound]
  have h1 : ¬ ((1:Int) < 0) := by omega
  have h2 : ¬ (a < 0) := by omega
  have h3 : ¬ (a > (n:Int)) := by omega
  have h4 : ¬ (a + 1 < 0) := by omega
  have h5 : ¬ (a + 1 > (n:Int)) := by omega
  simp only [h1, h2, h3, h4, h5, if_false]
  have hl : rangeLen a (a + 1) 1 = 1 := by
    unfold rangeLen
    have : a < a + 1 := by omega
    simp [this]
  rw [rangeList_one _ _ _ hl]

theorem norm_bounds (n : Nat) (i : Int) (h : inRange n i = true) :
    0 ≤ norm n i ∧ norm n i < n := by
  simp only [inRange, Bool.and_eq_true, decide_eq_true_eq] at h
  unfold norm
  split <;> omega

theorem norm_idem (n : Nat) (i : Int) (h : inRange n i = true) :
    norm n (norm n i) = norm n i := by
  have := norm_bounds n i h
  have h2 : ¬ (norm n i < 0) := by omega
  generalize norm n i = x at *
  unfold norm
  simp [h2]

end Cfdm.Indexing

namespace Cfdm.PySlice

theorem rangeList_mem_pos (s e step p : Int) (hs : 0 < step) (hp : p ∈ rangeList s e step) :
    s ≤ p ∧ p < e := by
  simp only [rangeList, List.mem_map, List.mem_range] at hp
  obtain ⟨i, hi, rfl⟩ := hp
  unfold rangeLen at hi
  simp only [hs, if_true] at hi
  split at hi
  · rename_i hse
    have hq : 0 ≤ (e - s - 1) / step := Int.ediv_nonneg (by omega) (by omega)
    have hi' : (i : Int) ≤ (e - s - 1) / step := by omega
    have h1 : (e - s - 1) / step * step ≤ e - s - 1 := Int.ediv_mul_le _ (by omega)
    have h2 : (i : Int) * step ≤ (e - s - 1) / step * step :=
      Int.mul_le_mul_of_nonneg_right hi' (by omega)
    have h3 : 0 ≤ (i : Int) * step := by positivity
    constructor <;> linarith
  · omega

theorem rangeList_mem_neg (s e step p : Int) (hs : step < 0) (hp : p ∈ rangeList s e step) :
    e < p ∧ p ≤ s := by
  simp only [rangeList, List.mem_map, List.mem_range] at hp
  obtain ⟨i, hi, rfl⟩ := hp
  unfold rangeLen at hi
  have hns : ¬ (0 < step) := by omega
  simp only [hns, hs, if_true, if_false] at hi
  split at hi
  · rename_i hse
    have hq : 0 ≤ (s - e - 1) / (-step) := Int.ediv_nonneg (by omega) (by omega)
    have hi' : (i : Int) ≤ (s - e - 1) / (-step) := by omega
    have h1 : (s - e - 1) / (-step) * (-step) ≤ s - e - 1 := Int.ediv_mul_le _ (by omega)
    have h2 : (i : Int) * (-step) ≤ (s - e - 1) / (-step) * (-step) :=
      Int.mul_le_mul_of_nonneg_right hi' (by omega)
    have h3 : 0 ≤ (i : Int) * (-step) := by
      have : 0 ≤ -step := by omega
      positivity
    constructor <;> linarith
  · omega

theorem adjBound_bounds (b : Option Int) (d lo up n : Int) (hd : lo ≤ d ∧ d ≤ up) (hlu : lo ≤ up)
   (hn : up ≤ n) (hlo : lo ≤ 0) (hup : n - 1 ≤ up) :
    lo ≤ adjBound b d lo up n ∧ adjBound b d lo up n ≤ up := by
  unfold adjBound
  cases b with
  | none => exact hd
  | some v =>
    simp only
    split <;> split <;> omega

theorem slicePositions_mem (a b c : Option Int) (n : Nat) (hc : c ≠ some 0) (p : Int)
    (hp : p ∈ slicePositions a b c n) : 0 ≤ p ∧ p < n := by
  unfold slicePositions adjust at hp
  simp only at hp
  have hst : c.getD 1 ≠ 0 := by
    cases c with
    | none => simp
    | some v => simp; intro h; exact hc (by rw [h])
  generalize c.getD 1 = st at *
  rcases Int.lt_or_gt_of_ne hst with hneg | hpos
  · simp only [hneg, if_true] at hp
    have := rangeList_mem_neg _ _ _ _ hneg hp
    have h1 := adjBound_bounds a ((n:Int) - 1) (-1) ((n:Int) - 1) n (by omega) (by omega) (by omega) (by omega)
    have h2 := adjBound_bounds b (-1) (-1) ((n:Int) - 1) n (by omega) (by omega) (by omega) (by omega)
    omega
  · have hnn : ¬ (st < 0) := by omega
    simp only [hnn, if_false] at hp
    have := rangeList_mem_pos _ _ _ _ hpos hp
    have h1 := adjBound_bounds a 0 0 (n:Int) n (by omega) (by omega) (by omega) (by omega)
    have h2 := adjBound_bounds b (n:Int) 0 (n:Int) n (by omega) (by omega) (by omega) (by omega)
    omega

end Cfdm.PySlice
