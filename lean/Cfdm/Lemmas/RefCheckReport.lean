import Cfdm.Lemmas.RefCheck
/-!
C13 — the compliance report only grows.

`g['dataset_compliance'][field_ncvar]` is created once per data variable (`setdefault`), the pre-scan
(`_parse_geometry`, …) and every stage of `_create_field_or_domain` append to it and nothing resets
it; the same holds for `g['component_report']`, which is shared by all the fields of one read.  In the
model: every stage extends `s.out.msgs` and `s.C.report` (`Ext`), for every configuration of the
reader.  From it: what one stage records is still in the report of the finished field.
-/
namespace Cfdm.RefCheck

/-- `s'` has the messages of `s`, in the same order, and possibly more. -/
def Ext (s s' : FSt) : Prop :=
  (∃ ms, s'.out.msgs = s.out.msgs ++ ms) ∧ (∃ rs, s'.C.report = s.C.report ++ rs)

theorem Ext.refl (s : FSt) : Ext s s := ⟨⟨[], by simp⟩, ⟨[], by simp⟩⟩

theorem Ext.trans {a b c : FSt} (h1 : Ext a b) (h2 : Ext b c) : Ext a c := by
  obtain ⟨⟨m1, e1⟩, ⟨r1, f1⟩⟩ := h1
  obtain ⟨⟨m2, e2⟩, ⟨r2, f2⟩⟩ := h2
  exact ⟨⟨m1 ++ m2, by rw [e2, e1, List.append_assoc]⟩, ⟨r1 ++ r2, by rw [f2, f1, List.append_assoc]⟩⟩

theorem Ext.mem {a b : FSt} (h : Ext a b) {m : Msg} (hm : m ∈ a.out.msgs) : m ∈ b.out.msgs := by
  obtain ⟨⟨ms, e⟩, _⟩ := h
  rw [e]; exact List.mem_append_left _ hm

/-- … and the component report `g['component_report']` keeps what was filed in it. -/
theorem Ext.memR {a b : FSt} (h : Ext a b) {m : Msg} (hm : m ∈ a.C.report) : m ∈ b.C.report := by
  obtain ⟨_, ⟨rs, e⟩⟩ := h
  rw [e]; exact List.mem_append_left _ hm

@[simp] theorem FSt.add_msgs (s : FSt) (es : List String) (ms : List Msg) :
    (s.add es ms).out.msgs = s.out.msgs ++ ms := rfl
@[simp] theorem FSt.addCopied_msgs (s : FSt) (ms : List Msg) : (s.addCopied ms).out.msgs = s.out.msgs ++ ms := rfl
@[simp] theorem FSt.newDimKey_out (s : FSt) (n : String) : (s.newDimKey n).out = s.out := rfl
@[simp] theorem FSt.newAuxKey_out (s : FSt) (n : String) : (s.newAuxKey n).out = s.out := rfl
@[simp] theorem FSt.otherKey_out (s : FSt) (n : String) : (s.otherKey n).out = s.out := by
  unfold FSt.otherKey; split <;> rfl
@[simp] theorem FSt.add_report (s : FSt) (es : List String) (ms : List Msg) :
    (s.add es ms).C.report = s.C.report ++ ms := rfl
@[simp] theorem FSt.addCopied_C (s : FSt) (ms : List Msg) : (s.addCopied ms).C = s.C := rfl
@[simp] theorem FSt.newDimKey_C (s : FSt) (n : String) : (s.newDimKey n).C = s.C := rfl
@[simp] theorem FSt.newAuxKey_C (s : FSt) (n : String) : (s.newAuxKey n).C = s.C := rfl
@[simp] theorem FSt.otherKey_C (s : FSt) (n : String) : (s.otherKey n).C = s.C := by
  unfold FSt.otherKey; split <;> rfl

theorem Ext.add (s : FSt) (es : List String) (ms : List Msg) : Ext s (s.add es ms) := ⟨⟨ms, rfl⟩, ⟨ms, rfl⟩⟩

/-- A fold of steps that each extend the report extends the report. -/
theorem foldlM_ext {α} (f : FSt → α → Except Err FSt) (h : ∀ s a s', f s a = .ok s' → Ext s s')
    (l : List α) (s s' : FSt) (hs : l.foldlM f s = .ok s') : Ext s s' :=
  foldlM_preserves f (Ext s) (fun s1 a s2 h12 hi => hi.trans (h s1 a s2 h12)) l s s' hs (Ext.refl s)

/-- Close a goal `Ext s <explicit state built from s>`. -/
macro "ext_half" : tactic =>
  `(tactic| first
    | exact ⟨_, rfl⟩
    | exact ⟨[], (List.append_nil _).symm⟩
    | (refine ⟨?_, ?_⟩
       rotate_left
       · simp only [FSt.add_msgs, FSt.addCopied_msgs, FSt.newDimKey_out, FSt.newAuxKey_out, FSt.otherKey_out,
           FSt.add_report, FSt.addCopied_C, FSt.newDimKey_C, FSt.newAuxKey_C, FSt.otherKey_C, List.append_assoc]
         rfl)
    | (refine ⟨[], ?_⟩
       simp only [FSt.add_msgs, FSt.addCopied_msgs, FSt.newDimKey_out, FSt.newAuxKey_out, FSt.otherKey_out,
           FSt.add_report, FSt.addCopied_C, FSt.newDimKey_C, FSt.newAuxKey_C, FSt.otherKey_C, List.append_assoc,
           List.append_nil]))

macro "ext_close" : tactic =>
  `(tactic| first
    | exact Ext.refl _
    | (refine ⟨?_, ?_⟩ <;> ext_half))

theorem stageDims_ext (cfg : Cfg) (F : NcFile) (P : Pre) (v : String) (D : List String) (s s' : FSt)
    (h : stageDims cfg F P v D s = .ok s') : Ext s s' := by
  unfold stageDims at h
  refine foldlM_ext _ ?_ D s s' h
  intro s d s1 hs
  simp only at hs
  split at hs
  · split at hs
    · split at hs
      · simp only [pure, Except.pure, Except.ok.injEq] at hs
        subst hs
        ext_close
      · cases hb : boundsOf cfg F P v (some d) none false with
        | error e => simp [hb, bind, Except.bind] at hs
        | ok r =>
          simp only [hb, bind, Except.bind, pure, Except.pure, Except.ok.injEq] at hs
          subst hs
          ext_close
    · simp only [pure, Except.pure, Except.ok.injEq] at hs
      subst hs; exact Ext.refl _
  · simp only [pure, Except.pure, Except.ok.injEq] at hs
    subst hs; exact Ext.refl _

theorem auxToken_ext (cfg : Cfg) (F : NcFile) (P : Pre) (v : String) (D : List String) (s s' : FSt) (tok : String)
    (h : auxToken cfg F P v D s tok = .ok s') : Ext s s' := by
  unfold auxToken at h
  split at h
  · cases h; exact Ext.refl _
  · split at h
    · cases h; ext_close
    · cases hn : ncdims F P tok with
      | error e => simp [hn, bind, Except.bind] at h
      | ok cd =>
        simp only [hn, bind, Except.bind, pure, Except.pure] at h
        split at h
        · cases h; ext_close
        · split at h
          · cases h
          · split at h
            · -- cache hit
              split at h <;> (try split at h) <;> (try split at h) <;> cases h <;> ext_close
            · cases hb : boundsOf cfg F P v (some tok) none false with
              | error e => simp [hb] at h
              | ok r =>
                simp only [hb] at h
                split at h <;> (try split at h) <;> cases h <;> ext_close

theorem stageAux_ext (cfg : Cfg) (F : NcFile) (P : Pre) (v : String) (D : List String) (vv : NcVar) (s s' : FSt)
    (h : stageAux cfg F P v D vv s = .ok s') : Ext s s' := by
  unfold stageAux at h
  exact foldlM_ext _ (fun s a s1 hs => auxToken_ext cfg F P v D s s1 a hs) _ s s' h

theorem stageNodes_ext (cfg : Cfg) (F : NcFile) (P : Pre) (v : String) (D : List String) (s s' : FSt)
    (h : stageNodes cfg F P v D s = .ok s') : Ext s s' := by
  unfold stageNodes at h
  split at h
  · cases h; exact Ext.refl _
  · split at h
    · cases h
    · refine foldlM_ext _ ?_ _ s s' h
      intro s n s1 hs
      simp only at hs
      split at hs
      · simp only [pure, Except.pure, Except.ok.injEq] at hs
        subst hs; exact Ext.refl _
      · simp only [bind, Except.bind, pure, Except.pure] at hs
        split at hs
        · split at hs
          · cases hs
          · cases hs; ext_close
        · cases hb : boundsOf cfg F P v none (some n) true with
          | error e => simp [hb] at hs
          | ok r =>
            simp only [hb] at hs
            split at hs
            · cases hs
            · cases hs; ext_close

theorem ftTermStep_ext (cfg : Cfg) (F : NcFile) (P : Pre) (v cn : String) (D : List String) (bterms : Terms)
    (acc acc' : FSt × List (String × Option String) × Bool) (t : String × Option String)
    (h : ftTermStep cfg F P v cn D bterms acc t = .ok acc') : Ext acc.1 acc'.1 := by
  unfold ftTermStep at h
  split at h
  · cases h; exact Ext.refl _
  · split at h
    · cases h
    · simp only at h
      split at h
      · cases h
      · rename_i bs hbs
        split at hbs
        · cases hbs
          split at h <;> cases h <;> ext_close
        · split at hbs
          · cases hbs
          · cases hbs
            split at h <;> cases h <;> ext_close

theorem foldlM_rel {σ α} (R : σ → σ → Prop) (hrefl : ∀ s, R s s) (htrans : ∀ a b c, R a b → R b c → R a c)
    (f : σ → α → Except Err σ) (h : ∀ s a s', f s a = .ok s' → R s s')
    (l : List α) (s s' : σ) (hs : l.foldlM f s = .ok s') : R s s' :=
  foldlM_preserves f (R s) (fun s1 a s2 h12 hi => htrans _ _ _ hi (h s1 a s2 h12)) l s s' hs (hrefl s)

theorem foldl_otherKey_out (das : List (String × Option String)) (s : FSt) :
    (das.foldl (fun (s : FSt) d => s.otherKey d.1) s).out = s.out := by
  induction das generalizing s with
  | nil => rfl
  | cons d ds ih => simp only [List.foldl_cons]; rw [ih]; exact FSt.otherKey_out s d.1

theorem foldl_otherKey_C (das : List (String × Option String)) (s : FSt) :
    (das.foldl (fun (s : FSt) d => s.otherKey d.1) s).C = s.C := by
  induction das generalizing s with
  | nil => rfl
  | cons d ds ih => simp only [List.foldl_cons]; rw [ih]; exact FSt.otherKey_C s d.1

theorem ftCoordStep_ext (cfg : Cfg) (F : NcFile) (P : Pre) (v : String) (D : List String) (s s' : FSt) (cn : String)
    (h : ftCoordStep cfg F P v D s cn = .ok s') : Ext s s' := by
  unfold ftCoordStep at h
  split at h
  · cases h
  · split at h
    · cases h; exact Ext.refl _
    · split at h
      · cases h
      · split at h
        · cases h
        · rename_i chk hchk
          simp only at h
          split at h
          · cases h
          · rename_i r hr
            have hfold := foldlM_rel (fun (a b : FSt × List (String × Option String) × Bool) => Ext a.1 b.1)
              (fun a => Ext.refl a.1) (fun a b c h1 h2 => Ext.trans h1 h2) _
              (fun acc t acc' hacc => ftTermStep_ext cfg F P v cn D chk.2.1 acc acc' t hacc) _ _ _ hr
            simp only at hfold
            have h0 : Ext s r.1 := by
              refine Ext.trans ?_ hfold
              split <;> ext_close
            split at h
            · cases h; exact h0
            · cases h
              refine Ext.trans h0 ?_
              refine ⟨⟨[], ?_⟩, ⟨[], ?_⟩⟩
              · simp only [List.append_nil]
                show (List.foldl (fun (s : FSt) d => s.otherKey d.1) _ r.2.1).out.msgs = r.1.out.msgs
                rw [foldl_otherKey_out]
                simp
              · simp only [List.append_nil]
                show (List.foldl (fun (s : FSt) d => s.otherKey d.1) _ r.2.1).C.report = r.1.C.report
                rw [foldl_otherKey_C]
                simp

theorem stageFormulaTerms_ext (cfg : Cfg) (F : NcFile) (P : Pre) (v : String) (D : List String) (s s' : FSt)
    (h : stageFormulaTerms cfg F P v D s = .ok s') : Ext s s' := by
  unfold stageFormulaTerms at h
  exact foldlM_ext _ (fun s a s1 hs => ftCoordStep_ext cfg F P v D s s1 a hs) _ s s' h

theorem gmEntry_ext (cfg : Cfg) (F : NcFile) (v : String) (s s' : FSt) (x : String × List String)
    (h : gmEntry cfg F v s x = .ok s') : Ext s s' := by
  unfold gmEntry at h
  cases hx : getOr Err.keyError (F.var? x.1) with
  | error e => simp [hx, bind, Except.bind] at h
  | ok xv =>
    simp only [hx, bind, Except.bind, pure, Except.pure] at h
    split at h <;> split at h <;> cases h <;> ext_close

theorem stageGridMapping_ext (cfg : Cfg) (F : NcFile) (v : String) (vv : NcVar) (s s' : FSt)
    (h : stageGridMapping cfg F v vv s = .ok s') : Ext s s' := by
  unfold stageGridMapping at h
  split at h
  · cases h; exact Ext.refl _
  · split at h
    · cases h
    · rename_i keep ms _
      exact Ext.trans (Ext.add s [] ms) (foldlM_ext _ (fun s a s1 hs => gmEntry_ext cfg F v s s1 a hs) _ _ s' h)

theorem stageCellMeasures_ext (cfg : Cfg) (F : NcFile) (P : Pre) (v : String) (D : List String) (vv : NcVar)
    (s s' : FSt) (h : stageCellMeasures cfg F P v D vv s = .ok s') : Ext s s' := by
  unfold stageCellMeasures at h
  split at h
  · cases h; exact Ext.refl _
  · rename_i cmz _
    cases hc : checked cfg (checkCellMeasures cfg F P v D) (parseX cmz) with
    | error e => simp [hc, bind, Except.bind] at h
    | ok km =>
      simp only [hc, bind, Except.bind] at h
      refine Ext.trans (Ext.add s [] km.2) (foldlM_ext _ ?_ _ _ s' h)
      intro s x s1 hs
      cases hx : getOr Err.indexError x.2.head? with
      | error e => simp [hx] at hs
      | ok n =>
        simp only [hx] at hs
        split at hs
        · simp only [pure, Except.pure] at hs
          split at hs
          · cases hs
          · cases hs; ext_close
        · cases hnd : ncdims F P n with
          | error e => simp [hnd] at hs
          | ok nd =>
            simp only [hnd, pure, Except.pure] at hs
            split at hs
            · cases hs
            · cases hs; ext_close

theorem stageCellMethods_ext (cfg : Cfg) (v : String) (vv : NcVar) (s s' : FSt)
    (h : stageCellMethods cfg v vv s = .ok s') : Ext s s' := by
  unfold stageCellMethods at h
  split at h
  · cases h; exact Ext.refl _
  · rename_i cm _
    cases hp : parseCellMethods cfg cm with
    | error e => simp [hp, bind, Except.bind] at h
    | ok r =>
      simp only [hp, bind, Except.bind, pure, Except.pure] at h
      cases h; ext_close

theorem stageAncillary_ext (cfg : Cfg) (F : NcFile) (P : Pre) (v : String) (D : List String) (vv : NcVar)
    (s s' : FSt) (h : stageAncillary cfg F P v D vv s = .ok s') : Ext s s' := by
  unfold stageAncillary at h
  split at h
  · cases h; exact Ext.refl _
  · rename_i av _
    cases hc : checked cfg (checkAncillary cfg F P v D) (splitWS av) with
    | error e => simp [hc, bind, Except.bind] at h
    | ok km =>
      simp only [hc, bind, Except.bind] at h
      refine Ext.trans (Ext.add s [] km.2) (foldlM_ext _ ?_ _ _ s' h)
      intro s n s1 hs
      cases hx : ncdims F P n with
      | error e => simp [hx] at hs
      | ok nd =>
        simp only [hx] at hs
        split at hs
        · cases hs
        · simp only [pure, Except.pure] at hs; cases hs; ext_close

/-! ### The stages in sequence -/

/-- The intermediate states of `runStages`. -/
structure Trace (cfg : Cfg) (F : NcFile) (P : Pre) (vv : NcVar) (D : List String) (s0 s8 : FSt) where
  s1 : FSt
  s2 : FSt
  s3 : FSt
  s4 : FSt
  s5 : FSt
  s6 : FSt
  s7 : FSt
  h1 : stageDims cfg F P vv.name D s0 = .ok s1
  h2 : stageAux cfg F P vv.name D vv s1 = .ok s2
  h3 : stageNodes cfg F P vv.name D s2 = .ok s3
  h4 : stageFormulaTerms cfg F P vv.name D s3 = .ok s4
  h5 : stageGridMapping cfg F vv.name vv s4 = .ok s5
  h6 : stageCellMeasures cfg F P vv.name D vv s5 = .ok s6
  h7 : stageCellMethods cfg vv.name vv s6 = .ok s7
  h8 : stageAncillary cfg F P vv.name D vv s7 = .ok s8

theorem runStages_trace (cfg : Cfg) (F : NcFile) (P : Pre) (vv : NcVar) (D : List String) (s0 s8 : FSt)
    (h : runStages cfg F P vv D s0 = .ok s8) : Nonempty (Trace cfg F P vv D s0 s8) := by
  unfold runStages at h
  simp only [bind, Except.bind] at h
  cases h1 : stageDims cfg F P vv.name D s0 with
  | error e => simp [h1] at h
  | ok s1 =>
  simp only [h1] at h
  cases h2 : stageAux cfg F P vv.name D vv s1 with
  | error e => simp [h2] at h
  | ok s2 =>
  simp only [h2] at h
  cases h3 : stageNodes cfg F P vv.name D s2 with
  | error e => simp [h3] at h
  | ok s3 =>
  simp only [h3] at h
  cases h4 : stageFormulaTerms cfg F P vv.name D s3 with
  | error e => simp [h4] at h
  | ok s4 =>
  simp only [h4] at h
  cases h5 : stageGridMapping cfg F vv.name vv s4 with
  | error e => simp [h5] at h
  | ok s5 =>
  simp only [h5] at h
  cases h6 : stageCellMeasures cfg F P vv.name D vv s5 with
  | error e => simp [h6] at h
  | ok s6 =>
  simp only [h6] at h
  cases h7 : stageCellMethods cfg vv.name vv s6 with
  | error e => simp [h7] at h
  | ok s7 =>
  simp only [h7] at h
  exact ⟨⟨s1, s2, s3, s4, s5, s6, s7, h1, h2, h3, h4, h5, h6, h7, h⟩⟩

namespace Trace
variable {cfg : Cfg} {F : NcFile} {P : Pre} {vv : NcVar} {D : List String} {s0 s8 : FSt}

theorem e01 (t : Trace cfg F P vv D s0 s8) : Ext s0 t.s1 := stageDims_ext _ _ _ _ _ _ _ t.h1
theorem e12 (t : Trace cfg F P vv D s0 s8) : Ext t.s1 t.s2 := stageAux_ext _ _ _ _ _ _ _ _ t.h2
theorem e23 (t : Trace cfg F P vv D s0 s8) : Ext t.s2 t.s3 := stageNodes_ext _ _ _ _ _ _ _ t.h3
theorem e34 (t : Trace cfg F P vv D s0 s8) : Ext t.s3 t.s4 := stageFormulaTerms_ext _ _ _ _ _ _ _ t.h4
theorem e45 (t : Trace cfg F P vv D s0 s8) : Ext t.s4 t.s5 := stageGridMapping_ext _ _ _ _ _ _ t.h5
theorem e56 (t : Trace cfg F P vv D s0 s8) : Ext t.s5 t.s6 := stageCellMeasures_ext _ _ _ _ _ _ _ _ t.h6
theorem e67 (t : Trace cfg F P vv D s0 s8) : Ext t.s6 t.s7 := stageCellMethods_ext _ _ _ _ _ t.h7
theorem e78 (t : Trace cfg F P vv D s0 s8) : Ext t.s7 s8 := stageAncillary_ext _ _ _ _ _ _ _ _ t.h8
theorem e28 (t : Trace cfg F P vv D s0 s8) : Ext t.s2 s8 :=
  t.e23.trans (t.e34.trans (t.e45.trans (t.e56.trans (t.e67.trans t.e78))))
theorem e58 (t : Trace cfg F P vv D s0 s8) : Ext t.s5 s8 := t.e56.trans (t.e67.trans t.e78)
theorem e08 (t : Trace cfg F P vv D s0 s8) : Ext s0 s8 := t.e01.trans (t.e12.trans t.e28)
end Trace

/-- **The report of a field is never reset**: `runStages` only appends to it. -/
theorem runStages_ext (cfg : Cfg) (F : NcFile) (P : Pre) (vv : NcVar) (D : List String) (s0 s8 : FSt)
    (h : runStages cfg F P vv D s0 = .ok s8) : Ext s0 s8 := by
  obtain ⟨t⟩ := runStages_trace cfg F P vv D s0 s8 h
  exact t.e08

/-- A message recorded by the step for `a0` of a fold of report-extending steps is in the final report. -/
theorem foldlM_records {α} (f : FSt → α → Except Err FSt) (hext : ∀ s a s', f s a = .ok s' → Ext s s')
    (a0 : α) (m : Msg) (hrec : ∀ s s', f s a0 = .ok s' → m ∈ s'.out.msgs) :
    ∀ (l : List α) (s s' : FSt), a0 ∈ l → l.foldlM f s = .ok s' → m ∈ s'.out.msgs
  | [], _, _, hin, _ => by cases hin
  | a :: l, s, s', hin, hs => by
    rw [List.foldlM_cons] at hs
    cases h1 : f s a with
    | error e => simp [h1, bind, Except.bind] at hs
    | ok s1 =>
      simp only [h1, bind, Except.bind] at hs
      rcases List.mem_cons.mp hin with e | hl
      · subst e
        exact (foldlM_ext f hext l s1 s' hs).mem (hrec s s1 h1)
      · exact foldlM_records f hext a0 m hrec l s1 s' hl hs

/-- What `createField` returns is the outcome of `runStages` from the pre-scan's messages. -/
theorem createField_run (cfg : Cfg) (F : NcFile) (P : Pre) (C : Caches) (vv : NcVar) (fo : FieldOut) (C' : Caches)
    (h : createField cfg F P C vv = .ok (fo, C')) :
    ∃ D s0 s8, ncdims F P vv.name = .ok D ∧
      s0.out.msgs = (P.msgs.filter (fun m => m.1 == some vv.name)).map (·.2) ∧
      runStages cfg F P vv D s0 = .ok s8 ∧ fo = s8.out := by
  unfold createField at h
  split at h
  · cases h
  · split at h
    · cases h
    · rename_i D hD
      simp only at h
      split at h
      · cases h
      · rename_i s8 hs8
        cases h
        exact ⟨D, _, s8, hD, rfl, hs8, rfl⟩

/-! ### What is recorded for a broken token reaches the report of the field -/

/-- `coordinates`: a token that names a missing variable, or a variable with a dimension that the
parent does not have, is recorded under its own name, quoting the parent's attribute. -/
theorem stageAux_reports (F : NcFile) (P : Pre) (v : String) (D : List String) (vv : NcVar) (s s' : FSt)
    (h : stageAux patched F P v D vv s = .ok s') (tok : String) (ht : tok ∈ optToks (vv.attr? "coordinates"))
    (hD : D.contains tok = false) :
    (F.var? tok = none → coordMissing v tok ∈ s'.out.msgs) ∧
    (∀ cv, F.var? tok = some cv → (applyComp P.comp (rawDims cv)).all D.contains = false →
      coordForeign v tok ∈ s'.out.msgs) := by
  unfold stageAux at h
  constructor
  · intro hv
    refine foldlM_records _ (fun s a s1 hs => auxToken_ext patched F P v D s s1 a hs) tok _ ?_ _ s s' ht h
    intro s1 s2 h12
    rw [auxToken_missing F P v D s1 tok hD hv] at h12
    cases h12; simp
  · intro cv hv hf
    refine foldlM_records _ (fun s a s1 hs => auxToken_ext patched F P v D s s1 a hs) tok _ ?_ _ s s' ht h
    intro s1 s2 h12
    rw [auxToken_foreign F P v D s1 tok cv hD hv hf] at h12
    cases h12; simp

/-- `ancillary_variables` (entries checked one at a time): every entry that fails its check is recorded
under its own name - missing, or spanning foreign dimensions - quoting the parent's attribute. -/
theorem stageAncillary_reports (F : NcFile) (P : Pre) (v : String) (D : List String) (vv : NcVar) (s s' : FSt)
    (h : stageAncillary patched F P v D vv s = .ok s') (av : String) (ha : vv.attr? "ancillary_variables" = some av)
    (n : String) (hn : n ∈ splitWS av) (hbad : ancOk F P D n = false) :
    (if F.hasVar n then ancForeign v n else ancMissing v n) ∈ s'.out.msgs := by
  unfold stageAncillary at h
  simp only [ha] at h
  have hne : (splitWS av).isEmpty = false := by
    cases hl : splitWS av with
    | nil => rw [hl] at hn; cases hn
    | cons _ _ => rfl
  have hck : checked patched (checkAncillary patched F P v D) (splitWS av) =
      .ok ((splitWS av).filter (ancOk F P D), (splitWS av).flatMap (ancMsgs F P v D)) := by
    unfold checked
    have hpt : patched.perToken = true := rfl
    simp only [hpt, hne, Bool.not_false, Bool.and_self, ↓reduceIte]
    exact perEntry_eq_filter _ _ _ (checkAncillary_entry F P v D) _
  simp only [hck, bind, Except.bind] at h
  have hin : (if F.hasVar n then ancForeign v n else ancMissing v n) ∈
      (s.add [] ((splitWS av).flatMap (ancMsgs F P v D))).out.msgs := by
    simp only [FSt.add_msgs]
    apply List.mem_append_right
    apply List.mem_flatMap.mpr
    exact ⟨n, hn, by simp [ancMsgs, hbad]⟩
  refine (foldlM_ext _ ?_ _ _ s' h).mem hin
  intro s1 x s2 hs
  cases hx : ncdims F P x with
  | error e => simp [hx] at hs
  | ok nd =>
    simp only [hx] at hs
    split at hs
    · cases hs
    · simp only [pure, Except.pure] at hs; cases hs; ext_close

/-- At the level of the finished field: `coordinates`. -/
theorem createField_reports_coordinate (F : NcFile) (P : Pre) (C : Caches) (vv : NcVar) (fo : FieldOut) (C' : Caches)
    (h : createField patched F P C vv = .ok (fo, C')) (hv : F.var? vv.name = some vv)
    (tok : String) (ht : tok ∈ optToks (vv.attr? "coordinates"))
    (hD : (applyComp P.comp (rawDims vv)).contains tok = false) :
    (F.var? tok = none → coordMissing vv.name tok ∈ fo.msgs) ∧
    (∀ cv, F.var? tok = some cv →
      (applyComp P.comp (rawDims cv)).all (applyComp P.comp (rawDims vv)).contains = false →
      coordForeign vv.name tok ∈ fo.msgs) := by
  obtain ⟨D, s0, s8, hDd, _, hrun, hfo⟩ := createField_run patched F P C vv fo C' h
  rw [ncdims_of_var P hv] at hDd
  cases hDd
  obtain ⟨t⟩ := runStages_trace patched F P vv _ s0 s8 hrun
  have := stageAux_reports F P vv.name _ vv t.s1 t.s2 t.h2 tok ht hD
  subst hfo
  exact ⟨fun h1 => t.e28.mem (this.1 h1), fun cv h1 h2 => t.e28.mem (this.2 cv h1 h2)⟩

/-- At the level of the finished field: `ancillary_variables`. -/
theorem createField_reports_ancillary (F : NcFile) (P : Pre) (C : Caches) (vv : NcVar) (fo : FieldOut) (C' : Caches)
    (h : createField patched F P C vv = .ok (fo, C')) (hv : F.var? vv.name = some vv)
    (av : String) (ha : vv.attr? "ancillary_variables" = some av) (n : String) (hn : n ∈ splitWS av)
    (hbad : ancOk F P (applyComp P.comp (rawDims vv)) n = false) :
    (if F.hasVar n then ancForeign vv.name n else ancMissing vv.name n) ∈ fo.msgs := by
  obtain ⟨D, s0, s8, hDd, _, hrun, hfo⟩ := createField_run patched F P C vv fo C' h
  rw [ncdims_of_var P hv] at hDd
  cases hDd
  obtain ⟨t⟩ := runStages_trace patched F P vv _ s0 s8 hrun
  subst hfo
  exact stageAncillary_reports F P vv.name _ vv t.s7 s8 t.h8 av ha n hn hbad

/-- The messages of the pre-scan (`_parse_geometry`, …) for a data variable are in its field's report. -/
theorem createField_keeps_prescan (cfg : Cfg) (F : NcFile) (P : Pre) (C : Caches) (vv : NcVar) (fo : FieldOut)
    (C' : Caches) (h : createField cfg F P C vv = .ok (fo, C')) (m : Msg) (hm : (some vv.name, m) ∈ P.msgs) :
    m ∈ fo.msgs := by
  obtain ⟨D, s0, s8, _, h0, hrun, hfo⟩ := createField_run cfg F P C vv fo C' h
  subst hfo
  refine (runStages_ext cfg F P vv D s0 s8 hrun).mem ?_
  rw [h0]
  apply List.mem_map.mpr
  exact ⟨(some vv.name, m), List.mem_filter.mpr ⟨hm, by simp⟩, rfl⟩

/-! ### `grid_mapping`: a listed coordinate that is not a coordinate of the data variable (patch) -/

theorem lookup_snoc_none (c k : String) (val : String) :
    ∀ (l : List (String × String)), List.lookup c l = none → k ≠ c → List.lookup c (l ++ [(k, val)]) = none
  | [], _, hne => by
    have : (c == k) = false := by simpa using fun h : c = k => hne h.symm
    simp [List.lookup, this]
  | (a, b) :: l, h, hne => by
    rw [List.cons_append]
    cases hca : c == a with
    | true => simp [List.lookup, hca] at h
    | false =>
      have h' : List.lookup c l = none := by simpa [List.lookup, hca] using h
      simp only [List.lookup, hca]
      exact lookup_snoc_none c k val l h' hne

@[simp] theorem FSt.add_keys (s : FSt) (es : List String) (ms : List Msg) : (s.add es ms).keys = s.keys := rfl

theorem otherKey_lookup_none (s : FSt) (n c : String) (h : List.lookup c s.keys = none) (hne : n ≠ c) :
    List.lookup c (s.otherKey n).keys = none := by
  unfold FSt.otherKey
  split
  · exact h
  · exact lookup_snoc_none c n _ s.keys h hne

theorem gmEntry_keys (cfg : Cfg) (F : NcFile) (v : String) (s s' : FSt) (x : String × List String)
    (h : gmEntry cfg F v s x = .ok s') (c : String) (hc : List.lookup c s.keys = none) (hne : x.1 ≠ c) :
    List.lookup c s'.keys = none := by
  unfold gmEntry at h
  cases hx : getOr Err.keyError (F.var? x.1) with
  | error e => simp [hx, bind, Except.bind] at h
  | ok xv =>
    simp only [hx, bind, Except.bind, pure, Except.pure] at h
    split at h <;> split at h <;> cases h
    · exact otherKey_lookup_none _ _ _ (by simpa using hc) hne
    · simpa using hc
    · exact otherKey_lookup_none _ _ _ (by simpa using hc) hne
    · exact hc

theorem gmEntry_reports (F : NcFile) (v : String) (s s' : FSt) (x : String × List String)
    (h : gmEntry patched F v s x = .ok s') (c : String) (hcx : c ∈ x.2) (hc : List.lookup c s.keys = none) :
    gmCoordUnused v c ∈ s'.out.msgs := by
  unfold gmEntry at h
  cases hx : getOr Err.keyError (F.var? x.1) with
  | error e => simp [hx, bind, Except.bind] at h
  | ok xv =>
    have hg : patched.gmReport = true := rfl
    simp only [hx, bind, Except.bind, pure, Except.pure, hg, ↓reduceIte] at h
    have hin : gmCoordUnused v c ∈
        (s.add [] ((x.2.filter (fun n => (List.lookup n s.keys).isNone)).map (gmCoordUnused v))).out.msgs := by
      simp only [FSt.add_msgs]
      apply List.mem_append_right
      exact List.mem_map.mpr ⟨c, List.mem_filter.mpr ⟨hcx, by simp [hc]⟩, rfl⟩
    split at h <;> cases h
    · have : Ext (s.add [] ((x.2.filter (fun n => (List.lookup n s.keys).isNone)).map (gmCoordUnused v)))
          (((s.add [] ((x.2.filter (fun n => (List.lookup n s.keys).isNone)).map (gmCoordUnused v))).add
            ["ref:gm:" ++ x.1] []).otherKey x.1) := by ext_close
      exact this.mem hin
    · exact hin

/-- A fold of report-extending steps with an invariant: the message recorded by the step for `a0`,
which it records whenever the invariant holds, is in the final report. -/
theorem foldlM_records_inv {α} (f : FSt → α → Except Err FSt) (hext : ∀ s a s', f s a = .ok s' → Ext s s')
    (I : FSt → Prop) (a0 : α) (m : Msg) (hrec : ∀ s s', I s → f s a0 = .ok s' → m ∈ s'.out.msgs) :
    ∀ (l : List α) (s s' : FSt), (∀ s a s', a ∈ l → f s a = .ok s' → I s → I s') → a0 ∈ l →
      l.foldlM f s = .ok s' → I s → m ∈ s'.out.msgs
  | [], _, _, _, hin, _, _ => by cases hin
  | a :: l, s, s', hI, hin, hs, hi => by
    rw [List.foldlM_cons] at hs
    cases h1 : f s a with
    | error e => simp [h1, bind, Except.bind] at hs
    | ok s1 =>
      simp only [h1, bind, Except.bind] at hs
      rcases List.mem_cons.mp hin with e | hl
      · subst e
        exact (foldlM_ext f hext l s1 s' hs).mem (hrec s s1 hi h1)
      · exact foldlM_records_inv f hext I a0 m hrec l s1 s' (fun s a s' ha => hI s a s' (List.mem_cons_of_mem _ ha))
          hl hs (hI s a s1 (by simp) h1 hi)

/-- The verdict of `_check_grid_mapping` on one mapping. -/
def gmOk (F : NcFile) (x : String × List String) : Bool := F.hasVar x.1 && x.2.all F.hasVar

theorem foldl_pairs_nil {α} (f : α → List Msg) (hne : ∀ a, f a ≠ []) :
    ∀ (l : List α) (acc : List Msg), (l.foldl (fun a c => a ++ f c) acc) = [] ↔ (acc = [] ∧ l = [])
  | [], acc => by simp
  | c :: l, acc => by
    simp only [List.foldl_cons]
    rw [foldl_pairs_nil f hne l]
    constructor
    · intro ⟨h, _⟩
      exact absurd (List.append_eq_nil_iff.mp h).2 (hne c)
    · intro ⟨_, h⟩; cases h

theorem checkGridMapping_entry (F : NcFile) (v : String) (x : String × List String) :
    (checkGridMapping F v [x]).1 = gmOk F x := by
  unfold checkGridMapping gmOk
  simp only [List.isEmpty_cons, Bool.false_eq_true, ↓reduceIte, List.foldl_cons, List.foldl_nil, List.nil_append]
  by_cases h1 : F.hasVar x.1 = true
  · simp only [h1, ↓reduceIte, List.nil_append, Bool.true_and]
    by_cases h2 : x.2.all F.hasVar = true
    · have : x.2.filter (fun c => !F.hasVar c) = [] := by
        apply List.filter_eq_nil_iff.mpr
        intro a ha
        have := List.all_eq_true.mp h2 a ha
        simp [this]
      simp [this, h2]
    · have hne : x.2.filter (fun c => !F.hasVar c) ≠ [] := by
        intro hnil
        apply h2
        apply List.all_eq_true.mpr
        intro a ha
        have := List.filter_eq_nil_iff.mp hnil a ha
        simpa using this
      have h2' : x.2.all F.hasVar = false := by simpa using h2
      rw [h2']
      have hiff := foldl_pairs_nil (fun c => [gmCoordMissing v c, gmCoordMissing v c]) (by intro a; simp)
        (x.2.filter (fun c => !F.hasVar c)) []
      have : ¬ (List.foldl (fun a c => a ++ [gmCoordMissing v c, gmCoordMissing v c]) []
          (x.2.filter (fun c => !F.hasVar c)) = []) := fun h => hne (hiff.mp h).2
      simpa using this
  · have h1' : F.hasVar x.1 = false := by simpa using h1
    simp [h1']

/-- `grid_mapping` (patched, entries checked one at a time): a coordinate `c` listed by a compliant
mapping `x` that is not a construct of the field — no key when the stage starts, and no grid mapping
variable of the attribute is called `c` — is recorded under its own name. -/
theorem stageGridMapping_reports_unused (F : NcFile) (v : String) (vv : NcVar) (s s' : FSt)
    (h : stageGridMapping patched F v vv s = .ok s') (gm : String) (ha : vv.attr? "grid_mapping" = some gm)
    (x : String × List String) (hx : x ∈ parseX gm) (hok : gmOk F x = true)
    (c : String) (hcx : c ∈ x.2) (hc : List.lookup c s.keys = none) (hne : ∀ y ∈ parseX gm, y.1 ≠ c) :
    gmCoordUnused v c ∈ s'.out.msgs := by
  unfold stageGridMapping at h
  simp only [ha] at h
  have hnemp : (parseX gm).isEmpty = false := by
    cases hl : parseX gm with
    | nil => rw [hl] at hx; cases hx
    | cons _ _ => rfl
  have hck : checked patched (fun xs => Except.ok (checkGridMapping F v xs)) (parseX gm) =
      .ok ((parseX gm).filter (gmOk F), (parseX gm).flatMap (fun y => (checkGridMapping F v [y]).2)) := by
    unfold checked
    have hpt : patched.perToken = true := rfl
    simp only [hpt, hnemp, Bool.not_false, Bool.and_self, ↓reduceIte]
    exact perEntry_eq_filter _ (gmOk F) (fun y => (checkGridMapping F v [y]).2)
      (fun y => by rw [← checkGridMapping_entry F v y]) _
  rw [hck] at h
  simp only at h
  refine foldlM_records_inv (gmEntry patched F v) (fun s a s1 hs => gmEntry_ext patched F v s s1 a hs) (fun s => List.lookup c s.keys = none)
    x _ (fun s1 s2 hi h12 => gmEntry_reports F v s1 s2 x h12 c hcx hi) _ _ s' ?_
    (List.mem_filter.mpr ⟨hx, hok⟩) h (by simpa using hc)
  intro s1 y s2 hy h12 hi
  exact gmEntry_keys patched F v s1 s2 y h12 c hi (hne y (List.mem_filter.mp hy).1)

theorem flatMap_set_single {α β} (f : α → List β) (bad : α) :
    ∀ (xs : List α), (∀ x ∈ xs, f x = []) → ∀ i, i < xs.length → (xs.set i bad).flatMap f = f bad
  | [], _, _, h => by simp at h
  | x :: xs, hall, 0, _ => by
    have : xs.flatMap f = [] := List.flatMap_eq_nil_iff.mpr (fun y hy => hall y (List.mem_cons_of_mem _ hy))
    simp [this]
  | x :: xs, hall, i + 1, h => by
    have := flatMap_set_single f bad xs (fun y hy => hall y (List.mem_cons_of_mem _ hy)) i (by simpa using h)
    simp [this, hall x (by simp)]

/-! ### Every returned field is what `createField` made of its variable -/

theorem foldlM_preserves_mem {σ α} (f : σ → α → Except Err σ) (I : σ → Prop) :
    ∀ (l : List α) (s s' : σ), (∀ s a s', a ∈ l → f s a = .ok s' → I s → I s') →
      l.foldlM f s = .ok s' → I s → I s'
  | [], s, s', _, hs, hi => by
    simp only [List.foldlM_nil, pure, Except.pure] at hs
    cases hs; exact hi
  | a :: l, s, s', h, hs, hi => by
    rw [List.foldlM_cons] at hs
    cases h1 : f s a with
    | error e => simp [h1, bind, Except.bind] at hs
    | ok s1 =>
      simp only [h1, bind, Except.bind] at hs
      exact foldlM_preserves_mem f I l s1 s' (fun s a s' ha => h s a s' (List.mem_cons_of_mem _ ha)) hs
        (h s a s1 (by simp) h1 hi)

/-- The field `r` was created from the variable of its name, from some state of the caches. -/
def Origin (cfg : Cfg) (F : NcFile) (P : Pre) (r : String × FieldOut) : Prop :=
  ∃ C C' vv, vv ∈ F.vars ∧ vv.name = r.1 ∧ createField cfg F P C vv = .ok (r.2, C')

theorem readBody_origin (cfg : Cfg) (F : NcFile) (r : List (String × FieldOut)) (h : readBody cfg F = .ok r) :
    ∃ P, preScan cfg F = .ok P ∧ ∀ x ∈ r, Origin cfg F P x := by
  unfold readBody at h
  split at h
  · cases h
  · rename_i P hP
    split at h
    · cases h
    · rename_i acc hacc
      cases h
      refine ⟨P, hP, ?_⟩
      have hall : ∀ x ∈ acc.1, Origin cfg F P x := by
        refine foldlM_preserves_mem (fieldStep cfg F P) (fun a => ∀ x ∈ a.1, Origin cfg F P x) F.vars _ acc ?_ hacc
          (by intro x hx; cases hx)
        intro a vv a' hvv hstep hi
        unfold fieldStep at hstep
        split at hstep
        · cases hstep; exact hi
        · split at hstep
          · cases hstep; exact hi
          · split at hstep
            · cases hstep
            · rename_i oc hoc
              cases hstep
              intro x hx
              rcases List.mem_append.mp hx with hx | hx
              · exact hi x hx
              · simp only [List.mem_singleton] at hx
                subst hx
                exact ⟨a.2, oc.2, vv, hvv, rfl, hoc⟩
      intro x hx
      unfold selectFields at hx
      exact hall x (List.mem_filter.mp hx).1

/-- The messages of `_check_bounds` are filed under the coordinate variable (`variable=coord_ncvar`):
that is where `_copy_construct` looks when another data variable re-uses the cached construct. -/
theorem checkBounds_comp (F : NcFile) (P : Pre) (coord attr b : String) (r : Bool × List Msg)
    (h : checkBounds F P coord attr b = .ok r) : ∀ m ∈ r.2, m.comp = coord := by
  unfold checkBounds at h
  split at h
  · cases h
    intro m hm
    simp only [List.mem_singleton] at hm; subst hm; rfl
  · cases hc : ncdims F P coord with
    | error e => simp [hc, bind, Except.bind] at h
    | ok c =>
      cases hb : ncdims F P b with
      | error e => simp [hc, hb, bind, Except.bind] at h
      | ok bd =>
        simp only [hc, hb, bind, Except.bind, pure, Except.pure] at h
        split at h
        · cases h; intro m hm; cases hm
        · cases h
          intro m hm
          simp only [List.mem_singleton] at hm; subst hm; rfl


/-- `g['component_report']` is handed from one field to the next and never loses an entry. -/
theorem createField_component_report (cfg : Cfg) (F : NcFile) (P : Pre) (C : Caches) (vv : NcVar) (fo : FieldOut)
    (C' : Caches) (h : createField cfg F P C vv = .ok (fo, C')) : ∃ rs, C'.report = C.report ++ rs := by
  unfold createField at h
  split at h
  · cases h
  · split at h
    · cases h
    · rename_i D hD
      simp only at h
      split at h
      · cases h
      · rename_i s8 hs8
        cases h
        obtain ⟨rs, hrs⟩ := (runStages_ext cfg F P vv D _ s8 hs8).2
        refine ⟨rs, ?_⟩
        rw [hrs]
        cases cfg.vcrsPerField <;> rfl

end Cfdm.RefCheck
