import Cfdm.Model.SettingsCm
import Cfdm.Model.SettingsTol
import Cfdm.Lemmas.Settings
/-
Helper lemmas for the object-level context-manager model and the tolerance call tree.  Core Lean only.
-/
namespace Cfdm.Settings

/-! ### Objects are never modified: the lists only grow -/

theorem stepEv_objs (c : CmState) (e : Ev) : ∃ ext, (stepEv c e).objs = c.objs ++ ext := by
  cases e with
  | mk op =>
    simp only [stepEv]
    cases access op c.st with
    | error _ => exact ⟨[], by simp⟩
    | ok r => exact ⟨[.const op.key r.1], rfl⟩
  | mkCfg a =>
    simp only [stepEv]
    rcases h : cfgCall a c.st with ⟨x, old, s'⟩
    cases x with
    | some _ => exact ⟨[], by simp⟩
    | none => exact ⟨[.config old], rfl⟩
  | enter i => simp only [stepEv]; split <;> exact ⟨[], by simp⟩
  | exit j =>
    simp only [stepEv]
    cases c.acts[j]? with
    | none => exact ⟨[], by simp⟩
    | some i =>
      simp only
      cases hq : c.objs[i]? with
      | none => exact ⟨[], by simp⟩
      | some o => exact ⟨[], by simp⟩
  | set op =>
    simp only [stepEv]
    cases access op c.st with
    | error _ => exact ⟨[], by simp⟩
    | ok r => exact ⟨[], by simp⟩
  | bare => exact ⟨[], by simp [stepEv]⟩

theorem runEvs_objs (es : List Ev) : ∀ c : CmState, ∃ ext, (runEvs c es).objs = c.objs ++ ext := by
  induction es with
  | nil => intro c; exact ⟨[], by simp [runEvs]⟩
  | cons e es ih =>
    intro c
    obtain ⟨x1, h1⟩ := stepEv_objs c e
    obtain ⟨x2, h2⟩ := ih (stepEv c e)
    refine ⟨x1 ++ x2, ?_⟩
    simp only [runEvs, List.foldl_cons] at h2 ⊢
    rw [h2, h1, List.append_assoc]

/-- An object keeps its number and its contents through every later history. -/
theorem runEvs_obj_kept (c : CmState) (es : List Ev) (i : Nat) (o : Obj) (h : c.objs[i]? = some o) :
    (runEvs c es).objs[i]? = some o := by
  obtain ⟨ext, he⟩ := runEvs_objs es c
  rw [he]
  have hi : i < c.objs.length := by
    rcases Nat.lt_or_ge i c.objs.length with hlt | hge
    · exact hlt
    · rw [List.getElem?_eq_none hge] at h; cases h
  rw [List.getElem?_append_left hi]; exact h

theorem stepEv_exit_of (c : CmState) (j i : Nat) (o : Obj) (ha : c.acts[j]? = some i) (ho : c.objs[i]? = some o) :
    (stepEv c (.exit j)).st = exitObj o c.st := by
  simp [stepEv, ha, ho]

/-! ### The tolerance call tree -/

theorem evalWith_resolveTol (s : State) (t : Cmp) : ∀ r a : Option Nat,
    evalWith resolveTol s r a t = specEval (resolveTol r s.rtol) (resolveTol a s.atol) t := by
  induction t with
  | arrays m => intro r a; rfl
  | same => intro r a; rfl
  | and x y ihx ihy => intro r a; simp only [evalWith, specEval, ihx, ihy]
  | method k ih => intro r a; simp only [evalWith, specEval, ih]
  | helper k ih => intro r a; simp only [evalWith, specEval, ih]; rfl

end Cfdm.Settings
