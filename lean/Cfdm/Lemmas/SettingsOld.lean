import Cfdm.Lemmas.Settings
import Cfdm.Spec.Settings
/-
Helper lemmas for the theorems about the decorator *as coded* (`decoOld`): a simulation between
`decoOld` and `decoNew` on guarded trees.  Core Lean only.
-/
namespace Cfdm.Settings

theorem rel_fields {a b : State} (h : Rel a b) :
    a.atol = b.atol ∧ a.rtol = b.rtol ∧ a.level = b.level ∧ a.disable = b.disable
    ∧ (a.disable = 0 → a.root = b.root) := by
  obtain ⟨h1, h2⟩ := h
  simp only [settings, Prod.mk.injEq] at h1
  simp only [obsLog, Prod.mk.injEq] at h2
  refine ⟨h1.1, h1.2.1, h1.2.2, h2.2.1, fun hd => ?_⟩
  have hd' : b.disable = 0 := h2.2.1 ▸ hd
  simpa [hd, hd'] using h2.2.2

theorem rel_of_fields {a b : State} (h1 : a.atol = b.atol) (h2 : a.rtol = b.rtol) (h3 : a.level = b.level)
    (h4 : a.disable = b.disable) (h5 : a.disable = 0 → a.root = b.root) : Rel a b := by
  refine ⟨by simp [settings, h1, h2, h3], ?_⟩
  simp only [obsLog, Prod.mk.injEq]
  refine ⟨h3, h4, ?_⟩
  by_cases hd : a.disable = 0
  · have hd' : b.disable = 0 := h4 ▸ hd
    simp [hd, hd', h5 hd]
  · have hd' : ¬ b.disable = 0 := h4 ▸ hd
    simp [hd, hd']

theorem showObs_of_rel {a b : State} (h : Rel a b) : showObs a = showObs b := by
  have hf := rel_fields h
  have ho := h.2
  simp only [showObs, hf.1, hf.2.1, hf.2.2.1, hf.2.2.2.1, ho]

theorem ev_of_rel (tag : String) {a b : State} (h : Rel a b) : ev tag a = ev tag b := by
  simp [ev, showObs_of_rel h]

theorem inv_of_post {g ctx so ro} (hi : Inv g ctx so) (hp : Post ctx so ro) : Inv g ctx ro := by
  obtain ⟨hl, hrest⟩ := hi
  obtain ⟨hc, hlv, hp3⟩ := hp
  refine ⟨hlv.trans hl, ?_⟩
  cases ctx with
  | none => exact ⟨hc.trans hrest.1, hp3⟩
  | some lt =>
    refine ⟨hc ▸ hrest.1, ?_⟩
    cases lt with
    | none => trivial
    | some l =>
      simp only [Absorb] at hrest ⊢
      rw [hp3.1, hp3.2]
      exact hrest.2

theorem post_trans {ctx a b c} (h1 : Post ctx a b) (h2 : Post ctx b c) : Post ctx a c := by
  obtain ⟨c1, l1, r1⟩ := h1
  obtain ⟨c2, l2, r2⟩ := h2
  refine ⟨c2.trans c1, l2.trans l1, ?_⟩
  cases ctx with
  | none => exact r2
  | some lt => exact ⟨r2.1.trans r1.1, r2.2.trans r1.2⟩

/-- A step that leaves level, root, disable and the counter alone. -/
theorem post_of_same {g ctx so ro} (hi : Inv g ctx so) (hc : ro.calls = so.calls) (hl : ro.level = so.level)
    (hr : ro.root = so.root) (hd : ro.disable = so.disable) : Post ctx so ro := by
  refine ⟨hc, hl, ?_⟩
  cases ctx with
  | none =>
    have := hi.2.2
    simp only [Consistent] at this ⊢
    rw [hl, hr, hd]; exact this
  | some lt => exact ⟨hr, hd⟩

theorem post_refl {g ctx so} (hi : Inv g ctx so) : Post ctx so so := post_of_same hi rfl rfl rfl rfl

/-! ### `verbose` resolution as the old code performs it -/

theorem resolve_none {v : Verbose} (h : v.resolve = .ok none) : v.toInt = .ok none := by
  unfold Verbose.resolve at h
  cases ht : v.toInt with
  | error e => simp [ht] at h
  | ok oi =>
    cases oi with
    | none => rfl
    | some i =>
      simp only [ht] at h
      cases hv : Level.ofValue? i <;> simp [hv] at h

theorem resolve_some {v : Verbose} {l : Level} (h : v.resolve = .ok (some l)) :
    ∃ i, v.toInt = .ok (some i) ∧ Level.ofValue? i = some l := by
  unfold Verbose.resolve at h
  cases ht : v.toInt with
  | error e => simp [ht] at h
  | ok oi =>
    cases oi with
    | none => simp [ht] at h
    | some i =>
      simp only [ht] at h
      cases hv : Level.ofValue? i with
      | none => simp [hv] at h
      | some l' =>
        simp [hv] at h
        exact ⟨i, rfl, by rw [hv, h]⟩

theorem old_enter_none {v : Verbose} (h : v.resolve = .ok none) (s : State) :
    decoOld.enter v s = (.ok (frameOf none { s with calls := s.calls + 1 }), { s with calls := s.calls + 1 }) := by
  simp [decoOld, resolve_none h]

/-- The extra `_disable_logging("NOTSET")` of the old `enter` never changes anything. -/
theorem old_enter_some {v : Verbose} {l : Level} (h : v.resolve = .ok (some l)) (s : State) :
    decoOld.enter v s = (.ok (frameOf (some l) { s with calls := s.calls + 1 }),
      resetEmergence l { s with calls := s.calls + 1 }) := by
  obtain ⟨i, hi, hv⟩ := resolve_some h
  simp only [decoOld, hi, hv]
  congr 1
  by_cases hl : l = .DISABLE
  · simp [hl]
  · simp only [hl, ne_eq, not_false_eq_true, and_true]
    split
    · simp [resetEmergence, hl]
    · rfl

theorem new_enter_none {v : Verbose} (h : v.resolve = .ok none) (s : State) :
    decoNew.enter v s = (.ok (frameOf none s), s) := by
  simp [decoNew, h]

theorem new_enter_some {v : Verbose} {l : Level} (h : v.resolve = .ok (some l)) (s : State) :
    decoNew.enter v s = (.ok (frameOf (some l) s), resetEmergence l s) := by
  simp [decoNew, h]

theorem old_exit_nested (fr : Frame) (t : State) (h : 2 ≤ t.calls) :
    decoOld.exit fr t = { t with calls := t.calls - 1 } := by
  have : ¬ (t.calls - 1 = 0) := by omega
  simp [decoOld, this]

theorem new_exit_some (l : Level) (sn t : State) (h : t.level = sn.level) :
    decoNew.exit (frameOf (some l) sn) t = { t with root := sn.root, disable := sn.disable } := by
  simp [decoNew, frameOf, h]

theorem new_exit_none (sn t : State) : decoNew.exit (frameOf none sn) t = t := by
  simp [decoNew, frameOf]

theorem resetEmergence_calls (l : Level) (s : State) : (resetEmergence l s).calls = s.calls := by
  unfold resetEmergence; split <;> rfl

/-- The state in which the body of a call with validated verbosity `lv` starts (new decorator). -/
def applyV (lv : Option Level) (s : State) : State :=
  match lv with
  | none => s
  | some l => resetEmergence l s

/-- What the new `finally` does to the state `t` the body left, having found `sn` on entry. -/
def restoreV (lv : Option Level) (sn t : State) : State :=
  match lv with
  | none => t
  | some _ => { t with root := sn.root, disable := sn.disable }

/-- Logging part of the state right after the old `enter`. -/
def EnterLog (lv : Option Level) (so so1 : State) : Prop :=
  match lv with
  | none => so1.root = so.root ∧ so1.disable = so.disable
  | some l => Absorb (some l) so1 ∧ (l = .DISABLE → so1.root = so.root)

/-- `decoOld.enter` on a valid `verbose`, field by field. -/
theorem old_enter_fields {v : Verbose} {lv : Option Level} (h : v.resolve = .ok lv) (so : State) :
    ∃ fro so1, decoOld.enter v so = (.ok fro, so1) ∧ fro.verbose = lv ∧ so1.calls = so.calls + 1
      ∧ so1.atol = so.atol ∧ so1.rtol = so.rtol ∧ so1.level = so.level
      ∧ EnterLog lv so so1 := by
  cases lv with
  | none => exact ⟨_, _, old_enter_none h so, rfl, rfl, rfl, rfl, rfl, rfl, rfl⟩
  | some l =>
    refine ⟨_, _, old_enter_some h so, rfl, ?_, ?_, ?_, ?_, ?_⟩
    · simp [resetEmergence_calls]
    · simp [resetEmergence_atol]
    · simp [resetEmergence_rtol]
    · simp [resetEmergence_level]
    · by_cases hl : l = .DISABLE <;> simp [EnterLog, Absorb, resetEmergence, hl]

/-- `decoOld.exit` of an outermost call (counter back to 0), field by field. -/
theorem old_exit_top_fields (fr : Frame) (t : State) (h1 : t.calls = 1) :
    (decoOld.exit fr t).calls = 0 ∧ (decoOld.exit fr t).atol = t.atol ∧ (decoOld.exit fr t).rtol = t.rtol
    ∧ (decoOld.exit fr t).level = t.level
    ∧ (match fr.verbose with
       | none => (decoOld.exit fr t).root = t.root
                  ∧ (decoOld.exit fr t).disable = (if t.level = .DISABLE then critical else t.disable)
       | some .DISABLE => (decoOld.exit fr t).root = t.root ∧ (decoOld.exit fr t).disable = 0
       | some _ => (t.level = .DISABLE → (decoOld.exit fr t).disable = critical)
                  ∧ (t.level ≠ .DISABLE → (decoOld.exit fr t).disable = 0 ∧ (decoOld.exit fr t).root = t.level.no)) := by
  rcases fr with ⟨vb, fr1, fr2, fr3⟩
  cases vb with
  | none => by_cases hd : t.level = .DISABLE <;> simp [decoOld, h1, hd]
  | some l =>
    cases l <;> by_cases hd : t.level = .DISABLE <;> simp [decoOld, h1, hd, resetEmergence]

/-- `decoNew.enter` / `exit` on a valid `verbose`. -/
theorem new_enter_fields {v : Verbose} {lv : Option Level} (h : v.resolve = .ok lv) (sn : State) :
    ∃ frn, decoNew.enter v sn = (.ok frn, applyV lv sn)
      ∧ ∀ t, t.level = sn.level → decoNew.exit frn t = restoreV lv sn t := by
  cases lv with
  | none => exact ⟨_, new_enter_none h sn, fun t _ => new_exit_none sn t⟩
  | some l => exact ⟨_, new_enter_some h sn, fun t ht => new_exit_some l sn t ht⟩

theorem obsLog_resetEmergence (l : Level) (s : State) :
    obsLog (resetEmergence l s)
      = (s.level, (if l = .DISABLE then critical else 0), (if l = .DISABLE then none else some l.no)) := by
  by_cases hl : l = .DISABLE <;> simp [obsLog, resetEmergence, hl, critical_ne_zero]

theorem obsLog_of_absorb {l : Level} {s : State} (h : Absorb (some l) s) :
    obsLog s = (s.level, (if l = .DISABLE then critical else 0), (if l = .DISABLE then none else some l.no)) := by
  simp only [Absorb] at h
  by_cases hl : l = .DISABLE
  · simp [obsLog, hl, h.1 hl, critical_ne_zero]
  · simp [obsLog, hl, (h.2 hl).1, (h.2 hl).2]

theorem consistent_same {a b : State} (ha : Consistent a) (hb : Consistent b) (hl : a.level = b.level) :
    a.disable = b.disable ∧ (a.disable = 0 → a.root = b.root) := by
  simp only [Consistent] at ha hb
  by_cases hd : a.level = .DISABLE
  · have h1 := ha.1 hd
    have h2 := hb.1 (hl ▸ hd)
    exact ⟨h1.trans h2.symm, fun h0 => absurd (h1 ▸ h0) critical_ne_zero⟩
  · have h1 := ha.2 hd
    have h2 := hb.2 (hl ▸ hd)
    exact ⟨h1.1.trans h2.1.symm, fun _ => h1.2.trans (hl ▸ h2.2.symm)⟩

/-- One decorated call, old against new, around bodies that are themselves in simulation. -/
theorem decSim (g : Level) (ctx : Option (Option Level)) (v : Verbose)
    (bo bn : State → State × Outcome) (so sn : State)
    (hv : vOK ctx g v = true) (hi : Inv g ctx so) (hr : Rel so sn)
    (hb : ∀ to tn, Inv g (some (innerCtx ctx v)) to → Rel to tn →
        (bo to).2 = (bn tn).2 ∧ Rel (bo to).1 (bn tn).1 ∧ Post (some (innerCtx ctx v)) to (bo to).1) :
    ∃ fro so1 frn sn1, decoOld.enter v so = (.ok fro, so1) ∧ decoNew.enter v sn = (.ok frn, sn1)
      ∧ Inv g (some (innerCtx ctx v)) so1 ∧ Rel so1 sn1
      ∧ (decorated decoOld v bo so).2 = (decorated decoNew v bn sn).2
      ∧ Rel (decorated decoOld v bo so).1 (decorated decoNew v bn sn).1
      ∧ Post ctx so (decorated decoOld v bo so).1 := by
  have hf := rel_fields hr
  obtain ⟨hlev, hctx⟩ := hi
  cases hres : v.resolve with
  | error e => simp [vOK, hres] at hv
  | ok lv =>
  obtain ⟨fro, so1, heo, hfv, hc1, ha1, hr1, hl1, hlog1⟩ := old_enter_fields hres so
  obtain ⟨frn, hen, hexn⟩ := new_enter_fields hres sn
  -- the context of the body and the facts about the two states at its start
  have hinner : Inv g (some (innerCtx ctx v)) so1
      ∧ Rel so1 (applyV lv sn)
      ∧ (ctx ≠ none → so1.root = so.root ∧ so1.disable = so.disable) := by
    have hrel : Rel so1 (applyV lv sn) := by
      cases lv with
      | none =>
        simp only [EnterLog, applyV] at hlog1 ⊢
        exact rel_of_fields (ha1.trans hf.1) (hr1.trans hf.2.1) (hl1.trans hf.2.2.1)
          (hlog1.2.trans hf.2.2.2.1) (fun h0 => hlog1.1.trans (hf.2.2.2.2 (hlog1.2 ▸ h0)))
      | some l =>
        simp only [EnterLog, applyV] at hlog1 ⊢
        refine ⟨?_, ?_⟩
        · simp [settings, resetEmergence_atol, resetEmergence_rtol, resetEmergence_level, ha1, hr1, hl1,
            hf.1, hf.2.1, hf.2.2.1]
        · rw [obsLog_of_absorb hlog1.1, obsLog_resetEmergence, hl1, hf.2.2.1]
    cases ctx with
    | none =>
      have hic : innerCtx none v = lv := by simp [innerCtx, hres]
      rw [hic]
      refine ⟨⟨hl1.trans hlev, by omega, ?_⟩, hrel, fun h => absurd rfl h⟩
      cases lv with
      | none => trivial
      | some l => exact hlog1.1
    | some lt =>
      have hic : innerCtx (some lt) v = lt := rfl
      rw [hic]
      simp only [vOK, hres, decide_eq_true_eq] at hv
      have hab : Absorb lt so1 ∧ so1.root = so.root ∧ so1.disable = so.disable := by
        cases lv with
        | none =>
          simp only [EnterLog] at hlog1
          refine ⟨?_, hlog1.1, hlog1.2⟩
          cases lt with
          | none => trivial
          | some l =>
            simp only [Absorb] at hctx ⊢
            rw [hlog1.1, hlog1.2]; exact hctx.2
        | some l =>
          have hlt : lt = some l := by
            rcases hv with h | h
            · cases h
            · exact h.symm
          subst hlt
          simp only [EnterLog] at hlog1
          refine ⟨hlog1.1, ?_⟩
          have h1 := hlog1.1
          have h2 := hctx.2
          simp only [Absorb] at h1 h2
          by_cases hd : l = .DISABLE
          · exact ⟨hlog1.2 hd, (h1.1 hd).trans (h2.1 hd).symm⟩
          · exact ⟨(h1.2 hd).2.trans (h2.2 hd).2.symm, (h1.2 hd).1.trans (h2.2 hd).1.symm⟩
      exact ⟨⟨hl1.trans hlev, by omega, hab.1⟩, hrel, fun _ => hab.2⟩
  obtain ⟨hinv1, hrel1, hsame1⟩ := hinner
  refine ⟨fro, so1, frn, _, heo, hen, hinv1, hrel1, ?_⟩
  -- run the bodies
  obtain ⟨hout, hrelb, hpc, hpl, hpr, hpd⟩ := hb so1 _ hinv1 hrel1
  rcases hbo : bo so1 with ⟨tb, ob⟩
  rcases hbn : bn (applyV lv sn) with ⟨tn, on⟩
  rw [hbo] at hout hrelb hpc hpl hpr hpd
  rw [hbn] at hout hrelb
  simp only at hout hrelb hpc hpl hpr hpd
  have hbf := rel_fields hrelb
  have htnl : tn.level = sn.level := by rw [← hbf.2.2.1, hpl, hl1, hf.2.2.1]
  have hexn' := hexn tn htnl
  simp only [decorated, heo, hen, hbo, hbn, hexn']
  refine ⟨hout, ?_⟩
  cases ctx with
  | some lt =>
    -- a nested call: the old `finally` only decrements the counter
    have h2 : 2 ≤ tb.calls := by have := hctx.1; omega
    rw [old_exit_nested fro tb h2]
    obtain ⟨hsr, hsd⟩ := hsame1 (by simp)
    refine ⟨?_, ⟨by simp; omega, hpl.trans hl1, hpr.trans hsr, hpd.trans hsd⟩⟩
    cases lv with
    | none =>
      simp only [restoreV]
      exact rel_of_fields hbf.1 hbf.2.1 hbf.2.2.1 hbf.2.2.2.1 hbf.2.2.2.2
    | some l =>
      simp only [restoreV]
      refine rel_of_fields hbf.1 hbf.2.1 hbf.2.2.1 ?_ ?_
      · simp only; rw [hpd, hsd]; exact hf.2.2.2.1
      · simp only; intro h0
        rw [hpr, hsr]
        exact hf.2.2.2.2 (by rw [← hsd, ← hpd]; exact h0)
  | none =>
    obtain ⟨hc0, hcons⟩ := hctx
    have h1 : tb.calls = 1 := by omega
    obtain ⟨ec, ea, er, el, elog⟩ := old_exit_top_fields fro tb h1
    rw [hfv] at elog
    simp only [vOK, hres, decide_eq_true_eq] at hv
    have hcons' := hcons
    simp only [Consistent] at hcons
    have htl : tb.level = so.level := hpl.trans hl1
    generalize decoOld.exit fro tb = E at *
    cases lv with
    | none =>
      simp only [EnterLog] at hlog1
      simp only at elog
      have hER : E.root = so.root := elog.1.trans (hpr.trans hlog1.1)
      have hED : E.disable = so.disable := by
        rw [elog.2, htl, hpd, hlog1.2]
        by_cases hd : so.level = .DISABLE
        · simp [hd, hcons.1 hd]
        · simp [hd]
      refine ⟨?_, ⟨ec.trans hc0.symm, el.trans htl, ?_⟩⟩
      · simp only [restoreV]
        refine rel_of_fields (ea.trans hbf.1) (er.trans hbf.2.1) (el.trans hbf.2.2.1) ?_ ?_
        · rw [hED, ← hlog1.2, ← hpd]; exact hbf.2.2.2.1
        · intro h0
          rw [hER, ← hlog1.1, ← hpr]
          apply hbf.2.2.2.2
          rw [hpd, hlog1.2, ← hED]; exact h0
      · simp only [Consistent]; rw [el, htl, hER, hED]; exact hcons
    | some l =>
      have hEc : Consistent E := by
        simp only [Consistent]
        cases l with
        | DISABLE =>
          simp only [EnterLog] at hlog1
          simp only at elog
          have hg : so.level ≠ .DISABLE := fun h => hv ⟨hlev ▸ h, rfl⟩
          rw [el, htl]
          refine ⟨fun h => absurd h hg, fun _ => ⟨elog.2, ?_⟩⟩
          rw [elog.1, hpr, hlog1.2 trivial]; exact (hcons.2 hg).2
        | WARNING => simp only at elog; rw [el]; exact elog
        | INFO => simp only at elog; rw [el]; exact elog
        | DETAIL => simp only at elog; rw [el]; exact elog
        | DEBUG => simp only at elog; rw [el]; exact elog
      have hsm := consistent_same hEc hcons' (el.trans htl)
      refine ⟨?_, ⟨ec.trans hc0.symm, el.trans htl, hEc⟩⟩
      simp only [restoreV]
      refine rel_of_fields (ea.trans hbf.1) (er.trans hbf.2.1) (el.trans hbf.2.2.1) ?_ ?_
      · simp only; exact hsm.1.trans hf.2.2.2.1
      · simp only; intro h0
        exact (hsm.2 h0).trans (hf.2.2.2.2 (hsm.1 ▸ h0))

/-! ### The simulation over programs -/

theorem rel_atol {a b : State} (h : Rel a b) (i : Nat) : Rel { a with atol := i } { b with atol := i } := by
  have hf := rel_fields h
  exact rel_of_fields rfl hf.2.1 hf.2.2.1 hf.2.2.2.1 hf.2.2.2.2

theorem rel_rtol {a b : State} (h : Rel a b) (i : Nat) : Rel { a with rtol := i } { b with rtol := i } := by
  have hf := rel_fields h
  exact rel_of_fields hf.1 rfl hf.2.2.1 hf.2.2.2.1 hf.2.2.2.2

theorem post_atol {ctx so r} (h : Post ctx so r) (i : Nat) : Post ctx so { r with atol := i } := by
  obtain ⟨h1, h2, h3⟩ := h
  refine ⟨h1, h2, ?_⟩
  cases ctx with
  | none => exact h3
  | some lt => exact h3

theorem post_rtol {ctx so r} (h : Post ctx so r) (i : Nat) : Post ctx so { r with rtol := i } := by
  obtain ⟨h1, h2, h3⟩ := h
  refine ⟨h1, h2, ?_⟩
  cases ctx with
  | none => exact h3
  | some lt => exact h3

theorem inv_atol {g ctx s} (h : Inv g ctx s) (i : Nat) : Inv g ctx { s with atol := i } :=
  inv_of_post h (post_atol (post_refl h) i)

theorem inv_rtol {g ctx s} (h : Inv g ctx s) (i : Nat) : Inv g ctx { s with rtol := i } :=
  inv_of_post h (post_rtol (post_refl h) i)

/-- Effect of `configuration(atol=…, rtol=…)` (no log level) on the two tolerances. -/
def cfgTol (c : CfgArgs) (a r : Nat) : Option Exc × Nat × Nat :=
  match c.a, c.r with
  | some .bad, _ => (some .ValueError, a, r)
  | none, some .bad => (some .ValueError, a, r)
  | some (.val _), some .bad => (some .ValueError, a, r)
  | none, none => (none, a, r)
  | none, some (.val j) => (none, a, j)
  | some (.val i), none => (none, i, r)
  | some (.val i), some (.val j) => (none, i, j)

theorem cfgCall_nolog_eq (c : CfgArgs) (s : State) (hl : c.l = none) :
    cfgCall c s = ((cfgTol c s.atol s.rtol).1, snapshot s,
      { s with atol := (cfgTol c s.atol s.rtol).2.1, rtol := (cfgTol c s.atol s.rtol).2.2 }) := by
  rcases c with ⟨a, r, l⟩
  simp only at hl
  subst hl
  rcases s with ⟨sa, sr, sl, sro, sd, sc⟩
  rcases a with _ | a | _ <;> rcases r with _ | r | _ <;>
    simp [cfgCall, cfgTol, CfgArgs.ops, cfgLoop, access, rollback, SetOp.key, getVal, exitConst_atol, exitConst_rtol]

theorem vOK_none (ctx : Option (Option Level)) (g : Level) : vOK ctx g .none = true := by
  cases ctx <;> simp [vOK, Verbose.resolve, Verbose.toInt]

theorem eqResult_of_rel {a b : State} (h : Rel a b) (r at_ : Option Nat) (m : Nat) :
    eqResult r at_ m a = eqResult r at_ m b := by
  have hf := rel_fields h
  simp [eqResult, hf.1, hf.2.1]

theorem oldNewSim (g : Level) (p : Prog) : ∀ (ctx : Option (Option Level)) (so sn : State),
    guarded g ctx p = true → Inv g ctx so → Rel so sn →
    (runWith decoOld p so).2 = (runWith decoNew p sn).2
    ∧ Rel (runWith decoOld p so).1 (runWith decoNew p sn).1
    ∧ Post ctx so (runWith decoOld p so).1
    ∧ traceWith decoOld p so = traceWith decoNew p sn := by
  induction p with
  | skip => intro ctx so sn _ hi hr; exact ⟨by first | rfl | trivial, hr, post_refl hi, rfl⟩
  | seq p q ihp ihq =>
    intro ctx so sn hg hi hr
    simp only [guarded, Bool.and_eq_true] at hg
    obtain ⟨h1, h2, h3, h4⟩ := ihp ctx so sn hg.1 hi hr
    cases ho : (runWith decoOld p so).2 with
    | ok =>
      have hn : (runWith decoNew p sn).2 = .ok := by rw [← h1, ho]
      obtain ⟨k1, k2, k3, k4⟩ := ihq ctx _ _ hg.2 (inv_of_post hi h3) h2
      simp only [runWith, traceWith, ho, hn]
      exact ⟨k1, k2, post_trans h3 k3, by rw [h4, k4]⟩
    | raised e =>
      have hn : (runWith decoNew p sn).2 = .raised e := by rw [← h1, ho]
      simp only [runWith, traceWith, ho, hn]
      exact ⟨by first | rfl | trivial, h2, h3, by rw [h4]⟩
  | set op =>
    intro ctx so sn hg hi hr
    have hf := rel_fields hr
    cases op with
    | atol a =>
      rcases a with _ | a | _ <;> simp only [runWith, traceWith, access]
      · exact ⟨by first | rfl | trivial, hr, post_refl hi, by rw [hf.1, ev_of_rel _ hr]⟩
      · exact ⟨by first | rfl | trivial, rel_atol hr a, post_atol (post_refl hi) a, by rw [hf.1, ev_of_rel _ (rel_atol hr a)]⟩
      · exact ⟨by first | rfl | trivial, hr, post_refl hi, by rw [ev_of_rel _ hr]⟩
    | rtol a =>
      rcases a with _ | a | _ <;> simp only [runWith, traceWith, access]
      · exact ⟨by first | rfl | trivial, hr, post_refl hi, by rw [hf.2.1, ev_of_rel _ hr]⟩
      · exact ⟨by first | rfl | trivial, rel_rtol hr a, post_rtol (post_refl hi) a, by rw [hf.2.1, ev_of_rel _ (rel_rtol hr a)]⟩
      · exact ⟨by first | rfl | trivial, hr, post_refl hi, by rw [ev_of_rel _ hr]⟩
    | log a =>
      cases a with
      | none =>
        simp only [runWith, traceWith, access]
        exact ⟨by first | rfl | trivial, hr, post_refl hi, by rw [hf.2.2.1, ev_of_rel _ hr]⟩
      | some a => simp [guarded, SetOp.touchesLog] at hg
  | cfg c =>
    intro ctx so sn hg hi hr
    have hf := rel_fields hr
    simp only [guarded, decide_eq_true_eq] at hg
    simp only [runWith, traceWith, cfgCall_nolog_eq c _ hg]
    rw [← hf.1, ← hf.2.1]
    have hrel : Rel { so with atol := (cfgTol c so.atol so.rtol).2.1, rtol := (cfgTol c so.atol so.rtol).2.2 }
        { sn with atol := (cfgTol c so.atol so.rtol).2.1, rtol := (cfgTol c so.atol so.rtol).2.2 } :=
      rel_of_fields rfl rfl hf.2.2.1 hf.2.2.2.1 hf.2.2.2.2
    have hpost : Post ctx so { so with atol := (cfgTol c so.atol so.rtol).2.1, rtol := (cfgTol c so.atol so.rtol).2.2 } :=
      post_of_same hi rfl rfl rfl rfl
    cases he : (cfgTol c so.atol so.rtol).1 with
    | none =>
      simp only
      refine ⟨by first | rfl | trivial, hrel, hpost, ?_⟩
      rw [ev_of_rel _ hrel]
      simp only [snapshot, hf.1, hf.2.1, hf.2.2.1]
    | some e =>
      simp only
      exact ⟨by first | rfl | trivial, hrel, hpost, by rw [ev_of_rel _ hrel]⟩
  | withSet op body ih =>
    intro ctx so sn hg hi hr
    have hf := rel_fields hr
    simp only [guarded, Bool.and_eq_true, decide_eq_true_eq] at hg
    cases op with
    | atol a =>
      rcases a with _ | a | _ <;> simp only [runWith, traceWith, access, SetOp.key, exitConst_atol]
      · obtain ⟨k1, k2, k3, k4⟩ := ih ctx so sn hg.2 hi hr
        refine ⟨k1, ?_, post_atol k3 _, ?_⟩
        · rw [hf.1]; exact rel_atol k2 _
        · rw [k4, k1, hf.1, ev_of_rel _ hr, ev_of_rel _ (rel_atol k2 sn.atol)]
      · obtain ⟨k1, k2, k3, k4⟩ := ih ctx _ _ hg.2 (inv_atol hi a) (rel_atol hr a)
        have k3' : Post ctx so (runWith decoOld body { so with atol := a }).1 :=
          post_trans (post_atol (post_refl hi) a) k3
        refine ⟨k1, ?_, post_atol k3' _, ?_⟩
        · rw [hf.1]; exact rel_atol k2 _
        · rw [k4, k1, hf.1, ev_of_rel _ (rel_atol hr a), ev_of_rel _ (rel_atol k2 sn.atol)]
      · exact ⟨by first | rfl | trivial, hr, post_refl hi, by rw [ev_of_rel _ hr]⟩
    | rtol a =>
      rcases a with _ | a | _ <;> simp only [runWith, traceWith, access, SetOp.key, exitConst_rtol]
      · obtain ⟨k1, k2, k3, k4⟩ := ih ctx so sn hg.2 hi hr
        refine ⟨k1, ?_, post_rtol k3 _, ?_⟩
        · rw [hf.2.1]; exact rel_rtol k2 _
        · rw [k4, k1, hf.2.1, ev_of_rel _ hr, ev_of_rel _ (rel_rtol k2 sn.rtol)]
      · obtain ⟨k1, k2, k3, k4⟩ := ih ctx _ _ hg.2 (inv_rtol hi a) (rel_rtol hr a)
        have k3' : Post ctx so (runWith decoOld body { so with rtol := a }).1 :=
          post_trans (post_rtol (post_refl hi) a) k3
        refine ⟨k1, ?_, post_rtol k3' _, ?_⟩
        · rw [hf.2.1]; exact rel_rtol k2 _
        · rw [k4, k1, hf.2.1, ev_of_rel _ (rel_rtol hr a), ev_of_rel _ (rel_rtol k2 sn.rtol)]
      · exact ⟨by first | rfl | trivial, hr, post_refl hi, by rw [ev_of_rel _ hr]⟩
    | log a => simp [SetOp.key] at hg
  | withCfg c body ih =>
    intro ctx so sn hg; simp [guarded] at hg
  | call v body ih =>
    intro ctx so sn hg hi hr
    simp only [guarded, Bool.and_eq_true] at hg
    have hb : ∀ to tn, Inv g (some (innerCtx ctx v)) to → Rel to tn →
        (runWith decoOld body to).2 = (runWith decoNew body tn).2
        ∧ Rel (runWith decoOld body to).1 (runWith decoNew body tn).1
        ∧ Post (some (innerCtx ctx v)) to (runWith decoOld body to).1 := by
      intro to tn h1 h2
      obtain ⟨k1, k2, k3, _⟩ := ih _ to tn hg.2 h1 h2
      exact ⟨k1, k2, k3⟩
    obtain ⟨fro, so1, frn, sn1, heo, hen, hinv1, hrel1, hout, hrel, hpost⟩ :=
      decSim g ctx v _ _ so sn hg.1 hi hr hb
    obtain ⟨k1, _, _, k4⟩ := ih _ so1 sn1 hg.2 hinv1 hrel1
    simp only [runWith]
    refine ⟨hout, hrel, hpost, ?_⟩
    simp only [decorated, heo, hen] at hrel
    simp only [traceWith, heo, hen]
    rw [ev_of_rel _ hrel1, k4, k1, ev_of_rel _ hrel]
  | real v raises inner =>
    intro ctx so sn hg hi hr
    simp only [guarded, Bool.and_eq_true] at hg
    have hb : ∀ to tn, Inv g (some (innerCtx ctx v)) to → Rel to tn →
        ((decorated decoOld inner (fun s2 => (s2, Outcome.ok)) to).1,
            if raises then Outcome.raised Exc.TypeError else Outcome.ok).2
          = ((decorated decoNew inner (fun s2 => (s2, Outcome.ok)) tn).1,
            if raises then Outcome.raised Exc.TypeError else Outcome.ok).2
        ∧ Rel ((decorated decoOld inner (fun s2 => (s2, Outcome.ok)) to).1,
            if raises then Outcome.raised Exc.TypeError else Outcome.ok).1
            ((decorated decoNew inner (fun s2 => (s2, Outcome.ok)) tn).1,
            if raises then Outcome.raised Exc.TypeError else Outcome.ok).1
        ∧ Post (some (innerCtx ctx v)) to ((decorated decoOld inner (fun s2 => (s2, Outcome.ok)) to).1,
            if raises then Outcome.raised Exc.TypeError else Outcome.ok).1 := by
      intro to tn h1 h2
      obtain ⟨_, _, _, _, _, _, _, _, _, hrel', hpost'⟩ :=
        decSim g (some (innerCtx ctx v)) inner (fun s2 => (s2, Outcome.ok)) (fun s2 => (s2, Outcome.ok)) to tn
          hg.2 h1 h2 (fun a b ha hab => ⟨by first | rfl | trivial, hab, post_refl ha⟩)
      exact ⟨by first | rfl | trivial, hrel', hpost'⟩
    obtain ⟨_, _, _, _, _, _, _, _, hout, hrel, hpost⟩ := decSim g ctx v _ _ so sn hg.1 hi hr hb
    simp only [runWith, traceWith]
    exact ⟨hout, hrel, hpost, by rw [hout, ev_of_rel _ hrel]⟩
  | try_ body ih =>
    intro ctx so sn hg hi hr
    obtain ⟨k1, k2, k3, k4⟩ := ih ctx so sn hg hi hr
    simp only [runWith, traceWith]
    exact ⟨by first | rfl | trivial, k2, k3, by rw [k4, k1, ev_of_rel _ k2]⟩
  | raise e => intro ctx so sn _ hi hr; exact ⟨by first | rfl | trivial, hr, post_refl hi, rfl⟩
  | verdict r a m =>
    intro ctx so sn _ hi hr
    simp only [runWith, traceWith]
    exact ⟨by first | rfl | trivial, hr, post_refl hi, by rw [eqResult_of_rel hr, ev_of_rel _ hr]⟩
  | eq r a m =>
    intro ctx so sn _ hi hr
    obtain ⟨_, _, _, _, _, _, _, _, hout, hrel, hpost⟩ :=
      decSim g ctx .none (fun s1 => (s1, Outcome.ok)) (fun s1 => (s1, Outcome.ok)) so sn (vOK_none ctx g) hi hr
        (fun a b ha hab => ⟨by first | rfl | trivial, hab, post_refl ha⟩)
    simp only [runWith, traceWith]
    exact ⟨hout, hrel, hpost, by rw [eqResult_of_rel hr, ev_of_rel _ hrel]⟩

/-- The outermost call under the old decorator, on its own: if the body leaves counter, level,
root level and disable level as it found them, the call restores a consistent logging state. -/
theorem old_top_call_post {v : Verbose} {lv : Option Level} (body : State → State × Outcome) (s : State)
    (hres : v.resolve = .ok lv) (hz : ¬ (s.level = .DISABLE ∧ lv = some .DISABLE))
    (hc : s.calls = 0) (hcons : Consistent s)
    (hb : ∀ t, Inv s.level (some lv) t → Post (some lv) t (body t).1) :
    Post none s (decorated decoOld v body s).1 ∧
    ∃ t, Inv s.level (some lv) t ∧ (decorated decoOld v body s).2 = (body t).2
      ∧ settings (decorated decoOld v body s).1 = settings (body t).1 := by
  obtain ⟨fro, so1, heo, hfv, hc1, ha1, hr1, hl1, hlog1⟩ := old_enter_fields hres s
  have hinv1 : Inv s.level (some lv) so1 := by
    refine ⟨hl1, by omega, ?_⟩
    cases lv with
    | none => trivial
    | some l => exact hlog1.1
  obtain ⟨hpc, hpl, hpr, hpd⟩ := hb so1 hinv1
  rcases hbo : body so1 with ⟨tb, ob⟩
  rw [hbo] at hpc hpl hpr hpd
  simp only at hpc hpl hpr hpd
  have h1 : tb.calls = 1 := by omega
  obtain ⟨ec, ea, er, el, elog⟩ := old_exit_top_fields fro tb h1
  rw [hfv] at elog
  have htl : tb.level = s.level := hpl.trans hl1
  simp only [decorated, heo, hbo]
  refine ⟨?_, so1, hinv1, by rw [hbo], by rw [hbo]; simp [settings, ea, er, el]⟩
  have hcons' := hcons
  simp only [Consistent] at hcons
  generalize decoOld.exit fro tb = E at *
  refine ⟨ec.trans hc.symm, el.trans htl, ?_⟩
  simp only [Consistent]
  cases lv with
  | none =>
    simp only [EnterLog] at hlog1
    simp only at elog
    have hER : E.root = s.root := elog.1.trans (hpr.trans hlog1.1)
    have hED : E.disable = s.disable := by
      rw [elog.2, htl, hpd, hlog1.2]
      by_cases hd : s.level = .DISABLE
      · simp [hd, hcons.1 hd]
      · simp [hd]
    rw [el, htl, hER, hED]; exact hcons
  | some l =>
    cases l with
    | DISABLE =>
      simp only [EnterLog] at hlog1
      simp only at elog
      have hg : s.level ≠ .DISABLE := fun h => hz ⟨h, rfl⟩
      rw [el, htl]
      refine ⟨fun h => absurd h hg, fun _ => ⟨elog.2, ?_⟩⟩
      rw [elog.1, hpr, hlog1.2 trivial]; exact (hcons.2 hg).2
    | WARNING => simp only at elog; rw [el]; exact elog
    | INFO => simp only at elog; rw [el]; exact elog
    | DETAIL => simp only at elog; rw [el]; exact elog
    | DEBUG => simp only at elog; rw [el]; exact elog

theorem rel_refl (s : State) : Rel s s := ⟨rfl, rfl⟩

end Cfdm.Settings
