import Cfdm.Lemmas.FilesPath
/-
C10 — lemmas on the path model: the stages of `writeP` (open, emit, nested write of the external
file), what passing the guards means, and the frame of a whole request.  Core Lean only.
-/
namespace Cfdm.FilesPath

/-! ## emission changes contents only -/

theorem emit_ent (env : Env) (os0 : OS) (fault : Fault) (skip : Bool) (i : Ino) (tok : Nat → Nat) :
    ∀ (fs : List FieldA) (os : OS) (k : Nat), (emit env os0 fault skip i tok os k fs).1.ent = os.ent
  | [], _, _ => rfl
  | f :: rest, os, k => by
    simp only [emit]
    split
    · rfl
    · rw [emit_ent env os0 fault skip i tok rest]; rfl

theorem emit_next (env : Env) (os0 : OS) (fault : Fault) (skip : Bool) (i : Ino) (tok : Nat → Nat) :
    ∀ (fs : List FieldA) (os : OS) (k : Nat), (emit env os0 fault skip i tok os k fs).1.next = os.next
  | [], _, _ => rfl
  | f :: rest, os, k => by
    simp only [emit]
    split
    · rfl
    · rw [emit_next env os0 fault skip i tok rest]; rfl

theorem walk_congr (os os' : OS) (h : os'.ent = os.ent) : ∀ (j : Nat) (e : Ent), os'.walk j e = os.walk j e
  | 0, _ => rfl
  | j + 1, e => by
    show os'.walk j (os'.step e) = os.walk j (os.step e)
    have : os'.step e = os.step e := by simp only [OS.step, h]
    rw [this]; exact walk_congr os os' h j _

theorem final_congr (env : Env) (os os' : OS) (h : os'.ent = os.ent) (s : Raw) : final env os' s = final env os s :=
  walk_congr os os' h env.fuel _

theorem inoOf_congr (env : Env) (os os' : OS) (h : os'.ent = os.ent) (s : Raw) : inoOf env os' s = inoOf env os s := by
  simp only [inoOf, final_congr env os os' h, OS.inoAt, h]

theorem isfile_congr (env : Env) (os os' : OS) (h : os'.ent = os.ent) (s : Raw) : isfile env os' s = isfile env os s := by
  simp only [isfile, inoOf_congr env os os' h]

/-! ## opening a file in mode w -/

/-- `file_open(s, 'w')` once the guards have passed: `os.remove` when the file exists (and may be
overwritten), then `Dataset(s, 'w')`.  A regular file with a new inode appears — under the
entry `s` names when there was a file, under the entry the name resolves to otherwise. -/
theorem open_w_effect (env : Env) (os os2 : OS) (s : Raw) (overwrite : Bool) (i : Ino)
    (hno : (isfile env os s && !overwrite) = false)
    (h : osCreate env (if (isfile env os s && overwrite) = true then osRemove env os s else os) s = some (os2, i)) :
    ∃ m, ((isfile env os s = true ∧ m = env.entOf s) ∨ (isfile env os s = false ∧ m = final env os s)) ∧
      i = os.next ∧ os2.next = os.next + 1 ∧ os2.ent = setFn os.ent m (some (.file os.next)) ∧
      os2.store = setFn os.store os.next [] := by
  cases hf : isfile env os s with
  | true =>
    have hov : overwrite = true := by
      cases overwrite with
      | true => rfl
      | false => simp [hf] at hno
    subst hov
    simp only [hf, Bool.and_self, if_true] at h
    obtain ⟨h1, h2, h3, h4, _⟩ := create_fresh env _ os2 s i (inoOf_after_remove env os s) h
    refine ⟨env.entOf s, Or.inl ⟨rfl, rfl⟩, h1, h4, ?_, h3⟩
    rw [h2, final_after_remove]
    funext x
    simp only [osRemove, setFn]
    split <;> rfl
  | false =>
    simp only [hf, Bool.false_and, Bool.false_eq_true, if_false] at h
    have hn : inoOf env os s = none := (isfile_false_iff env os s).1 hf
    obtain ⟨h1, h2, h3, h4, _⟩ := create_fresh env os os2 s i hn h
    exact ⟨final env os s, Or.inr ⟨rfl, rfl⟩, h1, h4, h2, h3⟩

theorem frame_of_open (os os2 : OS) (m : Ent) (hent : os2.ent = setFn os.ent m (some (.file os.next)))
    (hst : os2.store = setFn os.store os.next []) (hn : os2.next = os.next + 1) : Frame os os2 [m] [] where
  ent := by
    intro e he
    simp only [List.mem_singleton] at he
    rw [hent]; exact setFn_ne _ _ _ _ he
  store := by
    intro j hj _
    rw [hst]; exact setFn_ne _ _ _ _ (Nat.ne_of_lt hj)
  next := by rw [hn]; exact Nat.le_succ _

/-! ## the nested write of the external file -/

/-- what the nested write can change, in terms of the state it starts from -/
theorem nested_frame (v : Ver) (env : Env) (os0 os : OS) (xs : List FieldA) (e1 : Raw) (overwrite skip : Bool) :
    (writeNested v env os0 os xs e1 overwrite skip).os = os ∨
    ∃ m, ((isfile env os (env.expand e1) = true ∧ m = env.entOf (env.expand e1)) ∨
          (isfile env os (env.expand e1) = false ∧ m = final env os (env.expand e1))) ∧
      Frame os (writeNested v env os0 os xs e1 overwrite skip).os [m] [os.next] := by
  unfold writeNested
  simp only
  split
  · exact Or.inl rfl
  · rename_i hno
    split
    · exact Or.inl rfl
    · split
      · -- Dataset(…, 'w') failed: at most the removal happened
        rename_i hc
        by_cases how : (isfile env os (env.expand e1) && overwrite) = true
        · right
          simp only [Bool.and_eq_true] at how
          refine ⟨env.entOf (env.expand e1), Or.inl ⟨how.1, rfl⟩, ?_⟩
          simp only [how.1, how.2, Bool.and_self, if_true]
          exact (frame_remove env os (env.expand e1)).mono (fun _ h => h) (fun _ h => by simp at h)
        · left
          simp only [how]
          simp
      · rename_i os2 i hc
        right
        have hno' : (isfile env os (env.expand e1) && !overwrite) = false := by
          simpa using hno
        obtain ⟨m, hm, hi, hn, hent, hst⟩ := open_w_effect env os os2 (env.expand e1) overwrite i hno' hc
        refine ⟨m, hm, ?_⟩
        have h1 := frame_of_open os os2 m hent hst hn
        have h2 := frame_emit env os0 .none skip i (fun k => 1000 + k) xs os2 0
        subst hi
        exact (h1.trans h2).mono (fun _ h => by simpa using h) (fun _ h => by simpa using h)

/-! ## the frame of a whole request -/

/-- a changed entry is the entry a justified name denotes, or the one it resolved to when the
write began -/
def EntOK (env : Env) (os : OS) (P : Raw → Prop) (m : Ent) : Prop :=
  ∃ s, P s ∧ (m = env.entOf s ∨ m = final env os s)

/-- a changed inode is new, or the one a justified name resolved to when the write began -/
def InoOK (env : Env) (os : OS) (P : Raw → Prop) (i : Ino) : Prop :=
  os.next ≤ i ∨ ∃ s, P s ∧ inoOf env os s = some i

/-- a name that resolves to no regular file after an entry became a regular file resolved to the
same entry before -/
theorem final_after_open (env : Env) (os os' : OS) (m : Ent) (j : Ino)
    (hent : os'.ent = setFn os.ent m (some (.file j))) (s : Raw) (hnf : isfile env os' s = false) :
    final env os' s = final env os s := by
  have hM : ∀ e, e ≠ m → os'.ent e = os.ent e := by
    intro e he; rw [hent]; exact setFn_ne _ _ _ _ he
  have hm : os'.step m = m := by simp [OS.step, hent, setFn]
  rcases walk_one_changed os os' m hM hm env.fuel (env.entOf s) with h | h
  · exact h
  · exfalso
    have : inoOf env os' s = some j := by
      simp only [inoOf, final, h, OS.inoAt, hent, setFn]
      simp
    simp [isfile, this] at hnf

theorem writeExternal_frame_gen (v : Ver) (env : Env) (os osm : OS) (rq : Req) (lg : List Ev) (P : Raw → Prop)
    (H : ∀ s, isfile env osm s = false → final env osm s = final env os s)
    (hP : ∀ e, rq.external = some e → P (env.expand (env.expand e))) :
    (writeExternal v env os osm rq lg).os = osm ∨
      ∃ m2, EntOK env os P m2 ∧ Frame osm (writeExternal v env os osm rq lg).os [m2] [osm.next] := by
  unfold writeExternal
  cases he : rq.external with
  | none => exact Or.inl rfl
  | some e =>
    simp only
    split
    · exact Or.inl rfl
    · rcases nested_frame v env os osm (extFields rq.fields) (env.expand e) rq.overwrite rq.omitData with h | ⟨m, hm, hF⟩
      · exact Or.inl h
      · right
        refine ⟨m, ⟨env.expand (env.expand e), hP e he, ?_⟩, hF⟩
        rcases hm with ⟨_, hm⟩ | ⟨hnf, hm⟩
        · exact Or.inl hm
        · right; rw [hm]; exact H _ hnf

theorem writeW_frame_gen (v : Ver) (env : Env) (os : OS) (rq : Req) (P : Raw → Prop)
    (hfn : (!rq.fields.isEmpty && hits v env os rq.fields (env.expand rq.target)) = false → P (env.expand rq.target))
    (hext : ∀ e, rq.external = some e → extGuard v env os rq.fields rq.external = false → P (env.expand (env.expand e))) :
    ∃ M I, Frame os (writeW v env os rq).os M I ∧ (∀ m ∈ M, EntOK env os P m) ∧ (∀ i ∈ I, InoOK env os P i) := by
  have triv : ∃ M I, Frame os os M I ∧ (∀ m ∈ M, EntOK env os P m) ∧ (∀ i ∈ I, InoOK env os P i) :=
    ⟨[], [], Frame.refl os, fun _ h => by simp at h, fun _ h => by simp at h⟩
  unfold writeW
  simp only
  split
  · exact triv
  · rename_i hno
    split
    · exact triv
    · rename_i hxg
      split
      · exact triv
      · rename_i hg
        have hPfn : P (env.expand rq.target) := hfn (by simpa using hg)
        have hPext : ∀ e, rq.external = some e → P (env.expand (env.expand e)) :=
          fun e he => hext e he (by simpa using hxg)
        split
        · -- Dataset(…, 'w') failed
          by_cases how : (isfile env os (env.expand rq.target) && rq.overwrite) = true
          · simp only [how, if_true]
            refine ⟨[env.entOf (env.expand rq.target)], [], frame_remove env os _, ?_, fun _ h => by simp at h⟩
            intro m hm
            simp only [List.mem_singleton] at hm
            exact ⟨_, hPfn, Or.inl hm⟩
          · simp only [how]
            exact triv
        · rename_i os2 i hc
          have hno' : (isfile env os (env.expand rq.target) && !rq.overwrite) = false := by simpa using hno
          obtain ⟨m, hm, hi, hn, hent, hst⟩ := open_w_effect env os os2 (env.expand rq.target) rq.overwrite i hno' hc
          have hmOK : EntOK env os P m := by
            refine ⟨_, hPfn, ?_⟩
            rcases hm with ⟨_, hm⟩ | ⟨_, hm⟩
            · exact Or.inl hm
            · exact Or.inr hm
          have h1 := frame_of_open os os2 m hent hst hn
          subst hi
          split
          · exact ⟨[m], [], h1, fun x hx => by simp only [List.mem_singleton] at hx; subst hx; exact hmOK,
              fun _ h => by simp at h⟩
          · have h2 := frame_emit env os rq.fault rq.omitData os.next (fun k => k) rq.fields os2 0
            have h12 := h1.trans h2
            have hI1 : ∀ i ∈ ([] : List Ino) ++ [os.next], InoOK env os P i := by
              intro i hi
              simp only [List.nil_append, List.mem_singleton] at hi
              exact Or.inl (by rw [hi]; exact Nat.le_refl _)
            have hM1 : ∀ x ∈ [m] ++ ([] : List Ent), EntOK env os P x := by
              intro x hx
              simp only [List.append_nil, List.mem_singleton] at hx
              subst hx; exact hmOK
            split
            · exact ⟨_, _, h12, hM1, hI1⟩
            · -- the external file
              have hentm : (emit env os rq.fault rq.omitData os.next (fun k => k) os2 0 rq.fields).1.ent =
                  setFn os.ent m (some (.file os.next)) := by rw [emit_ent]; exact hent
              have hnextm : os.next ≤ (emit env os rq.fault rq.omitData os.next (fun k => k) os2 0 rq.fields).1.next := by
                rw [emit_next, hn]; exact Nat.le_succ _
              rcases writeExternal_frame_gen v env os _ rq _ P
                  (fun s hs => final_after_open env os _ m os.next hentm s hs) hPext with h | ⟨m2, hm2, hF2⟩
              · rw [h]; exact ⟨_, _, h12, hM1, hI1⟩
              · refine ⟨_, _, h12.trans hF2, ?_, ?_⟩
                · intro x hx
                  rcases List.mem_append.1 hx with hx | hx
                  · exact hM1 x hx
                  · simp only [List.mem_singleton] at hx; subst hx; exact hm2
                · intro i hi
                  rcases List.mem_append.1 hi with hi | hi
                  · exact hI1 i hi
                  · simp only [List.mem_singleton] at hi
                    exact Or.inl (by rw [hi]; exact hnextm)

theorem writeA_frame_gen (v : Ver) (env : Env) (os : OS) (rq : Req) (P : Raw → Prop)
    (hfn : (!rq.fields.isEmpty && hits v env os rq.fields (env.expand rq.target)) = false → P (env.expand rq.target))
    (hext : ∀ e, rq.external = some e → extGuard v env os rq.fields rq.external = false → P (env.expand (env.expand e))) :
    ∃ M I, Frame os (writeA v env os rq).os M I ∧ (∀ m ∈ M, EntOK env os P m) ∧ (∀ i ∈ I, InoOK env os P i) := by
  have triv : ∃ M I, Frame os os M I ∧ (∀ m ∈ M, EntOK env os P m) ∧ (∀ i ∈ I, InoOK env os P i) :=
    ⟨[], [], Frame.refl os, fun _ h => by simp at h, fun _ h => by simp at h⟩
  unfold writeA
  simp only
  split
  · exact triv
  · split
    · exact triv
    · split
      · exact triv
      · split
        · exact triv
        · rename_i hxg
          split
          · exact triv
          · rename_i hg
            have hPfn : P (env.expand rq.target) := hfn (by simpa using hg)
            have hPext : ∀ e, rq.external = some e → P (env.expand (env.expand e)) :=
              fun e he => hext e he (by simpa using hxg)
            split
            · exact triv
            · rename_i i hi
              have h2 := frame_emit env os rq.fault rq.omitData i (fun k => k) rq.fields os 0
              have hI1 : ∀ j ∈ [i], InoOK env os P j := by
                intro j hj
                simp only [List.mem_singleton] at hj
                subst hj
                exact Or.inr ⟨_, hPfn, hi⟩
              split
              · exact ⟨_, _, h2, fun _ h => by simp at h, hI1⟩
              · have hentm : (emit env os rq.fault rq.omitData i (fun k => k) os 0 rq.fields).1.ent = os.ent := emit_ent ..
                have hnextm : (emit env os rq.fault rq.omitData i (fun k => k) os 0 rq.fields).1.next = os.next := emit_next ..
                rcases writeExternal_frame_gen v env os _ rq _ P
                    (fun s _ => final_congr env os _ hentm s) hPext with h | ⟨m2, hm2, hF2⟩
                · rw [h]; exact ⟨_, _, h2, fun _ h => by simp at h, hI1⟩
                · refine ⟨_, _, h2.trans hF2, ?_, ?_⟩
                  · intro x hx
                    simp only [List.nil_append, List.mem_singleton] at hx
                    subst hx; exact hm2
                  · intro j hj
                    simp only [List.mem_append] at hj
                    rcases hj with hj | hj
                    · exact hI1 j hj
                    · simp only [List.mem_singleton] at hj
                      exact Or.inl (by rw [hj, hnextm]; exact Nat.le_refl _)

theorem writeP_frame_gen (v : Ver) (env : Env) (os : OS) (rq : Req) (P : Raw → Prop)
    (hfn : (!rq.fields.isEmpty && hits v env os rq.fields (env.expand rq.target)) = false → P (env.expand rq.target))
    (hext : ∀ e, rq.external = some e → extGuard v env os rq.fields rq.external = false → P (env.expand (env.expand e))) :
    ∃ M I, Frame os (writeP v env os rq).os M I ∧ (∀ m ∈ M, EntOK env os P m) ∧ (∀ i ∈ I, InoOK env os P i) := by
  unfold writeP
  split
  · exact ⟨[], [], Frame.refl os, fun _ h => by simp at h, fun _ h => by simp at h⟩
  · cases rq.mode with
    | w => exact writeW_frame_gen v env os rq P hfn hext
    | a => exact writeA_frame_gen v env os rq P hfn hext

end Cfdm.FilesPath

namespace Cfdm.FilesPath

/-! ## refusals -/

theorem writeNested_not_refusal (v : Ver) (env : Env) (os0 os : OS) (xs : List FieldA) (e1 : Raw) (ow skip : Bool) :
    (writeNested v env os0 os xs e1 ow skip).out.isRefusal = false := by
  unfold writeNested
  simp only
  split
  · rfl
  · split
    · rfl
    · split
      · rfl
      · simp only
        split <;> rfl

theorem writeExternal_not_refusal (v : Ver) (env : Env) (os0 os : OS) (rq : Req) (lg : List Ev) :
    (writeExternal v env os0 os rq lg).out.isRefusal = false := by
  unfold writeExternal
  split
  · rfl
  · simp only
    split
    · rfl
    · exact writeNested_not_refusal ..

theorem writeW_refusal_pure (v : Ver) (env : Env) (os : OS) (rq : Req) :
    (writeW v env os rq).out.isRefusal = true → (writeW v env os rq).os = os := by
  unfold writeW
  simp only
  split
  · intro _; rfl
  · split
    · intro _; rfl
    · split
      · intro _; rfl
      · split
        · intro h; simp [Outcome.isRefusal] at h
        · split
          · intro h; simp [Outcome.isRefusal] at h
          · split
            · intro h; simp [Outcome.isRefusal] at h
            · intro h
              rw [writeExternal_not_refusal] at h
              simp at h

theorem writeA_refusal_pure (v : Ver) (env : Env) (os : OS) (rq : Req) :
    (writeA v env os rq).out.isRefusal = true → (writeA v env os rq).os = os := by
  unfold writeA
  simp only
  split
  · intro _; rfl
  · split
    · intro _; rfl
    · split
      · intro _; rfl
      · split
        · intro _; rfl
        · split
          · intro _; rfl
          · split
            · intro h; simp [Outcome.isRefusal] at h
            · split
              · intro h; simp [Outcome.isRefusal] at h
              · intro h
                rw [writeExternal_not_refusal] at h
                simp at h

theorem writeP_refusal_pure (v : Ver) (env : Env) (os : OS) (rq : Req)
    (h : (writeP v env os rq).out.isRefusal = true) : (writeP v env os rq).os = os := by
  unfold writeP at h ⊢
  split
  · rfl
  · rename_i hp
    simp only [hp, if_false] at h
    cases hm : rq.mode with
    | w => simp only [hm] at h ⊢; exact writeW_refusal_pure v env os rq h
    | a => simp only [hm] at h ⊢; exact writeA_refusal_pure v env os rq h

/-! ## the names handed to the operating system -/

theorem nested_log_opened (v : Ver) (env : Env) (os0 os : OS) (xs : List FieldA) (e1 : Raw) (ow skip : Bool) :
    ∀ ev ∈ (writeNested v env os0 os xs e1 ow skip).log, ∀ s, ev.opened = some s → s = env.expand e1 := by
  intro ev hev s hs
  unfold writeNested at hev
  simp only at hev
  have key : ∀ l : List Ev, ev ∈ [Ev.isfile (env.expand e1), .guardExt (env.expand e1)] ++ l ++ [Ev.create (env.expand e1)] →
      (∀ x ∈ l, x = Ev.remove (env.expand e1)) → s = env.expand e1 := by
    intro l hl hrem
    simp only [List.mem_append, List.mem_cons, List.not_mem_nil, or_false] at hl
    rcases hl with (((h | h) | h) | h)
    · subst h; simp [Ev.opened] at hs
    · subst h; simp [Ev.opened] at hs
    · have := hrem ev h; subst this; simp [Ev.opened] at hs; exact hs.symm
    · subst h; simp [Ev.opened] at hs; exact hs.symm
  have hrem : ∀ b : Bool, ∀ x ∈ (if b = true then [Ev.remove (env.expand e1)] else []), x = Ev.remove (env.expand e1) := by
    intro b x hx
    cases b <;> simp at hx
    exact hx
  split at hev
  · simp only [List.mem_singleton] at hev; subst hev; simp [Ev.opened] at hs
  · split at hev
    · simp only [List.mem_cons, List.not_mem_nil, or_false] at hev
      rcases hev with h | h <;> (subst h; simp [Ev.opened] at hs)
    · split at hev
      · exact key _ hev (hrem _)
      · exact key _ hev (hrem _)

theorem writeExternal_log (v : Ver) (env : Env) (os0 os : OS) (rq : Req) (lg : List Ev) :
    ∀ ev ∈ (writeExternal v env os0 os rq lg).log, ev ∈ lg ∨
      ∃ e, rq.external = some e ∧ ∀ s, ev.opened = some s → s = env.expand (env.expand e) := by
  intro ev hev
  unfold writeExternal at hev
  cases he : rq.external with
  | none => simp only [he] at hev; exact Or.inl hev
  | some e =>
    simp only [he] at hev
    split at hev
    · exact Or.inl hev
    · simp only [List.mem_append] at hev
      rcases hev with h | h
      · exact Or.inl h
      · exact Or.inr ⟨e, rfl, nested_log_opened v env os0 os _ _ _ _ ev h⟩

end Cfdm.FilesPath

namespace Cfdm.FilesPath

theorem extGuardLog_opened (v : Ver) (env : Env) (ext : Option Raw) : ∀ ev ∈ extGuardLog v env ext, ev.opened = none := by
  intro ev hev
  cases ext with
  | none => simp [extGuardLog] at hev
  | some e => simp only [extGuardLog, List.mem_singleton] at hev; subst hev; rfl

theorem opened_main_w (fn : Raw) (x : List Ev) (hx : ∀ ev ∈ x, ev.opened = none) (b : Bool) :
    ∀ ev ∈ x ++ [Ev.guard fn] ++ (if b = true then [Ev.remove fn] else []) ++ [Ev.create fn],
      ∀ s, ev.opened = some s → s = fn := by
  intro ev hev s hs
  simp only [List.mem_append, List.mem_singleton] at hev
  rcases hev with ((h | h) | h) | h
  · rw [hx ev h] at hs; simp at hs
  · subst h; simp [Ev.opened] at hs
  · cases b <;> simp at h
    subst h; simp [Ev.opened] at hs; exact hs.symm
  · subst h; simp [Ev.opened] at hs; exact hs.symm

theorem opened_main_a (fn : Raw) (x : List Ev) (hx : ∀ ev ∈ x, ev.opened = none) :
    ∀ ev ∈ x ++ [Ev.guard fn, Ev.openA fn], ∀ s, ev.opened = some s → s = fn := by
  intro ev hev s hs
  simp only [List.mem_append, List.mem_cons, List.not_mem_nil, or_false] at hev
  rcases hev with h | h | h
  · rw [hx ev h] at hs; simp at hs
  · subst h; simp [Ev.opened] at hs
  · subst h; simp [Ev.opened] at hs; exact hs.symm

/-- every name handed to `os.remove` / `Dataset(…, 'w'|'a')` is the expanded target, or the
twice-expanded external name -/
theorem writeP_opened_names (v : Ver) (env : Env) (os : OS) (rq : Req) :
    ∀ ev ∈ (writeP v env os rq).log, ∀ s, ev.opened = some s →
      (s = env.expand rq.target ∧ (!rq.fields.isEmpty && hits v env os rq.fields (env.expand rq.target)) = false) ∨
      (∃ e, rq.external = some e ∧ s = env.expand (env.expand e) ∧ extGuard v env os rq.fields rq.external = false) := by
  have hpre : ∀ x : List Ev, (∀ ev ∈ x, ev.opened = none) → ∀ ev ∈ x, ∀ s, ev.opened = some s → False := by
    intro x hx ev hev s hs; rw [hx ev hev] at hs; simp at hs
  have hfile : ∀ (a : Raw) (l : List Ev), (∀ ev ∈ l, ev.opened = none) → ∀ ev ∈ [Ev.isfile a] ++ l, ev.opened = none := by
    intro a l hl ev hev
    simp only [List.mem_append, List.mem_singleton] at hev
    rcases hev with h | h
    · subst h; rfl
    · exact hl ev h
  unfold writeP
  split
  · intro ev hev; simp at hev
  · cases rq.mode with
    | w =>
      simp only
      unfold writeW
      simp only
      split
      · intro ev hev s hs
        simp only [List.mem_singleton] at hev; subst hev; simp [Ev.opened] at hs
      · split
        · intro ev hev s hs
          exact (hpre _ (hfile _ _ (extGuardLog_opened v env rq.external)) ev hev s hs).elim
        · rename_i hxg
          split
          · intro ev hev s hs
            rcases List.mem_append.1 hev with h | h
            · exact (hpre _ (hfile _ _ (extGuardLog_opened v env rq.external)) ev h s hs).elim
            · simp only [List.mem_singleton] at h; subst h; simp [Ev.opened] at hs
          · rename_i hg
            have hgf : (!rq.fields.isEmpty && hits v env os rq.fields (env.expand rq.target)) = false := by simpa using hg
            have hxf : extGuard v env os rq.fields rq.external = false := by simpa using hxg
            have hmain := opened_main_w (env.expand rq.target) _ (hfile (env.expand rq.target) _ (extGuardLog_opened v env rq.external))
              (isfile env os (env.expand rq.target) && rq.overwrite)
            split
            · intro ev hev s hs; exact Or.inl ⟨hmain ev hev s hs, hgf⟩
            · split
              · intro ev hev s hs; exact Or.inl ⟨hmain ev hev s hs, hgf⟩
              · split
                · intro ev hev s hs; exact Or.inl ⟨hmain ev hev s hs, hgf⟩
                · intro ev hev s hs
                  rcases writeExternal_log v env os _ rq _ ev hev with h | ⟨e, he, h⟩
                  · exact Or.inl ⟨hmain ev h s hs, hgf⟩
                  · exact Or.inr ⟨e, he, h s hs, hxf⟩
    | a =>
      simp only
      unfold writeA
      simp only
      have h2 : ∀ a b : Raw, ∀ ev ∈ [Ev.isfile a, Ev.isfile b], ev.opened = none := by
        intro a b ev hev
        simp only [List.mem_cons, List.not_mem_nil, or_false] at hev
        rcases hev with h | h <;> (subst h; rfl)
      have h2' : ∀ (a b : Raw) (l : List Ev), (∀ ev ∈ l, ev.opened = none) → ∀ ev ∈ [Ev.isfile a, Ev.isfile b] ++ l, ev.opened = none := by
        intro a b l hl ev hev
        rcases List.mem_append.1 hev with h | h
        · exact h2 a b ev h
        · exact hl ev h
      split
      · intro ev hev s hs
        simp only [List.mem_singleton] at hev; subst hev; simp [Ev.opened] at hs
      · split
        · intro ev hev s hs; exact (hpre _ (h2 _ _) ev hev s hs).elim
        · split
          · intro ev hev s hs; exact (hpre _ (h2 _ _) ev hev s hs).elim
          · split
            · intro ev hev s hs
              exact (hpre _ (h2' _ _ _ (extGuardLog_opened v env rq.external)) ev hev s hs).elim
            · rename_i hxg
              split
              · intro ev hev s hs
                rcases List.mem_append.1 hev with h | h
                · exact (hpre _ (h2' _ _ _ (extGuardLog_opened v env rq.external)) ev h s hs).elim
                · simp only [List.mem_singleton] at h; subst h; simp [Ev.opened] at hs
              · rename_i hg
                have hgf : (!rq.fields.isEmpty && hits v env os rq.fields (env.expand rq.target)) = false := by simpa using hg
                have hxf : extGuard v env os rq.fields rq.external = false := by simpa using hxg
                have hmain := opened_main_a (env.expand rq.target) _
                  (h2' (env.expand (env.expand rq.target)) (env.expand rq.target) _ (extGuardLog_opened v env rq.external))
                split
                · intro ev hev s hs; exact Or.inl ⟨hmain ev hev s hs, hgf⟩
                · split
                  · intro ev hev s hs; exact Or.inl ⟨hmain ev hev s hs, hgf⟩
                  · intro ev hev s hs
                    rcases writeExternal_log v env os _ rq _ ev hev with h | ⟨e, he, h⟩
                    · exact Or.inl ⟨hmain ev h s hs, hgf⟩
                    · exact Or.inr ⟨e, he, h s hs, hxf⟩

end Cfdm.FilesPath

namespace Cfdm.FilesPath

/-! ## needed names are intact -/

/-- the core of the next two theorems: a name that is not the same file as the names the request
opens reads back what it held -/
theorem needed_intact_core (v : Ver) (env : Env) (os : OS) (rq : Req) (hS : Settled os env.fuel) (hwf : InoWF os) (n : Raw)
    (hfn : (!rq.fields.isEmpty && hits v env os rq.fields (env.expand rq.target)) = false →
      sameFile .new env os n (env.expand rq.target) = false)
    (hext : ∀ e, rq.external = some e → extGuard v env os rq.fields rq.external = false →
      sameFile .new env os n (env.expand (env.expand e)) = false) :
    readName env (writeP v env os rq).os n = readName env os n := by
  obtain ⟨M, I, hF, hM, hI⟩ := writeP_frame_gen v env os rq (fun s => sameFile .new env os n s = false) hfn hext
  have unpack : ∀ s, sameFile .new env os n s = false →
      final env os n ≠ final env os s ∧ ∀ i, inoOf env os n = some i → inoOf env os s ≠ some i := by
    intro s hs
    simp only [sameFile, Bool.or_eq_false_iff, beq_eq_false_iff_ne, ne_eq, Bool.and_eq_false_iff] at hs
    refine ⟨hs.1, ?_⟩
    intro i hi hsi
    rcases hs.2 with (h | h) | h
    · simp at h
    · simp [hi] at h
    · simp [hi, hsi] at h
  apply read_preserved env os _ M I n hF hwf
  · intro j hj
    obtain ⟨s, hs, hm⟩ := hM _ hj
    obtain ⟨hne, _⟩ := unpack s hs
    rcases hm with hm | hm
    · exact hne (walk_visit os env.fuel hS j _ _ hm)
    · have h1 := walk_visit os env.fuel hS j _ _ hm
      rw [final, walk_walk_of_settled os env.fuel hS] at h1
      exact hne h1
  · intro i hi hiI
    rcases hI i hiI with h | ⟨s, hs, hsi⟩
    · exact absurd (hwf _ _ (inoOf_some hi)) (Nat.not_lt.2 h)
    · exact (unpack s hs).2 i hi hsi

theorem sameFile_of_mem_hits_false (v : Ver) (env : Env) (os : OS) (fields : List FieldA) (f : FieldA) (n s : Raw)
    (hf : f ∈ fields) (hn : n ∈ f.orig) (h : hits v env os fields s = false) : sameFile v env os n s = false := by
  simp only [hits, List.any_eq_false] at h
  have := h f hf
  simp only [List.any_eq_true, not_exists, not_and] at this
  simpa using this n hn

end Cfdm.FilesPath
