import Cfdm.Model.IndexBackend
import Cfdm.Lemmas.PySlice
/- Helper lemmas for the backend part of C03 (`netcdf_indexer._variable_subspace`). -/
namespace Cfdm.IndexBackend
open Cfdm.PySlice Cfdm.Arr

theorem rangeLen_asc (s st : Int) (hst : st < 0) (L : Nat) :
    rangeLen (s + L * st) (s + 1) (-st) = L + 1 := by
  unfold rangeLen
  have h1 : 0 < -st := by omega
  have h2 : (L : Int) * st ≤ 0 := Int.mul_nonpos_of_nonneg_of_nonpos (by omega) (by omega)
  have h3 : s + L * st < s + 1 := by omega
  simp only [h1, h3, if_true]
  have : s + 1 - (s + ↑L * st) - 1 = (L : Int) * (-st) := by ring
  rw [this, Int.mul_ediv_cancel _ (by omega)]
  omega

/-- The ascending range anchored on the last element, reversed, is the descending range. -/
theorem rangeList_reverse_neg (s e st : Int) (hst : st < 0) (L : Nat) (hL : rangeLen s e st = L + 1) :
    (rangeList (s + L * st) (s + 1) (-st)).reverse = rangeList s e st := by
  apply List.ext_getElem
  · simp [rangeList, rangeLen_asc s st hst L, hL]
  · intro i h1 h2
    rw [List.getElem_reverse]
    simp only [rangeList, List.getElem_map, List.getElem_range, List.length_map, List.length_range,
      rangeLen_asc s st hst L]
    simp only [rangeList, List.length_map, List.length_range, hL] at h2
    have : ((L + 1 - 1 - i : Nat) : Int) = (L : Int) - i := by omega
    rw [this]
    ring

/-- `slice(None, None, -1)` on an axis of size `m` selects `m-1, …, 0`. -/
theorem posNat_revslice (m : Nat) :
    posNat m (.slice none none (some (-1))) = (List.range m).reverse := by
  simp only [posNat, Sel.positions, slicePositions, Option.getD, adjust, adjBound]
  have h1 : ((-1 : Int) < 0) := by omega
  simp only [h1, if_true, rangeList]
  have hl : rangeLen ((m : Int) - 1) (-1) (-1) = m := by
    unfold rangeLen
    by_cases hm : m = 0
    · subst hm; simp
    · have : (-1 : Int) < (m : Int) - 1 := by omega
      simp only [this, if_true]
      have h0 : ¬ ((0:Int) < -1) := by omega
      simp only [h0, h1, if_false, if_true]
      have : ((m : Int) - 1 - -1 - 1) / (- -1) + 1 = m := by
        have : (- -1 : Int) = 1 := by omega
        rw [this, Int.ediv_one]; omega
      rw [this]; simp
  rw [hl, List.range_eq_range', List.reverse_range', ← List.range_eq_range']
  simp only [List.map_map]
  apply List.map_congr_left
  intro i hi
  simp only [List.mem_range] at hi
  simp only [Function.comp]
  omega

theorem map_getD_reverse_range {α} (l : List α) (d : α) :
    ((List.range l.length).reverse).map (fun j => l.getD j d) = l.reverse := by
  apply List.ext_getElem
  · simp
  · intro i h1 h2
    simp only [List.length_map, List.length_reverse, List.length_range] at h1
    simp only [List.getElem_map, List.getElem_reverse, List.getElem_range, List.length_range]
    rw [List.getD_eq_getElem?_getD, List.getElem?_eq_getElem (by omega)]
    rfl
theorem rangeList_head_last (s e st : Int) (L : Nat) (hL : rangeLen s e st = L + 1) :
    (rangeList s e st).head? = some s ∧ (rangeList s e st).getLast? = some (s + L * st) := by
  simp only [rangeList, hL, List.head?_map, List.getLast?_map, List.getLast?_range]
  constructor
  · simp [List.range_succ_eq_map]
  · simp

/-- Positions of a slice whose bounds are given, in range and ascending. -/
theorem slicePositions_inrange_pos (x y st : Int) (n : Nat) (hst : 0 < st)
    (hx : 0 ≤ x ∧ x ≤ n) (hy : 0 ≤ y ∧ y ≤ n) :
    slicePositions (some x) (some y) (some st) n = rangeList x y st := by
  simp only [slicePositions, Option.getD, adjust, adjBound]
  have h1 : ¬ st < 0 := by omega
  have h2 : ¬ x < 0 := by omega
  have h3 : ¬ x > (n : Int) := by omega
  have h4 : ¬ y < 0 := by omega
  have h5 : ¬ y > (n : Int) := by omega
  simp only [h1, h2, h3, h4, h5, if_false]

theorem convSlice_delivered (a b c : Option Int) (n : Nat) (hc : c ≠ some 0) :
    delivered n (convSlice a b c n) = posNat n (.slice a b c) := by
  cases c with
  | none => simp [convSlice, delivered]
  | some st =>
    by_cases hneg : st < 0
    · simp only [convSlice, hneg, if_true]
      have hmem := slicePositions_mem a b (some st) n hc
      generalize hr : slicePositions a b (some st) n = r at hmem
      have hr' : r = rangeList (adjust a b st n).1 (adjust a b st n).2 st := by
        rw [← hr]; simp [slicePositions]
      generalize (adjust a b st n).1 = s at hr'
      generalize (adjust a b st n).2 = e at hr'
      cases hL : rangeLen s e st with
      | zero =>
        have : r = [] := by rw [hr']; simp [rangeList, hL]
        subst this
        simp only [List.head?_nil, List.getLast?_nil, delivered, posNat, Sel.positions, hr]
        simp [slicePositions, adjust, adjBound, rangeList, rangeLen]
      | succ L =>
        obtain ⟨hh, hl⟩ := rangeList_head_last s e st L hL
        rw [← hr'] at hh hl
        simp only [hh, hl, delivered]
        have hs : s ∈ r := by
          cases r with
          | nil => simp at hh
          | cons x xs => simp at hh; simp [hh]
        have hlast : s + L * st ∈ r := List.mem_of_getLast? hl
        have b1 := hmem _ hs
        have b2 := hmem _ hlast
        have hread : posNat n (.slice (some (s + L * st)) (some (s + 1)) (some (-st))) =
            (rangeList (s + L * st) (s + 1) (-st)).map Int.toNat := by
          simp only [posNat, Sel.positions]
          rw [slicePositions_inrange_pos _ _ _ n (by omega) (by omega) (by omega)]
        rw [hread, posNat_revslice, map_getD_reverse_range, ← List.map_reverse,
          rangeList_reverse_neg s e st hneg L hL, ← hr']
        simp [posNat, Sel.positions, hr]
    · simp [convSlice, hneg, delivered]
theorem convSlice_accepted (a b c : Option Int) (n : Nat) (hc : c ≠ some 0) :
    h5Accepts n (convSlice a b c n).read = true := by
  cases c with
  | none => simp [convSlice, h5Accepts]
  | some st =>
    by_cases hneg : st < 0
    · simp only [convSlice, hneg, if_true]
      split
      · simp only [h5Accepts, Option.getD, decide_eq_true_eq]; omega
      · simp [h5Accepts]
    · have : st ≠ 0 := fun h => hc (by rw [h])
      simp only [convSlice, hneg, if_false, h5Accepts, Option.getD, decide_eq_true_eq]
      omega

theorem mem_insertU (x y : Int) (l : List Int) : y ∈ insertU x l ↔ y = x ∨ y ∈ l := by
  induction l with
  | nil => simp [insertU]
  | cons z zs ih =>
    simp only [insertU]
    split
    · simp
    · split
      · rename_i h; subst h; simp
      · simp only [List.mem_cons, ih]
        constructor
        · rintro (h | h | h) <;> simp [h]
        · rintro (h | h | h) <;> simp [h]

theorem sorted_insertU (x : Int) (l : List Int) (h : l.Pairwise (· < ·)) :
    (insertU x l).Pairwise (· < ·) := by
  induction l with
  | nil => simp [insertU]
  | cons z zs ih =>
    simp only [insertU]
    have hz := List.pairwise_cons.mp h
    split
    · rename_i hlt
      apply List.pairwise_cons.mpr
      refine ⟨?_, h⟩
      intro w hw
      simp only [List.mem_cons] at hw
      rcases hw with rfl | hw
      · exact hlt
      · have := hz.1 w hw; omega
    · split
      · exact h
      · rename_i h1 h2
        apply List.pairwise_cons.mpr
        refine ⟨?_, ih hz.2⟩
        intro w hw
        rw [mem_insertU] at hw
        rcases hw with rfl | hw
        · omega
        · exact hz.1 w hw

theorem uniq_sorted (l : List Int) : (uniq l).Pairwise (· < ·) := by
  induction l with
  | nil => simp [uniq]
  | cons x xs ih => exact sorted_insertU x _ ih

theorem mem_uniq (l : List Int) (y : Int) : y ∈ uniq l ↔ y ∈ l := by
  induction l with
  | nil => simp [uniq]
  | cons x xs ih =>
    show y ∈ insertU x (uniq xs) ↔ _
    rw [mem_insertU, ih]; simp

/-- `uniq[inverse] = original`. -/
theorem inverse_spec (l : List Int) :
    (inverse l).map (fun j => (uniq l).getD j.toNat 0) = l := by
  simp only [inverse, List.map_map]
  conv => rhs; rw [← List.map_id l]
  apply List.map_congr_left
  intro x hx
  have hm : x ∈ uniq l := (mem_uniq l x).mpr hx
  have hlt : (uniq l).idxOf x < (uniq l).length := List.idxOf_lt_length_of_mem hm
  simp only [Function.comp, Int.toNat_natCast, id]
  rw [List.getD_eq_getElem?_getD, List.getElem?_eq_getElem hlt]
  simp

theorem hasDescent_false_of_sorted (l : List Int) (h : l.Pairwise (· < ·)) : hasDescent l = false := by
  induction l with
  | nil => rfl
  | cons x xs ih =>
    cases xs with
    | nil => rfl
    | cons y ys =>
      have hx := List.pairwise_cons.mp h
      simp only [hasDescent, Bool.or_eq_false_iff, decide_eq_false_iff_not]
      refine ⟨?_, ih hx.2⟩
      have := hx.1 y (by simp)
      omega

theorem sorted_of_hasDescent_false (l : List Int) (h : hasDescent l = false) : l.Pairwise (· < ·) := by
  induction l with
  | nil => simp
  | cons x xs ih =>
    cases xs with
    | nil => simp
    | cons y ys =>
      simp only [hasDescent, Bool.or_eq_false_iff, decide_eq_false_iff_not] at h
      have hs := ih h.2
      apply List.pairwise_cons.mpr
      refine ⟨?_, hs⟩
      intro w hw
      simp only [List.mem_cons] at hw
      have hy := List.pairwise_cons.mp hs
      rcases hw with rfl | hw
      · omega
      · have := hy.1 w hw; omega
theorem norm_nonneg (n : Nat) (x : Int) (h : 0 ≤ x) : norm n x = x := by
  unfold norm; split <;> omega

theorem map_norm_nonneg (n : Nat) (l : List Int) (h : ∀ x ∈ l, 0 ≤ x) : l.map (norm n) = l := by
  conv => rhs; rw [← List.map_id l]
  apply List.map_congr_left
  intro x hx
  exact norm_nonneg n x (h x hx)

theorem getD_map_toNat (l : List Int) (k : Nat) :
    (l.map Int.toNat).getD k 0 = (l.getD k 0).toNat := by
  simp only [List.getD_eq_getElem?_getD, List.getElem?_map]
  cases l[k]? <;> simp

theorem convList_delivered (n : Nat) (p : List Int) (hp : ∀ x ∈ p, 0 ≤ x) :
    delivered n (convList p) = p.map Int.toNat := by
  unfold convList
  split
  · simp only [delivered, posNat, Sel.positions]
    have hu : ∀ x ∈ uniq p, 0 ≤ x := fun x hx => hp x ((mem_uniq p x).mp hx)
    have hi : ∀ x ∈ inverse p, 0 ≤ x := by
      intro x hx
      simp only [inverse, List.mem_map] at hx
      obtain ⟨y, _, rfl⟩ := hx
      omega
    rw [map_norm_nonneg n _ hu, map_norm_nonneg _ _ hi]
    have := congrArg (List.map Int.toNat) (inverse_spec p)
    rw [← this]
    simp only [List.map_map]
    apply List.map_congr_left
    intro j _
    simp only [Function.comp]
    exact getD_map_toNat _ _
  · simp only [delivered, posNat, Sel.positions]
    rw [map_norm_nonneg n _ hp]

theorem convList_accepted (n : Nat) (p : List Int) (hp : ∀ x ∈ p, 0 ≤ x) :
    h5Accepts n (convList p).read = true := by
  unfold convList
  split
  · have hu : ∀ x ∈ uniq p, 0 ≤ x := fun x hx => hp x ((mem_uniq p x).mp hx)
    simp only [h5Accepts, map_norm_nonneg n _ hu, hasDescent_false_of_sorted _ (uniq_sorted p)]
    rfl
  · rename_i h
    simp only [h5Accepts, map_norm_nonneg n _ hp]
    simp only [Bool.and_eq_true, decide_eq_true_eq, not_and, Bool.not_eq_true] at h
    by_cases hl : 1 < p.length
    · simp [h hl]
    · match p, hl with
      | [], _ => rfl
      | [_], _ => rfl
      | _ :: _ :: _, hl => simp at hl

/-- Per axis: what `_variable_subspace` delivers is what the selector selects. -/
theorem convSel_delivered (n : Nat) (s : Sel) (h : s.wf n = true) :
    delivered n (convSel n s) = posNat n s := by
  cases s with
  | slice a b c =>
    simp only [Sel.wf, bne_iff_ne, ne_eq] at h
    exact convSlice_delivered a b c n h
  | list l =>
    simp only [Sel.wf, List.all_eq_true] at h
    simp only [convSel, posNat, Sel.positions]
    apply convList_delivered
    intro x hx
    simp only [List.mem_map] at hx
    obtain ⟨i, hi, rfl⟩ := hx
    exact (Cfdm.Indexing.norm_bounds n i (h i hi)).1

theorem convSel_accepted (n : Nat) (s : Sel) (h : s.wf n = true) :
    h5Accepts n (convSel n s).read = true := by
  cases s with
  | slice a b c =>
    simp only [Sel.wf, bne_iff_ne, ne_eq] at h
    exact convSlice_accepted a b c n h
  | list l =>
    simp only [Sel.wf, List.all_eq_true] at h
    apply convList_accepted
    intro x hx
    simp only [List.mem_map] at hx
    obtain ⟨i, hi, rfl⟩ := hx
    exact (Cfdm.Indexing.norm_bounds n i (h i hi)).1
theorem delivered_length (n : Nat) (ar : AxisRead) :
    (delivered n ar).length =
      match ar.reorder with
      | none => (posNat n ar.read).length
      | some s => (posNat (posNat n ar.read).length s).length := by
  unfold delivered
  cases ar.reorder <;> simp

/-- `_variable_subspace` (read an acceptable index, re-order in memory) delivers the orthogonal
per-axis take, element for element, on every valid index. -/
theorem variableSubspace_eqv {α} (A : Arr α) (sels : List Sel)
    (hwf : selsWf A.shape sels = true) :
    EqvIn (variableSubspace A sels) (takeAll A (positionsNat A.shape sels)) := by
  simp only [selsWf, Bool.and_eq_true, beq_iff_eq, List.all_eq_true] at hwf
  obtain ⟨hlen, hall⟩ := hwf
  have hwfk : ∀ k (h1 : k < sels.length) (h2 : k < A.shape.length), (sels[k]).wf (A.shape[k]) = true := by
    intro k h1 h2
    have := hall ((sels[k]).wf (A.shape[k])) (by
      rw [List.mem_iff_getElem]
      exact ⟨k, by simp [h1, h2], by simp⟩)
    simpa using this
  have hdel : ∀ k (h1 : k < sels.length) (h2 : k < A.shape.length),
      delivered (A.shape[k]) (convSel (A.shape[k]) (sels[k])) = posNat (A.shape[k]) (sels[k]) :=
    fun k h1 h2 => convSel_delivered _ _ (hwfk k h1 h2)
  constructor
  · -- shapes
    simp only [variableSubspace, takeAll, takeSome, positionsNat]
    apply List.ext_getElem?
    intro k
    by_cases hk : k < sels.length
    · have hk2 : k < A.shape.length := by omega
      have := congrArg List.length (hdel k hk hk2)
      rw [delivered_length] at this
      simp only [List.getElem?_zipWith, List.getElem?_map, List.getElem?_eq_getElem hk,
        List.getElem?_eq_getElem hk2, Option.map_some, ext]
      cases hre : (convSel A.shape[k] sels[k]).reorder with
      | none => rw [hre] at this; simpa using this
      | some s => rw [hre] at this; simpa using this
    · have hk2 : ¬ k < A.shape.length := by omega
      simp [hk, hk2]
  · intro idx hidx
    simp only [variableSubspace, takeAll, takeSome, positionsNat]
    congr 1
    apply List.ext_getElem?
    intro k
    by_cases hk : k < sels.length
    · have hk2 : k < A.shape.length := by omega
      have hsh := hidx.1
      have hidxlen : idx.length = sels.length := by
        rw [hsh]; simp [variableSubspace, takeAll, takeSome, hlen]
      have hk3 : k < idx.length := by omega
      have hb := hidx.2 k hk3 (by rw [← hsh]; exact hk3)
      have hd := hdel k hk hk2
      simp only [List.getElem?_zipWith, List.getElem?_map, List.getElem?_eq_getElem hk,
        List.getElem?_eq_getElem hk2, List.getElem?_eq_getElem hk3, Option.map_some]
      simp only [variableSubspace, takeAll, takeSome, List.getElem_zipWith, List.getElem_map, ext] at hb
      rw [← hd]
      unfold delivered
      cases hre : (convSel A.shape[k] sels[k]).reorder with
      | none => simp [pick]
      | some s =>
        rw [hre] at hb
        simp only [Option.map_some] at hb
        simp only [pick, Option.map_some]
        congr 1
        rw [List.getD_eq_getElem?_getD, List.getD_eq_getElem?_getD, List.getD_eq_getElem?_getD,
          List.getElem?_map, List.getElem?_eq_getElem hb]
        simp only [ext, List.getD_eq_getElem?_getD, Option.map_some, Option.getD_some]
        rw [List.getElem?_eq_getElem hb]
        rfl
    · have hk2 : ¬ k < A.shape.length := by omega
      simp [hk, hk2]
theorem EqvIn.trans {α} {A B C : Arr α} (h1 : EqvIn A B) (h2 : EqvIn B C) : EqvIn A C :=
  ⟨h1.1.trans h2.1, fun idx hi => (h1.2 idx hi).trans (h2.2 idx (h1.1 ▸ hi))⟩

theorem takeAll_shape {α} (A : Arr α) (ps : List (List Nat)) (h : ps.length = A.shape.length) :
    (takeAll A ps).shape = ps.map List.length := by
  simp only [takeAll, takeSome]
  apply List.ext_getElem?
  intro i
  by_cases hi : i < ps.length
  · have : i < A.shape.length := by omega
    simp [hi, this, ext]
  · have : ¬ i < A.shape.length := by omega
    simp [hi, this]

/-- One later list axis applied in memory: if `B` is the take of `A` with positions `qs`, axis `k`
still being whole (`qs[k] = range n`), then `B[(:, …, l, …, :)]` is the take with `l` on axis `k`. -/
theorem takeAxis_step {α} (A B : Arr α) (qs : List (List Nat)) (k : Nat) (l : List Nat)
    (hq : qs.length = A.shape.length) (hk : k < qs.length)
    (hwhole : qs[k] = List.range (A.shape[k]'(hq ▸ hk)))
    (hl : ∀ x ∈ l, x < A.shape[k]'(hq ▸ hk))
    (h : EqvIn B (takeAll A qs)) :
    EqvIn (takeAxis B k l) (takeAll A (qs.set k l)) := by
  have hshB : B.shape = qs.map List.length := by rw [h.1, takeAll_shape A qs hq]
  constructor
  · rw [takeAll_shape A _ (by simpa using hq)]
    simp only [takeAxis, hshB]
    apply List.ext_getElem?
    intro i
    simp only [List.getElem?_set, List.getElem?_map, List.length_map]
    by_cases hik : k = i
    · subst hik; simp [hk]
    · simp [hik]
  · intro idx hidx
    have hshR : (takeAxis B k l).shape = (qs.set k l).map List.length := by
      simp only [takeAxis, hshB]
      apply List.ext_getElem?
      intro i
      simp only [List.getElem?_set, List.getElem?_map, List.length_map]
      by_cases hik : k = i
      · subst hik; simp [hk]
      · simp [hik]
    rw [hshR] at hidx
    obtain ⟨hil, hib⟩ := hidx
    simp only [List.length_map, List.length_set] at hil
    have hki : k < idx.length := by omega
    have hbk : idx[k] < l.length := by
      have := hib k hki (by simp [hk])
      simpa using this
    have hlk : l[idx[k]] < A.shape[k]'(hq ▸ hk) := hl _ (List.getElem_mem hbk)
    simp only [takeAxis]
    have hidk : idx.getD k 0 = idx[k] := by
      rw [List.getD_eq_getElem?_getD, List.getElem?_eq_getElem hki]; rfl
    have hlg : l.getD (idx[k]) 0 = l[idx[k]] := by
      rw [List.getD_eq_getElem?_getD, List.getElem?_eq_getElem hbk]; rfl
    rw [hidk, hlg]
    rw [h.2]
    · simp only [takeAll, takeSome]
      congr 1
      apply List.ext_getElem?
      intro i
      simp only [List.getElem?_zipWith, List.getElem?_map, List.getElem?_set]
      by_cases hik : k = i
      · subst hik
        simp only [hk, hki, if_true, List.getElem?_eq_getElem, Option.map_some, pick]
        rw [hwhole]
        simp [List.getD_eq_getElem?_getD, List.getElem?_range hlk,
          List.getElem?_eq_getElem hbk]
      · simp [hik]
    · -- the shifted index is valid for `B`
      rw [hshB]
      refine ⟨by simp [hil], ?_⟩
      intro i h1 h2
      simp only [List.length_set] at h1
      simp only [List.length_map] at h2
      simp only [List.getElem_map, List.getElem_set]
      by_cases hik : k = i
      · subst hik
        simp only [if_true, hwhole, List.length_range]
        exact hlk
      · simp only [hik, if_false]
        have := hib i h1 (by simp [h2])
        simpa [List.getElem_set, hik] using this
/-- `slice(None)` selects every position. -/
theorem posNat_full (n : Nat) : posNat n (.slice none none none) = List.range n := by
  simp only [posNat, Sel.positions, slicePositions, Option.getD, adjust, adjBound]
  have h1 : ¬ ((1 : Int) < 0) := by omega
  simp only [h1, if_false, rangeList]
  have hl : rangeLen 0 (n : Int) 1 = n := by
    unfold rangeLen
    by_cases hn : n = 0
    · subst hn; simp
    · have : (0 : Int) < n := by omega
      simp only [this, if_true]
      have h0 : (0 : Int) < 1 := by omega
      simp only [h0, if_true, Int.ediv_one]
      omega
  rw [hl, List.map_map]
  conv => rhs; rw [← List.map_id (List.range n)]
  apply List.map_congr_left
  intro i _
  simp

/-- Positions with the axes in `pending` still whole. -/
def qsOf (shape : List Nat) (ps : List (List Nat)) (pending : List Nat) : List (List Nat) :=
  (List.range ps.length).map (fun k => if k ∈ pending then List.range (shape.getD k 0) else ps.getD k [])

theorem qsOf_nil (shape : List Nat) (ps : List (List Nat)) : qsOf shape ps [] = ps := by
  apply List.ext_getElem?
  intro i
  by_cases hi : i < ps.length
  · simp [qsOf, hi, List.getD_eq_getElem?_getD]
  · simp [qsOf, hi]

theorem qsOf_set (shape : List Nat) (ps : List (List Nat)) (k : Nat) (rest : List Nat) (hk : k ∉ rest) :
    (qsOf shape ps (k :: rest)).set k (ps.getD k []) = qsOf shape ps rest := by
  apply List.ext_getElem?
  intro i
  simp only [qsOf, List.getElem?_set, List.length_map, List.length_range, List.getElem?_map]
  by_cases hik : k = i
  · subst hik
    by_cases hlt : k < ps.length
    · simp [hlt, hk]
    · simp [hlt]
  · simp only [hik, if_false]
    by_cases hlt : i < ps.length
    · have : ¬ i = k := fun h => hik h.symm
      simp [List.getElem?_range hlt, this]
    · simp [hlt]

theorem foldl_takeAxis_eqv {α} (A : Arr α) (ps : List (List Nat)) (hps : ps.length = A.shape.length)
    (hin : ∀ k (h1 : k < ps.length) (h2 : k < A.shape.length), ∀ x ∈ ps[k], x < A.shape[k]) :
    ∀ (rest : List Nat) (B : Arr α), rest.Nodup → (∀ k ∈ rest, k < ps.length) →
      EqvIn B (takeAll A (qsOf A.shape ps rest)) →
      EqvIn (rest.foldl (fun B k => takeAxis B k (ps.getD k [])) B) (takeAll A ps) := by
  intro rest
  induction rest with
  | nil => intro B _ _ h; simpa [qsOf_nil] using h
  | cons k rest ih =>
    intro B hnd hlt h
    have hnd' := List.nodup_cons.mp hnd
    have hk : k < ps.length := hlt k (by simp)
    simp only [List.foldl_cons]
    apply ih _ hnd'.2 (fun j hj => hlt j (by simp [hj]))
    rw [← qsOf_set A.shape ps k rest hnd'.1]
    have hkA : k < A.shape.length := by omega
    have hg : ps.getD k [] = ps[k] := by
      rw [List.getD_eq_getElem?_getD, List.getElem?_eq_getElem hk]; rfl
    apply takeAxis_step A B _ k _ (by simp [qsOf, hps]) (by simp [qsOf, hk]) _ _ h
    · simp [qsOf, List.getD_eq_getElem?_getD, List.getElem?_eq_getElem hkA]
    · rw [hg]; exact hin k hk hkA

theorem posNat_lt (n : Nat) (s : Sel) (h : s.wf n = true) : ∀ x ∈ posNat n s, x < n := by
  intro x hx
  simp only [posNat, List.mem_map] at hx
  obtain ⟨p, hp, rfl⟩ := hx
  have : 0 ≤ p ∧ p < n := by
    cases s with
    | slice a b c =>
      simp only [Sel.wf, bne_iff_ne, ne_eq] at h
      exact slicePositions_mem a b c n h p hp
    | list l =>
      simp only [Sel.wf, List.all_eq_true] at h
      simp only [Sel.positions, List.mem_map] at hp
      obtain ⟨i, hi, rfl⟩ := hp
      exact Cfdm.Indexing.norm_bounds n i (h i hi)
  omega

theorem selsWf_iff (shape : List Nat) (sels : List Sel) :
    selsWf shape sels = true ↔ sels.length = shape.length ∧
      ∀ k (h1 : k < sels.length) (h2 : k < shape.length), (sels[k]).wf (shape[k]) = true := by
  simp only [selsWf, Bool.and_eq_true, beq_iff_eq, List.all_eq_true]
  constructor
  · rintro ⟨hlen, hall⟩
    refine ⟨hlen, ?_⟩
    intro k h1 h2
    have := hall ((sels[k]).wf (shape[k])) (by
      rw [List.mem_iff_getElem]
      exact ⟨k, by simp [h1, h2], by simp⟩)
    simpa using this
  · rintro ⟨hlen, hall⟩
    refine ⟨hlen, ?_⟩
    intro b hb
    rw [List.mem_iff_getElem] at hb
    obtain ⟨k, hk, rfl⟩ := hb
    simp only [List.length_zipWith] at hk
    simp only [List.getElem_zipWith, id]
    exact hall k (by omega) (by omega)

/-- **`_index` on a variable that is not natively orthogonal (h5netcdf).**  Whatever sequence
axis goes to the library first and in whatever order the others are applied in memory, the
result is the orthogonal per-axis take. -/
theorem indexNonOrth_eqv {α} (A : Arr α) (sels : List Sel) (first : Nat) (rest : List Nat)
    (hwf : selsWf A.shape sels = true) (hnd : rest.Nodup) (hf : first ∉ rest)
    (hlists : ∀ k (h : k < sels.length), isList (sels[k]) = true ↔ (k = first ∨ k ∈ rest))
    (hrest : ∀ k ∈ rest, k < sels.length) :
    EqvIn (indexNonOrth A sels first rest) (takeAll A (positionsNat A.shape sels)) := by
  obtain ⟨hlen, hwfk⟩ := (selsWf_iff _ _).mp hwf
  have hpslen : (positionsNat A.shape sels).length = A.shape.length := by
    simp [positionsNat, hlen]
  unfold indexNonOrth
  apply foldl_takeAxis_eqv A _ hpslen _ rest _ hnd (by simpa [hpslen, hlen] using hrest)
  · -- the first access
    have hmlen : (maskLists sels first).length = sels.length := by simp [maskLists]
    have hmwf : selsWf A.shape (maskLists sels first) = true := by
      rw [selsWf_iff]
      refine ⟨by rw [hmlen, hlen], ?_⟩
      intro k h1 h2
      rw [hmlen] at h1
      simp only [maskLists, List.getElem_zipWith, List.getElem_range]
      split
      · simp [Sel.wf]
      · exact hwfk k h1 h2
    have hpos : positionsNat A.shape (maskLists sels first) =
        qsOf A.shape (positionsNat A.shape sels) rest := by
      apply List.ext_getElem?
      intro k
      by_cases hk : k < sels.length
      · have hk2 : k < A.shape.length := by omega
        have hl := hlists k hk
        simp only [positionsNat, qsOf, maskLists, List.getElem?_zipWith, List.getElem?_map,
          List.length_zipWith, List.getElem?_eq_getElem hk,
          List.getElem?_eq_getElem hk2, List.getElem?_range (by omega : k < min sels.length A.shape.length),
          List.getElem?_range hk, Option.map_some, Option.some.injEq]
        by_cases hkr : k ∈ rest
        · have hne : k ≠ first := fun h => hf (h ▸ hkr)
          have : isList sels[k] = true := hl.mpr (Or.inr hkr)
          simp [this, hne, hkr, posNat_full, List.getD_eq_getElem?_getD, List.getElem?_eq_getElem hk2]
        · have : ¬ (isList sels[k] = true ∧ k ≠ first) := by
            rintro ⟨h1, h2⟩
            rcases hl.mp h1 with h | h
            · exact h2 h
            · exact hkr h
          have hc : (isList sels[k] && k != first) = false := by
            cases h1 : isList sels[k] <;> simp_all
          simp [hc, hkr, List.getD_eq_getElem?_getD, hk, hk2]
      · have hk2 : ¬ k < A.shape.length := by omega
        simp [positionsNat, qsOf, maskLists, hk, hk2]
    rw [← hpos]
    exact variableSubspace_eqv A _ hmwf
  · intro k h1 h2 x hx
    simp only [positionsNat, List.length_zipWith] at h1
    simp only [positionsNat, List.getElem_zipWith] at hx
    exact posNat_lt _ _ (hwfk k (by omega) h2) x hx
/-! ### `netcdf_indexer.index_shape` -/

theorem ceil_div (num den : Nat) (hn : 0 < num) (hd : 0 < den) :
    (num + den - 1) / den = (num - 1) / den + 1 := by
  have : num + den - 1 = (num - 1) + den := by omega
  rw [this, Nat.add_div_right _ hd]

theorem indexShapeSlice_eq (a b c : Option Int) (n : Nat) (hc : c ≠ some 0) :
    indexShapeSlice a b c n = (slicePositions a b c n).length := by
  have hst : c.getD 1 ≠ 0 := by
    cases c with
    | none => simp
    | some v => simp; intro h; exact hc (by rw [h])
  simp only [indexShapeSlice, slicePositions, rangeList, List.length_map, List.length_range]
  generalize c.getD 1 = st at hst
  generalize (adjust a b st n).1 = s
  generalize (adjust a b st n).2 = e
  unfold rangeLen
  rcases Int.lt_or_gt_of_ne hst with hneg | hpos
  · have h0 : ¬ (0 < st) := by omega
    simp only [h0, hneg, if_false, if_true]
    by_cases hes : e < s
    · have h1 : ¬ ((e - s) * st < 0) := by
        have : 0 ≤ (e - s) * st := Int.mul_nonneg_of_nonpos_of_nonpos (by omega) (by omega)
        omega
      simp only [h1, hes, if_false, if_true]
      obtain ⟨num, hnum⟩ : ∃ num : Nat, s - e = (num : Int) := ⟨(s - e).toNat, by omega⟩
      obtain ⟨den, hden⟩ : ∃ den : Nat, -st = (den : Int) := ⟨(-st).toNat, by omega⟩
      have hn : 0 < num := by omega
      have hd : 0 < den := by omega
      have h2 : (e - s).natAbs = num := by omega
      have h3 : st.natAbs = den := by omega
      rw [h2, h3, ceil_div num den hn hd]
      have h4 : s - e - 1 = ((num - 1 : Nat) : Int) := by omega
      have h5 : ((num - 1 : Nat) : Int) / (den : Int) = (((num - 1) / den : Nat) : Int) :=
        (Int.natCast_ediv _ _).symm
      rw [h4, hden, h5]
      generalize (num - 1) / den = q
      omega
    · by_cases hse : e = s
      · subst hse; simp; try exact Or.inr hst
      · have h1 : (e - s) * st < 0 := Int.mul_neg_of_pos_of_neg (by omega) hneg
        simp [h1, hes]
  · have hn0 : ¬ (st < 0) := by omega
    simp only [hpos, if_true]
    by_cases hes : s < e
    · have h1 : ¬ ((e - s) * st < 0) := by
        have : 0 ≤ (e - s) * st := Int.mul_nonneg (by omega) (by omega)
        omega
      simp only [h1, hes, if_false, if_true]
      obtain ⟨num, hnum⟩ : ∃ num : Nat, e - s = (num : Int) := ⟨(e - s).toNat, by omega⟩
      obtain ⟨den, hden⟩ : ∃ den : Nat, st = (den : Int) := ⟨st.toNat, by omega⟩
      have hn : 0 < num := by omega
      have hd : 0 < den := by omega
      have h2 : (e - s).natAbs = num := by omega
      have h3 : st.natAbs = den := by omega
      rw [h2, h3, ceil_div num den hn hd]
      have h4 : e - s - 1 = ((num - 1 : Nat) : Int) := by omega
      have h5 : ((num - 1 : Nat) : Int) / (den : Int) = (((num - 1) / den : Nat) : Int) :=
        (Int.natCast_ediv _ _).symm
      rw [h4, hden, h5]
      generalize (num - 1) / den = q
      omega
    · by_cases hse : e = s
      · subst hse; simp; try exact Or.inr hst
      · have h1 : (e - s) * st < 0 := Int.mul_neg_of_neg_of_pos (by omega) hpos
        simp [h1, hes]

end Cfdm.IndexBackend
