import Cfdm.Model.SubsampleIx
import Cfdm.Lemmas.SubsampleGen
/-
C16 helper lemmas, third part: the first/last element shortcut and subspaces.
-/
namespace Cfdm.Subsample
open Cfdm.PySlice Cfdm.Spec.AppendixJ

theorem firstSel_positions (n : Nat) (hn : 0 < n) : firstSel.positions n = [0] := by
  have h1 : ¬ ((1 : Int) > (n : Int)) := by omega
  have h0 : ¬ ((n : Int) < 0) := by omega
  simp [firstSel, Sel.positions, slicePositions, adjust, adjBound, rangeList, rangeLen, h1, h0]

theorem lastSel_positions (n : Nat) (hn : 0 < n) : lastSel.positions n = [((n - 1 : Nat) : Int)] := by
  have h1 : ¬ ((-1 : Int) + (n : Int) < 0) := by omega
  have h2 : (-1 : Int) + (n : Int) < (n : Int) := by omega
  have h3 : ((n : Int) - (-1 + (n : Int)) - 1) / 1 + 1 = 1 := by
    have : (n : Int) - (-1 + (n : Int)) - 1 = 0 := by omega
    rw [this]; simp
  simp only [lastSel, Sel.positions, slicePositions, Option.getD_some, adjust, adjBound, rangeList, rangeLen]
  simp [h1, h2, h3]
  omega

theorem allFirst_one (ix : Sel) : allFirst [ix] = true ↔ ix = firstSel := by
  simp [allFirst]
theorem allLast_one (ix : Sel) : allLast [ix] = true ↔ ix = lastSel := by
  simp [allLast]
theorem allFirst_two (a b : Sel) : allFirst [a, b] = true ↔ a = firstSel ∧ b = firstSel := by
  simp [allFirst]
theorem allLast_two (a b : Sel) : allLast [a, b] = true ↔ a = lastSel ∧ b = lastSel := by
  simp [allLast]

theorem gather_single {α} (d : α) (l : List α) (p : Nat) (x : α) (h : l[p]? = some x) :
    gather d l [(p : Int)] = [x] := by
  simp [gather, List.getD_eq_getElem?_getD, h]

/-- In a well-formed vector the first pair of tie points is an interpolation subarea. -/
theorem wfAreas_first_gap (t : List Nat) (h : wfAreas true t = true) (a : Nat) (ha : t[0]? = some a) :
    ∃ b, t[1]? = some b ∧ a + 2 ≤ b := by
  rcases wfAreas_pair t true h 0 a ha with ⟨_, hf⟩ | ⟨b, hb, hab⟩ | ⟨k', a', hk, _, _⟩
  · simp at hf
  · exact ⟨b, hb, hab⟩
  · omega

/-- … and so is the last pair. -/
theorem wfAreas_last_gap (t : List Nat) (h : wfAreas true t = true) (l : Nat)
    (hl : t[t.length - 1]? = some l) :
    ∃ k a, k + 2 = t.length ∧ t[k]? = some a ∧ a + 2 ≤ l := by
  rcases wfAreas_pair t true h (t.length - 1) l hl with ⟨_, hf⟩ | ⟨b, hb, _⟩ | ⟨k', a', hk, ha', hal⟩
  · simp at hf
  · have hne : t ≠ [] := by intro h0; subst h0; simp at hl
    have : 0 < t.length := List.length_pos_iff.mpr hne
    rw [List.getElem?_eq_none (by omega)] at hb
    cases hb
  · have hne : t ≠ [] := by intro h0; subst h0; simp at hl
    have : 0 < t.length := List.length_pos_iff.mpr hne
    exact ⟨k', a', by omega, ha', hal⟩

end Cfdm.Subsample
