import Cfdm.Model.Sharing
/-
C09 — helper lemmas on the reader model: with the per-field reset of `vertical_crs`
and a cache that hands out the construct as created, nothing a data variable is turned
into depends on the data variables read before it.
-/
namespace Cfdm.Sharing

/-- the part of the coordinate accumulator that ends up in the field -/
def CoordAcc.obs (a : CoordAcc) : List (Nat × Option Name) × List RCons × List (Name × Nat) := (a.axes, a.cons, a.scal)

theorem readCoords_obs (F : File) (ddims names : List Name) :
    ∀ (a b : CoordAcc), a.obs = b.obs → (readCoords true F ddims names a).obs = (readCoords true F ddims names b).obs := by
  unfold readCoords
  induction names with
  | nil => intro a b h; simpa using h
  | cons n rest ih =>
    intro a b h
    simp only [List.foldl_cons]
    apply ih
    simp only [CoordAcc.obs, Prod.mk.injEq] at h
    obtain ⟨h1, h2, h3⟩ := h
    split
    · simp [CoordAcc.obs, h1, h2, h3]
    · split
      · simp [CoordAcc.obs, h1, h2, h3]
      · split
        · simp [CoordAcc.obs, h1, h2, h3]
        · split
          · split
            · simp [CoordAcc.obs, h1, h2, h3]
            · simp [CoordAcc.obs, h1, h2, h3]
          · simp [CoordAcc.obs, h1, h2, h3]

theorem readCoordsOf_obs (F : File) (x : Var) (ac ac' : List (Name × Bool)) (e e' : Bool) :
    (readCoordsOf true F x ac e).obs = (readCoordsOf true F x ac' e').obs := by
  unfold readCoordsOf
  exact readCoords_obs F _ _ _ _ rfl

/-- all remembered vertical references belong to the field being created -/
def AllOwn (v : List VEntry) : Prop := ∀ e ∈ v, e.2.1 = none

theorem readFTStep_allOwn (F : File) (ddims : List Name) (acc : List RCons × List RRef × List VEntry) (c : RCons)
    (h : AllOwn acc.2.2) : AllOwn (readFTStep F ddims acc c).2.2 := by
  unfold readFTStep
  split
  · exact h
  · split
    · exact h
    · dsimp only
      split
      · exact h
      · intro e he
        simp only [List.mem_append, List.mem_filter, List.mem_singleton] at he
        rcases he with he | he
        · exact h e he.1
        · subst he; rfl

theorem readFTs_allOwn (F : File) (ddims : List Name) (coords : List RCons) :
    AllOwn (readFTs F ddims coords []).2.2 := by
  unfold readFTs
  have : ∀ (l : List RCons) (acc : List RCons × List RRef × List VEntry), AllOwn acc.2.2 →
      AllOwn (l.foldl (readFTStep F ddims) acc).2.2 := by
    intro l
    induction l with
    | nil => intro acc h; exact h
    | cons c rest ih => intro acc h; exact ih _ (readFTStep_allOwn F ddims acc c h)
  exact this coords _ (by intro e he; cases he)

theorem pushDatum_own (d : Option (List Nat)) : ∀ (t : List VEntry), AllOwn t → ∀ (refs : List RRef) (e1 e2 : List RField),
    (pushDatum d t refs e1).2 = e1 ∧ (pushDatum d t refs e1).1 = (pushDatum d t refs e2).1 := by
  intro t
  induction t with
  | nil => intro _ refs e1 e2; exact ⟨rfl, rfl⟩
  | cons e rest ih =>
    intro h refs e1 e2
    have he : e.2.1 = none := h e (List.mem_cons_self)
    have hr : AllOwn rest := fun x hx => h x (List.mem_cons_of_mem _ hx)
    unfold pushDatum
    simp only [he]
    exact ih hr _ e1 e2

theorem allOwn_filter {v : List VEntry} (h : AllOwn v) (p : VEntry → Bool) : AllOwn (v.filter p) :=
  fun e he => h e (List.mem_filter.1 he).1

theorem readGMStep_own (tab : GMTable) (F : File) (coords : List RCons) (vcrs : List VEntry) (h : AllOwn vcrs)
    (refs : List RRef) (e1 e2 : List RField) (g : Name × List Name) :
    (readGMStep tab F coords vcrs (refs, e1) g).2 = e1 ∧
    (readGMStep tab F coords vcrs (refs, e1) g).1 = (readGMStep tab F coords vcrs (refs, e2) g).1 := by
  unfold readGMStep
  split
  · exact ⟨rfl, rfl⟩
  · rename_i gv _
    dsimp only
    split
    · have := pushDatum_own (gmDatum gv.val.sig) vcrs h refs e1 e2
      exact ⟨this.1, by rw [this.2]⟩
    · have := pushDatum_own (gmDatum gv.val.sig) _ (allOwn_filter h
        (fun e => (g.2.filterMap (fun n => (coords.find? (·.ncvar == n)).map (·.key))).contains e.1)) refs e1 e2
      split
      · exact ⟨this.1, by rw [this.2]⟩
      · exact ⟨this.1, this.2⟩

theorem readGMs_own (tab : GMTable) (F : File) (coords : List RCons) (vcrs : List VEntry) (h : AllOwn vcrs)
    (gms : List (Name × List Name)) : ∀ (refs : List RRef) (e1 e2 : List RField),
    (readGMs tab F coords vcrs gms refs e1).2 = e1 ∧
    (readGMs tab F coords vcrs gms refs e1).1 = (readGMs tab F coords vcrs gms refs e2).1 := by
  unfold readGMs
  induction gms with
  | nil => intro refs e1 e2; exact ⟨rfl, rfl⟩
  | cons g rest ih =>
    intro refs e1 e2
    simp only [List.foldl_cons]
    have hs := readGMStep_own tab F coords vcrs h refs e1 e2 g
    have h1 : readGMStep tab F coords vcrs (refs, e1) g = ((readGMStep tab F coords vcrs (refs, e1) g).1, e1) :=
      Prod.ext rfl hs.1
    have h2 : readGMStep tab F coords vcrs (refs, e2) g = ((readGMStep tab F coords vcrs (refs, e1) g).1, e2) :=
      Prod.ext hs.2.symm (readGMStep_own tab F coords vcrs h refs e2 e1 g).1
    rw [h1, h2]
    exact ih _ e1 e2

/-- what the patched reader makes of data variable `x` on its own -/
def readAlone (tab : GMTable) (F : File) (x : Var) : RField :=
  let ca := readCoordsOf true F x [] false
  let ft := readFTs F x.ddims ca.cons []
  mkRField F x ca ft.1 (readGMs tab F ca.cons ft.2.2 x.gms ft.2.1 []).1

theorem mkRField_congr (F : File) (x : Var) (a b : CoordAcc) (h : a.obs = b.obs) (dans : List RCons) (refs : List RRef) :
    mkRField F x a dans refs = mkRField F x b dans refs := by
  simp only [CoordAcc.obs, Prod.mk.injEq] at h
  simp [mkRField, h.1, h.2.1, h.2.2]

/-- the patched `_create_field_or_domain`: the earlier fields are untouched and the new one is `readAlone` -/
theorem readOne_fields (tab : GMTable) (F : File) (o : ROut) (x : Var) :
    (readOne true tab F o x).fields = o.fields ++ [readAlone tab F x] := by
  unfold readOne readAlone
  dsimp only
  have hobs := readCoordsOf_obs F x o.rst.auxCache [] o.err false
  have hcons : (readCoordsOf true F x o.rst.auxCache o.err).cons = (readCoordsOf true F x [] false).cons := by
    have := congrArg (fun t => t.2.1) hobs
    simpa [CoordAcc.obs] using this
  simp only [if_true, hcons]
  have hown := readFTs_allOwn F x.ddims (readCoordsOf true F x [] false).cons
  have hg := readGMs_own tab F (readCoordsOf true F x [] false).cons _ hown x.gms
    (readFTs F x.ddims (readCoordsOf true F x [] false).cons []).2.1 o.fields []
  rw [hg.1, hg.2]
  congr 2
  exact mkRField_congr F x _ _ hobs _ _

theorem readAll_eq_map (tab : GMTable) (F : File) :
    readAll tab F = (F.vars.filter (·.isData)).map (readAlone tab F) := by
  unfold readAll readAllWith
  have : ∀ (l : List Var) (o : ROut), (l.foldl (readOne true tab F) o).fields = o.fields ++ l.map (readAlone tab F) := by
    intro l
    induction l with
    | nil => intro o; simp
    | cons x rest ih =>
      intro o
      simp only [List.foldl_cons, List.map_cons]
      rw [ih, readOne_fields]
      simp
  rw [this]
  simp

theorem readEach_eq_map (tab : GMTable) (F : File) :
    readEach tab F = (F.vars.filter (·.isData)).map (readAlone tab F) := by
  unfold readEach
  have : ∀ x, (readOne true tab F {} x).fields = [readAlone tab F x] := by
    intro x; rw [readOne_fields]; rfl
  simp only [this]
  induction (F.vars.filter (·.isData)) with
  | nil => rfl
  | cons x rest ih => simp [List.flatMap_cons, ih]

end Cfdm.Sharing
