import Cfdm.Lemmas.LazyWorld
/- C12: what the reader model leaves behind, variable by variable. -/
namespace Cfdm.Lazy
open Cfdm.PySlice Cfdm.Arr Cfdm.Indexing

variable {α : Type} [DecidableEq α]

/-- The state the reader leaves for a variable whose role it does not realise needlessly. -/
def stateOf (st : Store α) (v : VarDesc) : AState α :=
  if v.role.exempt then .mem (insertDimArr (st v.loc)) else .disk v.loc v.shape

/-- The fetches the reader makes for such a variable. -/
def logOf (v : VarDesc) : List Fetch :=
  if v.role.exempt || v.role.structural then [Fetch.mk v.loc (fullPs v.shape)] else []

theorem readVar_spec {b : Backend} (st : Store α) (w : World α) (v : VarDesc)
    (hv : v.role.realisedByRead = false) :
    readVar b st w v = ({ heap := w.heap, log := w.log ++ logOf v, handles := w.handles }, stateOf st v) := by
  obtain ⟨loc, shape, role⟩ := v
  cases role <;>
    simp_all [readVar, readOps, run, step, getArray, fetch, put, stateOf, logOf, Role.exempt, Role.structural,
      Role.realisedByRead]

theorem readFold_spec {b : Backend} (st : Store α) (vs : List VarDesc)
    (hv : ∀ v ∈ vs, v.role.realisedByRead = false) : ∀ (w : World α),
    vs.foldl (fun (w : World α) v =>
      let (w', s) := readVar b st w v
      { w' with heap := w'.heap ++ [s] }) w =
    { heap := w.heap ++ vs.map (stateOf st), log := w.log ++ vs.flatMap logOf, handles := w.handles } := by
  induction vs with
  | nil => intro w; simp
  | cons v vs ih =>
    intro w
    simp only [List.foldl_cons]
    rw [readVar_spec st w v (hv v (List.mem_cons_self))]
    simp only
    rw [ih (fun u hu => hv u (List.mem_cons_of_mem _ hu))]
    simp [List.append_assoc]

theorem readFile_spec {b : Backend} (st : Store α) (vs : List VarDesc)
    (hv : ∀ v ∈ vs, v.role.realisedByRead = false) (w : World α) :
    readFile b st w vs =
    { heap := w.heap ++ vs.map (stateOf st), log := w.log ++ vs.flatMap logOf, handles := w.handles } := by
  unfold readFile
  simp only
  rw [readFold_spec st vs hv]
  simp

theorem scanExternal_fold (l : List Bool) (o : Opened) :
    l.foldl scanExternal o = ⟨o.opened + l.length, o.registered + l.length⟩ := by
  induction l generalizing o with
  | nil => rfl
  | cons x xs ih => simp only [List.foldl_cons, ih, scanExternal, List.length_cons]; congr 1 <;> omega

theorem opened_eq_registered (p : ReadPlan) :
    (p.externals.foldl scanExternal (openParent p.grouped)).opened =
    (p.externals.foldl scanExternal (openParent p.grouped)).registered := by
  rw [scanExternal_fold]
  unfold openParent
  split <;> rfl

/-- Processing the variables never changes the number of open datasets (every fetch is a bracket). -/
theorem readFold_handles {b : Backend} (hb : b.leaky = false) (st : Store α) (vs : List VarDesc) :
    ∀ (w : World α), (vs.foldl (fun (w : World α) v =>
      let (w', s) := readVar b st w v
      { w' with heap := w'.heap ++ [s] }) w).handles = w.handles := by
  induction vs with
  | nil => intro w; rfl
  | cons v vs ih =>
    intro w
    simp only [List.foldl_cons]
    rw [ih]
    simp only [readVar]
    exact run_handles hb st _ _

end Cfdm.Lazy
