import Cfdm.Lemmas.AppendSafe
/-
C17 — the dry run establishes what the post-dry-run pass needs (`RegAgrees`): with the proposed repair
C17-append-dry-run-names (names registered as they are), if every field read back reports, for the netCDF
dimensions it names, the length those dimensions have in the dataset, then the dimension tables left by the
dry run agree with the dataset.
-/
namespace Cfdm.Append

/-- `{P} p {Q}` for the dry run: a normal end from a registry satisfying `P` satisfies `Q` (the dataset is not
touched at all: `run_dry_file`; an error ends the append before anything is written). -/
def TripleD (fx : Fix) {α : Type} (P : Reg → Prop) (p : Prog α) (Q : α → Reg → Prop) : Prop :=
  ∀ (r : Reg) (fs : FileSt), P r →
    match run fx .dry p r fs with
    | (.ok a, r', _) => Q a r'
    | (.error _, _, _) => True

theorem TripleD.bind {fx : Fix} {α β : Type} {P : Reg → Prop} {Q : α → Reg → Prop} {R : β → Reg → Prop}
    {p : Prog α} {k : α → Prog β} (hp : TripleD fx P p Q) (hk : ∀ a, TripleD fx (Q a) (k a) R) :
    TripleD fx P (p.bind k) R := by
  intro r fs hP
  rw [run_bind]
  have h := hp r fs hP
  revert h
  cases hrun : run fx .dry p r fs with
  | mk res rest =>
    cases rest with
    | mk r' fs' =>
      cases res with
      | ok a => intro h; exact hk a r' fs' h
      | error e => intro _; trivial

theorem TripleD.weaken {fx : Fix} {α : Type} {P P' : Reg → Prop} {Q Q' : α → Reg → Prop} {p : Prog α}
    (h : TripleD fx P p Q) (hpre : ∀ r, P' r → P r) (hpost : ∀ a r, Q a r → Q' a r) : TripleD fx P' p Q' := by
  intro r fs hP
  have := h r fs (hpre r hP)
  revert this
  cases run fx .dry p r fs with
  | mk res rest =>
    cases rest with
    | mk r' fs' =>
      cases res with
      | ok a => intro h; exact hpost a r' h
      | error e => intro _; trivial

theorem TripleD.pre {fx : Fix} {α : Type} {P P' : Reg → Prop} {Q : α → Reg → Prop} {p : Prog α}
    (hpre : ∀ r, P' r → P r) (h : TripleD fx P p Q) : TripleD fx P' p Q :=
  h.weaken hpre (fun _ _ h => h)

theorem TripleD.pure' {fx : Fix} {α : Type} {Q : α → Reg → Prop} (a : α) : TripleD fx (Q a) (Prog.pure a) Q := by
  intro r fs hP; exact hP

theorem TripleD.pure_bind {fx : Fix} {α β : Type} {P : Reg → Prop} {Q : β → Reg → Prop} {a : α} {k : α → Prog β}
    (h : TripleD fx P (k a) Q) : TripleD fx P (Prog.bind (Prog.pure a) k) Q := h

theorem TripleD.fail {fx : Fix} {α : Type} {P : Reg → Prop} {Q : α → Reg → Prop} (e : Err) : TripleD fx P (Prog.fail e) Q := by
  intro r fs _; trivial

theorem TripleD.of_pure {fx : Fix} {α : Type} {P : Reg → Prop} {Q : α → Reg → Prop} {p : Prog α} {φ : Prop}
    (h : φ → TripleD fx P p Q) : TripleD fx (fun r => P r ∧ φ) p Q := by
  intro r fs hP
  exact h hP.2 r fs hP.1

theorem TripleD.ite {fx : Fix} {α : Type} {P : Reg → Prop} {Q : α → Reg → Prop} {c : Prop} [Decidable c] {t e : Prog α}
    (ht : c → TripleD fx P t Q) (he : ¬c → TripleD fx P e Q) : TripleD fx P (if c then t else e) Q := by
  by_cases h : c
  · rw [if_pos h]; exact ht h
  · rw [if_neg h]; exact he h

theorem TripleD.get {fx : Fix} {α : Type} {P : Reg → Prop} {Q : α → Reg → Prop} {k : Reg → Prog α}
    (h : ∀ r0, TripleD fx (fun r => P r ∧ r = r0) (k r0) Q) : TripleD fx P (Prog.get k) Q := by
  intro r fs hP
  simp only [run]
  exact h r r fs ⟨hP, rfl⟩

theorem TripleD.mode {fx : Fix} {α : Type} {P : Reg → Prop} {Q : α → Reg → Prop} {k : Mode → Prog α}
    (h : TripleD fx P (k .dry) Q) : TripleD fx P (Prog.mode k) Q := by
  intro r fs hP
  simp only [run]
  exact h r fs hP

theorem TripleD.modAux {fx : Fix} {α : Type} {P P' : Reg → Prop} {Q : α → Reg → Prop} {g : Aux → Aux} {p : Prog α}
    (hg : ∀ r, P r → P' { r with aux := g r.aux }) (h : TripleD fx P' p Q) : TripleD fx P (Prog.modAux g p) Q := by
  intro r fs hP
  simp only [run]
  exact h _ fs (hg r hP)

/-- `_netcdf_name(base)` in the dry run of the proposed code: the name asked for, registered as it is. -/
theorem TripleD.alloc {fx : Fix} (hd : fx.dryNames = true) {α : Type} {P : Reg → Prop} {Q : α → Reg → Prop} {b : Name} {k : Name → Prog α}
    (h : ∀ r0, P r0 → TripleD fx (fun r => r = { r0 with nm := (keepName fx.blanks r0.nm b).2 }) (k (underscore b)) Q) :
    TripleD fx P (Prog.alloc b k) Q := by
  intro r fs hP
  have hm : (Mode.dry == Mode.dry && fx.dryNames) = true := by rw [hd]; rfl
  simp only [run, hm, ↓reduceIte]
  exact h r hP _ fs rfl

theorem TripleD.allocRole {fx : Fix} (hd : fx.dryNames = true) {α : Type} {P : Reg → Prop} {Q : α → Reg → Prop} {b : Name} {s : Nat}
    {role : String} {k : Name → Prog α}
    (h : ∀ r0, P r0 → TripleD fx (fun r => r = { r0 with nm := (netcdfNameRole fx.blanks r0.nm b s role true).2.2 })
      (k (netcdfNameRole fx.blanks r0.nm b s role true).1) Q) : TripleD fx P (Prog.allocRole b s role k) Q := by
  intro r fs hP
  have hm : (Mode.dry == Mode.dry && fx.dryNames) = true := by rw [hd]; rfl
  simp only [run, hm]
  exact h r hP _ fs rfl

theorem TripleD.noteDim {fx : Fix} {α : Type} {P P' : Reg → Prop} {Q : α → Reg → Prop} {n : Name} {s : Nat} {p : Prog α}
    (hg : ∀ r, P r → P' { r with nm := { r.nm with dimSize := r.nm.dimSize.filter (·.1 != n) ++ [(n, s)] } })
    (h : TripleD fx P' p Q) : TripleD fx P (Prog.noteDim n s p) Q := by
  intro r fs hP
  simp only [run]
  exact h _ fs (hg r hP)

/-- Every command on the dataset is skipped in a dry run. -/
theorem TripleD.createDim {fx : Fix} {α : Type} {P : Reg → Prop} {Q : α → Reg → Prop} {d : Dim} {p : Prog α}
    (h : TripleD fx P p Q) : TripleD fx P (Prog.createDim d p) Q := by
  intro r fs hP
  simp only [run, beq_self_eq_true, ↓reduceIte]
  exact h r fs hP

theorem TripleD.ensureDim {fx : Fix} {α : Type} {P : Reg → Prop} {Q : α → Reg → Prop} {d : Dim} {p : Prog α}
    (h : TripleD fx P p Q) : TripleD fx P (Prog.ensureDim d p) Q := by
  intro r fs hP
  simp only [run, beq_self_eq_true, Bool.true_or, ↓reduceIte]
  exact h r fs hP

theorem TripleD.createVar {fx : Fix} {α : Type} {P : Reg → Prop} {Q : α → Reg → Prop} {v : Var} {ext : List Nat} {p : Prog α}
    (h : TripleD fx P p Q) : TripleD fx P (Prog.createVar v ext p) Q := by
  intro r fs hP
  simp only [run, beq_self_eq_true, ↓reduceIte]
  exact h r fs hP

theorem TripleD.setAttr {fx : Fix} {α : Type} {P : Reg → Prop} {Q : α → Reg → Prop} {n : Name} {k v : String} {p : Prog α}
    (h : TripleD fx P p Q) : TripleD fx P (Prog.setAttr n k v p) Q := by
  intro r fs hP
  simp only [run, beq_self_eq_true, Bool.true_or, ↓reduceIte]
  exact h r fs hP

theorem TripleD.setGlobal {fx : Fix} {α : Type} {P : Reg → Prop} {Q : α → Reg → Prop} {k v : String} {p : Prog α}
    (h : TripleD fx P p Q) : TripleD fx P (Prog.setGlobal k v p) Q := by
  intro r fs hP
  have : (Mode.dry == Mode.real || Mode.dry == Mode.post && !fx.globalsGuarded) = false := by
    cases fx.globalsGuarded <;> rfl
  simp only [run, this, Bool.false_eq_true, ↓reduceIte]
  exact h r fs hP

/-- The invariant of the dry run: the tables agree with the dataset, and so do the axes of the field in hand. -/
structure DInv (E : Ds) (sz : Nat → Nat) (r : Reg) : Prop where
  agrees : RegAgrees E r
  safe : Safe E sz r

theorem DInv.fits_of_size {E : Ds} {sz : Nat → Nat} {r : Reg} (h : DInv E sz r) {d : Name} {s : Nat}
    (hs : r.nm.sizeOf? d = some s) : DimFits E d s :=
  h.agrees.1 (d, s) (sizeOf?_mem hs)

theorem DInv.frame {E : Ds} {sz : Nat → Nat} {r : Reg} (h : DInv E sz r) (g : Aux → Aux)
    (h1 : (g r.aux).seen = r.aux.seen) (h2 : (g r.aux).spans = r.aux.spans) (h3 : (g r.aux).localSpans = r.aux.localSpans)
    (h4 : (g r.aux).axisDim = r.aux.axisDim) : DInv E sz { r with aux := g r.aux } := by
  refine ⟨?_, ?_⟩
  · obtain ⟨a, b, c, d⟩ := h.agrees
    refine ⟨a, ?_, ?_, ?_⟩
    · simpa [h2] using b
    · simpa [h3] using c
    · simpa [h1] using d
  · show ∀ p ∈ (g r.aux).axisDim, DimFits E p.2 (sz p.1)
    rw [h4]; exact h.safe

theorem DInv.names {E : Ds} {sz : Nat → Nat} {r : Reg} (h : DInv E sz r) (nm' : NameReg) (hd : nm'.dimSize = r.nm.dimSize) :
    DInv E sz { r with nm := nm' } := by
  obtain ⟨a, b, c, d⟩ := h.agrees
  exact ⟨⟨by rw [hd]; exact a, b, c, d⟩, h.safe⟩

theorem DInv.noteDim {E : Ds} {sz : Nat → Nat} {r : Reg} (h : DInv E sz r) (d : Name) (n : Nat) (hf : DimFits E d n) :
    DInv E sz { r with nm := { r.nm with dimSize := r.nm.dimSize.filter (·.1 != d) ++ [(d, n)] } } := by
  refine ⟨?_, h.safe⟩
  obtain ⟨a, b, c, e⟩ := h.agrees
  refine ⟨?_, b, c, e⟩
  intro p hp
  rcases List.mem_append.mp hp with h1 | h1
  · exact a p (List.mem_filter.mp h1).1
  · simp at h1; subst h1; exact hf

theorem DInv.regSeen {E : Ds} {sz : Nat → Nat} {r : Reg} (h : DInv E sz r) (c : Cons) (ncvar : Name) (ds : Option (List Name))
    (hf : ∀ l, ds = some l → HeadFits E l c.shape) : DInv E sz { r with aux := regSeen c ncvar ds r.aux } := by
  refine ⟨?_, h.safe⟩
  obtain ⟨a, b, c', e⟩ := h.agrees
  refine ⟨a, b, c', ?_⟩
  intro x hx
  simp only [Cfdm.Append.regSeen] at hx
  rcases List.mem_append.mp hx with h1 | h1
  · exact e x h1
  · simp at h1; subst h1
    unfold SeenFits
    cases ds with
    | none => trivial
    | some l => exact hf l rfl

theorem DInv.setAxis {E : Ds} {sz : Nat → Nat} {r : Reg} (h : DInv E sz r) (axis : Nat) (d : Name) (hf : DimFits E d (sz axis)) :
    DInv E sz { r with aux := { r.aux with axisDim := r.aux.axisDim.filter (·.1 != axis) ++ [(axis, d)] } } := by
  refine ⟨h.agrees, ?_⟩
  intro p hp
  rcases List.mem_append.mp hp with h1 | h1
  · exact h.safe p (List.mem_filter.mp h1).1
  · simp at h1; subst h1; exact hf

theorem DInv.addLocalSpan {E : Ds} {sz : Nat → Nat} {r : Reg} (h : DInv E sz r) (d : Name) (n : Nat) (sp : List (Nat × Nat × Nat))
    (ul : List Name) (hf : DimFits E d n) :
    DInv E sz { r with aux := { r.aux with localSpans := r.aux.localSpans ++ [(d, n, sp)], unlimDims := ul } } := by
  refine ⟨?_, h.safe⟩
  obtain ⟨a, b, c, e⟩ := h.agrees
  refine ⟨a, b, ?_, e⟩
  intro x hx
  rcases List.mem_append.mp hx with h1 | h1
  · exact c x h1
  · simp at h1; subst h1; exact hf

theorem tripleD_modA {fx : Fix} {P : Reg → Prop} {Q : Unit → Reg → Prop} (g : Aux → Aux)
    (h : ∀ r, P r → Q () { r with aux := g r.aux }) : TripleD fx P (modA g) Q := by
  unfold modA
  exact TripleD.modAux (P' := Q ()) h (TripleD.pure' (Q := Q) ())

theorem tripleD_modA_frame {fx : Fix} {E : Ds} {sz : Nat → Nat} (g : Aux → Aux)
    (h1 : ∀ a, (g a).seen = a.seen) (h2 : ∀ a, (g a).spans = a.spans) (h3 : ∀ a, (g a).localSpans = a.localSpans)
    (h4 : ∀ a, (g a).axisDim = a.axisDim) :
    TripleD fx (DInv E sz) (modA g) (fun _ => DInv E sz) :=
  tripleD_modA g (fun _ hr => hr.frame g (h1 _) (h2 _) (h3 _) (h4 _))

macro "dframe" : tactic =>
  `(tactic| (refine TripleD.bind (tripleD_modA_frame _ ?_ ?_ ?_ ?_) ?_ <;> first | (intro _; rfl) | skip))

theorem tripleD_getNm {fx : Fix} {P : Reg → Prop} : TripleD fx P getNm (fun nm r => P r ∧ nm = r.nm) := by
  unfold getNm
  apply TripleD.get
  intro r0 r _ h
  exact ⟨h.1, by rw [h.2]⟩

theorem tripleD_getAux {fx : Fix} {P : Reg → Prop} : TripleD fx P getAux (fun a r => P r ∧ a = r.aux) := by
  unfold getAux
  apply TripleD.get
  intro r0 r fs h
  exact ⟨h.1, by rw [h.2]⟩

theorem tripleD_getMode {fx : Fix} {P : Reg → Prop} : TripleD fx P getMode (fun m r => P r ∧ m = .dry) := by
  unfold getMode
  apply TripleD.mode
  intro r fs h
  exact ⟨h, rfl⟩

theorem tripleD_failK {fx : Fix} {α : Type} {P : Reg → Prop} {Q : α → Reg → Prop} (s : String) :
    TripleD fx P (failK s : Prog α) Q := by
  unfold failK; exact TripleD.fail _

theorem keepName_dimSize (b : Bool) (nm : NameReg) (base : Name) : (keepName b nm base).2.dimSize = nm.dimSize := rfl

/-- In the dry run `_netcdf_name(b)` is `b` (blanks replaced). -/
theorem tripleD_allocN {fx : Fix} (hd : fx.dryNames = true) {E : Ds} {sz : Nat → Nat} (b : Name) :
    TripleD fx (DInv E sz) (allocN b) (fun n r => DInv E sz r ∧ n = underscore b) := by
  unfold allocN
  apply TripleD.alloc hd
  intro r0 h0 r fs hr
  subst hr
  exact ⟨h0.names _ (keepName_dimSize _ _ _), rfl⟩

theorem netcdfNameRole_keep_cases (bf : Bool) (nm : NameReg) (b : Name) (s : Nat) (role : String) :
    let out := netcdfNameRole bf nm b s role true
    (out.2.2 = nm ∧ nm.sizeOf? out.1 = some s) ∨
    (out.1 = underscore b ∧ out.2.2.dimSize = nm.dimSize) := by
  unfold netcdfNameRole
  cases hf : nm.roles.find? (fun x => x.1 == role && nm.sizeOf? x.2 == some s) with
  | some p =>
    left
    have := List.find?_some hf
    simp only [Bool.and_eq_true, beq_iff_eq] at this
    exact ⟨rfl, this.2⟩
  | none =>
    right
    exact ⟨rfl, rfl⟩

/-- A role dimension (bounds): an existing one of that size, or the name asked for — which must then fit. -/
theorem tripleD_allocRole {fx : Fix} (hd : fx.dryNames = true) {E : Ds} {sz : Nat → Nat} (b : Name) (s : Nat) (role : String)
    (hf : DimFits E (underscore b) s) :
    TripleD fx (DInv E sz) (Prog.allocRole b s role Prog.pure) (fun d r => DInv E sz r ∧ DimFits E d s) := by
  apply TripleD.allocRole hd
  intro r0 h0 r fs hr
  subst hr
  rcases netcdfNameRole_keep_cases fx.blanks r0.nm b s role with ⟨h1, h2⟩ | ⟨h1, h2⟩
  · exact ⟨h0.names _ (by rw [h1]), h0.fits_of_size h2⟩
  · exact ⟨h0.names _ h2, by rw [h1]; exact hf⟩

/-- `_write_netcdf_variable` in a dry run: the construct is registered, nothing else happens. -/
theorem tripleD_writeVar {fx : Fix} {E : Ds} {sz : Nat → Nat} (ncvar : Name) (ncdims : List Name) (c : Cons)
    (extra : List (String × String)) (om : List String) (regDims : Option (List Name))
    (hr : HeadFits E (regDims.getD ncdims) c.shape) :
    TripleD fx (DInv E sz) (writeVar ncvar ncdims c extra om regDims) (fun _ => DInv E sz) := by
  unfold writeVar
  apply TripleD.bind (Q := fun _ => DInv E sz)
  · exact tripleD_modA _ (fun r h => h.regSeen c ncvar _ (fun l hl => by cases hl; exact hr))
  intro _
  apply TripleD.bind tripleD_getMode
  intro m
  apply TripleD.of_pure
  intro hm
  subst hm
  simp only [beq_self_eq_true, ↓reduceIte]
  exact TripleD.pure' (Q := fun _ => DInv E sz) ()

theorem tripleD_writeDimension {fx : Fix} {E : Ds} {sz : Nat → Nat} (ncdim : Name) (axis size : Nat) (unlim : Bool)
    (hsz : sz axis = size) (hf : DimFits E ncdim size) :
    TripleD fx (DInv E sz) (writeDimension ncdim axis size unlim) (fun _ => DInv E sz) := by
  unfold writeDimension
  apply TripleD.bind (Q := fun _ => DInv E sz)
  · exact tripleD_modA _ (fun r h => h.setAxis axis ncdim (by rw [hsz]; exact hf))
  intro _
  apply TripleD.noteDim (P' := DInv E sz)
  · intro r h; exact h.noteDim ncdim size hf
  · exact TripleD.createDim (TripleD.pure' (Q := fun _ => DInv E sz) ())

theorem tripleD_setKeyVar {fx : Fix} {E : Ds} {sz : Nat → Nat} (key : Nat) (v : Option Name) :
    TripleD fx (DInv E sz) (setKeyVar key v) (fun _ => DInv E sz) := by
  unfold setKeyVar
  exact tripleD_modA_frame _ (fun _ => rfl) (fun _ => rfl) (fun _ => rfl) (fun _ => rfl)

theorem tripleD_writeBounds {fx : Fix} (hd : fx.dryNames = true) {E : Ds} {sz : Nat → Nat} (b : Option BReq) (coordDims : List Name)
    (coordVar : Name) (parent : Cons) (sh : List Nat) (hs : ShapeOK E coordDims sh) (hw : bWF b sh) (hfb : bFaithful E b) :
    TripleD fx (DInv E sz) (writeBounds b coordDims coordVar parent) (fun _ => DInv E sz) := by
  unfold writeBounds
  cases b with
  | none => exact (TripleD.pure' (Q := fun _ => DInv E sz) _)
  | some b =>
    simp only
    simp only [bWF] at hw
    simp only [bFaithful] at hfb
    apply TripleD.bind (tripleD_allocRole hd _ b.size _ hfb)
    intro bdim
    apply TripleD.of_pure
    intro hfit
    have hsh : ShapeOK E (coordDims ++ [bdim]) b.c.shape := by rw [hw]; exact hs.append (ShapeOK.single hfit)
    have tail : ∀ (ncvar : Name) (lbl : String), TripleD fx (DInv E sz)
        (do modA (fun a => { a with bounds := a.bounds.filter (·.1 != coordVar) ++ [(coordVar, ncvar)] }); pure [(lbl, ncvar)])
        (fun _ => DInv E sz) := by
      intro ncvar lbl
      dframe
      intro _
      exact TripleD.pure' (Q := fun _ => DInv E sz) _
    have body : ∀ (dflt : Name) (lbl : String), TripleD fx (DInv E sz)
        (do let ncvar ← allocN (b.varPinned.getD dflt)
            writeVar ncvar (coordDims ++ [bdim]) b.c [] (omitBoundsProps parent)
            let ncvar ← pure ncvar
            modA (fun a => { a with bounds := a.bounds.filter (·.1 != coordVar) ++ [(coordVar, ncvar)] })
            pure [(lbl, ncvar)])
        (fun _ => DInv E sz) := by
      intro dflt lbl
      apply TripleD.bind ((tripleD_allocN hd _).weaken (fun _ h => h) (fun _ _ h => h.1))
      intro ncvar
      apply TripleD.bind (tripleD_writeVar ncvar _ b.c _ _ none hsh.headFits)
      intro _
      exact tail ncvar lbl
    apply TripleD.bind tripleD_getAux
    intro a
    split
    · exact (tail _ _).weaken (fun r h => h.1) (fun _ _ h => h)
    · apply TripleD.bind tripleD_getNm
      intro nm
      split
      · exact (body _ _).weaken (fun r h => h.1.1) (fun _ _ h => h)
      · apply TripleD.bind (Q := fun _ => DInv E sz)
        · apply TripleD.noteDim (P' := DInv E sz)
          · intro r h; exact h.1.1.noteDim bdim b.size hfit
          · exact TripleD.createDim (TripleD.pure' (Q := fun _ => DInv E sz) ())
        · intro _
          exact body _ _


theorem preD_shape {E : Ds} {sz : Nat → Nat} {a : Aux} {axes : List Nat} {ncdims : List Name}
    (heq : axisDims a axes = some ncdims) (r : Reg) (h : DInv E sz r ∧ a = r.aux) :
    DInv E sz r ∧ ShapeOK E ncdims (axes.map sz) := by
  obtain ⟨h, rfl⟩ := h
  exact ⟨h, shapeOK_of_axisDims h.safe axes ncdims heq⟩

theorem tripleD_axisDim {fx : Fix} (hd : fx.dryNames = true) (hp : fx.pinnedSize = true) {E : Ds} {sz : Nat → Nat}
    (axis size : Nat) (unlim : Bool) (base : Name) (spanning : List (Nat × Nat × Nat)) (pinned : Bool)
    (hw : (Req.axisDim axis size unlim base spanning pinned).wf sz) (hf : (Req.axisDim axis size unlim base spanning pinned).faithful E) :
    TripleD fx (DInv E sz) (emitReq fx (.axisDim axis size unlim base spanning pinned)) (fun _ => DInv E sz) := by
  simp only [emitReq]
  simp only [Req.wf] at hw
  simp only [Req.faithful] at hf
  apply TripleD.bind tripleD_getAux
  intro a
  split
  · rename_i d s1 cs1 heq
    have hm := List.mem_of_find?_eq_some heq
    have hc := List.find?_some heq
    simp only [Bool.and_eq_true, beq_iff_eq] at hc
    apply tripleD_modA
    intro r h
    obtain ⟨h, rfl⟩ := h
    apply h.setAxis axis d
    rw [hw, ← hc.1.1]
    exact h.agrees.2.1 _ hm
  · apply TripleD.bind tripleD_getNm
    intro nm
    simp only [hp, ↓reduceIte]
    split
    · rename_i hc
      simp only [Bool.and_eq_true, beq_iff_eq] at hc
      apply tripleD_modA
      intro r h
      obtain ⟨⟨h, rfl⟩, rfl⟩ := h
      apply h.setAxis axis base
      rw [hw]
      exact h.fits_of_size hc.1.1.1.2
    · apply TripleD.bind ((tripleD_allocN hd _).pre (fun _ h => h.1.1))
      intro ncdim
      apply TripleD.of_pure
      intro hn
      subst hn
      apply TripleD.bind (tripleD_writeDimension _ axis size unlim hw hf)
      intro _
      apply tripleD_modA
      intro r h
      exact h.addLocalSpan _ size spanning _ hf

theorem tripleD_dimCoord {fx : Fix} (hd : fx.dryNames = true) (hdc : fx.dimCoordName = true) {E : Ds} {sz : Nat → Nat}
    (key axis : Nat) (c : Cons) (base ncdim : Option Name) (size : Nat) (unlim : Bool) (b : Option BReq)
    (hw : (Req.dimCoord key axis c base ncdim size unlim b).wf sz) (hf : (Req.dimCoord key axis c base ncdim size unlim b).faithful E) :
    TripleD fx (DInv E sz) (emitReq fx (.dimCoord key axis c base ncdim size unlim b)) (fun _ => DInv E sz) := by
  simp only [emitReq]
  simp only [Req.wf] at hw
  simp only [Req.faithful] at hf
  obtain ⟨hshape, hsz, hbw⟩ := hw
  obtain ⟨hfd, hfb⟩ := hf
  have body : ∀ ncvar : Name, DimFits E ncvar size → TripleD fx (DInv E sz)
      (do writeDimension ncvar axis size unlim
          let extra ← writeBounds b [ncvar] ncvar c
          writeVar ncvar [ncvar] c extra
          setKeyVar key (some ncvar)) (fun _ => DInv E sz) := by
    intro ncvar hfit
    apply TripleD.bind (tripleD_writeDimension ncvar axis size unlim hsz hfit)
    intro _
    have hs : ShapeOK E [ncvar] [size] := ShapeOK.single hfit
    apply TripleD.bind (tripleD_writeBounds hd b [ncvar] ncvar c [size] hs hbw hfb)
    intro extra
    apply TripleD.bind (tripleD_writeVar ncvar [ncvar] c extra [] none (by rw [hshape]; exact hs.headFits))
    intro _
    exact tripleD_setKeyVar key _
  have named : ∀ nmv : Name, DimFits E (underscore nmv) size → TripleD fx (DInv E sz)
      (do let ncvar ← allocN nmv
          writeDimension ncvar axis size unlim
          let extra ← writeBounds b [ncvar] ncvar c
          writeVar ncvar [ncvar] c extra
          setKeyVar key (some ncvar)) (fun _ => DInv E sz) := by
    intro nmv hfit
    apply TripleD.bind (tripleD_allocN hd _)
    intro ncvar
    apply TripleD.of_pure
    intro hn
    subst hn
    exact body _ hfit
  apply TripleD.bind tripleD_getAux
  intro a
  apply TripleD.ite
  · intro _
    apply TripleD.pre (P := DInv E sz) (fun r h => h.1)
    split
    · exact named _ hfd
    · split
      · simp only [hdc, ↓reduceIte]
        exact named _ (by simpa using hfd)
      · exact named _ (by simpa using hfd)
  · intro _
    split
    · rename_i e heq
      obtain ⟨hm, hsh, _⟩ := alreadyInFile_spec heq
      apply TripleD.pre (P := fun r => DInv E sz r ∧ SeenFits E e)
      · intro r h
        obtain ⟨h, rfl⟩ := h
        exact ⟨h, h.agrees.2.2.2 e hm⟩
      apply TripleD.of_pure
      intro hfit
      apply TripleD.bind (tripleD_setKeyVar key _)
      intro _
      split
      · rename_i d tl hnd
        apply tripleD_modA
        intro r h
        apply h.setAxis axis d
        unfold SeenFits at hfit
        rw [hnd, hsh, hshape] at hfit
        rw [hsz]
        exact hfit
      · exact tripleD_failK _
    · exact (TripleD.pure' (Q := fun _ => DInv E sz) ()).pre (fun r h => h.1)


theorem tripleD_scalarCoord {fx : Fix} (hd : fx.dryNames = true) {E : Ds} {sz : Nat → Nat}
    (key axis : Nat) (c : Cons) (base : Name) (b : Option BReq)
    (hw : (Req.scalarCoord key axis c base b).wf sz) (hf : (Req.scalarCoord key axis c base b).faithful E) :
    TripleD fx (DInv E sz) (emitReq fx (.scalarCoord key axis c base b)) (fun _ => DInv E sz) := by
  simp only [emitReq]
  simp only [Req.wf] at hw
  simp only [Req.faithful] at hf
  obtain ⟨hshape, hbw⟩ := hw
  have tail : ∀ ncvar : Name, TripleD fx (DInv E sz)
      (do modA (fun a => { a with axisScalar := a.axisScalar.filter (·.1 != axis) ++ [(axis, ncvar)], coords := a.coords ++ [ncvar] })
          setKeyVar key (some ncvar)) (fun _ => DInv E sz) := by
    intro ncvar
    dframe
    intro _
    exact tripleD_setKeyVar key _
  have hs : ShapeOK E [] ([] : List Nat) := by simp [ShapeOK]
  apply TripleD.bind tripleD_getAux
  intro a
  apply TripleD.pre (P := DInv E sz) (fun r h => h.1)
  split
  · exact tail _
  · apply TripleD.bind ((tripleD_allocN hd _).weaken (fun _ h => h) (fun _ _ h => h.1))
    intro ncvar
    apply TripleD.bind (tripleD_writeBounds hd b [] ncvar c [] hs hbw hf)
    intro extra
    apply TripleD.bind (tripleD_writeVar ncvar [] c extra [] none (by rw [hshape]; exact hs.headFits))
    intro _
    exact tail ncvar

theorem tripleD_aux {fx : Fix} (hd : fx.dryNames = true) {E : Ds} {sz : Nat → Nat}
    (key : Nat) (c : Cons) (axes : List Nat) (base : Name) (b : Option BReq)
    (hw : (Req.aux key c axes base b).wf sz) (hf : (Req.aux key c axes base b).faithful E) :
    TripleD fx (DInv E sz) (emitReq fx (.aux key c axes base b)) (fun _ => DInv E sz) := by
  simp only [emitReq]
  simp only [Req.wf] at hw
  simp only [Req.faithful] at hf
  obtain ⟨hshape, hbw⟩ := hw
  have tail : ∀ ncvar : Name, TripleD fx (DInv E sz)
      (do setKeyVar key (some ncvar)
          modA (fun a => { a with coords := a.coords ++ [ncvar] })) (fun _ => DInv E sz) := by
    intro ncvar
    apply TripleD.bind (tripleD_setKeyVar key _)
    intro _
    exact tripleD_modA_frame _ (fun _ => rfl) (fun _ => rfl) (fun _ => rfl) (fun _ => rfl)
  apply TripleD.bind tripleD_getAux
  intro a
  split
  · exact tripleD_failK _
  · rename_i ncdims heq
    apply TripleD.pre (preD_shape heq)
    apply TripleD.of_pure
    intro hs
    split
    · exact tail _
    · apply TripleD.bind ((tripleD_allocN hd _).weaken (fun _ h => h) (fun _ _ h => h.1))
      intro ncvar
      apply TripleD.bind (tripleD_writeBounds hd b ncdims ncvar c _ hs hbw hf)
      intro extra
      apply TripleD.bind (tripleD_writeVar ncvar ncdims c extra [] none (by rw [hshape]; exact hs.headFits))
      intro _
      exact tail ncvar

theorem tripleD_domAnc {fx : Fix} (hd : fx.dryNames = true) {E : Ds} {sz : Nat → Nat}
    (key : Nat) (c : Cons) (axes : List Nat) (base : Name) (b : Option BReq)
    (hw : (Req.domAnc key c axes base b).wf sz) (hf : (Req.domAnc key c axes base b).faithful E) :
    TripleD fx (DInv E sz) (emitReq fx (.domAnc key c axes base b)) (fun _ => DInv E sz) := by
  simp only [emitReq]
  simp only [Req.wf] at hw
  simp only [Req.faithful] at hf
  obtain ⟨hshape, hbw⟩ := hw
  apply TripleD.bind tripleD_getAux
  intro a
  split
  · exact tripleD_failK _
  · rename_i ncdims heq
    apply TripleD.pre (preD_shape heq)
    apply TripleD.of_pure
    intro hs
    split
    · exact tripleD_setKeyVar key _
    · apply TripleD.bind ((tripleD_allocN hd _).weaken (fun _ h => h) (fun _ _ h => h.1))
      intro ncvar
      apply TripleD.bind (tripleD_writeBounds hd b ncdims ncvar c _ hs hbw hf)
      intro extra
      apply TripleD.bind (tripleD_writeVar ncvar ncdims c [] [] none (by rw [hshape]; exact hs.headFits))
      intro _
      exact tripleD_setKeyVar key _

theorem tripleD_fieldAnc {fx : Fix} (hd : fx.dryNames = true) {E : Ds} {sz : Nat → Nat}
    (key : Nat) (c : Cons) (axes : List Nat) (base : Name) (hw : (Req.fieldAnc key c axes base).wf sz) :
    TripleD fx (DInv E sz) (emitReq fx (.fieldAnc key c axes base)) (fun _ => DInv E sz) := by
  simp only [emitReq]
  simp only [Req.wf] at hw
  apply TripleD.bind tripleD_getAux
  intro a
  split
  · exact tripleD_failK _
  · rename_i ncdims heq
    apply TripleD.pre (preD_shape heq)
    apply TripleD.of_pure
    intro hs
    split
    · exact tripleD_setKeyVar key _
    · apply TripleD.bind ((tripleD_allocN hd _).weaken (fun _ h => h) (fun _ _ h => h.1))
      intro ncvar
      apply TripleD.bind (tripleD_writeVar ncvar ncdims c [] [] none (by rw [hw]; exact hs.headFits))
      intro _
      exact tripleD_setKeyVar key _

theorem tripleD_gridMap {fx : Fix} (hd : fx.dryNames = true) {E : Ds} {sz : Nat → Nat}
    (c : Cons) (base : Name) (cks : List Nat) (multiple : Bool) :
    TripleD fx (DInv E sz) (emitReq fx (.gridMap c base cks multiple)) (fun _ => DInv E sz) := by
  simp only [emitReq]
  apply TripleD.bind tripleD_getAux
  intro a
  apply TripleD.pre (P := DInv E sz) (fun r h => h.1)
  split
  · exact TripleD.pure' (Q := fun _ => DInv E sz) ()
  · apply TripleD.bind ((tripleD_allocN hd _).weaken (fun _ h => h) (fun _ _ h => h.1))
    intro ncvar
    apply TripleD.createVar
    apply tripleD_modA
    intro r h
    exact h.regSeen c ncvar _ (fun l hl => by cases hl; simp [HeadFits])

theorem tripleD_msr {fx : Fix} (hd : fx.dryNames = true) {E : Ds} {sz : Nat → Nat}
    (key : Nat) (c : Cons) (axes : List Nat) (base : Name) (meas : String) (ext : Option Name)
    (hw : (Req.msr key c axes base meas ext).wf sz) :
    TripleD fx (DInv E sz) (emitReq fx (.msr key c axes base meas ext)) (fun _ => DInv E sz) := by
  simp only [emitReq]
  simp only [Req.wf] at hw
  apply TripleD.bind tripleD_getAux
  intro a
  split
  · exact tripleD_failK _
  · rename_i ncdims heq
    apply TripleD.pre (preD_shape heq)
    apply TripleD.of_pure
    intro hs
    split
    · exact tripleD_setKeyVar key _
    · split
      · rename_i ncvar
        apply TripleD.bind (Q := fun _ => DInv E sz)
        · apply TripleD.ite
          · intro _; exact tripleD_modA_frame _ (fun _ => rfl) (fun _ => rfl) (fun _ => rfl) (fun _ => rfl)
          · intro _; exact TripleD.pure' (Q := fun _ => DInv E sz) ()
        intro _
        apply TripleD.bind (Q := fun _ => DInv E sz)
        · apply TripleD.ite
          · intro _; exact TripleD.pure' (Q := fun _ => DInv E sz) ()
          · intro _
            dframe
            intro _
            exact TripleD.setGlobal (TripleD.pure' (Q := fun _ => DInv E sz) ())
        intro _
        exact tripleD_setKeyVar key _
      · have hsh : c.shape = axes.map sz := by
          rcases hw with h | h
          · simp at h
          · exact h
        apply TripleD.bind ((tripleD_allocN hd _).weaken (fun _ h => h) (fun _ _ h => h.1))
        intro ncvar
        apply TripleD.bind (tripleD_writeVar ncvar ncdims c [] [] none (by rw [hsh]; exact hs.headFits))
        intro _
        exact tripleD_setKeyVar key _

theorem tripleD_writeScalars {fx : Fix} (hd : fx.dryNames = true) {E : Ds} {sz : Nat → Nat} :
    ∀ (params : List (String × Cons)), TripleD fx (DInv E sz) (writeScalars params) (fun _ => DInv E sz) := by
  intro params
  induction params with
  | nil => simp only [writeScalars]; exact TripleD.pure' (Q := fun _ => DInv E sz) _
  | cons p rest ih =>
    obtain ⟨t, c⟩ := p
    have tail : ∀ ncvar : Name, TripleD fx (DInv E sz)
        (do let more ← writeScalars rest; pure (s!"{t}: {ncvar}" :: more)) (fun _ => DInv E sz) := by
      intro ncvar
      apply TripleD.bind ih
      intro more
      exact TripleD.pure' (Q := fun _ => DInv E sz) _
    simp only [writeScalars]
    apply TripleD.bind tripleD_getAux
    intro a
    apply TripleD.pre (P := DInv E sz) (fun r h => h.1)
    split
    · exact tail _
    · apply TripleD.bind ((tripleD_allocN hd _).weaken (fun _ h => h) (fun _ _ h => h.1))
      intro ncvar
      apply TripleD.bind (tripleD_writeVar ncvar [] c [] [] none (by simp [HeadFits]))
      intro _
      exact tail ncvar

theorem tripleD_formula {fx : Fix} (hd : fx.dryNames = true) {E : Ds} {sz : Nat → Nat} (owner zaxis : Nat)
    (terms : List (String × Nat × List Nat)) (params : List (String × Cons)) :
    TripleD fx (DInv E sz) (emitReq fx (.formula owner zaxis terms params)) (fun _ => DInv E sz) := by
  simp only [emitReq]
  apply TripleD.bind (tripleD_writeScalars hd params)
  intro pft
  apply TripleD.bind tripleD_getAux
  intro a
  apply TripleD.pre (P := DInv E sz) (fun r h => h.1)
  apply TripleD.ite
  · intro _; exact TripleD.pure' (Q := fun _ => DInv E sz) ()
  · intro _
    split
    · apply TripleD.bind tripleD_getMode
      intro m
      apply TripleD.pre (P := DInv E sz) (fun r h => h.1)
      apply TripleD.bind (Q := fun _ => DInv E sz)
      · apply TripleD.ite
        · intro _; exact TripleD.pure' (Q := fun _ => DInv E sz) ()
        · intro _; exact TripleD.setAttr (TripleD.pure' (Q := fun _ => DInv E sz) ())
      intro _
      split
      · apply TripleD.ite
        · intro _; exact TripleD.pure' (Q := fun _ => DInv E sz) ()
        · intro _; exact TripleD.setAttr (TripleD.pure' (Q := fun _ => DInv E sz) ())
      · exact TripleD.pure' (Q := fun _ => DInv E sz) ()
    · exact tripleD_failK _

theorem tripleD_emitData {fx : Fix} (hd : fx.dryNames = true) {E : Ds} {sz : Nat → Nat} (reqs : List Req) (q : Req) (hw : q.wf sz) :
    TripleD fx (DInv E sz) (emitData reqs q) (fun _ => DInv E sz) := by
  cases q with
  | data c base axes cms isDomain =>
    simp only [emitData]
    simp only [Req.wf] at hw
    apply TripleD.bind tripleD_getAux
    intro a
    split
    · exact tripleD_failK _
    · rename_i ncdims heq
      apply TripleD.pre (preD_shape heq)
      apply TripleD.of_pure
      intro hs
      apply TripleD.bind ((tripleD_allocN hd _).weaken (fun _ h => h) (fun _ _ h => h.1))
      intro ncvar
      apply TripleD.bind tripleD_getAux
      intro a2
      apply TripleD.pre (P := DInv E sz) (fun r h => h.1)
      have hsh : ShapeOK E (if isDomain = true then [] else ncdims) c.shape := by
        cases isDomain with
        | true => simp at hw; simp [hw, ShapeOK]
        | false => simp at hw; simp only [Bool.false_eq_true, ↓reduceIte, hw]; exact hs
      exact tripleD_writeVar ncvar _ c _ _ _ hsh.headFits
  | _ => simp only [emitData]; exact TripleD.pure' (Q := fun _ => DInv E sz) ()

theorem tripleD_emitReq {fx : Fix} (hd : fx.dryNames = true) (hdc : fx.dimCoordName = true) (hp : fx.pinnedSize = true)
    {E : Ds} {sz : Nat → Nat} (q : Req) (hw : q.wf sz) (hf : q.faithful E) :
    TripleD fx (DInv E sz) (emitReq fx q) (fun _ => DInv E sz) := by
  cases q with
  | dimCoord key axis c base ncdim size unlim b => exact tripleD_dimCoord hd hdc key axis c base ncdim size unlim b hw hf
  | axisDim axis size unlim base spanning pinned => exact tripleD_axisDim hd hp axis size unlim base spanning pinned hw hf
  | scalarCoord key axis c base b => exact tripleD_scalarCoord hd key axis c base b hw hf
  | aux key c axes base b => exact tripleD_aux hd key c axes base b hw hf
  | domAnc key c axes base b => exact tripleD_domAnc hd key c axes base b hw hf
  | msr key c axes base meas ext => exact tripleD_msr hd key c axes base meas ext hw
  | formula owner zaxis terms params => exact tripleD_formula hd owner zaxis terms params
  | gridMap c base cks multiple => exact tripleD_gridMap hd c base cks multiple
  | fieldAnc key c axes base => exact tripleD_fieldAnc hd key c axes base hw
  | data c base axes cms isDomain => simp only [emitReq]; exact TripleD.pure' (Q := fun _ => DInv E sz) ()

theorem tripleD_forM {fx : Fix} {β : Type} (I : Reg → Prop) (f : β → Prog Unit) :
    ∀ (l : List β), (∀ x ∈ l, TripleD fx I (f x) (fun _ => I)) → TripleD fx I (l.forM f) (fun _ => I) := by
  intro l
  induction l with
  | nil => intro _; exact TripleD.pure' (Q := fun _ => I) ()
  | cons a t ih =>
    intro h
    show TripleD fx I ((f a).bind (fun _ => t.forM f)) (fun _ => I)
    apply TripleD.bind (h a (by simp))
    intro _
    exact ih (fun x hx => h x (List.mem_cons_of_mem _ hx))

theorem tripleD_emitField {fx : Fix} (hd : fx.dryNames = true) (hdc : fx.dimCoordName = true) (hp : fx.pinnedSize = true)
    {E : Ds} (f : FieldReq) (hw : f.wf) (hf : f.faithful E) : TripleD fx (RegAgrees E) (emitField fx f) (fun _ => RegAgrees E) := by
  unfold emitField
  apply TripleD.bind (Q := fun _ => DInv E f.sz)
  · apply tripleD_modA
    intro r h
    refine ⟨?_, ?_⟩
    · obtain ⟨a, b, c, d⟩ := h
      exact ⟨a, b, by intro x hx; simp [resetField] at hx, d⟩
    · intro p hp'; simp [resetField] at hp'
  intro _
  apply TripleD.bind (tripleD_forM (DInv E f.sz) _ f.reqs (fun q hq => tripleD_emitReq hd hdc hp q (hw q hq) (hf q hq)))
  intro _
  apply TripleD.bind (tripleD_forM (DInv E f.sz) _ f.reqs (fun q hq => tripleD_emitData hd f.reqs q (hw q hq)))
  intro _
  apply tripleD_modA
  intro r h
  obtain ⟨a, b, c, d⟩ := h.agrees
  refine ⟨a, ?_, c, d⟩
  intro x hx
  rcases List.mem_append.mp hx with h1 | h1
  · exact b x h1
  · exact c x h1

theorem tripleD_emitAll {fx : Fix} (hd : fx.dryNames = true) (hdc : fx.dimCoordName = true) (hp : fx.pinnedSize = true)
    {E : Ds} (fileG : List (String × String)) (fs : List FieldReq) (hw : ∀ f ∈ fs, f.wf) (hf : ∀ f ∈ fs, f.faithful E) :
    TripleD fx (RegAgrees E) (emitAll fx fileG fs) (fun _ => RegAgrees E) := by
  unfold emitAll
  apply TripleD.bind tripleD_getMode
  intro m
  apply TripleD.of_pure
  intro hm
  subst hm
  simp only [show (Mode.dry != Mode.dry) = false from by decide, Bool.false_eq_true, ↓reduceIte]
  exact tripleD_forM (RegAgrees E) _ fs (fun f hf' => tripleD_emitField hd hdc hp f (hw f hf') (hf f hf'))

/-- With the proposed repair of the dry run, fields read back that report the dataset's dimension lengths
give tables that agree with the dataset. -/
theorem dryReg_agrees (fx : Fix) (hd : fx.dryNames = true) (hdc : fx.dimCoordName = true) (hp : fx.pinnedSize = true)
    (E : Ds) (rb : List FieldReq) (hw : ∀ f ∈ rb, f.wf) (hf : ∀ f ∈ rb, f.faithful E) :
    (run fx .dry (emitAll fx [] rb) {} ⟨E, []⟩).1 = .ok () → RegAgrees E (dryReg fx E rb) := by
  intro hok
  have h := tripleD_emitAll hd hdc hp (E := E) [] rb hw hf {} ⟨E, []⟩ (by
    refine ⟨by intro p hp'; simp at hp', by intro p hp'; simp at hp', by intro p hp'; simp at hp', by intro p hp'; simp at hp'⟩)
  unfold dryReg
  revert h hok
  cases run fx .dry (emitAll fx [] rb) {} ⟨E, []⟩ with
  | mk res rest =>
    cases rest with
    | mk r' fs' =>
      cases res with
      | ok a => intro _ h; exact h
      | error e => intro hok; cases hok


/-- One append with the writer of /repo HEAD plus the two proposed repairs, from what the *reader* reports:
every outcome preserves the dataset, lengths of the unlimited dimensions included. -/
theorem appendFull_extends_faithful (fx : Fix) (hg : fx.globalsGuarded = true) (hn : fx.names = true) (hb : fx.blanks = true)
    (hp : fx.pinnedSize = true) (hd : fx.dryNames = true) (hdc : fx.dimCoordName = true)
    (nc4 : Bool) (E : Ds) (rb S : List FieldReq) (hw : ∀ f ∈ S, f.wf) (hwr : ∀ f ∈ rb, f.wf) (hfr : ∀ f ∈ rb, f.faithful E) :
    Extends E (appendFull fx nc4 E rb S).2.1 := by
  cases hdry : (run fx .dry (emitAll fx [] rb) {} ⟨E, []⟩).1 with
  | ok u =>
    exact appendFull_extends fx hg hn hb hp nc4 E rb S hw (dryReg_agrees fx hd hdc hp E rb hwr hfr (by rw [hdry]))
  | error e =>
    unfold appendFull
    split
    · exact Extends.refl E
    · split
      · exact Extends.refl E
      · rename_i heq
        rw [heq] at hdry
        cases hdry

end Cfdm.Append
