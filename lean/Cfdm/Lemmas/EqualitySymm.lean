import Cfdm.Lemmas.EqualitySpec
/-
Helper lemmas for C05: symmetry (and the remaining reflexivity statements) of the modelled
`equals` of every class other than the metadata constructs with data — `Data`, `Bounds` /
`InteriorRing` / … (`PropertiesData`), `CellMethod`, `CoordinateReference`, `Datum` /
`CoordinateConversion` parameters, `DomainAxis` — obtained from the declarative relations.
-/
namespace Cfdm.Equality
open Cfdm.Equality.Spec

/-- A decision procedure of a symmetric relation is symmetric. -/
theorem bool_symm_of_iff {α} {f : α → α → Bool} {R : α → α → Prop} (x y : α)
    (hxy : f x y = true ↔ R x y) (hyx : f y x = true ↔ R y x) (hs : ∀ a b, R a b → R b a) :
    f x y = f y x := by
  cases h1 : f x y <;> cases h2 : f y x <;> try rfl
  · have := hxy.mpr (hs _ _ (hyx.mp h2)); rw [h1] at this; exact absurd this (by simp)
  · have := hyx.mpr (hs _ _ (hxy.mp h1)); rw [h2] at this; exact absurd this (by simp)

theorem dataEquals_symm {close} (hc : CloseSymm close) (idt ifv ic : Bool) (x y : Data) :
    dataEquals close idt ifv ic x y = dataEquals close idt ifv ic y x :=
  bool_symm_of_iff (R := DataEq close idt ifv ic) x y (dataEquals_iff _ _ _ _ x y) (dataEquals_iff _ _ _ _ y x)
    (DataEq.symm hc idt ifv ic)

namespace Spec

theorem CellMethodEq.symm {close} (hc : CloseSymm close) (x y : CellMethod) (h : CellMethodEq close x y) :
    CellMethodEq close y x := by
  obtain ⟨h1, h2, h3, h4⟩ := h
  refine ⟨h1.symm, DictEq.symm (fun a b (e : a = b) => e.symm) _ _ h2, h3.symm, ?_⟩
  intro i h0 h1'
  exact DataEq.symm hc _ _ _ _ _ (h4 i h1' h0)

theorem CellMethodEq.refl {close} (hc : CloseRefl close) (x : CellMethod) : CellMethodEq close x x :=
  ⟨rfl, DictEq.refl (fun _ => rfl) _, rfl, fun _ _ _ => DataEq.refl hc _ _ _ _⟩

theorem ParamEq.symm {close} (hc : CloseSymm close) (a b : Option Arr) (h : ParamEq close a b) : ParamEq close b a :=
  OptRel.symm' (ArrEq.symm hc true) _ _ h

theorem ParamEq.refl {close} (hc : CloseRefl close) (a : Option Arr) : ParamEq close a a :=
  OptRel.refl' (ArrEq.refl hc true) _

theorem CoordRefEq.symm {close} (hc : CloseSymm close) (x y : CoordRef) (h : CoordRefEq close x y) :
    CoordRefEq close y x := by
  obtain ⟨h1, h2, h3, h4⟩ := h
  exact ⟨h1.symm, DictEq.symm (ParamEq.symm hc) _ _ h2,
    DictEq.symm (fun (a b : Option Nat) (e : a.isSome = b.isSome) => e.symm) _ _ h3,
    DictEq.symm (ParamEq.symm hc) _ _ h4⟩

end Spec

theorem cellMethodCore_symm {close} (hc : CloseSymm close) (x y : CellMethod) (hx : CellMethodWF x)
    (hy : CellMethodWF y) : cellMethodCore close x y = cellMethodCore close y x :=
  bool_symm_of_iff (R := CellMethodEq close) x y (cellMethodCore_iff close x y hx) (cellMethodCore_iff close y x hy)
    (CellMethodEq.symm hc)

theorem coordRefCore_symm {close} (hc : CloseSymm close) (x y : CoordRef) (hx : CoordRefWF x)
    (hy : CoordRefWF y) : coordRefCore close x y = coordRefCore close y x :=
  bool_symm_of_iff (R := CoordRefEq close) x y (coordRefCore_iff close x y hx) (coordRefCore_iff close y x hy)
    (CoordRefEq.symm hc)

theorem paramsEquals_iff (close : Int → Int → Bool) (p q : Params) (hp : KeysNodup p) :
    paramsEquals close p q = true ↔ DictEq (ParamEq close) p q :=
  dictEq_iff (paramEq close) (ParamEq close) (paramEq_iff close) p q hp

theorem paramsEquals_symm {close} (hc : CloseSymm close) (p q : Params) (hp : KeysNodup p) (hq : KeysNodup q) :
    paramsEquals close p q = paramsEquals close q p :=
  bool_symm_of_iff (R := DictEq (ParamEq close)) p q (paramsEquals_iff close p q hp) (paramsEquals_iff close q p hq)
    (fun a b h => DictEq.symm (ParamEq.symm hc) a b h)

theorem paramsEquals_refl {close} (hc : CloseRefl close) (p : Params) (hp : KeysNodup p) :
    paramsEquals close p p = true :=
  (paramsEquals_iff close p p hp).mpr (DictEq.refl (ParamEq.refl hc) p)

/-- `PropertiesData.equals` of a component object (`Bounds`, `InteriorRing`, …) with the caller's
`ignore_properties`. -/
def SubObjEq (o : Opts) (x y : Sub) : Prop :=
  PropsEq o.close (ignoredNames o.ignoreFillValue o.ignoreProps) x.props y.props
  ∧ OptRel (DataEq o.close o.ignoreDataType o.ignoreFillValue o.ignoreCompression) x.data y.data

theorem subObjCore_iff (o : Opts) (x y : Sub) (hx : SubWF x) :
    (propsEquals o.close (ignoredNames o.ignoreFillValue o.ignoreProps) x.props y.props
       && optDataEquals o.close o.ignoreDataType o.ignoreFillValue o.ignoreCompression x.data y.data) = true
    ↔ SubObjEq o x y := by
  simp only [SubObjEq, Bool.and_eq_true, optDataEquals_iff, propsEquals_iff _ _ _ _ hx]

theorem SubObjEq.symm {o : Opts} (hc : CloseSymm o.close) (x y : Sub) (h : SubObjEq o x y) : SubObjEq o y x :=
  ⟨PropsEq.symm hc _ _ _ h.1, OptRel.symm' (DataEq.symm hc _ _ _) _ _ h.2⟩

theorem SubObjEq.refl {o : Opts} (hc : CloseRefl o.close) (x : Sub) : SubObjEq o x x :=
  ⟨PropsEq.refl hc _ _, OptRel.refl' (DataEq.refl hc _ _ _) _⟩

theorem subObjEquals_symm (o : Opts) (hc : CloseSymm o.close) (x y : Sub) (hx : SubWF x) (hy : SubWF y) :
    subObjEquals o x y = subObjEquals o y x := by
  unfold subObjEquals
  congr 1
  exact bool_symm_of_iff (R := SubObjEq o)
    (f := fun x y => propsEquals o.close (ignoredNames o.ignoreFillValue o.ignoreProps) x.props y.props
       && optDataEquals o.close o.ignoreDataType o.ignoreFillValue o.ignoreCompression x.data y.data)
    x y (subObjCore_iff o x y hx) (subObjCore_iff o y x hy) (SubObjEq.symm hc)

theorem subObjEquals_refl (o : Opts) (hc : CloseRefl o.close) (x : Sub) (hx : SubWF x) :
    subObjEquals o x x = .ok true := by
  unfold subObjEquals
  rw [(subObjCore_iff o x x hx).mpr (SubObjEq.refl hc x)]

/-! ### `ignore_qualifiers` -/

theorem lookup_filter_keys {V} (ign : List Nat) (p : List (Nat × V)) (name : Nat) :
    (p.filter (fun kv => !ign.contains kv.1)).lookup name = if name ∈ ign then none else p.lookup name := by
  induction p with
  | nil => simp
  | cons kv rest ih =>
    obtain ⟨k, v⟩ := kv
    simp only [List.filter_cons]
    by_cases hk : k ∈ ign
    · have : ign.contains k = true := by simpa using hk
      simp only [this, Bool.not_true, Bool.false_eq_true, ↓reduceIte, ih]
      by_cases hn : name ∈ ign
      · simp [hn]
      · have : name ≠ k := fun e => hn (e ▸ hk)
        have : (name == k) = false := by simpa using this
        simp [hn, List.lookup, this]
    · have : ign.contains k = false := by simpa using hk
      simp only [this, Bool.not_false, ↓reduceIte, List.lookup]
      by_cases e : name = k
      · subst e; simp [hk]
      · have : (name == k) = false := by simpa using e
        simp only [this, ih]

theorem keysNodup_filter {V} (f : Nat × V → Bool) (p : List (Nat × V)) (h : KeysNodup p) : KeysNodup (p.filter f) := by
  unfold KeysNodup at *
  exact (List.Nodup.sublist ((List.filter_sublist).map _) h)

theorem lookup_replace' {V} (p : List (Nat × V)) (name : Nat) (w : V) (n : Nat) :
    (p.map (fun kv => if kv.1 == name then (kv.1, w) else kv)).lookup n
      = if n = name then (p.lookup n).map (fun _ => w) else p.lookup n := by
  induction p with
  | nil => simp
  | cons kv rest ih =>
    obtain ⟨k, v⟩ := kv
    simp only [List.map_cons, List.lookup]
    by_cases hk : k = name
    · subst hk
      simp only [beq_self_eq_true, ↓reduceIte]
      by_cases hn : n = k
      · subst hn; simp [List.lookup]
      · have : (n == k) = false := by simpa using hn
        simp only [List.lookup, this, ih, hn, ↓reduceIte]
    · have hk' : (k == name) = false := by simpa using hk
      simp only [hk', Bool.false_eq_true, ↓reduceIte, List.lookup]
      by_cases hn : n = k
      · subst hn; simp [hk]
      · have : (n == k) = false := by simpa using hn
        simp only [this, ih]

theorem stripQualifiers_WF (iq : List Nat) (ii : Bool) (m : CellMethod) (h : CellMethodWF m) :
    CellMethodWF (stripQualifiers iq ii m) := keysNodup_filter _ _ h

/-- Nothing to ignore: the plain comparison. -/
theorem cellMethodCoreIQ_nil (close : Int → Int → Bool) (x y : CellMethod) :
    cellMethodCoreIQ close [] false x y = cellMethodCore close x y := by
  have h : ∀ m : CellMethod, stripQualifiers [] false m = m := by
    intro m
    simp [stripQualifiers]
  simp only [cellMethodCoreIQ, h]

/-- Only the value of qualifier `q` differs: the verdict is whether `q` is ignored. -/
theorem cellMethodCoreIQ_qualifier_only {close} (hc : CloseRefl close) (iq : List Nat) (ii : Bool) (x : CellMethod)
    (hx : CellMethodWF x) (q v w : Nat) (hv : x.quals.lookup q = some v) (hne : w ≠ v) :
    cellMethodCoreIQ close iq ii x { x with quals := x.quals.map (fun kv => if kv.1 == q then (kv.1, w) else kv) }
      = decide (q ∈ iq) := by
  apply Bool.eq_iff_iff.mpr
  unfold cellMethodCoreIQ
  rw [cellMethodCore_iff close _ _ (stripQualifiers_WF iq ii x hx)]
  simp only [CellMethodEq, stripQualifiers, DictEq, lookup_filter_keys, lookup_replace', decide_eq_true_eq]
  constructor
  · rintro ⟨_, h2, _, _⟩
    by_contra hn
    have := h2 q
    simp only [hn, ↓reduceIte, hv, Option.map_some, OptRel] at this
    exact hne this.symm
  · intro h
    refine ⟨by first | rfl | trivial, fun n => ?_, by first | rfl | trivial, fun i h0 h1 => DataEq.refl hc _ _ _ _⟩
    by_cases hn : n ∈ iq
    · simp [hn, OptRel]
    · have hnq : n ≠ q := fun e => hn (e ▸ h)
      simp only [hn, ↓reduceIte, hnq]
      exact OptRel.refl' (fun _ => rfl) _

/-- Only the intervals differ: the verdict is whether `'interval'` is ignored. -/
theorem cellMethodCoreIQ_intervals_only {close} (hc : CloseRefl close) (iq : List Nat) (ii : Bool) (x : CellMethod)
    (hx : CellMethodWF x) (ivs : List Data)
    (hne : ¬ (x.intervals.length = ivs.length ∧
      ∀ i (h0 : i < x.intervals.length) (h1 : i < ivs.length), DataEq close true true true x.intervals[i] ivs[i])) :
    cellMethodCoreIQ close iq ii x { x with intervals := ivs } = ii := by
  apply Bool.eq_iff_iff.mpr
  unfold cellMethodCoreIQ
  rw [cellMethodCore_iff close _ _ (stripQualifiers_WF iq ii x hx)]
  simp only [CellMethodEq, stripQualifiers]
  constructor
  · rintro ⟨_, _, h3, h4⟩
    cases ii with
    | true => rfl
    | false =>
      exfalso
      simp only [Bool.false_eq_true, ↓reduceIte] at h3 h4
      exact hne ⟨h3, h4⟩
  · intro h
    subst h
    exact ⟨by first | rfl | trivial, DictEq.refl (fun _ => rfl) _, by first | rfl | trivial, fun i h0 _ => by simp at h0⟩

theorem domainAxisEquals_symm (x y : Option Nat) : domainAxisEquals x y = domainAxisEquals y x := by
  unfold domainAxisEquals
  congr 1
  cases x <;> cases y <;> simp [eq_comm]

end Cfdm.Equality
