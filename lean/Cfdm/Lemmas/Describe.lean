import Cfdm.Model.Describe
import Cfdm.Spec.Describe
/- Helper lemmas for C19 (kept apart from the property theorems). Core Lean only. -/
namespace Cfdm.Describe

/-! ## Part 1 -/

theorem lookAll_some (names l : List Nat) : lookAll names l = some () ↔ ∀ a ∈ l, a ∈ names := by
  induction l with
  | nil => simp [lookAll]
  | cons a l ih =>
    simp only [lookAll, List.mem_cons, forall_eq_or_imp]
    by_cases h : names.contains a = true
    · simp only [h, if_true, ih]
      simp only [List.contains_iff_mem] at h
      simp [h]
    · simp only [h]
      simp only [List.contains_iff_mem] at h
      simp [h]

theorem forAll_some {α} (g : α → Option Unit) (l : List α) :
    forAll g l = some () ↔ ∀ x ∈ l, g x = some () := by
  induction l with
  | nil => simp [forAll]
  | cons x l ih =>
    simp only [forAll, List.mem_cons, forall_eq_or_imp]
    cases hx : g x with
    | none => simp
    | some u => simp [ih]

theorem opt_unit_ne_none (o : Option Unit) : o ≠ none ↔ o = some () := by
  cases o <;> simp

theorem mem_ofType {f : MField} {t : CType} {e : Entry} : e ∈ f.ofType t ↔ e ∈ f.cons ∧ e.key.t = t := by
  simp [MField.ofType]


theorem getD_axes_mem {names : List Nat} {e : Entry}
    (h : ∀ l, e.axes = some l → ∀ a ∈ l, a ∈ names) : ∀ a ∈ e.axes.getD [], a ∈ names := by
  cases he : e.axes with
  | none => simp
  | some l => simpa using h l he

theorem strItem_new (names : List Nat) (e : Entry) (h : ∀ a ∈ e.axes.getD [], a ∈ names) :
    strItem axesNew names e = some () := by
  simp only [strItem, axesNew]
  split
  · exact (lookAll_some _ _).mpr h
  · rfl

theorem dumpItem_new (names : List Nat) (e : Entry) (h : ∀ a ∈ e.axes.getD [], a ∈ names) :
    dumpItem axesNew names e = some () := by
  simp only [dumpItem, axesNew]
  split
  · exact (lookAll_some _ _).mpr h
  · rfl

theorem strItem_old (names : List Nat) (e : Entry) (hs : e.axes.isSome = true)
    (h : ∀ a ∈ e.axes.getD [], a ∈ names) : strItem axesOld names e = some () := by
  cases he : e.axes with
  | none => simp [he] at hs
  | some l =>
    simp only [strItem, axesOld, he]
    split
    · exact (lookAll_some _ _).mpr (by simpa [he] using h)
    · rfl

theorem dumpItem_old (names : List Nat) (e : Entry) (hs : e.axes.isSome = true)
    (h : ∀ a ∈ e.axes.getD [], a ∈ names) : dumpItem axesOld names e = some () := by
  cases he : e.axes with
  | none => simp [he] at hs
  | some l =>
    simp only [dumpItem, axesOld, he]
    split
    · exact (lookAll_some _ _).mpr (by simpa [he] using h)
    · rfl

/-- all four item formatters succeed on every construct, for `ax ∈ {axesNew, axesOld}` -/
theorem describeWith_ok (ax : Entry → Option (List Nat)) (f : MField) (h : AxesExist f)
    (hstr : ∀ e ∈ f.cons, strItem ax f.axisKeys e = some ())
    (hdump : ∀ e ∈ f.cons, dumpItem ax f.axisKeys e = some ())
    (hax : ∀ e ∈ f.cons, (ax e).map (fun _ => ()) = some ()) :
    describeWith ax f = some () := by
  have hd : lookAll f.axisKeys (f.dataAxes.getD []) = some () := (lookAll_some _ _).mpr h.1
  have S : ∀ t, forAll (strItem ax f.axisKeys) (f.ofType t) = some () := fun t =>
    (forAll_some _ _).mpr (fun e he => hstr e (mem_ofType.mp he).1)
  have D : ∀ t, forAll (dumpItem ax f.axisKeys) (f.ofType t) = some () := fun t =>
    (forAll_some _ _).mpr (fun e he => hdump e (mem_ofType.mp he).1)
  have A : forAll (fun e => (ax e).map (fun _ => ())) (f.ofType .dim) = some () :=
    (forAll_some _ _).mpr (fun e he => hax e (mem_ofType.mp he).1)
  have hsd : strDomain ax f = some () := by
    simp only [strDomain, S, A]
    cases f.axes.isEmpty <;> simp
  have hdd : dumpDomain ax f = some () := by
    simp only [dumpDomain, D]
  have hdl : dataLine f = some () := by
    simp only [dataLine]; split
    · exact hd
    · rfl
  have hr : reprF f = some () := by
    simp only [reprF]; split
    · rfl
    · exact hd
  simp only [describeWith, hr, strF, dumpF, hdl, S, D, hsd, hdd]
  cases f.isDomain <;> simp

theorem describeWith_new_ok (f : MField) (h : AxesExist f) : describe f = some () := by
  apply describeWith_ok axesNew f h
  · intro e he; exact strItem_new _ _ (getD_axes_mem (h.2 e he))
  · intro e he; exact dumpItem_new _ _ (getD_axes_mem (h.2 e he))
  · intro e _; simp [axesNew]

theorem describeWith_old_ok (f : MField) (h : AxesExist f) (hs : AllAxesSet f) :
    describeOld f = some () := by
  apply describeWith_ok axesOld f h
  · intro e he; exact strItem_old _ _ (hs e he) (getD_axes_mem (h.2 e he))
  · intro e he; exact dumpItem_old _ _ (hs e he) (getD_axes_mem (h.2 e he))
  · intro e he
    have := hs e he
    cases hx : e.axes with
    | none => simp [hx] at this
    | some l => simp [axesOld, hx]

theorem dumpItem_old_isSome (names : List Nat) (e : Entry) (h : dumpItem axesOld names e = some ()) :
    e.axes.isSome = true := by
  cases he : e.axes with
  | none => simp [dumpItem, axesOld, he] at h
  | some l => rfl

theorem typeCases (t : CType) : t = .dim ∨ t = .aux ∨ t = .dan ∨ t = .msr ∨ t = .top ∨ t = .con ∨ t = .fan := by
  cases t <;> simp

theorem dumpDomain_some (ax : Entry → Option (List Nat)) (f : MField) (h : dumpDomain ax f = some ()) :
    ∀ t, t ≠ CType.fan → forAll (dumpItem ax f.axisKeys) (f.ofType t) = some () := by
  simp only [dumpDomain] at h
  split at h; · simp at h
  split at h; · simp at h
  split at h; · simp at h
  split at h; · simp at h
  split at h; · simp at h
  intro t ht
  rcases typeCases t with rfl | rfl | rfl | rfl | rfl | rfl | rfl
  all_goals first | (exfalso; exact ht rfl) | assumption

theorem describeOld_needs (f : MField) (h : describeOld f = some ()) :
    ∀ e ∈ f.cons, (f.isDomain = false ∨ e.key.t ≠ CType.fan) → e.axes.isSome = true := by
  simp only [describeOld, describeWith] at h
  split at h; · simp at h
  split at h; · simp at h
  intro e he hdom
  have key : forAll (dumpItem axesOld f.axisKeys) (f.ofType e.key.t) = some () := by
    simp only [dumpF] at h
    split at h
    · rename_i hd
      have ht : e.key.t ≠ CType.fan := by
        rcases hdom with hdom | hdom
        · simp [hd] at hdom
        · exact hdom
      exact dumpDomain_some _ f h _ ht
    · split at h; · simp at h
      split at h; · simp at h
      rename_i u hfan
      by_cases ht : e.key.t = CType.fan
      · rw [ht]; cases u; exact hfan
      · exact dumpDomain_some _ f h _ ht
  exact dumpItem_old_isSome _ e ((forAll_some _ _).mp key e (mem_ofType.mpr ⟨he, rfl⟩))

theorem describe_needs_dataAxes (f : MField) (hd : f.isDomain = false) (h : describe f = some ()) :
    ∀ a ∈ f.dataAxes.getD [], a ∈ f.axisKeys := by
  simp only [describe, describeWith] at h
  split at h; · simp at h
  rename_i u hr
  simp only [reprF, hd] at hr
  cases u
  exact (lookAll_some _ _).mp (by simpa using hr)

end Cfdm.Describe
